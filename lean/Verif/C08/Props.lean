/-
C08 — property theorems (TSDB record encoding is injective, delimiter-safe and type-faithful).
Only property statements live here; every proof is a reference to a lemma of Lemmas.lean, so a
statement cannot be weakened quietly to make a proof pass.
-/
import Verif.C08.Lemmas
import Verif.Generated.TablesC08
import Verif.C08.DateLemmas
import Verif.C08.SpellingLemmas
import Verif.C08.TypedLemmas

namespace Verif.C08
open Verif.Py Verif.Tables

/-! ## "escape and unescape are mutually inverse and unescape rejects malformed escapes" -/

/-- unescape undoes escape, for every string. -/
theorem unescape_escape (s : List Char) : unescape (escape s) = .ok s := L.unescape_escape s

/-- escape undoes unescape on everything unescape accepts that could be an escaped value
(no raw newline, no raw delimiter): the two functions are mutually inverse on the image of escape. -/
theorem escape_unescape (t s : List Char) (h : unescape t = .ok s) (hn : '\n' ∉ t) (hd : '@' ∉ t) :
    escape s = t := L.escape_unescape t s h hn hd

/-- unescape succeeds exactly on well-escaped text (every backslash followed by one of `\ s n`);
everything else is an error, never a guess. -/
theorem unescape_rejects (t : List Char) : (∃ s, unescape t = .ok s) ↔ WellEscaped t = true :=
  L.unescape_ok_iff t

/-- an escaped value contains neither a raw newline nor a raw field delimiter. -/
theorem escape_safe (s : List Char) : '\n' ∉ escape s ∧ '@' ∉ escape s := L.escape_safe s

/-- two different values never have the same encoding. -/
theorem escape_injective (a b : List Char) (h : escape a = escape b) : a = b := L.escape_injective a b h

/-! ## "joining … and splitting that line returns the same values … exactly one field delimiter per
column boundary … never contains a raw newline" -/

/-- exactly one delimiter per column boundary. -/
theorem join_delims (vs : List (Option (List Char))) (hne : vs ≠ []) :
    (joinRaw vs).count fieldDelimiter = vs.length - 1 := by
  have := count_joinWith '@' (vs.map (fun v => escape (v.getD []))) (by simpa using hne) (cols_no_delim vs)
  simpa [joinRaw, tables_ok.2] using this

/-- the encoded line never contains a raw newline. -/
theorem join_no_newline (vs : List (Option (List Char))) : '\n' ∉ joinRaw vs := by
  unfold joinRaw
  rw [tables_ok.2]
  apply not_mem_joinWith '@' '\n' _ (by decide)
  intro p hp
  simp only [List.mem_map] at hp
  obtain ⟨v, _, rfl⟩ := hp
  exact (L.escape_safe _).1

/-- split ∘ join is the identity on records (the empty string and None coincide), with or without
the trailing newline of a relation file line. -/
theorem split_join (vs : List (Option (List Char))) (hne : vs ≠ []) :
    splitRaw (joinRaw vs) = .ok (vs.map normEmpty)
    ∧ splitRaw (joinRaw vs ++ ['\n']) = .ok (vs.map normEmpty) := by
  have hnl := join_no_newline vs
  have core : splitRaw (joinRaw vs) = .ok (vs.map normEmpty) := by
    unfold splitRaw
    rw [rstripChar_not_mem _ _ hnl]
    unfold joinRaw
    rw [tables_ok.2, splitOn_joinWith '@' _ (by simpa using hne) (cols_no_delim vs)]
    exact mapM_cols vs
  refine ⟨core, ?_⟩
  have : splitRaw (joinRaw vs ++ ['\n']) = splitRaw (joinRaw vs) := by
    unfold splitRaw
    rw [rstripChar_snoc]
  rw [this, core]

/-- no value can create, merge or shift columns: records with the same encoding are equal
(modulo ''/None). -/
theorem join_injective (vs ws : List (Option (List Char))) (hv : vs ≠ []) (hw : ws ≠ [])
    (h : joinRaw vs = joinRaw ws) : vs.map normEmpty = ws.map normEmpty := by
  have a := (split_join vs hv).1
  have b := (split_join ws hw).1
  rw [h, b] at a
  exact (Except.ok.inj a).symm

/-! ## "casting the formatted form of an integer … returns the original value" -/

theorem castInt_formatInt (i : Int) : castInt (formatInt i) = .ok i := L.castInt_formatInt i

/-- strings: the formatted form is the string itself and casting a non-empty raw value is the identity.
(TRIVIAL BY DEFINITION: `format` and `cast` of the model are the identity on `:string`; what ties this to the
code is the correspondence run and the direct oracle, not this theorem.) -/
theorem castStr_formatStr (s : List Char) (h : s ≠ []) :
    cast .string (format .string (.str s)) = .val (.str s) := by
  cases s with
  | nil => exact absurd rfl h
  | cons c s => simp [format, cast]

/-- "casting the formatted form of a … date-time (second resolution, years 1000-9999) returns the original value":
the text `tsdb.format(':date', t)` produces is parsed back to `t` by the two date patterns, `_date_fix`
and the `strptime` acceptance model, for every calendar-valid instant. -/
theorem parseDate_formatDate (t : DT) (hv : t.Valid = true) : parseDate (formatDate t) = .ok t :=
  L.parseDate_formatDate t hv

theorem cast_format_date (t : DT) (hv : t.Valid = true) :
    cast .date (format .date (.date t)) = .val (.date t) := by
  have hne : (formatDate t).isEmpty = false := by
    unfold formatDate
    cases h : natDigits t.d with
    | nil => exact absurd h (L.natDigits_ne_nil _)
    | cons _ _ => rfl
  simp [cast, format, hne, L.parseDate_formatDate t hv]

/-- integers through the typed interface (note `format .integer none = "-1"`, the documented default). -/
theorem cast_format_int (i : Int) : cast .integer (format .integer (.int i)) = .val (.int i) := by
  have hne : (formatInt i).isEmpty = false := by
    cases i with
    | ofNat n =>
      simp only [formatInt]
      cases h : natDigits n with
      | nil => exact absurd h (L.natDigits_ne_nil _)
      | cons _ _ => rfl
    | negSucc n => rfl
  simp [cast, format, hne, L.castInt_formatInt i]

example : (⟨2000, 2, 29, 23, 59, 59⟩ : DT).Valid = true := by decide
example : (⟨1900, 2, 29, 0, 0, 0⟩ : DT).Valid = false := by decide

/-! ## "a row object always exposes exactly the cast of its stored raw data by index, slice, name and iteration" -/

/-- (DEFINITIONAL restatement of `Row.iter`; the independent specification is `row_iter_spec` below.)
iteration is the cast of each stored raw datum (definition of the model, stated for the record):
the row built from values stores `format` of each value and iteration yields `cast` of each. -/
theorem row_iter (ts : List DType) (ns : List (List Char)) (vs : List Val) :
    (mkRow ts ns vs).iter = List.zipWith cast ts (List.zipWith format ts vs) := rfl

/-- indexing with any integer (negative indices included, out of range = IndexError) is indexing
the iteration. -/
theorem row_index (r : Row) (i : Int) (hl : r.types.length = r.data.length) :
    r.getIdx i = getIndex r.iter i := L.row_getIdx r i hl

/-- slicing with any start/stop/step (step 0 = ValueError) is slicing the iteration. -/
theorem row_slice (r : Row) (sl : Slice) (hl : r.types.length = r.data.length) :
    r.getSlice sl = Py.getSlice r.iter sl := L.row_getSlice r sl hl

/-- (DEFINITIONAL restatement of `Row.getName`; the independent specifications are `row_name_dict`,
`row_name_last_wins`, `row_name_missing` below.)
access by name is access by the (last) index carrying that name; unknown name = KeyError. -/
theorem row_name (r : Row) (k : List Char) :
    r.getName k =
      match ((List.range r.names.length).filter (fun i => r.names[i]? = some k)).getLast? with
      | none => none
      | some i => r.getIdx i := rfl

/-- the hypothesis of `row_index`/`row_slice` holds for every row built by the constructor
(`Row.__init__` rejects a length mismatch). -/
theorem mkRow_wf (ts : List DType) (ns : List (List Char)) (vs : List Val) (hl : ts.length = vs.length) :
    (mkRow ts ns vs).types.length = (mkRow ts ns vs).data.length := L.mkRow_lengths ts ns vs hl

/-! ## non-vacuity and concrete instances (tests, labelled as such) -/

example : escape ['a', '@', '\\', '\n'] = ['a', '\\', 's', '\\', '\\', '\\', 'n'] := by decide
example : unescape ['\\', 'x'] = .error .tsdbError := by rfl
example : joinRaw [some ['a', '@'], none, some []] = ['a', '\\', 's', '@', '@'] := by decide
example : splitRaw ['a', '\\', 's', '@', '@', '\n'] = .ok [some ['a', '@'], none, none] := by rfl
example : castInt (formatInt (-120)) = .ok (-120) := by rfl
example : parseDate "8-sep-1999".toList = .ok ⟨1999, 9, 8, 0, 0, 0⟩ := by decide
example : parseDate "apr-95 (15:31:01)".toList = .ok ⟨1995, 4, 1, 15, 31, 1⟩ := by decide
example : parseDate (formatDate ⟨2002, 12, 1, 15, 31, 1⟩) = .ok ⟨2002, 12, 1, 15, 31, 1⟩ := by decide

end Verif.C08

namespace Verif.C08
open Verif.Py Verif.Tables

/-! ## "all documented date spellings denote the same instants" -/

/-- "all documented date spellings denote the same instants": for every calendar-valid instant `t`
(years 1000–9999) and every documented spelling `sp` that fits `t` — order `D-M-Y` or `YYYY-M-D`; day of
1 or 2 digits, with or without a leading zero, or absent; month of 1 or 2 digits, with or without a
leading zero, or the three-letter name in any of its 8 letter-case variants; year of 4 digits, or of 2
digits in `D-M-Y` order for 1993–2092; time absent, `HH:MM` or `HH:MM:SS`, bare or parenthesised, after
one or more spaces (`Spelling`, `render`, `SpellingFits` in Spelling.lean) — the text is parsed by the
two date patterns, `_date_fix` and the `strptime` acceptance model to `truncate sp t`, the instant with
what the spelling omits zeroed (day ↦ 1, seconds / whole time ↦ 0). -/
theorem spellings_agree (sp : Spelling) (t : DT) (hv : t.Valid = true) (hf : SpellingFits sp t = true) :
    parseDate (render sp t) = .ok (truncate sp t) := L.spellings_agree sp t hv hf

/-- the same clause through `cast` (a rendered spelling is never the empty string). -/
theorem cast_spelling (sp : Spelling) (t : DT) (hv : t.Valid = true) (hf : SpellingFits sp t = true) :
    cast .date (render sp t) = .val (.date (truncate sp t)) := by
  have hne : (render sp t).isEmpty = false := by
    obtain ⟨order, day, month, year, time⟩ := sp
    cases order <;> simp [render]
  simp [cast, hne, L.spellings_agree sp t hv hf]

/-- "denote the same instants", literally: two documented spellings of `t` that omit the same parts
(or whose omitted parts are zero in `t` anyway) are cast to the same value. -/
theorem spellings_same_instant (sp₁ sp₂ : Spelling) (t : DT) (hv : t.Valid = true)
    (h₁ : SpellingFits sp₁ t = true) (h₂ : SpellingFits sp₂ t = true) (he : truncate sp₁ t = truncate sp₂ t) :
    parseDate (render sp₁ t) = parseDate (render sp₂ t) := by
  rw [L.spellings_agree sp₁ t hv h₁, L.spellings_agree sp₂ t hv h₂, he]

/-- a spelling with a day and seconds omits nothing: it denotes `t` itself, as the `format()` spelling does
(`parseDate_formatDate`). -/
theorem spelling_full (sp : Spelling) (t : DT) (hv : t.Valid = true) (hf : SpellingFits sp t = true)
    (hd : sp.day ≠ .absent) (ht : ∃ g p, sp.time = .hms g p) : parseDate (render sp t) = .ok t := by
  rw [L.spellings_agree sp t hv hf]
  obtain ⟨order, day, month, year, time⟩ := sp
  obtain ⟨g, p, rfl⟩ := ht
  cases day with
  | absent => exact absurd rfl hd
  | plain => rfl
  | padded => rfl

/-! concrete spellings of the `tsdb.cast` docstring are instances of the family (tests, labelled as such):
the text is `render sp t`, the documented value is `truncate sp t`, and the hypotheses hold. -/

-- `tsdb.cast(':date', '10-6-2002') == datetime(2002, 6, 10, 0, 0)`
example : render ⟨.dmy, .plain, .plain, .four, .absent⟩ ⟨2002, 6, 10, 0, 0, 0⟩ = "10-6-2002".toList
    ∧ truncate ⟨.dmy, .plain, .plain, .four, .absent⟩ ⟨2002, 6, 10, 0, 0, 0⟩ = ⟨2002, 6, 10, 0, 0, 0⟩
    ∧ SpellingFits ⟨.dmy, .plain, .plain, .four, .absent⟩ ⟨2002, 6, 10, 0, 0, 0⟩ = true
    ∧ (⟨2002, 6, 10, 0, 0, 0⟩ : DT).Valid = true := by decide
-- `tsdb.cast(':date', '8-sep-1999') == datetime(1999, 9, 8, 0, 0)`
example : render ⟨.dmy, .plain, .name false false false, .four, .absent⟩ ⟨1999, 9, 8, 0, 0, 0⟩ = "8-sep-1999".toList
    ∧ truncate ⟨.dmy, .plain, .name false false false, .four, .absent⟩ ⟨1999, 9, 8, 0, 0, 0⟩ = ⟨1999, 9, 8, 0, 0, 0⟩
    ∧ SpellingFits ⟨.dmy, .plain, .name false false false, .four, .absent⟩ ⟨1999, 9, 8, 0, 0, 0⟩ = true
    ∧ (⟨1999, 9, 8, 0, 0, 0⟩ : DT).Valid = true := by decide
-- `tsdb.cast(':date', 'apr-95') == datetime(1995, 4, 1, 0, 0)` (any instant of April 1995 is spelled so)
example : render ⟨.dmy, .absent, .name false false false, .two, .absent⟩ ⟨1995, 4, 17, 9, 30, 2⟩ = "apr-95".toList
    ∧ truncate ⟨.dmy, .absent, .name false false false, .two, .absent⟩ ⟨1995, 4, 17, 9, 30, 2⟩ = ⟨1995, 4, 1, 0, 0, 0⟩
    ∧ SpellingFits ⟨.dmy, .absent, .name false false false, .two, .absent⟩ ⟨1995, 4, 17, 9, 30, 2⟩ = true
    ∧ (⟨1995, 4, 17, 9, 30, 2⟩ : DT).Valid = true := by decide
-- `tsdb.cast(':date', '01-dec-02 (15:31:01)') == datetime(2002, 12, 1, 15, 31, 1)`
example : render ⟨.dmy, .padded, .name false false false, .two, .hms 0 true⟩ ⟨2002, 12, 1, 15, 31, 1⟩
      = "01-dec-02 (15:31:01)".toList
    ∧ truncate ⟨.dmy, .padded, .name false false false, .two, .hms 0 true⟩ ⟨2002, 12, 1, 15, 31, 1⟩
      = ⟨2002, 12, 1, 15, 31, 1⟩
    ∧ SpellingFits ⟨.dmy, .padded, .name false false false, .two, .hms 0 true⟩ ⟨2002, 12, 1, 15, 31, 1⟩ = true
    ∧ (⟨2002, 12, 1, 15, 31, 1⟩ : DT).Valid = true := by decide
-- `tsdb.cast(':date', '2008-10-12 10:51') == datetime(2008, 10, 12, 10, 51)`
example : render ⟨.ymd, .plain, .plain, .four, .hm 0 false⟩ ⟨2008, 10, 12, 10, 51, 33⟩ = "2008-10-12 10:51".toList
    ∧ truncate ⟨.ymd, .plain, .plain, .four, .hm 0 false⟩ ⟨2008, 10, 12, 10, 51, 33⟩ = ⟨2008, 10, 12, 10, 51, 0⟩
    ∧ SpellingFits ⟨.ymd, .plain, .plain, .four, .hm 0 false⟩ ⟨2008, 10, 12, 10, 51, 33⟩ = true
    ∧ (⟨2008, 10, 12, 10, 51, 33⟩ : DT).Valid = true := by decide
-- … hence the documented value, as an instance of the theorem
example : parseDate "01-dec-02 (15:31:01)".toList = .ok ⟨2002, 12, 1, 15, 31, 1⟩ :=
  spellings_agree ⟨.dmy, .padded, .name false false false, .two, .hms 0 true⟩ ⟨2002, 12, 1, 15, 31, 1⟩
    (by decide) (by decide)
-- other members of the family: mixed case, leading-zero month with a 1-digit day, two spaces, `(HH:MM)`
example : render ⟨.dmy, .plain, .padded, .four, .hm 1 true⟩ ⟨1999, 9, 8, 7, 5, 9⟩ = "8-09-1999  (07:05)".toList := by decide
example : render ⟨.ymd, .absent, .name true false true, .four, .absent⟩ ⟨1999, 9, 8, 7, 5, 9⟩ = "1999-SeP".toList := by decide
-- the fit condition is needed: a 2-digit year outside 1993–2092 is read into that window
-- (the docstring's "users are advised to start using 4-digit years by, at least, the year 2093")
example : parseDate (render ⟨.dmy, .plain, .plain, .two, .absent⟩ ⟨2093, 1, 1, 0, 0, 0⟩) = .ok ⟨1993, 1, 1, 0, 0, 0⟩ := by decide
example : SpellingFits ⟨.dmy, .plain, .plain, .two, .absent⟩ ⟨2093, 1, 1, 0, 0, 0⟩ = false := by decide
example : SpellingFits ⟨.ymd, .plain, .plain, .two, .absent⟩ ⟨2000, 1, 1, 0, 0, 0⟩ = false := by decide

end Verif.C08

namespace Verif.C08
open Verif.Tables

/-! ## Pins: the constants of the anchored functions that the hand-written model mirrors

`TablesC08.lean` is regenerated on every run from the code objects of `tsdb._parse_datetime`,
`_date_fix` and `format` (`escape` and `unescape` are tied more strongly: their source text is translated and proved
equal to the model in `Translated.lean`) (string and number constants; docstrings and message
texts left out; the two `re.VERBOSE` patterns with their layout white space removed).  The model's
`matchYMD`/`matchDMY`/`parseTime`/`dateFix`/`strptimeFixed`/`formatDate`/`escape`/`unescape` are
hand-coded equivalents of exactly these patterns and constants, so a change to any of them must be
followed in the model: this theorem stops checking, which the check reports as a broken proof
obligation and then searches for a failing input. -/
theorem c08_pins :
    c08ParseDatetimeConsts =
      [":?(today|now)",
       "(?P<y>[0-9]{4})-(?P<m>[0-9]{1,2}|\\w{3})(?:-(?P<d>[0-9]{1,2}))?(?:\\s*\\(?(?P<H>[0-9]{2}):(?P<M>[0-9]{2})(?::(?P<S>[0-9]{2}))?\\)?)?",
       "(?:(?P<d>[0-9]{1,2})-)?(?P<m>[0-9]{1,2}|\\w{3})-(?P<y>[0-9]{2}(?:[0-9]{2})?)(?:\\s*\\(?(?P<H>[0-9]{2}):(?P<M>[0-9]{2})(?::(?P<S>[0-9]{2}))?\\)?)?",
       "%Y-%m-%d %H:%M:%S"]
    ∧ c08DateFixConsts = ["y", "2", "93", "19", "20", "m", "3", "d", "01", "H", "00", "M", "S", "-", " ", ":"]
    ∧ c08FormatConsts = [":integer", "-1", "", ":date", "-", "-%Y", " %H:%M:%S"] := by
  refine ⟨?_, ?_, ?_⟩ <;> rfl

end Verif.C08

namespace Verif.C08
open Verif.Py Verif.Tables

/-! ## `Row` access against independent specifications

"a row object always exposes exactly the cast of its stored raw data by index, slice, name and iteration" -/

/-- iteration yields, position by position, the cast of the stored raw datum with the datatype of the field
at that position, and nothing else (as many items as columns). -/
theorem row_iter_spec (r : Row) (hl : r.types.length = r.data.length) :
    r.iter.length = r.data.length ∧
    ∀ i (h1 : i < r.types.length) (h2 : i < r.data.length), r.iter[i]? = some (cast r.types[i] r.data[i]) :=
  ⟨by rw [iter_length, hl, Nat.min_self], fun i h1 h2 => iter_getElem r i h1 h2⟩

/-- the same as one equation: `tuple(row) = [cast(fields[i].datatype, data[i]) for i in range(len(data))]`. -/
theorem row_iter_ofFn (r : Row) (hl : r.types.length = r.data.length) :
    r.iter = List.ofFn (fun i : Fin r.data.length => cast (r.types[i.1]'(by have := i.2; omega)) r.data[i.1]) := by
  apply List.ext_getElem
  · rw [iter_length, List.length_ofFn]; omega
  · intro i h1 h2
    have h2' : i < r.data.length := by simpa using h2
    have := iter_getElem r i (by omega) h2'
    rw [List.getElem?_eq_getElem h1] at this
    simpa using Option.some.inj this

/-- access by name goes through the dict `{field.name: i for i, field in enumerate(fields)}`
(`make_field_index`; `dictIndex` folds the assignments left to right, a later one overwriting an earlier
one): unknown name = KeyError, otherwise the value at the index the dict holds. -/
theorem row_name_dict (r : Row) (k : List Char) :
    r.getName k = match dictIndex r.names k with
      | none => none
      | some i => r.getIdx i := by
  unfold Row.getName
  simp only [getLast_filter_dict]
  rfl

/-- the index the dict holds is the LAST position of the name, found by searching from the end. -/
theorem field_index_last (names : List (List Char)) (k : List Char) : dictIndex names k = lastIndexOf names k :=
  dictIndex_eq_last names k

/-- "last one wins" for a repeated field name, as a characterisation: `row[name]` is `v` exactly when `v`
is the value at a position `i` that carries the name while no later position does. -/
theorem row_name_last_wins (r : Row) (k : List Char) (v : CastRes) :
    r.getName k = some v ↔
      ∃ i, i < r.names.length ∧ r.names[i]? = some k ∧ (∀ j, i < j → j < r.names.length → r.names[j]? ≠ some k)
        ∧ r.getIdx i = some v := by
  unfold Row.getName
  constructor
  · intro h
    cases hg : ((List.range r.names.length).filter (fun i => r.names[i]? = some k)).getLast? with
    | none => simp [hg] at h
    | some i =>
      simp only [hg] at h
      obtain ⟨h1, h2, h3⟩ := (getLast_filter_iff _ _ i).mp hg
      exact ⟨i, h1, by simpa using h2, fun j a b => by simpa using h3 j a b, h⟩
  · rintro ⟨i, h1, h2, h3, h4⟩
    have : ((List.range r.names.length).filter (fun i => r.names[i]? = some k)).getLast? = some i :=
      (getLast_filter_iff _ _ i).mpr ⟨h1, by simpa using h2, fun j a b => by simpa using h3 j a b⟩
    simp only [this, h4]

/-- a name no field carries is a KeyError. -/
theorem row_name_missing (r : Row) (k : List Char) (h : k ∉ r.names) : r.getName k = none := by
  cases hg : r.getName k with
  | none => rfl
  | some v =>
    obtain ⟨i, h1, h2, _⟩ := (row_name_last_wins r k v).mp hg
    exact absurd (List.mem_of_getElem? h2) h

example : (mkRow [.integer, .string, .string] ["a".toList, "b".toList, "a".toList]
    [.int 1, .str "x".toList, .str "y".toList]).getName "a".toList = some (.val (.str "y".toList)) := by decide

/-! ## typed `split(line, fields)` / `join(values, fields)`

"joining … and splitting that line returns the same values" through the typed interface: column-count
check, `Field.default` for `None`, `cast` per datatype. -/

/-- `join(values, fields)` with a wrong number of values is a `TSDBError`, whatever the values. -/
theorem join_typed_count_mismatch (fields : List Field) (vals : List Val) (hne : fields ≠ [])
    (hl : vals.length ≠ fields.length) : joinTyped fields vals = .error .tsdbError := by
  have he : fields.isEmpty = false := by cases fields <;> simp_all
  simp [joinTyped, he, hl]

/-- `split(line, fields)` on a line with a wrong number of columns is a `TSDBError` — no column is cast,
shifted or dropped. -/
theorem split_typed_count_mismatch (fields : List Field) (line : List Char) (raw : List (Option (List Char)))
    (hne : fields ≠ []) (hr : splitRaw line = .ok raw) (hl : raw.length ≠ fields.length) :
    splitTyped fields line = .error .tsdbError := by
  have he : fields.isEmpty = false := by cases fields <;> simp_all
  simp [splitTyped, hr, he, hl]

/-- a malformed escape is reported before anything else. -/
theorem split_typed_bad_escape (fields : List Field) (line : List Char) (e : Err) (hr : splitRaw line = .error e) :
    splitTyped fields line = .error e := by
  simp [splitTyped, hr]

/-- the typed encoding is the raw encoding of the formatted columns: exactly one delimiter per column
boundary and no raw newline (`join_delims`, `join_no_newline` apply). -/
theorem join_typed_safe (fields : List Field) (vals : List Val) (hne : fields ≠ [])
    (hl : vals.length = fields.length) :
    ∃ line, joinTyped fields vals = .ok line ∧ line.count fieldDelimiter = fields.length - 1 ∧ '\n' ∉ line := by
  refine ⟨_, joinTyped_eq_joinRaw fields vals hne hl, ?_, join_no_newline _⟩
  have hcne : (List.zipWith formatField fields vals).map some ≠ [] := by
    cases fields with
    | nil => exact absurd rfl hne
    | cons f fs => cases vals with
      | nil => simp at hl
      | cons v vs => simp
  rw [join_delims _ hcne]
  simp [hl]

/-- typed split ∘ typed join: a record whose values fit their columns (`Fits`: integer in `:integer`,
string in `:string`, calendar-valid date-time of the years 1000–9999 in `:date`, `None` anywhere) is read back
as itself up to the documented exceptions (`readBack`): `None` ↦ the cast of the field's default (`-1` for
`:integer`, the coded attribute's value, else `None`) and `''` ↦ `None`; with or without the line terminator. -/
theorem split_join_typed (fields : List Field) (vals : List Val) (hne : fields ≠ [])
    (hl : vals.length = fields.length) (hf : ∀ p ∈ fields.zip vals, Fits p.1 p.2) :
    ∃ line, joinTyped fields vals = .ok line
      ∧ splitTyped fields line = .ok (List.zipWith readBack fields vals)
      ∧ splitTyped fields (line ++ ['\n']) = .ok (List.zipWith readBack fields vals) := by
  refine ⟨_, joinTyped_eq_joinRaw fields vals hne hl, ?_, ?_⟩
  all_goals
    have hcne : (List.zipWith formatField fields vals).map some ≠ [] := by
      cases fields with
      | nil => exact absurd rfl hne
      | cons f fs => cases vals with
        | nil => simp at hl
        | cons v vs => simp
    have hs := split_join _ hcne
    have hlen : (((List.zipWith formatField fields vals).map some).map normEmpty).length = fields.length := by
      simp [hl]
  · rw [splitTyped_of_raw fields _ _ hne hs.1 hlen, zip_cells, cells_ok fields vals hl hf]
  · rw [splitTyped_of_raw fields _ _ hne hs.2 hlen, zip_cells, cells_ok fields vals hl hf]

/-- `None` is always readable: the default of every field casts to a value (for the coded attributes of
the generated table, pinned in `coded_pin`). -/
theorem typed_default_casts (f : Field) : castPy f.dt f.default = .val (defaultVal f) := default_casts f

/-- a field that is not a coded attribute: `None` is written as `-1` in an `:integer` column and reads back
as the integer −1 ("cast is the inverse of format except for integer values of -1 … and coded defaults");
in the other columns it is written as the empty string and reads back as `None`. -/
theorem typed_default_uncoded (f : Field) (h : codedAttributes.find? (fun p => p.1.toList == f.name) = none) :
    f.default = (if f.dt = .integer then ['-', '1'] else []) ∧
    defaultVal f = (if f.dt = .integer then .int (-1) else .none) := default_uncoded f h

example : defaultVal ⟨"i-wf".toList, .integer⟩ = .int 1 ∧ defaultVal ⟨"polarity".toList, .integer⟩ = .int (-1)
    ∧ defaultVal ⟨"i-difficulty".toList, .string⟩ = .str "1".toList ∧ defaultVal ⟨"i-wf".toList, .date⟩ = .none
    ∧ defaultVal ⟨"i-id".toList, .integer⟩ = .int (-1) ∧ defaultVal ⟨"i-input".toList, .string⟩ = .none := by decide
example : joinTyped [⟨"i-id".toList, .integer⟩, ⟨"i-input".toList, .string⟩] [.none, .str "a@b".toList]
    = .ok "-1@a\\sb".toList := by decide
example : splitTyped [⟨"i-id".toList, .integer⟩, ⟨"i-input".toList, .string⟩] "-1@ab\n".toList
    = .ok [.int (-1), .str "ab".toList] := by decide
example : splitTyped [⟨"i-id".toList, .integer⟩] "1@2".toList = .error .tsdbError := by decide
example : splitTyped [⟨"i-id".toList, .integer⟩] "x".toList = .error .valueError := by decide

/-! ## the wider `int()` / date casts agree with the core ones -/

/-- wherever the core model of `int()` (`[+-]?[0-9]+`) gives an answer, the wider one (ASCII blanks at both
ends, PEP 515 underscores) gives the same: the theorems stated for `castInt`/`cast` carry over. -/
theorem castIntPy_refines (s : List Char) (h : castInt s ≠ .error .unmodelled) : castIntPy s = castInt s :=
  L.castIntPy_refines s h

theorem castPy_refines (dt : DType) (raw : List Char) (ha : raw.all isAscii = true) (ht : isTodayNow raw = false)
    (h : cast dt raw ≠ .err .unmodelled) : castPy dt raw = cast dt raw := L.castPy_refines dt raw ha ht h

/-- the round trips through the wider cast. -/
theorem castPy_format_int (i : Int) : castPy .integer (format .integer (.int i)) = .val (.int i) :=
  castPy_formatInt i

theorem castPy_format_date (t : DT) (hv : t.Valid = true) : castPy .date (format .date (.date t)) = .val (.date t) :=
  castPy_formatDate t hv

example : castIntPy "1_0".toList = .ok 10 ∧ castIntPy " -1_2 ".toList = .ok (-12) ∧ castIntPy "\t1\n".toList = .ok 1
    ∧ castIntPy "1__0".toList = .error .valueError ∧ castIntPy "_1".toList = .error .valueError
    ∧ castIntPy "1_".toList = .error .valueError ∧ castIntPy "- 1".toList = .error .valueError
    ∧ castIntPy [Char.ofNat 31, '1'] = .error .valueError ∧ castIntPy " ".toList = .error .valueError := by decide
example : parseDatePy "1".toList = .invalid ∧ parseDatePy "today".toList = .unmodelled
    ∧ parseDatePy "now-95".toList = .unmodelled := by decide
example : parseDate ("1-2-2003".toList ++ [Char.ofNat 31] ++ "10:51".toList) = .ok ⟨2003, 2, 1, 10, 51, 0⟩ := by decide

end Verif.C08
