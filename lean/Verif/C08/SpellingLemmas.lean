/-
C08: compositional lemmas for "all documented date spellings denote the same instants".
Every sub-parser of the model (`takeDigits`, `parseMonthDash`, the year piece of `matchDMY`, `parseTime`)
gets a lemma with an ARBITRARY remainder; they are composed into `matchYMD` / `matchDMY` on the pieces
of a rendered spelling, then `dateFix` and `strptimeFixed` are evaluated with digit-value lemmas.
-/
import Verif.C08.Spelling
import Verif.C08.DateLemmas

namespace Verif.C08
open Verif.Py Verif.Tables

/-! ### characters -/

theorem dg_not_word_sep (c : Char) (h : isDigit c = true) : isAsciiWord c = true := by
  simp [isAsciiWord, h]

theorem word_ne (c : Char) (h : isAsciiWord c = true) : c ≠ '-' ∧ c ≠ ' ' ∧ c ≠ ':' ∧ c ≠ '(' := by
  refine ⟨?_, ?_, ?_, ?_⟩ <;> (intro e; subst e; exact absurd h (by decide))

/-- the remainder does not go on with a digit. -/
def NoDigitHead : List Char → Bool
  | [] => true
  | c :: _ => !isDigit c

/-! ### `takeDigits` on digit runs, arbitrary remainder -/

theorem takeDigits12_one (a : Char) (r : List Char) (ha : isDigit a = true) (hr : NoDigitHead r = true) :
    takeDigits 1 2 (a :: r) = some ([a], r) := by
  cases r with
  | nil => simp [takeDigits, List.takeWhile, ha]
  | cons c r =>
    have hc : isDigit c = false := by simpa [NoDigitHead] using hr
    simp [takeDigits, List.takeWhile, ha, hc]

theorem takeDigits12_two (a b : Char) (r : List Char) (ha : isDigit a = true) (hb : isDigit b = true) :
    takeDigits 1 2 (a :: b :: r) = some ([a, b], r) := by
  simp [takeDigits, List.takeWhile, ha, hb, List.take]

theorem takeDigits12_none (r : List Char) (hr : NoDigitHead r = true) : takeDigits 1 2 r = none := by
  cases r with
  | nil => simp [takeDigits]
  | cons c r =>
    have hc : isDigit c = false := by simpa [NoDigitHead] using hr
    simp [takeDigits, List.takeWhile, hc]

theorem takeDigits24_two (a b : Char) (r : List Char) (ha : isDigit a = true) (hb : isDigit b = true)
    (hr : NoDigitHead r = true) : takeDigits 2 4 (a :: b :: r) = some ([a, b], r) := by
  cases r with
  | nil => simp [takeDigits, List.takeWhile, ha, hb]
  | cons c r =>
    have hc : isDigit c = false := by simpa [NoDigitHead] using hr
    simp [takeDigits, List.takeWhile, ha, hb, hc]

theorem takeDigits24_four (a b c d : Char) (r : List Char) (ha : isDigit a = true) (hb : isDigit b = true)
    (hc : isDigit c = true) (hd : isDigit d = true) :
    takeDigits 2 4 (a :: b :: c :: d :: r) = some ([a, b, c, d], r) := by
  simp [takeDigits, List.takeWhile, ha, hb, hc, hd, List.take]

/-! ### `parseMonthDash`: numeric / name month followed by `-`, arbitrary remainder -/

theorem parseMonthDash_one (a : Char) (r : List Char) (ha : isDigit a = true) :
    parseMonthDash (a :: '-' :: r) = some ([a], r) := by
  have hm : isDigit '-' = false := by decide
  cases r with
  | nil => simp [parseMonthDash, ha, Option.orElse]
  | cons c r =>
    by_cases hc : c = '-'
    · subst hc; simp [parseMonthDash, ha, hm, Option.orElse]
    · simp [parseMonthDash, ha, hc, Option.orElse]

theorem parseMonthDash_two (a b : Char) (r : List Char) (ha : isDigit a = true) (hb : isDigit b = true) :
    parseMonthDash (a :: b :: '-' :: r) = some ([a, b], r) := by
  simp [parseMonthDash, ha, hb, Option.orElse]

theorem parseMonthDash_name (a b c : Char) (r : List Char)
    (wa : isAsciiWord a = true) (wb : isAsciiWord b = true) (wc : isAsciiWord c = true) :
    parseMonthDash (a :: b :: c :: '-' :: r) = some ([a, b, c], r) := by
  obtain ⟨nb, _⟩ := word_ne b wb
  obtain ⟨nc, _⟩ := word_ne c wc
  simp [parseMonthDash, wa, wb, wc, nb, nc, Option.orElse]

/-- the year (2 digits, then end of text or a space) is not a month followed by `-`. -/
theorem parseMonthDash_year2 (a b : Char) (r : List Char) (hb : isDigit b = true)
    (hr : r = [] ∨ ∃ r', r = ' ' :: r') : parseMonthDash (a :: b :: r) = none := by
  obtain ⟨nb, _⟩ := dg_ne b hb
  have hs : isAsciiWord ' ' = false := by decide
  rcases hr with rfl | ⟨r', rfl⟩
  · simp [parseMonthDash, nb, Option.orElse]
  · cases r' with
    | nil => simp [parseMonthDash, nb, Option.orElse]
    | cons c r' =>
      by_cases hc : c = '-'
      · subst hc; simp [parseMonthDash, nb, hs, Option.orElse]
      · simp [parseMonthDash, nb, hc, Option.orElse]

/-- the year (4 digits, anything after) is not a month followed by `-`. -/
theorem parseMonthDash_year4 (a b c d : Char) (r : List Char) (hb : isDigit b = true)
    (hc : isDigit c = true) (hd : isDigit d = true) : parseMonthDash (a :: b :: c :: d :: r) = none := by
  obtain ⟨nb, _⟩ := dg_ne b hb
  obtain ⟨nc, _⟩ := dg_ne c hc
  obtain ⟨nd, _⟩ := dg_ne d hd
  simp [parseMonthDash, nb, nc, nd, Option.orElse]

/-! ### the pieces of `matchDMY` (its local `let`s, named) -/

/-- `-(?P<y>[0-9]{2}(?:[0-9]{2})?)`: 2 or 4 digits (3 digits: only 2 are taken). -/
def yearPiece (r : List Char) : Option (List Char × List Char) :=
  match takeDigits 2 4 r with
  | some (ds, r') => if ds.length = 3 then some (ds.take 2, r.drop 2) else some (ds, r')
  | none => none

def withDay (ds : List Char) (r : List Char) : Option DateMatch :=
  match parseMonthDash r with
  | some (m, r1) => match yearPiece r1 with
    | some (y, r2) => some { y := y, m := m, d := some ds, time := parseTime r2 }
    | none => none
  | none => none

def noDay (s : List Char) : Option DateMatch :=
  match parseMonthDash s with
  | some (m, r1) => match yearPiece r1 with
    | some (y, r2) => some { y := y, m := m, d := none, time := parseTime r2 }
    | none => none
  | none => none

def day2 (s : List Char) : Option DateMatch :=
  match s with
  | a :: b :: '-' :: r => if isDigit a && isDigit b then withDay [a, b] r else none
  | _ => none

def day1 (s : List Char) : Option DateMatch :=
  match s with
  | a :: '-' :: r => if isDigit a then withDay [a] r else none
  | _ => none

/-- the order of the alternatives of `(?:(?P<d>[0-9]{1,2})-)?`: two digits, one digit, no day. -/
theorem matchDMY_eq (s : List Char) :
    matchDMY s = (day2 s).orElse (fun _ => (day1 s).orElse (fun _ => noDay s)) := rfl

theorem yearPiece_two (a b : Char) (r : List Char) (ha : isDigit a = true) (hb : isDigit b = true)
    (hr : NoDigitHead r = true) : yearPiece (a :: b :: r) = some ([a, b], r) := by
  simp [yearPiece, takeDigits24_two a b r ha hb hr]

theorem yearPiece_four (a b c d : Char) (r : List Char) (ha : isDigit a = true) (hb : isDigit b = true)
    (hc : isDigit c = true) (hd : isDigit d = true) :
    yearPiece (a :: b :: c :: d :: r) = some ([a, b, c, d], r) := by
  simp [yearPiece, takeDigits24_four a b c d r ha hb hc hd]

/-! ### `parseTime` for each time shape -/

def isWs (c : Char) : Bool :=
  c = ' ' || c = '\t' || c = '\n' || c = '\r' || c = Char.ofNat 11 || c = Char.ofNat 12
    || c = Char.ofNat 28 || c = Char.ofNat 29 || c = Char.ofNat 30 || c = Char.ofNat 31

theorem parseTime_nil : parseTime [] = none := rfl

theorem dropWhile_spaces (n : Nat) (r : List Char) :
    (List.replicate n ' ' ++ r).dropWhile isWs = r.dropWhile isWs := by
  induction n with
  | zero => rfl
  | succ n ih =>
    have : isWs ' ' = true := by decide
    simp only [List.replicate_succ, List.cons_append, List.dropWhile_cons, this, if_true, ih]

theorem parseTime_spaces (n : Nat) (r : List Char) :
    parseTime (List.replicate n ' ' ++ r) = parseTime r := by
  have h := dropWhile_spaces n r
  unfold isWs at h
  unfold parseTime
  simp only [h]

theorem parseTime_paren (r : List Char) (h : ∀ c r', r = c :: r' → isDigit c = true) :
    parseTime ('(' :: r) = parseTime r := by
  cases r with
  | nil => rfl
  | cons c r =>
    obtain ⟨_, q1, q2, q3, q4, q5, q6, q7, q8⟩ := dg_ne c (h c r rfl)
    obtain ⟨q9, q10, q11, q12⟩ := dg_ne_sep c (h c r rfl)
    simp [parseTime, List.dropWhile, q1, q2, q4, q5, q6, q7, q8, q9, q10, q11, q12]

/-- `HH:MM` and the remainder does not go on with `:` — no seconds. -/
theorem parseTime_hm (h1 h2 m1 m2 : Char) (r : List Char) (g1 : isDigit h1 = true) (g2 : isDigit h2 = true)
    (g3 : isDigit m1 = true) (g4 : isDigit m2 = true) (hr : ∀ r', r ≠ ':' :: r') :
    parseTime (h1 :: h2 :: ':' :: m1 :: m2 :: r) = some ([h1, h2], [m1, m2], none) := by
  obtain ⟨_, q1, q2, q3, q4, q5, q6, q7, q8⟩ := dg_ne h1 g1
  obtain ⟨q9, q10, q11, q12⟩ := dg_ne_sep h1 g1
  cases r with
  | nil => simp [parseTime, List.dropWhile, q1, q2, q4, q5, q6, q7, q8, q9, q10, q11, q12, g1, g2, g3, g4]
  | cons c r =>
    have hc : c ≠ ':' := fun e => hr r (by rw [e])
    simp [parseTime, List.dropWhile, q1, q2, q4, q5, q6, q7, q8, q9, q10, q11, q12, g1, g2, g3, g4, hc]

/-- `HH:MM:SS`, arbitrary remainder. -/
theorem parseTime_hms (h1 h2 m1 m2 s1 s2 : Char) (r : List Char) (g1 : isDigit h1 = true)
    (g2 : isDigit h2 = true) (g3 : isDigit m1 = true) (g4 : isDigit m2 = true) (g5 : isDigit s1 = true)
    (g6 : isDigit s2 = true) :
    parseTime (h1 :: h2 :: ':' :: m1 :: m2 :: ':' :: s1 :: s2 :: r) = some ([h1, h2], [m1, m2], some [s1, s2]) := by
  obtain ⟨_, q1, q2, q3, q4, q5, q6, q7, q8⟩ := dg_ne h1 g1
  obtain ⟨q9, q10, q11, q12⟩ := dg_ne_sep h1 g1
  simp [parseTime, List.dropWhile, q1, q2, q4, q5, q6, q7, q8, q9, q10, q11, q12, g1, g2, g3, g4, g5, g6]

/-! ### the texts a rendered spelling is made of (shape + value) -/

/-- exactly two digits with value `v`. -/
def Pair (cs : List Char) (v : Nat) : Prop :=
  ∃ a b, cs = [a, b] ∧ isDigit a = true ∧ isDigit b = true ∧ digitsToNat [a, b] = v

/-- one or two digits with value `v` (`[0-9]{1,2}`). -/
def Num12 (cs : List Char) (v : Nat) : Prop :=
  (∃ a, cs = [a] ∧ isDigit a = true ∧ digitsToNat [a] = v) ∨ Pair cs v

/-- three word characters, the first not a digit, that `_MONTHS[m.lower()]` maps to `mo`. -/
def NameTxt (cs : List Char) (mo : Nat) : Prop :=
  ∃ a b c, cs = [a, b, c] ∧ isDigit a = false ∧ isAsciiWord a = true ∧ isAsciiWord b = true
    ∧ isAsciiWord c = true ∧ monthNumbers.lookup (cs.map lowerAscii) = some mo

def MonTxt (cs : List Char) (mo : Nat) : Prop := Num12 cs mo ∨ NameTxt cs mo

def Year4 (cs : List Char) (y : Nat) : Prop :=
  ∃ a b c d, cs = [a, b, c, d] ∧ isDigit a = true ∧ isDigit b = true ∧ isDigit c = true ∧ isDigit d = true
    ∧ digitsToNat [a, b, c, d] = y

/-- the last two digits of a year the `19`/`20` rule maps back. -/
def Year2 (cs : List Char) (y : Nat) : Prop := Pair cs (y % 100) ∧ 1993 ≤ y ∧ y ≤ 2092

def YearTxt (cs : List Char) (y : Nat) : Prop := Year4 cs y ∨ Year2 cs y

/-- what may follow the date proper: nothing, or a space (the time group starts with spaces). -/
def TimeTail (tt : List Char) : Prop := tt = [] ∨ ∃ r, tt = ' ' :: r

theorem TimeTail.noDigit {tt : List Char} (h : TimeTail tt) : NoDigitHead tt = true := by
  rcases h with rfl | ⟨r, rfl⟩ <;> rfl

/-! ### month / year sub-parsers on those texts -/

theorem parseMonthDash_mon (m : List Char) (mo : Nat) (r : List Char) (h : MonTxt m mo) :
    parseMonthDash (m ++ '-' :: r) = some (m, r) := by
  rcases h with (⟨a, rfl, ha, _⟩ | ⟨a, b, rfl, ha, hb, _⟩) | ⟨a, b, c, rfl, _, wa, wb, wc, _⟩
  · exact parseMonthDash_one a r ha
  · exact parseMonthDash_two a b r ha hb
  · exact parseMonthDash_name a b c r wa wb wc

theorem yearPiece_year (y : List Char) (Y : Nat) (tt : List Char) (h : YearTxt y Y) (ht : TimeTail tt) :
    yearPiece (y ++ tt) = some (y, tt) := by
  rcases h with ⟨a, b, c, d, rfl, ha, hb, hc, hd, _⟩ | ⟨⟨a, b, rfl, ha, hb, _⟩, _⟩
  · exact yearPiece_four a b c d tt ha hb hc hd
  · exact yearPiece_two a b tt ha hb ht.noDigit

/-- a year followed by the time is not `month-`: this is why a day-less spelling is not mis-read
with its month as the day. -/
theorem parseMonthDash_year (y : List Char) (Y : Nat) (tt : List Char) (h : YearTxt y Y) (ht : TimeTail tt) :
    parseMonthDash (y ++ tt) = none := by
  rcases h with ⟨a, b, c, d, rfl, _, hb, hc, hd, _⟩ | ⟨⟨a, b, rfl, _, hb, _⟩, _⟩
  · exact parseMonthDash_year4 a b c d tt hb hc hd
  · exact parseMonthDash_year2 a b tt hb ht

theorem withDay_ok (ds m y tt : List Char) (mo Y : Nat) (hm : MonTxt m mo) (hy : YearTxt y Y) (ht : TimeTail tt) :
    withDay ds (m ++ '-' :: y ++ tt) = some { y := y, m := m, d := some ds, time := parseTime tt } := by
  have e : m ++ '-' :: y ++ tt = m ++ '-' :: (y ++ tt) := by simp
  simp only [withDay, e, parseMonthDash_mon m mo _ hm, yearPiece_year y Y tt hy ht]

theorem withDay_year (ds y tt : List Char) (Y : Nat) (hy : YearTxt y Y) (ht : TimeTail tt) :
    withDay ds (y ++ tt) = none := by
  simp only [withDay, parseMonthDash_year y Y tt hy ht]

theorem noDay_ok (m y tt : List Char) (mo Y : Nat) (hm : MonTxt m mo) (hy : YearTxt y Y) (ht : TimeTail tt) :
    noDay (m ++ '-' :: y ++ tt) = some { y := y, m := m, d := none, time := parseTime tt } := by
  have e : m ++ '-' :: y ++ tt = m ++ '-' :: (y ++ tt) := by simp
  simp only [noDay, e, parseMonthDash_mon m mo _ hm, yearPiece_year y Y tt hy ht]

/-! ### the alternatives `d2 / d1 / noDay` of `matchDMY` -/

theorem day2_dash2 (a : Char) (r : List Char) : day2 (a :: '-' :: r) = none := by
  have hm : isDigit '-' = false := by decide
  cases r with
  | nil => rfl
  | cons c r =>
    by_cases hc : c = '-'
    · subst hc; simp [day2, hm]
    · simp [day2, hc]

theorem day2_two (a b : Char) (r : List Char) (ha : isDigit a = true) (hb : isDigit b = true) :
    day2 (a :: b :: '-' :: r) = withDay [a, b] r := by
  simp [day2, ha, hb]

theorem day2_nodash3 (a b c : Char) (r : List Char) (hc : c ≠ '-') : day2 (a :: b :: c :: r) = none := by
  simp [day2, hc]

theorem day1_one (a : Char) (r : List Char) (ha : isDigit a = true) : day1 (a :: '-' :: r) = withDay [a] r := by
  simp [day1, ha]

theorem day1_nodash2 (a b : Char) (r : List Char) (hb : b ≠ '-') : day1 (a :: b :: r) = none := by
  simp [day1, hb]

/-- `D-M-Y` with a day of one or two digits. -/
theorem matchDMY_day (ds m y tt : List Char) (dv mo Y : Nat) (hd : Num12 ds dv) (hm : MonTxt m mo)
    (hy : YearTxt y Y) (ht : TimeTail tt) :
    matchDMY (ds ++ '-' :: m ++ '-' :: y ++ tt) = some { y := y, m := m, d := some ds, time := parseTime tt } := by
  rw [matchDMY_eq]
  rcases hd with ⟨a, rfl, ha, _⟩ | ⟨a, b, rfl, ha, hb, _⟩
  · have e : [a] ++ '-' :: m ++ '-' :: y ++ tt = a :: '-' :: (m ++ '-' :: y ++ tt) := by simp
    rw [e, day2_dash2, day1_one a _ ha, withDay_ok [a] m y tt mo Y hm hy ht]; rfl
  · have e : [a, b] ++ '-' :: m ++ '-' :: y ++ tt = a :: b :: '-' :: (m ++ '-' :: y ++ tt) := by simp
    rw [e, day2_two a b _ ha hb, withDay_ok [a, b] m y tt mo Y hm hy ht]; rfl

/-- `M-Y` without a day: the alternatives with a day fail (two-digit month: `withDay` finds no
`month-` in the year; one-digit month likewise; name: no digit / no `-` in place). -/
theorem matchDMY_noDay (m y tt : List Char) (mo Y : Nat) (hm : MonTxt m mo) (hy : YearTxt y Y) (ht : TimeTail tt) :
    matchDMY (m ++ '-' :: y ++ tt) = some { y := y, m := m, d := none, time := parseTime tt } := by
  rw [matchDMY_eq]
  have hno := noDay_ok m y tt mo Y hm hy ht
  rcases hm with (⟨a, rfl, ha, _⟩ | ⟨a, b, rfl, ha, hb, _⟩) | ⟨a, b, c, rfl, _, wa, wb, wc, _⟩
  · have e : [a] ++ '-' :: y ++ tt = a :: '-' :: (y ++ tt) := by simp
    rw [e] at hno ⊢
    rw [day2_dash2, day1_one a _ ha, withDay_year [a] y tt Y hy ht, hno]; rfl
  · have e : [a, b] ++ '-' :: y ++ tt = a :: b :: '-' :: (y ++ tt) := by simp
    obtain ⟨nb, _⟩ := dg_ne b hb
    rw [e] at hno ⊢
    rw [day2_two a b _ ha hb, withDay_year [a, b] y tt Y hy ht, day1_nodash2 a b _ nb, hno]; rfl
  · have e : [a, b, c] ++ '-' :: y ++ tt = a :: b :: c :: '-' :: (y ++ tt) := by simp
    obtain ⟨nb, _⟩ := word_ne b wb
    obtain ⟨nc, _⟩ := word_ne c wc
    rw [e] at hno ⊢
    rw [day2_nodash3 a b c _ nc, day1_nodash2 a b _ nb, hno]; rfl

/-! ### `matchYMD` fails on every `D-M-Y` spelling: there is a `-` among the first four characters -/

theorem matchYMD_dash2 (a : Char) (r : List Char) : matchYMD (a :: '-' :: r) = none := by
  have hm : isDigit '-' = false := by decide
  unfold matchYMD
  split
  · rename_i h; injection h with _ h; injection h with h _; subst h; simp [hm]
  · rfl

theorem matchYMD_dash3 (a b : Char) (r : List Char) : matchYMD (a :: b :: '-' :: r) = none := by
  have hm : isDigit '-' = false := by decide
  unfold matchYMD
  split
  · rename_i h; injection h with _ h; injection h with _ h; injection h with h _; subst h; simp [hm]
  · rfl

theorem matchYMD_dash4 (a b c : Char) (r : List Char) : matchYMD (a :: b :: c :: '-' :: r) = none := by
  have hm : isDigit '-' = false := by decide
  unfold matchYMD
  split
  · rename_i h; injection h with _ h; injection h with _ h; injection h with _ h; injection h with h _
    subst h; simp [hm]
  · rfl

theorem matchYMD_mon_dash (m : List Char) (mo : Nat) (r : List Char) (hm : MonTxt m mo) :
    matchYMD (m ++ '-' :: r) = none := by
  rcases hm with (⟨a, rfl, _⟩ | ⟨a, b, rfl, _⟩) | ⟨a, b, c, rfl, _⟩
  · exact matchYMD_dash2 a r
  · exact matchYMD_dash3 a b r
  · exact matchYMD_dash4 a b c r

theorem matchYMD_day_dash (ds : List Char) (dv : Nat) (r : List Char) (hd : Num12 ds dv) :
    matchYMD (ds ++ '-' :: r) = none := matchYMD_mon_dash ds dv r (Or.inl hd)

/-! ### `matchYMD` on `YYYY-M[-D]` (its local `let`s, named) -/

/-- `(?P<m>[0-9]{1,2}|\w{3})` with nothing required after it. -/
def monYMD (r : List Char) : Option (List Char × List Char) :=
  match takeDigits 1 2 r with
  | some x => some x
  | none => match r with
    | a :: b :: c :: r' => if isAsciiWord a && isAsciiWord b && isAsciiWord c then some ([a,b,c], r') else none
    | _ => none

/-- `(?:-(?P<d>[0-9]{1,2}))?` -/
def dayYMD (r1 : List Char) : Option (List Char) × List Char :=
  match r1 with
  | '-' :: r' => match takeDigits 1 2 r' with
    | some (ds, r'') => (some ds, r'')
    | none => (none, r1)
  | _ => (none, r1)

theorem matchYMD_eq (y1 y2 y3 y4 : Char) (r : List Char) (h1 : isDigit y1 = true) (h2 : isDigit y2 = true)
    (h3 : isDigit y3 = true) (h4 : isDigit y4 = true) :
    matchYMD (y1 :: y2 :: y3 :: y4 :: '-' :: r) =
      match monYMD r with
      | none => none
      | some (m, r1) => some { y := [y1, y2, y3, y4], m := m, d := (dayYMD r1).1, time := parseTime (dayYMD r1).2 } := by
  simp only [matchYMD, h1, h2, h3, h4, Bool.and_self, if_true, monYMD, dayYMD]
  rfl

theorem monYMD_mon (m : List Char) (mo : Nat) (r : List Char) (hm : MonTxt m mo) (hr : NoDigitHead r = true) :
    monYMD (m ++ r) = some (m, r) := by
  rcases hm with (⟨a, rfl, ha, _⟩ | ⟨a, b, rfl, ha, hb, _⟩) | ⟨a, b, c, rfl, ha, wa, wb, wc, _⟩
  · simp [monYMD, takeDigits12_one a r ha hr]
  · simp [monYMD, takeDigits12_two a b r ha hb]
  · have : takeDigits 1 2 (a :: b :: c :: r) = none := takeDigits12_none _ (by simp [NoDigitHead, ha])
    simp [monYMD, this, wa, wb, wc]

theorem dayYMD_day (ds : List Char) (dv : Nat) (tt : List Char) (hd : Num12 ds dv) (ht : TimeTail tt) :
    dayYMD ('-' :: ds ++ tt) = (some ds, tt) := by
  rcases hd with ⟨a, rfl, ha, _⟩ | ⟨a, b, rfl, ha, hb, _⟩
  · simp [dayYMD, takeDigits12_one a tt ha ht.noDigit]
  · simp [dayYMD, takeDigits12_two a b tt ha hb]

theorem dayYMD_none (tt : List Char) (ht : TimeTail tt) : dayYMD tt = (none, tt) := by
  rcases ht with rfl | ⟨r, rfl⟩
  · rfl
  · simp [dayYMD]

/-- `YYYY-M-D` -/
theorem matchYMD_day (y m ds tt : List Char) (Y mo dv : Nat) (hy : Year4 y Y) (hm : MonTxt m mo)
    (hd : Num12 ds dv) (ht : TimeTail tt) :
    matchYMD (y ++ '-' :: m ++ '-' :: ds ++ tt) = some { y := y, m := m, d := some ds, time := parseTime tt } := by
  obtain ⟨a, b, c, d, rfl, ha, hb, hc, hd', _⟩ := hy
  have e : [a, b, c, d] ++ '-' :: m ++ '-' :: ds ++ tt = a :: b :: c :: d :: '-' :: (m ++ ('-' :: ds ++ tt)) := by simp
  rw [e, matchYMD_eq a b c d _ ha hb hc hd', monYMD_mon m mo _ hm (by rfl)]
  simp only [dayYMD_day ds dv tt hd ht]

/-- `YYYY-M` -/
theorem matchYMD_noDay (y m tt : List Char) (Y mo : Nat) (hy : Year4 y Y) (hm : MonTxt m mo) (ht : TimeTail tt) :
    matchYMD (y ++ '-' :: m ++ tt) = some { y := y, m := m, d := none, time := parseTime tt } := by
  obtain ⟨a, b, c, d, rfl, ha, hb, hc, hd', _⟩ := hy
  have e : [a, b, c, d] ++ '-' :: m ++ tt = a :: b :: c :: d :: '-' :: (m ++ tt) := by simp
  rw [e, matchYMD_eq a b c d _ ha hb hc hd', monYMD_mon m mo _ hm ht.noDigit]
  simp only [dayYMD_none tt ht]

/-! ### `_date_fix` and `strptime` on the matched texts, by digit values -/

/-- the part of `parseDate` after a pattern matched. -/
def finish (mt : DateMatch) : DateRes :=
  match dateFix mt with
  | none => .keyError
  | some (y, m, d, H, M, S) =>
    match strptimeFixed y m d H M S with
    | some t => .ok t
    | none => .invalid

theorem parseDate_ymd (s : List Char) (mt : DateMatch) (h : matchYMD s = some mt) : parseDate s = finish mt := by
  simp only [parseDate, h, Option.orElse, finish]
  rfl

theorem parseDate_dmy (s : List Char) (mt : DateMatch) (h0 : matchYMD s = none) (h : matchDMY s = some mt) :
    parseDate s = finish mt := by
  simp only [parseDate, h0, h, Option.orElse, finish]
  rfl

/-- a text `strptime` accepts for a field of `lo..hi` digits, with its value. -/
def DigField (cs : List Char) (lo hi v : Nat) : Prop :=
  lo ≤ cs.length ∧ cs.length ≤ hi ∧ cs.all isDigit = true ∧ digitsToNat cs = v

theorem Pair.field {cs : List Char} {v : Nat} (h : Pair cs v) : DigField cs 1 2 v := by
  obtain ⟨a, b, rfl, ha, hb, hv⟩ := h
  exact ⟨by simp, by simp, by simp [ha, hb], hv⟩

theorem Num12.field {cs : List Char} {v : Nat} (h : Num12 cs v) : DigField cs 1 2 v := by
  rcases h with ⟨a, rfl, ha, hv⟩ | h
  · exact ⟨by simp, by simp, by simp [ha], hv⟩
  · exact h.field

theorem Num12.length_ne3 {cs : List Char} {v : Nat} (h : Num12 cs v) : cs.length ≠ 3 := by
  rcases h with ⟨a, rfl, _⟩ | ⟨a, b, rfl, _⟩ <;> simp

theorem field_zero2 : DigField ['0', '0'] 1 2 0 := ⟨by decide, by decide, by decide, rfl⟩
theorem field_one2 : DigField ['0', '1'] 1 2 1 := ⟨by decide, by decide, by decide, rfl⟩

def fixYear (y : List Char) : List Char :=
  if y.length = 2 then (if digitsToNat y ≥ 93 then ['1','9'] else ['2','0']) ++ y else y

def fixMonth (m : List Char) : Option (List Char) :=
  if m.length = 3 then (monthNumbers.lookup (m.map lowerAscii)).map natDigits else some m

def fixDay (d : Option (List Char)) : List Char :=
  match d with | some d => d | none => ['0','1']

def fixTime (tm : Option (List Char × List Char × Option (List Char))) : List Char × List Char × List Char :=
  match tm with
  | some (h, mi, some s) => (h, mi, s)
  | some (h, mi, none) => (h, mi, ['0','0'])
  | none => (['0','0'], ['0','0'], ['0','0'])

theorem dateFix_eq (mt : DateMatch) :
    dateFix mt = (fixMonth mt.m).map (fun m => (fixYear mt.y, m, fixDay mt.d, fixTime mt.time)) := by
  unfold dateFix fixMonth fixYear fixDay fixTime
  cases (if mt.m.length = 3 then (monthNumbers.lookup (mt.m.map lowerAscii)).map natDigits else some mt.m) <;> rfl

/-- value of a 4-digit text from its two halves. -/
theorem digitsToNat_4 (p q a b : Char) : digitsToNat [p, q, a, b] = 100 * digitsToNat [p, q] + digitsToNat [a, b] := by
  simp only [digitsToNat, List.foldl]
  omega

theorem fixYear_field (y : List Char) (Y : Nat) (hy : YearTxt y Y) : DigField (fixYear y) 4 4 Y := by
  rcases hy with ⟨a, b, c, d, rfl, ha, hb, hc, hd, hv⟩ | ⟨⟨a, b, rfl, ha, hb, hv⟩, h1, h2⟩
  · exact ⟨by simp [fixYear], by simp [fixYear], by simp [fixYear, ha, hb, hc, hd], by simpa [fixYear] using hv⟩
  · have h19 : digitsToNat ['1', '9'] = 19 := rfl
    have h20 : digitsToNat ['2', '0'] = 20 := rfl
    have d1 : isDigit '1' = true := by decide
    have d9 : isDigit '9' = true := by decide
    have d2 : isDigit '2' = true := by decide
    have d0 : isDigit '0' = true := by decide
    by_cases h93 : digitsToNat [a, b] ≥ 93
    · have e : fixYear [a, b] = ['1', '9', a, b] := by simp [fixYear, h93]
      rw [e]
      exact ⟨by simp, by simp, by simp [ha, hb, d1, d9], by rw [digitsToNat_4, h19, hv]; omega⟩
    · have e : fixYear [a, b] = ['2', '0', a, b] := by simp [fixYear, h93]
      rw [e]
      exact ⟨by simp, by simp, by simp [ha, hb, d2, d0], by rw [digitsToNat_4, h20, hv]; omega⟩

theorem natDigits_field12 (mo : Nat) (h : mo < 100) : DigField (natDigits mo) 1 2 mo := by
  refine ⟨?_, (L.natDigits_length mo 2 (by decide)).mpr (by omega), L.natDigits_all mo, L.digitsToNat_natDigits mo⟩
  cases hn : natDigits mo with
  | nil => exact absurd hn (L.natDigits_ne_nil mo)
  | cons _ _ => simp

theorem fixMonth_field (m : List Char) (mo : Nat) (hm : MonTxt m mo) (h12 : mo ≤ 12) :
    ∃ m', fixMonth m = some m' ∧ DigField m' 1 2 mo := by
  rcases hm with hn | ⟨a, b, c, rfl, _, _, _, _, hl⟩
  · exact ⟨m, by simp [fixMonth, hn.length_ne3], hn.field⟩
  · refine ⟨natDigits mo, ?_, natDigits_field12 mo (by omega)⟩
    simp only [fixMonth, List.length_cons, List.length_nil, if_true, hl, Option.map]

/-- the day a match denotes (absent ↦ 1). -/
def DayVal (d : Option (List Char)) (dv : Nat) : Prop :=
  match d with
  | none => dv = 1
  | some ds => Num12 ds dv

/-- the time a match denotes (absent ↦ 0). -/
def TimeVal (tm : Option (List Char × List Char × Option (List Char))) (H M S : Nat) : Prop :=
  match tm with
  | none => H = 0 ∧ M = 0 ∧ S = 0
  | some (h, mi, none) => Pair h H ∧ Pair mi M ∧ S = 0
  | some (h, mi, some s) => Pair h H ∧ Pair mi M ∧ Pair s S

theorem fixDay_field (d : Option (List Char)) (dv : Nat) (h : DayVal d dv) : DigField (fixDay d) 1 2 dv := by
  cases d with
  | none => simp only [DayVal] at h; subst h; exact field_one2
  | some ds => exact Num12.field h

theorem fixTime_field (tm : Option (List Char × List Char × Option (List Char))) (H M S : Nat)
    (h : TimeVal tm H M S) :
    DigField (fixTime tm).1 1 2 H ∧ DigField (fixTime tm).2.1 1 2 M ∧ DigField (fixTime tm).2.2 1 2 S := by
  match tm, h with
  | none, ⟨h1, h2, h3⟩ => subst h1 h2 h3; exact ⟨field_zero2, field_zero2, field_zero2⟩
  | some (h, mi, none), ⟨a, b, h3⟩ => subst h3; exact ⟨a.field, b.field, field_zero2⟩
  | some (h, mi, some s), ⟨a, b, c⟩ => exact ⟨a.field, b.field, c.field⟩

theorem strptime_fields (y m d H M S : List Char) (t : DT) (hy : DigField y 4 4 t.y) (hm : DigField m 1 2 t.mo)
    (hd : DigField d 1 2 t.d) (hH : DigField H 1 2 t.H) (hM : DigField M 1 2 t.M) (hS : DigField S 1 2 t.S)
    (hv : t.Valid = true) : strptimeFixed y m d H M S = some t := by
  obtain ⟨ty, tmo, td, tH, tM, tS⟩ := t
  obtain ⟨y1, y2, y3, rfl⟩ := hy
  obtain ⟨m1, m2, m3, rfl⟩ := hm
  obtain ⟨d1, d2, d3, rfl⟩ := hd
  obtain ⟨H1, H2, H3, rfl⟩ := hH
  obtain ⟨M1, M2, M3, rfl⟩ := hM
  obtain ⟨S1, S2, S3, rfl⟩ := hS
  simp only [DT.Valid, Bool.and_eq_true, decide_eq_true_eq] at hv
  obtain ⟨⟨⟨⟨⟨⟨⟨⟨v1, v2⟩, v3⟩, v4⟩, v5⟩, v6⟩, v7⟩, v8⟩, v9⟩ := hv
  have v0 : 1 ≤ digitsToNat y := by omega
  simp [strptimeFixed, y1, y2, y3, m1, m2, m3, d1, d2, d3, H1, H2, H3, M1, M2, M3, S1, S2, S3,
    v0, v3, v4, v5, v6, v7, v8, v9]

/-- a match whose texts have the shapes and values of the instant `t` is finished to `t`. -/
theorem finish_ok (mt : DateMatch) (t : DT) (hy : YearTxt mt.y t.y) (hm : MonTxt mt.m t.mo)
    (hd : DayVal mt.d t.d) (ht : TimeVal mt.time t.H t.M t.S) (hv : t.Valid = true) : finish mt = .ok t := by
  have h12 : t.mo ≤ 12 := by
    simp only [DT.Valid, Bool.and_eq_true, decide_eq_true_eq] at hv
    exact hv.1.1.1.1.1.2
  obtain ⟨m', em, fm⟩ := fixMonth_field mt.m t.mo hm h12
  obtain ⟨fH, fM, fS⟩ := fixTime_field mt.time t.H t.M t.S ht
  have hs := strptime_fields (fixYear mt.y) m' (fixDay mt.d) _ _ _ t (fixYear_field mt.y t.y hy) fm
    (fixDay_field mt.d t.d hd) fH fM fS hv
  simp only [finish, dateFix_eq, em, Option.map, hs]

/-! ### the rendered pieces have those shapes and values -/

theorem renderDay_spec (sp : DaySp) (d : Nat) (h1 : 1 ≤ d) (h2 : d ≤ 31) :
    DayVal (renderDay sp d) (match sp with | .absent => 1 | _ => d) := by
  cases sp with
  | absent => simp [renderDay, DayVal]
  | plain =>
    simp only [renderDay, DayVal]
    by_cases h10 : d < 10
    · obtain ⟨a, ha, hda, hva⟩ := L.digits1 d h10
      exact Or.inl ⟨a, ha, hda, hva⟩
    · obtain ⟨a, b, hab, hda, hdb, hv⟩ := L.digits2 d (by omega) (by omega)
      exact Or.inr ⟨a, b, hab, hda, hdb, hv⟩
  | padded =>
    simp only [renderDay, DayVal]
    exact Or.inr (L.pad2_shape d (by omega))

/-- the month table, all 8 letter-case variants of the 12 names: three word characters, no leading
digit, and `_MONTHS[name.lower()]` is the month (finite check on the generated tables). -/
theorem nameCased_spec (u1 u2 u3 : Bool) (mo : Nat) (h1 : 1 ≤ mo) (h2 : mo ≤ 12) :
    NameTxt (nameCased u1 u2 u3 (monthName mo)) mo := by
  have hm : mo = 1 ∨ mo = 2 ∨ mo = 3 ∨ mo = 4 ∨ mo = 5 ∨ mo = 6 ∨ mo = 7 ∨ mo = 8 ∨ mo = 9 ∨ mo = 10 ∨ mo = 11 ∨ mo = 12 := by omega
  rcases hm with rfl | rfl | rfl | rfl | rfl | rfl | rfl | rfl | rfl | rfl | rfl | rfl <;>
    cases u1 <;> cases u2 <;> cases u3 <;>
    exact ⟨_, _, _, rfl, by decide, by decide, by decide, by decide, by decide⟩

theorem renderMonth_spec (sp : MonthSp) (mo : Nat) (h1 : 1 ≤ mo) (h2 : mo ≤ 12) :
    MonTxt (renderMonth sp mo) mo := by
  cases sp with
  | plain =>
    simp only [renderMonth]
    by_cases h10 : mo < 10
    · obtain ⟨a, ha, hda, hva⟩ := L.digits1 mo h10
      exact Or.inl (Or.inl ⟨a, ha, hda, hva⟩)
    · obtain ⟨a, b, hab, hda, hdb, hv⟩ := L.digits2 mo (by omega) (by omega)
      exact Or.inl (Or.inr ⟨a, b, hab, hda, hdb, hv⟩)
  | padded => exact Or.inl (Or.inr (L.pad2_shape mo (by omega)))
  | name u1 u2 u3 => exact Or.inr (nameCased_spec u1 u2 u3 mo h1 h2)

theorem renderYear4_spec (y : Nat) (h1 : 1000 ≤ y) (h2 : y ≤ 9999) : Year4 (renderYear .four y) y :=
  L.digits4 y h1 h2

theorem renderYear2_spec (y : Nat) (h1 : 1993 ≤ y) (h2 : y ≤ 2092) : Year2 (renderYear .two y) y :=
  ⟨L.pad2_shape (y % 100) (by omega), h1, h2⟩

theorem replicate_spaces_tail (gap : Nat) (r : List Char) : TimeTail (List.replicate (gap + 1) ' ' ++ r) :=
  Or.inr ⟨List.replicate gap ' ' ++ r, by simp [List.replicate_succ]⟩

theorem parseTime_clock (paren : Bool) (c : Char) (body : List Char) (hc : isDigit c = true) :
    parseTime (renderClock paren (c :: body)) = parseTime (c :: body ++ (if paren then [')'] else [])) := by
  cases paren with
  | false => simp [renderClock]
  | true =>
    simp only [renderClock, if_true, List.cons_append]
    exact parseTime_paren _ (fun c' r' e => by injection e with e _; subst e; exact hc)

theorem renderTime_spec (sp : TimeSp) (H M S : Nat) (hH : H < 100) (hM : M < 100) (hS : S < 100) :
    TimeTail (renderTime sp H M S) ∧
    TimeVal (parseTime (renderTime sp H M S))
      (match sp with | .absent => 0 | _ => H) (match sp with | .absent => 0 | _ => M)
      (match sp with | .hms _ _ => S | _ => 0) := by
  obtain ⟨h1, h2, eH, g1, g2, vH⟩ := L.pad2_shape H hH
  obtain ⟨m1, m2, eM, g3, g4, vM⟩ := L.pad2_shape M hM
  obtain ⟨s1, s2, eS, g5, g6, vS⟩ := L.pad2_shape S hS
  cases sp with
  | absent => exact ⟨Or.inl rfl, rfl, rfl, rfl⟩
  | hm gap paren =>
    refine ⟨replicate_spaces_tail gap _, ?_⟩
    simp only [renderTime, parseTime_spaces, eH, eM, List.cons_append, List.nil_append]
    rw [parseTime_clock paren h1 _ g1]
    have hr : ∀ r', (if paren = true then [')'] else []) ≠ ':' :: r' := by
      intro r'; cases paren <;> simp
    have := parseTime_hm h1 h2 m1 m2 _ g1 g2 g3 g4 hr
    simp only [List.cons_append, List.nil_append] at this ⊢
    rw [this]
    exact ⟨⟨h1, h2, rfl, g1, g2, vH⟩, ⟨m1, m2, rfl, g3, g4, vM⟩, rfl⟩
  | hms gap paren =>
    refine ⟨replicate_spaces_tail gap _, ?_⟩
    simp only [renderTime, parseTime_spaces, eH, eM, eS, List.cons_append, List.nil_append]
    rw [parseTime_clock paren h1 _ g1]
    have := parseTime_hms h1 h2 m1 m2 s1 s2 (if paren = true then [')'] else []) g1 g2 g3 g4 g5 g6
    simp only [List.cons_append, List.nil_append] at this ⊢
    rw [this]
    exact ⟨⟨h1, h2, rfl, g1, g2, vH⟩, ⟨m1, m2, rfl, g3, g4, vM⟩, ⟨s1, s2, rfl, g5, g6, vS⟩⟩

theorem one_le_daysIn (y m : Nat) : 1 ≤ daysIn y m := by
  unfold daysIn; split <;> (try split) <;> omega

/-- the truncated instant is again calendar-valid. -/
theorem truncate_valid (sp : Spelling) (t : DT) (hv : t.Valid = true) : (truncate sp t).Valid = true := by
  simp only [DT.Valid, Bool.and_eq_true, decide_eq_true_eq] at hv ⊢
  obtain ⟨⟨⟨⟨⟨⟨⟨⟨v1, v2⟩, v3⟩, v4⟩, v5⟩, v6⟩, v7⟩, v8⟩, v9⟩ := hv
  have := one_le_daysIn t.y t.mo
  refine ⟨⟨⟨⟨⟨⟨⟨⟨v1, v2⟩, v3⟩, v4⟩, ?_⟩, ?_⟩, ?_⟩, ?_⟩, ?_⟩ <;> simp only [truncate] <;> split <;> omega

/-! ### every documented spelling denotes the (truncated) instant -/

theorem L.spellings_agree (sp : Spelling) (t : DT) (hv : t.Valid = true) (hf : SpellingFits sp t = true) :
    parseDate (render sp t) = .ok (truncate sp t) := by
  have hv' := truncate_valid sp t hv
  obtain ⟨order, day, month, year, time⟩ := sp
  simp only [DT.Valid, Bool.and_eq_true, decide_eq_true_eq] at hv
  obtain ⟨⟨⟨⟨⟨⟨⟨⟨v1, v2⟩, v3⟩, v4⟩, v5⟩, v6⟩, v7⟩, v8⟩, v9⟩ := hv
  have hd31 : t.d ≤ 31 := Nat.le_trans v6 (daysIn_le t.y t.mo)
  have hD := renderDay_spec day t.d v5 hd31
  have hMo := renderMonth_spec month t.mo v3 v4
  obtain ⟨hTT, hTV⟩ := renderTime_spec time t.H t.M t.S (by omega) (by omega) (by omega)
  have hY : YearTxt (renderYear year t.y) t.y ∧ (order = .ymd → Year4 (renderYear year t.y) t.y) := by
    cases year with
    | four => exact ⟨Or.inl (renderYear4_spec t.y v1 v2), fun _ => renderYear4_spec t.y v1 v2⟩
    | two =>
      simp only [SpellingFits, Bool.and_eq_true, decide_eq_true_eq] at hf
      exact ⟨Or.inr (renderYear2_spec t.y hf.1.2 hf.2), fun h => by rw [h] at hf; exact absurd hf.1.1 (by decide)⟩
  obtain ⟨hY, hY4⟩ := hY
  cases order with
  | dmy =>
    cases hday : renderDay day t.d with
    | none =>
      rw [hday] at hD
      have e : render ⟨.dmy, day, month, year, time⟩ t
          = renderMonth month t.mo ++ '-' :: renderYear year t.y ++ renderTime time t.H t.M t.S := by
        simp [render, hday]
      rw [e, parseDate_dmy _ _ (by simpa using matchYMD_mon_dash _ t.mo _ hMo)
        (matchDMY_noDay _ _ _ t.mo t.y hMo hY hTT)]
      exact finish_ok _ (truncate ⟨.dmy, day, month, year, time⟩ t) hY hMo hD hTV hv'
    | some ds =>
      rw [hday] at hD
      have e : render ⟨.dmy, day, month, year, time⟩ t
          = ds ++ '-' :: renderMonth month t.mo ++ '-' :: renderYear year t.y ++ renderTime time t.H t.M t.S := by
        simp [render, hday]
      rw [e, parseDate_dmy _ _ (by simpa using matchYMD_day_dash ds _ _ hD)
        (matchDMY_day ds _ _ _ _ t.mo t.y hD hMo hY hTT)]
      exact finish_ok _ (truncate ⟨.dmy, day, month, year, time⟩ t) hY hMo hD hTV hv'
  | ymd =>
    have hY4 := hY4 rfl
    cases hday : renderDay day t.d with
    | none =>
      rw [hday] at hD
      have e : render ⟨.ymd, day, month, year, time⟩ t
          = renderYear year t.y ++ '-' :: renderMonth month t.mo ++ renderTime time t.H t.M t.S := by
        simp [render, hday]
      rw [e, parseDate_ymd _ _ (matchYMD_noDay _ _ _ t.y t.mo hY4 hMo hTT)]
      exact finish_ok _ (truncate ⟨.ymd, day, month, year, time⟩ t) hY hMo hD hTV hv'
    | some ds =>
      rw [hday] at hD
      have e : render ⟨.ymd, day, month, year, time⟩ t
          = renderYear year t.y ++ '-' :: renderMonth month t.mo ++ '-' :: ds ++ renderTime time t.H t.M t.S := by
        simp [render, hday]
      rw [e, parseDate_ymd _ _ (matchYMD_day _ _ ds _ t.y t.mo _ hY4 hMo hD hTT)]
      exact finish_ok _ (truncate ⟨.ymd, day, month, year, time⟩ t) hY hMo hD hTV hv'

end Verif.C08
