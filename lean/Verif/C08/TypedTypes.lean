/-
C08 — types of the SOURCE-TRANSLATION tie for the TYPED branches of `tsdb.split` / `tsdb.join` (TRANSLATOR.md):
the attributes of a Python `tsdb.Field` that those branches read (`datatype`, `default`; `name` for completeness), and
the instantiation of the two OPAQUE callees `tsdb.cast` / `tsdb.format` (not translated: regexes, datetime,
isinstance) with the model's `castPy` / `formatPy`.  Imported by the generated `Verif/Generated/TransC08.lean`.
-/
import Verif.C08.Model
import Verif.Common.PyRt

namespace Verif.C08
open Verif.PyRt

/-- what the typed branches read of a `tsdb.Field` object (Lean field names = Python attribute names). -/
structure PyFieldD where
  name : List Char
  datatype : List Char
  default : List Char
deriving Repr, DecidableEq

/-- a model field as the Python object's attributes. -/
def Field.pyD (f : Field) : PyFieldD := { name := f.name, datatype := f.dt.pyName, default := f.default }

/-- the datatype a `Field.datatype` string names (inverse of `DType.pyName`). -/
def DType.ofPy (s : List Char) : Option DType :=
  if s = DType.integer.pyName then some .integer
  else if s = DType.string.pyName then some .string
  else if s = DType.date.pyName then some .date
  else none

theorem DType.ofPy_pyName (dt : DType) : DType.ofPy dt.pyName = some dt := by
  cases dt <;> decide

/-- the model's error enumeration as Python exception classes (same mapping as `errPy` of TranslatedLemmas). -/
def errPyT : Err → PyErr
  | .tsdbError => .user "TSDBError"
  | .valueError => .ValueError
  | .indexError => .IndexError
  | .keyError => .KeyError
  | .unmodelled => .user "unmodelled"

/-- the opaque callee `tsdb.cast(datatype, raw_value)` as the model describes it (`None` and `''` both give `None`);
datatypes outside the model are `unmodelled`. -/
def castM (datatype : List Char) (raw : Option (List Char)) : Except PyErr Val :=
  match DType.ofPy datatype with
  | some dt => match castPy dt (raw.getD []) with
    | .val v => .ok v
    | .err e => .error (errPyT e)
  | none => .error (.user "unmodelled")

/-- the opaque callee `tsdb.format(datatype, value, default)` as the model describes it. -/
def formatM (datatype : List Char) (v : Val) (default : Option (List Char)) : Except PyErr (List Char) :=
  match DType.ofPy datatype with
  | some dt => .ok (formatPy dt v default)
  | none => .error (.user "unmodelled")

end Verif.C08
