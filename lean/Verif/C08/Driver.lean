/- C08 line-protocol driver: `lake env lean --run Verif/C08/Driver.lean` -/
import Verif.Common.Proto
import Verif.C08.Model
open Lean Verif.Proto Verif.C08 Verif.Py

namespace Verif.C08.Driver

def errTag : Err → String
  | .tsdbError => "TSDBError"
  | .valueError => "ValueError"
  | .indexError => "IndexError"
  | .keyError => "KeyError"
  | .unmodelled => "unmodelled"

def jDT (t : DT) : Json := jList jNat [t.y, t.mo, t.d, t.H, t.M, t.S]

def jVal : Val → Json
  | .none => Json.null
  | .int i => Json.mkObj [("int", Json.str (toString i))]
  | .str s => Json.mkObj [("str", cps s)]
  | .date t => Json.mkObj [("date", jDT t)]

def jCast : CastRes → Json
  | .val v => jVal v
  | .err e => jErr (errTag e)

/-- a tuple of casts as Python shows it: the generator raises at the first failing cast. -/
def jCasts (rs : List CastRes) : Json :=
  match rs.find? (fun r => match r with | .err _ => true | .val _ => false) with
  | some r => jCast r
  | none => jList jCast rs

def ofDT (j : Json) : Except String DT := do
  let a ← j.getArr?
  let ns ← a.toList.mapM (·.getNat?)
  match ns with
  | [y, mo, d, H, M, S] => pure { y, mo, d, H, M, S }
  | _ => throw "bad date"

def ofVal (j : Json) : Except String Val :=
  match j with
  | Json.null => pure .none
  | _ =>
    match j.getObjVal? "int" with
    | .ok v => do
      let s ← v.getStr?
      match s.toInt? with
      | some i => pure (.int i)
      | none => throw "bad int"
    | .error _ =>
      match j.getObjVal? "str" with
      | .ok v => do pure (.str (← ofCps v))
      | .error _ => do pure (.date (← ofDT (← j.getObjVal? "date")))

def ofDType (s : String) : Except String DType :=
  match s with
  | ":integer" => pure .integer
  | ":string" => pure .string
  | ":date" => pure .date
  | _ => throw s!"bad datatype {s}"

def ofRow (j : Json) : Except String (Except Err Row) := do
  let types ← (← getArr j "types").mapM (fun t => do ofDType (← t.getStr?))
  let names ← (← getArr j "names").mapM ofCps
  let vals ← (← getArr j "vals").mapM ofVal
  pure (mkRowChecked types names vals)

def jExc {α} (f : α → Json) : Except Err α → Json
  | .ok a => jOk (f a)
  | .error e => jErr (errTag e)

def ofFields (j : Json) : Except String (List Field) := do
  (← getArr j "fields").mapM (fun f => do
    pure { name := ← getCps f "name", dt := ← ofDType (← getStr f "dt") })

def optJ {α} (f : α → Json) (tag : String) : Option α → Json
  | some a => f a
  | none => jErr tag

def handle1 (j : Json) : Except String Json := do
  let op ← getStr j "op"
  match op with
  | "escape" => pure (cps (escape (← getCps j "s")))
  | "unescape" =>
    match unescape (← getCps j "s") with
    | .ok r => pure (jOk (cps r))
    | .error e => pure (jErr (errTag e))
  | "split" =>
    match splitRaw (← getCps j "s") with
    | .ok r => pure (jOk (jList optCps r))
    | .error e => pure (jErr (errTag e))
  | "join" => do
    let vs ← (← getArr j "vs").mapM ofOptCps
    pure (cps (joinRaw vs))
  | "format" => do
    let dt ← ofDType (← getStr j "dt")
    let v ← ofVal (← j.getObjVal? "v")
    match j.getObjVal? "default" with
    | .ok d => pure (cps (formatPy dt v (← ofOptCps d)))     -- `format(dt, v, default=d)`, d a string or None
    | .error _ => pure (cps (format dt v))
  | "cast" => do
    let dt ← ofDType (← getStr j "dt")
    pure (jCast (castPy dt (← getCps j "s")))
  | "tjoin" => do
    let fields ← ofFields j
    let vals ← (← getArr j "vals").mapM ofVal
    match joinTyped fields vals with
    | .ok r => pure (jOk (cps r))
    | .error e => pure (jErr (errTag e))
  | "tsplit" => do
    let fields ← ofFields j
    match splitTyped fields (← getCps j "s") with
    | .ok r => pure (jOk (jList jVal r))
    | .error e => pure (jErr (errTag e))
  | "mkrec" => do
    let fields ← ofFields j
    let colmap ← (← getArr j "colmap").mapM (fun p => do
      pure ((← getCps p "k"), (← ofVal (← p.getObjVal? "v"))))
    let rec_ := makeRecord colmap fields
    -- the record, and what `join(make_record(colmap, fields), fields)` makes of it
    pure (Json.mkObj [("rec", jList jVal rec_), ("line", jExc cps (joinTyped fields rec_))])
  | "file" => do
    let fields ← ofFields j
    let recs ← (← getArr j "recs").mapM (fun r => do (← r.getArr?).toList.mapM ofVal)
    match writeText fields recs with
    | .error e => pure (jErr (errTag e))
    | .ok text =>
      pure (Json.mkObj [("text", cps text), ("lines", jNat (linesOf text).length),
        ("raw", jExc (jList (jList optCps)) (readRaw text)),
        ("typed", jExc (jList (jList jVal)) (readTyped fields text))])
  | "lines" => pure (jList cps (linesOf (← getCps j "s")))
  | "row" => do
    let r ← match ← ofRow j with
      | .ok r => pure r
      | .error e => return jErr (errTag e)
    let q ← j.getObjVal? "q"
    let kind ← getStr q "kind"
    match kind with
    | "str" => pure (jExc cps r.str)
    | "len" => pure (jNat r.types.length)
    | "keys" => pure (jList cps r.names)
    | "iter" => pure (jCasts r.iter)
    | "data" => pure (jList cps r.data)
    | "idx" => pure (optJ jCast "IndexError" (r.getIdx (← getInt q "i")))
    | "name" => pure (optJ jCast "KeyError" (r.getName (← getCps q "k")))
    | "slice" => do
      let sl : Slice := { start := ← optInt (← q.getObjVal? "start"),
                          stop := ← optInt (← q.getObjVal? "stop"),
                          step := ← optInt (← q.getObjVal? "step") }
      pure (optJ jCasts "ValueError" (r.getSlice sl))
    | _ => throw s!"bad row query {kind}"
  | _ => throw s!"bad op {op}"

/-- `seq`: several calls in ONE process, answered in order (the model is a function, so each answer is that of the
single call; the implementation must show the same — no state may leak from one call into a later one). -/
def handle (j : Json) : Except String Json := do
  let op ← getStr j "op"
  if op == "seq" then
    pure (Json.arr ((← (← getArr j "steps").mapM handle1).toArray))
  else handle1 j

end Verif.C08.Driver

def main : IO Unit := Verif.Proto.serve Verif.C08.Driver.handle
