/-
C08 — the family of *documented date spellings* of `tsdb.cast(':date', …)` (docstring of `cast`:
"generally follows the DD-MM-YY pattern, optionally followed by a time …  The day of the month may be
left unspecified, in which case 01 is used.  Years may be 2 or 4 digits …  In addition, the more
universal YYYY-MM-DD format is allowed, but it must have 4-digit years").

`render sp t` is the text of the instant `t` in the spelling `sp`, `truncate sp t` the instant that
text denotes (what the spelling omits is zeroed: day ↦ 1, seconds / whole time ↦ 0).
Core Lean only.
-/
import Verif.C08.Model

namespace Verif.C08
open Verif.Tables

/-- field order: `D-M-Y` (second regex of `_parse_datetime`) or `YYYY-M-D` (first regex). -/
inductive Order where
  | dmy | ymd
deriving Repr, DecidableEq

/-- the day field: left out (then day 1 is meant), written as `str(d)`, or zero-padded to 2 digits. -/
inductive DaySp where
  | absent | plain | padded
deriving Repr, DecidableEq

/-- the month field: `str(mo)`, zero-padded to 2 digits, or the three-letter name, each letter
independently upper (`true`) or lower (`false`) case — all 8 case variants. -/
inductive MonthSp where
  | plain | padded
  | name (u1 u2 u3 : Bool)
deriving Repr, DecidableEq

/-- the year field: 4 digits, or the last 2 digits. -/
inductive YearSp where
  | four | two
deriving Repr, DecidableEq

/-- the time field: left out, `HH:MM` or `HH:MM:SS` (2 digits each); preceded by `gap + 1` spaces,
bare or parenthesised. -/
inductive TimeSp where
  | absent
  | hm (gap : Nat) (paren : Bool)
  | hms (gap : Nat) (paren : Bool)
deriving Repr, DecidableEq

structure Spelling where
  order : Order
  day : DaySp
  month : MonthSp
  year : YearSp
  time : TimeSp
deriving Repr, DecidableEq

/-- ASCII upper case of a lower-case letter (month names of the table are lower case). -/
def upperAscii (c : Char) : Char := if 'a' ≤ c && c ≤ 'z' then Char.ofNat (c.toNat - 32) else c

def caseOf (u : Bool) (c : Char) : Char := if u then upperAscii c else c

/-- the month name with the given letter cases. -/
def nameCased (u1 u2 u3 : Bool) (nm : List Char) : List Char :=
  match nm with
  | [a, b, c] => [caseOf u1 a, caseOf u2 b, caseOf u3 c]
  | other => other

def renderDay (sp : DaySp) (d : Nat) : Option (List Char) :=
  match sp with
  | .absent => none
  | .plain => some (natDigits d)
  | .padded => some (pad2 d)

def renderMonth (sp : MonthSp) (mo : Nat) : List Char :=
  match sp with
  | .plain => natDigits mo
  | .padded => pad2 mo
  | .name u1 u2 u3 => nameCased u1 u2 u3 (monthName mo)

def renderYear (sp : YearSp) (y : Nat) : List Char :=
  match sp with
  | .four => natDigits y
  | .two => pad2 (y % 100)

def renderClock (paren : Bool) (body : List Char) : List Char :=
  if paren then '(' :: body ++ [')'] else body

def renderTime (sp : TimeSp) (H M S : Nat) : List Char :=
  match sp with
  | .absent => []
  | .hm gap paren => List.replicate (gap + 1) ' ' ++ renderClock paren (pad2 H ++ ':' :: pad2 M)
  | .hms gap paren => List.replicate (gap + 1) ' ' ++ renderClock paren (pad2 H ++ ':' :: pad2 M ++ ':' :: pad2 S)

/-- the text of the instant `t` in the spelling `sp`. -/
def render (sp : Spelling) (t : DT) : List Char :=
  let mon := renderMonth sp.month t.mo
  let yr := renderYear sp.year t.y
  let tm := renderTime sp.time t.H t.M t.S
  match sp.order with
  | .dmy =>
    (match renderDay sp.day t.d with | some ds => ds ++ ['-'] | none => []) ++ mon ++ '-' :: yr ++ tm
  | .ymd =>
    yr ++ '-' :: mon ++ (match renderDay sp.day t.d with | some ds => '-' :: ds | none => []) ++ tm

/-- the instant the spelling `sp` of `t` denotes: what the spelling omits is zeroed
("The day of the month may be left unspecified, in which case 01 is used"). -/
def truncate (sp : Spelling) (t : DT) : DT :=
  { y := t.y, mo := t.mo,
    d := match sp.day with | .absent => 1 | _ => t.d,
    H := match sp.time with | .absent => 0 | _ => t.H,
    M := match sp.time with | .absent => 0 | _ => t.M,
    S := match sp.time with | .hms _ _ => t.S | _ => 0 }

/-- a spelling fits an instant: 2-digit years only in `D-M-Y` order ("[YYYY-MM-DD] must have 4-digit
years") and only for the years the `19`/`20` rule maps back (`>= 93 ↦ 19..`, else `20..`: 1993–2092). -/
def SpellingFits (sp : Spelling) (t : DT) : Bool :=
  match sp.year with
  | .four => true
  | .two => sp.order = .dmy && 1993 ≤ t.y && t.y ≤ 2092

end Verif.C08
