/-
C08 — the SOURCE-TRANSLATION tie (TRANSLATOR.md).  `Verif/Generated/TransC08.lean` is regenerated on every run from the
current source text of `delphin.tsdb.escape/unescape/split/join/make_record` by harness/common/py2lean.py; the theorems below
prove each regenerated definition equal, for all inputs, to the hand-written model function of `Model.lean` that the
property theorems of `Props.lean` are about.  An edit of those Python functions changes the generated file and these
proofs are re-checked (or break).  Errors: the model's `Err` is mapped to the translator's `PyErr` by `errPy`
(`tsdbError ↦ user "TSDBError"`, …, defined in TranslatedLemmas.lean).
-/
import Verif.C08.TranslatedLemmas

namespace Verif.C08
open Verif.PyRt Verif.Py Verif.Tables

/-- `tsdb.escape` (source) = `escape` (model). -/
theorem escape_translated (s : List Char) : Verif.Trans.C08.escape s = escape s := by
  rw [escape_eq_chain]
  simp only [Verif.Trans.C08.escape, pyReplace_single]

/-- `tsdb.unescape` (source) = `unescape` (model), the model's `tsdbError` being `TSDBError`. -/
theorem unescape_translated (s : List Char) :
    Verif.Trans.C08.unescape s = mapErr errPy (unescape s) := by
  rw [unescape_unfold, (unesc_loop s []).1]
  cases unescape s <;> simp [Except.map]

/-- `tsdb.split(line)` without fields (source) = `splitRaw` (model). -/
theorem split_translated (line : List Char) :
    Verif.Trans.C08.split line = mapErr errPy (splitRaw line) := by
  unfold Verif.Trans.C08.split splitRaw
  rw [mapErr_mapM, pySplit_single, pyRstrip_single]
  simp only [bind_pure, fieldDelimiter]
  show List.mapM _ _ = _
  congr 1
  funext col
  rw [unescape_translated]
  cases col with
  | nil => rfl
  | cons c cs => cases unescape (c :: cs) <;> rfl

/-- `tsdb.join(values)` without fields (source) = `joinRaw` (model). -/
theorem join_translated (vs : List (Option (List Char))) :
    Verif.Trans.C08.join vs = joinRaw vs := by
  unfold Verif.Trans.C08.join joinRaw
  simp only [Id.run, pyJoin_single, fieldDelimiter, List.map_map]
  show joinWith '@' _ = _
  congr 1
  apply List.map_congr_left
  intro v _
  cases v <;> simp [escape_translated]
/-- `tsdb.make_record(colmap, fields)` (source) = `makeRecord` (model).  The translation keeps the value type opaque
(`Val`) and a field as the mirror structure `PyField` (`Field.py`); `colmap.get(f.name, None)` is an `Option Val`
whose `none` is the Python default `None` — the same object as a stored `None` (`Val.none`), hence `getD .none`. -/
theorem make_record_translated (colmap : List (List Char × Val)) (fields : List Field) :
    (Verif.Trans.C08.make_record colmap (fields.map Field.py)).map (·.getD .none) = makeRecord colmap fields := by
  unfold Verif.Trans.C08.make_record makeRecord
  simp only [List.map_map]
  apply List.map_congr_left
  intro f _
  rfl
end Verif.C08
