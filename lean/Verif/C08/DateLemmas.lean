/- C08: lemmas for the date round trip `parseDate (formatDate t) = ok t`. -/
import Verif.C08.Lemmas
namespace Verif.C08
open Verif.Py Verif.Tables
theorem dg_ne (c : Char) (h : isDigit c = true) :
    c ≠ '-' ∧ c ≠ ' ' ∧ c ≠ '(' ∧ c ≠ ':' ∧ c ≠ '\t' ∧ c ≠ '\n' ∧ c ≠ '\r' ∧ c ≠ Char.ofNat 11 ∧ c ≠ Char.ofNat 12 := by
  refine ⟨?_, ?_, ?_, ?_, ?_, ?_, ?_, ?_, ?_⟩ <;> (intro e; subst e; exact absurd h (by decide))

theorem dg_ne_sep (c : Char) (h : isDigit c = true) :
    c ≠ Char.ofNat 28 ∧ c ≠ Char.ofNat 29 ∧ c ≠ Char.ofNat 30 ∧ c ≠ Char.ofNat 31 := by
  refine ⟨?_, ?_, ?_, ?_⟩ <;> (intro e; subst e; exact absurd h (by decide))

theorem nd1 : natDigits 1 = ['1'] := rfl
theorem nd2 : natDigits 2 = ['2'] := rfl
theorem nd3 : natDigits 3 = ['3'] := rfl
theorem nd4 : natDigits 4 = ['4'] := rfl
theorem nd5 : natDigits 5 = ['5'] := rfl
theorem nd6 : natDigits 6 = ['6'] := rfl
theorem nd7 : natDigits 7 = ['7'] := rfl
theorem nd8 : natDigits 8 = ['8'] := rfl
theorem nd9 : natDigits 9 = ['9'] := rfl
theorem nd10 : natDigits 10 = ['1', '0'] := rfl
theorem nd11 : natDigits 11 = ['1', '1'] := rfl
theorem nd12 : natDigits 12 = ['1', '2'] := rfl

theorem L.natDigits_length (n k : Nat) (hk : 0 < k) : (natDigits n).length ≤ k ↔ n < 10 ^ k := by
  unfold natDigits
  exact Nat.length_toDigits_le_iff (by decide) hk

theorem L.digits4 (y : Nat) (h1 : 1000 ≤ y) (h2 : y ≤ 9999) :
    ∃ a b c e, natDigits y = [a, b, c, e] ∧ isDigit a = true ∧ isDigit b = true ∧ isDigit c = true
      ∧ isDigit e = true ∧ digitsToNat [a, b, c, e] = y := by
  have hle : (natDigits y).length ≤ 4 := (L.natDigits_length y 4 (by decide)).mpr (by omega)
  have hgt : ¬ (natDigits y).length ≤ 3 := fun h => by
    have := (L.natDigits_length y 3 (by decide)).mp h; omega
  have hall := L.natDigits_all y
  have hval := L.digitsToNat_natDigits y
  match hl : natDigits y with
  | [a, b, c, e] =>
    rw [hl] at hall hval
    simp only [List.all_cons, List.all_nil, Bool.and_true, Bool.and_eq_true] at hall
    exact ⟨a, b, c, e, rfl, hall.1, hall.2.1, hall.2.2.1, hall.2.2.2, hval⟩
  | [] => simp [hl] at hgt
  | [_] => simp [hl] at hgt
  | [_, _] => simp [hl] at hgt
  | [_, _, _] => simp [hl] at hgt
  | _ :: _ :: _ :: _ :: _ :: _ => simp [hl] at hle

theorem L.digits1 (n : Nat) (h : n < 10) :
    ∃ a, natDigits n = [a] ∧ isDigit a = true ∧ digitsToNat [a] = n := by
  have hle : (natDigits n).length ≤ 1 := (L.natDigits_length n 1 (by decide)).mpr (by omega)
  have hall := L.natDigits_all n
  have hval := L.digitsToNat_natDigits n
  match hl : natDigits n with
  | [a] =>
    rw [hl] at hall hval
    simp only [List.all_cons, List.all_nil, Bool.and_true] at hall
    exact ⟨a, rfl, hall, hval⟩
  | [] => exact absurd hl (L.natDigits_ne_nil n)
  | _ :: _ :: _ => simp [hl] at hle

theorem L.digits2 (n : Nat) (h1 : 10 ≤ n) (h2 : n < 100) :
    ∃ a b, natDigits n = [a, b] ∧ isDigit a = true ∧ isDigit b = true ∧ digitsToNat [a, b] = n := by
  have hle : (natDigits n).length ≤ 2 := (L.natDigits_length n 2 (by decide)).mpr (by omega)
  have hgt : ¬ (natDigits n).length ≤ 1 := fun h => by
    have := (L.natDigits_length n 1 (by decide)).mp h; omega
  have hall := L.natDigits_all n
  have hval := L.digitsToNat_natDigits n
  match hl : natDigits n with
  | [a, b] =>
    rw [hl] at hall hval
    simp only [List.all_cons, List.all_nil, Bool.and_true, Bool.and_eq_true] at hall
    exact ⟨a, b, rfl, hall.1, hall.2, hval⟩
  | [] => simp [hl] at hgt
  | [_] => simp [hl] at hgt
  | _ :: _ :: _ :: _ => simp [hl] at hle

theorem L.pad2_shape (n : Nat) (h : n < 100) :
    ∃ a b, pad2 n = [a, b] ∧ isDigit a = true ∧ isDigit b = true ∧ digitsToNat [a, b] = n := by
  unfold pad2
  by_cases h10 : n < 10
  · obtain ⟨a, ha, hd, hv⟩ := L.digits1 n h10
    refine ⟨'0', a, by simp [h10, ha], by decide, hd, ?_⟩
    simp [digitsToNat] at hv ⊢
    exact hv
  · obtain ⟨a, b, hab, hda, hdb, hv⟩ := L.digits2 n (by omega) h
    exact ⟨a, b, by simp [h10, hab], hda, hdb, hv⟩


theorem daysIn_le (y m : Nat) : daysIn y m ≤ 31 := by
  unfold daysIn; split <;> (try split) <;> omega

theorem dn1 : digitsToNat ['1'] = 1 := rfl
theorem dn2 : digitsToNat ['2'] = 2 := rfl
theorem dn3 : digitsToNat ['3'] = 3 := rfl
theorem dn4 : digitsToNat ['4'] = 4 := rfl
theorem dn5 : digitsToNat ['5'] = 5 := rfl
theorem dn6 : digitsToNat ['6'] = 6 := rfl
theorem dn7 : digitsToNat ['7'] = 7 := rfl
theorem dn8 : digitsToNat ['8'] = 8 := rfl
theorem dn9 : digitsToNat ['9'] = 9 := rfl
theorem dn10 : digitsToNat ['1', '0'] = 10 := rfl
theorem dn11 : digitsToNat ['1', '1'] = 11 := rfl
theorem dn12 : digitsToNat ['1', '2'] = 12 := rfl

macro "date_simp" : tactic => `(tactic|
  simp (config := {decide := true}) [parseDate, matchYMD, matchDMY, parseMonthDash, takeDigits, dateFix, strptimeFixed,
    monthName, monthNames, monthNumbers, List.lookup, lowerAscii, parseTime, Option.orElse, List.takeWhile, List.dropWhile,
    dn1, dn2, dn3, dn4, dn5, dn6, dn7, dn8, dn9, dn10, dn11, dn12, nd1, nd2, nd3, nd4, nd5, nd6, nd7, nd8, nd9, nd10, nd11, nd12, *])

/-- core: a formatted date without a time part -/
theorem parse_notime (ds : List Char) (a b y1 y2 y3 y4 : Char) (mo y d : Nat)
    (hds : ds = [a] ∨ ds = [a, b]) (ha : isDigit a = true) (hb : isDigit b = true)
    (h1 : isDigit y1 = true) (h2 : isDigit y2 = true) (h3 : isDigit y3 = true) (h4 : isDigit y4 = true)
    (hmo : 1 ≤ mo ∧ mo ≤ 12) (hy : digitsToNat [y1, y2, y3, y4] = y) (hd : digitsToNat ds = d)
    (hy1 : 1 ≤ y) (hd1 : 1 ≤ d) (hd2 : d ≤ daysIn y mo) :
    parseDate (ds ++ '-' :: monthName mo ++ '-' :: [y1, y2, y3, y4]) = .ok ⟨y, mo, d, 0, 0, 0⟩ := by
  obtain ⟨na, _⟩ := dg_ne a ha
  obtain ⟨nb, _⟩ := dg_ne b hb
  have hm : mo = 1 ∨ mo = 2 ∨ mo = 3 ∨ mo = 4 ∨ mo = 5 ∨ mo = 6 ∨ mo = 7 ∨ mo = 8 ∨ mo = 9 ∨ mo = 10 ∨ mo = 11 ∨ mo = 12 := by omega
  have z2 : digitsToNat ['0', '0'] = 0 := rfl
  rcases hds with rfl | rfl <;> rcases hm with rfl | rfl | rfl | rfl | rfl | rfl | rfl | rfl | rfl | rfl | rfl | rfl <;>
    date_simp

end Verif.C08

namespace Verif.C08
open Verif.Py Verif.Tables

/-- core: a formatted date with a time part -/
theorem parse_time (ds : List Char) (a b y1 y2 y3 y4 c1 c2 c3 c4 c5 c6 : Char) (mo y d H M S : Nat)
    (hds : ds = [a] ∨ ds = [a, b]) (ha : isDigit a = true) (hb : isDigit b = true)
    (h1 : isDigit y1 = true) (h2 : isDigit y2 = true) (h3 : isDigit y3 = true) (h4 : isDigit y4 = true)
    (g1 : isDigit c1 = true) (g2 : isDigit c2 = true) (g3 : isDigit c3 = true) (g4 : isDigit c4 = true)
    (g5 : isDigit c5 = true) (g6 : isDigit c6 = true)
    (hmo : 1 ≤ mo ∧ mo ≤ 12) (hy : digitsToNat [y1, y2, y3, y4] = y) (hd : digitsToNat ds = d)
    (hH : digitsToNat [c1, c2] = H) (hM : digitsToNat [c3, c4] = M) (hS : digitsToNat [c5, c6] = S)
    (hy1 : 1 ≤ y) (hd1 : 1 ≤ d) (hd2 : d ≤ daysIn y mo) (hH2 : H < 24) (hM2 : M < 60) (hS2 : S < 60) :
    parseDate (ds ++ '-' :: monthName mo ++ '-' :: [y1, y2, y3, y4] ++ ' ' :: [c1, c2] ++ ':' :: [c3, c4] ++ ':' :: [c5, c6])
      = .ok ⟨y, mo, d, H, M, S⟩ := by
  obtain ⟨na, _⟩ := dg_ne a ha
  obtain ⟨nb, _⟩ := dg_ne b hb
  obtain ⟨_, q1, q2, q3, q4, q5, q6, q7, q8⟩ := dg_ne c1 g1
  obtain ⟨q9, q10, q11, q12⟩ := dg_ne_sep c1 g1
  have hm : mo = 1 ∨ mo = 2 ∨ mo = 3 ∨ mo = 4 ∨ mo = 5 ∨ mo = 6 ∨ mo = 7 ∨ mo = 8 ∨ mo = 9 ∨ mo = 10 ∨ mo = 11 ∨ mo = 12 := by omega
  rcases hds with rfl | rfl <;> rcases hm with rfl | rfl | rfl | rfl | rfl | rfl | rfl | rfl | rfl | rfl | rfl | rfl <;>
    date_simp

end Verif.C08

namespace Verif.C08
open Verif.Py Verif.Tables

theorem L.parseDate_formatDate (t : DT) (hv : t.Valid = true) : parseDate (formatDate t) = .ok t := by
  obtain ⟨y, mo, d, H, M, S⟩ := t
  simp only [DT.Valid, Bool.and_eq_true, decide_eq_true_eq] at hv
  obtain ⟨⟨⟨⟨⟨⟨⟨⟨hy1, hy2⟩, hm1⟩, hm2⟩, hd1⟩, hd2⟩, hH⟩, hM⟩, hS⟩ := hv
  obtain ⟨y1, y2, y3, y4, hyd, e1, e2, e3, e4, hyv⟩ := L.digits4 y hy1 hy2
  have hd31 : d ≤ 31 := Nat.le_trans hd2 (daysIn_le y mo)
  -- day digits
  have hday : ∃ ds a b, natDigits d = ds ∧ (ds = [a] ∨ ds = [a, b]) ∧ isDigit a = true ∧ isDigit b = true
      ∧ digitsToNat ds = d := by
    by_cases h10 : d < 10
    · obtain ⟨a, ha, hda, hva⟩ := L.digits1 d h10
      exact ⟨[a], a, a, ha, Or.inl rfl, hda, hda, hva⟩
    · obtain ⟨a, b, hab, hda, hdb, hvab⟩ := L.digits2 d (by omega) (by omega)
      exact ⟨[a, b], a, b, hab, Or.inr rfl, hda, hdb, hvab⟩
  obtain ⟨ds, a, b, hds, hshape, hda, hdb, hdv⟩ := hday
  unfold formatDate
  simp only [hyd, hds]
  by_cases hz : (H = 0 && M = 0 && S = 0) = true
  · simp only [hz, if_true, List.append_nil]
    simp only [Bool.and_eq_true, decide_eq_true_eq] at hz
    obtain ⟨⟨rfl, rfl⟩, rfl⟩ := hz
    exact parse_notime ds a b y1 y2 y3 y4 mo y d hshape hda hdb e1 e2 e3 e4 ⟨hm1, hm2⟩ hyv hdv (by omega) hd1 hd2
  · simp only [hz]
    obtain ⟨c1, c2, hp1, g1, g2, v1⟩ := L.pad2_shape H (by omega)
    obtain ⟨c3, c4, hp2, g3, g4, v2⟩ := L.pad2_shape M (by omega)
    obtain ⟨c5, c6, hp3, g5, g6, v3⟩ := L.pad2_shape S (by omega)
    rw [hp1, hp2, hp3]
    have := parse_time ds a b y1 y2 y3 y4 c1 c2 c3 c4 c5 c6 mo y d H M S hshape hda hdb e1 e2 e3 e4 g1 g2 g3 g4 g5 g6
      ⟨hm1, hm2⟩ hyv hdv v1 v2 v3 (by omega) hd1 hd2 hH hM hS
    simpa using this

end Verif.C08
