/- C08 helper lemmas. -/
import Verif.C08.Model

namespace Verif.C08
open Verif.Py Verif.Tables

/-- one-pass description of `escape`. -/
def escChar (c : Char) : List Char :=
  if c = '\\' then ['\\', '\\'] else if c = '\n' then ['\\', 'n'] else if c = '@' then ['\\', 's'] else [c]

theorem tables_ok : tsdbEscapes = [('\\', ['\\', '\\']), ('\n', ['\\', 'n']), ('@', ['\\', 's'])]
    ∧ fieldDelimiter = '@' := by
  constructor <;> rfl

theorem replaceChar_nil (c : Char) (r : List Char) : replaceChar c r [] = [] := rfl

theorem replaceChar_append (c : Char) (r : List Char) (a b : List Char) :
    replaceChar c r (a ++ b) = replaceChar c r a ++ replaceChar c r b := by
  simp [replaceChar, List.flatMap_append]

theorem replaceChar_cons (c : Char) (r : List Char) (x : Char) (xs : List Char) :
    replaceChar c r (x :: xs) = (if x = c then r else [x]) ++ replaceChar c r xs := by
  simp [replaceChar, List.flatMap_cons]

theorem escape_eq_chain (s : List Char) :
    escape s = replaceChar '@' ['\\', 's'] (replaceChar '\n' ['\\', 'n'] (replaceChar '\\' ['\\', '\\'] s)) := by
  unfold escape
  rw [tables_ok.1]
  rfl

theorem escape_nil : escape [] = [] := by
  rw [escape_eq_chain]; rfl

theorem escape_cons (c : Char) (s : List Char) : escape (c :: s) = escChar c ++ escape s := by
  rw [escape_eq_chain, escape_eq_chain]
  rw [replaceChar_cons]
  rw [replaceChar_append, replaceChar_append]
  congr 1
  unfold escChar
  by_cases h1 : c = '\\'
  · subst h1; decide
  · by_cases h2 : c = '\n'
    · subst h2; decide
    · by_cases h3 : c = '@'
      · subst h3; decide
      · simp [h1, h2, h3, replaceChar]

theorem escape_append (a b : List Char) : escape (a ++ b) = escape a ++ escape b := by
  induction a with
  | nil => simp [escape_nil]
  | cons c a ih => simp [escape_cons, ih]

end Verif.C08

namespace Verif.C08
theorem unescape_cons_ne (c : Char) (r : List Char) (h : c ≠ '\\') :
    unescape (c :: r) = (unescape r).map (c :: ·) := by
  rw [unescape.eq_def]; simp [h]
end Verif.C08

namespace Verif.C08
open Verif.Py Verif.Tables

theorem splitOn_ne_nil (c : Char) (s : List Char) : splitOn c s ≠ [] := by
  induction s with
  | nil => simp [splitOn]
  | cons x xs ih =>
    unfold splitOn
    split
    · simp
    · cases splitOn c xs <;> simp [consHead]

theorem splitOn_cons_eq (c : Char) (xs : List Char) : splitOn c (c :: xs) = [] :: splitOn c xs := by
  simp [splitOn]

theorem splitOn_cons_ne (c x : Char) (xs : List Char) (h : x ≠ c) :
    splitOn c (x :: xs) = consHead x (splitOn c xs) := by
  simp [splitOn, h]

theorem splitOn_noSep (c : Char) (s : List Char) (h : c ∉ s) : splitOn c s = [s] := by
  induction s with
  | nil => rfl
  | cons x xs ih =>
    simp only [List.mem_cons, not_or] at h
    rw [splitOn_cons_ne c x xs (Ne.symm h.1), ih h.2]; rfl

theorem splitOn_append_sep (c : Char) (p rest : List Char) (h : c ∉ p) :
    splitOn c (p ++ c :: rest) = p :: splitOn c rest := by
  induction p with
  | nil => simp [splitOn_cons_eq]
  | cons x xs ih =>
    simp only [List.mem_cons, not_or] at h
    simp only [List.cons_append]
    rw [splitOn_cons_ne c x _ (Ne.symm h.1), ih h.2]; rfl

theorem splitOn_joinWith (c : Char) (ps : List (List Char)) (hne : ps ≠ [])
    (h : ∀ p ∈ ps, c ∉ p) : splitOn c (joinWith c ps) = ps := by
  induction ps with
  | nil => exact absurd rfl hne
  | cons p ps ih =>
    cases ps with
    | nil => simp [joinWith, splitOn_noSep c p (h p (by simp))]
    | cons q qs =>
      simp only [joinWith]
      rw [splitOn_append_sep c p _ (h p (by simp))]
      rw [ih (by simp) (fun x hx => h x (by simp [hx]))]

theorem count_joinWith (c : Char) (ps : List (List Char)) (hne : ps ≠ [])
    (h : ∀ p ∈ ps, c ∉ p) : (joinWith c ps).count c = ps.length - 1 := by
  induction ps with
  | nil => exact absurd rfl hne
  | cons p ps ih =>
    cases ps with
    | nil => simp [joinWith, List.count_eq_zero.mpr (h p (by simp))]
    | cons q qs =>
      simp only [joinWith, List.count_append, List.count_cons_self]
      rw [ih (by simp) (fun x hx => h x (by simp [hx]))]
      simp [List.count_eq_zero.mpr (h p (by simp))]

theorem not_mem_joinWith (c d : Char) (ps : List (List Char)) (hcd : d ≠ c)
    (h : ∀ p ∈ ps, d ∉ p) : d ∉ joinWith c ps := by
  induction ps with
  | nil => simp [joinWith]
  | cons p ps ih =>
    cases ps with
    | nil => simpa [joinWith] using h p (by simp)
    | cons q qs =>
      simp only [joinWith, List.mem_append, List.mem_cons, not_or]
      exact ⟨h p (by simp), hcd, ih (fun x hx => h x (by simp [hx]))⟩

theorem rstripChar_not_mem (c : Char) (s : List Char) (h : c ∉ s) : rstripChar c s = s := by
  unfold rstripChar
  cases hs : s.reverse with
  | nil => simpa using hs
  | cons x xs =>
    have hs' : s = xs.reverse ++ [x] := by
      have := congrArg List.reverse hs
      simpa using this
    have hx : x ∈ s := by
      have : x ∈ s.reverse := by rw [hs]; simp
      simpa using this
    have : x ≠ c := fun e => h (e ▸ hx)
    simp [List.dropWhile, this, hs']

theorem rstripChar_snoc (c : Char) (s : List Char) : rstripChar c (s ++ [c]) = rstripChar c s := by
  unfold rstripChar
  simp [List.dropWhile]

theorem escape_eq_nil (s : List Char) : escape s = [] ↔ s = [] := by
  constructor
  · intro h
    cases s with
    | nil => rfl
    | cons c s =>
      rw [escape_cons] at h
      have : escChar c ≠ [] := by
        unfold escChar
        repeat' split
        all_goals exact List.cons_ne_nil _ _
      exact absurd (List.append_eq_nil_iff.mp h).1 this
  · intro h; subst h; exact escape_nil

end Verif.C08

namespace Verif.C08
open Verif.Py Verif.Tables

/-- "escape and unescape are mutually inverse" (1/2): unescape undoes escape, for every string. -/
theorem L.unescape_escape (s : List Char) : unescape (escape s) = .ok s := by
  induction s with
  | nil => rw [escape_nil]; rfl
  | cons c s ih =>
    rw [escape_cons]
    unfold escChar
    by_cases h1 : c = '\\'
    · subst h1; simp [unescape, ih, Except.map]
    · by_cases h2 : c = '\n'
      · subst h2; simp [unescape, ih, Except.map]
      · by_cases h3 : c = '@'
        · subst h3; simp [unescape, ih, Except.map, tables_ok.2]
        · rw [if_neg h1, if_neg h2, if_neg h3]; simp [unescape_cons_ne _ _ h1, ih, Except.map]

/-- "the encoded line never contains a raw newline [or a delimiter inside a value]". -/
theorem L.escape_safe (s : List Char) : '\n' ∉ escape s ∧ '@' ∉ escape s := by
  induction s with
  | nil => rw [escape_nil]; simp
  | cons c s ih =>
    rw [escape_cons]
    unfold escChar
    by_cases h1 : c = '\\'
    · subst h1; simp [ih]
    · by_cases h2 : c = '\n'
      · subst h2; simp [ih]
      · by_cases h3 : c = '@'
        · subst h3; simp [ih]
        · simp [h1, h2, h3, ih]; exact ⟨fun h => h2 h.symm, fun h => h3 h.symm⟩

/-- injectivity: two different values never get the same encoding. -/
theorem L.escape_injective (a b : List Char) (h : escape a = escape b) : a = b := by
  have ha := L.unescape_escape a
  rw [h, L.unescape_escape] at ha
  exact (Except.ok.inj ha).symm


theorem L.escape_unescape (t s : List Char) (h : unescape t = .ok s)
    (hn : '\n' ∉ t) (hd : '@' ∉ t) : escape s = t := by
  fun_induction unescape t generalizing s with
  | case1 => cases h; exact escape_nil
  | case2 => cases h
  | case3 rest' ih =>
    simp only [Except.map] at h
    split at h
    · cases h
    · rename_i r hr
      cases h
      rw [escape_cons]
      simp only [List.mem_cons, not_or] at hn hd
      rw [ih r hr hn.2.2 hd.2.2]
      rfl
  | case4 rest' hd1 ih =>
    simp only [Except.map] at h
    split at h
    · cases h
    · rename_i r hr
      cases h
      rw [escape_cons]
      simp only [List.mem_cons, not_or] at hn hd
      rw [ih r hr hn.2.2 hd.2.2]
      rfl
  | case5 rest' hd1 hd2 ih =>
    simp only [Except.map] at h
    split at h
    · cases h
    · rename_i r hr
      cases h
      rw [escape_cons]
      simp only [List.mem_cons, not_or] at hn hd
      rw [ih r hr hn.2.2 hd.2.2]
      rfl
  | case6 => cases h
  | case7 c rest hc ih =>
    simp only [Except.map] at h
    split at h
    · cases h
    · rename_i r hr
      cases h
      rw [escape_cons]
      simp only [List.mem_cons, not_or] at hn hd
      rw [ih r hr hn.2 hd.2]
      unfold escChar
      simp [hc, Ne.symm hn.1, Ne.symm hd.1]

/-- `''` and `None` coincide. -/
def normEmpty (v : Option (List Char)) : Option (List Char) :=
  match v with
  | some [] => none
  | v => v

theorem mapM_cols (vs : List (Option (List Char))) :
    (vs.map (fun v => escape (v.getD []))).mapM
      (fun col => if col.isEmpty then (Except.ok none : Except Err _) else (unescape col).map some)
    = .ok (vs.map normEmpty) := by
  induction vs with
  | nil => rfl
  | cons v vs ih =>
    simp only [List.map_cons, List.mapM_cons, ih]
    cases v with
    | none => simp [normEmpty, escape_nil]; rfl
    | some s =>
      cases s with
      | nil => simp [normEmpty, escape_nil]; rfl
      | cons c s =>
        have hne : escape (c :: s) ≠ [] := fun h => by
          have := (escape_eq_nil (c :: s)).mp h; simp at this
        have : (escape (c :: s)).isEmpty = false := by
          cases h : escape (c :: s) with
          | nil => exact absurd h hne
          | cons _ _ => rfl
        simp [normEmpty, this, L.unescape_escape, Except.map]; rfl

theorem cols_no_delim (vs : List (Option (List Char))) :
    ∀ p ∈ vs.map (fun v => escape (v.getD [])), '@' ∉ p := by
  intro p hp
  simp only [List.mem_map] at hp
  obtain ⟨v, _, rfl⟩ := hp
  exact (L.escape_safe _).2

end Verif.C08

namespace Verif.C08
open Verif.Py Verif.Tables

theorem L.unescape_ok_iff (t : List Char) : (∃ s, unescape t = .ok s) ↔ WellEscaped t = true := by
  fun_induction unescape t with
  | case1 => simp [WellEscaped]
  | case2 => simp [WellEscaped]
  | case3 rest' ih =>
    simp only [WellEscaped]
    simp only [Except.map]
    constructor
    · rintro ⟨s, hs⟩
      split at hs
      · cases hs
      · rename_i r hr; simpa using ih.mp ⟨r, hr⟩
    · intro h
      have := ih.mpr (by simpa using h)
      obtain ⟨r, hr⟩ := this
      exact ⟨'\\' :: r, by rw [hr]⟩
  | case4 rest' hd1 ih =>
    simp only [WellEscaped]
    simp only [Except.map]
    constructor
    · rintro ⟨s, hs⟩
      split at hs
      · cases hs
      · rename_i r hr; simpa using ih.mp ⟨r, hr⟩
    · intro h
      have := ih.mpr (by simpa using h)
      obtain ⟨r, hr⟩ := this
      exact ⟨fieldDelimiter :: r, by rw [hr]⟩
  | case5 rest' hd1 hd2 ih =>
    simp only [WellEscaped]
    simp only [Except.map]
    constructor
    · rintro ⟨s, hs⟩
      split at hs
      · cases hs
      · rename_i r hr; simpa using ih.mp ⟨r, hr⟩
    · intro h
      have := ih.mpr (by simpa using h)
      obtain ⟨r, hr⟩ := this
      exact ⟨'\n' :: r, by rw [hr]⟩
  | case6 d rest' h1 h2 h3 =>
    simp [WellEscaped, h1, h2, h3]
  | case7 c rest hc ih =>
    have hw : WellEscaped (c :: rest) = WellEscaped rest := by
      rw [WellEscaped.eq_def]; simp [hc]
    rw [hw]
    simp only [Except.map]
    constructor
    · rintro ⟨s, hs⟩
      split at hs
      · cases hs
      · rename_i r hr; exact ih.mp ⟨r, hr⟩
    · intro h
      obtain ⟨r, hr⟩ := ih.mpr h
      exact ⟨c :: r, by rw [hr]⟩


theorem L.natDigits_all (n : Nat) : (natDigits n).all isDigit = true := by
  simp only [List.all_eq_true, natDigits, isDigit]
  intro c hc
  exact Nat.isDigit_of_mem_toDigits (by decide) (by decide) hc

theorem L.digitsToNat_natDigits (n : Nat) : digitsToNat (natDigits n) = n := by
  unfold digitsToNat natDigits
  rw [← Nat.ofDigitChars_eq_foldl]
  exact Nat.ofDigitChars_toDigits (by decide) (by decide)

theorem L.natDigits_ne_nil (n : Nat) : natDigits n ≠ [] := Nat.toDigits_ne_nil

theorem L.natDigits_head (n : Nat) : ∀ c r, natDigits n = c :: r → c ≠ '-' ∧ c ≠ '+' := by
  intro c r h
  have : c.isDigit := Nat.isDigit_of_mem_toDigits (b := 10) (n := n) (by decide) (by decide) (by
    show c ∈ natDigits n
    rw [h]; simp)
  constructor <;> (intro e; subst e; revert this; decide)

theorem L.castInt_formatInt (i : Int) : castInt (formatInt i) = .ok i := by
  cases i with
  | ofNat n =>
    simp only [formatInt]
    cases h : natDigits n with
    | nil => exact absurd h (L.natDigits_ne_nil n)
    | cons c r =>
      obtain ⟨h1, h2⟩ := L.natDigits_head n c r h
      have hall := L.natDigits_all n
      have hval := L.digitsToNat_natDigits n
      rw [h] at hall hval
      unfold castInt
      simp [h1, h2, hall, hval]
  | negSucc n =>
    simp only [formatInt]
    have hall := L.natDigits_all (n + 1)
    have hval := L.digitsToNat_natDigits (n + 1)
    have hne := L.natDigits_ne_nil (n + 1)
    unfold castInt
    simp [hall, hval, hne]
    rfl
end Verif.C08

namespace Verif.C08
open Verif.Py Verif.Tables

theorem L.row_getIdx (r : Row) (i : Int) (hl : r.types.length = r.data.length) :
    r.getIdx i = getIndex r.iter i := by
  unfold Row.getIdx Row.iter getIndex
  simp only [List.length_zipWith, hl, Nat.min_self]
  generalize (if i < 0 then i + (r.data.length : Int) else i) = j
  by_cases hj : j < 0
  · simp [hj]
  · simp only [hj, if_false, List.getElem?_zipWith]
    cases r.types[j.toNat]? <;> cases r.data[j.toNat]? <;> rfl

theorem filterMap_zipWith_idx {α β γ} (f : α → β → γ) (xs : List α) (ys : List β) (is : List Int)
    (hl : xs.length = ys.length) :
    is.filterMap (fun i => (List.zipWith f xs ys)[i.toNat]?) =
      List.zipWith f (is.filterMap (fun i => xs[i.toNat]?)) (is.filterMap (fun i => ys[i.toNat]?)) := by
  induction is with
  | nil => simp
  | cons i is ih =>
    rw [List.filterMap_cons, List.filterMap_cons, List.filterMap_cons, ih, List.getElem?_zipWith']
    by_cases h : i.toNat < xs.length
    · have h' : i.toNat < ys.length := hl ▸ h
      rw [List.getElem?_eq_getElem h, List.getElem?_eq_getElem h']
      simp
    · have h' : ¬ i.toNat < ys.length := hl ▸ h
      rw [List.getElem?_eq_none (Nat.le_of_not_lt h), List.getElem?_eq_none (Nat.le_of_not_lt h')]
      simp

theorem L.row_getSlice (r : Row) (sl : Slice) (hl : r.types.length = r.data.length) :
    r.getSlice sl = Py.getSlice r.iter sl := by
  unfold Row.getSlice Row.iter Py.getSlice
  simp only [List.length_zipWith, hl, Nat.min_self]
  cases h : sliceIndices sl r.data.length with
  | none => simp
  | some v =>
    obtain ⟨a, b, st⟩ := v
    simp only [filterMap_zipWith_idx cast r.types r.data _ hl]

theorem L.mkRow_lengths (ts : List DType) (ns : List (List Char)) (vs : List Val) (hl : ts.length = vs.length) :
    (mkRow ts ns vs).types.length = (mkRow ts ns vs).data.length := by
  simp [mkRow, hl]

end Verif.C08
