/- C08 helper lemmas. -/
import Verif.C08.Model

namespace Verif.C08
open Verif.Py Verif.Tables

/-- one-pass description of `escape`. -/
def escChar (c : Char) : List Char :=
  if c = '\\' then ['\\', '\\'] else if c = '\n' then ['\\', 'n'] else if c = '@' then ['\\', 's'] else [c]

theorem tables_ok : tsdbEscapes = [('\\', ['\\', '\\']), ('\n', ['\\', 'n']), ('@', ['\\', 's'])]
    ∧ fieldDelimiter = '@' := by
  constructor <;> rfl

theorem replaceChar_nil (c : Char) (r : List Char) : replaceChar c r [] = [] := rfl

theorem replaceChar_append (c : Char) (r : List Char) (a b : List Char) :
    replaceChar c r (a ++ b) = replaceChar c r a ++ replaceChar c r b := by
  simp [replaceChar, List.flatMap_append]

theorem replaceChar_cons (c : Char) (r : List Char) (x : Char) (xs : List Char) :
    replaceChar c r (x :: xs) = (if x = c then r else [x]) ++ replaceChar c r xs := by
  simp [replaceChar, List.flatMap_cons]

theorem escape_eq_chain (s : List Char) :
    escape s = replaceChar '@' ['\\', 's'] (replaceChar '\n' ['\\', 'n'] (replaceChar '\\' ['\\', '\\'] s)) := by
  unfold escape
  rw [tables_ok.1]
  rfl

theorem escape_nil : escape [] = [] := by
  rw [escape_eq_chain]; rfl

theorem escape_cons (c : Char) (s : List Char) : escape (c :: s) = escChar c ++ escape s := by
  rw [escape_eq_chain, escape_eq_chain]
  rw [replaceChar_cons]
  rw [replaceChar_append, replaceChar_append]
  congr 1
  unfold escChar
  by_cases h1 : c = '\\'
  · subst h1; decide
  · by_cases h2 : c = '\n'
    · subst h2; decide
    · by_cases h3 : c = '@'
      · subst h3; decide
      · simp [h1, h2, h3, replaceChar]

theorem escape_append (a b : List Char) : escape (a ++ b) = escape a ++ escape b := by
  induction a with
  | nil => simp [escape_nil]
  | cons c a ih => simp [escape_cons, ih]

end Verif.C08

namespace Verif.C08
theorem unescape_cons_ne (c : Char) (r : List Char) (h : c ≠ '\\') :
    unescape (c :: r) = (unescape r).map (c :: ·) := by
  rw [unescape.eq_def]; simp [h]
end Verif.C08
