/-
C18 — the defining equation FROM THE STRUCTURES: `edm.compute` on paired lists of EDS/DMRS structures equals
`_prf` of the weighted totals of the five triple collections as the property describes them (Spec.lean:
one name triple per node, one argument triple per EDS edge / per non-`MOD` DMRS link whose ends are nodes, one
property triple per feature, one constant triple per non-empty `carg`, the top node's span), without reference
to how the code extracts them.  Helper lemmas are in SpecLemmas.lean.
-/
import Verif.C18.SpecLemmas
import Verif.C18.ApiLemmas
import Verif.C18.Props

namespace Verif.C18

section spec
variable {ι κ : Type} [DecidableEq ι] [DecidableEq κ]

/-- "the multiset … of name, argument, property, constant and top triples keyed by character spans": in a
structure with distinct node identifiers the lists `edm._names/_arguments/_properties/_constants` build and
the top test of `_match` (`top in sr`, `sr[top]`) are, up to order, the declarative collections `specSig`;
names, properties, constants and the top even literally, and the arguments of an EDS too. -/
theorem extraction_is_spec {g : Graph ι} (hn : (g.nodes.map (·.id)).Nodup) :
    SigPerm (specSig g) (sigOf g) ∧ topSpan g = specTop g ∧ (g.kind = .eds → arguments g = specArgs g) :=
  ⟨sigOf_spec hn, topSpan_spec hn, fun hk => arguments_eds hk hn⟩

/-- DMRS: "`MOD`/`EQ` links are not arguments", and a link with an end that is no node gives no triple;
every other link gives exactly the triple (span of its start node, role, span of its end node). -/
theorem specLink_cases (ns : List (Node ι)) (l : Link ι) :
    (l.role = modRole → specLink ns l = []) ∧
    (nodeOf ns l.start = none → specLink ns l = []) ∧
    (nodeOf ns l.target = none → specLink ns l = []) ∧
    (∀ s e, l.role ≠ modRole → nodeOf ns l.start = some s → nodeOf ns l.target = some e →
      specLink ns l = [(s.span, l.role, Val.span e.span)]) := by
  refine ⟨fun h => by simp [specLink, h], fun h => ?_, fun h => ?_, fun s e h1 h2 h3 => by simp [specLink, h1, h2, h3]⟩
  · unfold specLink; split <;> simp [h]
  · unfold specLink; split
    · rfl
    · cases nodeOf ns l.start <;> simp [h]

/-- the "top in structure" test: a top triple exists iff `top` names a node; it is that node's span -/
theorem specTop_eq_some (g : Graph ι) (s : Span) :
    specTop g = some s ↔ ∃ t n, g.top = some t ∧ nodeOf g.nodes t = some n ∧ n.span = s := by
  unfold specTop
  cases g.top with
  | none => simp
  | some t => cases nodeOf g.nodes t <;> simp

theorem items_spec {gs : List (Option (Graph ι))}
    (h : ∀ g, some g ∈ gs → (g.nodes.map (·.id)).Nodup ∧ argsOk g = true) :
    ItemsRel ((gs.map (·.map specSig)).map (·.map Except.ok)) (gs.map (·.map sig)) := by
  induction gs with
  | nil => exact ItemsRel.nil
  | cons x xs ih =>
    have ih' := ih (fun g hg => h g (List.mem_cons_of_mem _ hg))
    cases x with
    | none => exact ItemsRel.cons ItemRel.none ih'
    | some g =>
      have hg := h g List.mem_cons_self
      refine ItemsRel.cons ?_ ih'
      show ItemRel (some (.ok (specSig g))) (some (sig g))
      rw [sig_ok_of_argsOk g hg.2]
      exact ItemRel.ok (sigOf_spec hg.1)

/-- "For any paired lists of gold and test dependency structures, the reported precision, recall and F-score
equal the ratios computed from the multiset intersection of name, argument, property, constant and top
triples keyed by character spans under the given weights, with a missing member of a pair counted as empty
or skipped as requested" — ONE statement from the structures: for all weights, both flags, all lists (with
`None` entries, unequal lengths) of structures of the input space (distinct node identifiers; every non-`MOD`
DMRS link starts at a node), `compute` is `_prf` of `G = Σ_c w_c·Σ_pairs |gold_c|`, `T = Σ_c w_c·Σ_pairs |test_c|`,
`B = Σ_c w_c·Σ_pairs |gold_c ∩ test_c|` over the counted pairs, where the collections are the declarative
`specSig` of each structure and `∩` is the multiset intersection `inter` (crossing off). -/
theorem compute_from_structures (w : Weights) (ig it : Bool)
    (golds : List (Option (Graph ι))) (tests : List (Option (Graph κ)))
    (hg : ∀ g, some g ∈ golds → (g.nodes.map (·.id)).Nodup ∧ argsOk g = true)
    (ht : ∀ t, some t ∈ tests → (t.nodes.map (·.id)).Nodup ∧ argsOk t = true) :
    compute w ig it golds tests =
      let ps := counted ig it (zipLongest (golds.map (·.map specSig)) (tests.map (·.map specSig)))
      prf (wsum w (fun c => sumOver ps (fun g _ => (g.triples c).length)))
          (wsum w (fun c => sumOver ps (fun _ t => (t.triples c).length)))
          (wsum w (fun c => sumOver ps (fun g t => inter (g.triples c) (t.triples c)))) := by
  unfold compute
  rw [computeS_congr w ig it (items_spec hg) (items_spec ht)]
  exact computeS_def w ig it _ _

/-- zero-safe ratios from the structures: (0,0,0) if G, T or B is 0, else p = B/T, r = B/G, f = 2pr/(p+r) -/
theorem compute_from_structures_ratios (w : Weights) (ig it : Bool)
    (golds : List (Option (Graph ι))) (tests : List (Option (Graph κ)))
    (hg : ∀ g, some g ∈ golds → (g.nodes.map (·.id)).Nodup ∧ argsOk g = true)
    (ht : ∀ t, some t ∈ tests → (t.nodes.map (·.id)).Nodup ∧ argsOk t = true)
    {s : Score} (h : compute w ig it golds tests = .ok s) :
    let ps := counted ig it (zipLongest (golds.map (·.map specSig)) (tests.map (·.map specSig)))
    let G := wsum w (fun c => sumOver ps (fun g _ => (g.triples c).length))
    let T := wsum w (fun c => sumOver ps (fun _ t => (t.triples c).length))
    let B := wsum w (fun c => sumOver ps (fun g t => inter (g.triples c) (t.triples c)))
    ((T = 0 ∨ G = 0 ∨ B = 0) → s = ⟨0, 0, 0⟩) ∧
    (T ≠ 0 → G ≠ 0 → B ≠ 0 →
      s.precision = B / T ∧ s.recall = B / G ∧
      s.fscore = 2 * (s.precision * s.recall) / (s.precision + s.recall)) := by
  rw [compute_from_structures w ig it golds tests hg ht] at h
  exact prf_ratios h

end spec

/-! ## the hypothesis is needed, the statement is not vacuous -/

/-- distinct identifiers are needed: with two nodes sharing an id the code's lookups see the LAST one, the
declarative "the node named by top" the first — they disagree on the top span. -/
theorem spec_needs_distinct_ids : topSpan exDup = some (4, 7) ∧ specTop exDup = some (0, 3) := by decide

/-- the declarative collections of the example structures of Props.lean, and their hypotheses -/
example : (exG.nodes.map (·.id)).Nodup ∧ argsOk exG = true ∧ (exT.nodes.map (·.id)).Nodup ∧ argsOk exT = true := by
  decide

example : (specSig exG).args = [((0, 3), ['A', 'R', 'G', '1'], Val.span (4, 7))] ∧ (specSig exG).top = some (0, 3) := by
  decide

/-- a DMRS with a `MOD` link, a link to a non-node and a real argument: one argument triple -/
example : specArgs (mkDmrs (some 1) [exN1, exN2]
    [⟨1, 2, ['M', 'O', 'D']⟩, ⟨1, 9, ['A', 'R', 'G', '2']⟩, ⟨2, 1, ['A', 'R', 'G', '1']⟩])
    = [((4, 7), ['A', 'R', 'G', '1'], Val.span (0, 3))] := by decide

end Verif.C18
