/-
C18 — property theorems about the code around the core of `edm.compute` (Api.lean): the logging branch,
the per-pair trace, exactly when the call raises, the option plumbing of the sub-command, and
`decide`-checked witnesses that the hypotheses of Props.lean (non-negative weights, distinct node ids,
a positively weighted triple) cannot be dropped.  Helper lemmas are in ApiLemmas.lean.
-/
import Verif.C18.ApiLemmas
import Verif.Generated.TablesC18

namespace Verif.C18

/-! ## the logging branch of `_accumulate` -/

/-- The `_prf(*result.<category>)` calls of the `if info:` branch are made on integer counts: they never
raise (no zero denominator: `p + r = 0` needs a negative total) … -/
theorem logPrf_ok (c : Count) : ∃ s, logPrf c = .ok s := logPrf_ok' c

/-- … so "the reported precision, recall and F-score" do not depend on the logger level: `_accumulate`
with the INFO branch taken returns the totals (or raises the error) of the loop without it, for all
lists, flags and starting totals. -/
theorem accumulate_info_irrelevant (info ig it : Bool) (golds tests : List (Option Item)) :
    accumulateI info ig it golds tests = accumulate ig it golds tests :=
  accLoopI_eq info ig it _ _

theorem compute_info_irrelevant {ι κ : Type} [DecidableEq ι] [DecidableEq κ] (info : Bool) (w : Weights)
    (ig it : Bool) (golds : List (Option (Graph ι))) (tests : List (Option (Graph κ))) :
    computeI info w ig it golds tests = compute w ig it golds tests := by
  unfold computeI compute computeS
  rw [accumulate_info_irrelevant]
  cases accumulate ig it (golds.map (·.map sig)) (tests.map (·.map sig)) <;> rfl

/-! ## the per-pair trace -/

/-- The totals of `_accumulate` are the category-wise sums of the per-pair counts the loop produces
(`none` = pair skipped), in order; if a pair raises, so does the call. -/
theorem accumulate_eq_trace_sum {ι κ : Type} [DecidableEq ι] [DecidableEq κ] (ig it : Bool)
    (golds : List (Option (Graph ι))) (tests : List (Option (Graph κ))) :
    accumulateG ig it golds tests =
      match traceG ig it golds tests with
      | (tr, none) => .ok (tr.foldl addOpt Match.zero)
      | (_, some e) => .error e :=
  accLoop_trace ig it _ Match.zero

/-! ## exactly when the call raises -/

section raises
variable {ι κ : Type} [DecidableEq ι] [DecidableEq κ]

/-- "with a missing member of a pair counted as empty or skipped as requested": `_accumulate` raises iff
some pair that is NOT skipped contains a present structure whose `arguments()` raises (a DMRS with a
non-`MOD` link starting at no node).  A defective structure in a skipped pair is never looked at.
Sharpens `error_only_from_dangling_link` to an equivalence; no hypothesis on the weights. -/
theorem accumulate_raises_iff (ig it : Bool)
    (golds : List (Option (Graph ι))) (tests : List (Option (Graph κ))) :
    (∃ e, accumulateG ig it golds tests = .error e) ↔
      ∃ p ∈ zipLongest golds tests, skipped ig it p = false ∧
        ((∃ g, p.1 = some g ∧ argsOk g = false) ∨ (∃ t, p.2 = some t ∧ argsOk t = false)) := by
  unfold accumulateG accumulate
  rw [accLoop_fails_iff, zipLongest_map]
  constructor
  · rintro ⟨q, hq, hs, he⟩
    obtain ⟨p, hp, rfl⟩ := List.mem_map.1 hq
    refine ⟨p, hp, ?_, ?_⟩
    · rw [← skipped_map ig it sig sig p]; exact hs
    · rcases he with he | he
      · exact Or.inl ((isErr_map_sig p.1).1 he)
      · exact Or.inr ((isErr_map_sig p.2).1 he)
  · rintro ⟨p, hp, hs, he⟩
    refine ⟨(p.1.map sig, p.2.map sig), List.mem_map.2 ⟨p, hp, rfl⟩, ?_, ?_⟩
    · rw [skipped_map ig it sig sig p]; exact hs
    · rcases he with he | he
      · exact Or.inl ((isErr_map_sig p.1).2 he)
      · exact Or.inr ((isErr_map_sig p.2).2 he)

/-- The defining equation of Props.lean (`compute_def`) needs `arguments()` to be defined only for the
structures of pairs that are counted: "a missing member of a pair … skipped as requested" — whatever the
present member of a skipped pair is, it is never looked at. -/
theorem compute_def_counted (w : Weights) (ig it : Bool)
    (golds : List (Option (Graph ι))) (tests : List (Option (Graph κ)))
    (h : ∀ p ∈ zipLongest golds tests, skipped ig it p = false →
        (∀ g, p.1 = some g → argsOk g = true) ∧ (∀ t, p.2 = some t → argsOk t = true)) :
    compute w ig it golds tests =
      let ps := counted ig it (zipLongest (golds.map (·.map sigOf)) (tests.map (·.map sigOf)))
      prf (wsum w (fun c => sumOver ps (fun g _ => (g.triples c).length)))
          (wsum w (fun c => sumOver ps (fun _ t => (t.triples c).length)))
          (wsum w (fun c => sumOver ps (fun g t => inter (g.triples c) (t.triples c)))) := by
  unfold compute computeS accumulate
  rw [zipLongest_map, accLoop_counted ig it _ h, Match.zero_add, zipLongest_map]
  show scoreOf w _ = _
  unfold scoreOf
  rw [total_eq_wsum, total_eq_wsum, total_eq_wsum]
  simp only [specM_get]

/-- With non-negative weights `compute` raises under exactly the same condition (and then `KeyError`). -/
theorem compute_raises_iff {w : Weights} (hw : w.Nonneg) (ig it : Bool)
    (golds : List (Option (Graph ι))) (tests : List (Option (Graph κ))) :
    (∃ e, compute w ig it golds tests = .error e) ↔
      ∃ p ∈ zipLongest golds tests, skipped ig it p = false ∧
        ((∃ g, p.1 = some g ∧ argsOk g = false) ∨ (∃ t, p.2 = some t ∧ argsOk t = false)) := by
  rw [← accumulate_raises_iff]
  unfold accumulateG compute computeS
  cases hm : accumulate ig it (golds.map (·.map sig)) (tests.map (·.map sig)) with
  | error e => simp
  | ok m =>
    obtain ⟨s, hs, _⟩ := scoreOf_unit hw (accumulate_bounded hm)
    simp [hs]

end raises

/-! ## the sub-command's option plumbing -/

/-- `--ignore-missing gold|both` sets `ignore_missing_gold`, `test|both` sets `ignore_missing_test` -/
theorem cliFlags_spec (im : IgnoreMissing) :
    ((cliFlags im).1 = true ↔ (im = .gold ∨ im = .both)) ∧
    ((cliFlags im).2 = true ↔ (im = .test ∨ im = .both)) := by
  cases im <;> simp [cliFlags]

/-- without options the sub-command is `compute` with every weight 1 and no flag set -/
theorem cliCompute_default {ι κ : Type} [DecidableEq ι] [DecidableEq κ]
    (golds : List (Option (Graph ι))) (tests : List (Option (Graph κ))) :
    cliCompute CliArgs.default golds tests = compute ⟨1, 1, 1, 1, 1⟩ false false golds tests := rfl

/-- "swap precision and recall when gold and test are exchanged", at the command line: exchanging the
two collections and `--ignore-missing gold` ↔ `test` (both/none unchanged) swaps the first two scores. -/
def IgnoreMissing.swap : IgnoreMissing → IgnoreMissing
  | .gold => .test
  | .test => .gold
  | x => x

theorem cli_swap {ι κ : Type} [DecidableEq ι] [DecidableEq κ] (a : CliArgs)
    (golds : List (Option (Graph ι))) (tests : List (Option (Graph κ))) {s : Score}
    (h : cliCompute a golds tests = .ok s) :
    cliCompute { a with ignoreMissing := a.ignoreMissing.swap } tests golds
      = .ok ⟨s.recall, s.precision, s.fscore⟩ := by
  unfold cliCompute at h ⊢
  have hf : (cliFlags a.ignoreMissing.swap) = ((cliFlags a.ignoreMissing).2, (cliFlags a.ignoreMissing).1) := by
    cases a.ignoreMissing <;> rfl
  show compute a.weights (cliFlags a.ignoreMissing.swap).1 (cliFlags a.ignoreMissing.swap).2 tests golds = _
  rw [hf]
  exact computeS_swap h

/-! ## the hypotheses of Props.lean are needed (`decide`-checked witnesses) -/

/-- the totals of the example pair of Props.lean (`ex_accumulate`), as the input of `scoreOf` -/
def exTotals : Match := ⟨⟨2, 4, 2⟩, ⟨1, 1, 1⟩, ⟨1, 1, 1⟩, ⟨1, 1, 1⟩, ⟨1, 1, 0⟩⟩

/-- `scores_in_unit` needs non-negative weights: with the top weighted -1 (names 1, rest 0) the example
pair has G = 1, T = 3, B = 2: recall 2. -/
theorem scores_in_unit_needs_nonneg :
    scoreOf ⟨1, 0, 0, 0, -1⟩ exTotals = .ok ⟨2 / 3, 2, 1⟩ ∧ ¬ (⟨2 / 3, 2, 1⟩ : Score).InUnit := by
  refine ⟨by decide +kernel, ?_⟩
  intro h
  exact absurd h.2.2.2.1 (by decide +kernel)

/-- `no_zero_division` needs non-negative weights: with the top weighted -3 the example pair has
G = -1, T = 1, B = 2, so p + r = 2 - 2 = 0 and `2 * (p * r) / (p + r)` raises. -/
theorem no_zero_division_needs_nonneg :
    scoreOf ⟨1, 0, 0, 0, -3⟩ exTotals = .error .zeroDivision := by decide +kernel

/-- `identical_is_one` needs a triple in a positively weighted category: identical lists whose only
triples are weighted 0 score 0 by the zero guard of `_prf`. -/
theorem identical_needs_weighted_triple :
    scoreOf ⟨0, 0, 0, 0, 0⟩ ⟨⟨2, 2, 2⟩, ⟨1, 1, 1⟩, ⟨1, 1, 1⟩, ⟨1, 1, 1⟩, ⟨1, 1, 1⟩⟩ = .ok ⟨0, 0, 0⟩
    ∧ scoreOf ⟨0, 1, 0, 0, 0⟩ ⟨⟨2, 2, 2⟩, ⟨0, 0, 0⟩, ⟨1, 1, 1⟩, ⟨1, 1, 1⟩, ⟨1, 1, 1⟩⟩ = .ok ⟨0, 0, 0⟩ := by
  decide +kernel

/-- `sig_reorder` / `compute_reorder` need distinct node ids: with two nodes sharing an id the LAST one
answers every lookup, so listing them in the other order changes the top span (and the pair's top count). -/
theorem reorder_needs_distinct_ids :
    exDupR.nodes.Perm exDup.nodes ∧ topSpan exDup = some (4, 7) ∧ topSpan exDupR = some (0, 3)
    ∧ (matchSig (sigOf exDup) (sigOf exDupR)).top = ⟨1, 1, 0⟩ := by
  refine ⟨List.Perm.swap _ _ [], ?_, ?_, ?_⟩ <;> decide

/-! ## non-vacuity -/

/-- the INFO branch is taken and the pair is logged: one counted pair, one skipped pair -/
example : traceG true false [some exG, none] [some exT, some exT]
    = ([some exTotals, none], none) := by
  have h1 : sig exG = .ok (sigOf exG) := sig_ok_of_argsOk exG (by decide)
  have h2 : sig exT = .ok (sigOf exT) := sig_ok_of_argsOk exT (by decide)
  have h3 : matchSig (sigOf exG) (sigOf exT) = exTotals := by decide
  simp [traceG, zipLongest, pairTrace, pairMatch, h1, h2, h3]

/-- `accumulate_raises_iff`, both directions inhabited: the dangling-link DMRS `exD` raises when its pair
is counted and not when the pair is skipped (`ignore_missing_test` with a missing test) -/
example : skipped false false (some exD, some exT) = false ∧ argsOk exD = false
    ∧ skipped false true (some exD, (none : Option (Graph Nat))) = true := by decide

example : (cliFlags .gold, cliFlags .test, cliFlags .both, cliFlags .none)
    = ((true, false), (false, true), (true, true), (false, false)) := rfl

/-! ## Pins of the glue code

`c18CliPins` is regenerated on every run from the live `delphin.cli.edm` and `delphin.__main__`:
* the one `edm.compute` call of `call_compute` with the keyword each option is passed as and the membership
  tuples of the two flags — `CliArgs.weights`, `cliFlags`, `cliCompute`;
* the parser's option strings, types, defaults and choices — `CliArgs.default`, `IgnoreMissing`;
* the statements (logging left out) of `_iter_representations` and `_eds_from_mrs`, which are NOT modelled:
  reading the two collections (codec by `--format`, MRS converted to EDS with an unconvertible one as a
  missing item, profile items without result number `-p` as missing items) is compared on generated files
  and profiles only;
* how `-v` becomes the logger level (`compute_info_irrelevant` is about the level INFO reached by `-vv`). -/
theorem c18_cli_pins : Verif.Tables.c18CliPins = [
    ("cli.call_compute.compute_calls", ["1"]),
    ("cli.call_compute.positional", ["golds", "tests"]),
    ("cli.call_compute.keywords", ["name_weight=args.N", "argument_weight=args.A", "property_weight=args.P", "constant_weight=args.C", "top_weight=args.T", "ignore_missing_gold=args.ignore_missing in ('gold', 'both')", "ignore_missing_test=args.ignore_missing in ('test', 'both')"]),
    ("cli.parser.GOLD", ["", "Path", "None", "None"]),
    ("cli.parser.TEST", ["", "Path", "None", "None"]),
    ("cli.parser.format", ["-f/--format", "None", "'eds'", "None"]),
    ("cli.parser.p", ["-p", "int", "0", "None"]),
    ("cli.parser.ignore_missing", ["--ignore-missing", "None", "'none'", "('gold', 'test', 'both', 'none')"]),
    ("cli.parser.A", ["-A", "float", "1.0", "None"]),
    ("cli.parser.N", ["-N", "float", "1.0", "None"]),
    ("cli.parser.P", ["-P", "float", "1.0", "None"]),
    ("cli.parser.C", ["-C", "float", "1.0", "None"]),
    ("cli.parser.T", ["-T", "float", "1.0", "None"]),
    ("cli.parser.func", ["call_compute"]),
    ("cli._iter_representations.args", ["path: Path, fmt: str, p: int"]),
    ("cli._iter_representations.body", ["if tsdb.is_database_directory(path):", "ts = itsdb.TestSuite(path)", "for response in ts.processed_items():", "try:", "result = response.result(p)", "except IndexError:", "yield None", "else:", "yield _eds_from_mrs(result.mrs(), predicate_modifiers=True)", "elif path.is_file():", "codec = util.import_codec(fmt)", "rep = codec.CODEC_INFO.get('representation', '').lower()", "if rep == 'mrs':", "for sr in codec.load(path):", "yield _eds_from_mrs(sr, predicate_modifiers=True)", "elif rep in ('dmrs', 'eds'):", "for sr in codec.load(path):", "yield sr", "else:", "raise ValueError(f'unsupported representation: {rep}')", "else:", "raise ValueError(f'not a file or TSDB database: {path}')"]),
    ("cli._eds_from_mrs.args", ["m: mrs.MRS, predicate_modifiers: bool, errors: str='warn'"]),
    ("cli._eds_from_mrs.body", ["try:", "e = eds.from_mrs(m, predicate_modifiers=predicate_modifiers)", "except Exception:", "if errors == 'warn':", "warnings.warn('error in EDS conversion; skipping entry', stacklevel=2)", "elif errors == 'strict':", "raise", "e = None", "return e"]),
    ("main.setLevel", ["args.verbosity = 0", "args.verbosity = min(args.verbosity, 3)", "logging.getLogger('delphin').setLevel(", "logging.ERROR - (args.verbosity * 10))"])
    ] := by rfl

end Verif.C18
