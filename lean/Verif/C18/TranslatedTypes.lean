/-
C18 — structures of the SOURCE-TRANSLATION tie (TRANSLATOR.md): the NamedTuples `edm._Count` / `edm._Match` as the
translator sees them (Python `int` fields are unbounded `Int`), and the embedding of the model's `Count` / `Match`
(natural numbers) into them.  Imported by the generated `Verif/Generated/TransC18.lean`.  Core Lean only.
-/
import Verif.C18.Model

namespace Verif.C18

/-- `edm._Count(gold, test, both)` with Python `int` fields. -/
structure CountZ where
  gold : Int
  test : Int
  both : Int
deriving Repr, DecidableEq

/-- `edm._Match(name, argument, property, constant, top)`. -/
structure MatchZ where
  name : CountZ
  argument : CountZ
  property : CountZ
  constant : CountZ
  top : CountZ
deriving Repr, DecidableEq

/-- a model count as the Python value -/
def Count.toZ (c : Count) : CountZ := ⟨c.gold, c.test, c.both⟩

def Match.toZ (m : Match) : MatchZ := ⟨m.name.toZ, m.argument.toZ, m.property.toZ, m.constant.toZ, m.top.toZ⟩

end Verif.C18
