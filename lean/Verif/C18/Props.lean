/-
C18 — property theorems (EDM scores are the weighted triple-overlap ratios they are defined
to be).  Only property statements live here; helper lemmas and the specification-side
definitions (`inter`, `Cat`, `Sig.triples`, `counted`, `sumOver`, `wsum`, `Graph.rename`,
`Score.InUnit`, `Score.swap`) are in Lemmas.lean.
-/
import Verif.C18.Lemmas
import Verif.Generated.TablesC18

namespace Verif.C18

/-! ## "the multiset intersection of … triples" — what `edm._count` computes -/

section counting
variable {α : Type} [DecidableEq α]

/-- The `Counter` formula `sum(min(c1[t], c2[t]) for t in c1 if t in c2)` is the size of the
multiset intersection (defined independently by crossing off matched members one by one). -/
theorem both_eq_inter (a b : List α) : both a b = inter a b := both_eq_inter' a b

theorem both_comm (a b : List α) : both a b = both b a := both_comm' a b

/-- no over-count: never more matches than gold triples … -/
theorem both_le_left (a b : List α) : both a b ≤ a.length := both_le_left' a b

/-- … nor than test triples, repeated triples included. -/
theorem both_le_right (a b : List α) : both a b ≤ b.length := both_le_right' a b

/-- no under-count: a list matches itself completely, repeated triples included. -/
theorem both_self (a : List α) : both a a = a.length := both_self' a

/-- the count does not depend on the order of either list. -/
theorem both_perm {a a' b b' : List α} (ha : a.Perm a') (hb : b.Perm b') : both a b = both a' b' :=
  both_perm' ha hb

end counting

/-- `EDS()` — the replacement for a missing member — has no triples and no top. -/
theorem sig_empty {ι : Type} [DecidableEq ι] : sig (Graph.empty : Graph ι) = .ok Sig.empty := rfl

/-! ## the defining equation -/

/-- "the reported precision, recall and F-score equal the ratios computed from the multiset
intersection of name, argument, property, constant and top triples keyed by character spans
under the given weights, with a missing member of a pair counted as empty or skipped as
requested."  On the extracted triples: the loop of `_accumulate` with its `Counter`
arithmetic and the weighted sums of `compute` equal `_prf` of
`Σ_c w_c·Σ_pairs |gold_c|`, `Σ_c w_c·Σ_pairs |test_c|`, `Σ_c w_c·Σ_pairs |gold_c ∩ test_c|`
over the counted pairs (`counted`: skipped iff both missing, or gold missing ∧ ignore_missing_gold,
or test missing ∧ ignore_missing_test; otherwise the missing side is the empty structure). -/
theorem computeS_def (w : Weights) (ig it : Bool) (gs ts : List (Option Sig)) :
    computeS w ig it (gs.map (·.map Except.ok)) (ts.map (·.map Except.ok)) =
      prf (wsum w (fun c => sumOver (counted ig it (zipLongest gs ts)) (fun g _ => (g.triples c).length)))
          (wsum w (fun c => sumOver (counted ig it (zipLongest gs ts)) (fun _ t => (t.triples c).length)))
          (wsum w (fun c => sumOver (counted ig it (zipLongest gs ts))
            (fun g t => inter (g.triples c) (t.triples c)))) := by
  unfold computeS
  rw [accumulate_ok]
  show scoreOf w _ = _
  unfold scoreOf
  rw [total_eq_wsum, total_eq_wsum, total_eq_wsum]
  simp only [specM_get]

section graphs
variable {ι κ : Type} [DecidableEq ι] [DecidableEq κ]

/-- An EDS never raises; a DMRS raises `KeyError` only for a link that starts at no node. -/
theorem sig_eq_ok_iff (g : Graph ι) : sig g = .ok (sigOf g) ↔ argsOk g = true := by
  unfold sig sigOf
  cases h : argsOk g <;> simp

theorem argsOk_eds {g : Graph ι} (h : g.kind = .eds) : argsOk g = true := by
  unfold argsOk; rw [h]

/-- The defining equation for `edm.compute` on structures (every structure's
`arguments()` is defined: all EDS, and DMRS whose links start at nodes). -/
theorem compute_def (w : Weights) (ig it : Bool)
    (golds : List (Option (Graph ι))) (tests : List (Option (Graph κ)))
    (hg : ∀ g, some g ∈ golds → argsOk g = true) (ht : ∀ t, some t ∈ tests → argsOk t = true) :
    compute w ig it golds tests =
      let ps := counted ig it (zipLongest (golds.map (·.map sigOf)) (tests.map (·.map sigOf)))
      prf (wsum w (fun c => sumOver ps (fun g _ => (g.triples c).length)))
          (wsum w (fun c => sumOver ps (fun _ t => (t.triples c).length)))
          (wsum w (fun c => sumOver ps (fun g t => inter (g.triples c) (t.triples c)))) := by
  have h1 : golds.map (·.map sig) = (golds.map (·.map sigOf)).map (·.map Except.ok) := by
    rw [List.map_map]
    apply List.map_congr_left
    intro x hx
    cases x with
    | none => rfl
    | some g => simp [(sig_eq_ok_iff g).2 (hg g hx)]
  have h2 : tests.map (·.map sig) = (tests.map (·.map sigOf)).map (·.map Except.ok) := by
    rw [List.map_map]
    apply List.map_congr_left
    intro x hx
    cases x with
    | none => rfl
    | some g => simp [(sig_eq_ok_iff g).2 (ht g hx)]
  unfold compute
  rw [h1, h2]
  exact computeS_def w ig it _ _

/-- "the reported precision, recall and F-score equal the ratios …" with "zero denominators" made
explicit: with `G`, `T`, `B` the weighted gold, test and matched totals of `compute_def`, the scores are
`⟨0,0,0⟩` if any of the three is zero, and otherwise `p = B/T`, `r = B/G`, `f = 2·p·r/(p+r)`. -/
theorem compute_zero_safe_ratios (w : Weights) (ig it : Bool)
    (golds : List (Option (Graph ι))) (tests : List (Option (Graph κ)))
    (hg : ∀ g, some g ∈ golds → argsOk g = true) (ht : ∀ t, some t ∈ tests → argsOk t = true)
    {s : Score} (h : compute w ig it golds tests = .ok s) :
    let ps := counted ig it (zipLongest (golds.map (·.map sigOf)) (tests.map (·.map sigOf)))
    let G := wsum w (fun c => sumOver ps (fun g _ => (g.triples c).length))
    let T := wsum w (fun c => sumOver ps (fun _ t => (t.triples c).length))
    let B := wsum w (fun c => sumOver ps (fun g t => inter (g.triples c) (t.triples c)))
    ((T = 0 ∨ G = 0 ∨ B = 0) → s = ⟨0, 0, 0⟩) ∧
    (T ≠ 0 → G ≠ 0 → B ≠ 0 →
      s.precision = B / T ∧ s.recall = B / G ∧
      s.fscore = 2 * (s.precision * s.recall) / (s.precision + s.recall)) := by
  rw [compute_def w ig it golds tests hg ht] at h
  exact prf_ratios h

/-! ## consequences -/

/-- "Hence all three scores lie in [0,1]" — for all non-negative weight vectors, both flag
settings, any lists (with `None` entries, unequal lengths). -/
theorem scores_in_unit {w : Weights} (hw : w.Nonneg) (ig it : Bool)
    (golds : List (Option (Graph ι))) (tests : List (Option (Graph κ))) {s : Score}
    (h : compute w ig it golds tests = .ok s) : s.InUnit := by
  unfold compute computeS at h
  cases hm : accumulate ig it (golds.map (·.map sig)) (tests.map (·.map sig)) with
  | error e => simp [hm] at h
  | ok m =>
    simp only [hm] at h
    obtain ⟨s', hs', hu⟩ := scoreOf_unit hw (accumulate_bounded hm)
    rw [hs'] at h
    cases h
    exact hu

/-- zero-safe ratios: with non-negative weights the totals never lead to a division by zero —
whenever the triples can be extracted, a score is returned. -/
theorem no_zero_division {w : Weights} (hw : w.Nonneg) (ig it : Bool)
    (golds : List (Option (Graph ι))) (tests : List (Option (Graph κ))) {m : Match}
    (h : accumulateG ig it golds tests = .ok m) : ∃ s, compute w ig it golds tests = .ok s := by
  unfold accumulateG at h
  obtain ⟨s, hs, _⟩ := scoreOf_unit hw (accumulate_bounded h)
  exact ⟨s, by unfold compute computeS; rw [h]; exact hs⟩

/-- … and the only way `compute` fails with non-negative weights is the `KeyError` that
`DMRS.arguments()` raises for a structure with a link starting at no node (never for lists of
EDS or of DMRS whose links start at nodes — the property's input space). -/
theorem error_only_from_dangling_link {w : Weights} (hw : w.Nonneg) (ig it : Bool)
    (golds : List (Option (Graph ι))) (tests : List (Option (Graph κ))) {e : Err}
    (h : compute w ig it golds tests = .error e) :
    e = .keyError ∧ ((∃ g, some g ∈ golds ∧ argsOk g = false) ∨ (∃ t, some t ∈ tests ∧ argsOk t = false)) := by
  unfold compute computeS at h
  cases hm : accumulate ig it (golds.map (·.map sig)) (tests.map (·.map sig)) with
  | ok m =>
    obtain ⟨s, hs, _⟩ := scoreOf_unit hw (accumulate_bounded hm)
    simp [hm, hs] at h
  | error e' =>
    simp only [hm] at h
    cases h
    unfold accumulate at hm
    obtain ⟨p, hp, hpe⟩ := accLoop_error ig it _ _ hm
    have hz := zipLongest_mem _ _ p hp
    rcases hpe with hpe | hpe
    · rcases hz.1 with h0 | h0
      · rw [hpe] at h0; cases h0
      · rw [hpe] at h0
        have := mem_map_sig_error h0
        exact ⟨this.1, Or.inl this.2⟩
    · rcases hz.2 with h0 | h0
      · rw [hpe] at h0; cases h0
      · rw [hpe] at h0
        have := mem_map_sig_error h0
        exact ⟨this.1, Or.inr this.2⟩

/-- "equal 1 when the lists are identical and contain at least one triple" — reading: at least
one triple in a category of positive weight among the counted pairs (`m` are the totals of
`_accumulate`); with every present category weighted 0 the zero-safe ratio is 0 by the
defining equation. -/
theorem identical_is_one {w : Weights} (hw : w.Nonneg) (ig it : Bool)
    (golds : List (Option (Graph ι))) {m : Match}
    (h : accumulateG ig it golds golds = .ok m)
    (c : Cat) (hc : 0 < w.get c) (htriple : 0 < (m.get c).gold) :
    compute w ig it golds golds = .ok ⟨1, 1, 1⟩ := by
  unfold accumulateG at h
  have hd := accumulate_self_diag h
  have hpos : 0 < total w m (·.gold) := by
    rw [total_eq_wsum]
    exact wsum_pos hw c hc htriple
  unfold compute computeS
  rw [h]
  exact scoreOf_diag hd hpos

/-- "swap precision and recall when gold and test are exchanged" (the two ignore flags
exchanged with them); the F-score is unchanged. -/
theorem swap (w : Weights) (ig it : Bool)
    (golds : List (Option (Graph ι))) (tests : List (Option (Graph κ))) {s : Score}
    (h : compute w ig it golds tests = .ok s) :
    compute w it ig tests golds = .ok ⟨s.recall, s.precision, s.fscore⟩ :=
  computeS_swap h

/-- "unchanged by renaming node identifiers": an injective renaming leaves every triple list,
the top span and the error behaviour of a structure unchanged … -/
theorem sig_rename {f : ι → κ} (hf : Function.Injective f) (g : Graph ι) : sig (g.rename f) = sig g :=
  sig_rename' hf g

/-- … hence `compute` is unchanged when every gold and every test structure is renamed by its
own injective map (`golds'`/`tests'` are position-wise renamings of `golds`/`tests`). -/
theorem compute_rename {ι' κ' : Type} [DecidableEq ι'] [DecidableEq κ'] (w : Weights) (ig it : Bool)
    (golds : List (Option (Graph ι))) (golds' : List (Option (Graph ι')))
    (tests : List (Option (Graph κ))) (tests' : List (Option (Graph κ')))
    (hg : Renamed golds golds') (ht : Renamed tests tests') :
    compute w ig it golds' tests' = compute w ig it golds tests := by
  unfold compute
  rw [renamed_sig hg, renamed_sig ht]

/-- Renaming stated on the INPUT of the DMRS constructor: `_normalize_top_and_links` (strip the links
that start at `TOP_NODE_ID` = 0, the first of them giving the top) commutes with a renaming that is
injective and fixes 0, so the triples of the constructed DMRS are those of the DMRS constructed from the
renamed nodes, links and top.  (For an EDS the constructor does not look at ids: the `Graph` IS the
input.)  Node id 0 is not available to DMRS nodes: see the counter-example below. -/
theorem mkDmrs_rename {f : Nat → Nat} (hf : Function.Injective f) (h0 : f 0 = 0)
    (top : Option Nat) (nodes : List (Node Nat)) (links : List (Link Nat)) :
    (mkDmrs top nodes links).rename f
        = mkDmrs (top.map f) (nodes.map (Node.rename f)) (links.map (Link.rename f))
    ∧ sig (mkDmrs (top.map f) (nodes.map (Node.rename f)) (links.map (Link.rename f)))
        = sig (mkDmrs top nodes links) := by
  refine ⟨mkDmrs_rename' hf h0 top nodes links, ?_⟩
  rw [← mkDmrs_rename' hf h0 top nodes links]
  exact sig_rename' hf _

/-- `f 0 = 0` cannot be dropped: shifting every id by one turns a legacy top link (start 0) into an
ordinary link that starts at no node — the constructed structure then raises instead of having a top. -/
theorem mkDmrs_rename_needs_zero_fixed :
    argsOk (mkDmrs none [{ exN2 with id := 5 }] [⟨0, 5, []⟩]) = true
    ∧ argsOk (mkDmrs none [Node.rename (· + 1) { exN2 with id := 5 }] [Link.rename (· + 1) ⟨0, 5, []⟩]) = false := by
  decide

/-- "… or reordering nodes": listing the nodes (and links) of a structure with distinct node
ids in another order permutes every triple list and keeps the top span and the error
behaviour … -/
theorem sig_reorder {g g' : Graph ι} (hn : (g.nodes.map (·.id)).Nodup) (h : Reordered g g') :
    argsOk g' = argsOk g ∧ SigPerm (sigOf g) (sigOf g') :=
  ⟨argsOk_reorder h hn, sigOf_reorder h hn⟩

/-- … so the counts of every pair are unchanged (multisets do not see order) … -/
theorem match_reorder {g g' t t' : Sig} (hg : SigPerm g g') (ht : SigPerm t t') :
    matchSig g' t' = matchSig g t := matchSig_congr hg ht

/-- … hence `compute` is unchanged when every gold and every test structure is reordered. -/
theorem compute_reorder (w : Weights) (ig it : Bool)
    {golds golds' : List (Option (Graph ι))} {tests tests' : List (Option (Graph κ))}
    (hg : ReorderedList golds golds') (ht : ReorderedList tests tests') :
    compute w ig it golds' tests' = compute w ig it golds tests := by
  unfold compute
  exact computeS_congr w ig it (reordered_items hg) (reordered_items ht)

end graphs

/-! ## graph-level witnesses: the hypotheses are satisfiable and the statements say something -/

/-- the `_accumulate` totals of the example pair: names 2/4/2, arguments, properties, constants 1/1/1,
tops 1/1/0 (different top spans) -/
theorem ex_accumulate : accumulateG false false [some exG] [some exT]
    = .ok ⟨⟨2, 4, 2⟩, ⟨1, 1, 1⟩, ⟨1, 1, 1⟩, ⟨1, 1, 1⟩, ⟨1, 1, 0⟩⟩ := by
  have h1 : sig exG = .ok (sigOf exG) := (sig_eq_ok_iff exG).2 (by decide)
  have h2 : sig exT = .ok (sigOf exT) := (sig_eq_ok_iff exT).2 (by decide)
  have h3 : matchSig (sigOf exG) (sigOf exT) = ⟨⟨2, 4, 2⟩, ⟨1, 1, 1⟩, ⟨1, 1, 1⟩, ⟨1, 1, 1⟩, ⟨1, 1, 0⟩⟩ := by decide
  simp [accumulateG, accumulate, zipLongest, accLoop, pairMatch, h1, h2, h3, Match.add, Match.zero,
    Count.add, Count.zero]

/-- `compute_def` / `compute_zero_safe_ratios` on a concrete pair: 6 gold, 8 test, 5 shared triples give
precision 5/8, recall 5/6, F 5/7 (both structures satisfy the hypothesis `argsOk`). -/
theorem ex_compute : compute exW false false [some exG] [some exT] = .ok ⟨5 / 8, 5 / 6, 5 / 7⟩ := by
  have h := ex_accumulate
  unfold accumulateG at h
  unfold compute computeS
  rw [h]
  simp [scoreOf, total, prf, exW]
  grind

example : argsOk exG = true ∧ argsOk exT = true := by decide

/-- `identical_is_one` with all five categories weighted positively, a `None` entry in the lists -/
example : compute exW false false [some exG, none] [some exG, none] = .ok ⟨1, 1, 1⟩ := by
  have h1 : sig exG = .ok (sigOf exG) := (sig_eq_ok_iff exG).2 (by decide)
  have h3 : matchSig (sigOf exG) (sigOf exG) = ⟨⟨2, 2, 2⟩, ⟨1, 1, 1⟩, ⟨1, 1, 1⟩, ⟨1, 1, 1⟩, ⟨1, 1, 1⟩⟩ := by decide
  have hacc : accumulateG false false [some exG, none] [some exG, none]
      = .ok ⟨⟨2, 2, 2⟩, ⟨1, 1, 1⟩, ⟨1, 1, 1⟩, ⟨1, 1, 1⟩, ⟨1, 1, 1⟩⟩ := by
    simp [accumulateG, accumulate, zipLongest, accLoop, pairMatch, h1, h3, Match.add, Match.zero,
      Count.add, Count.zero]
  exact identical_is_one exW_nonneg false false _ hacc .name (by simp [exW, Weights.get]; decide) (by decide)

/-- `compute_rename`: the gold structure with every id shifted by 10 scores the same -/
example : compute exW false false [some (exG.rename (· + 10))] [some exT] = .ok ⟨5 / 8, 5 / 6, 5 / 7⟩ := by
  have hr : Renamed [some exG] [some (exG.rename (· + 10))] :=
    Renamed.some (· + 10) (fun a b h => Nat.add_right_cancel h) exG Renamed.nil
  have ht : Renamed [some exT] [some (exT.rename id)] :=
    Renamed.some id (fun a b h => h) exT Renamed.nil
  have := compute_rename exW false false [some exG] [some (exG.rename (· + 10))] [some exT] [some (exT.rename id)] hr ht
  rw [ex_compute] at this
  have hid : exT.rename id = exT := rfl
  rw [hid] at this
  exact this

/-- `compute_reorder`: the gold structure with its nodes listed in the other order scores the same
(distinct node ids, `Reordered` holds) -/
example : compute exW false false [some exGr] [some exT] = .ok ⟨5 / 8, 5 / 6, 5 / 7⟩ := by
  have hn : (exG.nodes.map (·.id)).Nodup := by decide
  have hre : Reordered exG exGr := ⟨rfl, rfl, List.Perm.swap exN1 exN2 [], List.Perm.refl _⟩
  have hg : ReorderedList [some exG] [some exGr] := ReorderedList.some exG exGr hn hre ReorderedList.nil
  have hnT : (exT.nodes.map (·.id)).Nodup := by decide
  have ht : ReorderedList [some exT] [some exT] :=
    ReorderedList.some exT exT hnT ⟨rfl, rfl, List.Perm.refl _, List.Perm.refl _⟩ ReorderedList.nil
  rw [compute_reorder exW false false hg ht]
  exact ex_compute

/-- `error_only_from_dangling_link`: a DMRS link that starts at no node makes `arguments()` raise … -/
example : argsOk exD = false ∧ compute exW false false [some exD] [some exT] = .error .keyError := by
  have h0 : argsOk exD = false := by decide
  have h1 : sig exD = .error .keyError := by simp [sig, h0]
  have h2 : sig exT = .ok (sigOf exT) := (sig_eq_ok_iff exT).2 (by decide)
  refine ⟨h0, ?_⟩
  simp [compute, computeS, accumulate, zipLongest, accLoop, pairMatch, h1, h2]

/-- … but not when the pair is skipped: a missing test with `ignore_missing_test` scores ⟨0,0,0⟩ -/
example : compute exW false true [some exD] ([none] : List (Option (Graph Nat))) = .ok ⟨0, 0, 0⟩ := by
  simp [compute, computeS, accumulate, zipLongest, accLoop, pairMatch, scoreOf, total, prf, Match.zero, Count.zero]
  intro h; exact absurd (by grind) h

/-! ## the statements are not vacuous -/

/-- repeated triples are matched as often as they occur on both sides -/
example : both [1, 1, 1, 2, 3] [1, 1, 2, 2, 4] = 3 := by decide
example : inter [1, 1, 1, 2, 3] [1, 1, 2, 2, 4] = 3 := by decide
/-- the policy for missing members -/
example : counted false true [(none, some Sig.empty), (some Sig.empty, none), (none, none)]
    = [(Sig.empty, Sig.empty)] := by decide
example : (zipLongest [some 1, none] [some 2, some 3, some 4] : List (Option Nat × Option Nat))
    = [(some 1, some 2), (none, some 3), (none, some 4)] := by simp [zipLongest]
/-- a weight vector satisfying `Weights.Nonneg` with a positive category -/
example : (⟨1, 0, 0, 0, 0⟩ : Weights).Nonneg ∧ 0 < (⟨1, 0, 0, 0, 0⟩ : Weights).get .name := by
  refine ⟨fun c => ?_, ?_⟩
  · cases c <;> simp [Weights.get] <;> decide
  · simp [Weights.get]; decide

end Verif.C18

namespace Verif.C18
open Verif.Tables

/-! ## Pins: the constants, defaults and names of the anchored code that the hand-written model mirrors

`TablesC18.lean` is regenerated on every run from the live code objects (interpreter of /venv,
CPython 3.12): parameter names and default values, the numeric/string constants (`co_consts`, nested
code objects included) and the global/attribute names read (`co_names`) of every function the model
mirrors.  Left out as semantically irrelevant: docstrings, the texts handed to the logger (every string
constant of `compute` and `_accumulate` is one) and the names of the logging machinery.
Which model definition hand-codes what:
* `edm.compute` (five weights defaulting to 1.0, both ignore flags to False, the 15 `totals.<category>.<count>`
  reads in the order name/argument/property/constant/top × gold/test/both) — `total`, `scoreOf`, `computeS`,
  `compute`; the defaults are what the oracle's default-argument call relies on;
* `edm._accumulate` (`zip_longest`, `EDS()` for a missing member, the zero `_Match`, `add`) — `zipLongest`,
  `pairMatch`, `accLoop`, `accumulate`, `Match.zero`, `Graph.empty`; `_Count.add`/`_Match.add` and the
  field orders — `Count.add`, `Match.add`, `Count`, `Match`, `Score`;
* `edm._match` (constants 1/0, `top`, the four `_count` calls) — `topCount`, `matchSig`;
  `edm._count` (`Counter`, `min`, `sum`, `len`) — `both`, `countTriples`;
* `edm._prf` (0, 0.0, 2) — `prf`; `edm._span` (`cfrom`, `cto`) — `Lnk.span`, `Node.span`;
* `edm._names` (`predicate`, `None` placeholder) — `names`, `Val.none`; `edm._arguments` (`arguments()`, `id`,
  membership test) — `arguments`, `argsOf`; `edm._properties` (`properties.items()`) — `properties`;
  `edm._constants` (`carg`, the literal 'carg') — `constants`, `cargRole`;
* `DMRS.arguments` (skips `BARE_EQ_ROLE` links first, `args[link.start]`, role/end) and its defaults
  `types=None, expressed=None` — `argsOf`/`argsOk` (dmrs branch), `modRole`; `_normalize_top_and_links`,
  `DMRS.__init__` (`TOP_NODE_ID`) — `mkDmrs`; `EDS.arguments` (`args[node.id] = []`, `edges.items()`,
  `types=None`) — `argsOf` (eds branch);
* `SemanticStructure.__init__/__contains__/__getitem__` (`_pidx` built by a dict comprehension over
  `predications`: last node with an id wins) — `lookup`, `topSpan`;
* `LnkMixin.cfrom/cto` (default -1, `data[0]`/`data[1]`, only for `Lnk.CHARSPAN` = 1 of the five lnk types) —
  `Lnk.span`, `Lnk`; `Lnk.charspan` — the driver's `ofLnk`.
A change to any of them must be followed in the model: this theorem stops checking, which the check
reports as a broken proof obligation and then searches for a failing input. -/
theorem c18_pins :
    c18BareEqRole = ['M', 'O', 'D'] ∧ c18TopNodeId = 0 ∧ c18Pins = [
    ("edm.compute.params", ["golds", "tests", "name_weight", "argument_weight", "property_weight", "constant_weight", "top_weight", "ignore_missing_gold", "ignore_missing_test"]),
    ("edm.compute.defaults", ["1.0", "1.0", "1.0", "1.0", "1.0", "False", "False"]),
    ("edm.compute.consts", []),
    ("edm.compute.names", ["_accumulate", "name", "gold", "argument", "property", "constant", "top", "test", "both", "_prf"]),
    ("edm._accumulate.params", ["golds", "tests", "ignore_missing_gold", "ignore_missing_test"]),
    ("edm._accumulate.defaults", []),
    ("edm._accumulate.consts", ["0", "1"]),
    ("edm._accumulate.names", ["_Match", "_Count", "enumerate", "zip_longest", "EDS", "isinstance", "DMRS", "_match", "name", "_prf", "argument", "property", "constant", "top", "add"]),
    ("edm._match.params", ["gold", "test"]),
    ("edm._match.defaults", []),
    ("edm._match.consts", ["1", "0"]),
    ("edm._match.names", ["top", "_span", "_Count", "_Match", "_count", "_names", "_arguments", "_properties", "_constants"]),
    ("edm._count.params", ["func", "gold", "test"]),
    ("edm._count.defaults", []),
    ("edm._count.consts", []),
    ("edm._count.names", ["Counter", "sum", "_Count", "len"]),
    ("edm._count.<genexpr>.consts", ["None"]),
    ("edm._count.<genexpr>.names", ["min"]),
    ("edm._prf.params", ["g", "t", "b"]),
    ("edm._prf.defaults", []),
    ("edm._prf.consts", ["None", "0", "0.0", "2"]),
    ("edm._prf.names", ["_Score"]),
    ("edm._span.params", ["node"]),
    ("edm._span.defaults", []),
    ("edm._span.consts", []),
    ("edm._span.names", ["cfrom", "cto"]),
    ("edm._names.params", ["sr"]),
    ("edm._names.defaults", []),
    ("edm._names.consts", ["None"]),
    ("edm._names.names", ["nodes", "append", "_span", "predicate"]),
    ("edm._arguments.params", ["sr"]),
    ("edm._arguments.defaults", []),
    ("edm._arguments.consts", []),
    ("edm._arguments.names", ["arguments", "nodes", "_span", "id", "append"]),
    ("edm._properties.params", ["sr"]),
    ("edm._properties.defaults", []),
    ("edm._properties.consts", []),
    ("edm._properties.names", ["nodes", "_span", "properties", "items", "append"]),
    ("edm._constants.params", ["sr"]),
    ("edm._constants.defaults", []),
    ("edm._constants.consts", ["'carg'"]),
    ("edm._constants.names", ["nodes", "carg", "append", "_span"]),
    ("edm._Count.add.consts", ["None"]),
    ("edm._Count.add.names", ["_Count", "gold", "test", "both"]),
    ("edm._Match.add.consts", ["None"]),
    ("edm._Match.add.names", ["_Match", "name", "add", "argument", "property", "constant", "top"]),
    ("edm._Count._fields", ["gold", "test", "both"]),
    ("edm._Match._fields", ["name", "argument", "property", "constant", "top"]),
    ("edm._Score._fields", ["precision", "recall", "fscore"]),
    ("dmrs.DMRS.arguments.params", ["self", "types", "expressed"]),
    ("dmrs.DMRS.arguments.defaults", ["None", "None"]),
    ("dmrs.DMRS.arguments.consts", []),
    ("dmrs.DMRS.arguments.names", ["nodes", "id", "variable", "HANDLE", "links", "role", "BARE_EQ_ROLE", "post", "H_POST", "HEQ_POST", "end", "type", "start", "append"]),
    ("dmrs._normalize_top_and_links.params", ["top", "links"]),
    ("dmrs._normalize_top_and_links.defaults", []),
    ("dmrs._normalize_top_and_links.consts", []),
    ("dmrs._normalize_top_and_links.names", ["start", "TOP_NODE_ID", "end", "append"]),
    ("dmrs.constants", ["BARE_EQ_ROLE='MOD'", "TOP_NODE_ID=0", "H_POST='H'", "HEQ_POST='HEQ'"]),
    ("eds.EDS.arguments.params", ["self", "types"]),
    ("eds.EDS.arguments.defaults", ["None"]),
    ("eds.EDS.arguments.consts", ["None"]),
    ("eds.EDS.arguments.names", ["nodes", "id", "type", "edges", "items", "get", "append"]),
    ("dmrs.DMRS.__init__.params", ["self", "top", "index", "nodes", "links", "lnk", "surface", "identifier"]),
    ("dmrs.DMRS.__init__.defaults", ["None", "None", "None", "None", "None", "None", "None"]),
    ("dmrs.DMRS.__init__.consts", ["None"]),
    ("dmrs.DMRS.__init__.names", ["_normalize_top_and_links", "int", "super", "__init__", "list", "links"]),
    ("dmrs.Node.__init__.params", ["self", "id", "predicate", "type", "properties", "carg", "lnk", "surface", "base"]),
    ("dmrs.Node.__init__.defaults", ["None", "None", "None", "None", "None", "None"]),
    ("dmrs.Node.__init__.consts", ["None"]),
    ("dmrs.Node.__init__.names", ["int", "super", "__init__", "properties", "carg"]),
    ("dmrs.Link.__init__.params", ["self", "start", "end", "role", "post"]),
    ("dmrs.Link.__init__.defaults", []),
    ("dmrs.Link.__init__.consts", ["None"]),
    ("dmrs.Link.__init__.names", ["int", "start", "end", "role", "post"]),
    ("eds.EDS.__init__.params", ["self", "top", "nodes", "lnk", "surface", "identifier"]),
    ("eds.EDS.__init__.defaults", ["None", "None", "None", "None", "None"]),
    ("eds.EDS.__init__.consts", ["None"]),
    ("eds.EDS.__init__.names", ["super", "__init__", "list"]),
    ("eds.Node.__init__.params", ["self", "id", "predicate", "type", "edges", "properties", "carg", "lnk", "surface", "base"]),
    ("eds.Node.__init__.defaults", ["None", "None", "None", "None", "None", "None", "None"]),
    ("eds.Node.__init__.consts", ["None"]),
    ("eds.Node.__init__.names", ["super", "__init__", "edges", "properties", "carg"]),
    ("sembase.SemanticStructure.__init__.params", ["self", "top", "predications", "lnk", "surface", "identifier"]),
    ("sembase.SemanticStructure.__init__.defaults", []),
    ("sembase.SemanticStructure.__init__.consts", ["None"]),
    ("sembase.SemanticStructure.__init__.names", ["super", "__init__", "top", "predications", "id", "_pidx", "identifier"]),
    ("sembase.SemanticStructure.__contains__.consts", ["None"]),
    ("sembase.SemanticStructure.__contains__.names", ["_pidx"]),
    ("sembase.SemanticStructure.__getitem__.consts", ["None"]),
    ("sembase.SemanticStructure.__getitem__.names", ["KeyError", "_pidx"]),
    ("lnk.LnkMixin.cfrom.consts", ["-1", "0"]),
    ("lnk.LnkMixin.cfrom.names", ["lnk", "type", "Lnk", "CHARSPAN", "data", "AttributeError"]),
    ("lnk.LnkMixin.cto.consts", ["-1", "1"]),
    ("lnk.LnkMixin.cto.names", ["lnk", "type", "Lnk", "CHARSPAN", "data", "AttributeError"]),
    ("lnk.Lnk.charspan.consts", []),
    ("lnk.Lnk.charspan.names", ["Lnk", "CHARSPAN", "int"]),
    ("lnk.Lnk.types", ["UNSPECIFIED=0", "CHARSPAN=1", "CHARTSPAN=2", "TOKENS=3", "EDGE=4"])
    ] := by
  refine ⟨?_, ?_, ?_⟩ <;> rfl

end Verif.C18
