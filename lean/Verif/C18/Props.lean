/-
C18 — property theorems (EDM scores are the weighted triple-overlap ratios they are defined
to be).  Only property statements live here; helper lemmas and the specification-side
definitions (`inter`, `Cat`, `Sig.triples`, `counted`, `sumOver`, `wsum`, `Graph.rename`,
`Score.InUnit`, `Score.swap`) are in Lemmas.lean.
-/
import Verif.C18.Lemmas

namespace Verif.C18

/-! ## "the multiset intersection of … triples" — what `edm._count` computes -/

section counting
variable {α : Type} [DecidableEq α]

/-- The `Counter` formula `sum(min(c1[t], c2[t]) for t in c1 if t in c2)` is the size of the
multiset intersection (defined independently by crossing off matched members one by one). -/
theorem both_eq_inter (a b : List α) : both a b = inter a b := both_eq_inter' a b

theorem both_comm (a b : List α) : both a b = both b a := both_comm' a b

/-- no over-count: never more matches than gold triples … -/
theorem both_le_left (a b : List α) : both a b ≤ a.length := both_le_left' a b

/-- … nor than test triples, repeated triples included. -/
theorem both_le_right (a b : List α) : both a b ≤ b.length := both_le_right' a b

/-- no under-count: a list matches itself completely, repeated triples included. -/
theorem both_self (a : List α) : both a a = a.length := both_self' a

/-- the count does not depend on the order of either list. -/
theorem both_perm {a a' b b' : List α} (ha : a.Perm a') (hb : b.Perm b') : both a b = both a' b' :=
  both_perm' ha hb

end counting

/-- `EDS()` — the replacement for a missing member — has no triples and no top. -/
theorem sig_empty {ι : Type} [DecidableEq ι] : sig (Graph.empty : Graph ι) = .ok Sig.empty := rfl

/-! ## the defining equation -/

/-- "the reported precision, recall and F-score equal the ratios computed from the multiset
intersection of name, argument, property, constant and top triples keyed by character spans
under the given weights, with a missing member of a pair counted as empty or skipped as
requested."  On the extracted triples: the loop of `_accumulate` with its `Counter`
arithmetic and the weighted sums of `compute` equal `_prf` of
`Σ_c w_c·Σ_pairs |gold_c|`, `Σ_c w_c·Σ_pairs |test_c|`, `Σ_c w_c·Σ_pairs |gold_c ∩ test_c|`
over the counted pairs (`counted`: skipped iff both missing, or gold missing ∧ ignore_missing_gold,
or test missing ∧ ignore_missing_test; otherwise the missing side is the empty structure). -/
theorem computeS_def (w : Weights) (ig it : Bool) (gs ts : List (Option Sig)) :
    computeS w ig it (gs.map (·.map Except.ok)) (ts.map (·.map Except.ok)) =
      prf (wsum w (fun c => sumOver (counted ig it (zipLongest gs ts)) (fun g _ => (g.triples c).length)))
          (wsum w (fun c => sumOver (counted ig it (zipLongest gs ts)) (fun _ t => (t.triples c).length)))
          (wsum w (fun c => sumOver (counted ig it (zipLongest gs ts))
            (fun g t => inter (g.triples c) (t.triples c)))) := by
  unfold computeS
  rw [accumulate_ok]
  show scoreOf w _ = _
  unfold scoreOf
  rw [total_eq_wsum, total_eq_wsum, total_eq_wsum]
  simp only [specM_get]

section graphs
variable {ι κ : Type} [DecidableEq ι] [DecidableEq κ]

/-- An EDS never raises; a DMRS raises `KeyError` only for a link that starts at no node. -/
theorem sig_eq_ok_iff (g : Graph ι) : sig g = .ok (sigOf g) ↔ argsOk g = true := by
  unfold sig sigOf
  cases h : argsOk g <;> simp

theorem argsOk_eds {g : Graph ι} (h : g.kind = .eds) : argsOk g = true := by
  unfold argsOk; rw [h]

/-- The defining equation for `edm.compute` on structures (every structure's
`arguments()` is defined: all EDS, and DMRS whose links start at nodes). -/
theorem compute_def (w : Weights) (ig it : Bool)
    (golds : List (Option (Graph ι))) (tests : List (Option (Graph κ)))
    (hg : ∀ g, some g ∈ golds → argsOk g = true) (ht : ∀ t, some t ∈ tests → argsOk t = true) :
    compute w ig it golds tests =
      let ps := counted ig it (zipLongest (golds.map (·.map sigOf)) (tests.map (·.map sigOf)))
      prf (wsum w (fun c => sumOver ps (fun g _ => (g.triples c).length)))
          (wsum w (fun c => sumOver ps (fun _ t => (t.triples c).length)))
          (wsum w (fun c => sumOver ps (fun g t => inter (g.triples c) (t.triples c)))) := by
  have h1 : golds.map (·.map sig) = (golds.map (·.map sigOf)).map (·.map Except.ok) := by
    rw [List.map_map]
    apply List.map_congr_left
    intro x hx
    cases x with
    | none => rfl
    | some g => simp [(sig_eq_ok_iff g).2 (hg g hx)]
  have h2 : tests.map (·.map sig) = (tests.map (·.map sigOf)).map (·.map Except.ok) := by
    rw [List.map_map]
    apply List.map_congr_left
    intro x hx
    cases x with
    | none => rfl
    | some g => simp [(sig_eq_ok_iff g).2 (ht g hx)]
  unfold compute
  rw [h1, h2]
  exact computeS_def w ig it _ _

/-! ## consequences -/

/-- "Hence all three scores lie in [0,1]" — for all non-negative weight vectors, both flag
settings, any lists (with `None` entries, unequal lengths). -/
theorem scores_in_unit {w : Weights} (hw : w.Nonneg) (ig it : Bool)
    (golds : List (Option (Graph ι))) (tests : List (Option (Graph κ))) {s : Score}
    (h : compute w ig it golds tests = .ok s) : s.InUnit := by
  unfold compute computeS at h
  cases hm : accumulate ig it (golds.map (·.map sig)) (tests.map (·.map sig)) with
  | error e => simp [hm] at h
  | ok m =>
    simp only [hm] at h
    obtain ⟨s', hs', hu⟩ := scoreOf_unit hw (accumulate_bounded hm)
    rw [hs'] at h
    cases h
    exact hu

/-- zero-safe ratios: with non-negative weights the totals never lead to a division by zero —
whenever the triples can be extracted, a score is returned. -/
theorem no_zero_division {w : Weights} (hw : w.Nonneg) (ig it : Bool)
    (golds : List (Option (Graph ι))) (tests : List (Option (Graph κ))) {m : Match}
    (h : accumulateG ig it golds tests = .ok m) : ∃ s, compute w ig it golds tests = .ok s := by
  unfold accumulateG at h
  obtain ⟨s, hs, _⟩ := scoreOf_unit hw (accumulate_bounded h)
  exact ⟨s, by unfold compute computeS; rw [h]; exact hs⟩

/-- … and the only way `compute` fails with non-negative weights is the `KeyError` that
`DMRS.arguments()` raises for a structure with a link starting at no node (never for lists of
EDS or of DMRS whose links start at nodes — the property's input space). -/
theorem error_only_from_dangling_link {w : Weights} (hw : w.Nonneg) (ig it : Bool)
    (golds : List (Option (Graph ι))) (tests : List (Option (Graph κ))) {e : Err}
    (h : compute w ig it golds tests = .error e) :
    e = .keyError ∧ ((∃ g, some g ∈ golds ∧ argsOk g = false) ∨ (∃ t, some t ∈ tests ∧ argsOk t = false)) := by
  unfold compute computeS at h
  cases hm : accumulate ig it (golds.map (·.map sig)) (tests.map (·.map sig)) with
  | ok m =>
    obtain ⟨s, hs, _⟩ := scoreOf_unit hw (accumulate_bounded hm)
    simp [hm, hs] at h
  | error e' =>
    simp only [hm] at h
    cases h
    unfold accumulate at hm
    obtain ⟨p, hp, hpe⟩ := accLoop_error ig it _ _ hm
    have hz := zipLongest_mem _ _ p hp
    rcases hpe with hpe | hpe
    · rcases hz.1 with h0 | h0
      · rw [hpe] at h0; cases h0
      · rw [hpe] at h0
        have := mem_map_sig_error h0
        exact ⟨this.1, Or.inl this.2⟩
    · rcases hz.2 with h0 | h0
      · rw [hpe] at h0; cases h0
      · rw [hpe] at h0
        have := mem_map_sig_error h0
        exact ⟨this.1, Or.inr this.2⟩

/-- "equal 1 when the lists are identical and contain at least one triple" — reading: at least
one triple in a category of positive weight among the counted pairs (`m` are the totals of
`_accumulate`); with every present category weighted 0 the zero-safe ratio is 0 by the
defining equation. -/
theorem identical_is_one {w : Weights} (hw : w.Nonneg) (ig it : Bool)
    (golds : List (Option (Graph ι))) {m : Match}
    (h : accumulateG ig it golds golds = .ok m)
    (c : Cat) (hc : 0 < w.get c) (htriple : 0 < (m.get c).gold) :
    compute w ig it golds golds = .ok ⟨1, 1, 1⟩ := by
  unfold accumulateG at h
  have hd := accumulate_self_diag h
  have hpos : 0 < total w m (·.gold) := by
    rw [total_eq_wsum]
    exact wsum_pos hw c hc htriple
  unfold compute computeS
  rw [h]
  exact scoreOf_diag hd hpos

/-- "swap precision and recall when gold and test are exchanged" (the two ignore flags
exchanged with them); the F-score is unchanged. -/
theorem swap (w : Weights) (ig it : Bool)
    (golds : List (Option (Graph ι))) (tests : List (Option (Graph κ))) {s : Score}
    (h : compute w ig it golds tests = .ok s) :
    compute w it ig tests golds = .ok ⟨s.recall, s.precision, s.fscore⟩ :=
  computeS_swap h

/-- "unchanged by renaming node identifiers": an injective renaming leaves every triple list,
the top span and the error behaviour of a structure unchanged … -/
theorem sig_rename {f : ι → κ} (hf : Function.Injective f) (g : Graph ι) : sig (g.rename f) = sig g :=
  sig_rename' hf g

/-- … hence `compute` is unchanged when every gold and every test structure is renamed by its
own injective map (`golds'`/`tests'` are position-wise renamings of `golds`/`tests`). -/
theorem compute_rename {ι' κ' : Type} [DecidableEq ι'] [DecidableEq κ'] (w : Weights) (ig it : Bool)
    (golds : List (Option (Graph ι))) (golds' : List (Option (Graph ι')))
    (tests : List (Option (Graph κ))) (tests' : List (Option (Graph κ')))
    (hg : Renamed golds golds') (ht : Renamed tests tests') :
    compute w ig it golds' tests' = compute w ig it golds tests := by
  unfold compute
  rw [renamed_sig hg, renamed_sig ht]

/-- "… or reordering nodes": listing the nodes (and links) of a structure with distinct node
ids in another order permutes every triple list and keeps the top span and the error
behaviour … -/
theorem sig_reorder {g g' : Graph ι} (hn : (g.nodes.map (·.id)).Nodup) (h : Reordered g g') :
    argsOk g' = argsOk g ∧ SigPerm (sigOf g) (sigOf g') :=
  ⟨argsOk_reorder h hn, sigOf_reorder h hn⟩

/-- … so the counts of every pair are unchanged (multisets do not see order) … -/
theorem match_reorder {g g' t t' : Sig} (hg : SigPerm g g') (ht : SigPerm t t') :
    matchSig g' t' = matchSig g t := matchSig_congr hg ht

/-- … hence `compute` is unchanged when every gold and every test structure is reordered. -/
theorem compute_reorder (w : Weights) (ig it : Bool)
    {golds golds' : List (Option (Graph ι))} {tests tests' : List (Option (Graph κ))}
    (hg : ReorderedList golds golds') (ht : ReorderedList tests tests') :
    compute w ig it golds' tests' = compute w ig it golds tests := by
  unfold compute
  exact computeS_congr w ig it (reordered_items hg) (reordered_items ht)

end graphs

/-! ## the statements are not vacuous -/

/-- repeated triples are matched as often as they occur on both sides -/
example : both [1, 1, 1, 2, 3] [1, 1, 2, 2, 4] = 3 := by decide
example : inter [1, 1, 1, 2, 3] [1, 1, 2, 2, 4] = 3 := by decide
/-- the policy for missing members -/
example : counted false true [(none, some Sig.empty), (some Sig.empty, none), (none, none)]
    = [(Sig.empty, Sig.empty)] := by decide
example : (zipLongest [some 1, none] [some 2, some 3, some 4] : List (Option Nat × Option Nat))
    = [(some 1, some 2), (none, some 3), (none, some 4)] := by simp [zipLongest]
/-- a weight vector satisfying `Weights.Nonneg` with a positive category -/
example : (⟨1, 0, 0, 0, 0⟩ : Weights).Nonneg ∧ 0 < (⟨1, 0, 0, 0, 0⟩ : Weights).get .name := by
  refine ⟨fun c => ?_, ?_⟩
  · cases c <;> simp [Weights.get] <;> decide
  · simp [Weights.get]; decide

end Verif.C18
