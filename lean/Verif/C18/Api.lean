/-
C18 — the code AROUND the core of `edm.compute` that the property's clauses go through:

* the `if info:` branch of `edm._accumulate` (taken when the module logger is enabled for INFO, e.g. the
  sub-command run with `-vv`): five more `_prf` calls per counted pair, on the integer counts of that pair;
* the per-pair decisions of the loop as a trace (what the INFO log lines show: a pair is skipped, or counted
  with its 5×3 counts);
* the option plumbing of the sub-command `delphin edm` (`delphin.cli.edm.call_compute`): `-N -A -P -C -T`
  to the five keyword weights and `--ignore-missing {gold,test,both,none}` to the two flags.

Core Lean only.
-/
import Verif.C18.Model

namespace Verif.C18

/-! ### the logging branch -/

/-- `_prf(*result.<category>)` inside `if info:` — on the integer counts of one pair -/
def logPrf (c : Count) : Except Err Score := prf (c.gold : Rat) (c.test : Rat) (c.both : Rat)

/-- the five `logger.info(fmt, …, *_prf(*result.X))` statements; a raised exception would leave the loop -/
def pairLog (m : Match) : Except Err Unit :=
  match logPrf m.name with
  | .error e => .error e
  | .ok _ =>
    match logPrf m.argument with
    | .error e => .error e
    | .ok _ =>
      match logPrf m.property with
      | .error e => .error e
      | .ok _ =>
        match logPrf m.constant with
        | .error e => .error e
        | .ok _ =>
          match logPrf m.top with
          | .error e => .error e
          | .ok _ => .ok ()

/-- the loop of `edm._accumulate` with `info = logger.isEnabledFor(logging.INFO)` as a parameter -/
def accLoopI (info ig it : Bool) : Match → List (Option Item × Option Item) → Except Err Match
  | tot, [] => .ok tot
  | tot, (g, t) :: rest =>
    match pairMatch ig it g t with
    | .error e => .error e
    | .ok none => accLoopI info ig it tot rest
    | .ok (some m) =>
      if info then
        match pairLog m with
        | .error e => .error e
        | .ok _ => accLoopI info ig it (tot.add m) rest
      else accLoopI info ig it (tot.add m) rest

def accumulateI (info ig it : Bool) (golds tests : List (Option Item)) : Except Err Match :=
  accLoopI info ig it Match.zero (zipLongest golds tests)

/-- `edm.compute` with the logger level as a parameter -/
def computeI {ι κ : Type} [DecidableEq ι] [DecidableEq κ] (info : Bool) (w : Weights) (ig it : Bool)
    (golds : List (Option (Graph ι))) (tests : List (Option (Graph κ))) : Except Err Score :=
  match accumulateI info ig it (golds.map (·.map sig)) (tests.map (·.map sig)) with
  | .error e => .error e
  | .ok m => scoreOf w m

/-! ### the per-pair trace -/

/-- What the loop does pair by pair, in order: `none` = `continue`, `some m` = `_match(gold, test)`;
stops at the first exception (the pairs before it are kept: they have been logged). -/
def pairTrace (ig it : Bool) : List (Option Item × Option Item) → List (Option Match) × Option Err
  | [] => ([], none)
  | (g, t) :: rest =>
    match pairMatch ig it g t with
    | .error e => ([], some e)
    | .ok r => let (tr, e) := pairTrace ig it rest; (r :: tr, e)

def addOpt (tot : Match) : Option Match → Match
  | none => tot
  | some m => tot.add m

def traceG {ι κ : Type} [DecidableEq ι] [DecidableEq κ] (ig it : Bool)
    (golds : List (Option (Graph ι))) (tests : List (Option (Graph κ))) : List (Option Match) × Option Err :=
  pairTrace ig it (zipLongest (golds.map (·.map sig)) (tests.map (·.map sig)))

/-! ### `delphin edm` option plumbing -/

/-- `--ignore-missing X`, `choices=('gold', 'test', 'both', 'none')`, default `'none'` -/
inductive IgnoreMissing where
  | gold | test | both | none
deriving Repr, DecidableEq

/-- `ignore_missing_gold=args.ignore_missing in ('gold', 'both')`,
    `ignore_missing_test=args.ignore_missing in ('test', 'both')` -/
def cliFlags : IgnoreMissing → Bool × Bool
  | .gold => (true, false)
  | .test => (false, true)
  | .both => (true, true)
  | .none => (false, false)

/-- the parsed options of the sub-command that reach `edm.compute` -/
structure CliArgs where
  N : Rat
  A : Rat
  P : Rat
  C : Rat
  T : Rat
  ignoreMissing : IgnoreMissing

/-- parser defaults: every weight 1.0, `--ignore-missing none` -/
def CliArgs.default : CliArgs := ⟨1, 1, 1, 1, 1, .none⟩

/-- `name_weight=args.N, argument_weight=args.A, property_weight=args.P, constant_weight=args.C, top_weight=args.T` -/
def CliArgs.weights (a : CliArgs) : Weights := ⟨a.N, a.A, a.P, a.C, a.T⟩

/-- `delphin.cli.edm.call_compute` after the two collections have been read -/
def cliCompute {ι κ : Type} [DecidableEq ι] [DecidableEq κ] (a : CliArgs)
    (golds : List (Option (Graph ι))) (tests : List (Option (Graph κ))) : Except Err Score :=
  compute a.weights (cliFlags a.ignoreMissing).1 (cliFlags a.ignoreMissing).2 golds tests

end Verif.C18
