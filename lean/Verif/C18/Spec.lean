/-
C18 — a declarative statement, straight from a structure, of the five triple collections that the property
speaks of ("name, argument, property, constant and top triples keyed by character spans"), independent of how
`edm._arguments` walks `sr.arguments()` and how `SemanticStructure` looks identifiers up:

* one name triple per node, one property triple per (node, feature, value), one constant triple per node with
  a non-empty `carg`;
* argument triples: EDS — one per (node, role, target) edge whose target is a node; DMRS — one per link whose
  role is not `MOD` (`BARE_EQ_ROLE`) and whose two ends are nodes, in LINK order (the code walks nodes first);
* the top triple: the span of THE node named by `top`, if there is one.
`nodeOf` is the first node with the identifier (in a structure with distinct identifiers: the node).
Executable (the driver evaluates it next to the model of the code).  Core Lean only.
-/
import Verif.C18.Model

namespace Verif.C18

variable {ι : Type} [DecidableEq ι]

/-- the node with identifier `i` -/
def nodeOf (ns : List (Node ι)) (i : ι) : Option (Node ι) := ns.find? (fun n => decide (n.id = i))

/-- the argument triple of one EDS edge, if its target is a node -/
def specEdge (ns : List (Node ι)) (n : Node ι) (rt : Str × ι) : List Triple :=
  match nodeOf ns rt.2 with
  | some m => [(n.span, rt.1, Val.span m.span)]
  | none => []

/-- the argument triple of one DMRS link: none for `MOD` links and for links with an end that is no node -/
def specLink (ns : List (Node ι)) (l : Link ι) : List Triple :=
  if l.role = modRole then [] else
    match nodeOf ns l.start with
    | none => []
    | some s =>
      match nodeOf ns l.target with
      | some e => [(s.span, l.role, Val.span e.span)]
      | none => []

def specArgs (g : Graph ι) : List Triple :=
  match g.kind with
  | .eds => g.nodes.flatMap (fun n => n.edges.flatMap (specEdge g.nodes n))
  | .dmrs => g.links.flatMap (specLink g.nodes)

def specTop (g : Graph ι) : Option Span :=
  match g.top with
  | none => none
  | some t => (nodeOf g.nodes t).map (·.span)

/-- the five triple collections of a structure, as the property describes them -/
def specSig (g : Graph ι) : Sig :=
  { names := g.nodes.map (fun n => (n.span, n.pred, Val.none)),
    args := specArgs g,
    props := g.nodes.flatMap (fun n => n.props.map (fun fv => (n.span, fv.1, Val.str fv.2))),
    consts := g.nodes.flatMap (fun n =>
      match n.carg with
      | some c => if c = [] then [] else [(n.span, cargRole, Val.str c)]
      | none => []),
    top := specTop g }

/-- `_accumulate` on the declarative triples (for the driver) -/
def accumulateSpec {κ : Type} [DecidableEq κ] (ig it : Bool)
    (golds : List (Option (Graph ι))) (tests : List (Option (Graph κ))) : Except Err Match :=
  accumulate ig it (golds.map (·.map (fun g => Except.ok (specSig g))))
    (tests.map (·.map (fun g => Except.ok (specSig g))))

end Verif.C18
