/-
C18 — model of `delphin.edm.compute` (Elementary Dependency Matching) together with the
parts of `delphin.eds.EDS`, `delphin.dmrs.DMRS`, `delphin.sembase.SemanticStructure`
and `delphin.lnk.LnkMixin` it reads.  Core Lean only (core `Rat`).  Strings are `List Char`.

The code's arithmetic is polymorphic; the model is the run with exact rational weights
(`fractions.Fraction` on the Python side).
-/
import Verif.Generated.TablesC18

namespace Verif.C18

abbrev Str := List Char
/-- `(cfrom, cto)` -/
abbrev Span := Int × Int

inductive Err where
  | keyError        -- `args[link.start]` in `DMRS.arguments` for a link whose start is no node
  | zeroDivision    -- `2 * (p * r) / (p + r)` with `p + r = 0` (only with negative weights)
deriving Repr, DecidableEq

/-- `delphin.lnk.Lnk` as far as `LnkMixin.cfrom/cto` look at it. -/
inductive Lnk where
  | unspecified
  | charspan (cfrom cto : Int)
  | other                       -- chart span, token list, edge id
deriving Repr, DecidableEq

/-- `edm._span`: `(node.cfrom, node.cto)`; both default to -1 unless the lnk is a character span. -/
def Lnk.span : Lnk → Span
  | .charspan a b => (a, b)
  | _ => (-1, -1)

/-- third component of a triple: `None` (names), a span (arguments), a string (properties, constants) -/
inductive Val where
  | none
  | span (s : Span)
  | str (s : Str)
deriving Repr, DecidableEq

abbrev Triple := Span × Str × Val

/-- An `eds.Node` / `dmrs.Node`.  `edges` is `node.edges.items()` (EDS only, empty for DMRS). -/
structure Node (ι : Type) where
  id : ι
  pred : Str
  lnk : Lnk
  props : List (Str × Str)
  carg : Option Str
  edges : List (Str × ι)

def Node.span {ι} (n : Node ι) : Span := n.lnk.span

/-- A `dmrs.Link`; the post-slash label is never read by `edm`. -/
structure Link (ι : Type) where
  start : ι
  target : ι
  role : Str

inductive Kind where
  | eds
  | dmrs
deriving Repr, DecidableEq

/-- The structure after its constructor ran (`links` is empty for EDS). -/
structure Graph (ι : Type) where
  kind : Kind
  top : Option ι
  nodes : List (Node ι)
  links : List (Link ι)

/-- `EDS()` — what a missing member of a pair is replaced with. -/
def Graph.empty {ι} : Graph ι := { kind := .eds, top := none, nodes := [], links := [] }

/-- `dmrs._normalize_top_and_links`: links starting at node id `TOP_NODE_ID` (0) are removed; the first of
them gives the top if no top was passed. -/
def mkDmrs (top : Option Nat) (nodes : List (Node Nat)) (links : List (Link Nat)) : Graph Nat :=
  { kind := .dmrs,
    top := match top with
      | some t => some t
      | none => (links.find? (fun l => l.start = Verif.Tables.c18TopNodeId)).map (·.target),
    nodes := nodes,
    links := links.filter (fun l => l.start ≠ Verif.Tables.c18TopNodeId) }

variable {ι : Type} [DecidableEq ι]

/-- `sr._pidx[i]` where `_pidx = {p.id: p for p in predications}`: the LAST node with the id. -/
def lookup : List (Node ι) → ι → Option (Node ι)
  | [], _ => none
  | n :: ns, i =>
    match lookup ns i with
    | some m => some m
    | none => if n.id = i then some n else none

/-- `dmrs.BARE_EQ_ROLE` (generated from the live module) -/
def modRole : Str := Verif.Tables.c18BareEqRole
def cargRole : Str := ['c', 'a', 'r', 'g']

/-- `sr.arguments()[n.id]`.
EDS: `args[node.id] = []` is re-initialised by every node with that id, so the edges of the
last one are what every node with the id sees.
DMRS: the non-`MOD` links that start at the id, in link order. -/
def argsOf (g : Graph ι) (n : Node ι) : List (Str × ι) :=
  match g.kind with
  | .eds =>
    match lookup g.nodes n.id with
    | some m => m.edges
    | none => []
  | .dmrs =>
    (g.links.filter (fun l => decide (l.role ≠ modRole) && decide (l.start = n.id))).map
      (fun l => (l.role, l.target))

/-- `DMRS.arguments()` raises `KeyError` for a non-`MOD` link whose start is not a node id. -/
def argsOk (g : Graph ι) : Bool :=
  match g.kind with
  | .eds => true
  | .dmrs => g.links.all (fun l => decide (l.role = modRole) || (lookup g.nodes l.start).isSome)

/-- `edm._names` -/
def names (g : Graph ι) : List Triple :=
  g.nodes.map (fun n => (n.span, n.pred, Val.none))

/-- `edm._arguments`: targets that are not nodes of the structure are skipped. -/
def arguments (g : Graph ι) : List Triple :=
  g.nodes.flatMap (fun n =>
    (argsOf g n).filterMap (fun rt =>
      (lookup g.nodes rt.2).map (fun m => (n.span, rt.1, Val.span m.span))))

/-- `edm._properties` -/
def properties (g : Graph ι) : List Triple :=
  g.nodes.flatMap (fun n => n.props.map (fun fv => (n.span, fv.1, Val.str fv.2)))

/-- `edm._constants`: `if node.carg:` drops `None` and the empty string. -/
def constants (g : Graph ι) : List Triple :=
  g.nodes.filterMap (fun n =>
    match n.carg with
    | some c => if c = [] then none else some (n.span, cargRole, Val.str c)
    | none => none)

/-- span of the top node if `sr.top in sr` -/
def topSpan (g : Graph ι) : Option Span :=
  match g.top with
  | none => none
  | some t => (lookup g.nodes t).map (·.span)

/-- Everything `edm._match` reads from one structure. -/
structure Sig where
  names : List Triple
  args : List Triple
  props : List Triple
  consts : List Triple
  top : Option Span
deriving Repr, DecidableEq

def Sig.empty : Sig := { names := [], args := [], props := [], consts := [], top := none }

def sig (g : Graph ι) : Except Err Sig :=
  if argsOk g then
    .ok { names := names g, args := arguments g, props := properties g, consts := constants g,
          top := topSpan g }
  else .error .keyError

/-! ### counting -/

/-- keys of a `Counter` in first-occurrence order -/
def dedup {α : Type} [DecidableEq α] : List α → List α
  | [] => []
  | x :: xs => x :: (dedup xs).filter (fun y => decide (y ≠ x))

/-- `sum(min(c1[t], c2[t]) for t in c1 if t in c2)` with `c1 = Counter(a)`, `c2 = Counter(b)` -/
def both {α : Type} [DecidableEq α] (a b : List α) : Nat :=
  (((dedup a).filter (fun t => decide (t ∈ b))).map (fun t => min (a.count t) (b.count t))).sum

structure Count where
  gold : Nat
  test : Nat
  both : Nat
deriving Repr, DecidableEq

def Count.add (a b : Count) : Count := ⟨a.gold + b.gold, a.test + b.test, a.both + b.both⟩
def Count.zero : Count := ⟨0, 0, 0⟩

/-- `edm._count` -/
def countTriples (g t : List Triple) : Count := ⟨g.length, t.length, both g t⟩

/-- the top count of `edm._match` -/
def topCount (g t : Option Span) : Count :=
  ⟨if g.isSome then 1 else 0,
   if t.isSome then 1 else 0,
   match g, t with
   | some a, some b => if a = b then 1 else 0
   | _, _ => 0⟩

structure Match where
  name : Count
  argument : Count
  property : Count
  constant : Count
  top : Count
deriving Repr, DecidableEq

def Match.add (a b : Match) : Match :=
  ⟨a.name.add b.name, a.argument.add b.argument, a.property.add b.property,
   a.constant.add b.constant, a.top.add b.top⟩
def Match.zero : Match := ⟨.zero, .zero, .zero, .zero, .zero⟩

/-- `edm._match` -/
def matchSig (g t : Sig) : Match :=
  ⟨countTriples g.names t.names, countTriples g.args t.args, countTriples g.props t.props,
   countTriples g.consts t.consts, topCount g.top t.top⟩

/-- `itertools.zip_longest` on lists whose members may already be `None` -/
def zipLongest {α β : Type} : List (Option α) → List (Option β) → List (Option α × Option β)
  | [], [] => []
  | a :: as, [] => (a, none) :: zipLongest as []
  | [], b :: bs => (none, b) :: zipLongest [] bs
  | a :: as, b :: bs => (a, b) :: zipLongest as bs

/-- A member of the input lists as `_accumulate` sees it: its triples, or the error raised
when they are extracted (which only happens if the pair is not skipped). -/
abbrev Item := Except Err Sig

/-- one iteration of the loop of `edm._accumulate`: `none` = `continue` -/
def pairMatch (ig it : Bool) : Option Item → Option Item → Except Err (Option Match)
  | none, none => .ok none
  | none, some t =>
    if ig then .ok none else
      match t with
      | .ok t => .ok (some (matchSig Sig.empty t))
      | .error e => .error e
  | some g, none =>
    if it then .ok none else
      match g with
      | .ok g => .ok (some (matchSig g Sig.empty))
      | .error e => .error e
  | some g, some t =>
    match g, t with
    | .ok g, .ok t => .ok (some (matchSig g t))
    | .error e, _ => .error e
    | _, .error e => .error e

/-- the loop of `edm._accumulate` -/
def accLoop (ig it : Bool) : Match → List (Option Item × Option Item) → Except Err Match
  | tot, [] => .ok tot
  | tot, (g, t) :: rest =>
    match pairMatch ig it g t with
    | .error e => .error e
    | .ok none => accLoop ig it tot rest
    | .ok (some m) => accLoop ig it (tot.add m) rest

def accumulate (ig it : Bool) (golds tests : List (Option Item)) : Except Err Match :=
  accLoop ig it Match.zero (zipLongest golds tests)

structure Weights where
  name : Rat
  argument : Rat
  property : Rat
  constant : Rat
  top : Rat

/-- `totals.name.X * name_weight + … + totals.top.X * top_weight` -/
def total (w : Weights) (m : Match) (sel : Count → Nat) : Rat :=
  (sel m.name : Rat) * w.name + (sel m.argument : Rat) * w.argument
    + (sel m.property : Rat) * w.property + (sel m.constant : Rat) * w.constant
    + (sel m.top : Rat) * w.top

structure Score where
  precision : Rat
  recall : Rat
  fscore : Rat
deriving DecidableEq

/-- `edm._prf` -/
def prf (g t b : Rat) : Except Err Score :=
  if t = 0 ∨ g = 0 ∨ b = 0 then .ok ⟨0, 0, 0⟩
  else
    let p := b / t
    let r := b / g
    if p + r = 0 then .error .zeroDivision
    else .ok ⟨p, r, 2 * (p * r) / (p + r)⟩

def scoreOf (w : Weights) (m : Match) : Except Err Score :=
  prf (total w m (·.gold)) (total w m (·.test)) (total w m (·.both))

/-- `edm.compute` on the extracted triples -/
def computeS (w : Weights) (ig it : Bool) (golds tests : List (Option Item)) : Except Err Score :=
  match accumulate ig it golds tests with
  | .error e => .error e
  | .ok m => scoreOf w m

/-- `edm.compute(golds, tests, *weights, ignore_missing_gold, ignore_missing_test)` -/
def compute {κ : Type} [DecidableEq κ] (w : Weights) (ig it : Bool)
    (golds : List (Option (Graph ι))) (tests : List (Option (Graph κ))) : Except Err Score :=
  computeS w ig it (golds.map (·.map sig)) (tests.map (·.map sig))

/-- `edm._accumulate(golds, tests, ig, it)` -/
def accumulateG {κ : Type} [DecidableEq κ] (ig it : Bool)
    (golds : List (Option (Graph ι))) (tests : List (Option (Graph κ))) : Except Err Match :=
  accumulate ig it (golds.map (·.map sig)) (tests.map (·.map sig))

end Verif.C18
