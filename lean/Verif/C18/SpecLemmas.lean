/-
C18 — lemmas for PropsSpec.lean: in a structure with distinct node identifiers the code's triple extraction
(`names`, `arguments`, `properties`, `constants`, `topSpan` of Model.lean) yields, up to order, the declarative
collections of Spec.lean.  Core Lean only.
-/
import Verif.C18.Spec
import Verif.C18.Lemmas

namespace Verif.C18

variable {ι : Type} [DecidableEq ι]

theorem flatMap_append_perm {α β : Type} (l : List α) (f g : α → List β) :
    (l.flatMap (fun x => f x ++ g x)).Perm (l.flatMap f ++ l.flatMap g) := by
  induction l with
  | nil => exact List.Perm.refl _
  | cons a l ih =>
    simp only [List.flatMap_cons]
    have h1 : (f a ++ g a ++ List.flatMap (fun x => f x ++ g x) l).Perm
        (f a ++ g a ++ (List.flatMap f l ++ List.flatMap g l)) := List.Perm.append_left _ ih
    refine h1.trans ?_
    rw [List.append_assoc, List.append_assoc]
    refine List.Perm.append_left _ ?_
    rw [← List.append_assoc, ← List.append_assoc]
    exact List.Perm.append_right _ List.perm_append_comm

theorem flatMap_congr_mem {α β : Type} (l : List α) (f g : α → List β) (h : ∀ x ∈ l, f x = g x) :
    l.flatMap f = l.flatMap g := by
  induction l with
  | nil => rfl
  | cons a l ih =>
    simp only [List.flatMap_cons]
    rw [h a List.mem_cons_self, ih (fun x hx => h x (List.mem_cons_of_mem _ hx))]

/-- with distinct identifiers the dict lookup (last node with the id) is THE node with the id -/
theorem lookup_eq_nodeOf {ns : List (Node ι)} (hn : (ns.map (·.id)).Nodup) (i : ι) :
    lookup ns i = nodeOf ns i := by
  induction ns with
  | nil => rfl
  | cons n ns ih =>
    simp only [List.map_cons, List.nodup_cons] at hn
    have ih' := ih hn.2
    unfold lookup nodeOf
    simp only [List.find?_cons]
    by_cases h : n.id = i
    · have hnone : lookup ns i = none := by
        cases hl : lookup ns i with
        | none => rfl
        | some m =>
          have := lookup_some hl
          exact absurd (List.mem_map.2 ⟨m, this.1, this.2.trans h.symm⟩) hn.1
      simp [hnone, h]
    · rw [ih']
      simp only [h, decide_false]
      unfold nodeOf
      cases List.find? (fun n => decide (n.id = i)) ns <;> simp

theorem nodeOf_mem {ns : List (Node ι)} (hn : (ns.map (·.id)).Nodup) {n : Node ι} (h : n ∈ ns) :
    nodeOf ns n.id = some n := by
  rw [← lookup_eq_nodeOf hn]
  have hs := lookup_isSome_of_mem h
  cases hl : lookup ns n.id with
  | none => rw [hl] at hs; cases hs
  | some m =>
    have := lookup_some hl
    rw [eq_of_id_eq hn this.1 h this.2]

theorem filterMap_eq_flatMap_toList {α β : Type} (l : List α) (f : α → Option β) :
    l.filterMap f = l.flatMap (fun x => (f x).toList) := by
  induction l with
  | nil => rfl
  | cons a l ih => cases h : f a <;> simp [h, ih]

/-! ### EDS -/

theorem arguments_eds {g : Graph ι} (hk : g.kind = .eds) (hn : (g.nodes.map (·.id)).Nodup) :
    arguments g = specArgs g := by
  unfold arguments specArgs
  rw [hk]
  simp only
  apply flatMap_congr_mem
  intro n hmem
  have hargs : argsOf g n = n.edges := by
    unfold argsOf; rw [hk]; simp only
    rw [lookup_eq_nodeOf hn, nodeOf_mem hn hmem]
  rw [hargs, filterMap_eq_flatMap_toList]
  apply flatMap_congr_mem
  intro rt _
  unfold specEdge
  rw [lookup_eq_nodeOf hn]
  cases nodeOf g.nodes rt.2 <;> rfl

/-! ### DMRS: the code walks nodes and, per node, the links that start there; the links see each one once -/

/-- what one link contributes at one node in `edm._arguments` -/
def linkAt (ns : List (Node ι)) (l : Link ι) (n : Node ι) : List Triple :=
  if l.role ≠ modRole ∧ l.start = n.id then
    match lookup ns l.target with
    | some m => [(n.span, l.role, Val.span m.span)]
    | none => []
  else []

def innerArgs (ns : List (Node ι)) (ls : List (Link ι)) (n : Node ι) : List Triple :=
  ((ls.filter (fun l => decide (l.role ≠ modRole) && decide (l.start = n.id))).map
      (fun l => (l.role, l.target))).filterMap
    (fun rt => (lookup ns rt.2).map (fun m => (n.span, rt.1, Val.span m.span)))

theorem innerArgs_cons (ns : List (Node ι)) (l : Link ι) (ls : List (Link ι)) (n : Node ι) :
    innerArgs ns (l :: ls) n = linkAt ns l n ++ innerArgs ns ls n := by
  unfold innerArgs linkAt
  by_cases h1 : l.role = modRole
  · simp [h1]
  · by_cases h2 : l.start = n.id
    · simp only [List.filter_cons, h1, h2, ne_eq, not_false_eq_true, decide_true, Bool.and_self,
        if_true, List.map_cons, List.filterMap_cons, and_self]
      cases lookup ns l.target <;> simp
    · simp [h1, h2]

theorem linkAt_none (ns : List (Node ι)) (l : Link ι) (ms : List (Node ι))
    (h : ∀ m ∈ ms, m.id ≠ l.start) : ms.flatMap (linkAt ns l) = [] := by
  induction ms with
  | nil => rfl
  | cons m ms ih =>
    simp only [List.flatMap_cons]
    rw [ih (fun x hx => h x (List.mem_cons_of_mem _ hx))]
    have : l.start ≠ m.id := fun e => h m List.mem_cons_self e.symm
    simp [linkAt, this]

/-- over nodes with distinct identifiers a link is seen at exactly the node it starts at -/
theorem flatMap_linkAt (ns : List (Node ι)) (l : Link ι) (ms : List (Node ι)) (hm : (ms.map (·.id)).Nodup) :
    ms.flatMap (linkAt ns l) =
      if l.role = modRole then [] else
        match nodeOf ms l.start with
        | none => []
        | some s =>
          match lookup ns l.target with
          | some e => [(s.span, l.role, Val.span e.span)]
          | none => [] := by
  induction ms with
  | nil => simp [nodeOf]
  | cons m ms ih =>
    simp only [List.map_cons, List.nodup_cons] at hm
    simp only [List.flatMap_cons]
    unfold nodeOf
    simp only [List.find?_cons]
    by_cases h : m.id = l.start
    · have hnone : ms.flatMap (linkAt ns l) = [] := by
        apply linkAt_none
        intro x hx e
        exact hm.1 (List.mem_map.2 ⟨x, hx, e.trans h.symm⟩)
      rw [hnone]
      by_cases h1 : l.role = modRole
      · simp [linkAt, h1]
      · simp only [linkAt, h1, ne_eq, not_false_eq_true, h.symm, and_self, if_true, if_false,
          decide_true, List.append_nil]
    · rw [ih hm.2]
      have h' : l.start ≠ m.id := fun e => h e.symm
      simp only [linkAt, h', and_false, if_false, List.nil_append, h, decide_false]
      rfl

theorem arguments_dmrs {g : Graph ι} (hk : g.kind = .dmrs) (hn : (g.nodes.map (·.id)).Nodup) :
    (arguments g).Perm (specArgs g) := by
  have h0 : arguments g = g.nodes.flatMap (innerArgs g.nodes g.links) := by
    unfold arguments argsOf innerArgs
    rw [hk]
  have h1 : specArgs g = g.links.flatMap (specLink g.nodes) := by
    unfold specArgs; rw [hk]
  rw [h0, h1]
  generalize g.links = ls
  induction ls with
  | nil =>
    simp [innerArgs]
  | cons l ls ih =>
    have hc : g.nodes.flatMap (innerArgs g.nodes (l :: ls))
        = g.nodes.flatMap (fun n => linkAt g.nodes l n ++ innerArgs g.nodes ls n) := by
      apply flatMap_congr_mem
      intro n _
      exact innerArgs_cons _ _ _ _
    rw [hc, List.flatMap_cons]
    refine (flatMap_append_perm _ _ _).trans (List.Perm.append ?_ ih)
    rw [flatMap_linkAt g.nodes l g.nodes hn]
    unfold specLink
    rw [lookup_eq_nodeOf hn]
    exact List.Perm.refl _

/-! ### the whole signature -/

theorem topSpan_spec {g : Graph ι} (hn : (g.nodes.map (·.id)).Nodup) : topSpan g = specTop g := by
  unfold topSpan specTop
  cases g.top with
  | none => rfl
  | some t => simp only; rw [lookup_eq_nodeOf hn]

theorem constants_spec (g : Graph ι) : constants g = (specSig g).consts := by
  unfold constants specSig
  simp only
  rw [filterMap_eq_flatMap_toList]
  apply flatMap_congr_mem
  intro n _
  cases n.carg with
  | none => rfl
  | some c => by_cases h : c = [] <;> simp [h]

theorem sigOf_spec {g : Graph ι} (hn : (g.nodes.map (·.id)).Nodup) : SigPerm (specSig g) (sigOf g) := by
  refine ⟨List.Perm.refl _, ?_, List.Perm.refl _, ?_, ?_⟩
  · show (arguments g).Perm (specArgs g)
    cases hk : g.kind with
    | eds => rw [arguments_eds hk hn]
    | dmrs => exact arguments_dmrs hk hn
  · show (constants g).Perm (specSig g).consts
    rw [constants_spec]
  · exact topSpan_spec hn

end Verif.C18
