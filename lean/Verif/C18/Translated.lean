/-
C18 — the SOURCE-TRANSLATION tie (TRANSLATOR.md).  `Verif/Generated/TransC18.lean` is regenerated on every run from the
current source text of `delphin.edm._Count.add` and `delphin.edm._Match.add` by harness/common/py2lean.py.  The
theorems prove the regenerated definitions (over Python `int` = `Int`) equal to field-wise addition for ALL inputs,
and, on the embedding of the model's natural-number counts (`Count.toZ` / `Match.toZ`), equal to the model's
`Count.add` / `Match.add` that `accLoop` (the `_accumulate` loop) folds with.
-/
import Verif.Generated.TransC18
import Verif.C18.TranslatedTypes

namespace Verif.C18

/-- `edm._Count.add` (source), all inputs: field-wise sum. -/
theorem count_add_translated_int (a b : CountZ) :
    Verif.Trans.C18.count_add a b = ⟨a.gold + b.gold, a.test + b.test, a.both + b.both⟩ := rfl

/-- `edm._Count.add` (source) = `Count.add` (model). -/
theorem count_add_translated (a b : Count) :
    Verif.Trans.C18.count_add a.toZ b.toZ = (a.add b).toZ := by
  simp [Verif.Trans.C18.count_add, Count.toZ, Count.add]

/-- `edm._Match.add` (source) = `Match.add` (model). -/
theorem match_add_translated (a b : Match) :
    Verif.Trans.C18.match_add a.toZ b.toZ = (a.add b).toZ := by
  simp only [Verif.Trans.C18.match_add, Match.toZ, Match.add, count_add_translated]

end Verif.C18
