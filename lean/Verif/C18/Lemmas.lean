/-
C18 — helper lemmas and the specification-side definitions used by Props.lean:
the `Counter` formula of `edm._count` is the size of the multiset intersection;
bookkeeping for the accumulation loop; rational arithmetic of `_prf`;
renaming / reordering of structures.  Core Lean only.
-/
import Verif.C18.Model
namespace Verif.C18

variable {α : Type} [DecidableEq α]

theorem mem_dedup {x : α} {l : List α} : x ∈ dedup l ↔ x ∈ l := by
  induction l with
  | nil => simp [dedup]
  | cons y ys ih =>
    simp only [dedup, List.mem_cons, List.mem_filter, ih, decide_eq_true_eq]
    by_cases h : x = y <;> simp [h]

theorem nodup_dedup (l : List α) : (dedup l).Nodup := by
  induction l with
  | nil => simp [dedup]
  | cons y ys ih =>
    simp only [dedup, List.nodup_cons, List.mem_filter, decide_eq_true_eq]
    refine ⟨fun h => h.2 rfl, ?_⟩
    exact List.Pairwise.filter _ ih

/-- `Σ_{t ∈ K} min (count t a) (count t b)` -/
def sumMin (K a b : List α) : Nat := (K.map (fun t => min (a.count t) (b.count t))).sum

theorem both_def (a b : List α) : both a b = sumMin ((dedup a).filter (fun t => decide (t ∈ b))) a b := rfl

theorem sumMin_filter (K a b : List α) (P : α → Bool)
    (h : ∀ t ∈ K, P t = false → min (a.count t) (b.count t) = 0) :
    sumMin (K.filter P) a b = sumMin K a b := by
  induction K with
  | nil => rfl
  | cons k K ih =>
    have ih' := ih (fun t ht => h t (List.mem_cons_of_mem _ ht))
    unfold sumMin at *
    by_cases hp : P k = true
    · simp [hp, ih']
    · have hp' : P k = false := by simpa using hp
      have := h k (List.mem_cons_self) hp'
      simp [hp', ih', this]

theorem sumMin_perm {K K' : List α} (a b : List α) (h : K.Perm K') : sumMin K a b = sumMin K' a b :=
  (h.map _).sum_nat

theorem sumMin_congr {K K' : List α} (a b : List α) (hK : K.Nodup) (hK' : K'.Nodup)
    (h : ∀ t, t ∈ a → t ∈ b → t ∈ K) (h' : ∀ t, t ∈ a → t ∈ b → t ∈ K') :
    sumMin K a b = sumMin K' a b := by
  let P : α → Bool := fun t => decide (t ∈ a) && decide (t ∈ b)
  have hz : ∀ t, P t = false → min (a.count t) (b.count t) = 0 := by
    intro t ht
    simp only [P, Bool.and_eq_false_iff, decide_eq_false_iff_not] at ht
    rcases ht with ht | ht
    · simp [List.count_eq_zero.2 ht]
    · simp [List.count_eq_zero.2 ht]
  rw [← sumMin_filter K a b P (fun t _ => hz t), ← sumMin_filter K' a b P (fun t _ => hz t)]
  apply sumMin_perm
  rw [List.perm_ext_iff_of_nodup (List.Pairwise.filter _ hK) (List.Pairwise.filter _ hK')]
  intro t
  simp only [List.mem_filter, P, Bool.and_eq_true, decide_eq_true_eq]
  constructor
  · rintro ⟨_, h1, h2⟩; exact ⟨h' t h1 h2, h1, h2⟩
  · rintro ⟨_, h1, h2⟩; exact ⟨h t h1 h2, h1, h2⟩

theorem both_eq_sumMin {K : List α} (a b : List α) (hK : K.Nodup) (h : ∀ t, t ∈ a → t ∈ b → t ∈ K) :
    both a b = sumMin K a b := by
  rw [both_def]
  apply sumMin_congr a b (List.Pairwise.filter _ (nodup_dedup a)) hK _ h
  intro t h1 h2
  simp [List.mem_filter, mem_dedup, h1, h2]

theorem both_comm' (a b : List α) : both a b = both b a := by
  have hK : ((dedup a).filter (fun t => decide (t ∈ b))).Nodup := List.Pairwise.filter _ (nodup_dedup a)
  rw [both_def, both_eq_sumMin b a hK (by intro t h1 h2; simp [List.mem_filter, mem_dedup, h1, h2])]
  unfold sumMin
  congr 1
  apply List.map_congr_left
  intro t _
  exact Nat.min_comm _ _

theorem both_perm' {a a' b b' : List α} (ha : a.Perm a') (hb : b.Perm b') : both a b = both a' b' := by
  have hK : ((dedup a).filter (fun t => decide (t ∈ b))).Nodup := List.Pairwise.filter _ (nodup_dedup a)
  rw [both_def, both_eq_sumMin a' b' hK (by
    intro t h1 h2
    simp [List.mem_filter, mem_dedup, ha.mem_iff.2 h1, hb.mem_iff.2 h2])]
  unfold sumMin
  congr 1
  apply List.map_congr_left
  intro t _
  rw [ha.count_eq, hb.count_eq]

theorem length_filter_mem_cons (a : List α) {k : α} {K : List α} (hk : k ∉ K) :
    (a.filter (fun t => decide (t ∈ k :: K))).length = a.count k + (a.filter (fun t => decide (t ∈ K))).length := by
  induction a with
  | nil => simp
  | cons x xs ih =>
    by_cases hx : x = k
    · subst hx
      simp [hk] at ih ⊢; omega
    · by_cases hxK : x ∈ K
      · simp [hx, hxK] at ih ⊢; omega
      · simp [hx, hxK] at ih ⊢; omega

theorem sum_count (a : List α) {K : List α} (hK : K.Nodup) :
    (K.map (fun t => a.count t)).sum = (a.filter (fun t => decide (t ∈ K))).length := by
  induction K with
  | nil =>
    have : a.filter (fun t => decide (t ∈ ([] : List α))) = [] := by simp [List.filter_eq_nil_iff]
    rw [this]; rfl
  | cons k K ih =>
    rw [List.nodup_cons] at hK
    rw [length_filter_mem_cons a hK.1, List.map_cons, List.sum_cons, ih hK.2]

theorem sumMin_le_left (K a b : List α) (hK : K.Nodup) : sumMin K a b ≤ a.length := by
  have h1 : sumMin K a b ≤ (K.map (fun t => a.count t)).sum := by
    unfold sumMin
    clear hK
    induction K with
    | nil => simp
    | cons k K ih => simp only [List.map_cons, List.sum_cons]; have := Nat.min_le_left (a.count k) (b.count k); omega
  rw [sum_count a hK] at h1
  exact Nat.le_trans h1 (List.length_filter_le _ _)

theorem both_le_left' (a b : List α) : both a b ≤ a.length :=
  sumMin_le_left _ a b (List.Pairwise.filter _ (nodup_dedup a))

theorem both_le_right' (a b : List α) : both a b ≤ b.length := by
  rw [both_comm']; exact both_le_left' b a

theorem both_self' (a : List α) : both a a = a.length := by
  rw [both_eq_sumMin a a (nodup_dedup a) (fun t h _ => mem_dedup.2 h)]
  unfold sumMin
  simp only [Nat.min_self]
  rw [sum_count a (nodup_dedup a)]
  congr 1
  apply List.filter_eq_self.2
  intro t ht
  simp [mem_dedup, ht]



/-! ### the recursive definition of the multiset intersection -/

/-- size of the multiset intersection, by crossing off matched members -/
def inter : List α → List α → Nat
  | [], _ => 0
  | x :: xs, b => if x ∈ b then inter xs (b.erase x) + 1 else inter xs b

omit [DecidableEq α] in
theorem sum_map_add (K : List α) (f g : α → Nat) :
    (K.map (fun t => f t + g t)).sum = (K.map f).sum + (K.map g).sum := by
  induction K with
  | nil => rfl
  | cons k K ih => simp only [List.map_cons, List.sum_cons, ih]; omega

theorem sum_indicator (K : List α) (x : α) :
    (K.map (fun t => if t = x then 1 else 0)).sum = K.count x := by
  induction K with
  | nil => rfl
  | cons k K ih =>
    simp only [List.map_cons, List.sum_cons, ih, List.count_cons, beq_iff_eq]
    omega

theorem count_eq_one_of_mem_nodup {K : List α} {x : α} (hK : K.Nodup) (hx : x ∈ K) : K.count x = 1 := by
  have h1 := List.nodup_iff_count.1 hK x
  have h2 : 0 < K.count x := List.count_pos_iff.2 hx
  omega

theorem sumMin_nil_left (K b : List α) : sumMin K [] b = 0 := by
  unfold sumMin
  induction K with
  | nil => rfl
  | cons k K ih => simpa using ih

theorem inter_eq_sumMin (a : List α) : ∀ (b : List α) {K : List α}, K.Nodup → (∀ t ∈ a, t ∈ K) →
    inter a b = sumMin K a b := by
  induction a with
  | nil => intro b K _ _; simp [inter, sumMin_nil_left]
  | cons x xs ih =>
    intro b K hK hmem
    have hxK : x ∈ K := hmem x List.mem_cons_self
    have hxs : ∀ t ∈ xs, t ∈ K := fun t ht => hmem t (List.mem_cons_of_mem _ ht)
    unfold inter
    by_cases hxb : x ∈ b
    · rw [if_pos hxb, ih (b.erase x) hK hxs]
      have hterm : ∀ t, min ((x :: xs).count t) (b.count t)
          = min (xs.count t) ((b.erase x).count t) + (if t = x then 1 else 0) := by
        intro t
        by_cases htx : t = x
        · subst htx
          have : 0 < b.count t := List.count_pos_iff.2 hxb
          simp; omega
        · have htx' : ¬ x = t := fun h => htx h.symm
          simp [htx, htx']
      unfold sumMin
      rw [List.map_congr_left (fun t _ => hterm t), sum_map_add, sum_indicator,
        count_eq_one_of_mem_nodup hK hxK]
    · rw [if_neg hxb, ih b hK hxs]
      unfold sumMin
      congr 1
      apply List.map_congr_left
      intro t _
      by_cases htx : t = x
      · subst htx
        simp [List.count_eq_zero.2 hxb]
      · have htx' : ¬ x = t := fun h => htx h.symm
        simp [htx']

/-- the `Counter` formula of `edm._count` computes the size of the multiset intersection -/
theorem both_eq_inter' (a b : List α) : both a b = inter a b := by
  rw [inter_eq_sumMin a b (nodup_dedup a) (fun t ht => mem_dedup.2 ht)]
  exact both_eq_sumMin a b (nodup_dedup a) (fun t h _ => mem_dedup.2 h)



/-! ### specification side: categories, counted pairs, sums -/

inductive Cat where
  | name | argument | property | constant | top
deriving DecidableEq, Repr

/-- the top of a structure as a list of at most one triple keyed by the top node's span -/
def topTriples (s : Sig) : List Triple :=
  match s.top with
  | none => []
  | some sp => [(sp, [], Val.none)]

/-- the triples of one category -/
def Sig.triples (s : Sig) : Cat → List Triple
  | .name => s.names
  | .argument => s.args
  | .property => s.props
  | .constant => s.consts
  | .top => topTriples s

def Weights.get (w : Weights) : Cat → Rat
  | .name => w.name
  | .argument => w.argument
  | .property => w.property
  | .constant => w.constant
  | .top => w.top

def Match.get (m : Match) : Cat → Count
  | .name => m.name
  | .argument => m.argument
  | .property => m.property
  | .constant => m.constant
  | .top => m.top

/-- "a missing member of a pair counted as empty or skipped as requested": the pairs that are
counted, the missing side replaced by the structure without triples. -/
def counted (ig it : Bool) : List (Option Sig × Option Sig) → List (Sig × Sig)
  | [] => []
  | (none, none) :: r => counted ig it r
  | (none, some t) :: r => if ig then counted ig it r else (Sig.empty, t) :: counted ig it r
  | (some g, none) :: r => if it then counted ig it r else (g, Sig.empty) :: counted ig it r
  | (some g, some t) :: r => (g, t) :: counted ig it r

def sumOver (ps : List (Sig × Sig)) (f : Sig → Sig → Nat) : Nat := (ps.map (fun p => f p.1 p.2)).sum

/-- `Σ_c w_c · f c` over the five categories -/
def wsum (w : Weights) (f : Cat → Nat) : Rat :=
  (f .name : Rat) * w.get .name + (f .argument : Rat) * w.get .argument
    + (f .property : Rat) * w.get .property + (f .constant : Rat) * w.get .constant
    + (f .top : Rat) * w.get .top

theorem total_eq_wsum (w : Weights) (m : Match) (sel : Count → Nat) :
    total w m sel = wsum w (fun c => sel (m.get c)) := rfl

/-! ### `_match` per category -/

theorem topCount_eq (g t : Sig) : topCount g.top t.top = countTriples (topTriples g) (topTriples t) := by
  unfold topCount countTriples topTriples
  cases hg : g.top <;> cases ht : t.top
  · simp [both, dedup]
  · simp [both, dedup]
  · simp [both, dedup]
  · rename_i a b
    by_cases hab : a = b
    · subst hab; simp [both, dedup]
    ·       simp [both, dedup, hab]

theorem matchSig_get (g t : Sig) (c : Cat) :
    (matchSig g t).get c = countTriples (g.triples c) (t.triples c) := by
  cases c <;> simp [matchSig, Match.get, Sig.triples, topCount_eq]

/-! ### the accumulation loop -/

theorem Count.add_assoc (a b c : Count) : (a.add b).add c = a.add (b.add c) := by
  simp [Count.add, Nat.add_assoc]

theorem Match.add_assoc (a b c : Match) : (a.add b).add c = a.add (b.add c) := by
  simp [Match.add, Count.add_assoc]

theorem Match.add_zero (a : Match) : a.add Match.zero = a := by
  simp [Match.add, Match.zero, Count.add, Count.zero]

theorem Match.zero_add (a : Match) : Match.zero.add a = a := by
  simp [Match.add, Match.zero, Count.add, Count.zero]

/-- the totals the definition asks for -/
def specM : List (Sig × Sig) → Match
  | [] => Match.zero
  | (g, t) :: r => (matchSig g t).add (specM r)

theorem zipLongest_map {α β α' β' : Type} (f : α → α') (h : β → β') (gs : List (Option α)) :
    ∀ ts : List (Option β),
    zipLongest (gs.map (·.map f)) (ts.map (·.map h)) = (zipLongest gs ts).map (fun p => (p.1.map f, p.2.map h)) := by
  induction gs with
  | nil =>
    intro ts
    induction ts with
    | nil => simp [zipLongest]
    | cons t ts ih => simp only [List.map_nil, List.map_cons, zipLongest] at ih ⊢; rw [ih]; simp
  | cons g gs ih =>
    intro ts
    cases ts with
    | nil =>
      have := ih []
      simp only [List.map_nil, List.map_cons, zipLongest] at this ⊢
      rw [this]; simp
    | cons t ts =>
      have := ih ts
      simp only [List.map_cons, zipLongest] at this ⊢
      rw [this]

def liftPair (p : Option Sig × Option Sig) : Option Item × Option Item :=
  (p.1.map Except.ok, p.2.map Except.ok)

theorem accLoop_ok (ig it : Bool) (ps : List (Option Sig × Option Sig)) :
    ∀ tot : Match, accLoop ig it tot (ps.map liftPair) = .ok (tot.add (specM (counted ig it ps))) := by
  induction ps with
  | nil => intro tot; simp [accLoop, counted, specM, Match.add_zero]
  | cons p ps ih =>
    intro tot
    obtain ⟨g, t⟩ := p
    cases g <;> cases t <;> cases ig <;> cases it <;>
      simp [accLoop, liftPair, pairMatch, counted, specM, ih, Match.add_assoc]

theorem accumulate_ok (ig it : Bool) (gs ts : List (Option Sig)) :
    accumulate ig it (gs.map (·.map Except.ok)) (ts.map (·.map Except.ok))
      = .ok (specM (counted ig it (zipLongest gs ts))) := by
  unfold accumulate
  rw [zipLongest_map]
  have := accLoop_ok ig it (zipLongest gs ts) Match.zero
  rw [Match.zero_add] at this
  exact this

theorem specM_get (ps : List (Sig × Sig)) (c : Cat) :
    (specM ps).get c = ⟨sumOver ps (fun g _ => (g.triples c).length),
                         sumOver ps (fun _ t => (t.triples c).length),
                         sumOver ps (fun g t => inter (g.triples c) (t.triples c))⟩ := by
  induction ps with
  | nil => cases c <;> rfl
  | cons p ps ih =>
    obtain ⟨g, t⟩ := p
    have hadd : ∀ (a b : Match), (a.add b).get c = (a.get c).add (b.get c) := by
      intro a b; cases c <;> rfl
    rw [specM, hadd, ih, matchSig_get]
    simp [Count.add, countTriples, sumOver, both_eq_inter']



/-! ### rational arithmetic of `_prf` -/

theorem rat_div_pos {a b : Rat} (ha : 0 < a) (hb : 0 < b) : 0 < a / b := by
  rw [Rat.div_def]; exact Rat.mul_pos ha (Rat.inv_pos.2 hb)

theorem rat_div_le_one {a b : Rat} (hab : a ≤ b) (hb : 0 < b) : a / b ≤ 1 := by
  apply Rat.le_of_mul_le_mul_right (c := b) _ hb
  rw [Rat.div_mul_cancel (Rat.ne_of_gt hb), Rat.one_mul]; exact hab

theorem rat_div_self {a : Rat} (ha : a ≠ 0) : a / a = 1 := by
  rw [Rat.div_def]; exact Rat.mul_inv_cancel a ha

def Score.swap (s : Score) : Score := ⟨s.recall, s.precision, s.fscore⟩

def Score.InUnit (s : Score) : Prop :=
  0 ≤ s.precision ∧ s.precision ≤ 1 ∧ 0 ≤ s.recall ∧ s.recall ≤ 1 ∧ 0 ≤ s.fscore ∧ s.fscore ≤ 1

theorem prf_unit {g t b : Rat} (hb : 0 ≤ b) (hbg : b ≤ g) (hbt : b ≤ t) :
    ∃ s, prf g t b = .ok s ∧ s.InUnit := by
  unfold prf
  by_cases hz : t = 0 ∨ g = 0 ∨ b = 0
  · rw [if_pos hz]
    exact ⟨⟨0, 0, 0⟩, rfl, by simp [Score.InUnit]; decide⟩
  · rw [if_neg hz]
    have hb0 : b ≠ 0 := fun h => hz (Or.inr (Or.inr h))
    have hbpos : 0 < b := Rat.lt_of_le_of_ne hb (Ne.symm hb0)
    have htpos : 0 < t := by grind
    have hgpos : 0 < g := by grind
    have hp0 : 0 < b / t := rat_div_pos hbpos htpos
    have hr0 : 0 < b / g := rat_div_pos hbpos hgpos
    have hp1 : b / t ≤ 1 := rat_div_le_one hbt htpos
    have hr1 : b / g ≤ 1 := rat_div_le_one hbg hgpos
    have hsum : 0 < b / t + b / g := by grind
    have hne : b / t + b / g ≠ 0 := Rat.ne_of_gt hsum
    simp only [hne, if_false]
    refine ⟨_, rfl, ?_⟩
    have hpr0 : 0 ≤ b / t * (b / g) := Rat.mul_nonneg (Rat.le_of_lt hp0) (Rat.le_of_lt hr0)
    have h1 : b / t * (b / g) ≤ b / t := by
      have := Rat.mul_le_mul_of_nonneg_left hr1 (Rat.le_of_lt hp0)
      rwa [Rat.mul_one] at this
    have h2 : b / t * (b / g) ≤ b / g := by
      have := Rat.mul_le_mul_of_nonneg_right hp1 (Rat.le_of_lt hr0)
      rwa [Rat.one_mul] at this
    have hnum0 : 0 ≤ 2 * (b / t * (b / g)) := Rat.mul_nonneg (by decide) hpr0
    have hnum1 : 2 * (b / t * (b / g)) ≤ b / t + b / g := by grind
    refine ⟨Rat.le_of_lt hp0, hp1, Rat.le_of_lt hr0, hr1, ?_, ?_⟩
    · show 0 ≤ 2 * (b / t * (b / g)) / (b / t + b / g)
      rw [Rat.div_def]; exact Rat.mul_nonneg hnum0 (Rat.le_of_lt (Rat.inv_pos.2 hsum))
    · exact rat_div_le_one hnum1 hsum

theorem prf_self {g : Rat} (hg : 0 < g) : prf g g g = .ok ⟨1, 1, 1⟩ := by
  have hne : g ≠ 0 := Rat.ne_of_gt hg
  unfold prf
  have hz : ¬ (g = 0 ∨ g = 0 ∨ g = 0) := by simp [hne]
  rw [if_neg hz]
  simp only [rat_div_self hne]
  have h2 : (1 : Rat) + 1 ≠ 0 := by grind
  simp only [h2, if_false]
  have : (2 : Rat) * (1 * 1) / (1 + 1) = 1 := by grind
  rw [this]

theorem prf_swap (g t b : Rat) : prf t g b = (prf g t b).map Score.swap := by
  unfold prf
  by_cases hz : t = 0 ∨ g = 0 ∨ b = 0
  · have hz' : g = 0 ∨ t = 0 ∨ b = 0 := by
      rcases hz with h | h | h
      · exact Or.inr (Or.inl h)
      · exact Or.inl h
      · exact Or.inr (Or.inr h)
    rw [if_pos hz, if_pos hz']; rfl
  · have hz' : ¬ (g = 0 ∨ t = 0 ∨ b = 0) := by
      intro h; apply hz
      rcases h with h | h | h
      · exact Or.inr (Or.inl h)
      · exact Or.inl h
      · exact Or.inr (Or.inr h)
    rw [if_neg hz, if_neg hz']
    simp only [Rat.add_comm (b / g) (b / t), Rat.mul_comm (b / g) (b / t)]
    by_cases hs : b / t + b / g = 0
    · simp [hs, Except.map]
    · simp [hs, Except.map, Score.swap]



/-! ### invariants of the accumulation loop -/

def Count.Bounded (c : Count) : Prop := c.both ≤ c.gold ∧ c.both ≤ c.test
def Match.Bounded (m : Match) : Prop := ∀ c, (m.get c).Bounded

/-- gold, test and matched counts coincide (what identical inputs produce) -/
def Count.Diag (c : Count) : Prop := c.gold = c.both ∧ c.test = c.both
def Match.Diag (m : Match) : Prop := ∀ c, (m.get c).Diag

theorem Match.get_add (a b : Match) (c : Cat) : (a.add b).get c = (a.get c).add (b.get c) := by
  cases c <;> rfl

theorem Match.zero_get (c : Cat) : Match.zero.get c = Count.zero := by cases c <;> rfl

theorem matchSig_bounded (g t : Sig) : (matchSig g t).Bounded := by
  intro c
  rw [matchSig_get]
  exact ⟨both_le_left' _ _, both_le_right' _ _⟩

theorem matchSig_diag (g : Sig) : (matchSig g g).Diag := by
  intro c
  rw [matchSig_get]
  simp [Count.Diag, countTriples, both_self']

theorem Match.Bounded.add {a b : Match} (ha : a.Bounded) (hb : b.Bounded) : (a.add b).Bounded := by
  intro c
  have h1 := ha c; have h2 := hb c
  rw [Match.get_add]
  simp only [Count.Bounded, Count.add] at *
  omega

theorem Match.Diag.add {a b : Match} (ha : a.Diag) (hb : b.Diag) : (a.add b).Diag := by
  intro c
  have h1 := ha c; have h2 := hb c
  rw [Match.get_add]
  simp only [Count.Diag, Count.add] at *
  omega

theorem Match.zero_bounded : Match.zero.Bounded := by
  intro c; rw [Match.zero_get]; simp [Count.Bounded, Count.zero]

theorem Match.zero_diag : Match.zero.Diag := by
  intro c; rw [Match.zero_get]; simp [Count.Diag, Count.zero]

theorem pairMatch_bounded {ig it : Bool} {g t : Option Item} {m : Match}
    (h : pairMatch ig it g t = .ok (some m)) : m.Bounded := by
  cases g with
  | none =>
    cases t with
    | none => simp [pairMatch] at h
    | some t =>
      cases t with
      | error e => cases ig <;> simp [pairMatch] at h
      | ok t => cases ig <;> simp [pairMatch] at h; subst h; exact matchSig_bounded _ _
  | some g =>
    cases t with
    | none =>
      cases g with
      | error e => cases it <;> simp [pairMatch] at h
      | ok g => cases it <;> simp [pairMatch] at h; subst h; exact matchSig_bounded _ _
    | some t =>
      cases g <;> cases t <;> simp [pairMatch] at h
      subst h; exact matchSig_bounded _ _

theorem accLoop_bounded (ig it : Bool) (ps : List (Option Item × Option Item)) :
    ∀ (tot m : Match), tot.Bounded → accLoop ig it tot ps = .ok m → m.Bounded := by
  induction ps with
  | nil => intro tot m htot h; simp [accLoop] at h; subst h; exact htot
  | cons p ps ih =>
    intro tot m htot h
    obtain ⟨g, t⟩ := p
    unfold accLoop at h
    cases hp : pairMatch ig it g t with
    | error e => simp [hp] at h
    | ok r =>
      cases r with
      | none => simp [hp] at h; exact ih tot m htot h
      | some m' => simp [hp] at h; exact ih _ m (htot.add (pairMatch_bounded hp)) h

theorem accumulate_bounded {ig it : Bool} {gs ts : List (Option Item)} {m : Match}
    (h : accumulate ig it gs ts = .ok m) : m.Bounded :=
  accLoop_bounded ig it _ _ m Match.zero_bounded h

/-! ### weighted totals -/

def Weights.Nonneg (w : Weights) : Prop := ∀ c, 0 ≤ w.get c

theorem term_le {a b : Nat} {x : Rat} (hab : a ≤ b) (hx : 0 ≤ x) : (a : Rat) * x ≤ (b : Rat) * x :=
  Rat.mul_le_mul_of_nonneg_right (Rat.natCast_le_natCast.2 hab) hx

theorem term_nonneg (a : Nat) {x : Rat} (hx : 0 ≤ x) : 0 ≤ (a : Rat) * x :=
  Rat.mul_nonneg Rat.natCast_nonneg hx

theorem wsum_le {w : Weights} (hw : w.Nonneg) {f h : Cat → Nat} (hfh : ∀ c, f c ≤ h c) :
    wsum w f ≤ wsum w h := by
  unfold wsum
  have h1 := term_le (hfh .name) (hw .name)
  have h2 := term_le (hfh .argument) (hw .argument)
  have h3 := term_le (hfh .property) (hw .property)
  have h4 := term_le (hfh .constant) (hw .constant)
  have h5 := term_le (hfh .top) (hw .top)
  grind

theorem wsum_nonneg {w : Weights} (hw : w.Nonneg) (f : Cat → Nat) : 0 ≤ wsum w f := by
  unfold wsum
  have h1 := term_nonneg (f .name) (hw .name)
  have h2 := term_nonneg (f .argument) (hw .argument)
  have h3 := term_nonneg (f .property) (hw .property)
  have h4 := term_nonneg (f .constant) (hw .constant)
  have h5 := term_nonneg (f .top) (hw .top)
  grind

theorem scoreOf_unit {w : Weights} (hw : w.Nonneg) {m : Match} (hm : m.Bounded) :
    ∃ s, scoreOf w m = .ok s ∧ s.InUnit := by
  unfold scoreOf
  rw [total_eq_wsum, total_eq_wsum, total_eq_wsum]
  exact prf_unit (wsum_nonneg hw _) (wsum_le hw (fun c => (hm c).1)) (wsum_le hw (fun c => (hm c).2))

theorem scoreOf_diag {w : Weights} {m : Match} (hm : m.Diag) (hpos : 0 < total w m (·.gold)) :
    scoreOf w m = .ok ⟨1, 1, 1⟩ := by
  unfold scoreOf
  have h1 : total w m (·.test) = total w m (·.gold) := by
    rw [total_eq_wsum, total_eq_wsum]; unfold wsum
    simp only [(hm .name).1, (hm .name).2, (hm .argument).1, (hm .argument).2, (hm .property).1,
      (hm .property).2, (hm .constant).1, (hm .constant).2, (hm .top).1, (hm .top).2]
  have h2 : total w m (·.both) = total w m (·.gold) := by
    rw [total_eq_wsum, total_eq_wsum]; unfold wsum
    simp only [(hm .name).1, (hm .argument).1, (hm .property).1, (hm .constant).1, (hm .top).1]
  rw [h1, h2]
  exact prf_self hpos



/-! ### exchanging gold and test -/

def Count.swap (c : Count) : Count := ⟨c.test, c.gold, c.both⟩
def Match.swap (m : Match) : Match :=
  ⟨m.name.swap, m.argument.swap, m.property.swap, m.constant.swap, m.top.swap⟩

theorem topCount_swap (a b : Option Span) : topCount b a = (topCount a b).swap := by
  cases a <;> cases b <;> simp [topCount, Count.swap]
  rename_i x y
  by_cases h : x = y
  · subst h; simp
  · have : ¬ y = x := fun h' => h h'.symm
    simp [h, this]

theorem matchSig_swap (g t : Sig) : matchSig t g = (matchSig g t).swap := by
  simp [matchSig, Match.swap, countTriples, Count.swap, both_comm' t.names, both_comm' t.args,
    both_comm' t.props, both_comm' t.consts, topCount_swap g.top t.top]

theorem Match.swap_add (a b : Match) : (a.add b).swap = a.swap.add b.swap := rfl

theorem Match.swap_zero : Match.zero.swap = Match.zero := rfl

theorem pairMatch_swap {ig it : Bool} {g t : Option Item} {r : Option Match}
    (h : pairMatch ig it g t = .ok r) : pairMatch it ig t g = .ok (r.map Match.swap) := by
  cases g with
  | none =>
    cases t with
    | none => simp [pairMatch] at h; subst h; rfl
    | some t =>
      cases t with
      | error e => cases ig <;> simp [pairMatch] at h; subst h; simp [pairMatch]
      | ok t =>
        cases ig <;> simp [pairMatch] at h <;> subst h
        · simp only [pairMatch, Option.map]; rw [matchSig_swap Sig.empty t]; rfl
        · simp [pairMatch]
  | some g =>
    cases t with
    | none =>
      cases g with
      | error e => cases it <;> simp [pairMatch] at h; subst h; simp [pairMatch]
      | ok g =>
        cases it <;> simp [pairMatch] at h <;> subst h
        · simp only [pairMatch, Option.map]; rw [matchSig_swap g Sig.empty]; rfl
        · simp [pairMatch]
    | some t =>
      cases g with
      | error e => cases t <;> simp [pairMatch] at h
      | ok g =>
        cases t with
        | error e => simp [pairMatch] at h
        | ok t =>
          simp [pairMatch] at h; subst h
          simp only [pairMatch, Option.map]; rw [matchSig_swap g t]

def swapPair {α β : Type} (p : α × β) : β × α := (p.2, p.1)

theorem accLoop_swap (ig it : Bool) (ps : List (Option Item × Option Item)) :
    ∀ (tot m : Match), accLoop ig it tot ps = .ok m →
      accLoop it ig tot.swap (ps.map swapPair) = .ok m.swap := by
  induction ps with
  | nil => intro tot m h; simp [accLoop] at h; subst h; simp [accLoop]
  | cons p ps ih =>
    intro tot m h
    obtain ⟨g, t⟩ := p
    simp only [List.map_cons, swapPair]
    unfold accLoop at h ⊢
    cases hp : pairMatch ig it g t with
    | error e => simp [hp] at h
    | ok r =>
      rw [pairMatch_swap hp]
      cases r with
      | none => simp [hp] at h; simpa using ih tot m h
      | some m' =>
        simp [hp] at h
        have := ih _ m h
        rw [Match.swap_add] at this
        simpa using this

theorem zipLongest_swap {α β : Type} (gs : List (Option α)) :
    ∀ ts : List (Option β), zipLongest ts gs = (zipLongest gs ts).map swapPair := by
  induction gs with
  | nil =>
    intro ts
    induction ts with
    | nil => simp [zipLongest]
    | cons t ts ih => simp only [zipLongest, List.map_cons, swapPair]; rw [ih]
  | cons g gs ih =>
    intro ts
    cases ts with
    | nil => simp only [zipLongest, List.map_cons, swapPair]; rw [ih []]
    | cons t ts => simp only [zipLongest, List.map_cons, swapPair]; rw [ih ts]

theorem accumulate_swap {ig it : Bool} {gs ts : List (Option Item)} {m : Match}
    (h : accumulate ig it gs ts = .ok m) : accumulate it ig ts gs = .ok m.swap := by
  unfold accumulate at h ⊢
  rw [zipLongest_swap gs ts]
  have := accLoop_swap ig it (zipLongest gs ts) Match.zero m h
  rwa [Match.swap_zero] at this

theorem scoreOf_swap (w : Weights) (m : Match) : scoreOf w m.swap = (scoreOf w m).map Score.swap := by
  unfold scoreOf
  have h1 : total w m.swap (·.gold) = total w m (·.test) := rfl
  have h2 : total w m.swap (·.test) = total w m (·.gold) := rfl
  have h3 : total w m.swap (·.both) = total w m (·.both) := rfl
  rw [h1, h2, h3]
  exact prf_swap _ _ _

theorem computeS_swap {w : Weights} {ig it : Bool} {gs ts : List (Option Item)} {s : Score}
    (h : computeS w ig it gs ts = .ok s) : computeS w it ig ts gs = .ok s.swap := by
  unfold computeS at h ⊢
  cases hm : accumulate ig it gs ts with
  | error e => simp [hm] at h
  | ok m =>
    rw [accumulate_swap hm]
    simp only [hm] at h
    show scoreOf w m.swap = .ok s.swap
    rw [scoreOf_swap, h]; rfl

/-! ### identical lists -/

theorem zipLongest_self {α : Type} (xs : List (Option α)) : zipLongest xs xs = xs.map (fun x => (x, x)) := by
  induction xs with
  | nil => simp [zipLongest]
  | cons x xs ih => simp only [zipLongest, List.map_cons]; rw [ih]

theorem pairMatch_self_diag {ig it : Bool} {x : Option Item} {m : Match}
    (h : pairMatch ig it x x = .ok (some m)) : m.Diag := by
  cases x with
  | none => simp [pairMatch] at h
  | some x =>
    cases x with
    | error e => simp [pairMatch] at h
    | ok s => simp [pairMatch] at h; subst h; exact matchSig_diag s

theorem accLoop_self_diag (ig it : Bool) (xs : List (Option Item)) :
    ∀ (tot m : Match), tot.Diag → accLoop ig it tot (xs.map (fun x => (x, x))) = .ok m → m.Diag := by
  induction xs with
  | nil => intro tot m htot h; simp [accLoop] at h; subst h; exact htot
  | cons x xs ih =>
    intro tot m htot h
    simp only [List.map_cons] at h
    unfold accLoop at h
    cases hp : pairMatch ig it x x with
    | error e => simp [hp] at h
    | ok r =>
      cases r with
      | none => simp [hp] at h; exact ih tot m htot h
      | some m' => simp [hp] at h; exact ih _ m (htot.add (pairMatch_self_diag hp)) h

theorem accumulate_self_diag {ig it : Bool} {xs : List (Option Item)} {m : Match}
    (h : accumulate ig it xs xs = .ok m) : m.Diag := by
  unfold accumulate at h
  rw [zipLongest_self] at h
  exact accLoop_self_diag ig it xs _ m Match.zero_diag h



/-! ### renaming node identifiers -/
section rename
variable {ι κ : Type} [DecidableEq ι] [DecidableEq κ]

def Node.rename (f : ι → κ) (n : Node ι) : Node κ :=
  { id := f n.id, pred := n.pred, lnk := n.lnk, props := n.props, carg := n.carg,
    edges := n.edges.map (fun e => (e.1, f e.2)) }

def Link.rename (f : ι → κ) (l : Link ι) : Link κ := ⟨f l.start, f l.target, l.role⟩

/-- the same structure with every node identifier `i` replaced by `f i` -/
def Graph.rename (f : ι → κ) (g : Graph ι) : Graph κ :=
  { kind := g.kind, top := g.top.map f, nodes := g.nodes.map (Node.rename f),
    links := g.links.map (Link.rename f) }

omit [DecidableEq ι] [DecidableEq κ] in
@[simp] theorem Node.rename_span (f : ι → κ) (n : Node ι) : (n.rename f).span = n.span := rfl

theorem lookup_rename {f : ι → κ} (hf : Function.Injective f) (ns : List (Node ι)) (i : ι) :
    lookup (ns.map (Node.rename f)) (f i) = (lookup ns i).map (Node.rename f) := by
  induction ns with
  | nil => rfl
  | cons n ns ih =>
    simp only [List.map_cons, lookup, ih]
    cases lookup ns i with
    | some m => rfl
    | none =>
      simp only [Option.map_none]
      have hid : (Node.rename f n).id = f n.id := rfl
      by_cases h : n.id = i
      · rw [if_pos (by rw [hid, h]), if_pos h]; rfl
      · have : ¬ f n.id = f i := fun h' => h (hf h')
        rw [if_neg (by rw [hid]; exact this), if_neg h]; rfl

theorem argsOf_rename {f : ι → κ} (hf : Function.Injective f) (g : Graph ι) (n : Node ι) :
    argsOf (g.rename f) (n.rename f) = (argsOf g n).map (fun e => (e.1, f e.2)) := by
  unfold argsOf
  cases hk : g.kind with
  | eds =>
    have : (g.rename f).kind = .eds := hk
    simp only [this]
    show (match lookup (g.nodes.map (Node.rename f)) (f n.id) with
      | some m => m.edges | none => []) = _
    rw [lookup_rename hf]
    cases lookup g.nodes n.id <;> simp [Node.rename]
  | dmrs =>
    have : (g.rename f).kind = .dmrs := hk
    simp only [this]
    show (((g.links.map (Link.rename f)).filter _).map _) = _
    rw [List.filter_map, List.map_map, List.map_map]
    have hp : ((fun l : Link κ => decide (l.role ≠ modRole) && decide (l.start = (n.rename f).id)) ∘ Link.rename f)
        = (fun l : Link ι => decide (l.role ≠ modRole) && decide (l.start = n.id)) := by
      funext l
      simp only [Function.comp, Link.rename, Node.rename]
      congr 1
      by_cases h : l.start = n.id
      · simp [h]
      · have : ¬ f l.start = f n.id := fun h' => h (hf h')
        simp [h, this]
    rw [hp]
    rfl

theorem arguments_rename {f : ι → κ} (hf : Function.Injective f) (g : Graph ι) :
    arguments (g.rename f) = arguments g := by
  unfold arguments
  show (g.nodes.map (Node.rename f)).flatMap _ = _
  rw [List.flatMap_map]
  congr 1
  funext n
  rw [argsOf_rename hf, List.filterMap_map]
  congr 1
  funext rt
  show Option.map _ (lookup (g.nodes.map (Node.rename f)) (f rt.2)) = _
  rw [lookup_rename hf, Option.map_map]
  rfl

theorem argsOk_rename {f : ι → κ} (hf : Function.Injective f) (g : Graph ι) :
    argsOk (g.rename f) = argsOk g := by
  unfold argsOk
  cases hk : g.kind with
  | eds => have : (g.rename f).kind = .eds := hk; simp only [this]
  | dmrs =>
    have : (g.rename f).kind = .dmrs := hk
    simp only [this]
    show (g.links.map (Link.rename f)).all _ = _
    rw [List.all_map]
    congr 1
    funext l
    show (decide (l.role = modRole) || (lookup (g.nodes.map (Node.rename f)) (f l.start)).isSome) = _
    rw [lookup_rename hf]
    simp

theorem topSpan_rename {f : ι → κ} (hf : Function.Injective f) (g : Graph ι) :
    topSpan (g.rename f) = topSpan g := by
  unfold topSpan
  show (match g.top.map f with | none => none | some t => (lookup (g.nodes.map (Node.rename f)) t).map _) = _
  cases g.top with
  | none => rfl
  | some t =>
    simp only [Option.map_some]
    rw [lookup_rename hf, Option.map_map]
    rfl

theorem sig_rename' {f : ι → κ} (hf : Function.Injective f) (g : Graph ι) : sig (g.rename f) = sig g := by
  unfold sig
  rw [argsOk_rename hf, arguments_rename hf, topSpan_rename hf]
  have h1 : names (g.rename f) = names g := by
    unfold names; show (g.nodes.map (Node.rename f)).map _ = _; rw [List.map_map]; rfl
  have h2 : properties (g.rename f) = properties g := by
    unfold properties; show (g.nodes.map (Node.rename f)).flatMap _ = _; rw [List.flatMap_map]; rfl
  have h3 : constants (g.rename f) = constants g := by
    unfold constants; show (g.nodes.map (Node.rename f)).filterMap _ = _; rw [List.filterMap_map]; rfl
  rw [h1, h2, h3]

end rename


theorem term_pos {a : Nat} {x : Rat} (ha : 0 < a) (hx : 0 < x) : 0 < (a : Rat) * x :=
  Rat.mul_pos (Rat.natCast_pos.2 ha) hx

theorem wsum_pos {w : Weights} (hw : w.Nonneg) {f : Cat → Nat} (c : Cat) (hc : 0 < w.get c)
    (hf : 0 < f c) : 0 < wsum w f := by
  unfold wsum
  have h1 := term_nonneg (f .name) (hw .name)
  have h2 := term_nonneg (f .argument) (hw .argument)
  have h3 := term_nonneg (f .property) (hw .property)
  have h4 := term_nonneg (f .constant) (hw .constant)
  have h5 := term_nonneg (f .top) (hw .top)
  have hp := term_pos hf hc
  cases c <;> grind

section renamed
variable {ι κ : Type} [DecidableEq ι] [DecidableEq κ]

/-- the triples of a structure whose `arguments()` does not raise -/
def sigOf (g : Graph ι) : Sig :=
  { names := names g, args := arguments g, props := properties g, consts := constants g, top := topSpan g }

/-- `gs'` is `gs` with every present structure renamed by an injective map of its own -/
inductive Renamed : List (Option (Graph ι)) → List (Option (Graph κ)) → Prop
  | nil : Renamed [] []
  | none {gs gs'} : Renamed gs gs' → Renamed (none :: gs) (none :: gs')
  | some {gs gs'} (f : ι → κ) (hf : Function.Injective f) (g : Graph ι) :
      Renamed gs gs' → Renamed (some g :: gs) (some (g.rename f) :: gs')

theorem renamed_sig {gs : List (Option (Graph ι))} {gs' : List (Option (Graph κ))} (h : Renamed gs gs') :
    gs'.map (·.map sig) = gs.map (·.map sig) := by
  induction h with
  | nil => rfl
  | none _ ih => simp only [List.map_cons, ih]; rfl
  | some f hf g _ ih => simp only [List.map_cons, ih, Option.map_some, sig_rename' hf g]

end renamed


/-! ### reordering nodes (and links) -/
section reorder
variable {ι : Type} [DecidableEq ι]

theorem lookup_some {ns : List (Node ι)} {i : ι} {n : Node ι} (h : lookup ns i = some n) :
    n ∈ ns ∧ n.id = i := by
  induction ns with
  | nil => simp [lookup] at h
  | cons m ns ih =>
    unfold lookup at h
    cases hl : lookup ns i with
    | some x =>
      simp only [hl] at h
      cases h
      exact ⟨List.mem_cons_of_mem _ (ih hl).1, (ih hl).2⟩
    | none =>
      simp only [hl] at h
      by_cases hm : m.id = i
      · rw [if_pos hm] at h; cases h; exact ⟨List.mem_cons_self, hm⟩
      · rw [if_neg hm] at h; cases h

theorem lookup_isSome_of_mem {ns : List (Node ι)} {n : Node ι} (h : n ∈ ns) : (lookup ns n.id).isSome := by
  induction ns with
  | nil => cases h
  | cons m ns ih =>
    unfold lookup
    cases hl : lookup ns n.id with
    | some x => rfl
    | none =>
      rcases List.mem_cons.1 h with h | h
      · subst h; simp
      · have := ih h; rw [hl] at this; cases this

omit [DecidableEq ι] in
theorem eq_of_id_eq {ns : List (Node ι)} (hn : (ns.map (·.id)).Nodup) {a b : Node ι}
    (ha : a ∈ ns) (hb : b ∈ ns) (hab : a.id = b.id) : a = b := by
  induction ns with
  | nil => cases ha
  | cons m ns ih =>
    rw [List.map_cons, List.nodup_cons] at hn
    rcases List.mem_cons.1 ha with h1 | h1 <;> rcases List.mem_cons.1 hb with h2 | h2
    · rw [h1, h2]
    · exact absurd (by rw [← h1, hab]; exact List.mem_map_of_mem (f := (·.id)) h2) hn.1
    · exact absurd (by rw [← h2, ← hab]; exact List.mem_map_of_mem (f := (·.id)) h1) hn.1
    · exact ih hn.2 h1 h2

theorem lookup_perm {ns ns' : List (Node ι)} (hp : ns'.Perm ns) (hn : (ns.map (·.id)).Nodup) (i : ι) :
    lookup ns' i = lookup ns i := by
  cases h' : lookup ns' i with
  | some a =>
    have ha := lookup_some h'
    have ha' : a ∈ ns := hp.mem_iff.1 ha.1
    cases h : lookup ns i with
    | some b =>
      have hb := lookup_some h
      rw [eq_of_id_eq hn ha' hb.1 (ha.2.trans hb.2.symm)]
    | none =>
      have := lookup_isSome_of_mem ha'
      rw [ha.2, h] at this; cases this
  | none =>
    cases h : lookup ns i with
    | none => rfl
    | some b =>
      have hb := lookup_some h
      have := lookup_isSome_of_mem (hp.mem_iff.2 hb.1)
      rw [hb.2, h'] at this; cases this

theorem flatMap_perm_pointwise {α β : Type} (l : List α) (f g : α → List β)
    (h : ∀ x ∈ l, (f x).Perm (g x)) : (l.flatMap f).Perm (l.flatMap g) := by
  induction l with
  | nil => exact List.Perm.refl _
  | cons x xs ih =>
    simp only [List.flatMap_cons]
    exact List.Perm.append (h x List.mem_cons_self) (ih (fun y hy => h y (List.mem_cons_of_mem _ hy)))

/-- `g'` is `g` with its nodes (and links) listed in another order -/
structure Reordered (g g' : Graph ι) : Prop where
  kind : g'.kind = g.kind
  top : g'.top = g.top
  nodes : g'.nodes.Perm g.nodes
  links : g'.links.Perm g.links

/-- same triples up to order, same top span -/
structure SigPerm (s s' : Sig) : Prop where
  names : s'.names.Perm s.names
  args : s'.args.Perm s.args
  props : s'.props.Perm s.props
  consts : s'.consts.Perm s.consts
  top : s'.top = s.top

theorem argsOf_reorder {g g' : Graph ι} (h : Reordered g g') (hn : (g.nodes.map (·.id)).Nodup) (n : Node ι) :
    (argsOf g' n).Perm (argsOf g n) := by
  unfold argsOf
  rw [h.kind]
  cases g.kind with
  | eds => simp only; rw [lookup_perm h.nodes hn]
  | dmrs => simp only; exact (h.links.filter _).map _

theorem arguments_reorder {g g' : Graph ι} (h : Reordered g g') (hn : (g.nodes.map (·.id)).Nodup) :
    (arguments g').Perm (arguments g) := by
  unfold arguments
  have hl : lookup g'.nodes = lookup g.nodes := funext (lookup_perm h.nodes hn)
  rw [hl]
  refine List.Perm.trans (flatMap_perm_pointwise _ _ _ (fun n _ => ?_)) (h.nodes.flatMap_right _)
  exact (argsOf_reorder h hn n).filterMap _

theorem argsOk_reorder {g g' : Graph ι} (h : Reordered g g') (hn : (g.nodes.map (·.id)).Nodup) :
    argsOk g' = argsOk g := by
  unfold argsOk
  rw [h.kind]
  cases g.kind with
  | eds => rfl
  | dmrs =>
    simp only
    have hl : lookup g'.nodes = lookup g.nodes := funext (lookup_perm h.nodes hn)
    rw [hl, Bool.eq_iff_iff, List.all_eq_true, List.all_eq_true]
    exact ⟨fun H l hl' => H l (h.links.mem_iff.2 hl'), fun H l hl' => H l (h.links.mem_iff.1 hl')⟩

theorem sigOf_reorder {g g' : Graph ι} (h : Reordered g g') (hn : (g.nodes.map (·.id)).Nodup) :
    SigPerm (sigOf g) (sigOf g') where
  names := h.nodes.map _
  args := arguments_reorder h hn
  props := h.nodes.flatMap_right _
  consts := h.nodes.filterMap _
  top := by
    show topSpan g' = topSpan g
    unfold topSpan
    rw [h.top]
    cases g.top with
    | none => rfl
    | some t => simp only; rw [lookup_perm h.nodes hn]

theorem matchSig_congr {g g' t t' : Sig} (hg : SigPerm g g') (ht : SigPerm t t') :
    matchSig g' t' = matchSig g t := by
  unfold matchSig countTriples
  rw [hg.names.length_eq, ht.names.length_eq, both_perm' hg.names ht.names,
      hg.args.length_eq, ht.args.length_eq, both_perm' hg.args ht.args,
      hg.props.length_eq, ht.props.length_eq, both_perm' hg.props ht.props,
      hg.consts.length_eq, ht.consts.length_eq, both_perm' hg.consts ht.consts, hg.top, ht.top]

end reorder


/-! ### lifting "same triples up to order" through the accumulation loop -/

theorem SigPerm.refl (s : Sig) : SigPerm s s :=
  ⟨List.Perm.refl _, List.Perm.refl _, List.Perm.refl _, List.Perm.refl _, rfl⟩

/-- two members of the input lists with the same triples up to order (or both missing, or
both raising the same error) -/
inductive ItemRel : Option Item → Option Item → Prop
  | none : ItemRel none none
  | error (e : Err) : ItemRel (some (.error e)) (some (.error e))
  | ok {s s' : Sig} : SigPerm s s' → ItemRel (some (.ok s)) (some (.ok s'))

inductive ItemsRel : List (Option Item) → List (Option Item) → Prop
  | nil : ItemsRel [] []
  | cons {x x' xs xs'} : ItemRel x x' → ItemsRel xs xs' → ItemsRel (x :: xs) (x' :: xs')

theorem pairMatch_congr (ig it : Bool) {g g' t t' : Option Item} (hg : ItemRel g g') (ht : ItemRel t t') :
    pairMatch ig it g' t' = pairMatch ig it g t := by
  cases hg with
  | none =>
    cases ht with
    | none => rfl
    | error e => rfl
    | ok h => cases ig <;> simp [pairMatch, matchSig_congr (SigPerm.refl Sig.empty) h]
  | error e =>
    cases ht with
    | none => rfl
    | error e' => rfl
    | ok h => simp [pairMatch]
  | ok h =>
    cases ht with
    | none => cases it <;> simp [pairMatch, matchSig_congr h (SigPerm.refl Sig.empty)]
    | error e' => simp [pairMatch]
    | ok h' => simp [pairMatch, matchSig_congr h h']

theorem accLoop_congr_nil (ig it : Bool) {ts ts' : List (Option Item)} (ht : ItemsRel ts ts') :
    ∀ tot, accLoop ig it tot (zipLongest [] ts') = accLoop ig it tot (zipLongest [] ts) := by
  induction ht with
  | nil => intro tot; rfl
  | cons hx _ ih =>
    intro tot
    simp only [zipLongest, accLoop]
    rw [pairMatch_congr ig it ItemRel.none hx]
    split <;> simp [ih]

theorem accLoop_congr (ig it : Bool) {gs gs' : List (Option Item)} (hg : ItemsRel gs gs') :
    ∀ {ts ts' : List (Option Item)}, ItemsRel ts ts' →
      ∀ tot, accLoop ig it tot (zipLongest gs' ts') = accLoop ig it tot (zipLongest gs ts) := by
  induction hg with
  | nil => intro ts ts' ht; exact accLoop_congr_nil ig it ht
  | cons hx _ ih =>
    intro ts ts' ht tot
    cases ht with
    | nil =>
      simp only [zipLongest, accLoop]
      rw [pairMatch_congr ig it hx ItemRel.none]
      split <;> simp [ih ItemsRel.nil]
    | cons hy hys =>
      simp only [zipLongest, accLoop]
      rw [pairMatch_congr ig it hx hy]
      split <;> simp [ih hys]

theorem computeS_congr (w : Weights) (ig it : Bool) {gs gs' ts ts' : List (Option Item)}
    (hg : ItemsRel gs gs') (ht : ItemsRel ts ts') :
    computeS w ig it gs' ts' = computeS w ig it gs ts := by
  unfold computeS accumulate
  rw [accLoop_congr ig it hg ht]

section reorderedList
variable {ι : Type} [DecidableEq ι]

/-- position-wise: the same structures with nodes and links reordered (node ids distinct) -/
inductive ReorderedList : List (Option (Graph ι)) → List (Option (Graph ι)) → Prop
  | nil : ReorderedList [] []
  | none {gs gs'} : ReorderedList gs gs' → ReorderedList (none :: gs) (none :: gs')
  | some {gs gs'} (g g' : Graph ι) (hn : (g.nodes.map (·.id)).Nodup) (h : Reordered g g') :
      ReorderedList gs gs' → ReorderedList (some g :: gs) (some g' :: gs')

theorem reordered_items {gs gs' : List (Option (Graph ι))} (h : ReorderedList gs gs') :
    ItemsRel (gs.map (·.map sig)) (gs'.map (·.map sig)) := by
  induction h with
  | nil => exact ItemsRel.nil
  | none _ ih => exact ItemsRel.cons ItemRel.none ih
  | some g g' hn h _ ih =>
    refine ItemsRel.cons ?_ ih
    show ItemRel (some (sig g)) (some (sig g'))
    unfold sig
    rw [argsOk_reorder h hn]
    cases argsOk g with
    | true => exact ItemRel.ok (sigOf_reorder h hn)
    | false => exact ItemRel.error _

end reorderedList


/-! ### where an error of `compute` can come from -/

theorem pairMatch_error {ig it : Bool} {g t : Option Item} {e : Err}
    (h : pairMatch ig it g t = .error e) : g = some (.error e) ∨ t = some (.error e) := by
  cases g with
  | none =>
    cases t with
    | none => simp [pairMatch] at h
    | some t => cases t <;> cases ig <;> simp [pairMatch] at h; subst h; exact Or.inr rfl
  | some g =>
    cases t with
    | none => cases g <;> cases it <;> simp [pairMatch] at h; subst h; exact Or.inl rfl
    | some t =>
      cases g <;> cases t <;> simp [pairMatch] at h
      · subst h; exact Or.inl rfl
      · subst h; exact Or.inl rfl
      · subst h; exact Or.inr rfl

theorem accLoop_error (ig it : Bool) (ps : List (Option Item × Option Item)) {e : Err} :
    ∀ tot, accLoop ig it tot ps = .error e → ∃ p ∈ ps, p.1 = some (.error e) ∨ p.2 = some (.error e) := by
  induction ps with
  | nil => intro tot h; simp [accLoop] at h
  | cons p ps ih =>
    intro tot h
    obtain ⟨g, t⟩ := p
    unfold accLoop at h
    cases hp : pairMatch ig it g t with
    | error e' =>
      simp [hp] at h; subst h
      exact ⟨(g, t), List.mem_cons_self, pairMatch_error hp⟩
    | ok r =>
      cases r with
      | none =>
        simp [hp] at h
        obtain ⟨p, hp', hh⟩ := ih tot h
        exact ⟨p, List.mem_cons_of_mem _ hp', hh⟩
      | some m =>
        simp [hp] at h
        obtain ⟨p, hp', hh⟩ := ih _ h
        exact ⟨p, List.mem_cons_of_mem _ hp', hh⟩

theorem zipLongest_mem {α β : Type} (gs : List (Option α)) :
    ∀ (ts : List (Option β)) (p : Option α × Option β), p ∈ zipLongest gs ts →
      (p.1 = none ∨ p.1 ∈ gs) ∧ (p.2 = none ∨ p.2 ∈ ts) := by
  induction gs with
  | nil =>
    intro ts
    induction ts with
    | nil => intro p h; simp [zipLongest] at h
    | cons t ts ih =>
      intro p h
      simp only [zipLongest, List.mem_cons] at h
      rcases h with h | h
      · subst h; exact ⟨Or.inl rfl, Or.inr List.mem_cons_self⟩
      · have := ih p h
        exact ⟨this.1, this.2.imp id (List.mem_cons_of_mem _)⟩
  | cons g gs ih =>
    intro ts p h
    cases ts with
    | nil =>
      simp only [zipLongest, List.mem_cons] at h
      rcases h with h | h
      · subst h; exact ⟨Or.inr List.mem_cons_self, Or.inl rfl⟩
      · have := ih [] p h
        exact ⟨this.1.imp id (List.mem_cons_of_mem _), this.2⟩
    | cons t ts =>
      simp only [zipLongest, List.mem_cons] at h
      rcases h with h | h
      · subst h; exact ⟨Or.inr List.mem_cons_self, Or.inr List.mem_cons_self⟩
      · have := ih ts p h
        exact ⟨this.1.imp id (List.mem_cons_of_mem _), this.2.imp id (List.mem_cons_of_mem _)⟩

theorem sig_error {ι : Type} [DecidableEq ι] {g : Graph ι} {e : Err} (h : sig g = .error e) :
    e = .keyError ∧ argsOk g = false := by
  unfold sig at h
  cases ha : argsOk g with
  | true => simp [ha] at h
  | false => simp [ha] at h; exact ⟨h.symm, rfl⟩

theorem mem_map_sig_error {ι : Type} [DecidableEq ι] {gs : List (Option (Graph ι))} {e : Err}
    (h : some (Except.error e) ∈ gs.map (·.map sig)) :
    e = .keyError ∧ ∃ g, some g ∈ gs ∧ argsOk g = false := by
  obtain ⟨x, hx, hxe⟩ := List.mem_map.1 h
  cases x with
  | none => simp at hxe
  | some g =>
    simp only [Option.map_some, Option.some.injEq] at hxe
    exact ⟨(sig_error hxe).1, g, hx, (sig_error hxe).2⟩



/-! ### `_prf` as zero-safe ratios -/

theorem prf_ratios {g t b : Rat} {s : Score} (h : prf g t b = .ok s) :
    ((t = 0 ∨ g = 0 ∨ b = 0) → s = ⟨0, 0, 0⟩) ∧
    (t ≠ 0 → g ≠ 0 → b ≠ 0 →
      s.precision = b / t ∧ s.recall = b / g ∧
      s.fscore = 2 * (s.precision * s.recall) / (s.precision + s.recall)) := by
  unfold prf at h
  by_cases hz : t = 0 ∨ g = 0 ∨ b = 0
  · rw [if_pos hz] at h
    cases h
    exact ⟨fun _ => rfl, fun h1 h2 h3 => absurd hz (by simp [h1, h2, h3])⟩
  · rw [if_neg hz] at h
    refine ⟨fun h' => absurd h' hz, fun _ _ _ => ?_⟩
    by_cases hs : b / t + b / g = 0
    · simp [hs] at h
    · simp only [hs, if_false] at h
      cases h
      exact ⟨rfl, rfl, rfl⟩

/-! ### the DMRS constructor commutes with renamings that fix the top-link id 0 -/

theorem mkDmrs_rename' {f : Nat → Nat} (hf : Function.Injective f) (h0 : f 0 = 0)
    (top : Option Nat) (nodes : List (Node Nat)) (links : List (Link Nat)) :
    (mkDmrs top nodes links).rename f
      = mkDmrs (top.map f) (nodes.map (Node.rename f)) (links.map (Link.rename f)) := by
  have hz : ∀ l : Link Nat, ((Link.rename f l).start = 0) ↔ (l.start = 0) := by
    intro l
    show f l.start = 0 ↔ l.start = 0
    constructor
    · intro h; apply hf; rw [h, h0]
    · intro h; rw [h, h0]
  have hT : Verif.Tables.c18TopNodeId = 0 := rfl
  unfold mkDmrs Graph.rename
  simp only [hT]
  congr 1
  · cases top with
    | some t => rfl
    | none =>
      simp only [Option.map_none]
      rw [List.find?_map]
      have : ((fun l : Link Nat => decide (l.start = 0)) ∘ Link.rename f) = (fun l : Link Nat => decide (l.start = 0)) := by
        funext l; simp only [Function.comp]; exact decide_eq_decide.2 (hz l)
      rw [this, Option.map_map, Option.map_map]
      rfl
  · rw [List.filter_map]
    have : ((fun l : Link Nat => decide (l.start ≠ 0)) ∘ Link.rename f) = (fun l : Link Nat => decide (l.start ≠ 0)) := by
      funext l; simp only [Function.comp]; exact decide_eq_decide.2 (not_congr (hz l))
    rw [this]

/-! ### example structures (used by the `example`s of Props.lean) -/

def exN1 : Node Nat :=
  { id := 1, pred := ['_', 'a', '_', 'n'], lnk := .charspan 0 3, props := [(['N', 'U', 'M'], ['s', 'g'])],
    carg := some ['K', 'i', 'm'], edges := [(['A', 'R', 'G', '1'], 2)] }
def exN2 : Node Nat :=
  { id := 2, pred := ['_', 'b', '_', 'v'], lnk := .charspan 4 7, props := [], carg := none, edges := [] }
/-- gold: two nodes, one edge, one property, one constant, a top: 2+1+1+1+1 = 6 triples -/
def exG : Graph Nat := { kind := .eds, top := some 1, nodes := [exN1, exN2], links := [] }
/-- test: the same nodes in another order plus two more copies of the second one, other top: 8 triples, 5 shared -/
def exT : Graph Nat :=
  { kind := .eds, top := some 2, nodes := [exN2, exN1, { exN2 with id := 3 }, { exN2 with id := 4 }], links := [] }
/-- `exG` with its nodes listed in the other order -/
def exGr : Graph Nat := { kind := .eds, top := some 1, nodes := [exN2, exN1], links := [] }
/-- a DMRS with a link that starts at no node -/
def exD : Graph Nat :=
  mkDmrs (some 10000) [{ exN1 with id := 10000, edges := [] }] [⟨77, 10000, ['A', 'R', 'G', '1']⟩]
def exW : Weights := ⟨1, 1, 1, 1, 1⟩

theorem exW_nonneg : exW.Nonneg := by
  intro c; cases c <;> simp [exW, Weights.get] <;> decide


end Verif.C18
