/- C18 line-protocol driver: `lake env lean --run Verif/C18/Driver.lean` -/
import Verif.Common.Proto
import Verif.C18.Model
import Verif.C18.Api
import Verif.C18.Spec
open Lean Verif.Proto Verif.C18

namespace Verif.C18.Driver

def errTag : Err → String
  | .keyError => "KeyError"
  | .zeroDivision => "ZeroDivisionError"

def ofLnk (j : Json) : Except String Lnk :=
  match j with
  | Json.null => pure .unspecified
  | _ => do
    let a ← j.getArr?
    match a.toList with
    | [k, x, y] => do
      let k ← k.getStr?
      if k == "c" then pure (.charspan (← x.getInt?) (← y.getInt?)) else pure .other
    | _ => pure .other

def ofPair (j : Json) : Except String (Str × Str) := do
  match (← j.getArr?).toList with
  | [a, b] => pure (← ofCps a, ← ofCps b)
  | _ => throw "bad pair"

def ofEdge (j : Json) : Except String (Str × Nat) := do
  match (← j.getArr?).toList with
  | [a, b] => pure (← ofCps a, ← b.getNat?)
  | _ => throw "bad edge"

def ofNode (j : Json) : Except String (Node Nat) := do
  pure { id := ← getNat j "id",
         pred := ← getCps j "pred",
         lnk := ← ofLnk (← j.getObjVal? "lnk"),
         props := ← (← getArr j "props").mapM ofPair,
         carg := ← getOptCps j "carg",
         edges := ← (← getArr j "edges").mapM ofEdge }

def ofLink (j : Json) : Except String (Link Nat) := do
  match (← j.getArr?).toList with
  | [s, e, r, _] => pure { start := ← s.getNat?, target := ← e.getNat?, role := ← ofCps r }
  | _ => throw "bad link"

def optNat (j : Json) : Except String (Option Nat) :=
  match j with
  | Json.null => pure none
  | _ => do pure (some (← j.getNat?))

def ofGraph (j : Json) : Except String (Option (Graph Nat)) :=
  match j with
  | Json.null => pure none
  | _ => do
    let t ← getStr j "t"
    let top ← optNat (← j.getObjVal? "top")
    let nodes ← (← getArr j "nodes").mapM ofNode
    let links ← (← getArr j "links").mapM ofLink
    if t == "eds" then
      pure (some { kind := .eds, top := top, nodes := nodes, links := [] })
    else
      pure (some (mkDmrs top nodes links))

def ofRat (j : Json) : Except String Rat := do
  match (← j.getArr?).toList with
  | [n, d] => do
    let n ← n.getStr?
    let d ← d.getStr?
    match n.toInt?, d.toNat? with
    | some n, some d => if d = 0 then throw "zero denominator" else pure (mkRat n d)
    | _, _ => throw "bad rational"
  | _ => throw "bad rational"

def jRat (r : Rat) : Json := Json.arr #[Json.str (toString r.num), Json.str (toString r.den)]

def jCount (c : Count) : Json := jList jNat [c.gold, c.test, c.both]

def jMatch (m : Match) : Json := jList jCount [m.name, m.argument, m.property, m.constant, m.top]

def jOptMatch : Option Match → Json
  | none => Json.null
  | some m => jMatch m

def jScore : Except Err Score → Json
  | .ok s => jList jRat [s.precision, s.recall, s.fscore]
  | .error e => jErr (errTag e)

def ofIm (s : String) : Except String IgnoreMissing :=
  match s with
  | "gold" => pure .gold
  | "test" => pure .test
  | "both" => pure .both
  | "none" => pure .none
  | _ => throw s!"bad ignore-missing {s}"

def handle (j : Json) : Except String Json := do
  let op ← getStr j "op"
  match op with
  | "compute" => do
    let golds ← (← getArr j "golds").mapM ofGraph
    let tests ← (← getArr j "tests").mapM ofGraph
    let ws ← (← getArr j "w").mapM ofRat
    let ig ← getBool j "ig"
    let it ← getBool j "it"
    match ws with
    | [a, b, c, d, e] =>
      let w : Weights := ⟨a, b, c, d, e⟩
      let tot := match accumulateG ig it golds tests with
        | .ok m => jMatch m
        | .error e => jErr (errTag e)
      let sc := jScore (compute w ig it golds tests)
      -- the same call with the module logger enabled for INFO, and what the log lines show pair by pair
      let sci := jScore (computeI true w ig it golds tests)
      let (tr, te) := traceG ig it golds tests
      let trj := Json.mkObj [("pairs", jList jOptMatch tr),
                             ("err", match te with | none => Json.null | some e => Json.str (errTag e))]
      -- the sub-command: -N -A -P -C -T and --ignore-missing
      let cli ← match j.getObjVal? "im" with
        | .ok (Json.str im) => do
          let im ← ofIm im
          pure (jScore (cliCompute ⟨a, b, c, d, e, im⟩ golds tests))
        | _ => pure Json.null
      -- `_accumulate` on the declarative triple collections of Spec.lean (compared inside the input space)
      let spec := match accumulateSpec ig it golds tests with
        | .ok m => jMatch m
        | .error e => jErr (errTag e)
      pure (Json.mkObj [("totals", tot), ("score", sc), ("score_info", sci), ("trace", trj), ("cli", cli),
                        ("spec_totals", spec)])
    | _ => throw "need five weights"
  | _ => throw s!"bad op {op}"

end Verif.C18.Driver

def main : IO Unit := Verif.Proto.serve Verif.C18.Driver.handle
