/-
C18 — helper lemmas for PropsApi.lean: the logging branch cannot raise, the loop is the fold of its
per-pair trace, exactly which pairs make `_accumulate` raise.  Core Lean only.
-/
import Verif.C18.Api
import Verif.C18.Lemmas

namespace Verif.C18

/-! ### `_prf` on integer counts never raises -/

theorem natCast_pos_of_ne {n : Nat} (h : (n : Rat) ≠ 0) : (0 : Rat) < (n : Rat) := by
  have h0 : (0 : Rat) ≤ (n : Rat) := Rat.natCast_nonneg
  exact Rat.lt_of_le_of_ne h0 (Ne.symm h)

theorem prf_pos_ok {g t b : Rat} (hg : g ≠ 0 → 0 < g) (ht : t ≠ 0 → 0 < t) (hb : b ≠ 0 → 0 < b) :
    ∃ s, prf g t b = .ok s := by
  unfold prf
  by_cases hz : t = 0 ∨ g = 0 ∨ b = 0
  · rw [if_pos hz]; exact ⟨_, rfl⟩
  · rw [if_neg hz]
    have hb0 : 0 < b := hb (fun h => hz (Or.inr (Or.inr h)))
    have hg0 : 0 < g := hg (fun h => hz (Or.inr (Or.inl h)))
    have ht0 : 0 < t := ht (fun h => hz (Or.inl h))
    have hp0 : 0 < b / t := rat_div_pos hb0 ht0
    have hr0 : 0 < b / g := rat_div_pos hb0 hg0
    have hsum : 0 < b / t + b / g := by grind
    have hne : b / t + b / g ≠ 0 := Rat.ne_of_gt hsum
    simp only [hne, if_false]
    exact ⟨_, rfl⟩

theorem logPrf_ok' (c : Count) : ∃ s, logPrf c = .ok s :=
  prf_pos_ok natCast_pos_of_ne natCast_pos_of_ne natCast_pos_of_ne

theorem pairLog_ok (m : Match) : pairLog m = .ok () := by
  unfold pairLog
  obtain ⟨s1, h1⟩ := logPrf_ok' m.name
  obtain ⟨s2, h2⟩ := logPrf_ok' m.argument
  obtain ⟨s3, h3⟩ := logPrf_ok' m.property
  obtain ⟨s4, h4⟩ := logPrf_ok' m.constant
  obtain ⟨s5, h5⟩ := logPrf_ok' m.top
  simp only [h1, h2, h3, h4, h5]

theorem accLoopI_eq (info ig it : Bool) (ps : List (Option Item × Option Item)) :
    ∀ tot, accLoopI info ig it tot ps = accLoop ig it tot ps := by
  induction ps with
  | nil => intro tot; simp [accLoopI, accLoop]
  | cons p ps ih =>
    intro tot
    obtain ⟨g, t⟩ := p
    unfold accLoopI accLoop
    cases hp : pairMatch ig it g t with
    | error e => rfl
    | ok r =>
      cases r with
      | none => exact ih tot
      | some m =>
        cases info
        · simp only [Bool.false_eq_true, if_false]; exact ih _
        · simp only [if_true, pairLog_ok]; exact ih _

/-! ### the loop is the fold of its per-pair trace -/

theorem accLoop_trace (ig it : Bool) (ps : List (Option Item × Option Item)) :
    ∀ tot, accLoop ig it tot ps =
      match pairTrace ig it ps with
      | (tr, none) => .ok (tr.foldl addOpt tot)
      | (_, some e) => .error e := by
  induction ps with
  | nil => intro tot; simp [accLoop, pairTrace]
  | cons p ps ih =>
    intro tot
    obtain ⟨g, t⟩ := p
    unfold accLoop pairTrace
    cases hp : pairMatch ig it g t with
    | error e => rfl
    | ok r =>
      cases r with
      | none =>
        simp only
        rw [ih tot]
        cases h : pairTrace ig it ps with
        | mk tr e => cases e <;> simp [addOpt]
      | some m =>
        simp only
        rw [ih (tot.add m)]
        cases h : pairTrace ig it ps with
        | mk tr e => cases e <;> simp [addOpt]

/-! ### exactly which pairs make the loop raise -/

/-- the `continue` branches of the loop: both members missing, or the missing side's flag set -/
def skipped {α β : Type} (ig it : Bool) : Option α × Option β → Bool
  | (none, none) => true
  | (none, some _) => ig
  | (some _, none) => it
  | (some _, some _) => false

def Item.isErr : Option Item → Bool
  | some (.error _) => true
  | _ => false

theorem pairMatch_isOk_iff (ig it : Bool) (g t : Option Item) :
    (∃ e, pairMatch ig it g t = .error e) ↔
      (skipped ig it (g, t) = false ∧ (Item.isErr g = true ∨ Item.isErr t = true)) := by
  cases g with
  | none =>
    cases t with
    | none => simp [pairMatch, skipped]
    | some t => cases t <;> cases ig <;> simp [pairMatch, skipped, Item.isErr]
  | some g =>
    cases t with
    | none => cases g <;> cases it <;> simp [pairMatch, skipped, Item.isErr]
    | some t => cases g <;> cases t <;> simp [pairMatch, skipped, Item.isErr]

theorem accLoop_fails_iff (ig it : Bool) (ps : List (Option Item × Option Item)) :
    ∀ tot, (∃ e, accLoop ig it tot ps = .error e) ↔
      ∃ p ∈ ps, skipped ig it p = false ∧ (Item.isErr p.1 = true ∨ Item.isErr p.2 = true) := by
  induction ps with
  | nil => intro tot; simp [accLoop]
  | cons p ps ih =>
    intro tot
    obtain ⟨g, t⟩ := p
    have hpm := pairMatch_isOk_iff ig it g t
    unfold accLoop
    cases hp : pairMatch ig it g t with
    | error e =>
      have h1 : skipped ig it (g, t) = false ∧ (Item.isErr g = true ∨ Item.isErr t = true) :=
        hpm.1 ⟨e, hp⟩
      constructor
      · intro _; exact ⟨(g, t), List.mem_cons_self, h1⟩
      · intro _; exact ⟨e, rfl⟩
    | ok r =>
      have hno : ¬ (skipped ig it (g, t) = false ∧ (Item.isErr g = true ∨ Item.isErr t = true)) := by
        intro h
        obtain ⟨e, he⟩ := hpm.2 h
        rw [hp] at he; cases he
      cases r with
      | none =>
        simp only
        rw [ih tot]
        constructor
        · rintro ⟨p, hp', hh⟩; exact ⟨p, List.mem_cons_of_mem _ hp', hh⟩
        · rintro ⟨p, hp', hh⟩
          rcases List.mem_cons.1 hp' with h | h
          · subst h; exact absurd hh hno
          · exact ⟨p, h, hh⟩
      | some m =>
        simp only
        rw [ih (tot.add m)]
        constructor
        · rintro ⟨p, hp', hh⟩; exact ⟨p, List.mem_cons_of_mem _ hp', hh⟩
        · rintro ⟨p, hp', hh⟩
          rcases List.mem_cons.1 hp' with h | h
          · subst h; exact absurd hh hno
          · exact ⟨p, h, hh⟩

theorem isErr_map_sig {ι : Type} [DecidableEq ι] (x : Option (Graph ι)) :
    Item.isErr (x.map sig) = true ↔ ∃ g, x = some g ∧ argsOk g = false := by
  cases x with
  | none => simp [Item.isErr]
  | some g =>
    simp only [Option.map_some, Option.some.injEq, exists_eq_left']
    unfold sig
    cases h : argsOk g <;> simp [Item.isErr]

theorem skipped_map {α β α' β' : Type} (ig it : Bool) (f : α → α') (h : β → β') (p : Option α × Option β) :
    skipped ig it (p.1.map f, p.2.map h) = skipped ig it p := by
  obtain ⟨a, b⟩ := p
  cases a <;> cases b <;> rfl

instance : DecidableEq (Except Err Score) := fun a b =>
  match a, b with
  | .ok x, .ok y => if h : x = y then isTrue (by rw [h]) else isFalse (fun h' => h (Except.ok.inj h'))
  | .error x, .error y => if h : x = y then isTrue (by rw [h]) else isFalse (fun h' => h (Except.error.inj h'))
  | .ok _, .error _ => isFalse (fun h => nomatch h)
  | .error _, .ok _ => isFalse (fun h => nomatch h)

theorem sig_ok_of_argsOk {ι : Type} [DecidableEq ι] (g : Graph ι) (h : argsOk g = true) :
    sig g = .ok (sigOf g) := by
  unfold sig sigOf; simp [h]

/-- the loop on structures: only the pairs that are NOT skipped need structures whose `arguments()` is defined -/
theorem accLoop_counted {ι κ : Type} [DecidableEq ι] [DecidableEq κ] (ig it : Bool)
    (qs : List (Option (Graph ι) × Option (Graph κ))) :
    (∀ p ∈ qs, skipped ig it p = false →
        (∀ g, p.1 = some g → argsOk g = true) ∧ (∀ t, p.2 = some t → argsOk t = true)) →
    ∀ tot, accLoop ig it tot (qs.map (fun p => (p.1.map sig, p.2.map sig)))
      = .ok (tot.add (specM (counted ig it (qs.map (fun p => (p.1.map sigOf, p.2.map sigOf)))))) := by
  induction qs with
  | nil => intro _ tot; simp [accLoop, counted, specM, Match.add_zero]
  | cons p qs ih =>
    intro h tot
    have ih' := ih (fun q hq => h q (List.mem_cons_of_mem _ hq))
    have hp := h p List.mem_cons_self
    obtain ⟨g, t⟩ := p
    cases g with
    | none =>
      cases t with
      | none => simp [accLoop, pairMatch, counted, ih']
      | some t =>
        cases ig with
        | true => simp [accLoop, pairMatch, counted, ih']
        | false =>
          have ht := (hp rfl).2 t rfl
          simp [accLoop, pairMatch, counted, specM, sig_ok_of_argsOk t ht, ih', Match.add_assoc]
    | some g =>
      cases t with
      | none =>
        cases it with
        | true => simp [accLoop, pairMatch, counted, ih']
        | false =>
          have hg := (hp rfl).1 g rfl
          simp [accLoop, pairMatch, counted, specM, sig_ok_of_argsOk g hg, ih', Match.add_assoc]
      | some t =>
        have hg := (hp rfl).1 g rfl
        have ht := (hp rfl).2 t rfl
        simp [accLoop, pairMatch, counted, specM, sig_ok_of_argsOk g hg, sig_ok_of_argsOk t ht, ih',
          Match.add_assoc]

/-! ### example structures for the necessity witnesses -/

/-- two nodes that share an id (outside the input space): lookups see the LAST one -/
def exDupA : Node Nat :=
  { id := 1, pred := ['a'], lnk := .charspan 0 3, props := [], carg := none, edges := [] }
def exDupB : Node Nat :=
  { id := 1, pred := ['b'], lnk := .charspan 4 7, props := [], carg := none, edges := [] }
def exDup : Graph Nat := { kind := .eds, top := some 1, nodes := [exDupA, exDupB], links := [] }
def exDupR : Graph Nat := { kind := .eds, top := some 1, nodes := [exDupB, exDupA], links := [] }

end Verif.C18
