/-
Line protocol shared by all drivers (DESIGN §2.5).
One JSON object per input line; one answer line `R <json>` per request.
Rich strings travel as arrays of code points (`cps`) so that no escaping
convention of either JSON library matters.
-/
import Lean.Data.Json
open Lean

namespace Verif.Proto

def cps (cs : List Char) : Json :=
  Json.arr (cs.map (fun c => Json.num (JsonNumber.fromNat c.toNat))).toArray

def cpsS (s : String) : Json := cps s.toList

def ofCps (j : Json) : Except String (List Char) := do
  let a ← j.getArr?
  a.toList.mapM (fun x => do
    let n ← x.getNat?
    pure (Char.ofNat n))

def optCps : Option (List Char) → Json
  | none => Json.null
  | some cs => cps cs

def ofOptCps (j : Json) : Except String (Option (List Char)) :=
  match j with
  | Json.null => pure none
  | _ => do pure (some (← ofCps j))

def getCps (j : Json) (k : String) : Except String (List Char) := do
  ofCps (← j.getObjVal? k)

def getOptCps (j : Json) (k : String) : Except String (Option (List Char)) := do
  match j.getObjVal? k with
  | .ok v => ofOptCps v
  | .error _ => pure none

def getStr (j : Json) (k : String) : Except String String := do
  (← j.getObjVal? k).getStr?

def getNat (j : Json) (k : String) : Except String Nat := do
  (← j.getObjVal? k).getNat?

def getInt (j : Json) (k : String) : Except String Int := do
  (← j.getObjVal? k).getInt?

def getBool (j : Json) (k : String) : Except String Bool := do
  (← j.getObjVal? k).getBool?

def getArr (j : Json) (k : String) : Except String (List Json) := do
  pure (← (← j.getObjVal? k).getArr?).toList

def optInt (j : Json) : Except String (Option Int) :=
  match j with
  | Json.null => pure none
  | _ => do pure (some (← j.getInt?))

def jInt (i : Int) : Json := Json.num (JsonNumber.fromInt i)
def jNat (n : Nat) : Json := Json.num (JsonNumber.fromNat n)
def jOptInt : Option Int → Json
  | none => Json.null
  | some i => jInt i
def jList {α} (f : α → Json) (xs : List α) : Json := Json.arr (xs.map f).toArray
def jErr (tag : String) : Json := Json.mkObj [("err", Json.str tag)]
def jOk (v : Json) : Json := Json.mkObj [("ok", v)]

partial def loop (h : IO.FS.Stream) (out : IO.FS.Stream) (f : Json → Except String Json) : IO Unit := do
  let line ← h.getLine
  if line.isEmpty then return ()
  let t := line.trimAscii.toString
  if t.isEmpty then
    loop h out f
  else
    let ans : Json :=
      match Json.parse t with
      | .error e => Json.mkObj [("proto_error", Json.str e)]
      | .ok j =>
        match f j with
        | .ok r => r
        | .error e => Json.mkObj [("proto_error", Json.str e)]
    out.putStrLn ("R " ++ ans.compress)
    loop h out f

def serve (f : Json → Except String Json) : IO Unit := do
  let i ← IO.getStdin
  let o ← IO.getStdout
  loop i o f
  o.flush

end Verif.Proto
