import Verif.Common.Sem

/-!
Lemmas about the graph functions of `Verif.Common.Sem`
(`bfsLoop`, `adjOf`, `symm`, `bfs`, `componentsLoop`, `connectedComponents`).
Core Lean only.
-/
namespace Verif.Sem

section GraphLemmas
variable {α : Type}

/-- reflexive-transitive closure of the out-neighbour function -/
inductive Reach (adj : α → List α) : α → α → Prop
  | refl (a : α) : Reach adj a a
  | tail {a b c : α} : Reach adj a b → c ∈ adj b → Reach adj a c

theorem Reach.trans {adj : α → List α} {a b c : α} :
    Reach adj a b → Reach adj b c → Reach adj a c := by
  intro h1 h2
  induction h2 with
  | refl => exact h1
  | tail _ hc ih => exact Reach.tail ih hc

theorem Reach.head {adj : α → List α} {a b c : α} :
    b ∈ adj a → Reach adj b c → Reach adj a c :=
  fun h h2 => Reach.trans (Reach.tail (Reach.refl a) h) h2

variable [DecidableEq α]

theorem mem_adjOf (edges : List (α × α)) (x y : α) :
    y ∈ adjOf edges x ↔ (x, y) ∈ edges := by
  unfold adjOf
  rw [List.mem_filterMap]
  constructor
  · rintro ⟨⟨a, b⟩, hm, h⟩
    by_cases he : a = x
    · simp only [he, if_true, Option.some.injEq] at h
      subst he; subst h; exact hm
    · simp [he] at h
  · intro h
    exact ⟨(x, y), h, by simp⟩

omit [DecidableEq α] in
theorem mem_symm (edges : List (α × α)) (x y : α) :
    (x, y) ∈ symm edges ↔ (x, y) ∈ edges ∨ (y, x) ∈ edges := by
  unfold symm
  rw [List.mem_append, List.mem_map]
  constructor
  · rintro (h | ⟨⟨a, b⟩, hm, h⟩)
    · exact Or.inl h
    · simp only [Prod.mk.injEq] at h
      obtain ⟨rfl, rfl⟩ := h
      exact Or.inr hm
  · rintro (h | h)
    · exact Or.inl h
    · exact Or.inr ⟨(y, x), h, rfl⟩

theorem Reach.symm_of_symm (edges : List (α × α)) {a b : α} :
    Reach (adjOf (symm edges)) a b → Reach (adjOf (symm edges)) b a := by
  intro h
  induction h with
  | refl => exact Reach.refl _
  | tail _ hc ih =>
    refine Reach.head ?_ ih
    rw [mem_adjOf, mem_symm] at hc ⊢
    exact hc.symm

/-! ### `bfsLoop` soundness -/

theorem bfsLoop_sound (adj : α → List α) :
    ∀ (fuel : Nat) (ag seen : List α) (y : α), y ∈ bfsLoop adj fuel ag seen →
      y ∈ seen ∨ ∃ a ∈ ag, Reach adj a y := by
  intro fuel
  induction fuel with
  | zero => intro ag seen y h; exact Or.inl (by simpa [bfsLoop] using h)
  | succ fuel ih =>
    intro ag seen y h
    cases ag with
    | nil => exact Or.inl (by simpa [bfsLoop] using h)
    | cons x ag =>
      by_cases hx : x ∈ seen
      · have e : bfsLoop adj (fuel + 1) (x :: ag) seen = bfsLoop adj fuel ag seen := by
          simp [bfsLoop, hx]
        rw [e] at h
        rcases ih ag seen y h with h | ⟨a, ha, hr⟩
        · exact Or.inl h
        · exact Or.inr ⟨a, List.mem_cons_of_mem _ ha, hr⟩
      · have e : bfsLoop adj (fuel + 1) (x :: ag) seen =
            bfsLoop adj fuel (ag ++ (adj x).filter (fun y => y ∉ x :: seen)) (x :: seen) := by
          simp [bfsLoop, hx]
        rw [e] at h
        rcases ih _ _ y h with h | ⟨a, ha, hr⟩
        · rcases List.mem_cons.1 h with rfl | h
          · exact Or.inr ⟨y, List.mem_cons_self, Reach.refl _⟩
          · exact Or.inl h
        · rcases List.mem_append.1 ha with ha | ha
          · exact Or.inr ⟨a, List.mem_cons_of_mem _ ha, hr⟩
          · have := (List.mem_filter.1 ha).1
            exact Or.inr ⟨x, List.mem_cons_self, Reach.head this hr⟩

/-! ### `bfsLoop` completeness -/

omit [DecidableEq α] in
theorem length_filter_mono (p q : α → Bool) (U : List α)
    (h : ∀ u ∈ U, p u = true → q u = true) :
    (U.filter p).length ≤ (U.filter q).length := by
  induction U with
  | nil => exact Nat.le_refl _
  | cons u U ih =>
    have ih' := ih (fun v hv => h v (List.mem_cons_of_mem _ hv))
    have hu := h u List.mem_cons_self
    rw [List.filter_cons, List.filter_cons]
    cases hp : p u <;> cases hq : q u
    · simpa using ih'
    · simp only [Bool.false_eq_true, if_false, if_true, List.length_cons]; omega
    · rw [hp, hq] at hu; exact absurd (hu rfl) (by simp)
    · simpa using ih'

omit [DecidableEq α] in
theorem length_filter_lt (p q : α → Bool) (U : List α) (x : α)
    (h : ∀ u ∈ U, p u = true → q u = true) (hx : x ∈ U) (hpx : p x = false)
    (hqx : q x = true) :
    (U.filter p).length + 1 ≤ (U.filter q).length := by
  induction U with
  | nil => simp at hx
  | cons u U ih =>
    have h' : ∀ v ∈ U, p v = true → q v = true := fun v hv => h v (List.mem_cons_of_mem _ hv)
    have hu := h u List.mem_cons_self
    rw [List.filter_cons, List.filter_cons]
    rcases List.mem_cons.1 hx with rfl | hxU
    · have := length_filter_mono p q U h'
      rw [hpx, hqx]
      simp only [Bool.false_eq_true, if_false, if_true, List.length_cons]; omega
    · have ih' := ih h' hxU
      cases hp : p u <;> cases hq : q u
      · simpa using ih'
      · simp only [Bool.false_eq_true, if_false, if_true, List.length_cons]; omega
      · rw [hp, hq] at hu; exact absurd (hu rfl) (by simp)
      · simpa using ih'

theorem filter_notMem_cons_lt (U seen : List α) (x : α) (hx : x ∈ U) (hs : x ∉ seen) :
    (U.filter (fun u => u ∉ x :: seen)).length + 1 ≤
      (U.filter (fun u => u ∉ seen)).length := by
  apply length_filter_lt _ _ U x _ hx
  · simp
  · simpa using hs
  · intro u _ hu
    simp only [decide_eq_true_eq] at hu ⊢
    exact fun h => hu (List.mem_cons_of_mem _ h)

theorem bfsLoop_complete (adj : α → List α) (U : List α) (K : Nat)
    (hK : ∀ u, (adj u).length ≤ K) (hU : ∀ u v, v ∈ adj u → v ∈ U) :
    ∀ (fuel : Nat) (ag seen : List α),
      (∀ u ∈ seen, ∀ v ∈ adj u, v ∈ seen ∨ v ∈ ag) →
      ag.length + (K + 1) * (U.filter (fun u => u ∉ seen)).length ≤ fuel →
      (∀ a ∈ ag, a ∈ U) →
      (∀ x ∈ seen, x ∈ bfsLoop adj fuel ag seen) ∧
      (∀ a ∈ ag, a ∈ bfsLoop adj fuel ag seen) ∧
      (∀ u ∈ bfsLoop adj fuel ag seen, ∀ v ∈ adj u, v ∈ bfsLoop adj fuel ag seen) := by
  have base : ∀ (fuel : Nat) (seen : List α),
      (∀ u ∈ seen, ∀ v ∈ adj u, v ∈ seen ∨ v ∈ ([] : List α)) →
      (∀ x ∈ seen, x ∈ bfsLoop adj fuel [] seen) ∧
      (∀ a ∈ ([] : List α), a ∈ bfsLoop adj fuel [] seen) ∧
      (∀ u ∈ bfsLoop adj fuel [] seen, ∀ v ∈ adj u, v ∈ bfsLoop adj fuel [] seen) := by
    intro fuel seen hinv
    have e : bfsLoop adj fuel [] seen = seen := by cases fuel <;> rfl
    rw [e]
    refine ⟨fun x h => h, fun a ha => absurd ha List.not_mem_nil, ?_⟩
    intro u hu v hv
    rcases hinv u hu v hv with h | h
    · exact h
    · exact absurd h List.not_mem_nil
  intro fuel
  induction fuel with
  | zero =>
    intro ag seen hinv hμ hag
    cases ag with
    | nil => exact base 0 seen hinv
    | cons x ag => simp only [List.length_cons] at hμ; omega
  | succ fuel ih =>
    intro ag seen hinv hμ hag
    cases ag with
    | nil => exact base (fuel + 1) seen hinv
    | cons x ag =>
      by_cases hx : x ∈ seen
      · have e : bfsLoop adj (fuel + 1) (x :: ag) seen = bfsLoop adj fuel ag seen := by
          simp [bfsLoop, hx]
        rw [e]
        have hinv' : ∀ u ∈ seen, ∀ v ∈ adj u, v ∈ seen ∨ v ∈ ag := by
          intro u hu v hv
          rcases hinv u hu v hv with h | h
          · exact Or.inl h
          · rcases List.mem_cons.1 h with rfl | h
            · exact Or.inl hx
            · exact Or.inr h
        have hμ' : ag.length + (K + 1) * (U.filter (fun u => u ∉ seen)).length ≤ fuel := by
          simp only [List.length_cons] at hμ; omega
        obtain ⟨h1, h2, h3⟩ := ih ag seen hinv' hμ' (fun a ha => hag a (List.mem_cons_of_mem _ ha))
        refine ⟨h1, ?_, h3⟩
        intro a ha
        rcases List.mem_cons.1 ha with rfl | ha
        · exact h1 _ hx
        · exact h2 _ ha
      · have e : bfsLoop adj (fuel + 1) (x :: ag) seen =
            bfsLoop adj fuel (ag ++ (adj x).filter (fun y => y ∉ x :: seen)) (x :: seen) := by
          simp [bfsLoop, hx]
        rw [e]
        have hinv' : ∀ u ∈ x :: seen, ∀ v ∈ adj u,
            v ∈ x :: seen ∨ v ∈ ag ++ (adj x).filter (fun y => y ∉ x :: seen) := by
          intro u hu v hv
          rcases List.mem_cons.1 hu with rfl | hu
          · by_cases hvs : v ∈ u :: seen
            · exact Or.inl hvs
            · refine Or.inr (List.mem_append_right _ (List.mem_filter.2 ⟨hv, ?_⟩))
              simpa using hvs
          · rcases hinv u hu v hv with h | h
            · exact Or.inl (List.mem_cons_of_mem _ h)
            · rcases List.mem_cons.1 h with rfl | h
              · exact Or.inl List.mem_cons_self
              · exact Or.inr (List.mem_append_left _ h)
        have hxU : x ∈ U := hag x List.mem_cons_self
        have hdrop := filter_notMem_cons_lt U seen x hxU hx
        have hmul := Nat.mul_le_mul_left (K + 1) hdrop
        rw [Nat.mul_succ] at hmul
        have hF : ((adj x).filter (fun y => y ∉ x :: seen)).length ≤ K :=
          Nat.le_trans (List.length_filter_le _ _) (hK x)
        have hμ' : (ag ++ (adj x).filter (fun y => y ∉ x :: seen)).length +
            (K + 1) * (U.filter (fun u => u ∉ x :: seen)).length ≤ fuel := by
          simp only [List.length_cons] at hμ
          rw [List.length_append]
          omega
        have hag' : ∀ a ∈ ag ++ (adj x).filter (fun y => y ∉ x :: seen), a ∈ U := by
          intro a ha
          rcases List.mem_append.1 ha with ha | ha
          · exact hag a (List.mem_cons_of_mem _ ha)
          · exact hU x a (List.mem_filter.1 ha).1
        obtain ⟨h1, h2, h3⟩ := ih _ _ hinv' hμ' hag'
        refine ⟨fun y hy => h1 y (List.mem_cons_of_mem _ hy), ?_, h3⟩
        intro a ha
        rcases List.mem_cons.1 ha with rfl | ha
        · exact h1 _ List.mem_cons_self
        · exact h2 _ (List.mem_append_left _ ha)

omit [DecidableEq α] in
/-- a set closed under `adj` that contains `s` contains everything reachable from `s` -/
theorem Reach.mem_of_closed {adj : α → List α} {r : List α}
    (hcl : ∀ u ∈ r, ∀ v ∈ adj u, v ∈ r) {s x : α} (hs : s ∈ r) (h : Reach adj s x) : x ∈ r := by
  induction h with
  | refl => exact hs
  | tail _ hc ih => exact hcl _ ih _ hc

theorem length_adjOf_le (edges : List (α × α)) (x : α) : (adjOf edges x).length ≤ edges.length :=
  List.length_filterMap_le _ _

theorem mem_nodeUniverse_of_adjOf (edges : List (α × α)) (s u v : α) (h : v ∈ adjOf edges u) :
    v ∈ nodeUniverse edges s := by
  rw [mem_adjOf] at h
  unfold nodeUniverse
  refine List.mem_cons_of_mem _ (List.mem_flatMap.2 ⟨(u, v), h, ?_⟩)
  simp

/-- the fuel in `bfs` is sufficient: the result contains `s` and is closed under `adj` -/
theorem bfs_closed (edges : List (α × α)) (s : α) :
    s ∈ bfs edges s ∧ ∀ u ∈ bfs edges s, ∀ v ∈ adjOf edges u, v ∈ bfs edges s := by
  have hμ : ([s] : List α).length + (edges.length + 1) *
      ((nodeUniverse edges s).filter (fun u => u ∉ ([] : List α))).length ≤
      1 + (edges.length + 1) * (nodeUniverse edges s).length := by
    have := Nat.mul_le_mul_left (edges.length + 1)
      (List.length_filter_le (fun u => decide (u ∉ ([] : List α))) (nodeUniverse edges s))
    simp only [List.length_cons, List.length_nil]
    omega
  obtain ⟨_, h2, h3⟩ := bfsLoop_complete (adjOf edges) (nodeUniverse edges s) edges.length
    (length_adjOf_le edges) (fun u v => mem_nodeUniverse_of_adjOf edges s u v)
    (1 + (edges.length + 1) * (nodeUniverse edges s).length) [s] []
    (fun u hu => absurd hu List.not_mem_nil) hμ
    (by intro a ha; rw [List.mem_singleton.1 ha]; exact List.mem_cons_self)
  exact ⟨h2 s List.mem_cons_self, h3⟩

/-- [core] BFS correctness: the fuel in `bfs` is sufficient and the result is exactly the
reachable set -/
theorem bfs_correct (edges : List (α × α)) (s x : α) :
    x ∈ bfs edges s ↔ Reach (adjOf edges) s x := by
  constructor
  · intro h
    rcases bfsLoop_sound (adjOf edges) _ [s] [] x h with h | ⟨a, ha, hr⟩
    · exact absurd h List.not_mem_nil
    · rw [List.mem_singleton.1 ha] at hr; exact hr
  · intro h
    obtain ⟨hs, hcl⟩ := bfs_closed edges s
    exact Reach.mem_of_closed hcl hs h

/-! ### connected components -/

theorem componentsLoop_spec (E : List (α × α))
    (hsym : ∀ a b, Reach (adjOf E) a b → Reach (adjOf E) b a) :
    ∀ (ns seen : List α),
      (∀ u ∈ seen, ∀ v, Reach (adjOf E) u v → v ∈ seen) →
      (∀ n ∈ ns, n ∈ seen ∨ ∃ c ∈ componentsLoop E ns seen, n ∈ c) ∧
      (∀ c ∈ componentsLoop E ns seen, ∃ n ∈ ns, ∀ x, x ∈ c ↔ Reach (adjOf E) n x) ∧
      (∀ c ∈ componentsLoop E ns seen, ∀ x ∈ c, x ∉ seen) ∧
      (componentsLoop E ns seen).Pairwise (fun c d => ∀ x, x ∈ c → x ∉ d) := by
  intro ns
  induction ns with
  | nil =>
    intro seen _
    have e : componentsLoop E [] seen = [] := rfl
    rw [e]
    exact ⟨fun n hn => absurd hn List.not_mem_nil, fun c hc => absurd hc List.not_mem_nil,
      fun c hc => absurd hc List.not_mem_nil, List.Pairwise.nil⟩
  | cons n ns ih =>
    intro seen hcl
    by_cases hn : n ∈ seen
    · have e : componentsLoop E (n :: ns) seen = componentsLoop E ns seen := by
        simp [componentsLoop, hn]
      rw [e]
      obtain ⟨h1, h2, h3, h4⟩ := ih seen hcl
      refine ⟨?_, ?_, h3, h4⟩
      · intro m hm
        rcases List.mem_cons.1 hm with rfl | hm
        · exact Or.inl hn
        · exact h1 m hm
      · intro c hc
        obtain ⟨m, hm, hx⟩ := h2 c hc
        exact ⟨m, List.mem_cons_of_mem _ hm, hx⟩
    · have e : componentsLoop E (n :: ns) seen =
          bfs E n :: componentsLoop E ns (bfs E n ++ seen) := by
        simp [componentsLoop, hn]
      rw [e]
      have hcl' : ∀ u ∈ bfs E n ++ seen, ∀ v, Reach (adjOf E) u v → v ∈ bfs E n ++ seen := by
        intro u hu v hr
        rcases List.mem_append.1 hu with hu | hu
        · exact List.mem_append_left _
            ((bfs_correct E n v).2 (Reach.trans ((bfs_correct E n u).1 hu) hr))
        · exact List.mem_append_right _ (hcl u hu v hr)
      obtain ⟨h1, h2, h3, h4⟩ := ih (bfs E n ++ seen) hcl'
      refine ⟨?_, ?_, ?_, ?_⟩
      · intro m hm
        rcases List.mem_cons.1 hm with rfl | hm
        · exact Or.inr ⟨_, List.mem_cons_self, (bfs_correct E m m).2 (Reach.refl _)⟩
        · rcases h1 m hm with h | ⟨c, hc, hmc⟩
          · rcases List.mem_append.1 h with h | h
            · exact Or.inr ⟨_, List.mem_cons_self, h⟩
            · exact Or.inl h
          · exact Or.inr ⟨c, List.mem_cons_of_mem _ hc, hmc⟩
      · intro c hc
        rcases List.mem_cons.1 hc with rfl | hc
        · exact ⟨n, List.mem_cons_self, fun x => bfs_correct E n x⟩
        · obtain ⟨m, hm, hx⟩ := h2 c hc
          exact ⟨m, List.mem_cons_of_mem _ hm, hx⟩
      · intro c hc x hxc hxs
        rcases List.mem_cons.1 hc with rfl | hc
        · exact hn (hcl x hxs n (hsym _ _ ((bfs_correct E n x).1 hxc)))
        · exact h3 c hc x hxc (List.mem_append_right _ hxs)
      · refine List.pairwise_cons.2 ⟨?_, h4⟩
        intro d hd x hxc hxd
        exact h3 d hd x hxd (List.mem_append_left _ hxc)

theorem reach_nil_iff (n x : α) : Reach (adjOf (symm ([] : List (α × α)))) n x ↔ x = n := by
  constructor
  · intro h
    induction h with
    | refl => rfl
    | tail _ hc _ => exact absurd hc (by simp [adjOf, symm])
  · rintro rfl; exact Reach.refl _

/-- specification of `_connected_components` -/
theorem connectedComponents_spec (nodes : List α) (edges : List (α × α)) (comps : List (List α))
    (h : connectedComponents nodes edges = .ok comps) :
    (∀ n ∈ nodes, ∃ c ∈ comps, n ∈ c) ∧
    (∀ c ∈ comps, ∃ n ∈ nodes, n ∈ c ∧ ∀ x, x ∈ c ↔ Reach (adjOf (symm edges)) n x) ∧
    (∀ c ∈ comps, ∀ x ∈ c, x ∈ nodes) ∧
    (nodes.Nodup → comps.Pairwise (fun c d => ∀ x, x ∈ c → x ∉ d)) := by
  unfold connectedComponents at h
  by_cases hE : edges.isEmpty = true
  · rw [if_pos hE] at h
    have hnil : edges = [] := List.isEmpty_iff.1 hE
    subst hnil
    have hc : comps = nodes.map (fun n => [n]) := by injection h with h; exact h.symm
    subst hc
    refine ⟨?_, ?_, ?_, ?_⟩
    · intro n hn
      exact ⟨[n], List.mem_map.2 ⟨n, hn, rfl⟩, List.mem_singleton.2 rfl⟩
    · intro c hc
      obtain ⟨n, hn, rfl⟩ := List.mem_map.1 hc
      refine ⟨n, hn, List.mem_singleton.2 rfl, fun x => ?_⟩
      rw [reach_nil_iff, List.mem_singleton]
    · intro c hc x hx
      obtain ⟨n, hn, rfl⟩ := List.mem_map.1 hc
      rw [List.mem_singleton.1 hx]; exact hn
    · intro hnd
      rw [List.pairwise_map]
      refine List.Pairwise.imp ?_ hnd
      intro a b hab x hxa hxb
      rw [List.mem_singleton] at hxa hxb
      exact hab (hxa.symm.trans hxb)
  · rw [if_neg hE] at h
    by_cases hA : (edges.all (fun e => decide (e.1 ∈ nodes) && decide (e.2 ∈ nodes))) = true
    · rw [if_pos hA] at h
      have hc : comps = componentsLoop (symm edges) nodes [] := by
        injection h with h; exact h.symm
      subst hc
      obtain ⟨h1, h2, _, h4⟩ := componentsLoop_spec (symm edges)
        (fun a b => Reach.symm_of_symm edges) nodes []
        (fun u hu => absurd hu List.not_mem_nil)
      have hends : ∀ a b, (a, b) ∈ symm edges → a ∈ nodes → b ∈ nodes := by
        intro a b hab _
        rw [List.all_eq_true] at hA
        rcases (mem_symm edges a b).1 hab with h | h
        · have := hA _ h; simp only [Bool.and_eq_true, decide_eq_true_eq] at this; exact this.2
        · have := hA _ h; simp only [Bool.and_eq_true, decide_eq_true_eq] at this; exact this.1
      have hreach : ∀ n x, n ∈ nodes → Reach (adjOf (symm edges)) n x → x ∈ nodes := by
        intro n x hn hr
        induction hr with
        | refl => exact hn
        | tail _ hc ih => exact hends _ _ ((mem_adjOf _ _ _).1 hc) ih
      refine ⟨?_, ?_, ?_, fun _ => h4⟩
      · intro n hn
        rcases h1 n hn with h | h
        · exact absurd h List.not_mem_nil
        · exact h
      · intro c hc
        obtain ⟨n, hn, hx⟩ := h2 c hc
        exact ⟨n, hn, (hx n).2 (Reach.refl _), hx⟩
      · intro c hc x hxc
        obtain ⟨n, hn, hx⟩ := h2 c hc
        exact hreach n x hn ((hx x).1 hxc)
    · rw [if_neg hA] at h
      exact absurd h (by simp)

theorem connectedComponents_error (nodes : List α) (edges : List (α × α)) (e : Err)
    (h : connectedComponents nodes edges = .error e) :
    e = .keyError ∧ ∃ p ∈ edges, p.1 ∉ nodes ∨ p.2 ∉ nodes := by
  unfold connectedComponents at h
  by_cases hE : edges.isEmpty = true
  · rw [if_pos hE] at h; exact absurd h (by simp)
  · rw [if_neg hE] at h
    by_cases hA : (edges.all (fun e => decide (e.1 ∈ nodes) && decide (e.2 ∈ nodes))) = true
    · rw [if_pos hA] at h; exact absurd h (by simp)
    · rw [if_neg hA] at h
      refine ⟨by injection h with h; exact h.symm, ?_⟩
      rw [List.all_eq_true] at hA
      apply Classical.byContradiction
      intro hno
      apply hA
      intro p hp
      simp only [Bool.and_eq_true, decide_eq_true_eq]
      constructor
      · apply Classical.byContradiction; intro h1; exact hno ⟨p, hp, Or.inl h1⟩
      · apply Classical.byContradiction; intro h2; exact hno ⟨p, hp, Or.inr h2⟩

end GraphLemmas

/-! ### Dictionary facts -/

section DictLemmas
variable {κ ν : Type} [DecidableEq κ]

theorem dlookup_isSome_iff {κ ν : Type} [DecidableEq κ] (k : κ) (d : List (κ × ν)) :
    (dlookup k d).isSome ↔ k ∈ dkeys d := by
  induction d with
  | nil => simp [dlookup, dkeys]
  | cons a d ih =>
    obtain ⟨k', v⟩ := a
    by_cases h : k' = k
    · simp [dlookup, dkeys, h]
    · have h' : ¬ k = k' := fun e => h e.symm
      simp only [dlookup, if_neg h, ih, dkeys, List.map_cons, List.mem_cons, h', false_or]

theorem dlookup_mem {κ ν : Type} [DecidableEq κ] {k : κ} {v : ν} {d : List (κ × ν)} :
    dlookup k d = some v → (k, v) ∈ d := by
  induction d with
  | nil => intro h; simp [dlookup] at h
  | cons a d ih =>
    obtain ⟨k', v'⟩ := a
    intro h
    by_cases hk : k' = k
    · simp only [dlookup, if_pos hk, Option.some.injEq] at h
      subst hk; subst h; exact List.mem_cons_self
    · simp only [dlookup, if_neg hk] at h
      exact List.mem_cons_of_mem _ (ih h)

theorem dlookup_eq_none_iff (k : κ) (d : List (κ × ν)) : dlookup k d = none ↔ k ∉ dkeys d := by
  rw [← dlookup_isSome_iff]
  cases dlookup k d <;> simp

theorem dlookup_of_mem_keys {k : κ} {d : List (κ × ν)} (h : k ∈ dkeys d) :
    ∃ v, dlookup k d = some v :=
  Option.isSome_iff_exists.1 ((dlookup_isSome_iff k d).2 h)

/-- with distinct keys, membership determines the lookup -/
theorem dlookup_of_mem_nodup {k : κ} {v : ν} {d : List (κ × ν)} (hnd : (dkeys d).Nodup)
    (h : (k, v) ∈ d) : dlookup k d = some v := by
  induction d with
  | nil => exact absurd h List.not_mem_nil
  | cons a d ih =>
    obtain ⟨k', v'⟩ := a
    have hnd' : k' ∉ dkeys d ∧ (dkeys d).Nodup := by
      simpa [dkeys] using hnd
    rcases List.mem_cons.1 h with h | h
    · simp only [Prod.mk.injEq] at h
      obtain ⟨rfl, rfl⟩ := h
      simp [dlookup]
    · by_cases hk : k' = k
      · subst hk
        exact absurd (List.mem_map.2 ⟨(k', v), h, rfl⟩) hnd'.1
      · simp only [dlookup, if_neg hk]
        exact ih hnd'.2 h

theorem dkeys_dset (k : κ) (v : ν) (d : List (κ × ν)) :
    dkeys (dset k v d) = if k ∈ dkeys d then dkeys d else dkeys d ++ [k] := by
  induction d with
  | nil => simp [dset, dkeys]
  | cons a d ih =>
    obtain ⟨k', v'⟩ := a
    by_cases h : k' = k
    · simp [dset, dkeys, h]
    · have h' : ¬ k = k' := fun e => h e.symm
      have ih' : List.map (·.1) (dset k v d) =
          if k ∈ List.map (·.1) d then List.map (·.1) d else List.map (·.1) d ++ [k] := ih
      simp only [dset, if_neg h, dkeys, List.map_cons, List.mem_cons, h', false_or, ih']
      split <;> simp

theorem dkeys_dpush {β : Type} (k : κ) (x : β) (d : List (κ × List β)) :
    dkeys (dpush k x d) = if k ∈ dkeys d then dkeys d else dkeys d ++ [k] := by
  induction d with
  | nil => simp [dpush, dkeys]
  | cons a d ih =>
    obtain ⟨k', v'⟩ := a
    by_cases h : k' = k
    · simp [dpush, dkeys, h]
    · have h' : ¬ k = k' := fun e => h e.symm
      have ih' : List.map (·.1) (dpush k x d) =
          if k ∈ List.map (·.1) d then List.map (·.1) d else List.map (·.1) d ++ [k] := ih
      simp only [dpush, if_neg h, dkeys, List.map_cons, List.mem_cons, h', false_or, ih']
      split <;> simp

theorem dkeys_dextend {β : Type} (k : κ) (xs : List β) (d : List (κ × List β)) :
    dkeys (dextend k xs d) = dkeys d := by
  induction d with
  | nil => rfl
  | cons a d ih =>
    obtain ⟨k', v'⟩ := a
    by_cases h : k' = k
    · simp [dextend, dkeys, h]
    · have ih' : List.map (·.1) (dextend k xs d) = List.map (·.1) d := ih
      simp only [dextend, if_neg h, dkeys, List.map_cons, ih']

theorem dlookup_dpush {β : Type} (k l : κ) (x : β) (d : List (κ × List β)) :
    dlookup l (dpush k x d) =
      if k = l then some ((dlookup l d).getD [] ++ [x]) else dlookup l d := by
  induction d with
  | nil =>
    by_cases h : k = l <;> simp [dpush, dlookup, h]
  | cons a d ih =>
    obtain ⟨k', v'⟩ := a
    by_cases h : k' = k
    · subst h
      by_cases hl : k' = l <;> simp [dpush, dlookup, hl]
    · by_cases hl : k' = l
      · subst hl
        have hkl : ¬ k = k' := fun e => h e.symm
        simp [dpush, dlookup, h, hkl]
      · simp only [dpush, if_neg h, dlookup, if_neg hl, ih]

/-- a duplicate-free list all of whose elements lie in `l₂` is no longer than `l₂` -/
theorem nodup_length_le_of_subset {α : Type} [DecidableEq α] :
    ∀ (l₁ l₂ : List α), l₁.Nodup → (∀ a ∈ l₁, a ∈ l₂) → l₁.length ≤ l₂.length := by
  intro l₁
  induction l₁ with
  | nil => intro l₂ _ _; exact Nat.zero_le _
  | cons a t ih =>
    intro l₂ hnd hsub
    obtain ⟨hat, hndt⟩ := List.nodup_cons.1 hnd
    have ha : a ∈ l₂ := hsub a List.mem_cons_self
    have hsub' : ∀ b ∈ t, b ∈ l₂.erase a := by
      intro b hb
      have hne : b ≠ a := fun e => hat (e ▸ hb)
      exact (List.mem_erase_of_ne hne).2 (hsub b (List.mem_cons_of_mem _ hb))
    have h1 := ih (l₂.erase a) hndt hsub'
    have h2 := List.length_erase_of_mem ha
    have h3 : 0 < l₂.length := List.length_pos_of_mem ha
    simp only [List.length_cons]
    omega

end DictLemmas

/-! ### EP ids and the scope map -/

theorem uniquify_length (n : Nat) (seen l : List Var) : (uniquify n seen l).length = l.length := by
  induction l generalizing n seen with
  | nil => rfl
  | cons i is ih =>
    unfold uniquify
    split <;> simp [ih]

theorem ids_length (m : MRS) : m.ids.length = m.rels.length := by
  unfold MRS.ids
  rw [uniquify_length, List.length_map]

theorem preds_map_fst (m : MRS) : m.preds.map (·.1) = m.ids := by
  unfold MRS.preds
  exact List.map_fst_zip (Nat.le_of_eq (ids_length m))

theorem preds_map_snd (m : MRS) : m.preds.map (·.2) = m.rels := by
  unfold MRS.preds
  exact List.map_snd_zip (Nat.le_of_eq (ids_length m).symm)

theorem groupByLabel_keys_nodup (ps : List Pred) (acc : List (Var × List Pred))
    (h : (dkeys acc).Nodup) : (dkeys (groupByLabel ps acc)).Nodup := by
  induction ps generalizing acc with
  | nil => exact h
  | cons p ps ih =>
    apply ih
    rw [dkeys_dpush]
    split
    · exact h
    · rename_i hn
      rw [List.nodup_append]
      refine ⟨h, by simp, ?_⟩
      intro a ha b hb
      rw [List.mem_singleton.1 hb]
      exact fun e => hn (e ▸ ha)

theorem mem_groupByLabel_keys (ps : List Pred) (acc : List (Var × List Pred)) (l : Var) :
    l ∈ dkeys (groupByLabel ps acc) ↔ l ∈ dkeys acc ∨ ∃ p ∈ ps, p.2.label = l := by
  induction ps generalizing acc with
  | nil => simp [groupByLabel]
  | cons p ps ih =>
    have hk : l ∈ dkeys (dpush p.2.label p acc) ↔ l ∈ dkeys acc ∨ p.2.label = l := by
      rw [dkeys_dpush]
      split
      · rename_i hin
        constructor
        · exact Or.inl
        · rintro (h | h)
          · exact h
          · exact h ▸ hin
      · rw [List.mem_append, List.mem_singleton]
        constructor
        · rintro (h | h)
          · exact Or.inl h
          · exact Or.inr h.symm
        · rintro (h | h)
          · exact Or.inl h
          · exact Or.inr h.symm
    simp only [groupByLabel, ih, hk, List.mem_cons, exists_eq_or_imp, or_assoc]

theorem groupByLabel_lookup_getD (ps : List Pred) (acc : List (Var × List Pred)) (l : Var) :
    (dlookup l (groupByLabel ps acc)).getD [] =
      (dlookup l acc).getD [] ++ ps.filter (fun p => p.2.label = l) := by
  induction ps generalizing acc with
  | nil => simp [groupByLabel]
  | cons p ps ih =>
    simp only [groupByLabel, ih, dlookup_dpush]
    by_cases h : p.2.label = l
    · simp [h]
    · simp [h]

/-- [core] the scope map partitions the predications by label -/
theorem scopeMap_keys_nodup (m : MRS) : (dkeys m.scopeMap).Nodup :=
  groupByLabel_keys_nodup m.preds [] List.nodup_nil

theorem mem_scopeMap_keys (m : MRS) (l : Var) :
    l ∈ dkeys m.scopeMap ↔ ∃ p ∈ m.preds, p.2.label = l := by
  unfold MRS.scopeMap
  rw [mem_groupByLabel_keys]
  simp [dkeys]

theorem scopeMap_lookup (m : MRS) (l : Var) (h : l ∈ dkeys m.scopeMap) :
    dlookup l m.scopeMap = some (m.preds.filter (fun p => p.2.label = l)) := by
  obtain ⟨v, hv⟩ := dlookup_of_mem_keys h
  have := groupByLabel_lookup_getD m.preds [] l
  rw [show groupByLabel m.preds [] = m.scopeMap from rfl, hv] at this
  simp only [Option.getD_some, dlookup, Option.getD_none, List.nil_append] at this
  rw [hv, this]

theorem mem_scopeMap (m : MRS) (l : Var) (ps : List Pred) :
    (l, ps) ∈ m.scopeMap ↔ (ps = m.preds.filter (fun p => p.2.label = l) ∧ ps ≠ []) := by
  constructor
  · intro h
    have hl : dlookup l m.scopeMap = some ps := dlookup_of_mem_nodup (scopeMap_keys_nodup m) h
    have hk : l ∈ dkeys m.scopeMap := List.mem_map.2 ⟨(l, ps), h, rfl⟩
    have he : ps = m.preds.filter (fun p => p.2.label = l) := by
      have := scopeMap_lookup m l hk
      rw [hl] at this
      exact Option.some.inj this
    refine ⟨he, ?_⟩
    obtain ⟨p, hp, hpl⟩ := (mem_scopeMap_keys m l).1 hk
    intro hnil
    have : p ∈ m.preds.filter (fun p => p.2.label = l) :=
      List.mem_filter.2 ⟨hp, by simpa using hpl⟩
    rw [← he, hnil] at this
    exact absurd this List.not_mem_nil
  · rintro ⟨he, hne⟩
    obtain ⟨p, hp⟩ := List.exists_mem_of_ne_nil ps hne
    rw [he] at hp
    obtain ⟨hp1, hp2⟩ := List.mem_filter.1 hp
    have hk : l ∈ dkeys m.scopeMap := (mem_scopeMap_keys m l).2 ⟨p, hp1, by simpa using hp2⟩
    have := scopeMap_lookup m l hk
    rw [← he] at this
    exact dlookup_mem this

/-! ### Termination of `scope.descendants` -/

section DescLemmas
variable {ι lam π : Type} [DecidableEq ι] [DecidableEq lam]

/-- the body of the `for` loop in `_descendants` -/
theorem descVisit_succ (pid : π → ι) (scargs : List (ι × List lam)) (scopes : List (lam × List π))
    (fuel : Nat) (descs : List (ι × List π)) (id : ι) :
    descVisit pid scargs scopes (fuel + 1) descs id =
      if (dlookup id descs).isSome then .ok descs
      else match dlookup id scargs with
        | none => .error .keyError
        | some labels =>
          (labels.flatMap (fun l => (dlookup l scopes).getD [])).foldlM (fun ds p =>
              match descVisit pid scargs scopes fuel (dextend id [p] ds) (pid p) with
              | .error e => .error e
              | .ok ds2 =>
                match dlookup (pid p) ds2 with
                | none => .error .keyError
                | some sub => .ok (dextend id sub ds2))
            (dset id [] descs) := by
  rw [descVisit]
  by_cases h : (dlookup id descs).isSome = true
  · rw [if_pos h, if_pos h]
  · rw [if_neg h, if_neg h]
    cases dlookup id scargs with
    | none => rfl
    | some labels =>
      show List.foldlM _ _ _ = List.foldlM _ _ _
      congr 1
      funext ds p
      simp only [bind, Except.bind, pure, Except.pure]
      cases descVisit pid scargs scopes fuel (dextend id [p] ds) (pid p) with
      | error e => rfl
      | ok ds2 => cases dlookup (pid p) ds2 <;> rfl

theorem descVisit_total {ι lam π : Type} [DecidableEq ι] [DecidableEq lam]
    (pid : π → ι) (scargs : List (ι × List lam)) (scopes : List (lam × List π)) (N : Nat)
    (hclosed : ∀ l ps, dlookup l scopes = some ps → ∀ p ∈ ps, pid p ∈ dkeys scargs)
    (hN : ∀ ks : List ι, ks.Nodup → (∀ k ∈ ks, k ∈ dkeys scargs) → ks.length ≤ N) :
    ∀ (fuel : Nat) (descs : List (ι × List π)) (id : ι),
      id ∈ dkeys scargs → (dkeys descs).Nodup → (∀ k ∈ dkeys descs, k ∈ dkeys scargs) →
      N + 1 ≤ fuel + (dkeys descs).length →
      ∃ descs', descVisit pid scargs scopes fuel descs id = .ok descs' ∧
        (dkeys descs').Nodup ∧ (∀ k ∈ dkeys descs', k ∈ dkeys scargs) ∧
        (∀ k ∈ dkeys descs, k ∈ dkeys descs') ∧ id ∈ dkeys descs' := by
  intro fuel
  induction fuel with
  | zero =>
    intro descs id _ hnd hsub hfuel
    have := hN (dkeys descs) hnd hsub
    omega
  | succ fuel ih =>
    intro descs id hid hnd hsub hfuel
    rw [descVisit_succ]
    by_cases hsome : (dlookup id descs).isSome = true
    · rw [if_pos hsome]
      exact ⟨descs, rfl, hnd, hsub, fun k hk => hk, (dlookup_isSome_iff id descs).1 hsome⟩
    · rw [if_neg hsome]
      have hidn : id ∉ dkeys descs := fun h => hsome ((dlookup_isSome_iff id descs).2 h)
      obtain ⟨labels, hlab⟩ := dlookup_of_mem_keys hid
      rw [hlab]
      simp only []
      -- every target is a known id
      have htargets : ∀ p ∈ labels.flatMap (fun l => (dlookup l scopes).getD []),
          pid p ∈ dkeys scargs := by
        intro p hp
        obtain ⟨l, _, hpl⟩ := List.mem_flatMap.1 hp
        cases hl : dlookup l scopes with
        | none => rw [hl] at hpl; exact absurd hpl List.not_mem_nil
        | some ps => rw [hl] at hpl; exact hclosed l ps hl p hpl
      -- the fold
      have hfold : ∀ (targets : List π), (∀ p ∈ targets, pid p ∈ dkeys scargs) →
          ∀ ds : List (ι × List π), (dkeys ds).Nodup → (∀ k ∈ dkeys ds, k ∈ dkeys scargs) →
            id ∈ dkeys ds → N + 1 ≤ fuel + (dkeys ds).length →
            ∃ ds', targets.foldlM (fun ds p =>
                match descVisit pid scargs scopes fuel (dextend id [p] ds) (pid p) with
                | .error e => .error e
                | .ok ds2 =>
                  match dlookup (pid p) ds2 with
                  | none => .error .keyError
                  | some sub => .ok (dextend id sub ds2)) ds = Except.ok ds' ∧
              (dkeys ds').Nodup ∧ (∀ k ∈ dkeys ds', k ∈ dkeys scargs) ∧
              (∀ k ∈ dkeys ds, k ∈ dkeys ds') := by
        intro targets
        induction targets with
        | nil =>
          intro _ ds h1 h2 _ _
          exact ⟨ds, rfl, h1, h2, fun k hk => hk⟩
        | cons p targets iht =>
          intro htg ds h1 h2 h3 h4
          have hp : pid p ∈ dkeys scargs := htg p List.mem_cons_self
          obtain ⟨ds2, e2, n2, s2, m2, i2⟩ := ih (dextend id [p] ds) (pid p) hp
            (by rw [dkeys_dextend]; exact h1) (by rw [dkeys_dextend]; exact h2)
            (by rw [dkeys_dextend]; exact h4)
          rw [dkeys_dextend] at m2
          obtain ⟨sub, hsub2⟩ := dlookup_of_mem_keys i2
          have hlen : (dkeys ds).length ≤ (dkeys ds2).length :=
            nodup_length_le_of_subset _ _ h1 m2
          obtain ⟨ds', e', n', s', m'⟩ := iht (fun q hq => htg q (List.mem_cons_of_mem _ hq))
            (dextend id sub ds2) (by rw [dkeys_dextend]; exact n2)
            (by rw [dkeys_dextend]; exact s2) (by rw [dkeys_dextend]; exact m2 _ h3)
            (by rw [dkeys_dextend]; omega)
          rw [dkeys_dextend] at m'
          refine ⟨ds', ?_, n', s', fun k hk => m' k (m2 k hk)⟩
          rw [List.foldlM_cons]
          simp only [bind, Except.bind, e2, hsub2]
          exact e'
      have hk0 : dkeys (dset id ([] : List π) descs) = dkeys descs ++ [id] := by
        rw [dkeys_dset, if_neg hidn]
      obtain ⟨ds', e', n', s', m'⟩ := hfold _ htargets (dset id [] descs)
        (by
          rw [hk0, List.nodup_append]
          refine ⟨hnd, by simp, ?_⟩
          intro a ha b hb
          rw [List.mem_singleton.1 hb]
          exact fun e => hidn (e ▸ ha))
        (by
          rw [hk0]; intro k hk
          rcases List.mem_append.1 hk with hk | hk
          · exact hsub k hk
          · rw [List.mem_singleton.1 hk]; exact hid)
        (by rw [hk0]; simp)
        (by rw [hk0, List.length_append]; simp only [List.length_singleton]; omega)
      rw [hk0] at m'
      exact ⟨ds', e', n', s', fun k hk => m' k (List.mem_append_left _ hk),
        m' id (List.mem_append_right _ (List.mem_singleton.2 rfl))⟩

theorem descendantsOf_total {ι lam π : Type} [DecidableEq ι] [DecidableEq lam]
    (pid : π → ι) (ids : List ι) (scargs : List (ι × List lam)) (scopes : List (lam × List π))
    (hkeys : dkeys scargs = ids)
    (hclosed : ∀ l ps, dlookup l scopes = some ps → ∀ p ∈ ps, pid p ∈ ids) :
    ∃ r, descendantsOf pid ids scargs scopes = .ok r ∧ ∀ i ∈ ids, i ∈ dkeys r := by
  subst hkeys
  have hN : ∀ ks : List ι, ks.Nodup → (∀ k ∈ ks, k ∈ dkeys scargs) →
      ks.length ≤ (dkeys scargs).length := fun ks h1 h2 => nodup_length_le_of_subset ks _ h1 h2
  have hfold : ∀ (is : List ι), (∀ i ∈ is, i ∈ dkeys scargs) →
      ∀ ds : List (ι × List π), (dkeys ds).Nodup → (∀ k ∈ dkeys ds, k ∈ dkeys scargs) →
        ∃ r, is.foldlM (fun ds i =>
            descVisit pid scargs scopes ((dkeys scargs).length + 1) ds i) ds = Except.ok r ∧
          (dkeys r).Nodup ∧ (∀ k ∈ dkeys r, k ∈ dkeys scargs) ∧
          (∀ k ∈ dkeys ds, k ∈ dkeys r) ∧ ∀ i ∈ is, i ∈ dkeys r := by
    intro is
    induction is with
    | nil =>
      intro _ ds h1 h2
      exact ⟨ds, rfl, h1, h2, fun k hk => hk, fun i hi => absurd hi List.not_mem_nil⟩
    | cons i is iht =>
      intro his ds h1 h2
      obtain ⟨ds1, e1, n1, s1, m1, i1⟩ := descVisit_total pid scargs scopes (dkeys scargs).length
        hclosed hN ((dkeys scargs).length + 1) ds i (his i List.mem_cons_self) h1 h2 (by omega)
      obtain ⟨r, e, n, s, mm, ii⟩ := iht (fun j hj => his j (List.mem_cons_of_mem _ hj)) ds1 n1 s1
      refine ⟨r, ?_, n, s, fun k hk => mm k (m1 k hk), ?_⟩
      · rw [List.foldlM_cons]
        simp only [bind, Except.bind, e1]
        exact e
      · intro j hj
        rcases List.mem_cons.1 hj with rfl | hj
        · exact mm _ i1
        · exact ii j hj
  obtain ⟨r, e, _, _, _, ii⟩ := hfold (dkeys scargs) (fun i hi => hi) [] List.nodup_nil
    (fun k hk => absurd hk List.not_mem_nil)
  exact ⟨r, e, ii⟩

end DescLemmas

/-- "scope descendants … always terminate": on EVERY MRS (cyclic handle constraints,
self-scoping arguments, …) the fuelled model returns normally. -/
theorem MRS.descendants_total (m : MRS) :
    ∃ r, m.descendants = .ok r ∧ ∀ i ∈ m.ids, i ∈ dkeys r := by
  unfold MRS.descendants
  apply descendantsOf_total
  · unfold MRS.scargs dkeys
    rw [List.map_map]
    exact preds_map_fst m
  · intro l ps hl p hp
    have hmem := (mem_scopeMap m l ps).1 (dlookup_mem hl)
    rw [hmem.1] at hp
    have hpp : p ∈ m.preds := (List.mem_filter.1 hp).1
    rw [← preds_map_fst m]
    exact List.mem_map.2 ⟨p, hpp, rfl⟩

theorem MRS.representatives_total (m : MRS) : ∃ r, m.representatives = .ok r := by
  obtain ⟨d, hd, _⟩ := MRS.descendants_total m
  unfold MRS.representatives
  rw [hd]
  exact ⟨_, rfl⟩

end Verif.Sem
