/-
Character-level pieces shared by the text-level lexer models: Python `\s`, `str.splitlines()` breaks, and the LNK
token class `<(?:-?\d+[:#]-?\d+|@\d+|\d+(?: +\d+)*)>` (the same pattern in simplemrs.py, simpledmrs.py and eds.py)
with the lemma that it reads back `Lnk.str` (`lnk_shape`).

These definitions and proofs are a verbatim copy of the corresponding parts of Verif/C01/{Model,Lexer,LexSpec,
LexLemmas}.lean (written by the C01 builder), placed here in their own namespace so that other properties (C03) do
not depend on C01's files.  Core Lean only.
-/
import Verif.Common.CodecLemmas

namespace Verif.LnkLex
open Verif.Codec Verif.Py

/-- Python `\s` (str patterns): `str.isspace()` characters. -/
def isPySpace (c : Char) : Bool :=
  let n := c.toNat
  (9 ≤ n && n ≤ 13) || (28 ≤ n && n ≤ 32) || n = 0x85 || n = 0xA0 || n = 0x1680
  || (0x2000 ≤ n && n ≤ 0x200A) || n = 0x2028 || n = 0x2029 || n = 0x202F || n = 0x205F || n = 0x3000

def isD (c : Char) : Bool := '0' ≤ c ∧ c ≤ '9'

def digits1 (s : Str) : Option (Str × Str) :=
  let d := s.takeWhile isD
  if d.isEmpty then none else some (d, s.dropWhile isD)

def optMinus (s : Str) : Str × Str :=
  match s with
  | '-' :: r => (['-'], r)
  | _ => ([], s)

/-- `-?\d+`. -/
def sInt (s : Str) : Option (Str × Str) :=
  let (m, r) := optMinus s
  match digits1 r with
  | some (d, r') => some (m ++ d, r')
  | none => none

/-- `(?: +\d+)*>` after the first number of the token alternative; returns the matched text up to
and including `>`. -/
def tokTail : Nat → Str → Option (Str × Str)
  | 0, _ => none
  | fuel + 1, s =>
    match s with
    | '>' :: r => some (['>'], r)
    | ' ' :: _ =>
      let sp := s.takeWhile (· = ' ')
      match digits1 (s.dropWhile (· = ' ')) with
      | some (d, r) => match tokTail fuel r with
        | some (t, r') => some (sp ++ d ++ t, r')
        | none => none
      | none => none
    | _ => none

/-- the LNK class `<(?:-?\d+[:#]-?\d+|@\d+|\d+(?: +\d+)*)>` at a `<` (input: after the `<`);
returns the whole token text and the rest. -/
def mLnk (s : Str) : Option (Str × Str) :=
  let alt1 : Option (Str × Str) :=
    match sInt s with
    | some (a, c :: r) =>
      if c = ':' ∨ c = '#' then
        match sInt r with
        | some (b, '>' :: r') => some ('<' :: a ++ c :: b ++ ['>'], r')
        | _ => none
      else none
    | _ => none
  match alt1 with
  | some x => some x
  | none =>
    match s with
    | '@' :: r =>
      match digits1 r with
      | some (d, '>' :: r') => some ('<' :: '@' :: d ++ ['>'], r')
      | _ => none
    | _ =>
      match digits1 s with
      | some (d, r) => match tokTail (r.length + 1) r with
        | some (t, r') => some ('<' :: d ++ t, r')
        | none => none
      | none => none

def isLineBreak (c : Char) : Bool :=
  let n := c.toNat
  n = 10 || n = 13 || n = 11 || n = 12 || n = 28 || n = 29 || n = 30 || n = 0x85 || n = 0x2028 || n = 0x2029

/-- `str.splitlines()` as far as tokenisation is concerned. -/
def splitLines : Str → List Str
  | [] => [[]]
  | c :: r =>
    if isLineBreak c then [] :: splitLines r
    else match splitLines r with
      | [] => [[c]]
      | l :: ls => (c :: l) :: ls

/-- the Lnk values the LNK token class can carry in text: token ids and edge ids are natural numbers,
at least one token id. -/
def LnkOK : Lnk → Prop
  | .unspec => False
  | .charspan _ _ => True
  | .chartspan _ _ => True
  | .tokens ts => ts ≠ [] ∧ ∀ t ∈ ts, 0 ≤ t
  | .edge n => 0 ≤ n

theorem isDigit_isD {c : Char} (h : c.isDigit = true) : isD c = true := by
  simp only [Char.isDigit, Bool.and_eq_true, decide_eq_true_eq] at h
  simp only [isD, decide_eq_true_eq, Char.le_def]
  exact ⟨h.1, h.2⟩

theorem lb_space {c : Char} (h : isLineBreak c = true) : isPySpace c = true := by
  simp only [isLineBreak, Bool.or_eq_true, decide_eq_true_eq] at h
  simp only [isPySpace, Bool.or_eq_true, Bool.and_eq_true, decide_eq_true_eq]
  omega

/-! ### takeWhile / dropWhile -/

theorem tw_stop (p : Char → Bool) (a rest : Str) (ha : ∀ c ∈ a, p c = true)
    (h : ∀ x r, rest = x :: r → p x = false) :
    (a ++ rest).takeWhile p = a ∧ (a ++ rest).dropWhile p = rest := by
  induction a with
  | nil =>
    cases rest with
    | nil => simp
    | cons x r => simp [h x r rfl]
  | cons c a ih =>
    have hc := ha c (by simp)
    have := ih (fun c hc => ha c (by simp [hc]))
    simp [hc, this.1, this.2]

/-- non-empty ASCII digit strings -/
def Dig (D : Str) : Prop := D ≠ [] ∧ ∀ c ∈ D, isD c = true

theorem dig_natStr (n : Nat) : Dig (natStr n) :=
  ⟨natStr_ne_nil n, fun _ hc => isDigit_isD (mem_natStr_isDigit hc)⟩

/-- what may follow a digit string -/
def NoD (rest : Str) : Prop := ∀ x r, rest = x :: r → isD x = false

theorem digits1_dig {D rest : Str} (hD : Dig D) (h : NoD rest) :
    digits1 (D ++ rest) = some (D, rest) := by
  have := tw_stop isD D rest hD.2 h
  unfold digits1
  simp [this.1, this.2, hD.1]

theorem optMinus_ne (d : Char) (r : Str) (h : d ≠ '-') : optMinus (d :: r) = ([], d :: r) := by
  unfold optMinus; split <;> simp_all

theorem sInt_dig {D rest : Str} (hD : Dig D) (h : NoD rest) :
    sInt (D ++ rest) = some (D, rest) := by
  obtain ⟨hne, hall⟩ := hD
  cases D with
  | nil => exact absurd rfl hne
  | cons d ds =>
    have hd : d ≠ '-' := by
      intro e; have := hall d (by simp); rw [e] at this; revert this; decide
    have h1 := digits1_dig (D := d :: ds) ⟨hne, hall⟩ h
    simp only [List.cons_append] at h1 ⊢
    simp [sInt, optMinus_ne _ _ hd, h1]

theorem sInt_minus_dig {D rest : Str} (hD : Dig D) (h : NoD rest) :
    sInt ('-' :: D ++ rest) = some ('-' :: D, rest) := by
  have h1 := digits1_dig hD h
  simp [sInt, optMinus, h1]

/-- `-?\d+` strings -/
def SInt (A : Str) : Prop := Dig A ∨ ∃ D, Dig D ∧ A = '-' :: D

theorem sint_intStr (i : Int) : SInt (intStr i) := by
  cases i with
  | ofNat n => exact Or.inl (dig_natStr n)
  | negSucc n => exact Or.inr ⟨_, dig_natStr (n + 1), rfl⟩

theorem sInt_sint {A rest : Str} (hA : SInt A) (h : NoD rest) : sInt (A ++ rest) = some (A, rest) := by
  rcases hA with hA | ⟨D, hD, rfl⟩
  · exact sInt_dig hA h
  · exact sInt_minus_dig hD h

theorem noD_cons {c : Char} {r : Str} (h : isD c = false) : NoD (c :: r) := by
  intro x r' e; cases e; exact h

/-! ### the LNK class -/

theorem mLnk_span {A B : Str} (c : Char) (rest : Str) (hc : c = ':' ∨ c = '#') (hA : SInt A) (hB : SInt B) :
    mLnk (A ++ (c :: (B ++ ('>' :: rest)))) = some ('<' :: (A ++ (c :: (B ++ ['>']))), rest) := by
  have hcd : isD c = false := by rcases hc with rfl | rfl <;> decide
  have h1 := sInt_sint (rest := c :: (B ++ ('>' :: rest))) hA (noD_cons hcd)
  have h2 := sInt_sint (rest := '>' :: rest) hB (noD_cons (by decide))
  simp [mLnk, h1, h2, hc]

theorem sInt_at (r : Str) : sInt ('@' :: r) = none := by
  have : isD '@' = false := by decide
  simp [sInt, optMinus, digits1, this]

theorem mLnk_edge {D : Str} (rest : Str) (hD : Dig D) :
    mLnk ('@' :: (D ++ ('>' :: rest))) = some ('<' :: '@' :: (D ++ ['>']), rest) := by
  have h2 := digits1_dig (rest := '>' :: rest) hD (noD_cons (by decide))
  simp [mLnk, sInt_at, h2]

def tailStr : List Str → Str
  | [] => []
  | D :: Ds => ' ' :: (D ++ tailStr Ds)

theorem joinSp_tail (D : Str) (Ds : List Str) : joinSp (D :: Ds) = D ++ tailStr Ds := by
  induction Ds generalizing D with
  | nil => simp [joinSp, tailStr]
  | cons E Ds ih => simp [joinSp, tailStr, ih E]

theorem noD_tail (Ds : List Str) (rest : Str) : NoD (tailStr Ds ++ ('>' :: rest)) := by
  cases Ds with
  | nil => exact noD_cons (by decide)
  | cons D Ds => exact noD_cons (by decide)

theorem tokTail_ok (Ds : List Str) (hDs : ∀ D ∈ Ds, Dig D) : ∀ (fuel : Nat) (rest : Str),
    (tailStr Ds ++ ('>' :: rest)).length < fuel →
    tokTail fuel (tailStr Ds ++ ('>' :: rest)) = some (tailStr Ds ++ ['>'], rest) := by
  induction Ds with
  | nil =>
    intro fuel rest hf
    cases fuel with
    | zero => cases hf
    | succ f => simp [tailStr, tokTail]
  | cons D Ds ih =>
    intro fuel rest hf
    cases fuel with
    | zero => cases hf
    | succ f =>
      have hD := hDs D (by simp)
      have hd := digits1_dig (rest := tailStr Ds ++ ('>' :: rest)) hD (noD_tail Ds rest)
      have hsp := tw_stop (fun c => decide (c = ' ')) [] (D ++ (tailStr Ds ++ ('>' :: rest))) (by simp)
        (by
          intro x r e
          obtain ⟨hne, hall⟩ := hD
          cases D with
          | nil => exact absurd rfl hne
          | cons d ds =>
            simp only [List.cons_append, List.cons.injEq] at e
            have := hall d (by simp)
            rw [e.1] at this
            cases hx : decide (x = ' ') with
            | false => rfl
            | true => simp at hx; rw [hx] at this; revert this; decide)
      have hih := ih (fun E hE => hDs E (by simp [hE])) f rest (by
        simp [tailStr] at hf ⊢; omega)
      simp only [List.nil_append] at hsp
      simp [tailStr, tokTail, hsp.1, hsp.2, hd, hih]

theorem mLnk_tokens {D : Str} (Ds : List Str) (rest : Str) (hD : Dig D) (hDs : ∀ E ∈ Ds, Dig E) :
    mLnk (D ++ (tailStr Ds ++ ('>' :: rest))) = some ('<' :: (D ++ (tailStr Ds ++ ['>'])), rest) := by
  have h1 := sInt_dig (rest := tailStr Ds ++ ('>' :: rest)) hD (noD_tail Ds rest)
  have h2 := digits1_dig (rest := tailStr Ds ++ ('>' :: rest)) hD (noD_tail Ds rest)
  have h3 := tokTail_ok Ds hDs ((tailStr Ds ++ ('>' :: rest)).length + 1) rest (Nat.lt_succ_self _)
  obtain ⟨hne, hall⟩ := hD
  cases D with
  | nil => exact absurd rfl hne
  | cons d ds =>
    have hd : d ≠ '@' := by
      intro e; have := hall d (by simp); rw [e] at this; revert this; decide
    unfold mLnk
    cases Ds with
    | nil =>
      simp only [tailStr, List.nil_append] at h1 h2 h3 ⊢
      simp only [h1]
      simp only [List.cons_append] at h2 ⊢
      split
      · rename_i x hx; simp at hx
      · split
        · rename_i r hx; simp at hx; exact absurd hx.1 hd
        · simp at h2 h3; simp [h2, h3]
    | cons E Es =>
      simp only [tailStr, List.cons_append] at h1 h2 h3 ⊢
      simp only [h1]
      split
      · rename_i x hx; simp at hx
      · split
        · rename_i r hx; simp at hx; exact absurd hx.1 hd
        · simp at h2 h3; simp [h2, h3]

/-- the class `[-0-9:#@ ]` -/
def cls (c : Char) : Bool := c = '-' || isD c || c = ':' || c = '#' || c = '@' || c = ' '

theorem cls_sint {A : Str} (hA : SInt A) : ∀ c ∈ A, cls c = true := by
  intro c hc
  rcases hA with hA | ⟨D, hD, rfl⟩
  · simp [cls, hA.2 c hc]
  · rcases List.mem_cons.1 hc with rfl | hc
    · decide
    · simp [cls, hD.2 c hc]

theorem cls_tail (Ds : List Str) (hDs : ∀ E ∈ Ds, Dig E) : ∀ c ∈ tailStr Ds, cls c = true := by
  induction Ds with
  | nil => intro c hc; simp [tailStr] at hc
  | cons E Es ih =>
    intro c hc
    simp only [tailStr, List.mem_cons, List.mem_append] at hc
    rcases hc with rfl | hc | hc
    · decide
    · simp [cls, (hDs E (by simp)).2 c hc]
    · exact ih (fun F hF => hDs F (by simp [hF])) c hc

theorem intStr_nonneg {i : Int} (h : 0 ≤ i) : Dig (intStr i) := by
  cases i with
  | ofNat n => exact dig_natStr n
  | negSucc n => exact absurd h (by omega)

/-- shape of an expressible alignment: `<inner>` over the class, read back by `mLnk`. -/
theorem lnk_shape (l : Lnk) (hl : LnkOK l) : ∃ inner, l.str = '<' :: (inner ++ ['>']) ∧
    (∀ c ∈ inner, cls c = true) ∧ ∀ rest, mLnk (inner ++ ('>' :: rest)) = some (l.str, rest) := by
  cases l with
  | unspec => exact absurd hl (by simp [LnkOK])
  | charspan a b =>
    refine ⟨intStr a ++ (':' :: intStr b), by simp [Lnk.str], ?_, ?_⟩
    · intro c hc
      simp only [List.mem_append, List.mem_cons] at hc
      rcases hc with hc | rfl | hc
      · exact cls_sint (sint_intStr a) c hc
      · decide
      · exact cls_sint (sint_intStr b) c hc
    · intro rest
      have := mLnk_span ':' rest (Or.inl rfl) (sint_intStr a) (sint_intStr b)
      simpa [Lnk.str] using this
  | chartspan a b =>
    refine ⟨intStr a ++ ('#' :: intStr b), by simp [Lnk.str], ?_, ?_⟩
    · intro c hc
      simp only [List.mem_append, List.mem_cons] at hc
      rcases hc with hc | rfl | hc
      · exact cls_sint (sint_intStr a) c hc
      · decide
      · exact cls_sint (sint_intStr b) c hc
    · intro rest
      have := mLnk_span '#' rest (Or.inr rfl) (sint_intStr a) (sint_intStr b)
      simpa [Lnk.str] using this
  | edge n =>
    have hn : Dig (intStr n) := intStr_nonneg hl
    refine ⟨'@' :: intStr n, by simp [Lnk.str], ?_, ?_⟩
    · intro c hc
      rcases List.mem_cons.1 hc with rfl | hc
      · decide
      · simp [cls, hn.2 c hc]
    · intro rest
      have := mLnk_edge rest hn
      simpa [Lnk.str] using this
  | tokens ts =>
    obtain ⟨hne, hpos⟩ := hl
    cases ts with
    | nil => exact absurd rfl hne
    | cons t ts =>
      have hD : Dig (intStr t) := intStr_nonneg (hpos t (by simp))
      have hDs : ∀ E ∈ ts.map intStr, Dig E := by
        intro E hE
        obtain ⟨u, hu, rfl⟩ := List.mem_map.1 hE
        exact intStr_nonneg (hpos u (by simp [hu]))
      have hstr : (Lnk.tokens (t :: ts)).str = '<' :: (intStr t ++ (tailStr (ts.map intStr) ++ ['>'])) := by
        simp [Lnk.str, joinSp_tail]
      refine ⟨intStr t ++ tailStr (ts.map intStr), by simp [hstr], ?_, ?_⟩
      · intro c hc
        rcases List.mem_append.1 hc with hc | hc
        · simp [cls, hD.2 c hc]
        · exact cls_tail _ hDs c hc
      · intro rest
        have := mLnk_tokens (ts.map intStr) rest hD hDs
        rw [hstr]
        simpa using this

theorem splitLines_noLB (s : Str) (h : ∀ c ∈ s, isLineBreak c = false) : splitLines s = [s] := by
  induction s with
  | nil => rfl
  | cons c r ih =>
    have := ih (fun x hx => h x (by simp [hx]))
    simp [splitLines, h c (by simp), this]

theorem isD_noLB {c : Char} (h : isD c = true) : isLineBreak c = false := by
  simp only [isD, decide_eq_true_eq, Char.le_def, UInt32.le_iff_toNat_le] at h
  have h1 : 48 ≤ c.toNat := h.1
  have h2 : c.toNat ≤ 57 := h.2
  simp only [isLineBreak, Bool.or_eq_false_iff, decide_eq_false_iff_not]
  omega

theorem cls_noLB {c : Char} (h : cls c = true) : isLineBreak c = false := by
  simp only [cls, Bool.or_eq_true, decide_eq_true_eq] at h
  rcases h with ((((rfl | h) | rfl) | rfl) | rfl) | rfl
  · decide
  · exact isD_noLB h
  · decide
  · decide
  · decide
  · decide

theorem mem_escapeDQ {s : Str} {c : Char} (h : c ∈ escapeDQ s) : c = '\\' ∨ c ∈ s := by
  induction s with
  | nil => simp [escapeDQ] at h
  | cons d s ih =>
    simp only [escapeDQ] at h
    split at h
    · simp only [List.mem_cons] at h
      rcases h with h | h | h
      · exact Or.inl h
      · exact Or.inr (by simp [h])
      · rcases ih h with h | h
        · exact Or.inl h
        · exact Or.inr (by simp [h])
    · simp only [List.mem_cons] at h
      rcases h with h | h
      · exact Or.inr (by simp [h])
      · rcases ih h with h | h
        · exact Or.inl h
        · exact Or.inr (by simp [h])

end Verif.LnkLex
