/-
Lemmas about the shared codec machinery (Verif/Common/Codec.lean).  Frozen names:
  unescapeDQ_escapeDQ, scanDQ_escapeDQ, lnk_roundtrip,
  parseNat_natStr, parseInt_intStr, escapeDQ_injective, scanDQ_sound
-/
import Verif.Common.Codec

namespace Verif.Codec
open Verif.Py

/-! ### escape / unescape / scan -/

/-- "decoding the encoded text yields … the same … constant": unescape undoes escape, for every string. -/
theorem unescapeDQ_escapeDQ (s : Str) : unescapeDQ (escapeDQ s) = s := by
  induction s with
  | nil => rfl
  | cons c s ih =>
    by_cases h : c = '\\' ∨ c = '"'
    · simp only [escapeDQ, h, if_true]
      simp only [unescapeDQ, if_true, ih]
    · simp only [escapeDQ, h, if_false]
      have hc : c ≠ '\\' := fun e => h (Or.inl e)
      cases hs : escapeDQ s with
      | nil =>
        rw [hs] at ih
        simp only [unescapeDQ] at ih ⊢
        rw [← ih]
      | cons d t =>
        rw [hs] at ih
        simp only [unescapeDQ, hc, if_false, ih]

theorem escapeDQ_injective (a b : Str) (h : escapeDQ a = escapeDQ b) : a = b := by
  rw [← unescapeDQ_escapeDQ a, ← unescapeDQ_escapeDQ b, h]

/-- The closing quote is found exactly at the end of an escaped string, whatever backslashes and
quotes the string contains and whatever follows. -/
theorem scanDQ_escapeDQ (s rest : Str) :
    scanDQ (escapeDQ s ++ '"' :: rest) = some (escapeDQ s, rest) := by
  induction s with
  | nil =>
    cases rest with
    | nil => rfl
    | cons r rs => simp [escapeDQ, scanDQ]
  | cons c s ih =>
    by_cases h : c = '\\' ∨ c = '"'
    · simp only [escapeDQ, h, if_true, List.cons_append]
      have hd : c ≠ '\n' := by
        rcases h with h | h <;> (subst h; decide)
      simp only [scanDQ, ih, hd, if_false, if_true]
      simp
    · simp only [escapeDQ, h, if_false, List.cons_append]
      have h1 : c ≠ '"' := fun e => h (Or.inr e)
      have h2 : c ≠ '\\' := fun e => h (Or.inl e)
      cases hs : escapeDQ s ++ '"' :: rest with
      | nil => simp at hs
      | cons d t =>
        rw [hs] at ih
        simp only [scanDQ, h1, h2, if_false, ih]

/-- What the scanner returns is a prefix of its input followed by the closing quote. -/
theorem scanDQ_sound : ∀ (n : Nat) (t a r : Str), t.length ≤ n → scanDQ t = some (a, r) → t = a ++ '"' :: r := by
  intro n
  induction n with
  | zero =>
    intro t a r hl h
    cases t with
    | nil => simp [scanDQ] at h
    | cons c t => simp at hl
  | succ n ih =>
    intro t a r hl h
    match t, hl, h with
    | [], _, h => simp [scanDQ] at h
    | [c], _, h =>
      simp only [scanDQ] at h
      split at h
      · rename_i hc; cases h; simp [hc]
      · cases h
    | c :: d :: s, hl, h =>
      simp only [scanDQ] at h
      split at h
      · rename_i hc; cases h; simp [hc]
      · split at h
        · split at h
          · cases h
          · cases hs : scanDQ s with
            | none => rw [hs] at h; cases h
            | some p =>
              obtain ⟨a', r'⟩ := p
              rw [hs] at h
              cases h
              have := ih s a' r (by simp at hl; omega) hs
              rw [this]; simp
        · cases hs : scanDQ (d :: s) with
          | none => rw [hs] at h; cases h
          | some p =>
            obtain ⟨a', r'⟩ := p
            rw [hs] at h
            cases h
            have := ih (d :: s) a' r (by simp at hl ⊢; omega) hs
            rw [this]; simp

/-! ### decimal numbers -/

theorem natStr_all_digit (n : Nat) : (natStr n).all Char.isDigit = true := by
  simp only [List.all_eq_true, natStr]
  intro c hc
  exact Nat.isDigit_of_mem_toDigits (by decide) (by decide) hc

theorem natStr_ne_nil (n : Nat) : natStr n ≠ [] := Nat.toDigits_ne_nil

theorem digitsToNat_natStr (n : Nat) : digitsToNat (natStr n) = n := by
  unfold digitsToNat natStr
  rw [← Nat.ofDigitChars_eq_foldl]
  exact Nat.ofDigitChars_toDigits (by decide) (by decide)

theorem parseNat_natStr (n : Nat) : parseNat (natStr n) = some n := by
  unfold parseNat
  have h1 := natStr_ne_nil n
  have h2 := natStr_all_digit n
  have h3 := digitsToNat_natStr n
  cases h : natStr n with
  | nil => exact absurd h h1
  | cons c r => rw [h] at h2 h3; simp [h2, h3]

theorem mem_natStr_isDigit {n : Nat} {c : Char} (h : c ∈ natStr n) : c.isDigit = true :=
  Nat.isDigit_of_mem_toDigits (by decide) (by decide) h

theorem natStr_head_ne_minus (n : Nat) (r : Str) : natStr n ≠ '-' :: r := by
  intro h
  have : '-' ∈ natStr n := by rw [h]; simp
  have := mem_natStr_isDigit this
  revert this; decide

theorem parseInt_intStr (i : Int) : parseInt (intStr i) = some i := by
  cases i with
  | ofNat n =>
    simp only [intStr]
    cases h : natStr n with
    | nil => exact absurd h (natStr_ne_nil n)
    | cons c r =>
      have hc : c ≠ '-' := by
        intro e; subst e; exact natStr_head_ne_minus n r h
      have := parseNat_natStr n
      rw [h] at this
      unfold parseInt
      split
      · rename_i heq; simp at heq; exact absurd heq.1 hc
      · simp [this]
  | negSucc n =>
    simp only [intStr, parseInt, parseNat_natStr]
    simp [Int.negSucc_eq]

/-- the characters of `str(i)` are digits or the minus sign. -/
theorem mem_intStr {i : Int} {c : Char} (h : c ∈ intStr i) : c.isDigit = true ∨ c = '-' := by
  cases i with
  | ofNat n => exact Or.inl (mem_natStr_isDigit h)
  | negSucc n =>
    simp only [intStr, List.mem_cons] at h
    rcases h with h | h
    · exact Or.inr h
    · exact Or.inl (mem_natStr_isDigit h)

theorem intStr_ne_nil (i : Int) : intStr i ≠ [] := by
  cases i with
  | ofNat n => exact natStr_ne_nil n
  | negSucc n => simp [intStr]

theorem not_mem_intStr (i : Int) (c : Char) (h1 : c.isDigit = false) (h2 : c ≠ '-') : c ∉ intStr i := by
  intro h
  rcases mem_intStr h with h | h
  · rw [h1] at h; cases h
  · exact h2 h

/-! ### splitting -/

theorem splitOn_not_mem (c : Char) (s : Str) (h : c ∉ s) : splitOn c s = [s] := by
  induction s with
  | nil => rfl
  | cons x xs ih =>
    have hx : x ≠ c := fun e => h (by simp [e])
    have hxs : c ∉ xs := fun e => h (by simp [e])
    simp [splitOn, hx, ih hxs, consHead]

theorem splitOn_append_sep (c : Char) (a b : Str) (h : c ∉ a) :
    splitOn c (a ++ c :: b) = a :: splitOn c b := by
  induction a with
  | nil => simp [splitOn]
  | cons x xs ih =>
    have hx : x ≠ c := fun e => h (by simp [e])
    have hxs : c ∉ xs := fun e => h (by simp [e])
    simp [splitOn, hx, ih hxs, consHead]

theorem splitOn_joinSp (ws : List Str) (hne : ws ≠ []) (h : ∀ w ∈ ws, ' ' ∉ w) :
    splitOn ' ' (joinSp ws) = ws := by
  induction ws with
  | nil => exact absurd rfl hne
  | cons w ws ih =>
    cases ws with
    | nil => simp [joinSp, splitOn_not_mem ' ' w (h w (by simp))]
    | cons v vs =>
      simp only [joinSp]
      rw [splitOn_append_sep ' ' w _ (h w (by simp))]
      rw [ih (by simp) (fun x hx => h x (by simp [hx]))]

theorem mapMOpt_parseInt (ts : List Int) : mapMOpt parseInt (ts.map intStr) = some ts := by
  induction ts with
  | nil => rfl
  | cons t ts ih => simp [mapMOpt, parseInt_intStr, ih]

/-! ### Lnk -/

private theorem mem_inner_pair {a b : Int} {sep c : Char} (hc1 : c.isDigit = false) (hc2 : c ≠ '-') (hs : c ≠ sep) :
    c ∉ intStr a ++ sep :: intStr b := by
  simp only [List.mem_append, List.mem_cons, not_or]
  exact ⟨not_mem_intStr a c hc1 hc2, hs, not_mem_intStr b c hc1 hc2⟩

private theorem parsePair_ok (sep : Char) (hs1 : sep.isDigit = false) (hs2 : sep ≠ '-') (a b : Int) :
    parsePair sep (intStr a ++ sep :: intStr b) = .ok (a, b) := by
  unfold parsePair
  rw [splitOn_append_sep sep _ _ (not_mem_intStr a sep hs1 hs2),
      splitOn_not_mem sep _ (not_mem_intStr b sep hs1 hs2)]
  simp [parseInt_intStr]

private theorem head_ne_at (i : Int) (r : Str) : (intStr i ++ r).head? ≠ some '@' := by
  cases hi : intStr i with
  | nil => exact absurd hi (intStr_ne_nil i)
  | cons c t =>
    have : c ∈ intStr i := by rw [hi]; simp
    simp only [List.cons_append, List.head?_cons, ne_eq, Option.some.injEq]
    intro h
    subst h
    rcases mem_intStr this with h' | h'
    · revert h'; decide
    · cases h'

private theorem parse_bracket (x : Str) : Lnk.parse ('<' :: x ++ ['>']) = Lnk.parseInner x := by
  unfold Lnk.parse
  have h1 : ('<' :: x ++ ['>']).isEmpty = false := rfl
  have h2 : ('<' :: x ++ ['>']).getLast? = some '>' := by
    show ('<' :: (x ++ ['>'])).getLast? = some '>'
    rw [← List.cons_append, List.getLast?_concat]
  have h3 : ('<' :: x ++ ['>']).tail.dropLast = x := by simp
  simp only [h1, h2, h3]
  simp

/-- "the surface alignment … the format carries": parsing the string form of an Lnk gives the Lnk
back, for all five kinds (the unspecified one is the empty string). -/
theorem lnk_roundtrip (l : Lnk) : Lnk.parse (Lnk.str l) = .ok l := by
  cases l with
  | unspec => rfl
  | charspan a b =>
    simp only [Lnk.str]
    rw [show '<' :: intStr a ++ ':' :: intStr b ++ ['>'] = '<' :: (intStr a ++ ':' :: intStr b) ++ ['>'] by simp]
    rw [parse_bracket]
    unfold Lnk.parseInner
    have hm : ':' ∈ intStr a ++ ':' :: intStr b := by simp
    simp only [head_ne_at a _, hm, if_true, if_false, parsePair_ok ':' (by decide) (by decide)]
  | chartspan a b =>
    simp only [Lnk.str]
    rw [show '<' :: intStr a ++ '#' :: intStr b ++ ['>'] = '<' :: (intStr a ++ '#' :: intStr b) ++ ['>'] by simp]
    rw [parse_bracket]
    unfold Lnk.parseInner
    have hm : ':' ∉ intStr a ++ '#' :: intStr b := mem_inner_pair (by decide) (by decide) (by decide)
    have hm2 : '#' ∈ intStr a ++ '#' :: intStr b := by simp
    simp only [head_ne_at a _, hm, hm2, if_true, if_false, parsePair_ok '#' (by decide) (by decide)]
  | edge n =>
    simp only [Lnk.str]
    rw [show '<' :: '@' :: intStr n ++ ['>'] = '<' :: ('@' :: intStr n) ++ ['>'] by simp]
    rw [parse_bracket]
    unfold Lnk.parseInner
    simp [parseInt_intStr]
  | tokens ts =>
    simp only [Lnk.str]
    rw [parse_bracket]
    unfold Lnk.parseInner
    have hall : ∀ w ∈ ts.map intStr, ∀ c : Char, c.isDigit = false → c ≠ '-' → c ∉ w := by
      intro w hw c h1 h2
      simp only [List.mem_map] at hw
      obtain ⟨i, _, rfl⟩ := hw
      exact not_mem_intStr i c h1 h2
    have hjoin : ∀ c : Char, c.isDigit = false → c ≠ '-' → c ≠ ' ' → c ∉ joinSp (ts.map intStr) := by
      intro c h1 h2 h3
      generalize ts.map intStr = ws at hall
      induction ws with
      | nil => simp [joinSp]
      | cons w ws ih =>
        cases ws with
        | nil => simpa [joinSp] using hall w (by simp) c h1 h2
        | cons v vs =>
          simp only [joinSp, List.mem_append, List.mem_cons, not_or]
          refine ⟨hall w (by simp) c h1 h2, h3, ?_⟩
          exact ih (fun x hx => hall x (by simp [hx]))
    have hhead : (joinSp (ts.map intStr)).head? ≠ some '@' := by
      intro h
      have : '@' ∈ joinSp (ts.map intStr) := List.mem_of_mem_head? h
      exact hjoin '@' (by decide) (by decide) (by decide) this
    simp only [hhead, hjoin ':' (by decide) (by decide) (by decide),
      hjoin '#' (by decide) (by decide) (by decide), if_false]
    cases hts : ts with
    | nil => simp [joinSp, splitOn, mapMOpt]
    | cons t tl =>
      rw [← hts]
      rw [splitOn_joinSp _ (by simp [hts]) (fun w hw => hall w hw ' ' (by decide) (by decide))]
      have hf : (ts.map intStr).filter (fun w => !w.isEmpty) = ts.map intStr := by
        rw [List.filter_eq_self]
        intro w hw
        simp only [List.mem_map] at hw
        obtain ⟨i, _, rfl⟩ := hw
        have := intStr_ne_nil i
        cases h : intStr i with
        | nil => exact absurd h this
        | cons _ _ => rfl
      rw [hf, mapMOpt_parseInt]

end Verif.Codec
