/-
JSON decoders / encoders of the shared semantic structures for the line protocol.
Counterpart: harness/common/semgen.py (`mrs_to_json`, `dmrs_to_json`, …).

Shapes (names are plain JSON strings — the generators keep them ASCII):
  var    ["x", 5]
  ep     {"pred": s, "label": var, "args": [[role, var], …], "carg": s|null,
          "lnk": [from, to]|null, "surface": s|null, "base": s|null}
  mrs    {"top": var|null, "index": var|null, "rels": [ep…], "hcons": [[hi, rel, lo]…],
          "icons": [[left, rel, right]…], "vars": [[var, [[prop, val]…]]…]}
  node   {"id": int, "pred": s, "type": s|null, "props": [[k, v]…], "carg": s|null,
          "lnk": …, "surface": …, "base": …}
  link   [start, end, role, post]
  dmrs   {"top": int|null, "index": int|null, "nodes": [node…], "links": [link…]}
-/
import Lean.Data.Json
import Verif.Common.Proto
import Verif.Common.Sem
open Lean Verif.Proto

namespace Verif.Sem.J

def optOf {α} (f : Json → Except String α) (j : Json) : Except String (Option α) :=
  match j with
  | Json.null => pure none
  | _ => do pure (some (← f j))

def fieldOpt {α} (f : Json → Except String α) (j : Json) (k : String) : Except String (Option α) :=
  match j.getObjVal? k with
  | .ok v => optOf f v
  | .error _ => pure none

def ofVar (j : Json) : Except String Var := do
  match (← j.getArr?).toList with
  | [s, n] => pure ⟨← s.getStr?, ← n.getNat?⟩
  | _ => throw "bad var"

def ofStrPair (j : Json) : Except String (String × String) := do
  match (← j.getArr?).toList with
  | [a, b] => pure (← a.getStr?, ← b.getStr?)
  | _ => throw "bad pair"

def ofLnk (j : Json) : Except String (Int × Int) := do
  match (← j.getArr?).toList with
  | [a, b] => pure (← a.getInt?, ← b.getInt?)
  | _ => throw "bad lnk"

def ofArg (j : Json) : Except String (Role × Var) := do
  match (← j.getArr?).toList with
  | [r, v] => pure (← r.getStr?, ← ofVar v)
  | _ => throw "bad arg"

def ofEP (j : Json) : Except String EP := do
  pure { predicate := ← getStr j "pred"
         label := ← ofVar (← j.getObjVal? "label")
         args := ← (← getArr j "args").mapM ofArg
         carg := ← fieldOpt (·.getStr?) j "carg"
         lnk := ← fieldOpt ofLnk j "lnk"
         surface := ← fieldOpt (·.getStr?) j "surface"
         base := ← fieldOpt (·.getStr?) j "base" }

def ofHCons (j : Json) : Except String HCons := do
  match (← j.getArr?).toList with
  | [a, r, b] => pure ⟨← ofVar a, ← r.getStr?, ← ofVar b⟩
  | _ => throw "bad hcons"

def ofICons (j : Json) : Except String ICons := do
  match (← j.getArr?).toList with
  | [a, r, b] => pure ⟨← ofVar a, ← r.getStr?, ← ofVar b⟩
  | _ => throw "bad icons"

def ofVarProps (j : Json) : Except String (Var × Props) := do
  match (← j.getArr?).toList with
  | [v, ps] => pure (← ofVar v, ← (← ps.getArr?).toList.mapM ofStrPair)
  | _ => throw "bad variable entry"

def arrOrEmpty (j : Json) (k : String) : Except String (List Json) :=
  match j.getObjVal? k with
  | .ok v => do pure (← v.getArr?).toList
  | .error _ => pure []

def ofMRS (j : Json) : Except String MRS := do
  pure { top := ← fieldOpt ofVar j "top"
         index := ← fieldOpt ofVar j "index"
         rels := ← (← getArr j "rels").mapM ofEP
         hcons := ← (← arrOrEmpty j "hcons").mapM ofHCons
         icons := ← (← arrOrEmpty j "icons").mapM ofICons
         variables := ← (← arrOrEmpty j "vars").mapM ofVarProps }

def ofNode (j : Json) : Except String Node := do
  pure { id := ← getInt j "id"
         predicate := ← getStr j "pred"
         type := ← fieldOpt (·.getStr?) j "type"
         properties := ← (← arrOrEmpty j "props").mapM ofStrPair
         carg := ← fieldOpt (·.getStr?) j "carg"
         lnk := ← fieldOpt ofLnk j "lnk"
         surface := ← fieldOpt (·.getStr?) j "surface"
         base := ← fieldOpt (·.getStr?) j "base" }

def ofLink (j : Json) : Except String Link := do
  match (← j.getArr?).toList with
  | [a, b, r, p] => pure ⟨← a.getInt?, ← b.getInt?, ← r.getStr?, ← p.getStr?⟩
  | _ => throw "bad link"

def ofDMRS (j : Json) : Except String DMRS := do
  pure { top := ← fieldOpt (·.getInt?) j "top"
         index := ← fieldOpt (·.getInt?) j "index"
         nodes := ← (← getArr j "nodes").mapM ofNode
         links := ← (← arrOrEmpty j "links").mapM ofLink }

/-! ### encoders -/

def jVar (v : Var) : Json := Json.arr #[Json.str v.sort, jNat v.vid]
def jOpt {α} (f : α → Json) : Option α → Json
  | none => Json.null
  | some a => f a
def jStrPair (p : String × String) : Json := Json.arr #[Json.str p.1, Json.str p.2]
def jLnk (l : Int × Int) : Json := Json.arr #[jInt l.1, jInt l.2]

def jEP (e : EP) : Json := Json.mkObj [
  ("pred", Json.str e.predicate), ("label", jVar e.label),
  ("args", jList (fun a : Role × Var => Json.arr #[Json.str a.1, jVar a.2]) e.args),
  ("carg", jOpt Json.str e.carg), ("lnk", jOpt jLnk e.lnk),
  ("surface", jOpt Json.str e.surface), ("base", jOpt Json.str e.base)]

def jHCons (h : HCons) : Json := Json.arr #[jVar h.hi, Json.str h.rel, jVar h.lo]
def jICons (h : ICons) : Json := Json.arr #[jVar h.left, Json.str h.rel, jVar h.right]

def jMRS (m : MRS) : Json := Json.mkObj [
  ("top", jOpt jVar m.top), ("index", jOpt jVar m.index),
  ("rels", jList jEP m.rels), ("hcons", jList jHCons m.hcons), ("icons", jList jICons m.icons),
  ("vars", jList (fun vp : Var × Props => Json.arr #[jVar vp.1, jList jStrPair vp.2]) m.variables)]

def jNode (n : Node) : Json := Json.mkObj [
  ("id", jInt n.id), ("pred", Json.str n.predicate), ("type", jOpt Json.str n.type),
  ("props", jList jStrPair n.properties), ("carg", jOpt Json.str n.carg), ("lnk", jOpt jLnk n.lnk),
  ("surface", jOpt Json.str n.surface), ("base", jOpt Json.str n.base)]

def jLink (l : Link) : Json := Json.arr #[jInt l.start, jInt l.stop, Json.str l.role, Json.str l.post]

def jDMRS (d : DMRS) : Json := Json.mkObj [
  ("top", jOpt jInt d.top), ("index", jOpt jInt d.index),
  ("nodes", jList jNode d.nodes), ("links", jList jLink d.links)]

def errTag : Err → String
  | .keyError => "KeyError"
  | .valueError => "ValueError"
  | .fuel => "fuel"

end Verif.Sem.J
