/-
Reusable lemmas about the translator's runtime (`PyRt`) and about the shapes `do`-notation produces
(`for` loops in `Except`, `mapM`), used by the `Verif/<PID>/Translated.lean` equivalence proofs.  Core Lean only.
-/
import Verif.Common.PyRt

namespace Verif.PyRt
open Verif.Py

/-! ### single-character instances = the `Verif.Py` helpers the models use -/

theorem pyReplaceGo_single (c : Char) (r s : Str) : pyReplaceGo [c] r 0 s = replaceChar c r s := by
  induction s with
  | nil => rfl
  | cons x xs ih =>
    by_cases h : x = c
    · subst h
      simp [pyReplaceGo, replaceChar, List.flatMap_cons] at ih ⊢
      exact ih
    · have h' : ¬ c = x := fun e => h e.symm
      simp [pyReplaceGo, replaceChar, List.flatMap_cons, h, h'] at ih ⊢
      exact ih

theorem pyReplace_single (s : Str) (c : Char) (r : Str) : pyReplace s [c] r = replaceChar c r s := by
  simp [pyReplace, pyReplaceGo_single]

theorem pySplit_single (s : Str) (c : Char) : pySplit s [c] = splitOn c s := by
  unfold pySplit
  induction s with
  | nil => rfl
  | cons x xs ih =>
    by_cases h : x = c
    · subst h
      simp [pySplitGo, splitOn, ih]
    · have h' : ¬ c = x := fun e => h e.symm
      simp [pySplitGo, splitOn, h, h', ih]

theorem pyJoin_single (c : Char) (ps : List Str) : pyJoin [c] ps = joinWith c ps := by
  induction ps with
  | nil => rfl
  | cons p ps ih =>
    cases ps with
    | nil => rfl
    | cons q qs => simp [pyJoin, joinWith, ih]

theorem pyRstrip_single (s : Str) (c : Char) : pyRstrip s [c] = rstripChar c s := by
  unfold pyRstrip rstripChar
  congr 2
  funext x
  simp [eq_comm]

theorem pyJoin_nil (ps : List Str) : pyJoin [] ps = ps.flatten := by
  induction ps with
  | nil => rfl
  | cons p ps ih =>
    cases ps with
    | nil => simp [pyJoin]
    | cons q qs => simp [pyJoin, ih]

theorem flatten_pyIterStr (s : Str) : (pyIterStr s).flatten = s := by
  induction s with
  | nil => rfl
  | cons x xs ih =>
    simp [pyIterStr] at ih ⊢
    exact ih

/-! ### `Except` plumbing -/

/-- the error translation used when a model has its own error enumeration. -/
def mapErr {ε ε' α} (f : ε → ε') : Except ε α → Except ε' α
  | .ok a => .ok a
  | .error e => .error (f e)

@[simp] theorem mapErr_ok {ε ε' α} (f : ε → ε') (a : α) : mapErr f (.ok a : Except ε α) = .ok a := rfl
@[simp] theorem mapErr_error {ε ε' α} (f : ε → ε') (e : ε) : mapErr f (.error e : Except ε α) = .error (f e) := rfl

theorem mapErr_map {ε ε' α β} (f : ε → ε') (g : α → β) (x : Except ε α) :
    mapErr f (x.map g) = (mapErr f x).map g := by
  cases x <;> rfl

theorem mapErr_bind {ε ε' α β} (f : ε → ε') (x : Except ε α) (k : α → Except ε β) :
    mapErr f (x >>= k) = (mapErr f x >>= fun a => mapErr f (k a)) := by
  cases x <;> rfl

/-- `mapM` commutes with a translation of the error. -/
theorem mapErr_mapM {ε ε' α β} (f : ε → ε') (g : α → Except ε β) (xs : List α) :
    mapErr f (xs.mapM g) = xs.mapM (fun a => mapErr f (g a)) := by
  induction xs with
  | nil => rfl
  | cons x xs ih =>
    rw [List.mapM_cons, List.mapM_cons, mapErr_bind]
    cases hx : g x with
    | error e => simp [mapErr]; rfl
    | ok b =>
      simp only [mapErr_ok]
      show mapErr f (xs.mapM g >>= fun bs => pure (b :: bs)) = _
      rw [mapErr_bind, ih]
      cases List.mapM (fun a => mapErr f (g a)) xs <;> rfl

/-! ### `for x in xs do …` in `Except`: the loop `do`-notation produces is `forIn` over the list; when the body never
`break`s (always `yield`s or throws) it is a left fold in the monad. -/

/-- a loop whose body is `step` followed by `yield`. -/
theorem forIn_yield_cons {ε α σ} (step : α → σ → Except ε σ) (a : α) (as : List α) (s : σ) :
    forIn (m := Except ε) (a :: as) s (fun x st => do let st' ← step x st; pure (ForInStep.yield st'))
      = (step a s >>= fun s' => forIn (m := Except ε) as s' (fun x st => do let st' ← step x st; pure (ForInStep.yield st'))) := by
  rw [List.forIn_cons]
  cases step a s <;> rfl

/-- …and it is `List.foldlM`. -/
theorem forIn_yield_eq_foldlM {ε α σ} (step : α → σ → Except ε σ) (as : List α) (s : σ) :
    forIn (m := Except ε) as s (fun x st => do let st' ← step x st; pure (ForInStep.yield st'))
      = as.foldlM (fun st x => step x st) s := by
  induction as generalizing s with
  | nil => rfl
  | cons a as ih =>
    rw [forIn_yield_cons, List.foldlM_cons]
    cases step a s with
    | error e => rfl
    | ok s' => exact ih s'

/-- one iteration that `yield`s. -/
theorem forIn_cons_bind {σ α β} (f : α → σ → Except PyErr (ForInStep σ)) (a : α) (as : List α) (s s' : σ)
    (k : σ → Except PyErr β) (h : f a s = pure (.yield s')) :
    (forIn (a :: as) s f >>= k) = (forIn as s' f >>= k) := by
  rw [List.forIn_cons, h]; rfl

/-- one iteration that throws. -/
theorem forIn_cons_throw {σ α β} (f : α → σ → Except PyErr (ForInStep σ)) (a : α) (as : List α) (s : σ) (e : PyErr)
    (k : σ → Except PyErr β) (h : f a s = throw e) :
    (forIn (a :: as) s f >>= k) = throw e := by
  rw [List.forIn_cons, h]; rfl

/-! ### `enumerate`, item assignment -/

/-- enumerate from `k`. -/
def enumFrom {α} : Nat → List α → List (Int × α)
  | _, [] => []
  | k, x :: xs => ((k : Int), x) :: enumFrom (k + 1) xs

theorem zipWith_range'_enumFrom {α} (xs : List α) (k : Nat) :
    List.zipWith (fun (i : Nat) x => ((i : Int), x)) (List.range' k xs.length) xs = enumFrom k xs := by
  induction xs generalizing k with
  | nil => rfl
  | cons x xs ih => simp [List.range'_succ, enumFrom, ih]

theorem pyEnumerate_eq {α} (xs : List α) : pyEnumerate xs = enumFrom 0 xs := by
  unfold pyEnumerate
  rw [List.range_eq_range', zipWith_range'_enumFrom]

theorem pySetItem_mid (pre : List Int) (x v : Int) (post : List Int) :
    pySetItem (pre ++ x :: post) (pre.length : Int) v = .ok (pre ++ v :: post) := by
  unfold pySetItem
  have h1 : ¬ ((pre.length : Int) < 0) := by omega
  simp [h1]
  omega

/-! ### repetition and descending ranges (`[x] * n`, `range(a, a - n, -1)`) -/

theorem pyRepeat_single {α} (x : α) (n : Nat) : pyRepeat [x] (n : Int) = List.replicate n x := by
  unfold pyRepeat
  simp only [Int.toNat_natCast]
  induction n with
  | zero => rfl
  | succ n ih => simp [List.replicate_succ, ih]

theorem pyRepeat_single_len {α β} (x : α) (s : List β) : pyRepeat [x] (pyLen s) = List.replicate s.length x :=
  pyRepeat_single x s.length

theorem pyRepeat_single_len_add {α β} (x : α) (s : List β) (k : Nat) :
    pyRepeat [x] (pyLen s + (k : Int)) = List.replicate (s.length + k) x := by
  have : pyLen s + (k : Int) = ((s.length + k : Nat) : Int) := by simp [pyLen]
  rw [this, pyRepeat_single]

/-- `range(a, a - n, -1)` = `a, a-1, …, a-n+1`. -/
theorem pyRange_down (a : Int) (n : Nat) :
    pyRange a (a - (n : Int)) (-1) = (List.range n).map (fun (k : Nat) => a - (k : Int)) := by
  unfold pyRange rangeList
  have h1 : ¬ ((-1 : Int) > 0) := by omega
  have h2 : (-1 : Int) < 0 := by omega
  simp only [h1, h2, if_false, if_true]
  by_cases hn : n = 0
  · subst hn; simp
  · have h3 : a - (n : Int) < a := by omega
    simp only [h3, if_true]
    have hc : ((a - (a - (n : Int)) - 1) / (- -1) + 1).toNat = n := by
      have : a - (a - (n : Int)) - 1 = (n : Int) - 1 := by omega
      rw [this]
      simp
    rw [hc]
    apply List.map_congr_left
    intro k _
    try omega

/-! ### fuel loops: `for _ in List.replicate fuel () do …` -/

theorem forIn_replicate_succ {m} [Monad m] {σ} (n : Nat) (s : σ) (f : Unit → σ → m (ForInStep σ)) :
    forIn (List.replicate (n + 1) ()) s f = (f () s >>= fun r => match r with
      | .done s' => pure s'
      | .yield s' => forIn (List.replicate n ()) s' f) := by
  rw [List.replicate_succ, List.forIn_cons]
  congr 1

/-! ### sets as duplicate-free lists -/

theorem pySetAdd_mem {α} [BEq α] [LawfulBEq α] (s : List α) (x y : α) : y ∈ pySetAdd s x ↔ y ∈ s ∨ y = x := by
  unfold pySetAdd
  by_cases h : x ∈ s
  · have hc : s.contains x = true := by simpa using h
    simp only [hc, if_true]
    constructor
    · exact Or.inl
    · rintro (h' | rfl)
      · exact h'
      · exact h
  · simp [h]

theorem pySetUpdate_mem {α} [BEq α] [LawfulBEq α] (xs s : List α) (y : α) : y ∈ pySetUpdate s xs ↔ y ∈ s ∨ y ∈ xs := by
  unfold pySetUpdate
  induction xs generalizing s with
  | nil => simp
  | cons x xs ih =>
    rw [List.foldl_cons, ih, pySetAdd_mem]
    simp only [List.mem_cons]
    constructor
    · rintro ((h | h) | h)
      · exact Or.inl h
      · exact Or.inr (Or.inl h)
      · exact Or.inr (Or.inr h)
    · rintro (h | h | h)
      · exact Or.inl (Or.inl h)
      · exact Or.inl (Or.inr h)
      · exact Or.inr h

theorem pySetAdd_nodup {α} [BEq α] [LawfulBEq α] (s : List α) (x : α) (h : s.Nodup) : (pySetAdd s x).Nodup := by
  unfold pySetAdd
  by_cases hx : x ∈ s
  · have hc : s.contains x = true := by simpa using hx
    simp only [hc, if_true]
    exact h
  · have hc : s.contains x = false := by simpa using hx
    simp only [hc]
    show (s ++ [x]).Nodup
    rw [List.nodup_append]
    refine ⟨h, by simp, ?_⟩
    intro a ha b hb
    simp only [List.mem_singleton] at hb
    subst hb
    intro e
    exact hx (e ▸ ha)

theorem pySetUpdate_nodup {α} [BEq α] [LawfulBEq α] (xs s : List α) (h : s.Nodup) : (pySetUpdate s xs).Nodup := by
  unfold pySetUpdate
  induction xs generalizing s with
  | nil => simpa using h
  | cons x xs ih => exact ih _ (pySetAdd_nodup s x h)

/-- `k in d` in terms of the keys. -/
theorem pyDictContains_iff {κ ν} [BEq κ] [LawfulBEq κ] (d : Dict κ ν) (k : κ) :
    pyDictContains d k = true ↔ k ∈ d.map Prod.fst := by
  unfold pyDictContains
  induction d with
  | nil => simp
  | cons e d ih =>
    rcases e with ⟨k', v⟩
    by_cases h : k = k'
    · subst h; simp [List.lookup]
    · have h' : (k == k') = false := by simpa using h
      simp only [List.lookup, h', List.map_cons, List.mem_cons, h, false_or]
      exact ih

/-! ### dict updates and look-ups -/

theorem pyDictSet_lookup {κ ν} [BEq κ] [LawfulBEq κ] (d : Dict κ ν) (k x : κ) (v : ν) :
    (pyDictSet d k v).lookup x = if x == k then some v else d.lookup x := by
  induction d with
  | nil => simp [pyDictSet, List.lookup]; split <;> simp_all
  | cons e d ih =>
    rcases e with ⟨k', v'⟩
    by_cases hk : k' == k
    · have hkk : k' = k := by simpa using hk
      subst hkk
      simp only [pyDictSet, hk, if_true, List.lookup]
      by_cases hx : x == k' <;> simp [hx]
    · simp only [pyDictSet, hk, List.lookup]
      by_cases hx : x == k'
      · have hxe : x = k' := by simpa using hx
        subst hxe
        have : (x == k) = false := by simpa using hk
        simp [this]
      · simp [List.lookup, hx, ih]

/-- `d[k].add(e)`: `KeyError` exactly when `k` is missing, else only the look-up of `k` changes. -/
theorem pyDictModify_spec {κ ν} [BEq κ] [LawfulBEq κ] (d : Dict κ ν) (k : κ) (f : ν → ν) :
    (d.lookup k = none → pyDictModify d k f = .error .KeyError) ∧
    (∀ v, d.lookup k = some v → ∃ d', pyDictModify d k f = .ok d' ∧
      ∀ x, d'.lookup x = if x == k then some (f v) else d.lookup x) := by
  induction d with
  | nil => exact ⟨fun _ => rfl, fun v h => by simp [List.lookup] at h⟩
  | cons e d ih =>
    rcases e with ⟨k', v'⟩
    by_cases hk : k' == k
    · have hkk : k' = k := by simpa using hk
      subst hkk
      refine ⟨fun h => by simp [List.lookup] at h, fun v h => ?_⟩
      have hv : v' = v := by simpa [List.lookup] using h
      subst hv
      refine ⟨(k', f v') :: d, by simp [pyDictModify], fun x => ?_⟩
      by_cases hx : x == k' <;> simp [List.lookup, hx]
    · have hk2 : (k == k') = false := by
        cases h : (k == k') with
        | false => rfl
        | true => exact absurd (by have := (beq_iff_eq.1 h); simp [this]) hk
      constructor
      · intro h
        have h' : d.lookup k = none := by simpa [List.lookup, hk2] using h
        simp [pyDictModify, hk, ih.1 h']
      · intro v h
        have h' : d.lookup k = some v := by simpa [List.lookup, hk2] using h
        obtain ⟨d', hd', hl⟩ := ih.2 v h'
        refine ⟨(k', v') :: d', by simp [pyDictModify, hk, hd'], fun x => ?_⟩
        by_cases hx : x == k'
        · have hxe : x = k' := by simpa using hx
          subst hxe
          have : (x == k) = false := by simpa using hk
          simp [List.lookup, this]
        · simp only [List.lookup, hx, hl x]

theorem pyDictGetD_lookup {κ ν} [BEq κ] (d : Dict κ ν) (k : κ) (dflt : ν) :
    pyDictGetD d k dflt = (d.lookup k).getD dflt := rfl

/-- `none` of a model that uses `Option` for a failed index = `IndexError`. -/
def optErr {α} : Option α → Except PyErr α
  | some a => .ok a
  | none => .error .IndexError

end Verif.PyRt
