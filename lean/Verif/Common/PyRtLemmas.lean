/-
Reusable lemmas about the translator's runtime (`PyRt`) and about the shapes `do`-notation produces
(`for` loops in `Except`, `mapM`), used by the `Verif/<PID>/Translated.lean` equivalence proofs.  Core Lean only.
-/
import Verif.Common.PyRt

namespace Verif.PyRt
open Verif.Py

/-! ### single-character instances = the `Verif.Py` helpers the models use -/

theorem pyReplaceGo_single (c : Char) (r s : Str) : pyReplaceGo [c] r 0 s = replaceChar c r s := by
  induction s with
  | nil => rfl
  | cons x xs ih =>
    by_cases h : x = c
    · subst h
      simp [pyReplaceGo, replaceChar, List.flatMap_cons] at ih ⊢
      exact ih
    · have h' : ¬ c = x := fun e => h e.symm
      simp [pyReplaceGo, replaceChar, List.flatMap_cons, h, h'] at ih ⊢
      exact ih

theorem pyReplace_single (s : Str) (c : Char) (r : Str) : pyReplace s [c] r = replaceChar c r s := by
  simp [pyReplace, pyReplaceGo_single]

theorem pySplit_single (s : Str) (c : Char) : pySplit s [c] = splitOn c s := by
  unfold pySplit
  induction s with
  | nil => rfl
  | cons x xs ih =>
    by_cases h : x = c
    · subst h
      simp [pySplitGo, splitOn, ih]
    · have h' : ¬ c = x := fun e => h e.symm
      simp [pySplitGo, splitOn, h, h', ih]

theorem pyJoin_single (c : Char) (ps : List Str) : pyJoin [c] ps = joinWith c ps := by
  induction ps with
  | nil => rfl
  | cons p ps ih =>
    cases ps with
    | nil => rfl
    | cons q qs => simp [pyJoin, joinWith, ih]

theorem pyRstrip_single (s : Str) (c : Char) : pyRstrip s [c] = rstripChar c s := by
  unfold pyRstrip rstripChar
  congr 2
  funext x
  simp [eq_comm]

theorem pyJoin_nil (ps : List Str) : pyJoin [] ps = ps.flatten := by
  induction ps with
  | nil => rfl
  | cons p ps ih =>
    cases ps with
    | nil => simp [pyJoin]
    | cons q qs => simp [pyJoin, ih]

theorem flatten_pyIterStr (s : Str) : (pyIterStr s).flatten = s := by
  induction s with
  | nil => rfl
  | cons x xs ih =>
    simp [pyIterStr] at ih ⊢
    exact ih

/-! ### `Except` plumbing -/

/-- the error translation used when a model has its own error enumeration. -/
def mapErr {ε ε' α} (f : ε → ε') : Except ε α → Except ε' α
  | .ok a => .ok a
  | .error e => .error (f e)

@[simp] theorem mapErr_ok {ε ε' α} (f : ε → ε') (a : α) : mapErr f (.ok a : Except ε α) = .ok a := rfl
@[simp] theorem mapErr_error {ε ε' α} (f : ε → ε') (e : ε) : mapErr f (.error e : Except ε α) = .error (f e) := rfl

theorem mapErr_map {ε ε' α β} (f : ε → ε') (g : α → β) (x : Except ε α) :
    mapErr f (x.map g) = (mapErr f x).map g := by
  cases x <;> rfl

theorem mapErr_bind {ε ε' α β} (f : ε → ε') (x : Except ε α) (k : α → Except ε β) :
    mapErr f (x >>= k) = (mapErr f x >>= fun a => mapErr f (k a)) := by
  cases x <;> rfl

/-- `mapM` commutes with a translation of the error. -/
theorem mapErr_mapM {ε ε' α β} (f : ε → ε') (g : α → Except ε β) (xs : List α) :
    mapErr f (xs.mapM g) = xs.mapM (fun a => mapErr f (g a)) := by
  induction xs with
  | nil => rfl
  | cons x xs ih =>
    rw [List.mapM_cons, List.mapM_cons, mapErr_bind]
    cases hx : g x with
    | error e => simp [mapErr]; rfl
    | ok b =>
      simp only [mapErr_ok]
      show mapErr f (xs.mapM g >>= fun bs => pure (b :: bs)) = _
      rw [mapErr_bind, ih]
      cases List.mapM (fun a => mapErr f (g a)) xs <;> rfl

/-! ### `for x in xs do …` in `Except`: the loop `do`-notation produces is `forIn` over the list; when the body never
`break`s (always `yield`s or throws) it is a left fold in the monad. -/

/-- a loop whose body is `step` followed by `yield`. -/
theorem forIn_yield_cons {ε α σ} (step : α → σ → Except ε σ) (a : α) (as : List α) (s : σ) :
    forIn (m := Except ε) (a :: as) s (fun x st => do let st' ← step x st; pure (ForInStep.yield st'))
      = (step a s >>= fun s' => forIn (m := Except ε) as s' (fun x st => do let st' ← step x st; pure (ForInStep.yield st'))) := by
  rw [List.forIn_cons]
  cases step a s <;> rfl

/-- …and it is `List.foldlM`. -/
theorem forIn_yield_eq_foldlM {ε α σ} (step : α → σ → Except ε σ) (as : List α) (s : σ) :
    forIn (m := Except ε) as s (fun x st => do let st' ← step x st; pure (ForInStep.yield st'))
      = as.foldlM (fun st x => step x st) s := by
  induction as generalizing s with
  | nil => rfl
  | cons a as ih =>
    rw [forIn_yield_cons, List.foldlM_cons]
    cases step a s with
    | error e => rfl
    | ok s' => exact ih s'

/-- one iteration that `yield`s. -/
theorem forIn_cons_bind {σ α β} (f : α → σ → Except PyErr (ForInStep σ)) (a : α) (as : List α) (s s' : σ)
    (k : σ → Except PyErr β) (h : f a s = pure (.yield s')) :
    (forIn (a :: as) s f >>= k) = (forIn as s' f >>= k) := by
  rw [List.forIn_cons, h]; rfl

/-- one iteration that throws. -/
theorem forIn_cons_throw {σ α β} (f : α → σ → Except PyErr (ForInStep σ)) (a : α) (as : List α) (s : σ) (e : PyErr)
    (k : σ → Except PyErr β) (h : f a s = throw e) :
    (forIn (a :: as) s f >>= k) = throw e := by
  rw [List.forIn_cons, h]; rfl

/-! ### `enumerate`, item assignment -/

/-- enumerate from `k`. -/
def enumFrom {α} : Nat → List α → List (Int × α)
  | _, [] => []
  | k, x :: xs => ((k : Int), x) :: enumFrom (k + 1) xs

theorem zipWith_range'_enumFrom {α} (xs : List α) (k : Nat) :
    List.zipWith (fun (i : Nat) x => ((i : Int), x)) (List.range' k xs.length) xs = enumFrom k xs := by
  induction xs generalizing k with
  | nil => rfl
  | cons x xs ih => simp [List.range'_succ, enumFrom, ih]

theorem pyEnumerate_eq {α} (xs : List α) : pyEnumerate xs = enumFrom 0 xs := by
  unfold pyEnumerate
  rw [List.range_eq_range', zipWith_range'_enumFrom]

theorem pySetItem_mid (pre : List Int) (x v : Int) (post : List Int) :
    pySetItem (pre ++ x :: post) (pre.length : Int) v = .ok (pre ++ v :: post) := by
  unfold pySetItem
  have h1 : ¬ ((pre.length : Int) < 0) := by omega
  simp [h1]
  omega

/-- `none` of a model that uses `Option` for a failed index = `IndexError`. -/
def optErr {α} : Option α → Except PyErr α
  | some a => .ok a
  | none => .error .IndexError

end Verif.PyRt
