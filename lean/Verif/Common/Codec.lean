/-
Codec machinery shared by C01 (MRS codecs), C02 (DMRS codecs) and C03 (EDS codecs).
Core Lean only.  Public names are frozen (add, do not rename):

  Verif.Codec.Str, natStr, intStr, parseNat, parseInt,
  Lnk, Lnk.str, Lnk.parse, Lnk.truthy, Lnk.cfrom, Lnk.cto, LnkErr,
  escapeDQ, unescapeDQ, scanDQ,
  Tok, accept, expect, peekKind

Anchors in /repo:
  delphin/lnk.py            Lnk.__init__ (string branch), Lnk.__str__, Lnk.__bool__, LnkMixin.cfrom/cto
  delphin/codecs/simplemrs.py, indexedmrs.py, simpledmrs.py, eds.py
                            `_escape` / `_unescape`, and the DQSTRING token class
                            `"([^"\\]*(?:\\.[^"\\]*)*)"` of their lexers
  delphin/util.py           LookaheadLexer.accept_type / expect_type / peek
-/
import Verif.Common.Py

namespace Verif.Codec
open Verif.Py

abbrev Str := List Char

/-! ### decimal integers (`str(int)` and `int(str)` on the language `-?[0-9]+`) -/

/-- `str(n)` for a natural number. -/
def natStr (n : Nat) : Str := Nat.toDigits 10 n

/-- `str(i)`. -/
def intStr : Int → Str
  | .ofNat n => natStr n
  | .negSucc n => '-' :: natStr (n + 1)

def digitsToNat (cs : Str) : Nat :=
  cs.foldl (fun acc c => 10 * acc + (c.toNat - '0'.toNat)) 0

/-- `int(s)` on `[0-9]+` (ASCII digits); `none` stands for ValueError.  Spellings that Python's `int`
also accepts (sign `+`, surrounding blanks, `_`, non-ASCII digits) are outside the token languages of
the lexers that feed this function. -/
def parseNat (s : Str) : Option Nat :=
  if s.isEmpty then none else if s.all Char.isDigit then some (digitsToNat s) else none

/-- `int(s)` on `-?[0-9]+`. -/
def parseInt : Str → Option Int
  | '-' :: r => (parseNat r).map (fun n => - (n : Int))
  | s => (parseNat s).map (fun n => (n : Int))

/-! ### Lnk (delphin/lnk.py) -/

/-- `Lnk.type` with its `data`. -/
inductive Lnk where
  | unspec
  | charspan (cfrom cto : Int)
  | chartspan (vfrom vto : Int)
  | tokens (ts : List Int)
  | edge (n : Int)
deriving Repr, DecidableEq, Inhabited

inductive LnkErr where
  | lnkError     -- LnkError: not of the form <...>
  | valueError   -- int() failed / wrong number of pieces when unpacking
deriving Repr, DecidableEq

/-- `str.join(' ', ...)`. -/
def joinSp : List Str → Str
  | [] => []
  | [p] => p
  | p :: ps => p ++ ' ' :: joinSp ps

/-- `Lnk.__str__`. -/
def Lnk.str : Lnk → Str
  | .unspec => []
  | .charspan a b => '<' :: intStr a ++ ':' :: intStr b ++ ['>']
  | .chartspan a b => '<' :: intStr a ++ '#' :: intStr b ++ ['>']
  | .edge n => '<' :: '@' :: intStr n ++ ['>']
  | .tokens ts => '<' :: joinSp (ts.map intStr) ++ ['>']

/-- `Lnk.__bool__`: unspecified and `<-1:-1>` are falsy. -/
def Lnk.truthy : Lnk → Bool
  | .unspec => false
  | .charspan a b => !(a = -1 && b = -1)
  | _ => true

/-- `LnkMixin.cfrom`. -/
def Lnk.cfrom : Lnk → Int
  | .charspan a _ => a
  | _ => -1

/-- `LnkMixin.cto`. -/
def Lnk.cto : Lnk → Int
  | .charspan _ b => b
  | _ => -1

def mapMOpt {α β} (f : α → Option β) : List α → Option (List β)
  | [] => some []
  | a :: as => match f a with
    | none => none
    | some b => match mapMOpt f as with
      | none => none
      | some bs => some (b :: bs)

/-- the pair `a, b = arg.split(c)` of two integers. -/
def parsePair (c : Char) (inner : Str) : Except LnkErr (Int × Int) :=
  match splitOn c inner with
  | [a, b] => match parseInt a, parseInt b with
    | some x, some y => .ok (x, y)
    | _, _ => .error .valueError
  | _ => .error .valueError

/-- the part of `Lnk.__init__` after `arg = arg[1:-1]`. -/
def Lnk.parseInner (inner : Str) : Except LnkErr Lnk :=
  if inner.head? = some '@' then
    match parseInt inner.tail with
    | some n => .ok (.edge n)
    | none => .error .valueError
  else if ':' ∈ inner then
    match parsePair ':' inner with
    | .ok (a, b) => .ok (.charspan a b)
    | .error e => .error e
  else if '#' ∈ inner then
    match parsePair '#' inner with
    | .ok (a, b) => .ok (.chartspan a b)
    | .error e => .error e
  else
    match mapMOpt parseInt ((splitOn ' ' inner).filter (fun w => !w.isEmpty)) with
    | some ts => .ok (.tokens ts)
    | none => .error .valueError

/-- `Lnk(arg)` for a string argument (`Lnk.__init__`, string branch).  `arg.split()` is modelled for
the blank only (the lexers' LNK token classes allow nothing else between token ids). -/
def Lnk.parse (s : Str) : Except LnkErr Lnk :=
  if s.isEmpty then .ok .unspec
  else if s.head? = some '<' ∧ s.getLast? = some '>' then Lnk.parseInner (s.tail.dropLast)
  else .error .lnkError

/-! ### double-quoted strings -/

/-- `_escape`: backslash and double quote get a backslash in front
(`"".join(_ESCAPES.get(c, c) for c in s)` = `s.replace('\\','\\\\').replace('"','\\"')`). -/
def escapeDQ : Str → Str
  | [] => []
  | c :: s => if c = '\\' ∨ c = '"' then '\\' :: c :: escapeDQ s else c :: escapeDQ s

/-- `_unescape`: a backslash that has a successor is dropped and the successor kept verbatim;
a final lone backslash is kept. -/
def unescapeDQ : Str → Str
  | [] => []
  | [c] => [c]
  | c :: d :: s => if c = '\\' then d :: unescapeDQ s else c :: unescapeDQ (d :: s)

/-- The DQSTRING matcher `"([^"\\]*(?:\\.[^"\\]*)*)"` started just AFTER the opening quote:
returns the raw text of group 1 and what follows the closing quote, or `none` when the regex does
not match here (no closing quote, or a backslash followed by a line feed / the end of the line).
`.` does not match `'\n'`; the character classes of the regex are disjoint, so there is no
backtracking to model. -/
def scanDQ : Str → Option (Str × Str)
  | [] => none
  | [c] => if c = '"' then some ([], []) else none
  | c :: d :: s =>
    if c = '"' then some ([], d :: s)
    else if c = '\\' then
      if d = '\n' then none
      else match scanDQ s with
        | some (a, r) => some (c :: d :: a, r)
        | none => none
    else match scanDQ (d :: s) with
      | some (a, r) => some (c :: a, r)
      | none => none

/-! ### generic tokens and the LookaheadLexer operations (delphin/util.py) -/

/-- A lexer token: its class and the text of the class's group. -/
structure Tok (K : Type) where
  kind : K
  text : Str
deriving Repr, DecidableEq

/-- `lexer.accept_type(k)`: consume and return the text when the next token has class `k`. -/
def accept {K} [DecidableEq K] (k : K) : List (Tok K) → Option Str × List (Tok K)
  | [] => (none, [])
  | t :: ts => if t.kind = k then (some t.text, ts) else (none, t :: ts)

/-- `lexer.expect_type(k)`: like accept, but a different class or the end of input is a syntax error. -/
def expect {K} [DecidableEq K] (k : K) : List (Tok K) → Option (Str × List (Tok K))
  | [] => none
  | t :: ts => if t.kind = k then some (t.text, ts) else none

/-- `lexer.peek()[0]` (`none` at the end of input, where the real lexer raises). -/
def peekKind {K} : List (Tok K) → Option K
  | [] => none
  | t :: _ => some t.kind

end Verif.Codec
