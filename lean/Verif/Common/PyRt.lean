/-
Runtime library of the source translator `harness/common/py2lean.py` (TRANSLATOR.md).
The generated files `Verif/Generated/Trans<PID>.lean` call ONLY these functions (plus core `List`/`Option`/`Int`
operations).  Core Lean only.  Every function here states which Python operation it stands for and on which types;
`harness/common/py2lean_selftest.py` runs each of them against CPython on random inputs.

Conventions: `str` = `List Char` (code points); a one-character `str` obtained by iterating or indexing a `str` is
a one-element list; `int` = `Int`; `list`/`tuple` = `List`; `Optional[T]` = `Option T`; `dict` = association list in
insertion order (`Dict`).  A Python operation that can raise returns `Except PyErr _`.
-/
import Verif.Common.Py

namespace Verif.PyRt
open Verif.Py

/-- The exception classes a translated function can raise.  Builtin classes have their own constructor; a class
defined by the library is `user "<ClassName>"` (no subclass relation is modelled: `try/except` is not translated). -/
inductive PyErr where
  | ValueError | IndexError | KeyError | TypeError | ZeroDivisionError | AssertionError | NotImplementedError
  | user (cls : String)
deriving Repr, DecidableEq

abbrev Str := List Char

/-! ### str -/

/-- `for c in s` / `list(s)`: the one-character strings of `s`. -/
def pyIterStr (s : Str) : List Str := s.map (fun c => [c])

/-- worker of `pyReplace` for a non-empty `old`; the `Nat` counts characters of a match still to be skipped. -/
def pyReplaceGo (old new : Str) : Nat → Str → Str
  | _, [] => []
  | skip + 1, _ :: cs => pyReplaceGo old new skip cs
  | 0, c :: cs =>
    if old.isPrefixOf (c :: cs) then new ++ pyReplaceGo old new (old.length - 1) cs
    else c :: pyReplaceGo old new 0 cs

/-- `s.replace(old, new)` (all occurrences, left to right, non-overlapping; empty `old` matches between characters). -/
def pyReplace (s old new : Str) : Str :=
  if old.isEmpty then new ++ s.flatMap (fun c => c :: new) else pyReplaceGo old new 0 s

/-- worker of `pySplit`. -/
def pySplitGo (sep : Str) : Nat → Str → List Str
  | _, [] => [[]]
  | skip + 1, _ :: cs => pySplitGo sep skip cs
  | 0, c :: cs =>
    if sep.isPrefixOf (c :: cs) then [] :: pySplitGo sep (sep.length - 1) cs
    else consHead c (pySplitGo sep 0 cs)

/-- `s.split(sep)` for a NON-EMPTY `sep` (the translator only emits it for a non-empty constant separator;
`s.split()` and `s.split('')` are not translated). -/
def pySplit (s sep : Str) : List Str := pySplitGo sep 0 s

/-- `sep.join(parts)`. -/
def pyJoin (sep : Str) : List Str → Str
  | [] => []
  | [p] => p
  | p :: ps => p ++ sep ++ pyJoin sep ps

/-- `s.rstrip(chars)` with an explicit character set. -/
def pyRstrip (s chars : Str) : Str := (s.reverse.dropWhile (fun c => chars.contains c)).reverse

/-- `s.lstrip(chars)` with an explicit character set. -/
def pyLstrip (s chars : Str) : Str := s.dropWhile (fun c => chars.contains c)

/-- `s.strip(chars)` with an explicit character set. -/
def pyStrip (s chars : Str) : Str := pyRstrip (pyLstrip s chars) chars

/-- `s.startswith(p)` -/
def pyStartswith (s p : Str) : Bool := p.isPrefixOf s

/-- `s.endswith(p)` -/
def pyEndswith (s p : Str) : Bool := p.isSuffixOf s

/-- `sub in s` for strings. -/
def pyStrContains (sub : Str) : Str → Bool
  | [] => sub.isEmpty
  | c :: cs => sub.isPrefixOf (c :: cs) || pyStrContains sub cs

/-- `str(i)` for an `int`. -/
def pyStrInt (i : Int) : Str :=
  match i with
  | .ofNat n => Nat.toDigits 10 n
  | .negSucc n => '-' :: Nat.toDigits 10 (n + 1)

/-! ### sequences -/

/-- `len(xs)` -/
def pyLen {α} (xs : List α) : Int := xs.length

/-- `xs[i]` on a list/tuple (negative indices count from the end). -/
def pyGetItem {α} (xs : List α) (i : Int) : Except PyErr α :=
  match getIndex xs i with
  | some x => .ok x
  | none => .error .IndexError

/-- `s[i]` on a `str`: a one-character string. -/
def pyGetItemStr (s : Str) (i : Int) : Except PyErr Str :=
  match getIndex s i with
  | some c => .ok [c]
  | none => .error .IndexError

/-- `xs[i] = v` on a list. -/
def pySetItem {α} (xs : List α) (i : Int) (v : α) : Except PyErr (List α) :=
  let n : Int := xs.length
  let j := if i < 0 then i + n else i
  if j < 0 ∨ j ≥ n then .error .IndexError else .ok (xs.set j.toNat v)

/-- `xs[a:b]` (either bound may be absent; no step). -/
def pySlice {α} (xs : List α) (a b : Option Int) : List α :=
  (getSlice xs { start := a, stop := b, step := none }).getD []

/-- `xs * n` / `[x] * n`. -/
def pyRepeat {α} (xs : List α) (n : Int) : List α := (List.replicate n.toNat xs).flatten

/-- `range(a, b, st)` for a NON-ZERO constant step (the translator refuses a non-constant step). -/
def pyRange (a b st : Int) : List Int := rangeList a b st

/-- `enumerate(xs)` -/
def pyEnumerate {α} (xs : List α) : List (Int × α) :=
  List.zipWith (fun (i : Nat) x => ((i : Int), x)) (List.range xs.length) xs

/-- `sum(xs)` over ints. -/
def pySum (xs : List Int) : Int := xs.foldl (· + ·) 0

/-- `a // b` -/
def pyFloorDiv (a b : Int) : Except PyErr Int := if b = 0 then .error .ZeroDivisionError else .ok (a.fdiv b)

/-- `a % b` (sign of the divisor). -/
def pyMod (a b : Int) : Except PyErr Int := if b = 0 then .error .ZeroDivisionError else .ok (a.fmod b)

/-! ### dict (insertion-ordered association list) -/

abbrev Dict (κ ν : Type) := List (κ × ν)

/-- `d.get(k)` / `d.get(k, None)` -/
def pyDictGet? {κ ν} [BEq κ] (d : Dict κ ν) (k : κ) : Option ν := d.lookup k

/-- `d.get(k, dflt)` -/
def pyDictGetD {κ ν} [BEq κ] (d : Dict κ ν) (k : κ) (dflt : ν) : ν := (d.lookup k).getD dflt

/-- `d[k]` -/
def pyDictGetItem {κ ν} [BEq κ] (d : Dict κ ν) (k : κ) : Except PyErr ν :=
  match d.lookup k with
  | some v => .ok v
  | none => .error .KeyError

/-- `k in d` -/
def pyDictContains {κ ν} [BEq κ] (d : Dict κ ν) (k : κ) : Bool := (d.lookup k).isSome

end Verif.PyRt
