/-
Runtime library of the source translator `harness/common/py2lean.py` (TRANSLATOR.md).
The generated files `Verif/Generated/Trans<PID>.lean` call ONLY these functions (plus core `List`/`Option`/`Int`
operations).  Core Lean only.  Every function here states which Python operation it stands for and on which types;
`harness/common/py2lean_selftest.py` runs each of them against CPython on random inputs.

Conventions: `str` = `List Char` (code points); a one-character `str` obtained by iterating or indexing a `str` is
a one-element list; `int` = `Int`; `list`/`tuple` = `List`; `Optional[T]` = `Option T`; `dict` = association list in
insertion order (`Dict`).  A Python operation that can raise returns `Except PyErr _`.
-/
import Verif.Common.Py

namespace Verif.PyRt
open Verif.Py

/-- The exception classes a translated function can raise.  Builtin classes have their own constructor; a class
defined by the library is `user "<ClassName>"` (no subclass relation is modelled: `try/except` is not translated). -/
inductive PyErr where
  | ValueError | IndexError | KeyError | TypeError | ZeroDivisionError | AssertionError | NotImplementedError
  | user (cls : String)
  | StopIteration
  /-- NOT a Python exception: the explicit fuel of a translated `while` loop / recursion ran out.  The equivalence
  theorems are stated for fuel above a bound, where this value does not occur. -/
  | fuel
deriving Repr, DecidableEq

abbrev Str := List Char

/-! ### str -/

/-- `for c in s` / `list(s)`: the one-character strings of `s`. -/
def pyIterStr (s : Str) : List Str := s.map (fun c => [c])

/-- worker of `pyReplace` for a non-empty `old`; the `Nat` counts characters of a match still to be skipped. -/
def pyReplaceGo (old new : Str) : Nat → Str → Str
  | _, [] => []
  | skip + 1, _ :: cs => pyReplaceGo old new skip cs
  | 0, c :: cs =>
    if old.isPrefixOf (c :: cs) then new ++ pyReplaceGo old new (old.length - 1) cs
    else c :: pyReplaceGo old new 0 cs

/-- `s.replace(old, new)` (all occurrences, left to right, non-overlapping; empty `old` matches between characters). -/
def pyReplace (s old new : Str) : Str :=
  if old.isEmpty then new ++ s.flatMap (fun c => c :: new) else pyReplaceGo old new 0 s

/-- worker of `pySplit`. -/
def pySplitGo (sep : Str) : Nat → Str → List Str
  | _, [] => [[]]
  | skip + 1, _ :: cs => pySplitGo sep skip cs
  | 0, c :: cs =>
    if sep.isPrefixOf (c :: cs) then [] :: pySplitGo sep (sep.length - 1) cs
    else consHead c (pySplitGo sep 0 cs)

/-- `s.split(sep)` for a NON-EMPTY `sep` (the translator only emits it for a non-empty constant separator;
`s.split()` and `s.split('')` are not translated). -/
def pySplit (s sep : Str) : List Str := pySplitGo sep 0 s

/-- `sep.join(parts)`. -/
def pyJoin (sep : Str) : List Str → Str
  | [] => []
  | [p] => p
  | p :: ps => p ++ sep ++ pyJoin sep ps

/-- `s.rstrip(chars)` with an explicit character set. -/
def pyRstrip (s chars : Str) : Str := (s.reverse.dropWhile (fun c => chars.contains c)).reverse

/-- `s.lstrip(chars)` with an explicit character set. -/
def pyLstrip (s chars : Str) : Str := s.dropWhile (fun c => chars.contains c)

/-- `s.strip(chars)` with an explicit character set. -/
def pyStrip (s chars : Str) : Str := pyRstrip (pyLstrip s chars) chars

/-- `s.startswith(p)` -/
def pyStartswith (s p : Str) : Bool := p.isPrefixOf s

/-- `s.endswith(p)` -/
def pyEndswith (s p : Str) : Bool := p.isSuffixOf s

/-- `sub in s` for strings. -/
def pyStrContains (sub : Str) : Str → Bool
  | [] => sub.isEmpty
  | c :: cs => sub.isPrefixOf (c :: cs) || pyStrContains sub cs

/-- `str(i)` for an `int`. -/
def pyStrInt (i : Int) : Str :=
  match i with
  | .ofNat n => Nat.toDigits 10 n
  | .negSucc n => '-' :: Nat.toDigits 10 (n + 1)

/-! ### sequences -/

/-- `len(xs)` -/
def pyLen {α} (xs : List α) : Int := xs.length

/-- `xs[i]` on a list/tuple (negative indices count from the end). -/
def pyGetItem {α} (xs : List α) (i : Int) : Except PyErr α :=
  match getIndex xs i with
  | some x => .ok x
  | none => .error .IndexError

/-- `s[i]` on a `str`: a one-character string. -/
def pyGetItemStr (s : Str) (i : Int) : Except PyErr Str :=
  match getIndex s i with
  | some c => .ok [c]
  | none => .error .IndexError

/-- `xs[i] = v` on a list. -/
def pySetItem {α} (xs : List α) (i : Int) (v : α) : Except PyErr (List α) :=
  let n : Int := xs.length
  let j := if i < 0 then i + n else i
  if j < 0 ∨ j ≥ n then .error .IndexError else .ok (xs.set j.toNat v)

/-- `xs[a:b]` (either bound may be absent; no step). -/
def pySlice {α} (xs : List α) (a b : Option Int) : List α :=
  (getSlice xs { start := a, stop := b, step := none }).getD []

/-- `xs * n` / `[x] * n`. -/
def pyRepeat {α} (xs : List α) (n : Int) : List α := (List.replicate n.toNat xs).flatten

/-- `range(a, b, st)` for a NON-ZERO constant step (the translator refuses a non-constant step). -/
def pyRange (a b st : Int) : List Int := rangeList a b st

/-- `enumerate(xs)` -/
def pyEnumerate {α} (xs : List α) : List (Int × α) :=
  List.zipWith (fun (i : Nat) x => ((i : Int), x)) (List.range xs.length) xs

/-- `sum(xs)` over ints. -/
def pySum (xs : List Int) : Int := xs.foldl (· + ·) 0

/-- `a // b` -/
def pyFloorDiv (a b : Int) : Except PyErr Int := if b = 0 then .error .ZeroDivisionError else .ok (a.fdiv b)

/-- `a % b` (sign of the divisor). -/
def pyMod (a b : Int) : Except PyErr Int := if b = 0 then .error .ZeroDivisionError else .ok (a.fmod b)

/-! ### dict (insertion-ordered association list) -/

abbrev Dict (κ ν : Type) := List (κ × ν)

/-- `d.get(k)` / `d.get(k, None)` -/
def pyDictGet? {κ ν} [BEq κ] (d : Dict κ ν) (k : κ) : Option ν := d.lookup k

/-- `d.get(k, dflt)` -/
def pyDictGetD {κ ν} [BEq κ] (d : Dict κ ν) (k : κ) (dflt : ν) : ν := (d.lookup k).getD dflt

/-- `d[k]` -/
def pyDictGetItem {κ ν} [BEq κ] (d : Dict κ ν) (k : κ) : Except PyErr ν :=
  match d.lookup k with
  | some v => .ok v
  | none => .error .KeyError

/-- `k in d` -/
def pyDictContains {κ ν} [BEq κ] (d : Dict κ ν) (k : κ) : Bool := (d.lookup k).isSome

/-- `k in d` for a list of pairs used as dict -/
theorem pyDictContains_def {κ ν} [BEq κ] (d : Dict κ ν) (k : κ) : pyDictContains d k = (d.lookup k).isSome := rfl

/-- `d[k] = v`: an existing key keeps its position, a new key goes to the end. -/
def pyDictSet {κ ν} [BEq κ] : Dict κ ν → κ → ν → Dict κ ν
  | [], k, v => [(k, v)]
  | (k', v') :: r, k, v => if k' == k then (k', v) :: r else (k', v') :: pyDictSet r k v

/-- `dict(pairs)` / a dict display / a dict comprehension: later pairs overwrite, first position kept. -/
def pyDictOfList {κ ν} [BEq κ] (ps : List (κ × ν)) : Dict κ ν := ps.foldl (fun d p => pyDictSet d p.1 p.2) []

/-- `d[k].add(e)` / `d[k].append(e)`: the value under `k` replaced by `f` of it; `KeyError` when `k` is missing. -/
def pyDictModify {κ ν} [BEq κ] : Dict κ ν → κ → (ν → ν) → Except PyErr (Dict κ ν)
  | [], _, _ => .error .KeyError
  | (k', v') :: r, k, f =>
    if k' == k then .ok ((k', f v') :: r)
    else match pyDictModify r k f with
      | .ok r' => .ok ((k', v') :: r')
      | .error e => .error e

/-- `xs.append(e)` as a function -/
def pyListAppend {α} (xs : List α) (x : α) : List α := xs ++ [x]

/-- `d.setdefault(k, v)` as a statement (the value is discarded). -/
def pyDictSetDefault {κ ν} [BEq κ] (d : Dict κ ν) (k : κ) (v : ν) : Dict κ ν :=
  if pyDictContains d k then d else d ++ [(k, v)]

/-! ### set (duplicate-free list in insertion order).  CPython's iteration order of a set is NOT this order: the
translator only lets a set be iterated where the result cannot depend on the order (py2lean docstring). -/

/-- `s.add(x)` -/
def pySetAdd {α} [BEq α] (s : List α) (x : α) : List α := if s.contains x then s else s ++ [x]

/-- `s.update(xs)` / `s | set(xs)` / `s.union(xs)` -/
def pySetUpdate {α} [BEq α] (s : List α) (xs : List α) : List α := xs.foldl pySetAdd s

/-- `set(xs)` / `{a, b, …}` -/
def pySetOfList {α} [BEq α] (xs : List α) : List α := pySetUpdate [] xs

/-- `s & t` / `s.intersection(xs)` -/
def pySetInter {α} [BEq α] (s : List α) (xs : List α) : List α := s.filter (fun x => xs.contains x)

/-- `s - t` / `s.difference(xs)` -/
def pySetDiff {α} [BEq α] (s : List α) (xs : List α) : List α := s.filter (fun x => !xs.contains x)

/-- `s <= t` / `s.issubset(xs)` -/
def pySetSubset {α} [BEq α] (s : List α) (xs : List α) : Bool := s.all (fun x => xs.contains x)

/-- `s == t` on sets (both duplicate-free). -/
def pySetEq {α} [BEq α] (s t : List α) : Bool := pySetSubset s t && pySetSubset t s

/-- `s.isdisjoint(xs)` -/
def pySetDisjoint {α} [BEq α] (s : List α) (xs : List α) : Bool := s.all (fun x => !xs.contains x)

/-! ### whitespace (`s.split()`, `s.strip()` without argument) -/

/-- the code points `c` with `chr(c).isspace()`: what `str.split()` / `str.strip()` treat as blank (the selftest
compares this list with CPython for EVERY code point). -/
def pyWhitespaceCodes : List Nat :=
  [9, 10, 11, 12, 13, 28, 29, 30, 31, 32, 133, 160, 5760, 8192, 8193, 8194, 8195, 8196, 8197, 8198,
   8199, 8200, 8201, 8202, 8232, 8233, 8239, 8287, 12288]

def pyIsSpace (c : Char) : Bool := pyWhitespaceCodes.contains c.toNat

/-- worker of `pySplitWs`: `cur` is the current word, reversed. -/
def pySplitWsGo : Str → Str → List Str
  | cur, [] => if cur.isEmpty then [] else [cur.reverse]
  | cur, c :: cs =>
    if pyIsSpace c then (if cur.isEmpty then pySplitWsGo [] cs else cur.reverse :: pySplitWsGo [] cs)
    else pySplitWsGo (c :: cur) cs

/-- `s.split()` (runs of whitespace separate; no empty strings). -/
def pySplitWs (s : Str) : List Str := pySplitWsGo [] s

/-- `s.strip()` -/
def pyStripWs (s : Str) : Str := ((s.dropWhile pyIsSpace).reverse.dropWhile pyIsSpace).reverse

/-- `s.lstrip()` -/
def pyLstripWs (s : Str) : Str := s.dropWhile pyIsSpace

/-- `s.rstrip()` -/
def pyRstripWs (s : Str) : Str := (s.reverse.dropWhile pyIsSpace).reverse

/-! ### sorting (stable insertion sort), any/all, enumerate from a start -/

/-- `a <= b` on `str`: lexicographic by code point. -/
def pyStrLe : Str → Str → Bool
  | [], _ => true
  | _ :: _, [] => false
  | a :: as, b :: bs => if a.toNat < b.toNat then true else if b.toNat < a.toNat then false else pyStrLe as bs

/-- the order of the keys `sorted` can use here: `int` and `str`. -/
class PyOrd (α : Type) where
  le : α → α → Bool

instance : PyOrd Int := ⟨fun a b => decide (a ≤ b)⟩
instance : PyOrd Str := ⟨pyStrLe⟩

/-- insert `x` AFTER every element whose key is `≤` its key (stability). -/
def pyInsertBy {α κ} [PyOrd κ] (key : α → κ) (x : α) : List α → List α
  | [] => [x]
  | y :: ys => if PyOrd.le (key y) (key x) then y :: pyInsertBy key x ys else x :: y :: ys

/-- `sorted(xs, key=key)` (stable). -/
def pySortedBy {α κ} [PyOrd κ] (key : α → κ) (xs : List α) : List α :=
  xs.foldl (fun acc x => pyInsertBy key x acc) []

/-- `sorted(xs)` on ints / strs. -/
def pySorted {α} [PyOrd α] (xs : List α) : List α := pySortedBy (fun x => x) xs

/-- `enumerate(xs, start)` -/
def pyEnumerateFrom {α} (xs : List α) (start : Int) : List (Int × α) :=
  List.zipWith (fun (i : Nat) x => (start + (i : Int), x)) (List.range xs.length) xs

/-- `next(iter(xs))` on a list/tuple/dict-keys (NOT on a set: the first element of a set is arbitrary). -/
def pyNext {α} : List α → Except PyErr α
  | [] => .error .StopIteration
  | x :: _ => .ok x

/-- `xs.pop(0)` / `deque.popleft()`: the first element and the rest. -/
def pyPopLeft {α} : List α → Except PyErr (α × List α)
  | [] => .error .IndexError
  | x :: r => .ok (x, r)

/-- `xs.pop()`: the last element and the rest. -/
def pyPop {α} (xs : List α) : Except PyErr (α × List α) :=
  match xs.reverse with
  | [] => .error .IndexError
  | x :: r => .ok (x, r.reverse)

end Verif.PyRt
