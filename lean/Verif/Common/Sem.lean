/-
Shared semantic core (MRS / DMRS structures and the scope functions) used by
C04, C05, C06 and C07.  Core Lean only (no Mathlib).

What is modelled (pydelphin 1.9.1, /repo):
  delphin/variable.py        split/type/id            → `Var` (sort, vid)
  delphin/mrs/_mrs.py        EP, HCons, ICons, MRS, EP ids (`_uniquify_ids`),
                             MRS.arguments / scopes / scopal_arguments
  delphin/dmrs/_dmrs.py      Node, Link, DMRS, DMRS.scopes
  delphin/util.py            _bfs, _connected_components
  delphin/scope.py           conjoin, descendants/_descendants, representatives
  delphin/mrs/_operations.py is_connected, has_*_intrinsic_variables, plausibly_scopes,
                             is_well_formed

Conventions.
* A variable string such as `x5` is the pair `⟨"x", 5⟩`; the converters only accept
  canonical numerals (`str(int(vid)) == vid`), so the pair determines the string.
* A Python `dict` is an insertion-ordered association list (`dlookup`/`dset`).
* The functions over an MRS are positional over `MRS.preds` (the list of
  (id, EP) pairs in `rels` order).  The real code goes through dictionaries keyed
  by EP id; both agree when the ids are pairwise distinct (`MRS.idsDistinct`),
  which `_uniquify_ids` guarantees unless some ARG0 has the sort `_`.  Drivers
  answer `unmodelled` when `idsDistinct` is false.
* Python `set` iteration order is not modelled: where the code picks "the first
  element of a set" (`_bfs` start, `conjoin`'s chosen label, order of the
  predications inside a conjoined scope) the model makes one choice and the
  harness compares up to that choice; the theorems are stated for every choice.
-/
namespace Verif.Sem

/-! ### Errors -/

inductive Err where
  | keyError
  | valueError
  | fuel          -- internal: a fuelled loop ran out (proved unreachable)
deriving DecidableEq, Repr

/-! ### Dictionaries (insertion-ordered association lists) -/

section Dict
variable {κ : Type} {ν : Type} [DecidableEq κ]

/-- `d.get(k)` (first binding; `dset` keeps keys unique). -/
def dlookup (k : κ) : List (κ × ν) → Option ν
  | [] => none
  | (k', v) :: d => if k' = k then some v else dlookup k d

/-- `d[k] = v`: replace in place, else append at the end. -/
def dset (k : κ) (v : ν) : List (κ × ν) → List (κ × ν)
  | [] => [(k, v)]
  | (k', v') :: d => if k' = k then (k', v) :: d else (k', v') :: dset k v d

/-- `d.setdefault(k, []).append(x)`. -/
def dpush {β : Type} (k : κ) (x : β) : List (κ × List β) → List (κ × List β)
  | [] => [(k, [x])]
  | (k', xs) :: d => if k' = k then (k', xs ++ [x]) :: d else (k', xs) :: dpush k x d

/-- `d[k].extend(xs)` for a key that is present (no-op otherwise). -/
def dextend {β : Type} (k : κ) (xs : List β) : List (κ × List β) → List (κ × List β)
  | [] => []
  | (k', ys) :: d => if k' = k then (k', ys ++ xs) :: d else (k', ys) :: dextend k xs d

def dkeys (d : List (κ × ν)) : List κ := d.map (·.1)

end Dict

/-! ### Variables -/

structure Var where
  sort : String
  vid : Nat
deriving DecidableEq, Repr, Inhabited

/-- `a in b` for Python strings (substring test). -/
def isInfix (a : List Char) : List Char → Bool
  | [] => a.isEmpty
  | c :: b => a.isPrefixOf (c :: b) || isInfix a b

/-- `variable.type(v) in types` where `types` is a Python *string* such as `'xeipu'`. -/
def Var.sortIn (v : Var) (types : String) : Bool := isInfix v.sort.toList types.toList

/-! ### MRS -/

abbrev Role := String
abbrev Props := List (String × String)

def INTRINSIC_ROLE : Role := "ARG0"
def RESTRICTION_ROLE : Role := "RSTR"
def CONSTANT_ROLE : Role := "CARG"

structure EP where
  predicate : String
  label : Var
  /-- variable-valued arguments in `dict` order, ARG0 included, CARG excluded -/
  args : List (Role × Var)
  carg : Option String := none
  lnk : Option (Int × Int) := none
  surface : Option String := none
  base : Option String := none
deriving DecidableEq, Repr, Inhabited

structure HCons where
  hi : Var
  rel : String
  lo : Var
deriving DecidableEq, Repr, Inhabited

structure ICons where
  left : Var
  rel : String
  right : Var
deriving DecidableEq, Repr, Inhabited

structure MRS where
  top : Option Var
  index : Option Var
  rels : List EP
  hcons : List HCons
  icons : List ICons := []
  variables : List (Var × Props) := []
deriving DecidableEq, Repr, Inhabited

/-- `ep.iv` -/
def EP.iv (e : EP) : Option Var := dlookup INTRINSIC_ROLE e.args

/-- `ep.is_quantifier()` -/
def EP.isQuantifier (e : EP) : Bool := e.args.any (fun a => a.1 == RESTRICTION_ROLE)

/-- the id given by `EP.__init__` (before `_uniquify_ids`). -/
def EP.baseId (e : EP) : Var :=
  let v := e.iv.getD ⟨"_", 0⟩
  if e.isQuantifier then ⟨"q", v.vid⟩ else v

/-- `ep.type` as set by `EP.__init__`. -/
def EP.type (e : EP) : Option String :=
  if e.isQuantifier then none else
  match e.iv with
  | none => none
  | some v => if v.sort = "_" then none else some v.sort

/-- `_uniquify_ids`: a repeated id is replaced by `_<nextvid>`. -/
def uniquify (nextvid : Nat) (seen : List Var) : List Var → List Var
  | [] => []
  | i :: is =>
    if i ∈ seen then
      let i' : Var := ⟨"_", nextvid⟩
      i' :: uniquify (nextvid + 1) (i' :: seen) is
    else i :: uniquify nextvid (i :: seen) is

def maxVid (rels : List EP) : Nat :=
  rels.foldl (fun m e => match e.iv with | some v => max m v.vid | none => m) 0

/-- the EP ids of an MRS, in `rels` order. -/
def MRS.ids (m : MRS) : List Var := uniquify (maxVid m.rels) [] (m.rels.map EP.baseId)

/-- predications: (id, EP) in `rels` order. -/
abbrev Pred := Var × EP

def MRS.preds (m : MRS) : List Pred := m.ids.zip m.rels

def MRS.idsDistinct (m : MRS) : Bool := m.ids.eraseDups.length == m.ids.length

/-- `{hc.hi: hc.lo for hc in m.hcons}.get(v)` — the last constraint on `v` wins. -/
def MRS.hcLast (m : MRS) (v : Var) : Option HCons := m.hcons.reverse.find? (fun hc => hc.hi = v)

def MRS.hcmap (m : MRS) (v : Var) : Option Var := (m.hcLast v).map (·.lo)

/-- `m.variables[v]` after `_fill_variables` (every mentioned variable has an entry). -/
def MRS.props (m : MRS) (v : Var) : Props := (dlookup v m.variables).getD []

/-- one EP's entry of `m.arguments(types=…)`: outgoing (role, value) pairs. -/
def EP.outArgs (e : EP) (types : Option String) : List (Role × Var) :=
  e.args.filter (fun a =>
    a.1 != INTRINSIC_ROLE && a.1 != CONSTANT_ROLE &&
    (match types with | none => true | some t => a.2.sortIn t))

def MRS.labels (m : MRS) : List Var := m.rels.map (·.label)

/-! ### Scope maps -/

/-- `scopes.setdefault(ep.label, []).append(ep)` over the predications. -/
def groupByLabel : List Pred → List (Var × List Pred) → List (Var × List Pred)
  | [], acc => acc
  | p :: ps, acc => groupByLabel ps (dpush p.2.label p acc)

def MRS.scopeMap (m : MRS) : List (Var × List Pred) := groupByLabel m.preds []

/-- the handle the top resolves to: first hcons on `top`, else `top` itself. -/
def MRS.topTarget (m : MRS) : Option Var :=
  match m.hcons.find? (fun hc => some hc.hi = m.top) with
  | some hc => some hc.lo
  | none => m.top

/-- `MRS.scopes()` -/
def MRS.scopes (m : MRS) : Option Var × List (Var × List Pred) :=
  let sc := m.scopeMap
  let top := match m.topTarget with
    | some t => if t ∈ dkeys sc then some t else none
    | none => none
  (top, sc)

def LHEQ : String := "lheq"
def QEQ : String := "qeq"

/-- one EP's entry of `m.scopal_arguments(scopes=scopes)`. -/
def MRS.scopalArgsOf (m : MRS) (labels : List Var) (e : EP) : List (Role × String × Var) :=
  (e.outArgs none).filterMap (fun a =>
    if a.2 ∈ labels then some (a.1, LHEQ, a.2)
    else match m.hcLast a.2 with
      | some hc => some (a.1, hc.rel, hc.lo)
      | none => none)

/-! ### Breadth-first search and connected components (`util._bfs`, `_connected_components`) -/

section Graph
variable {α : Type} [DecidableEq α]

/-- the `while agenda:` loop of `_bfs`; `seen` is kept as a list (most recent first). -/
def bfsLoop (adj : α → List α) : Nat → List α → List α → List α
  | 0, _, seen => seen
  | _ + 1, [], seen => seen
  | fuel + 1, x :: agenda, seen =>
    if x ∈ seen then bfsLoop adj fuel agenda seen
    else bfsLoop adj fuel (agenda ++ (adj x).filter (fun y => y ∉ x :: seen)) (x :: seen)

/-- out-neighbours in a list of directed edges. -/
def adjOf (edges : List (α × α)) (x : α) : List α :=
  edges.filterMap (fun e => if e.1 = x then some e.2 else none)

/-- both directions of every edge (`g[a].add(b); g[b].add(a)`). -/
def symm (edges : List (α × α)) : List (α × α) := edges ++ edges.map (fun e => (e.2, e.1))

def nodeUniverse (edges : List (α × α)) (start : α) : List α :=
  start :: edges.flatMap (fun e => [e.1, e.2])

/-- `_bfs(g, start)` on the graph given by directed `edges`; the fuel is sufficient
(`SemLemmas.bfs_closed`). -/
def bfs (edges : List (α × α)) (start : α) : List α :=
  bfsLoop (adjOf edges) (1 + (edges.length + 1) * (nodeUniverse edges start).length) [start] []

/-- the `for n in nodes: if n not in seen` loop of `_connected_components`. -/
def componentsLoop (edges : List (α × α)) : List α → List α → List (List α)
  | [], _ => []
  | n :: ns, seen =>
    if n ∈ seen then componentsLoop edges ns seen
    else
      let c := bfs edges n
      c :: componentsLoop edges ns (c ++ seen)

/-- `_connected_components(nodes, edges)`; `KeyError` when an edge mentions a node
that is not in `nodes` (only reached when `edges` is non-empty). -/
def connectedComponents (nodes : List α) (edges : List (α × α)) : Except Err (List (List α)) :=
  if edges.isEmpty then .ok (nodes.map (fun n => [n]))
  else if edges.all (fun e => e.1 ∈ nodes && e.2 ∈ nodes) then
    .ok (componentsLoop (symm edges) nodes [])
  else .error .keyError

end Graph

/-! ### `scope.conjoin` -/

section Conjoin
variable {lam : Type} {π : Type} [DecidableEq lam]

/-- `scope.conjoin(scopes, leqs)`.  The chosen label of a component is *some* member
(Python takes the first of a `set`); the model takes the head of the component
list, and the predication lists are concatenated in component-list order. -/
def conjoin (scopes : List (lam × List π)) (leqs : List (lam × lam)) :
    Except Err (List (lam × List π)) :=
  match connectedComponents (dkeys scopes) leqs with
  | .error e => .error e
  | .ok comps =>
    .ok (comps.filterMap (fun c =>
      match c with
      | [] => none      -- components are never empty
      | l :: _ => some (l, c.flatMap (fun l' => (dlookup l' scopes).getD []))))

end Conjoin

/-! ### `scope.descendants` -/

section Desc
variable {ι : Type} {lam : Type} {π : Type} [DecidableEq ι] [DecidableEq lam]

/-- `_descendants(descs, id, scargs, scopes)`; `scargs` maps an id to the labels its
scopal arguments select.  Fuel = number of ids still absent from `descs`, plus one. -/
def descVisit (pid : π → ι) (scargs : List (ι × List lam)) (scopes : List (lam × List π)) :
    Nat → List (ι × List π) → ι → Except Err (List (ι × List π))
  | 0, _, _ => .error .fuel
  | fuel + 1, descs, id =>
    if (dlookup id descs).isSome then .ok descs
    else match dlookup id scargs with
      | none => .error .keyError
      | some labels =>
        let targets := labels.flatMap (fun l => (dlookup l scopes).getD [])
        targets.foldlM (fun ds p => do
            let ds1 := dextend id [p] ds
            let ds2 ← descVisit pid scargs scopes fuel ds1 (pid p)
            match dlookup (pid p) ds2 with
            | none => .error .keyError
            | some sub => pure (dextend id sub ds2))
          (dset id [] descs)

/-- `scope.descendants(x, scopes)`: visit every predication id in order. -/
def descendantsOf (pid : π → ι) (ids : List ι) (scargs : List (ι × List lam))
    (scopes : List (lam × List π)) : Except Err (List (ι × List π)) :=
  ids.foldlM (fun ds i => descVisit pid scargs scopes (ids.length + 1) ds i) []

end Desc

/-! ### `scope.representatives` -/

section Reps
variable {ι : Type} {π : Type} [DecidableEq ι]

/-- stable insertion sort by a key (Python's `list.sort(key=…)` is stable). -/
def insertBy (key : π → Nat × Nat) (x : π) : List π → List π
  | [] => [x]
  | y :: ys =>
    if (key x).1 < (key y).1 ∨ ((key x).1 = (key y).1 ∧ (key x).2 < (key y).2)
    then x :: y :: ys else y :: insertBy key x ys

def sortBy (key : π → Nat × Nat) : List π → List π
  | [] => []
  | x :: xs => insertBy key x (sortBy key xs)

def intersects (a b : List ι) : Bool := a.any (fun x => x ∈ b)

/-- is the predication at position `i` of `scope` blocked?  (`args` are its
non-scopal argument targets; `descIds j` the ids of the scopal descendants of `j`). -/
def blocked (pid : π → ι) (args : π → List ι) (descIds : ι → List ι)
    (scope : List π) (i : Nat) (p : π) : Bool :=
  let others := (scope.eraseIdx i).map pid
  intersects (args p) others || others.any (fun j => intersects (args p) (descIds j))

/-- candidates of one scope, in scope order. -/
def candidates (pid : π → ι) (args : π → List ι) (descIds : ι → List ι)
    (scope : List π) : List π :=
  if scope.length = 1 then scope
  else (scope.zipIdx.filter (fun pi => !blocked pid args descIds scope pi.2 pi.1)).map (·.1)

/-- `scope.representatives` given the scope map, the non-scopal arguments and the
descendant ids. -/
def representativesOf {lam : Type} (pid : π → ι) (args : π → List ι) (descIds : ι → List ι)
    (key : π → Nat × Nat) (scopes : List (lam × List π)) : List (lam × List π) :=
  scopes.map (fun s => (s.1, sortBy key (candidates pid args descIds s.2)))

end Reps

/-! ### MRS instances of the scope functions -/

def MRS.scargs (m : MRS) : List (Var × List Var) :=
  m.preds.map (fun p => (p.1, (m.scopalArgsOf (dkeys m.scopeMap) p.2).map (fun a => a.2.2)))

/-- `scope.descendants(m)` -/
def MRS.descendants (m : MRS) : Except Err (List (Var × List Pred)) :=
  descendantsOf (fun p : Pred => p.1) m.ids m.scargs m.scopeMap

def asciiLower (s : String) : String := String.ofList (s.toList.map Char.toLower)

/-- `_make_representative_priority(m)(p)`, without the position component. -/
def MRS.repRank (m : MRS) (p : Pred) : Nat :=
  if p.2.isQuantifier || p.2.type = some "x" then 0
  else if p.2.type = some "e" then
    let tense := match p.2.iv with
      | some v => (dlookup "TENSE" (m.props v)).getD ""
      | none => ""
    if asciiLower tense = "" ∨ asciiLower tense = "untensed" then 2 else 1
  else 3

def MRS.repKey (m : MRS) (p : Pred) : Nat × Nat :=
  (m.repRank p, (m.ids.idxOf p.1) + 1)

def MRS.nsArgs (_m : MRS) (p : Pred) : List Var := (p.2.outArgs (some "xeipu")).map (·.2)

/-- `scope.representatives(m)` -/
def MRS.representatives (m : MRS) : Except Err (List (Var × List Pred)) :=
  match m.descendants with
  | .error e => .error e
  | .ok descs =>
    let descIds := fun j => ((dlookup j descs).getD []).map (fun p : Pred => p.1)
    .ok (representativesOf (fun p : Pred => p.1) m.nsArgs descIds m.repKey m.scopeMap)

/-! ### Well-formedness tests (`mrs/_operations.py`) -/

/-- undirected edges of the bipartite graph built by `is_connected`: each EP id is
joined to its label, its intrinsic variable, and to every argument value (after
one `hcmap` resolution) that is a node of the graph. -/
def MRS.graphNodes (m : MRS) : List Var :=
  m.ids ++ m.labels ++ m.rels.filterMap EP.iv

def MRS.graphEdges (m : MRS) : List (Var × Var) :=
  let nodes := m.graphNodes
  m.preds.flatMap (fun p =>
    [(p.1, p.2.label)] ++ (match p.2.iv with | some v => [(p.1, v)] | none => []) ++
    (p.2.outArgs none).filterMap (fun a =>
      let v := (m.hcmap a.2).getD a.2
      if v ∈ nodes then some (p.1, v) else none))

/-- `is_connected(m)`; the BFS starts from some EP id (model: the first). -/
def MRS.isConnectedFrom (m : MRS) (start : Var) : Bool :=
  let seen := bfs (symm m.graphEdges) start
  m.ids.all (fun i => i ∈ seen)

def MRS.isConnected (m : MRS) : Bool :=
  match m.ids with
  | [] => true
  | i :: _ => m.isConnectedFrom i

def MRS.hasCompleteIVs (m : MRS) : Bool :=
  m.rels.all (fun e => e.isQuantifier || e.iv.isSome)

def MRS.nonQuantIVs (m : MRS) : List Var :=
  m.rels.filterMap (fun e => if e.isQuantifier then none else e.iv)

def MRS.hasUniqueIVs (m : MRS) : Bool :=
  m.nonQuantIVs.eraseDups.length == m.nonQuantIVs.length

def MRS.hasIVProperty (m : MRS) : Bool := m.hasCompleteIVs && m.hasUniqueIVs

/-- one scopal-argument step of `plausibly_scopes` (`none` = `return False`). -/
def psStep (labels : List Var) (hcm : Var → Option Var) (seen : List Var)
    (lh : Var × Var) : Option (List Var) :=
  let lbl := lh.1
  let handle := lh.2
  if handle = lbl then none
  else match hcm handle with
    | some lo =>
      if handle ∈ seen then none
      else if lo ∉ labels then none
      else some (handle :: lo :: seen)
    | none =>
      if handle ∈ labels ∧ handle ∈ seen then none else some (handle :: seen)

/-- (label of the EP, handle) for every handle-sorted outgoing argument, in order. -/
def MRS.handleArgs (m : MRS) : List (Var × Var) :=
  m.preds.flatMap (fun p => (p.2.outArgs (some "h")).map (fun a => (p.2.label, a.2)))

def MRS.plausiblyScopes (m : MRS) : Bool :=
  match m.top with
  | none => false
  | some top =>
    if (m.hcmap top).isNone then false
    else match m.handleArgs.foldlM (psStep m.labels m.hcmap) [top] with
      | none => false
      | some seen =>
        m.hcons.all (fun hc =>
          hc.hi ∈ seen && (match m.hcmap hc.hi with | some lo => lo ∈ m.labels | none => false))

def MRS.isWellFormed (m : MRS) : Bool :=
  m.isConnected && m.hasIVProperty && m.plausiblyScopes

/-! ### DMRS -/

structure Node where
  id : Int
  predicate : String
  type : Option String := none
  properties : Props := []
  carg : Option String := none
  lnk : Option (Int × Int) := none
  surface : Option String := none
  base : Option String := none
deriving DecidableEq, Repr, Inhabited

structure Link where
  start : Int
  stop : Int        -- `end` is a keyword
  role : String
  post : String
deriving DecidableEq, Repr, Inhabited

/-- a DMRS after its constructor ran (`_normalize_top_and_links` applied). -/
structure DMRS where
  top : Option Int
  index : Option Int
  nodes : List Node
  links : List Link
deriving DecidableEq, Repr, Inhabited

/-- `Node.__eq__`: ids (and lnk, surface, base) are ignored. -/
def Node.pyEq (a b : Node) : Bool :=
  a.predicate == b.predicate && a.type == b.type && a.properties == b.properties && a.carg == b.carg

/-- `_normalize_top_and_links` -/
def normalizeTopAndLinks (top : Option Int) (links : List Link) : Option Int × List Link :=
  let top' := match top with
    | some t => some t
    | none => (links.find? (fun l => l.start = 0)).map (·.stop)
  (top', links.filter (fun l => l.start ≠ 0))

def EQ_POST : String := "EQ"
def HEQ_POST : String := "HEQ"
def H_POST : String := "H"

def DMRS.ids (d : DMRS) : List Int := d.nodes.map (·.id)

/-- `id_to_lbl = {node.id: vfac.new('h') for node in nodes}`: the k-th node (from 1)
gets `h<k>`; a repeated id keeps its first position and takes the later label. -/
def idToLbl : Nat → List Node → List (Int × Var) → List (Int × Var)
  | _, [], acc => acc
  | k, n :: ns, acc => idToLbl (k + 1) ns (dset n.id ⟨"h", k⟩ acc)

def DMRS.idToLbl (d : DMRS) : List (Int × Var) := Verif.Sem.idToLbl 1 d.nodes []

/-- `[(id_to_lbl[l.start], id_to_lbl[l.end]) for l in links if l.post == 'EQ']` -/
def DMRS.leqs (d : DMRS) : Except Err (List (Var × Var)) :=
  (d.links.filter (fun l => l.post = EQ_POST)).mapM (fun l =>
    match dlookup l.start d.idToLbl, dlookup l.stop d.idToLbl with
    | some a, some b => .ok (a, b)
    | _, _ => .error .keyError)

/-- `{id_to_lbl[node.id]: [node] for node in nodes}` -/
def DMRS.prescopes (d : DMRS) : List (Var × List Node) :=
  d.nodes.foldl (fun acc n =>
    match dlookup n.id d.idToLbl with
    | some l => dset l [n] acc
    | none => acc) []

/-- `DMRS.scopes()` (after the repair of F07: the top scope is found by node id). -/
def DMRS.scopes (d : DMRS) : Except Err (Option Var × List (Var × List Node)) :=
  match d.leqs with
  | .error e => .error e
  | .ok leqs =>
    match conjoin d.prescopes leqs with
    | .error e => .error e
    | .ok scopes =>
      match d.top with
      | none => .ok (none, scopes)
      | some t =>
        if t ∈ d.ids then
          .ok ((scopes.find? (fun s => s.2.any (fun n => n.id = t))).map (·.1), scopes)
        else .error .keyError

/-! ### DMRS: arguments, scopal arguments, descendants, representatives (C07 round 5)

`scope.descendants(d)` / `scope.representatives(d)` on a DMRS.  The order of the nodes
inside a conjoined scope comes from Python `set` iteration, so these functions take the
scope map as a parameter (`…With sc`): the drivers pass the scope map the real
`d.scopes()` returned (compared separately, as a partition, with `DMRS.scopes`), and
the theorems hold for every scope map. -/

inductive DErr where
  | keyError
  | assertionError     -- `assert isinstance(label, str)` in `_descendants`
  | fuel               -- internal (proved unreachable)
deriving DecidableEq, Repr

def BARE_EQ_ROLE : String := "MOD"

/-- `d[id]` (`_pidx`: the last node with that id). -/
def DMRS.node? (d : DMRS) (id : Int) : Option Node := d.nodes.reverse.find? (fun n => n.id = id)

/-- `{node.id: [] for node in d.nodes}` -/
def DMRS.emptyArgMap {β : Type} (d : DMRS) : List (Int × List β) :=
  d.nodes.foldl (fun acc n => dset n.id [] acc) []

/-- does a link pass the `types` filter of `DMRS.arguments`?  (`KeyError` when the
target of a non-scopal link is not a node) -/
def DMRS.linkPasses (d : DMRS) (types : Option String) (l : Link) : Except DErr Bool :=
  match types with
  | none => .ok true
  | some t =>
    if t.isEmpty then .ok true
    else if l.post = H_POST ∨ l.post = HEQ_POST then .ok (isInfix "h".toList t.toList)
    else match d.node? l.stop with
      | none => .error .keyError
      | some n =>
        match n.type with
        | none => .ok false
        | some ty => .ok (isInfix ty.toList t.toList)

def DMRS.argsStep (d : DMRS) (types : Option String) (acc : List (Int × List (Role × Int)))
    (l : Link) : Except DErr (List (Int × List (Role × Int))) :=
  if l.role = BARE_EQ_ROLE then .ok acc
  else match d.linkPasses types l with
    | .error e => .error e
    | .ok false => .ok acc
    | .ok true =>
      if (dlookup l.start acc).isSome then .ok (dextend l.start [(l.role, l.stop)] acc)
      else .error .keyError

/-- `d.arguments(types=types)` (expressed=None) -/
def DMRS.arguments (d : DMRS) (types : Option String) :
    Except DErr (List (Int × List (Role × Int))) :=
  d.links.foldlM (d.argsStep types) d.emptyArgMap

/-- `id_to_lbl` of `scopal_arguments(scopes=sc)`: node id ↦ label of its scope. -/
def scopeLabelOf (sc : List (Var × List Node)) : List (Int × Var) :=
  sc.foldl (fun acc s => s.2.foldl (fun a n => dset n.id s.1 a) acc) []

/-- one link of `scopal_arguments`: `none` as target = the raw node id was kept
(the end is in no scope), which `_descendants` rejects with an AssertionError. -/
def DMRS.scargsStep (lblOf : List (Int × Var))
    (acc : List (Int × List (Role × String × Option Var))) (l : Link) :
    Except DErr (List (Int × List (Role × String × Option Var))) :=
  let rel : Option String :=
    if l.post = HEQ_POST then some LHEQ else if l.post = H_POST then some QEQ else none
  match rel with
  | none => .ok acc
  | some r =>
    if (dlookup l.start acc).isSome then
      .ok (dextend l.start [(l.role, r, dlookup l.stop lblOf)] acc)
    else .error .keyError

/-- `d.scopal_arguments(scopes=sc)` -/
def DMRS.scopalArguments (d : DMRS) (sc : List (Var × List Node)) :
    Except DErr (List (Int × List (Role × String × Option Var))) :=
  d.links.foldlM (DMRS.scargsStep (scopeLabelOf sc)) d.emptyArgMap

/-- `scope.descendants(d, scopes=sc)` -/
def DMRS.descendantsWith (d : DMRS) (sc : List (Var × List Node)) :
    Except DErr (List (Int × List Node)) :=
  match d.scopalArguments sc with
  | .error e => .error e
  | .ok scargs =>
    if scargs.any (fun e => e.2.any (fun a => a.2.2.isNone)) then .error .assertionError
    else
      match descendantsOf (fun n : Node => n.id) d.ids
          (scargs.map (fun e => (e.1, e.2.filterMap (fun a => a.2.2)))) sc with
      | .ok r => .ok r
      | .error .keyError => .error .keyError
      | .error _ => .error .fuel

/-- `d.is_quantifier(id)` -/
def DMRS.isQuantifier (d : DMRS) (id : Int) : Bool :=
  d.links.any (fun l => l.role = RESTRICTION_ROLE && l.start = id)

/-- `_make_representative_priority(d)(n)`, rank component. -/
def DMRS.repRank (d : DMRS) (n : Node) : Nat :=
  if d.isQuantifier n.id || n.type = some "x" then 0
  else if n.type = some "e" then
    let props := match d.node? n.id with | some n' => n'.properties | none => n.properties
    let tense := (dlookup "TENSE" props).getD ""
    if asciiLower tense = "" ∨ asciiLower tense = "untensed" then 2 else 1
  else 3

def DMRS.repKey (d : DMRS) (n : Node) : Nat × Nat := (d.repRank n, d.ids.idxOf n.id + 1)

/-- `scope.representatives(d)` given the scope map `d.scopes()` returned. -/
def DMRS.representativesWith (d : DMRS) (sc : List (Var × List Node)) :
    Except DErr (List (Var × List Node)) :=
  match d.arguments (some "xeipu") with
  | .error e => .error e
  | .ok nsargs =>
    match d.descendantsWith sc with
    | .error e => .error e
    | .ok descs =>
      .ok (representativesOf (fun n : Node => n.id)
        (fun n => ((dlookup n.id nsargs).getD []).map (fun a => a.2))
        (fun j => ((dlookup j descs).getD []).map (fun n : Node => n.id))
        d.repKey sc)

/-- `scope.descendants(d)` / `scope.representatives(d)` with the model's own scope map. -/
def DMRS.descendants (d : DMRS) : Except DErr (List (Int × List Node)) :=
  match d.scopes with
  | .error _ => .error .keyError
  | .ok r => d.descendantsWith r.2

def DMRS.representatives (d : DMRS) : Except DErr (List (Var × List Node)) :=
  match d.scopes with
  | .error _ => .error .keyError
  | .ok r => d.representativesWith r.2

end Verif.Sem
