/-
Python-semantics helpers shared by the models (DESIGN §4).  Core Lean only.
Strings are `List Char`.
-/
namespace Verif.Py

/-- `str.replace(c, r)` for a one-character source `c`. -/
def replaceChar (c : Char) (r : List Char) (s : List Char) : List Char :=
  s.flatMap (fun x => if x = c then r else [x])

/-- prepend `x` to the first piece. -/
def consHead (x : Char) : List (List Char) → List (List Char)
  | [] => [[x]]          -- unreachable below: splitOn never returns []
  | p :: ps => (x :: p) :: ps

/-- `str.split(c)` for a one-character separator: always at least one piece. -/
def splitOn (c : Char) : List Char → List (List Char)
  | [] => [[]]
  | x :: xs => if x = c then [] :: splitOn c xs else consHead x (splitOn c xs)

/-- `sep.join(parts)` for a one-character separator. -/
def joinWith (c : Char) : List (List Char) → List Char
  | [] => []
  | [p] => p
  | p :: ps => p ++ c :: joinWith c ps

/-- `s.rstrip(c)` for one character. -/
def rstripChar (c : Char) (s : List Char) : List Char :=
  (s.reverse.dropWhile (· = c)).reverse

/-! ### Slices — line-by-line model of `PySlice_AdjustIndices` / `PySlice_Unpack` -/

structure Slice where
  start : Option Int
  stop  : Option Int
  step  : Option Int
deriving Repr, DecidableEq

/-- Returns `(start, stop, step)` adjusted to a sequence of length `len`, or `none`
for step 0 (`ValueError`). -/
def sliceIndices (sl : Slice) (len : Nat) : Option (Int × Int × Int) :=
  let n : Int := len
  let step := sl.step.getD 1
  if step = 0 then none else
  let adj (v : Int) : Int :=
    if v < 0 then
      let v' := v + n
      if v' < 0 then (if step < 0 then -1 else 0) else v'
    else if v ≥ n then (if step < 0 then n - 1 else n) else v
  let start := match sl.start with
    | none => if step < 0 then n - 1 else 0
    | some v => adj v
  let stop := match sl.stop with
    | none => if step < 0 then -1 else n
    | some v => adj v
  some (start, stop, step)

/-- The positions `range(start, stop, step)`. -/
def rangeList (start stop step : Int) : List Int :=
  if step > 0 then
    if start < stop then
      let cnt := ((stop - start - 1) / step + 1).toNat
      (List.range cnt).map (fun (k : Nat) => start + step * (k : Int))
    else []
  else if step < 0 then
    if stop < start then
      let cnt := ((start - stop - 1) / (-step) + 1).toNat
      (List.range cnt).map (fun (k : Nat) => start + step * (k : Int))
    else []
  else []

/-- `xs[sl]`; `none` for step 0. -/
def getSlice {α} (xs : List α) (sl : Slice) : Option (List α) :=
  match sliceIndices sl xs.length with
  | none => none
  | some (a, b, st) =>
    some ((rangeList a b st).filterMap (fun i => xs[i.toNat]?))

/-- `xs[i]` with Python negative indexing; `none` = `IndexError`. -/
def getIndex {α} (xs : List α) (i : Int) : Option α :=
  let n : Int := xs.length
  let j := if i < 0 then i + n else i
  if j < 0 then none else xs[j.toNat]?

/-- Python simple-slice assignment `xs[a:b] = ys` (step 1 / None): may change length. -/
def setSliceSimple {α} (xs : List α) (a b : Int) (ys : List α) : List α :=
  let a' := a.toNat
  let b' := (max a b).toNat
  xs.take a' ++ ys ++ xs.drop b'

end Verif.Py
