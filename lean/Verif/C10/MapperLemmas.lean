/-
C10 — lemmas about the modelled FieldMapper / scripted `process` (Mapper.lean).
-/
import Verif.C10.Lemmas
import Verif.C10.Mapper

namespace Verif.C10.L
open Verif.Py Verif.C10 Verif.Tables

/-! ### cell coding -/
theorem decInt_encInt (i : Int) : decInt (encInt i) = some i := by
  unfold decInt encInt
  by_cases h : i ≥ 0
  · rw [if_pos h]
    have h1 : (4 * i.toNat + 1) % 4 = 1 := by omega
    rw [if_pos h1]
    have : (4 * i.toNat + 1) / 4 = i.toNat := by omega
    rw [this]; congr 1; omega
  · rw [if_neg h]
    have h1 : ¬ (4 * (-i).toNat + 2) % 4 = 1 := by omega
    have h2 : (4 * (-i).toNat + 2) % 4 = 2 := by omega
    rw [if_neg h1, if_pos h2]
    have : (4 * (-i).toNat + 2) / 4 = (-i).toNat := by omega
    rw [this]; congr 1; omega

theorem encInt_injective (i j : Int) (h : encInt i = encInt j) : i = j := by
  have := congrArg decInt h
  rw [decInt_encInt, decInt_encInt] at this
  exact Option.some.inj this

/-! ### parse ids -/
theorem parseIds_gt (p : Int) (is : List Int) : ∀ x ∈ parseIds p is, p < x := by
  induction is generalizing p with
  | nil => intro x hx; simp [parseIds] at hx
  | cons i is ih =>
    intro x hx
    simp only [parseIds, List.mem_cons] at hx
    rcases hx with rfl | hx
    · omega
    · have := ih _ x hx; omega

theorem parseIds_increasing (p : Int) (is : List Int) : (parseIds p is).Pairwise (· < ·) := by
  induction is generalizing p with
  | nil => simp [parseIds]
  | cons i is ih =>
    simp only [parseIds, List.pairwise_cons]
    exact ⟨parseIds_gt _ is, ih _⟩

theorem parseIds_ge (p : Int) (is : List Int) :
    (parseIds p is).length = is.length ∧ ∀ k (h1 : k < (parseIds p is).length) (h2 : k < is.length),
      is[k] ≤ (parseIds p is)[k] := by
  induction is generalizing p with
  | nil => simp [parseIds]
  | cons i is ih =>
    obtain ⟨hl, hk⟩ := ih (max (p + 1) i)
    refine ⟨by simp [parseIds, hl], ?_⟩
    intro k h1 h2
    cases k with
    | zero => simp only [parseIds, List.getElem_cons_zero]; omega
    | succ k =>
      simp only [parseIds, List.getElem_cons_succ]
      exact hk k (by simpa [parseIds] using h1) (by simpa using h2)

/-! ### addRows over concatenated groups -/
theorem addRows_append (s : Suite) (b : Int) (xs ys : List (Nat × Row)) :
    addRows s b (xs ++ ys) = match addRows s b xs with
      | (s1, none) => addRows s1 b ys
      | (s1, some e) => (s1, some e) := by
  induction xs generalizing s with
  | nil => simp [addRows]
  | cons p ps ih =>
    obtain ⟨k, r⟩ := p
    simp only [List.cons_append, addRows]
    cases ha : addRow s b k r with
    | mk s1 e =>
      cases e with
      | some e => simp
      | none => simp only; exact ih s1


/-- the relations the mapper writes to -/
def targets : List String := ["parse", "result", "edge", "run"]

theorem targets_affected : ∀ n ∈ targets, c10AffectedTables.contains n = true := by decide

def Targeted (sch : Schema) (p : Nat × Row) : Prop := ∃ n ∈ targets, tableIndex sch n = some p.1

theorem toRows_targeted (sch : Schema) (tx : List (String × Dict)) (h : ∀ q ∈ tx, q.1 ∈ targets) :
    ∀ p ∈ (toRows sch tx).1, Targeted sch p := by
  induction tx with
  | nil => intro p hp; simp [toRows] at hp
  | cons q rest ih =>
    obtain ⟨name, d⟩ := q
    intro p hp
    unfold toRows at hp
    split at hp
    · rename_i k ts hk _
      simp only [List.mem_cons] at hp
      rcases hp with rfl | hp
      · exact ⟨name, h (name, d) (by simp), hk⟩
      · exact ih (fun q hq => h q (by simp [hq])) p hp
    · simp at hp

theorem toRows_length (sch : Schema) (tx : List (String × Dict)) (rows : List (Nat × Row))
    (h : toRows sch tx = (rows, none)) : rows.length = tx.length := by
  induction tx generalizing rows with
  | nil => simp [toRows] at h; subst h; rfl
  | cons q rest ih =>
    obtain ⟨name, d⟩ := q
    unfold toRows at h
    split at h
    · rename_i k ts _ _
      cases hr : toRows sch rest with
      | mk rs e =>
        rw [hr] at h
        simp only [Prod.mk.injEq] at h
        obtain ⟨rfl, rfl⟩ := h
        simp [ih rs hr]
    · simp at h

theorem mapResponse_ok (st st' : MState) (keys : Dict) (r : Resp) (tx : List (String × Dict))
    (h : mapResponse st keys r = .ok (st', tx)) :
    ∃ patch pid edges, mapParse st keys r = .ok (patch, pid) ∧ mapEdges pid r.chart = .ok edges
      ∧ stepRuns { st with parseId := pid } r.run = .ok st'
      ∧ tx = [("parse", patch)] ++ (r.results.getD []).map (fun res => ("result", mapResult pid res))
              ++ edges.map (fun d => ("edge", d)) := by
  unfold mapResponse at h
  split at h
  · cases h
  split at h
  · cases h
  rename_i patch pid hp
  split at h
  · cases h
  rename_i edges he
  split at h
  · cases h
  rename_i st2 hs
  injection h with h
  injection h with h1 h2
  subst h1; subst h2
  exact ⟨patch, pid, edges, hp, he, hs, rfl⟩

theorem mapEdges_length (pid : Int) (es ds : List Dict) (h : mapEdges pid es = .ok ds) : ds.length = es.length := by
  induction es generalizing ds with
  | nil => simp [mapEdges] at h; subst h; rfl
  | cons e es ih =>
    unfold mapEdges at h
    split at h
    · cases h
    split at h
    · cases h
    rename_i d _ ds' hds
    injection h with h
    subst h
    simp [ih ds' hds]

theorem mapResponse_names (st st' : MState) (keys : Dict) (r : Resp) (tx : List (String × Dict))
    (h : mapResponse st keys r = .ok (st', tx)) : ∀ q ∈ tx, q.1 ∈ targets := by
  obtain ⟨patch, pid, edges, _, _, _, rfl⟩ := mapResponse_ok st st' keys r tx h
  intro q hq
  simp only [List.mem_append, List.mem_cons, List.mem_map, List.not_mem_nil, or_false] at hq
  rcases hq with (rfl | ⟨_, _, rfl⟩) | ⟨_, _, rfl⟩ <;> simp [targets]

/-- one response gives one parse row, one row per result, one per chart edge, in that order -/
theorem mapResponse_shape (st st' : MState) (keys : Dict) (r : Resp) (tx : List (String × Dict))
    (h : mapResponse st keys r = .ok (st', tx)) :
    tx.length = 1 + (r.results.getD []).length + r.chart.length
    ∧ tx.map (·.1) = ["parse"] ++ List.replicate (r.results.getD []).length "result"
                      ++ List.replicate r.chart.length "edge" := by
  obtain ⟨patch, pid, edges, _, he, _, rfl⟩ := mapResponse_ok st st' keys r tx h
  have hl := mapEdges_length pid r.chart edges he
  constructor
  · simp [hl]; omega
  · simp only [List.map_append, List.map_cons, List.map_nil, List.map_map]
    congr 1
    · congr 1
      apply List.ext_getElem <;> simp
    · rw [← hl]
      apply List.ext_getElem <;> simp

/-- `_parse_id` after a response is `max(_parse_id + 1, i_id)`: strictly larger than before, at least the item id -/
theorem mapResponse_parseId (st st' : MState) (keys : Dict) (r : Resp) (tx : List (String × Dict))
    (h : mapResponse st keys r = .ok (st', tx)) :
    ∃ iid, decInt (iidCellOf keys) = some iid ∧ st'.parseId = max (st.parseId + 1) iid := by
  obtain ⟨patch, pid, edges, hp, _, hs, _⟩ := mapResponse_ok st st' keys r tx h
  unfold mapParse intCell at hp
  cases hd : decInt (iidCellOf keys) with
  | none => rw [hd] at hp; simp at hp
  | some iid =>
    rw [hd] at hp
    simp only [Except.ok.injEq, Prod.mk.injEq] at hp
    refine ⟨iid, rfl, ?_⟩
    have hpid := hp.2
    unfold stepRuns at hs
    split at hs
    · injection hs with hs; subst hs; exact hpid.symm
    · split at hs
      · cases hs
      · split at hs
        · injection hs with hs; subst hs; exact hpid.symm
        · split at hs
          · cases hs
          · injection hs with hs; subst hs; exact hpid.symm


theorem cleanup_names (st : MState) : ∀ q ∈ cleanup st, q.1 ∈ targets := by
  intro q hq
  unfold cleanup at hq
  split at hq
  · simp only [List.mem_map] at hq
    obtain ⟨_, _, rfl⟩ := hq
    simp [targets]
  · simp at hq

theorem produceItems_spec (sch : Schema) (inFields : List FieldS) (script : List Resp) (st : MState) (pos : Nat)
    (items : List Row) :
    let res := produceItems sch inFields script st pos items
    (∀ g ∈ res.1, ∀ p ∈ g, Targeted sch p)
    ∧ (res.2.2 = none → res.1.length = items.length ∧ st.parseId + items.length ≤ res.2.1.parseId) := by
  induction items generalizing st pos with
  | nil => simp [produceItems]
  | cons item items ih =>
    simp only
    unfold produceItems
    split
    · simp
    rename_i r _
    split
    · simp
    split
    · simp
    rename_i st1 tx hm
    have hnames := mapResponse_names st st1 _ r tx hm
    have htg := toRows_targeted sch tx hnames
    obtain ⟨iid, _, hpid⟩ := mapResponse_parseId st st1 _ r tx hm
    split
    · rename_i rows e hr
      rw [hr] at htg
      refine ⟨?_, by simp⟩
      intro g hg p hp
      simp only [List.mem_singleton] at hg
      subst hg
      exact htg p hp
    · rename_i rows hr
      rw [hr] at htg
      have hih := ih st1 (pos + 1)
      cases hres : produceItems sch inFields script st1 (pos + 1) items with
      | mk gs rest =>
        obtain ⟨st2, e⟩ := rest
        rw [hres] at hih
        simp only at hih ⊢
        obtain ⟨h1, h2⟩ := hih
        refine ⟨?_, ?_⟩
        · intro g hg p hp
          simp only [List.mem_cons] at hg
          rcases hg with rfl | hg
          · exact htg p hp
          · exact h1 g hg p hp
        · intro he
          obtain ⟨hl, hp⟩ := h2 he
          simp only [List.length_cons]
          refine ⟨by omega, ?_⟩
          have : st.parseId + 1 ≤ st1.parseId := by rw [hpid]; omega
          push_cast
          omega

theorem producedGroups_spec (sch : Schema) (inFields : List FieldS) (script : List Resp) (items : List Row)
    (gs : List (List (Nat × Row))) (h : producedGroups sch inFields script items = (gs, none)) :
    gs.length = items.length + 1 ∧ ∀ p ∈ gs.flatten, Targeted sch p := by
  unfold producedGroups at h
  have hs := produceItems_spec sch inFields script {} 0 items
  simp only at hs
  split at h
  · cases h
  rename_i gs0 st hp
  rw [hp] at hs
  simp only at hs
  obtain ⟨h1, h2⟩ := hs
  split at h
  rename_i rows e hr
  simp only [Prod.mk.injEq] at h
  obtain ⟨rfl, rfl⟩ := h
  refine ⟨by simp [(h2 trivial).1], ?_⟩
  intro p hp
  simp only [List.flatten_append, List.flatten_cons, List.flatten_nil, List.append_nil, List.mem_append,
    List.mem_flatten] at hp
  rcases hp with ⟨g, hg, hpg⟩ | hp
  · exact h1 g hg p hpg
  · have := toRows_targeted sch (cleanup st) (cleanup_names st)
    rw [hr] at this
    exact this p hp

theorem processM_ok (sch : Schema) (s s' : Suite) (b : Int) (g : Bool) (script : List Resp)
    (sel : Option (String × String)) (src : Option Suite) (hp : processM sch s b g script sel src = (s', none)) :
    ∃ inFields items gs, inputOf sch s src sel = .ok (inFields, items)
      ∧ producedGroups sch inFields script items = (gs, none)
      ∧ process s b g (affectedIdx sch) gs.flatten = (s', none) := by
  unfold processM at hp
  split at hp
  · simp at hp
  rename_i inFields items hi
  split at hp
  · rename_i gs hg
    exact ⟨inFields, items, gs, hi, hg, hp⟩
  · split at hp <;> simp at hp

theorem tableIndex_name (sch : Schema) (n : String) (j : Nat) (h : tableIndex sch n = some j) :
    ∃ t, sch[j]? = some t ∧ t.name = n := by
  unfold tableIndex at h
  rw [List.findIdx?_eq_some_iff_getElem] at h
  obtain ⟨hj, hp, _⟩ := h
  exact ⟨sch[j], by simp [hj], by simpa using hp⟩

theorem mem_affectedIdx (sch : Schema) (j : Nat) :
    j ∈ affectedIdx sch ↔ ∃ t, sch[j]? = some t ∧ c10AffectedTables.contains t.name = true := by
  unfold affectedIdx
  simp only [List.mem_map, List.mem_filter]
  constructor
  · rintro ⟨p, ⟨hm, hc⟩, rfl⟩
    exact ⟨p.1, List.mem_zipIdx_iff_getElem?.mp hm, hc⟩
  · rintro ⟨t, ht, hc⟩
    exact ⟨(t, j), ⟨List.mem_zipIdx_iff_getElem?.mpr ht, hc⟩, rfl⟩

/-- no produced row goes to a relation outside the mapper's affected set -/
theorem rowsFor_unaffected (sch : Schema) (prod : List (Nat × Row)) (j : Nat) (t : TableS)
    (hj : sch[j]? = some t) (hn : c10AffectedTables.contains t.name = false)
    (hp : ∀ p ∈ prod, Targeted sch p) : rowsFor j prod = [] := by
  unfold rowsFor
  rw [List.map_eq_nil_iff, List.filter_eq_nil_iff]
  intro p hm hpj
  obtain ⟨n, hn1, hn2⟩ := hp p hm
  have hpj' : p.1 = j := by simpa using hpj
  rw [hpj'] at hn2
  obtain ⟨t', ht', hname⟩ := tableIndex_name sch n j hn2
  rw [hj] at ht'
  injection ht' with ht'
  subst ht'
  rw [hname, targets_affected n hn1] at hn
  cases hn


/-- the `k`-th suite of the trace is the state after adding the rows of the first `k` groups -/
theorem traceGroups_getElem? (s : Suite) (b : Int) (gs : List (List (Nat × Row))) (k : Nat) (sk : Suite)
    (hk : (traceGroups s b gs)[k]? = some sk) :
    addRows s b (gs.take k).flatten = (sk, none) := by
  induction gs generalizing s k with
  | nil => simp [traceGroups] at hk
  | cons g gs ih =>
    cases k with
    | zero =>
      simp only [traceGroups, List.getElem?_cons_zero, Option.some.injEq] at hk
      subst hk
      simp [addRows]
    | succ k =>
      simp only [List.take_succ_cons, List.flatten_cons, addRows_append]
      simp only [traceGroups, List.getElem?_cons_succ] at hk
      cases ha : addRows s b g with
      | mk s1 e =>
        rw [ha] at hk
        cases e with
        | some e => simp at hk
        | none => simp only at hk ⊢; exact ih s1 k hk

/-! ### the parse ids of a run -/

theorem dget_append (a b : Dict) (k : String) :
    dget (a ++ b) k = (dget b k).or (dget a k) := by
  unfold dget
  rw [List.reverse_append, List.find?_append]
  cases (b.reverse.find? fun p => p.1 == k) <;> simp

theorem dget_pick_none (keys : List String) (d : Dict) (k : String) (h : k ∉ keys) : dget (pick keys d) k = none := by
  unfold dget
  rw [Option.map_eq_none_iff, List.find?_eq_none]
  intro x hx
  simp only [List.mem_reverse] at hx
  unfold pick at hx
  rw [List.mem_filterMap] at hx
  obtain ⟨k', hk', hxk⟩ := hx
  cases hd : dget d k' with
  | none => rw [hd] at hxk; simp at hxk
  | some v =>
    rw [hd] at hxk
    simp only [Option.map_some, Option.some.injEq] at hxk
    subst hxk
    simp only [beq_iff_eq]
    intro hh
    exact h (hh ▸ hk')

theorem parse_id_not_parse_key : "parse-id" ∉ c10ParseKeys := by decide

/-- the patch `_map_parse` returns carries the new parse id in its `parse-id` entry -/
theorem mapParse_patch_pid (st : MState) (keys : Dict) (r : Resp) (patch : Dict) (pid : Int)
    (h : mapParse st keys r = .ok (patch, pid)) : dget patch "parse-id" = some (encInt pid) := by
  unfold mapParse at h
  split at h
  · cases h
  simp only [Except.ok.injEq, Prod.mk.injEq] at h
  obtain ⟨hp, hpid⟩ := h
  subst hp
  rw [dget_append, dget_pick_none _ _ _ parse_id_not_parse_key]
  simp only [Option.none_or]
  rw [← hpid]
  simp [dget]

/-- BRIDGE: the `parse-id` entries of the transactions a run produces are exactly `parseIds` of the item
ids, starting from the mapper's current `_parse_id` -/
theorem mapItems_parse_ids (inFields : List FieldS) (script : List Resp) (st st' : MState) (pos : Nat)
    (items : List Row) (txs : List (List (String × Dict)))
    (h : mapItems inFields script st pos items = (txs, st', none)) :
    txs.map parsePidCell = (parseIds st.parseId (items.map (itemId inFields))).map (fun p => some (encInt p)) := by
  induction items generalizing st pos txs with
  | nil => simp [mapItems] at h; obtain ⟨rfl, _⟩ := h; rfl
  | cons item items ih =>
    unfold mapItems at h
    split at h
    · simp at h
    rename_i r _
    split at h
    · simp at h
    split at h
    · simp at h
    rename_i st1 tx hm
    cases hrest : mapItems inFields script st1 (pos + 1) items with
    | mk txs1 rest =>
      obtain ⟨st2, e⟩ := rest
      rw [hrest] at h
      simp only [Prod.mk.injEq] at h
      obtain ⟨rfl, rfl, rfl⟩ := h
      obtain ⟨patch, pid, edges, hp, _, _, rfl⟩ := mapResponse_ok st st1 _ r tx hm
      obtain ⟨iid, hiid, hpid⟩ := mapResponse_parseId st st1 _ r _ hm
      have hpp := mapParse_patch_pid st _ r patch pid hp
      have hpid' : pid = max (st.parseId + 1) iid := by
        unfold mapParse intCell at hp
        rw [hiid] at hp
        simp only [Except.ok.injEq, Prod.mk.injEq] at hp
        exact hp.2.symm
      have hitem : itemId inFields item = iid := by simp [itemId, hiid]
      have := ih st1 (pos + 1) txs1 hrest
      simp only [List.map_cons, parseIds, hitem, ← hpid', ← hpid]
      rw [this, hpid, ← hpid']
      simp [parsePidCell, hpp]

/-- the rows `produceItems` yields are the `make_record` images of those transactions -/
theorem produceItems_mapItems (sch : Schema) (inFields : List FieldS) (script : List Resp) (st st' : MState)
    (pos : Nat) (items : List Row) (gs : List (List (Nat × Row)))
    (h : produceItems sch inFields script st pos items = (gs, st', none)) :
    ∃ txs, mapItems inFields script st pos items = (txs, st', none)
      ∧ gs = txs.map (fun tx => (toRows sch tx).1) := by
  induction items generalizing st pos gs with
  | nil => simp [produceItems] at h; obtain ⟨rfl, rfl⟩ := h; exact ⟨[], rfl, rfl⟩
  | cons item items ih =>
    unfold produceItems at h
    unfold mapItems
    split at h
    · simp at h
    rename_i r hr
    split at h
    · simp at h
    rename_i hres
    rw [if_neg hres]
    split at h
    · simp at h
    rename_i st1 tx hm
    split at h
    · simp at h
    rename_i rows hrows
    cases hrest : produceItems sch inFields script st1 (pos + 1) items with
    | mk gs1 rest =>
      obtain ⟨st2, e⟩ := rest
      rw [hrest] at h
      simp only [Prod.mk.injEq] at h
      obtain ⟨rfl, rfl, rfl⟩ := h
      obtain ⟨txs, hmi, hgs⟩ := ih st1 (pos + 1) gs1 hrest
      rw [hmi]
      exact ⟨tx :: txs, rfl, by simp [hgs, hrows]⟩

/-- … and `make_record` puts that entry into the `parse-id` column unchanged -/
theorem makeRecord_cell (fields : List FieldS) (d : Dict) (j : Nat) (f : FieldS) (c : Nat)
    (hf : fields[j]? = some f) (hd : dget d f.name = some c) (hc : c ≠ cNone) :
    (makeRecord fields d)[j]? = some c := by
  unfold makeRecord
  rw [List.getElem?_map, hf]
  simp [hd, hc]


end Verif.C10.L
