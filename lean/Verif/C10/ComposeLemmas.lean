/-
C10 — lemmas for the composed model (Compose.lean): well-formed records, the bridge to the abstract table.
-/
import Verif.C08.Props
import Verif.C09.Props
import Verif.C10.Compose
import Verif.C10.Lemmas
import Verif.C10.MapperLemmas

namespace Verif.C10.Compose
open Verif.C10
open Verif.C08 (Val DType normEmpty)

/-- what `Row.__init__` stores for a cell that was written as `fmtField f v` and read back -/
def reread (f : C09.Field) (v : Val) : List Char := rawOfRead f (normEmpty (some (C09.fmtField f v)))

/-- a cell code is well formed for a column: its text casts, and writing then reading it gives the code back -/
def CellWF (cd : Codec) (f : C09.Field) (c : Nat) : Prop :=
  ∃ v, shown f.dt (cellText cd c) = .ok v ∧ codeCell cd f.dt (reread f v) = c

def RowWF (cd : Codec) (fields : List C09.Field) (r : Row) : Prop :=
  r.length = fields.length ∧ ∀ p ∈ fields.zip r, CellWF cd p.1 p.2

/-- the raw record `split` returns for a line joined from `vals` -/
def rawRec (fields : List C09.Field) (vals : List Val) : C09.RawRec :=
  (C09.cellsOf fields vals).map (fun s => normEmpty (some s))

theorem typedRow_wf (cd : Codec) (fields : List C09.Field) (r : Row) (h : RowWF cd fields r) :
    ∃ vals, typedRow cd fields r = .ok vals ∧ vals.length = fields.length
      ∧ decodeRow cd fields (rawRec fields vals) = .ok r := by
  obtain ⟨hl, hc⟩ := h
  induction fields generalizing r with
  | nil =>
    cases r with
    | nil => exact ⟨[], rfl, rfl, rfl⟩
    | cons _ _ => simp at hl
  | cons f fs ih =>
    cases r with
    | nil => simp at hl
    | cons c cs =>
      obtain ⟨v, hv, hcode⟩ := hc (f, c) (by simp)
      obtain ⟨vs, hvs, hlen, hdec⟩ := ih cs (by simpa using hl) (fun p hp => hc p (by simp [List.zip_cons_cons, hp]))
      refine ⟨v :: vs, ?_, by simp [hlen], ?_⟩
      · unfold typedRow at hvs ⊢
        simp only [List.zip_cons_cons, List.mapM_cons, hv, hvs, bind, Except.bind, pure, Except.pure]
      · unfold decodeRow rawRec C09.cellsOf at hdec ⊢
        simp only [List.zip_cons_cons, List.map_cons, List.length_cons, List.length_map, List.length_zip, hlen,
          Nat.min_self, ne_eq, not_true_eq_false, if_false] at hdec ⊢
        injection hdec with hdec
        congr 1
        rw [List.cons.injEq]
        exact ⟨hcode, hdec⟩


theorem mapM_typed_wf (cd : Codec) (fields : List C09.Field) (rows : List Row)
    (h : ∀ r ∈ rows, RowWF cd fields r) :
    ∃ vals, rows.mapM (typedRow cd fields) = .ok vals ∧ vals.length = rows.length
      ∧ (∀ v ∈ vals, v.length = fields.length)
      ∧ (vals.map (rawRec fields)).mapM (decodeRow cd fields) = .ok rows := by
  induction rows with
  | nil => exact ⟨[], rfl, rfl, by simp, rfl⟩
  | cons r rs ih =>
    obtain ⟨v, hv, hl, hd⟩ := typedRow_wf cd fields r (h r (by simp))
    obtain ⟨vs, hvs, hls, hlen, hds⟩ := ih (fun x hx => h x (by simp [hx]))
    refine ⟨v :: vs, ?_, by simp [hls], ?_, ?_⟩
    · simp only [List.mapM_cons, hv, hvs, bind, Except.bind, pure, Except.pure]
    · intro x hx
      simp only [List.mem_cons] at hx
      rcases hx with rfl | hx
      · exact hl
      · exact hlen x hx
    · simp only [List.map_cons, List.mapM_cons, hd, hds, bind, Except.bind, pure, Except.pure]

theorem mapM_append_ok {α β ε} (f : α → Except ε β) (xs ys : List α) (a b : List β)
    (hx : xs.mapM f = .ok a) (hy : ys.mapM f = .ok b) : (xs ++ ys).mapM f = .ok (a ++ b) := by
  induction xs generalizing a with
  | nil => simp [pure, Except.pure] at hx; subst hx; simpa using hy
  | cons x xs ih =>
    simp only [List.mapM_cons, bind, Except.bind, pure, Except.pure] at hx
    split at hx
    · cases hx
    rename_i y hy1
    split at hx
    · cases hx
    rename_i ys' hys
    injection hx with hx
    subst hx
    simp only [List.cons_append, List.mapM_cons, bind, Except.bind, pure, Except.pure, hy1, ih ys' hys]

/-- staging never fails on records of the right width (non-empty field list) -/
theorem stage_total (fields : List C09.Field) (hne : fields ≠ []) (vals : List (List Val))
    (h : ∀ v ∈ vals, v.length = fields.length) :
    ∃ lines, C09.stage fields vals = .ok lines ∧ lines.length = vals.length := by
  induction vals with
  | nil => exact ⟨[], rfl, rfl⟩
  | cons v vs ih =>
    obtain ⟨ls, hls, hlen⟩ := ih (fun x hx => h x (by simp [hx]))
    have hv := h v (by simp)
    have he : ∃ l, C09.encodeLine fields v = .ok l := by
      unfold C09.encodeLine
      have : fields.isEmpty = false := by cases fields <;> simp_all
      simp [this, hv]
    obtain ⟨l, hl⟩ := he
    refine ⟨l :: ls, ?_, by simp [hlen]⟩
    unfold C09.stage at hls ⊢
    simp only [List.mapM_cons, hl, hls, bind, Except.bind, pure, Except.pure]

/-- what a table reads back from a relation whose lines were staged from well-formed rows -/
theorem fileRows_staged (cd : Codec) (fields : List C09.Field) (rows : List Row) (vals : List (List Val))
    (lines : List C09.Line) (rel : C09.Rel)
    (hwf : ∀ r ∈ rows, RowWF cd fields r) (hv : rows.mapM (typedRow cd fields) = .ok vals)
    (hst : C09.stage fields vals = .ok lines) (hr : rel.read = some lines) :
    fileRows cd fields rel = .ok rows := by
  obtain ⟨vals', hv', _, _, hdec⟩ := mapM_typed_wf cd fields rows hwf
  rw [hv] at hv'
  injection hv' with hv'
  subst hv'
  unfold fileRows
  rw [C09.readRaw_staged fields vals lines rel hst hr]
  exact hdec


/-- the composed table is in step with its files: the rows it believes to be stored are what the file
decodes to, the file's lines are the `join` of those rows, all rows are well-formed records -/
structure Consistent (cd : Codec) (ct : CT) : Prop where
  fields_ne : ct.fields ≠ []
  gz_eq : ct.t.gz = ct.rel.useGz
  one_form : C09.OneForm ct.rel
  file_wf : ∀ r ∈ ct.t.file, RowWF cd ct.fields r
  mem_wf : ∀ r, some r ∈ ct.t.rows → RowWF cd ct.fields r
  file_ok : ∃ vals lines, ct.t.file.mapM (typedRow cd ct.fields) = .ok vals
      ∧ C09.stage ct.fields vals = .ok lines ∧ ct.rel.read = some lines

theorem useGz_of_oneForm (r : C09.Rel) (h : C09.OneForm r) : r.useGz = r.gz.isSome := by
  unfold C09.Rel.useGz
  rcases h with ⟨h1, h2⟩ | ⟨h1, h2⟩
  · cases hg : r.gz with
    | none => rfl
    | some g => rw [hg] at h2; simp at h2
  · cases hg : r.gz with
    | none => rw [hg] at h2; simp at h2
    | some g =>
      cases ht : r.tx with
      | none => rfl
      | some t => rw [ht] at h1; simp at h1

theorem abs_mem (t : T) (r : Row) (h : r ∈ abs t) : r ∈ t.file ∨ some r ∈ t.rows := by
  unfold abs absL at h
  rw [List.mem_filterMap] at h
  obtain ⟨o, ho, hid⟩ := h
  simp only [id] at hid
  subst hid
  rw [List.mem_iff_getElem?] at ho
  obtain ⟨i, hi⟩ := ho
  rw [L.resolve_getElem?] at hi
  cases hr : t.rows[i]? with
  | none => rw [hr] at hi; simp at hi
  | some o =>
    rw [hr] at hi
    simp only [Option.map_some, Option.some.injEq] at hi
    cases o with
    | some x =>
      simp at hi; subst hi
      exact Or.inr (List.mem_of_getElem? hr)
    | none =>
      simp at hi
      exact Or.inl (List.mem_of_getElem? hi)

theorem abs_wf (cd : Codec) (ct : CT) (h : Consistent cd ct) : ∀ r ∈ abs ct.t, RowWF cd ct.fields r := by
  intro r hr
  rcases abs_mem ct.t r hr with h1 | h1
  · exact h.file_wf r h1
  · exact h.mem_wf r h1

/-- reading the files of a consistent table gives back the rows it believes to be stored -/
theorem fileRows_consistent (cd : Codec) (ct : CT) (h : Consistent cd ct) :
    fileRows cd ct.fields ct.rel = .ok ct.t.file := by
  obtain ⟨vals, lines, hv, hst, hr⟩ := h.file_ok
  exact fileRows_staged cd ct.fields ct.t.file vals lines ct.rel h.file_wf hv hst hr

/-- BRIDGE for reload / reopen / `_sync_with_file` -/
theorem syncC_eq (cd : Codec) (ct : CT) (h : Consistent cd ct) :
    syncC cd ct = .ok { ct with t := sync ct.t } := by
  unfold syncC
  rw [fileRows_consistent cd ct h]
  simp only
  congr 2
  rw [← h.gz_eq]

theorem consistent_sync (cd : Codec) (ct : CT) (h : Consistent cd ct) :
    Consistent cd { ct with t := sync ct.t } := by
  refine ⟨h.fields_ne, h.gz_eq, h.one_form, h.file_wf, ?_, h.file_ok⟩
  intro r hr
  simp only [sync, List.mem_replicate] at hr
  exact absurd hr.2 (by simp)


/-- `tsdb.write` of well-formed rows succeeds unless it is an append to / as compressed data, and C09 says
what is on disk afterwards -/
theorem writeRows_ok (cd : Codec) (now : Nat) (ct : CT) (append gzip : Bool) (data : List Row)
    (hne : ct.fields ≠ []) (hwf : ∀ r ∈ data, RowWF cd ct.fields r)
    (hacc : append = true → gzip = false ∧ ct.rel.useGz = false) :
    ∃ vals lines rel', data.mapM (typedRow cd ct.fields) = .ok vals
      ∧ C09.stage ct.fields vals = .ok lines ∧ lines.length = data.length
      ∧ writeRows cd now ct append gzip data = .ok rel'
      ∧ rel'.read = some ((if append then ct.rel.read.getD [] else []) ++ lines)
      ∧ C09.OneForm rel' ∧ rel'.gz.isSome = (gzip && !lines.isEmpty) := by
  obtain ⟨vals, hv, hvl, hlen, _⟩ := mapM_typed_wf cd ct.fields data hwf
  obtain ⟨lines, hst, hll⟩ := stage_total ct.fields hne vals hlen
  have hq : ∃ rel', C09.write now ct.rel { append := append, gzip := gzip, staged := C09.stage ct.fields vals } = .ok rel' := by
    unfold C09.write
    have hrej : (append && (gzip || ct.rel.useGz)) = false := by
      cases append with
      | false => rfl
      | true => obtain ⟨h1, h2⟩ := hacc rfl; simp [h1, h2]
    simp only [hrej, Bool.false_eq_true, if_false, hst]
    split <;> exact ⟨_, rfl⟩
  obtain ⟨rel', hw⟩ := hq
  have hread := C09.write_read now ct.rel rel' _ hw
  obtain ⟨hone, hgz⟩ := C09.write_one_form now ct.rel rel' _ hw
  have hlo : C09.linesOf { append := append, gzip := gzip, staged := C09.stage ct.fields vals } = lines := by
    simp [C09.linesOf, hst]
  rw [hlo] at hread hgz
  refine ⟨vals, lines, rel', hv, hst, by omega, ?_, hread, hone, ?_⟩
  · unfold writeRows
    simp only [hv, hw]
  · simp only at hgz
    cases hg : rel'.gz.isSome
    · symm
      rw [Bool.eq_false_iff]
      intro hc
      have : gzip = true ∧ lines ≠ [] := by
        cases gzip <;> cases lines <;> simp_all
      have := hgz.mpr this
      rw [hg] at this
      cases this
    · have := hgz.mp hg
      cases gzip <;> cases lines <;> simp_all


/-- after a write of well-formed rows `newFile` whose staging is what the relation now reads as, the
synchronized table is consistent -/
theorem consistent_after (cd : Codec) (ct : CT) (rel' : C09.Rel) (newFile : List Row)
    (vals : List (List Val)) (lines : List C09.Line)
    (hne : ct.fields ≠ []) (hone : C09.OneForm rel')
    (hwf : ∀ r ∈ newFile, RowWF cd ct.fields r)
    (hv : newFile.mapM (typedRow cd ct.fields) = .ok vals) (hst : C09.stage ct.fields vals = .ok lines)
    (hr : rel'.read = some lines) :
    syncC cd { ct with rel := rel' } = .ok { ct with rel := rel', t := sync { ct.t with file := newFile, gz := rel'.useGz } }
    ∧ Consistent cd { ct with rel := rel', t := sync { ct.t with file := newFile, gz := rel'.useGz } } := by
  constructor
  · unfold syncC
    simp only
    rw [fileRows_staged cd ct.fields newFile vals lines rel' hwf hv hst hr]
  · refine ⟨hne, rfl, hone, hwf, ?_, ⟨vals, lines, hv, hst, hr⟩⟩
    intro r hr'
    simp only [sync, List.mem_replicate] at hr'
    exact absurd hr'.2 (by simp)

/-- BRIDGE for commit: on well-formed records the commit through `tsdb.write` (C09) and back through
`split` / `Row.__init__` (C08) is the abstract commit, and the table stays consistent with its files -/
theorem commitC_bridge (cd : Codec) (now : Nat) (ct : CT) (h : Consistent cd ct) (ha : Aligned ct.t) :
    ∃ ct', commitC cd now ct = .ok ct' ∧ commit ct.t = .ok ct'.t ∧ Consistent cd ct'
      ∧ ct'.fields = ct.fields := by
  unfold commitC commit
  by_cases htx : inTransaction ct.t = true
  · rw [if_pos htx, if_pos htx]
    simp only
    by_cases happ : ct.t.vol ≥ (ct.t.pers : Int) ∧ ct.rel.useGz = false
    · -- append
      have hgz : ct.t.gz = false := by rw [h.gz_eq]; exact happ.2
      rw [if_pos happ, if_pos ⟨happ.1, hgz⟩]
      have hn : ct.t.pers ≤ ct.t.rows.length := by have := ha.vol_le; omega
      rw [L.iterSlice_from ct.t ct.t.pers ha hn]
      simp only
      have hdwf : ∀ r ∈ (abs ct.t).drop ct.t.pers, RowWF cd ct.fields r :=
        fun r hr => abs_wf cd ct h r (List.mem_of_mem_drop hr)
      obtain ⟨vals2, lines2, rel', hv2, hst2, _, hw, hread, hone, hgzs⟩ :=
        writeRows_ok cd now ct true false _ h.fields_ne hdwf (fun _ => ⟨rfl, happ.2⟩)
      rw [hw]
      simp only
      obtain ⟨vals1, lines1, hv1, hst1, hr1⟩ := h.file_ok
      have hv : (ct.t.file ++ (abs ct.t).drop ct.t.pers).mapM (typedRow cd ct.fields) = .ok (vals1 ++ vals2) :=
        mapM_append_ok _ _ _ _ _ hv1 hv2
      have hst : C09.stage ct.fields (vals1 ++ vals2) = .ok (lines1 ++ lines2) := by
        unfold C09.stage at hst1 hst2 ⊢
        exact mapM_append_ok _ _ _ _ _ hst1 hst2
      have hr : rel'.read = some (lines1 ++ lines2) := by
        rw [hread, hr1]; rfl
      have hwf : ∀ r ∈ ct.t.file ++ (abs ct.t).drop ct.t.pers, RowWF cd ct.fields r := by
        intro r hr'
        rw [List.mem_append] at hr'
        rcases hr' with h1 | h1
        · exact h.file_wf r h1
        · exact hdwf r h1
      obtain ⟨hs, hc⟩ := consistent_after cd ct rel' _ _ _ h.fields_ne hone hwf hv hst hr
      have hug : rel'.useGz = false := by
        rw [useGz_of_oneForm rel' hone, hgzs]; rfl
      refine ⟨_, hs, ?_, hc, rfl⟩
      simp only
      rw [hug, ← hgz]
    · -- rewrite
      have hnapp : ¬ (ct.t.vol ≥ (ct.t.pers : Int) ∧ ct.t.gz = false) := by rw [h.gz_eq]; exact happ
      rw [if_neg happ, if_neg hnapp]
      obtain ⟨vals, lines, rel', hv, hst, hll, hw, hread, hone, hgzs⟩ :=
        writeRows_ok cd now ct false ct.rel.useGz (abs ct.t) h.fields_ne (abs_wf cd ct h) (fun hh => by cases hh)
      rw [hw]
      simp only
      have hr : rel'.read = some lines := by rw [hread]; rfl
      obtain ⟨hs, hc⟩ := consistent_after cd ct rel' _ _ _ h.fields_ne hone (abs_wf cd ct h) hv hst hr
      have hug : rel'.useGz = (ct.t.gz && !(abs ct.t).isEmpty) := by
        rw [useGz_of_oneForm rel' hone, hgzs, h.gz_eq]
        congr 2
        cases hl : lines <;> cases ha' : abs ct.t <;> simp_all
      refine ⟨_, hs, ?_, hc, rfl⟩
      simp only
      rw [hug]
  · rw [if_neg htx, if_neg htx, syncC_eq cd ct h]
    exact ⟨_, rfl, rfl, consistent_sync cd ct h, rfl⟩


theorem formatInt_ne_nil (i : Int) : C08.formatInt i ≠ [] := by
  cases i with
  | ofNat n =>
    simp only [C08.formatInt]
    intro h
    exact C08.L.natDigits_ne_nil _ h
  | negSucc n => simp [C08.formatInt]

theorem encInt_ne_zero (i : Int) : encInt i ≠ 0 := by
  unfold encInt; split <;> omega

theorem normEmpty_some_ne (s : List Char) (h : s ≠ []) : normEmpty (some s) = some s := by
  cases s with
  | nil => exact absurd rfl h
  | cons _ _ => rfl

/-- an integer in an `:integer` column: shows the integer, and survives write + read -/
theorem cellWF_int (cd : Codec) (f : C09.Field) (i : Int) (hdt : f.dt = .integer) :
    shown f.dt (cellText cd (encInt i)) = .ok (.int i) ∧ CellWF cd f (encInt i) := by
  have htext : cellText cd (encInt i) = C08.formatInt i := by
    unfold cellText
    rw [if_neg (encInt_ne_zero i), L.decInt_encInt]
  have hshown : shown f.dt (cellText cd (encInt i)) = .ok (.int i) := by
    rw [htext, hdt]
    unfold shown
    have := C08.cast_format_int i
    simp only [C08.format] at this
    rw [this]
  refine ⟨hshown, .int i, hshown, ?_⟩
  unfold reread C09.fmtField
  simp only [C08.format]
  rw [normEmpty_some_ne _ (formatInt_ne_nil i)]
  unfold rawOfRead codeCell
  have hne : (C08.formatInt i).isEmpty = false := by
    cases h : C08.formatInt i with
    | nil => exact absurd h (formatInt_ne_nil i)
    | cons _ _ => rfl
  simp only [hne, Bool.false_eq_true, if_false, hdt, if_true, C08.castInt_formatInt]

/-- None in a column that is not `:integer` (and has no coded default) -/
theorem cellWF_none (cd : Codec) (f : C09.Field) (hdt : f.dt ≠ .integer) (hdef : f.default = []) :
    shown f.dt (cellText cd 0) = .ok .none ∧ CellWF cd f 0 := by
  have hshown : shown f.dt (cellText cd 0) = .ok .none := by
    simp [cellText, shown, C08.cast]
  refine ⟨hshown, .none, hshown, ?_⟩
  unfold reread C09.fmtField
  simp only [hdef]
  unfold normEmpty rawOfRead codeCell
  simp [C08.format, hdt]

/-- a non-empty string in a `:string` column (interned at its first position in the table) -/
theorem cellWF_str (cd : Codec) (f : C09.Field) (k : Nat) (s : List Char) (hdt : f.dt = .string)
    (hk : cd.tbl[k]? = some s) (hs : s ≠ []) (hidx : cd.tbl.idxOf s = k) :
    shown f.dt (cellText cd (4 * k + 3)) = .ok (.str s) ∧ CellWF cd f (4 * k + 3) := by
  have htext : cellText cd (4 * k + 3) = s := by
    unfold cellText decInt
    have h1 : (4 * k + 3) % 4 ≠ 1 := by omega
    have h2 : (4 * k + 3) % 4 ≠ 2 := by omega
    have h3 : (4 * k + 3 - 3) / 4 = k := by omega
    rw [if_neg (by omega), if_neg h1, if_neg h2]
    simp only [h3, hk, Option.getD_some]
  have hne : s.isEmpty = false := by cases s <;> simp_all
  have hshown : shown f.dt (cellText cd (4 * k + 3)) = .ok (.str s) := by
    rw [htext, hdt]
    simp [shown, C08.cast, hne]
  refine ⟨hshown, .str s, hshown, ?_⟩
  unfold reread C09.fmtField
  simp only [C08.format]
  rw [normEmpty_some_ne _ hs]
  unfold rawOfRead codeCell
  simp [hne, hdt, hidx]

/-- a calendar-valid date-time in a `:date` column -/
theorem cellWF_date (cd : Codec) (f : C09.Field) (k : Nat) (t : C08.DT) (hdt : f.dt = .date)
    (hv : t.Valid = true) (hk : cd.tbl[k]? = some (C08.formatDate t)) (hidx : cd.tbl.idxOf (C08.formatDate t) = k) :
    shown f.dt (cellText cd (4 * k + 3)) = .ok (.date t) ∧ CellWF cd f (4 * k + 3) := by
  have htext : cellText cd (4 * k + 3) = C08.formatDate t := by
    unfold cellText decInt
    have h1 : (4 * k + 3) % 4 ≠ 1 := by omega
    have h2 : (4 * k + 3) % 4 ≠ 2 := by omega
    have h3 : (4 * k + 3 - 3) / 4 = k := by omega
    rw [if_neg (by omega), if_neg h1, if_neg h2]
    simp only [h3, hk, Option.getD_some]
  have hcast := C08.cast_format_date t hv
  simp only [C08.format, if_true] at hcast
  have hne' : C08.formatDate t ≠ [] := by
    intro h
    rw [h] at hcast
    simp [C08.cast] at hcast
  have hne : (C08.formatDate t).isEmpty = false := by
    cases h : C08.formatDate t with
    | nil => exact absurd h hne'
    | cons _ _ => rfl
  have hshown : shown f.dt (cellText cd (4 * k + 3)) = .ok (.date t) := by
    rw [htext, hdt]
    unfold shown
    rw [hcast]
  refine ⟨hshown, .date t, hshown, ?_⟩
  unfold reread C09.fmtField
  simp only [C08.format, hdt, if_true]
  rw [normEmpty_some_ne _ hne']
  unfold rawOfRead codeCell
  simp [hne, hdt, hidx]


theorem setSlice_frame (t t' : T) (sl : Verif.Py.Slice) (vals : List Row) (h : setSlice t sl vals = .ok t') :
    t'.file = t.file ∧ t'.gz = t.gz := by
  unfold setSlice at h
  split at h
  · cases h
  split at h
  · cases h
  simp only at h
  split at h
  · cases h
  · injection h with h; subst h; exact ⟨rfl, rfl⟩

theorem setItem_frame (t t' : T) (i : Int) (r : Row) (h : setItem t i r = .ok t') :
    t'.file = t.file ∧ t'.gz = t.gz := by
  unfold setItem at h
  simp only at h
  generalize (if i < 0 then (t.rows.length : Int) + i else i) = j at h
  by_cases hj : j < 0 ∨ j ≥ (t.rows.length : Int)
  · rw [if_pos hj] at h; cases h
  · rw [if_neg hj] at h; exact setSlice_frame t t' _ _ h

theorem update_frame (t t' : T) (i : Int) (cols : List (Nat × Nat)) (h : update t i cols = .ok t') :
    t'.file = t.file ∧ t'.gz = t.gz := by
  unfold update at h
  simp only [bind, Except.bind] at h
  split at h
  · cases h
  split at h
  · cases h
  · exact setItem_frame t t' i _ h

/-- the in-memory operations never touch what the table believes to be stored -/
theorem step_frame (t : T) (op : Op) (hop : op ≠ .commit ∧ op ≠ .reload ∧ op ≠ .reopen) :
    (step t op).1.file = t.file ∧ (step t op).1.gz = t.gz := by
  cases op with
  | append r => exact ⟨rfl, rfl⟩
  | extend rs => exact ⟨rfl, rfl⟩
  | setItem i r =>
    simp only [step]
    cases h : setItem t i r with
    | ok t' => exact setItem_frame t t' i r h
    | error e => exact ⟨rfl, rfl⟩
  | setSlice sl vals =>
    simp only [step]
    cases h : setSlice t sl vals with
    | ok t' => exact setSlice_frame t t' sl vals h
    | error e => exact ⟨rfl, rfl⟩
  | update i cols =>
    simp only [step]
    cases h : update t i cols with
    | ok t' => exact update_frame t t' i cols h
    | error e => exact ⟨rfl, rfl⟩
  | clear => exact ⟨rfl, rfl⟩
  | commit => exact absurd rfl hop.1
  | reload => exact absurd rfl hop.2.1
  | reopen => exact absurd rfl hop.2.2

/-- BRIDGE, one step of a history: the table on real files does what the abstract table does (same
bookkeeping, same exception) and stays consistent with its files, provided the rows the operation leaves
in memory are well-formed records -/
theorem stepC_bridge (cd : Codec) (now : Nat) (ct : CT) (op : Op) (h : Consistent cd ct) (ha : Aligned ct.t)
    (hmem : ∀ r, some r ∈ (step ct.t op).1.rows → RowWF cd ct.fields r) :
    (stepC cd now ct op).1.t = (step ct.t op).1 ∧ (stepC cd now ct op).2 = (step ct.t op).2
    ∧ Consistent cd (stepC cd now ct op).1 ∧ (stepC cd now ct op).1.fields = ct.fields := by
  have hsync : ∀ o : Op, (o = .reload ∨ o = .reopen) → step ct.t o = (sync ct.t, none) := by
    intro o ho; rcases ho with rfl | rfl <;> rfl
  cases op with
  | commit =>
    obtain ⟨ct', hc, habs, hcons, hf⟩ := commitC_bridge cd now ct h ha
    have hs : stepC cd now ct .commit = (ct', none) := by simp only [stepC, hc]
    have ha2 : step ct.t .commit = (ct'.t, none) := by simp only [step, habs, ofExcept]
    rw [hs, ha2]; exact ⟨rfl, rfl, hcons, hf⟩
  | reload =>
    have hs : stepC cd now ct .reload = ({ ct with t := sync ct.t }, none) := by
      simp only [stepC, syncC_eq cd ct h]
    rw [hs]; exact ⟨rfl, rfl, consistent_sync cd ct h, rfl⟩
  | reopen =>
    have hs : stepC cd now ct .reopen = ({ ct with t := sync ct.t }, none) := by
      simp only [stepC, syncC_eq cd ct h]
    rw [hs]; exact ⟨rfl, rfl, consistent_sync cd ct h, rfl⟩
  | append r =>
    have hfr := step_frame ct.t (.append r) (by simp)
    refine ⟨rfl, rfl, ⟨h.fields_ne, ?_, h.one_form, ?_, hmem, ?_⟩, rfl⟩
    · simp only [stepC]; rw [hfr.2]; exact h.gz_eq
    · simp only [stepC]; rw [hfr.1]; exact h.file_wf
    · simp only [stepC]; rw [hfr.1]; exact h.file_ok
  | extend rs =>
    have hfr := step_frame ct.t (.extend rs) (by simp)
    refine ⟨rfl, rfl, ⟨h.fields_ne, ?_, h.one_form, ?_, hmem, ?_⟩, rfl⟩
    · simp only [stepC]; rw [hfr.2]; exact h.gz_eq
    · simp only [stepC]; rw [hfr.1]; exact h.file_wf
    · simp only [stepC]; rw [hfr.1]; exact h.file_ok
  | setItem i r =>
    have hfr := step_frame ct.t (.setItem i r) (by simp)
    refine ⟨rfl, rfl, ⟨h.fields_ne, ?_, h.one_form, ?_, hmem, ?_⟩, rfl⟩
    · simp only [stepC]; rw [hfr.2]; exact h.gz_eq
    · simp only [stepC]; rw [hfr.1]; exact h.file_wf
    · simp only [stepC]; rw [hfr.1]; exact h.file_ok
  | setSlice sl vals =>
    have hfr := step_frame ct.t (.setSlice sl vals) (by simp)
    refine ⟨rfl, rfl, ⟨h.fields_ne, ?_, h.one_form, ?_, hmem, ?_⟩, rfl⟩
    · simp only [stepC]; rw [hfr.2]; exact h.gz_eq
    · simp only [stepC]; rw [hfr.1]; exact h.file_wf
    · simp only [stepC]; rw [hfr.1]; exact h.file_ok
  | update i cols =>
    have hfr := step_frame ct.t (.update i cols) (by simp)
    refine ⟨rfl, rfl, ⟨h.fields_ne, ?_, h.one_form, ?_, hmem, ?_⟩, rfl⟩
    · simp only [stepC]; rw [hfr.2]; exact h.gz_eq
    · simp only [stepC]; rw [hfr.1]; exact h.file_wf
    · simp only [stepC]; rw [hfr.1]; exact h.file_ok
  | clear =>
    have hfr := step_frame ct.t .clear (by simp)
    refine ⟨rfl, rfl, ⟨h.fields_ne, ?_, h.one_form, ?_, hmem, ?_⟩, rfl⟩
    · simp only [stepC]; rw [hfr.2]; exact h.gz_eq
    · simp only [stepC]; rw [hfr.1]; exact h.file_wf
    · simp only [stepC]; rw [hfr.1]; exact h.file_ok

/-- the rows every operation of the history leaves in memory are well-formed records -/
def MemWFAlong (cd : Codec) (fields : List C09.Field) : T → List Op → Prop
  | _, [] => True
  | t, op :: ops => (∀ r, some r ∈ (step t op).1.rows → RowWF cd fields r) ∧ MemWFAlong cd fields (step t op).1 ops

/-- BRIDGE, all histories: bookkeeping and exceptions of the table on real files are those of the abstract
table, so `run_refines` (the plain Python list) speaks about the table on real files -/
theorem runC_bridge (cd : Codec) (now : Nat) (ct : CT) (ops : List Op) (h : Consistent cd ct) (ha : Aligned ct.t)
    (hm : MemWFAlong cd ct.fields ct.t ops) :
    (runC cd now ct ops).1.t = (run ct.t ops).1 ∧ (runC cd now ct ops).2 = (run ct.t ops).2
    ∧ Consistent cd (runC cd now ct ops).1 := by
  induction ops generalizing now ct with
  | nil => exact ⟨rfl, rfl, h⟩
  | cons op ops ih =>
    obtain ⟨hmem, hrest⟩ := hm
    obtain ⟨h1, h2, h3, h4⟩ := stepC_bridge cd now ct op h ha hmem
    have ha' : Aligned (stepC cd now ct op).1.t := by rw [h1]; exact (L.step_ok ct.t op ha).1
    have := ih (now + 1) (stepC cd now ct op).1 h3 ha' (by rw [h1, h4]; exact hrest)
    simp only [runC, run]
    rw [h1] at this
    exact ⟨this.1, by rw [h2, this.2.1], this.2.2⟩


end Verif.C10.Compose
