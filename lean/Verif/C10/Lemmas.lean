/-
C10 — helper lemmas for Props.lean (core Lean only).
-/
import Verif.C10.Model

namespace Verif.C10.L
open Verif.Py Verif.C10

/-! ### resolve / absL -/

theorem resolve_length (rows : List (Option Row)) (f : List Row) :
    (resolve rows f).length = rows.length := by
  induction rows generalizing f with
  | nil => rfl
  | cons o rs ih => simp [resolve, ih]

theorem resolve_append (a b : List (Option Row)) (f : List Row) :
    resolve (a ++ b) f = resolve a f ++ resolve b (f.drop a.length) := by
  induction a generalizing f with
  | nil => simp [resolve]
  | cons o rs ih =>
    simp only [List.cons_append, resolve, ih, List.length_cons]
    congr 2
    cases f <;> simp

theorem resolve_map_some (vals : List Row) (f : List Row) :
    resolve (vals.map some) f = vals.map some := by
  induction vals generalizing f with
  | nil => rfl
  | cons v vs ih => simp [resolve, ih]

theorem resolve_getElem? (rows : List (Option Row)) (f : List Row) (i : Nat) :
    (resolve rows f)[i]? = (rows[i]?).map (fun o => o.or f[i]?) := by
  induction rows generalizing f i with
  | nil => simp [resolve]
  | cons o rs ih =>
    cases i with
    | zero => cases f <;> simp [resolve]
    | succ i => cases f <;> simp [resolve, ih]

theorem resolve_take (rows : List (Option Row)) (f : List Row) (k : Nat) :
    resolve (rows.take k) f = (resolve rows f).take k := by
  apply List.ext_getElem?
  intro i
  rw [resolve_getElem?, List.getElem?_take, List.getElem?_take]
  split <;> simp [resolve_getElem?]

theorem resolve_drop (rows : List (Option Row)) (f : List Row) (k : Nat) :
    resolve (rows.drop k) (f.drop k) = (resolve rows f).drop k := by
  apply List.ext_getElem?
  intro i
  simp [resolve_getElem?, List.getElem?_drop]

/-- no placeholder points behind the end of the file -/
def ND (rows : List (Option Row)) (f : List Row) : Prop :=
  ∀ i, rows[i]? = some none → i < f.length

theorem filterMap_id_map_some {α} (xs : List α) : (xs.map some).filterMap id = xs := by
  induction xs with
  | nil => rfl
  | cons x xs ih => simp [ih]

theorem map_some_filterMap_id {α} (L : List (Option α)) (h : ∀ x ∈ L, x ≠ none) :
    (L.filterMap id).map some = L := by
  induction L with
  | nil => rfl
  | cons x xs ih =>
    cases x with
    | none => exact absurd rfl (h none (by simp))
    | some v =>
      simp only [List.filterMap_cons, id, List.map_cons]
      rw [ih (fun y hy => h y (by simp [hy]))]

theorem resolve_ne_none (rows : List (Option Row)) (f : List Row) (h : ND rows f) :
    ∀ x ∈ resolve rows f, x ≠ none := by
  intro x hx
  rw [List.mem_iff_getElem?] at hx
  obtain ⟨i, hi⟩ := hx
  rw [resolve_getElem?] at hi
  cases hr : rows[i]? with
  | none => simp [hr] at hi
  | some o =>
    simp only [hr, Option.map_some, Option.some.injEq] at hi
    cases o with
    | some r => simp at hi; simp [← hi]
    | none =>
      have := h i hr
      simp at hi
      rw [List.getElem?_eq_getElem this] at hi
      simp [← hi]

/-- with no dangling placeholder the table shows one row per position -/
theorem resolve_eq_map_some (rows : List (Option Row)) (f : List Row) (h : ND rows f) :
    resolve rows f = (absL rows f).map some := by
  unfold absL
  exact (map_some_filterMap_id _ (resolve_ne_none rows f h)).symm

theorem absL_length (rows : List (Option Row)) (f : List Row) (h : ND rows f) :
    (absL rows f).length = rows.length := by
  have := congrArg List.length (resolve_eq_map_some rows f h)
  simpa [resolve_length] using this.symm

theorem absL_of_resolve (rows : List (Option Row)) (f : List Row) (X : List Row)
    (h : resolve rows f = X.map some) : absL rows f = X := by
  unfold absL; rw [h, filterMap_id_map_some]

theorem absL_replicate (f : List Row) : absL (List.replicate f.length none) f = f := by
  apply absL_of_resolve
  apply List.ext_getElem?
  intro i
  rw [resolve_getElem?]
  by_cases hi : i < f.length
  · simp [List.getElem?_replicate, hi]
  · simp [List.getElem?_replicate, hi]

theorem sliceIndices_bounds {sl : Slice} {n : Nat} {a b st : Int}
    (h : sliceIndices sl n = some (a, b, st)) :
    st ≠ 0 ∧ (0 < st → 0 ≤ a ∧ a ≤ n ∧ 0 ≤ b ∧ b ≤ n)
      ∧ (st < 0 → -1 ≤ a ∧ a ≤ (n : Int) - 1 ∧ -1 ≤ b ∧ b ≤ (n : Int) - 1) := by
  unfold sliceIndices at h
  simp only at h
  split at h
  · cases h
  · rename_i hst
    simp only [Option.some.injEq, Prod.mk.injEq] at h
    obtain ⟨rfl, rfl, rfl⟩ := h
    refine ⟨hst, ?_, ?_⟩ <;> intro hs <;>
      (cases sl.start <;> cases sl.stop <;> simp only [] <;> (repeat' split) <;> omega)

theorem resolve_all_some (X : List Row) (f : List Row) : resolve (X.map some) f = X.map some :=
  resolve_map_some X f

theorem resolve_splice (pre post : List (Option Row)) (vals : List Row) (f : List Row) :
    resolve (pre ++ vals.map some ++ post) f
      = resolve pre f ++ vals.map some ++ resolve post (f.drop (pre.length + vals.length)) := by
  rw [resolve_append, resolve_append, resolve_map_some]
  simp [Nat.add_comm]

theorem resolve_splice_noload (rows : List (Option Row)) (f : List Row) (h : ND rows f)
    (a' b' : Nat) (vals : List Row) (hb : b' ≤ rows.length) (hlen : a' + vals.length = b') :
    resolve (rows.take a' ++ vals.map some ++ rows.drop b') f
      = ((absL rows f).take a' ++ vals ++ (absL rows f).drop b').map some := by
  have ha : a' ≤ rows.length := by omega
  rw [resolve_splice, List.length_take, Nat.min_eq_left ha, hlen, resolve_take, resolve_drop,
    resolve_eq_map_some rows f h]
  simp

theorem resolve_splice_load (rows : List (Option Row)) (f : List Row) (h : ND rows f)
    (a' b' : Nat) (vals : List Row) (ha : a' ≤ rows.length) :
    resolve (rows.take a' ++ vals.map some ++ (resolve rows f).drop b') f
      = ((absL rows f).take a' ++ vals ++ (absL rows f).drop b').map some := by
  rw [resolve_splice, resolve_take, resolve_eq_map_some rows f h, ← List.map_drop, resolve_map_some]
  simp

theorem loadRows_take (t : T) (a' : Nat) (ha : a' ≤ t.rows.length) :
    (loadRows t a').take a' = t.rows.take a' := by
  unfold loadRows
  rw [List.take_left']
  simp [ha]

theorem loadRows_drop (t : T) (a' b' : Nat) (ha : a' ≤ t.rows.length) (hab : a' ≤ b') :
    (loadRows t a').drop b' = (resolve t.rows t.file).drop b' := by
  unfold loadRows
  rw [List.drop_append, List.drop_eq_nil_of_le (by simp; omega)]
  simp [List.length_take, Nat.min_eq_left ha, List.drop_drop]
  congr 1; omega

theorem loadRows_length (t : T) (a' : Nat) : (loadRows t a').length = t.rows.length := by
  unfold loadRows
  simp [resolve_length]
  omega

end Verif.C10.L
