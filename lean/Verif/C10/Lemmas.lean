/-
C10 — helper lemmas for Props.lean (core Lean only).
-/
import Verif.C10.Model
import Verif.C10.SliceLemmas

namespace Verif.C10.L
open Verif.Py Verif.C10

/-! ### resolve / absL -/

theorem resolve_length (rows : List (Option Row)) (f : List Row) :
    (resolve rows f).length = rows.length := by
  induction rows generalizing f with
  | nil => rfl
  | cons o rs ih => simp [resolve, ih]

theorem resolve_append (a b : List (Option Row)) (f : List Row) :
    resolve (a ++ b) f = resolve a f ++ resolve b (f.drop a.length) := by
  induction a generalizing f with
  | nil => simp [resolve]
  | cons o rs ih =>
    simp only [List.cons_append, resolve, ih, List.length_cons]
    congr 2
    cases f <;> simp

theorem resolve_map_some (vals : List Row) (f : List Row) :
    resolve (vals.map some) f = vals.map some := by
  induction vals generalizing f with
  | nil => rfl
  | cons v vs ih => simp [resolve, ih]

theorem resolve_getElem? (rows : List (Option Row)) (f : List Row) (i : Nat) :
    (resolve rows f)[i]? = (rows[i]?).map (fun o => o.or f[i]?) := by
  induction rows generalizing f i with
  | nil => simp [resolve]
  | cons o rs ih =>
    cases i with
    | zero => cases f <;> simp [resolve]
    | succ i => cases f <;> simp [resolve, ih]

theorem resolve_take (rows : List (Option Row)) (f : List Row) (k : Nat) :
    resolve (rows.take k) f = (resolve rows f).take k := by
  apply List.ext_getElem?
  intro i
  rw [resolve_getElem?, List.getElem?_take, List.getElem?_take]
  split <;> simp [resolve_getElem?]

theorem resolve_drop (rows : List (Option Row)) (f : List Row) (k : Nat) :
    resolve (rows.drop k) (f.drop k) = (resolve rows f).drop k := by
  apply List.ext_getElem?
  intro i
  simp [resolve_getElem?, List.getElem?_drop]

/-- no placeholder points behind the end of the file -/
def ND (rows : List (Option Row)) (f : List Row) : Prop :=
  ∀ i, rows[i]? = some none → i < f.length

theorem filterMap_id_map_some {α} (xs : List α) : (xs.map some).filterMap id = xs := by
  induction xs with
  | nil => rfl
  | cons x xs ih => simp [ih]

theorem map_some_filterMap_id {α} (L : List (Option α)) (h : ∀ x ∈ L, x ≠ none) :
    (L.filterMap id).map some = L := by
  induction L with
  | nil => rfl
  | cons x xs ih =>
    cases x with
    | none => exact absurd rfl (h none (by simp))
    | some v =>
      simp only [List.filterMap_cons, id, List.map_cons]
      rw [ih (fun y hy => h y (by simp [hy]))]

theorem resolve_ne_none (rows : List (Option Row)) (f : List Row) (h : ND rows f) :
    ∀ x ∈ resolve rows f, x ≠ none := by
  intro x hx
  rw [List.mem_iff_getElem?] at hx
  obtain ⟨i, hi⟩ := hx
  rw [resolve_getElem?] at hi
  cases hr : rows[i]? with
  | none => simp [hr] at hi
  | some o =>
    simp only [hr, Option.map_some, Option.some.injEq] at hi
    cases o with
    | some r => simp at hi; simp [← hi]
    | none =>
      have := h i hr
      simp at hi
      rw [List.getElem?_eq_getElem this] at hi
      simp [← hi]

/-- with no dangling placeholder the table shows one row per position -/
theorem resolve_eq_map_some (rows : List (Option Row)) (f : List Row) (h : ND rows f) :
    resolve rows f = (absL rows f).map some := by
  unfold absL
  exact (map_some_filterMap_id _ (resolve_ne_none rows f h)).symm

theorem absL_length (rows : List (Option Row)) (f : List Row) (h : ND rows f) :
    (absL rows f).length = rows.length := by
  have := congrArg List.length (resolve_eq_map_some rows f h)
  simpa [resolve_length] using this.symm

theorem absL_of_resolve (rows : List (Option Row)) (f : List Row) (X : List Row)
    (h : resolve rows f = X.map some) : absL rows f = X := by
  unfold absL; rw [h, filterMap_id_map_some]

theorem absL_replicate (f : List Row) : absL (List.replicate f.length none) f = f := by
  apply absL_of_resolve
  apply List.ext_getElem?
  intro i
  rw [resolve_getElem?]
  by_cases hi : i < f.length
  · simp [List.getElem?_replicate, hi]
  · simp [List.getElem?_replicate, hi]

theorem sliceIndices_bounds {sl : Slice} {n : Nat} {a b st : Int}
    (h : sliceIndices sl n = some (a, b, st)) :
    st ≠ 0 ∧ (0 < st → 0 ≤ a ∧ a ≤ n ∧ 0 ≤ b ∧ b ≤ n)
      ∧ (st < 0 → -1 ≤ a ∧ a ≤ (n : Int) - 1 ∧ -1 ≤ b ∧ b ≤ (n : Int) - 1) := by
  unfold sliceIndices at h
  simp only at h
  split at h
  · cases h
  · rename_i hst
    simp only [Option.some.injEq, Prod.mk.injEq] at h
    obtain ⟨rfl, rfl, rfl⟩ := h
    refine ⟨hst, ?_, ?_⟩ <;> intro hs <;>
      (cases sl.start <;> cases sl.stop <;> simp only [] <;> (repeat' split) <;> omega)

theorem resolve_all_some (X : List Row) (f : List Row) : resolve (X.map some) f = X.map some :=
  resolve_map_some X f

theorem resolve_splice (pre post : List (Option Row)) (vals : List Row) (f : List Row) :
    resolve (pre ++ vals.map some ++ post) f
      = resolve pre f ++ vals.map some ++ resolve post (f.drop (pre.length + vals.length)) := by
  rw [resolve_append, resolve_append, resolve_map_some]
  simp [Nat.add_comm]

theorem resolve_splice_noload (rows : List (Option Row)) (f : List Row) (h : ND rows f)
    (a' b' : Nat) (vals : List Row) (hb : b' ≤ rows.length) (hlen : a' + vals.length = b') :
    resolve (rows.take a' ++ vals.map some ++ rows.drop b') f
      = ((absL rows f).take a' ++ vals ++ (absL rows f).drop b').map some := by
  have ha : a' ≤ rows.length := by omega
  rw [resolve_splice, List.length_take, Nat.min_eq_left ha, hlen, resolve_take, resolve_drop,
    resolve_eq_map_some rows f h]
  simp

theorem resolve_splice_load (rows : List (Option Row)) (f : List Row) (h : ND rows f)
    (a' b' : Nat) (vals : List Row) (ha : a' ≤ rows.length) :
    resolve (rows.take a' ++ vals.map some ++ (resolve rows f).drop b') f
      = ((absL rows f).take a' ++ vals ++ (absL rows f).drop b').map some := by
  rw [resolve_splice, resolve_take, resolve_eq_map_some rows f h, ← List.map_drop, resolve_map_some]
  simp

theorem loadRows_take (t : T) (a' : Nat) (ha : a' ≤ t.rows.length) :
    (loadRows t a').take a' = t.rows.take a' := by
  unfold loadRows
  rw [List.take_left']
  simp [ha]

theorem loadRows_drop (t : T) (a' b' : Nat) (ha : a' ≤ t.rows.length) (hab : a' ≤ b') :
    (loadRows t a').drop b' = (resolve t.rows t.file).drop b' := by
  unfold loadRows
  rw [List.drop_append, List.drop_eq_nil_of_le (by simp; omega)]
  simp [List.length_take, Nat.min_eq_left ha, List.drop_drop]
  congr 1; omega

theorem loadRows_length (t : T) (a' : Nat) : (loadRows t a').length = t.rows.length := by
  unfold loadRows
  simp [resolve_length]
  omega

end Verif.C10.L

namespace Verif.C10
open Verif.Py

/-- the bookkeeping invariant of a table (DESIGN: `Aligned`): the file has `pers` lines, a placeholder
only stands at a position that has a file line, positions below both counters are untouched
placeholders, and the first-modified index never exceeds the length. -/
structure Aligned (t : T) : Prop where
  pers_eq : t.pers = t.file.length
  none_lt : ∀ i, t.rows[i]? = some none → i < t.pers
  below_vol : ∀ i : Nat, (i : Int) < t.vol → i < t.pers → t.rows[i]? = some none
  vol_le : t.vol ≤ t.rows.length

namespace L

theorem Aligned.nd {t : T} (h : Aligned t) : ND t.rows t.file := by
  intro i hi; have := h.none_lt i hi; rw [h.pers_eq] at this; exact this

theorem splice_inv (rows post : List (Option Row)) (vals : List Row) (pers : Nat) (vol vol' : Int) (a' : Nat)
    (hnl : ∀ i, rows[i]? = some none → i < pers)
    (hbv : ∀ i : Nat, (i : Int) < vol → i < pers → rows[i]? = some none)
    (ha : a' ≤ rows.length) (hv1 : vol' ≤ vol) (hv2 : vol' ≤ a')
    (hpost : ∀ j, post[j]? = some none → a' + vals.length + j < pers) :
    let rows2 := rows.take a' ++ vals.map some ++ post
    (∀ i, rows2[i]? = some none → i < pers)
    ∧ (∀ i : Nat, (i : Int) < vol' → i < pers → rows2[i]? = some none)
    ∧ vol' ≤ rows2.length := by
  intro rows2
  have hlen : (rows.take a').length = a' := by simp [ha]
  refine ⟨?_, ?_, ?_⟩
  · intro i hi
    by_cases h1 : i < a'
    · have : rows2[i]? = rows[i]? := by
        simp only [rows2, List.append_assoc]
        rw [List.getElem?_append_left (by omega), List.getElem?_take]; simp [h1]
      rw [this] at hi; exact hnl i hi
    · by_cases h2 : i < a' + vals.length
      · have : rows2[i]? = (vals.map some)[i - a']? := by
          simp only [rows2, List.append_assoc]
          rw [List.getElem?_append_right (by omega), hlen, List.getElem?_append_left (by simp; omega)]
        rw [this] at hi
        simp at hi
      · have : rows2[i]? = post[i - a' - vals.length]? := by
          simp only [rows2, List.append_assoc]
          rw [List.getElem?_append_right (by omega), hlen, List.getElem?_append_right (by simp; omega)]
          simp
        rw [this] at hi
        have := hpost _ hi
        omega
  · intro i hi hp
    have h1 : i < a' := by omega
    have : rows2[i]? = rows[i]? := by
      simp only [rows2, List.append_assoc]
      rw [List.getElem?_append_left (by omega), List.getElem?_take]; simp [h1]
    rw [this]; exact hbv i (by omega) hp
  · simp only [rows2, List.length_append, hlen]
    omega

theorem resolve_set (rows : List (Option Row)) (f : List Row) (i : Nat) (v : Row) :
    resolve (rows.set i (some v)) f = (resolve rows f).set i (some v) := by
  apply List.ext_getElem?
  intro j
  rw [resolve_getElem?, List.getElem?_set, List.getElem?_set, resolve_length]
  by_cases h : i = j
  · subst h
    by_cases h2 : i < rows.length <;> simp [h2, resolve_getElem?]
  · simp [h, resolve_getElem?]

theorem resolve_setExt (rows : List (Option Row)) (f : List Row) (idx : List Int) (vals : List Row) :
    resolve (setExt rows idx (vals.map some)) f = setExt (resolve rows f) idx (vals.map some) := by
  induction idx generalizing rows vals with
  | nil => simp [setExt]
  | cons i is ih =>
    cases vals with
    | nil => simp [setExt]
    | cons v vs => simp only [List.map_cons, setExt]; rw [ih, resolve_set]

theorem setExt_map_some (A : List Row) (idx : List Int) (vals : List Row) :
    setExt (A.map some) idx (vals.map some) = (setExt A idx vals).map some := by
  induction idx generalizing A vals with
  | nil => simp [setExt]
  | cons i is ih =>
    cases vals with
    | nil => simp [setExt]
    | cons v vs => simp only [List.map_cons, setExt]; rw [← ih]; congr 1; simp [List.map_set]

theorem setExt_length {α} (xs : List α) (idx : List Int) (vals : List α) :
    (setExt xs idx vals).length = xs.length := by
  induction idx generalizing xs vals with
  | nil => simp [setExt]
  | cons i is ih =>
    cases vals with
    | nil => simp [setExt]
    | cons v vs => simp [setExt, ih]

theorem setExt_none (rows : List (Option Row)) (idx : List Int) (vals : List Row) (j : Nat)
    (h : (setExt rows idx (vals.map some))[j]? = some none) : rows[j]? = some none := by
  induction idx generalizing rows vals with
  | nil => simpa [setExt] using h
  | cons i is ih =>
    cases vals with
    | nil => simpa [setExt] using h
    | cons v vs =>
      simp only [List.map_cons, setExt] at h
      have := ih _ _ h
      rw [List.getElem?_set] at this
      split at this
      · split at this <;> simp at this
      · exact this

theorem setExt_untouched {α} (xs : List α) (idx : List Int) (vals : List α) (j : Nat)
    (h : ∀ x ∈ idx, (j : Int) < x) : (setExt xs idx vals)[j]? = xs[j]? := by
  induction idx generalizing xs vals with
  | nil => simp [setExt]
  | cons i is ih =>
    cases vals with
    | nil => simp [setExt]
    | cons v vs =>
      simp only [setExt]
      rw [ih _ _ (fun x hx => h x (by simp [hx])), List.getElem?_set]
      have := h i (by simp)
      have : i.toNat ≠ j := by omega
      simp [this]

theorem rangeList_lower {a b st x : Int} (hx : x ∈ rangeList a b st) : min a b ≤ x := by
  unfold rangeList at hx
  split at hx
  · rename_i hpos
    split at hx
    · simp only [List.mem_map, List.mem_range] at hx
      obtain ⟨k, _, rfl⟩ := hx
      have : 0 ≤ st * (k : Int) := Int.mul_nonneg (by omega) (by omega)
      omega
    · simp at hx
  · split at hx
    · rename_i hneg
      split at hx
      · rename_i hlt
        simp only [List.mem_map, List.mem_range] at hx
        obtain ⟨k, hk, rfl⟩ := hx
        have hq : 0 ≤ (a - b - 1) / (-st) := Int.ediv_nonneg (by omega) (by omega)
        have hk' : (k : Int) ≤ (a - b - 1) / (-st) := by omega
        have h1 : (-st) * (k : Int) ≤ (-st) * ((a - b - 1) / (-st)) :=
          Int.mul_le_mul_of_nonneg_left hk' (by omega)
        have h2 : (-st) * ((a - b - 1) / (-st)) ≤ a - b - 1 := Int.mul_ediv_self_le (by omega)
        have h3 : (-st) * (k : Int) = -(st * (k : Int)) := by rw [Int.neg_mul]
        omega
      · simp at hx
    · simp at hx


theorem abs_length {t : T} (h : Aligned t) : (abs t).length = t.rows.length :=
  absL_length _ _ (Aligned.nd h)

theorem setSlice_ok (t t' : T) (sl : Slice) (vals : List Row) (h : Aligned t)
    (hs : setSlice t sl vals = .ok t') :
    Aligned t' ∧ specSetSlice t.width (abs t) sl vals = .ok (abs t')
      ∧ t'.file = t.file ∧ t'.gz = t.gz ∧ t'.width = t.width := by
  unfold setSlice at hs
  split at hs
  · cases hs
  rename_i hck
  unfold specSetSlice pySetSlice
  rw [if_neg hck, abs_length h]
  split at hs
  · cases hs
  rename_i a b st hidx
  obtain ⟨hst0, hpos, hneg⟩ := sliceIndices_bounds hidx
  have hnd := Aligned.nd h
  by_cases hst : st = 1
  · -- simple slice
    subst hst
    obtain ⟨ha0, han, hb0, hbn⟩ := hpos (by omega)
    simp only [pySetIdx, if_true, true_and] at hs ⊢
    by_cases hload : (vals.length : Int) ≠ max 0 (b - a)
    · rw [if_pos hload] at hs
      injection hs with hs
      subst hs
      have hA : (setSliceSimple (loadRows t a.toNat) a b (vals.map some))
          = t.rows.take a.toNat ++ vals.map some ++ (resolve t.rows t.file).drop (max a b).toNat := by
        unfold setSliceSimple
        simp only
        rw [loadRows_take t a.toNat (by omega), loadRows_drop t a.toNat (max a b).toNat (by omega) (by omega)]
      have hres := resolve_splice_load t.rows t.file hnd a.toNat (max a b).toNat vals (by omega)
      have hinv := splice_inv t.rows ((resolve t.rows t.file).drop (max a b).toNat) vals t.pers t.vol
        (min t.vol (min a b)) a.toNat h.none_lt h.below_vol (by omega) (by omega) (by omega)
        (by
          intro j hj
          have := resolve_ne_none _ _ hnd none (List.mem_of_getElem? (by rw [List.getElem?_drop] at hj; exact hj))
          exact absurd rfl this)
      refine ⟨⟨h.pers_eq, ?_, ?_, ?_⟩, ?_, rfl, rfl, rfl⟩
      · simp only [hA]; exact hinv.1
      · simp only [hA]; exact hinv.2.1
      · simp only [hA]; exact hinv.2.2
      · simp only [abs, hA]
        rw [absL_of_resolve _ _ _ hres]
        rfl
    · rw [if_neg hload] at hs
      injection hs with hs
      subst hs
      have hlen : a.toNat + vals.length = (max a b).toNat := by omega
      have hA : (setSliceSimple t.rows a b (vals.map some))
          = t.rows.take a.toNat ++ vals.map some ++ t.rows.drop (max a b).toNat := rfl
      have hres := resolve_splice_noload t.rows t.file hnd a.toNat (max a b).toNat vals (by omega) hlen
      have hinv := splice_inv t.rows (t.rows.drop (max a b).toNat) vals t.pers t.vol
        (min t.vol (min a b)) a.toNat h.none_lt h.below_vol (by omega) (by omega) (by omega)
        (by
          intro j hj
          rw [List.getElem?_drop] at hj
          have := h.none_lt _ hj
          omega)
      refine ⟨⟨h.pers_eq, ?_, ?_, ?_⟩, ?_, rfl, rfl, rfl⟩
      · simp only [hA]; exact hinv.1
      · simp only [hA]; exact hinv.2.1
      · simp only [hA]; exact hinv.2.2
      · simp only [abs, hA]
        rw [absL_of_resolve _ _ _ hres]
        rfl
  · -- extended slice
    have hnl : ¬ (st = 1 ∧ (vals.length : Int) ≠ max 0 (b - a)) := fun hh => hst hh.1
    rw [if_neg hnl] at hs
    simp only [pySetIdx, if_neg hst, List.length_map] at hs ⊢
    by_cases hl : (rangeList a b st).length = vals.length
    · rw [if_pos hl] at hs ⊢
      injection hs with hs
      subst hs
      have hres : resolve (setExt t.rows (rangeList a b st) (vals.map some)) t.file
          = (setExt (abs t) (rangeList a b st) vals).map some := by
        rw [resolve_setExt, resolve_eq_map_some _ _ hnd, setExt_map_some]; rfl
      refine ⟨⟨h.pers_eq, ?_, ?_, ?_⟩, ?_, rfl, rfl, rfl⟩
      · intro i hi
        exact h.none_lt i (setExt_none _ _ _ _ hi)
      · intro i hi hp
        simp only at hi ⊢
        rw [setExt_untouched]
        · exact h.below_vol i (by omega) hp
        · intro x hx
          have := rangeList_lower hx
          omega
      · simp only [setExt_length]
        have := h.vol_le
        omega
      · simp only [abs]
        rw [absL_of_resolve _ _ _ hres]
        rfl
    · rw [if_neg hl] at hs
      cases hs


theorem setSlice_err (t : T) (sl : Slice) (vals : List Row) (e : Err) (h : Aligned t)
    (hs : setSlice t sl vals = .error e) : specSetSlice t.width (abs t) sl vals = .error e := by
  unfold setSlice at hs
  unfold specSetSlice pySetSlice
  split at hs
  · rename_i hck; rw [if_pos hck]; cases hs; rfl
  rename_i hck
  rw [if_neg hck, abs_length h]
  split at hs
  · cases hs; rfl
  rename_i a b st hidx
  by_cases hst : st = 1
  · subst hst
    simp [pySetIdx] at hs
  · have hnl : ¬ (st = 1 ∧ (vals.length : Int) ≠ max 0 (b - a)) := fun hh => hst hh.1
    rw [if_neg hnl] at hs
    simp only [pySetIdx, if_neg hst, List.length_map] at hs ⊢
    by_cases hl : (rangeList a b st).length = vals.length
    · rw [if_pos hl] at hs; cases hs
    · rw [if_neg hl] at hs ⊢; cases hs; rfl

theorem specSetSlice_single (w : Nat) (A : List Row) (j : Int) (r : Row) (h0 : 0 ≤ j) (h1 : j < A.length) :
    specSetSlice w A ⟨some j, some (j + 1), none⟩ [r]
      = if r.length ≠ w then .error .itsdbError else .ok (A.set j.toNat r) := by
  unfold specSetSlice checkRows pySetSlice
  have hidx : sliceIndices ⟨some j, some (j + 1), none⟩ A.length = some (j, j + 1, 1) := by
    unfold sliceIndices
    simp only [Option.getD_none]
    rw [if_neg (by omega)]
    simp only [Option.some.injEq, Prod.mk.injEq, and_true]
    constructor
    · rw [if_neg (by omega), if_neg (by omega)]
    · rw [if_neg (by omega)]
      split
      · rw [if_neg (by omega)]; omega
      · rfl
  by_cases hw : r.length = w
  · simp only [List.all_cons, List.all_nil, hw, decide_true, Bool.and_self, Bool.not_true, Bool.false_eq_true,
      if_false, hidx, pySetIdx, if_true, ne_eq, not_true_eq_false]
    congr 1
    unfold setSliceSimple
    simp only
    rw [List.set_eq_take_append_cons_drop, if_pos (by omega)]
    have : (max j (j + 1)).toNat = j.toNat + 1 := by omega
    rw [this]; simp
  · simp [hw]

theorem getItem_eq (t : T) (i : Int) (h : Aligned t) : getItem t i = pyGetItem (abs t) i := by
  have hlen := abs_length h
  unfold getItem pyGetItem getIndex
  simp only [hlen]
  generalize (if i < 0 then i + (t.rows.length : Int) else i) = j
  by_cases hj0 : j < 0
  · simp [hj0]
  · by_cases hjn : j ≥ t.rows.length
    · have hnone : (abs t)[j.toNat]? = none := by rw [List.getElem?_eq_none_iff, hlen]; omega
      simp [hj0, hjn, hnone]
    · rw [if_neg (by omega), if_neg hj0]
      generalize hk : j.toNat = k
      have hk' : k < t.rows.length := by omega
      have hR := congrArg (fun L => L[k]?) (resolve_eq_map_some t.rows t.file (Aligned.nd h))
      simp only [resolve_getElem?, List.getElem?_map] at hR
      rw [List.getElem?_eq_getElem hk'] at hR ⊢
      cases ho : t.rows[k] with
      | some r =>
        rw [ho] at hR
        have : (abs t)[k]? = some r := by
          unfold abs; cases hx : (absL t.rows t.file)[k]? <;> simp [hx] at hR; simp [hR]
        simp [this]
      | none =>
        rw [ho] at hR
        have hlt : k < t.file.length := (Aligned.nd h) k (by rw [List.getElem?_eq_getElem hk', ho])
        rw [List.getElem?_eq_getElem hlt] at hR ⊢
        have : (abs t)[k]? = some t.file[k] := by
          unfold abs; cases hx : (absL t.rows t.file)[k]? <;> simp [hx] at hR; simp [hR]
        simp [this]


theorem zipIdx_filterMap (A : List Row) (k : Nat) :
    ((A.map some).zipIdx k).filterMap (fun p => p.1.map (fun r => (p.2, r)))
      = (A.zipIdx k).map (fun p => (p.2, p.1)) := by
  induction A generalizing k with
  | nil => rfl
  | cons a as ih => simp [List.zipIdx_cons, ih]

theorem enumRows_eq (t : T) (h : Aligned t) :
    enumRows t = ((abs t).zipIdx).map (fun p => (p.2, p.1)) := by
  unfold enumRows
  rw [resolve_eq_map_some _ _ (Aligned.nd h)]
  exact zipIdx_filterMap _ 0

theorem contains_rangeList_one (a b x : Int) :
    (rangeList a b 1).contains x = decide (a ≤ x ∧ x < b) := by
  rw [Bool.eq_iff_iff]
  simp only [List.contains_iff_mem, decide_eq_true_eq]
  unfold rangeList
  simp only [Int.one_pos, if_true, Int.ediv_one, Int.one_mul]
  split
  · simp only [List.mem_map, List.mem_range]
    constructor
    · rintro ⟨k, hk, rfl⟩; omega
    · intro hx; exact ⟨(x - a).toNat, by omega, by omega⟩
  · simp; omega

theorem drop_filter (A : List Row) (k p n : Nat) (hn : n = k + A.length) :
    (((A.zipIdx k).map (fun q => (q.2, q.1))).filter
        (fun q => decide ((p : Int) ≤ (q.1 : Int) ∧ (q.1 : Int) < (n : Int)))).map (·.2)
      = A.drop (p - k) := by
  induction A generalizing k with
  | nil => simp
  | cons a as ih =>
    simp only [List.zipIdx_cons, List.map_cons, List.filter_cons]
    have hkn : (k : Int) < (n : Int) := by simp at hn; omega
    by_cases hp : p ≤ k
    · have : ((p : Int) ≤ (k : Int) ∧ (k : Int) < (n : Int)) := ⟨by omega, hkn⟩
      simp only [this, and_self, decide_true, if_true, List.map_cons]
      rw [ih (k + 1) (by simp at hn ⊢; omega)]
      have h1 : p - (k + 1) = 0 := by omega
      have h2 : p - k = 0 := by omega
      simp [h1, h2]
    · have : ¬ ((p : Int) ≤ (k : Int) ∧ (k : Int) < (n : Int)) := by omega
      simp only [this, decide_false, Bool.false_eq_true, if_false]
      rw [ih (k + 1) (by simp at hn ⊢; omega)]
      have h2 : p - k = (p - (k + 1)) + 1 := by omega
      rw [h2]; simp

/-- `table[p:]` for `p ≤ len` is the tail of the shown list -/
theorem iterSlice_from (t : T) (p : Nat) (h : Aligned t) (hp : p ≤ t.rows.length) :
    iterSlice t ⟨some (p : Int), none, none⟩ = .ok ((abs t).drop p) := by
  unfold iterSlice
  have hidx : sliceIndices ⟨some (p : Int), none, none⟩ t.rows.length = some ((p : Int), (t.rows.length : Int), 1) := by
    unfold sliceIndices
    simp only [Option.getD_none]
    rw [if_neg (by omega)]
    simp only [Option.some.injEq, Prod.mk.injEq, and_true]
    constructor
    · rw [if_neg (by omega)]
      split
      · rw [if_neg (by omega)]; omega
      · rfl
    · rw [if_neg (by omega)]
  rw [hidx]
  simp only
  rw [if_neg (by omega), enumRows_eq t h]
  congr 1
  have hf : (fun (q : Nat × Row) => (rangeList (p : Int) (t.rows.length : Int) 1).contains (q.1 : Int))
      = (fun q => decide ((p : Int) ≤ (q.1 : Int) ∧ (q.1 : Int) < (t.rows.length : Int))) := by
    funext q; exact contains_rangeList_one _ _ _
  rw [hf, drop_filter (abs t) 0 p t.rows.length (by rw [abs_length h]; simp)]
  simp


/-! ### sync / commit -/

theorem aligned_sync (t : T) : Aligned (sync t) := by
  refine ⟨rfl, ?_, ?_, ?_⟩
  · intro i hi
    simp only [sync, List.getElem?_replicate] at hi ⊢
    split at hi <;> simp_all
  · intro i _ hp
    simp only [sync, List.getElem?_replicate] at hp ⊢
    simp [hp]
  · simp [sync]

theorem abs_sync (t : T) : abs (sync t) = t.file := by
  simp only [abs, sync]; exact absL_replicate t.file

theorem sync_not_inTransaction (t : T) : inTransaction (sync t) = false := by
  simp [inTransaction, sync]

/-- below both counters the shown rows are the file lines -/
theorem abs_take_pers (t : T) (h : Aligned t) (hv : (t.pers : Int) ≤ t.vol) :
    (abs t).take t.pers = t.file := by
  have hn : t.pers ≤ t.rows.length := by have := h.vol_le; omega
  apply List.ext_getElem?
  intro i
  rw [List.getElem?_take]
  by_cases hi : i < t.pers
  · rw [if_pos hi]
    have hR := congrArg (fun L => L[i]?) (resolve_eq_map_some t.rows t.file (Aligned.nd h))
    simp only [resolve_getElem?, List.getElem?_map] at hR
    rw [h.below_vol i (by omega) hi] at hR
    have hlt : i < t.file.length := by rw [← h.pers_eq]; exact hi
    rw [List.getElem?_eq_getElem hlt] at hR ⊢
    unfold abs
    cases hx : (absL t.rows t.file)[i]? <;> simp [hx] at hR
    simp [hR]
  · rw [if_neg hi]
    symm
    rw [List.getElem?_eq_none_iff, ← h.pers_eq]; omega

theorem commit_ok (t t' : T) (h : Aligned t) (hc : commit t = .ok t') :
    t' = sync { t with file := abs t, gz := t'.gz } ∧ (t.gz = false → t'.gz = false) := by
  unfold commit at hc
  split at hc
  · rename_i htx
    split at hc
    · rename_i hv
      have hn : t.pers ≤ t.rows.length := by have := h.vol_le; omega
      rw [iterSlice_from t t.pers h hn] at hc
      simp only at hc
      injection hc with hc
      subst hc
      have hfile : t.file ++ (abs t).drop t.pers = abs t := by
        conv => rhs; rw [← List.take_append_drop t.pers (abs t)]
        rw [abs_take_pers t h hv.1]
      simp only [sync, hfile]
      simp
    · injection hc with hc
      subst hc
      simp [sync]
      intro hg; simp [hg]
  · rename_i htx
    injection hc with hc
    subst hc
    -- not in transaction: the table is all placeholders over the whole file
    simp only [inTransaction, Bool.or_eq_true, decide_eq_true_eq, not_or, Nat.not_lt, Int.not_lt] at htx
    have hn : t.rows.length = t.pers := by have := h.vol_le; omega
    have hfile : abs t = t.file := by
      have := abs_take_pers t h htx.2
      rw [← this, List.take_of_length_le]
      rw [abs_length h]; omega
    simp [sync, hfile]

/-- commit never raises -/
theorem commit_total (t : T) (h : Aligned t) : ∃ t', commit t = .ok t' := by
  unfold commit
  split
  · split
    · rename_i hv
      have hn : t.pers ≤ t.rows.length := by have := h.vol_le; omega
      rw [iterSlice_from t t.pers h hn]
      exact ⟨_, rfl⟩
    · exact ⟨_, rfl⟩
  · exact ⟨_, rfl⟩

/-! ### extend -/

def good (w : Nat) (rs : List Row) : List Row := rs.takeWhile (fun r => decide (r.length = w))
def extErr (w : Nat) (rs : List Row) : Option Err :=
  if rs.all (fun r => decide (r.length = w)) then none else some .itsdbError

theorem extendL_spec {α} (w : Nat) (mk : Row → α) (acc : List α) (rs : List Row) :
    extendL w mk acc rs = (acc ++ (good w rs).map mk, extErr w rs) := by
  induction rs generalizing acc with
  | nil => simp [extendL, good, extErr]
  | cons r rs ih =>
    unfold extendL
    by_cases hr : r.length = w
    · rw [if_pos hr, ih]
      simp [good, extErr, hr]
    · rw [if_neg hr]
      simp [good, extErr, hr]

theorem extend_refines (t : T) (rs : List Row) (h : Aligned t) :
    Aligned { t with rows := (extendL t.width some t.rows rs).1 }
    ∧ extendL t.width id (abs t) rs
        = (abs { t with rows := (extendL t.width some t.rows rs).1 }, (extendL t.width some t.rows rs).2) := by
  rw [extendL_spec, extendL_spec]
  simp only
  have hnd := Aligned.nd h
  constructor
  · refine ⟨h.pers_eq, ?_, ?_, ?_⟩
    · intro i hi
      simp only at hi
      by_cases hlt : i < t.rows.length
      · rw [List.getElem?_append_left hlt] at hi; exact h.none_lt i hi
      · rw [List.getElem?_append_right (by omega)] at hi
        simp at hi
    · intro i hi hp
      simp only at hi ⊢
      have := h.vol_le
      rw [List.getElem?_append_left (by omega)]
      exact h.below_vol i hi hp
    · simp only [List.length_append]
      have := h.vol_le
      omega
  · congr 1
    simp only [abs, absL]
    rw [resolve_append, resolve_map_some, resolve_eq_map_some _ _ hnd, List.filterMap_append,
      filterMap_id_map_some, filterMap_id_map_some]
    simp

/-! ### setItem / update -/

theorem setItem_ok (t t' : T) (i : Int) (r : Row) (h : Aligned t) (hs : setItem t i r = .ok t') :
    Aligned t' ∧ specSetItem t.width (abs t) i r = .ok (abs t')
      ∧ t'.file = t.file ∧ t'.gz = t.gz ∧ t'.width = t.width := by
  unfold setItem at hs
  unfold specSetItem
  simp only [abs_length h] at hs ⊢
  generalize (if i < 0 then (t.rows.length : Int) + i else i) = j at hs ⊢
  split at hs
  · cases hs
  rename_i hj
  rw [if_neg hj]
  obtain ⟨hA, hspec, hf, hg, hw⟩ := setSlice_ok t t' _ _ h hs
  rw [specSetSlice_single t.width (abs t) j r (by omega) (by rw [abs_length h]; omega)] at hspec
  exact ⟨hA, hspec, hf, hg, hw⟩

theorem setItem_err (t : T) (i : Int) (r : Row) (e : Err) (h : Aligned t) (hs : setItem t i r = .error e) :
    specSetItem t.width (abs t) i r = .error e := by
  unfold setItem at hs
  unfold specSetItem
  simp only [abs_length h] at hs ⊢
  generalize (if i < 0 then (t.rows.length : Int) + i else i) = j at hs ⊢
  split at hs
  · rename_i hj; rw [if_pos hj]; cases hs; rfl
  rename_i hj
  rw [if_neg hj]
  have hspec := setSlice_err t _ _ e h hs
  rw [specSetSlice_single t.width (abs t) j r (by omega) (by rw [abs_length h]; omega)] at hspec
  exact hspec

theorem update_ok (t t' : T) (i : Int) (cols : List (Nat × Nat)) (h : Aligned t)
    (hs : update t i cols = .ok t') :
    Aligned t' ∧ specUpdate t.width (abs t) i cols = .ok (abs t')
      ∧ t'.file = t.file ∧ t'.gz = t.gz ∧ t'.width = t.width := by
  unfold update at hs
  unfold specUpdate
  rw [getItem_eq t i h] at hs
  cases hg : pyGetItem (abs t) i with
  | error e => rw [hg] at hs; cases hs
  | ok r =>
    rw [hg] at hs
    simp only [bind, Except.bind] at hs ⊢
    cases ha : applyCols t.width r cols with
    | error e => rw [ha] at hs; cases hs
    | ok r' =>
      rw [ha] at hs
      simp only at hs ⊢
      exact setItem_ok t t' i r' h hs

theorem update_err (t : T) (i : Int) (cols : List (Nat × Nat)) (e : Err) (h : Aligned t)
    (hs : update t i cols = .error e) : specUpdate t.width (abs t) i cols = .error e := by
  unfold update at hs
  unfold specUpdate
  rw [getItem_eq t i h] at hs
  cases hg : pyGetItem (abs t) i with
  | error e' => rw [hg] at hs; simp only [bind, Except.bind] at hs ⊢; cases hs; rfl
  | ok r =>
    rw [hg] at hs
    simp only [bind, Except.bind] at hs ⊢
    cases ha : applyCols t.width r cols with
    | error e' => rw [ha] at hs; simp only at hs ⊢; cases hs; rfl
    | ok r' =>
      rw [ha] at hs
      simp only at hs ⊢
      exact setItem_err t i r' e h hs


/-- what one step guarantees -/
def StepOK (t : T) (op : Op) : Prop :=
  Aligned (step t op).1 ∧ (step t op).1.width = t.width
  ∧ specStep t.width (absS t) op = (absS (step t op).1, (step t op).2)

theorem step_ok (t : T) (op : Op) (h : Aligned t) : StepOK t op := by
  unfold StepOK
  cases op with
  | append r =>
    obtain ⟨hA, hE⟩ := extend_refines t [r] h
    refine ⟨hA, rfl, ?_⟩
    simp only [specStep, step, absS, hE]
  | extend rs =>
    obtain ⟨hA, hE⟩ := extend_refines t rs h
    refine ⟨hA, rfl, ?_⟩
    simp only [specStep, step, absS, hE]
  | setItem i r =>
    simp only [step, specStep]
    cases hs : setItem t i r with
    | ok t' =>
      obtain ⟨hA, hspec, hf, hg, hw⟩ := setItem_ok t t' i r h hs
      refine ⟨hA, hw, ?_⟩
      simp only [ofExcept, absS, hspec, ofExceptS, hf]
    | error e =>
      have hspec := setItem_err t i r e h hs
      refine ⟨h, rfl, ?_⟩
      simp only [ofExcept, absS, hspec, ofExceptS]
  | setSlice sl vals =>
    simp only [step, specStep]
    cases hs : setSlice t sl vals with
    | ok t' =>
      obtain ⟨hA, hspec, hf, hg, hw⟩ := setSlice_ok t t' sl vals h hs
      refine ⟨hA, hw, ?_⟩
      simp only [ofExcept, absS, hspec, ofExceptS, hf]
    | error e =>
      have hspec := setSlice_err t sl vals e h hs
      refine ⟨h, rfl, ?_⟩
      simp only [ofExcept, absS, hspec, ofExceptS]
  | update i cols =>
    simp only [step, specStep]
    cases hs : update t i cols with
    | ok t' =>
      obtain ⟨hA, hspec, hf, hg, hw⟩ := update_ok t t' i cols h hs
      refine ⟨hA, hw, ?_⟩
      simp only [ofExcept, absS, hspec, ofExceptS, hf]
    | error e =>
      have hspec := update_err t i cols e h hs
      refine ⟨h, rfl, ?_⟩
      simp only [ofExcept, absS, hspec, ofExceptS]
  | clear =>
    refine ⟨⟨h.pers_eq, ?_, ?_, ?_⟩, rfl, ?_⟩
    · intro i hi; simp [step] at hi
    · intro i hi; simp [step] at hi; omega
    · simp [step]
    · simp [specStep, step, absS, abs, absL, resolve]
  | commit =>
    simp only [step, specStep]
    obtain ⟨t', hc⟩ := commit_total t h
    rw [hc]
    obtain ⟨ht', _⟩ := commit_ok t t' h hc
    refine ⟨by simp only [ofExcept]; rw [ht']; exact aligned_sync _,
            by simp only [ofExcept]; rw [ht']; rfl, ?_⟩
    simp only [ofExcept, absS]
    rw [ht', abs_sync]
    rfl
  | reload =>
    refine ⟨aligned_sync t, rfl, ?_⟩
    simp only [specStep, step, absS, abs_sync]; rfl
  | reopen =>
    refine ⟨aligned_sync t, rfl, ?_⟩
    simp only [specStep, step, absS, abs_sync]; rfl

theorem commit_gz (t t' : T) (h : Aligned t) (hc : commit t = .ok t') :
    (t.gz = false → t'.gz = false)
    ∧ (t.gz = true → t'.gz = if inTransaction t then !(abs t).isEmpty else true) := by
  unfold commit at hc
  split at hc
  · rename_i htx
    split at hc
    · rename_i hv
      have hn : t.pers ≤ t.rows.length := by have := h.vol_le; omega
      rw [iterSlice_from t t.pers h hn] at hc
      injection hc with hc
      subst hc
      simp [sync, hv.2]
    · injection hc with hc
      subst hc
      simp only [sync, htx, if_true]
      constructor
      · intro hg; simp [hg]
      · intro hg; simp [hg]
  · rename_i htx
    injection hc with hc
    subst hc
    simp only [sync, htx]
    simp

theorem commit_sync (u : T) : commit (sync u) = .ok (sync u) := by
  unfold commit
  rw [if_neg (by simp [sync_not_inTransaction])]
  simp [sync]

/-! ### the suite: process -/

def AllAligned (s : Suite) : Prop := ∀ t ∈ s, Aligned t

/-- what table `j` of the suite shows (`[]` for a table that does not exist) -/
def content (s : Suite) (j : Nat) : List Row := ((s[j]?).map abs).getD []

def rowsFor (j : Nat) (prod : List (Nat × Row)) : List Row :=
  (prod.filter (fun p => p.1 == j)).map (·.2)

theorem commitAll_abs (s s' : Suite) (h : AllAligned s) (hc : commitAll s = (s', none)) :
    AllAligned s' ∧ s'.map abs = s.map abs := by
  induction s generalizing s' with
  | nil => simp [commitAll] at hc; subst hc; exact ⟨h, rfl⟩
  | cons t ts ih =>
    unfold commitAll at hc
    cases hct : commit t with
    | error e => rw [hct] at hc; simp at hc
    | ok t' =>
      rw [hct] at hc
      simp only at hc
      cases hrest : commitAll ts with
      | mk ts' e =>
        rw [hrest] at hc
        simp only [Prod.mk.injEq] at hc
        obtain ⟨rfl, rfl⟩ := hc
        have hts : AllAligned ts := fun u hu => h u (by simp [hu])
        obtain ⟨hA, hmap⟩ := ih ts' hts hrest
        obtain ⟨ht', _⟩ := commit_ok t t' (h t (by simp)) hct
        have habs : abs t' = abs t := by
          generalize t'.gz = g at ht'; subst ht'; exact abs_sync _
        have hal : Aligned t' := by
          generalize t'.gz = g at ht'; subst ht'; exact aligned_sync _
        refine ⟨?_, by simp [habs, hmap]⟩
        intro u hu
        simp only [List.mem_cons] at hu
        rcases hu with rfl | hu
        · exact hal
        · exact hA u hu

theorem content_of_map (s s' : Suite) (h : s'.map abs = s.map abs) : content s' = content s := by
  funext j
  have := congrArg (fun L => L[j]?) h
  simp only [List.getElem?_map] at this
  simp [content, this]

theorem stepAt_append (s s1 : Suite) (k : Nat) (r : Row) (h : AllAligned s)
    (hs : stepAt s k (.append r) = (s1, none)) :
    AllAligned s1 ∧ content s1 = fun j => if j = k then content s j ++ [r] else content s j := by
  unfold stepAt at hs
  cases hk : s[k]? with
  | none => rw [hk] at hs; simp at hs
  | some t =>
    rw [hk] at hs
    simp only [Prod.mk.injEq] at hs
    obtain ⟨rfl, he⟩ := hs
    have hkl : k < s.length := by
      rcases Nat.lt_or_ge k s.length with h1 | h1
      · exact h1
      · rw [List.getElem?_eq_none_iff.mpr h1] at hk; cases hk
    have ht : Aligned t := h t (List.mem_of_getElem? hk)
    obtain ⟨hA, hE⟩ := extend_refines t [r] ht
    have hstep : step t (.append r) = ({ t with rows := (extendL t.width some t.rows [r]).1 },
        (extendL t.width some t.rows [r]).2) := rfl
    rw [hstep] at he ⊢
    simp only at he
    rw [he] at hE
    have habs : abs { t with rows := (extendL t.width some t.rows [r]).1 } = abs t ++ [r] := by
      by_cases hw : r.length = t.width
      · have h1 : extendL t.width id (abs t) [r] = (abs t ++ [r], none) := by simp [extendL, hw]
        rw [h1] at hE
        exact (congrArg Prod.fst hE).symm
      · have h1 : (extendL t.width some t.rows [r]).2 = some .itsdbError := by simp [extendL, hw]
        rw [h1] at he; cases he
    have hget : s[k] = t := by
      rw [List.getElem?_eq_getElem hkl] at hk; exact Option.some.inj hk
    constructor
    · intro u hu
      rcases List.mem_or_eq_of_mem_set hu with hu | rfl
      · exact h u hu
      · exact hA
    · funext j
      by_cases hj : j = k
      · subst hj
        simp [content, hkl, habs, hget]
      · simp [content, hj, Ne.symm hj]

theorem addRow_content (s s1 : Suite) (b : Int) (k : Nat) (r : Row) (h : AllAligned s)
    (hs : addRow s b k r = (s1, none)) :
    AllAligned s1 ∧ content s1 = fun j => if j = k then content s j ++ [r] else content s j := by
  unfold addRow at hs
  cases hst : stepAt s k (.append r) with
  | mk s0 e =>
    rw [hst] at hs
    cases e with
    | some e => simp at hs
    | none =>
      simp only at hs
      obtain ⟨hA0, hc0⟩ := stepAt_append s s0 k r h hst
      split at hs
      · obtain ⟨hA1, hm⟩ := commitAll_abs s0 s1 hA0 hs
        exact ⟨hA1, by rw [content_of_map _ _ hm, hc0]⟩
      · simp only [Prod.mk.injEq, and_true] at hs
        subst hs
        exact ⟨hA0, hc0⟩

theorem addRows_content (s s1 : Suite) (b : Int) (prod : List (Nat × Row)) (h : AllAligned s)
    (hs : addRows s b prod = (s1, none)) :
    AllAligned s1 ∧ content s1 = fun j => content s j ++ rowsFor j prod := by
  induction prod generalizing s with
  | nil =>
    simp only [addRows, Prod.mk.injEq, and_true] at hs
    subst hs
    exact ⟨h, by funext j; simp [rowsFor]⟩
  | cons p ps ih =>
    obtain ⟨k, r⟩ := p
    unfold addRows at hs
    cases ha : addRow s b k r with
    | mk s0 e =>
      rw [ha] at hs
      cases e with
      | some e => simp at hs
      | none =>
        simp only at hs
        obtain ⟨hA0, hc0⟩ := addRow_content s s0 b k r h ha
        obtain ⟨hA1, hc1⟩ := ih s0 hA0 hs
        refine ⟨hA1, ?_⟩
        rw [hc1, hc0]
        funext j
        by_cases hj : j = k
        · subst hj; simp [rowsFor, List.filter_cons]
        · have : (k == j) = false := by simp [Ne.symm hj]
          simp [rowsFor, List.filter_cons, hj, this]


/-- the stored relation of table `j` -/
def stored (s : Suite) (j : Nat) : List Row := ((s[j]?).map (·.file)).getD []

theorem clearAt_getElem? (s : Suite) (ks : List Nat) (j : Nat) :
    (clearAt s ks)[j]? = (s[j]?).map (fun t => if ks.contains j then { t with rows := [], vol := 0 } else t) := by
  unfold clearAt
  rw [List.getElem?_map, List.getElem?_zipIdx]
  cases s[j]? <;> simp

theorem clearAt_aligned (s : Suite) (ks : List Nat) (h : AllAligned s) : AllAligned (clearAt s ks) := by
  intro u hu
  rw [List.mem_iff_getElem?] at hu
  obtain ⟨j, hj⟩ := hu
  rw [clearAt_getElem?] at hj
  cases hs : s[j]? with
  | none => rw [hs] at hj; cases hj
  | some t =>
    rw [hs] at hj
    simp only [Option.map_some, Option.some.injEq] at hj
    have ht : Aligned t := h t (List.mem_of_getElem? hs)
    split at hj
    · subst hj; exact (step_ok t .clear ht).1
    · subst hj; exact ht

theorem clearAt_content (s : Suite) (ks : List Nat) (j : Nat) :
    content (clearAt s ks) j = if ks.contains j then [] else content s j := by
  unfold content
  rw [clearAt_getElem?]
  cases s[j]? with
  | none => simp
  | some t =>
    by_cases hk : j ∈ ks
    · simp [hk, abs, absL, resolve]
    · simp [hk]

theorem process_content (s s' : Suite) (b : Int) (g : Bool) (aff : List Nat) (prod : List (Nat × Row))
    (h : AllAligned s) (hp : process s b g aff prod = (s', none)) (j : Nat) :
    content s' j = (if aff.contains j then [] else content s j) ++ rowsFor j prod
    ∧ stored s' j = (if aff.contains j then [] else content s j) ++ rowsFor j prod := by
  unfold process at hp
  cases ha : addRows (clearAt s aff) b prod with
  | mk s1 e =>
    rw [ha] at hp
    cases e with
    | some e => simp at hp
    | none =>
      simp only [Prod.mk.injEq, and_true] at hp
      subst hp
      obtain ⟨_, hc⟩ := addRows_content _ s1 b prod (clearAt_aligned s aff h) ha
      have hcj := congrFun hc j
      simp only [clearAt_content] at hcj
      rw [← hcj]
      unfold content stored reloadAll writeDatabase
      simp only [List.getElem?_map]
      cases s1[j]? with
      | none => simp
      | some t =>
        simp only [Option.map_some, Option.getD_some]
        exact ⟨abs_sync _, rfl⟩


/-! ### slices with any start/stop/step -/

theorem iterSlice_eq (t : T) (sl : Slice) (h : Aligned t) : iterSlice t sl = pyGetSlice (abs t) sl := by
  unfold iterSlice pyGetSlice getSlice
  rw [abs_length h]
  cases hidx : sliceIndices sl t.rows.length with
  | none => rfl
  | some v =>
    obtain ⟨a, b, st⟩ := v
    obtain ⟨hst0, hpos, hneg⟩ := sliceIndices_bounds hidx
    simp only
    rw [enumRows_eq t h]
    congr 1
    have hlen := abs_length h
    exact Slice.filter_positions_eq (abs t) a b st hst0
      (fun hs => by have := hpos hs; rw [hlen]; omega)
      (fun hs => by have := hneg hs; rw [hlen]; omega)

/-! ### extended slice assignment is Python's -/

theorem setExt_untouched_ne {α} (xs : List α) (idx : List Int) (vals : List α) (j : Nat)
    (h : j ∉ idx.map Int.toNat) : (setExt xs idx vals)[j]? = xs[j]? := by
  induction idx generalizing xs vals with
  | nil => simp [setExt]
  | cons i is ih =>
    cases vals with
    | nil => simp [setExt]
    | cons v vs =>
      simp only [List.map_cons, List.mem_cons, not_or] at h
      simp only [setExt]
      rw [ih _ _ h.2, List.getElem?_set]
      have : i.toNat ≠ j := fun hh => h.1 hh.symm
      simp [this]

theorem setExt_get {α} (xs : List α) (idx : List Int) (vals : List α) (hlen : idx.length = vals.length)
    (hnd : (idx.map Int.toNat).Nodup) (hb : ∀ x ∈ idx, x.toNat < xs.length) :
    ∀ k (hk : k < idx.length), (setExt xs idx vals)[(idx[k]).toNat]? = vals[k]? := by
  induction idx generalizing xs vals with
  | nil => intro k hk; simp at hk
  | cons i is ih =>
    cases vals with
    | nil => simp at hlen
    | cons v vs =>
      simp only [List.map_cons, List.nodup_cons] at hnd
      intro k hk
      simp only [setExt]
      cases k with
      | zero =>
        simp only [List.getElem_cons_zero, List.getElem?_cons_zero]
        rw [setExt_untouched_ne _ _ _ _ hnd.1, List.getElem?_set]
        have := hb i (by simp)
        simp [this]
      | succ k =>
        simp only [List.getElem_cons_succ, List.getElem?_cons_succ]
        exact ih (xs.set i.toNat v) vs (by simpa using hlen) hnd.2
          (fun x hx => by rw [List.length_set]; exact hb x (by simp [hx])) k (by simpa using hk)

/-- the positions of `range(a, b, st)` for adjusted indices are distinct and inside the list -/
theorem rangeList_positions (n : Nat) (a b st : Int) (hst : st ≠ 0)
    (hpos : 0 < st → 0 ≤ a ∧ b ≤ n) (hneg : st < 0 → -1 ≤ b ∧ a ≤ (n : Int) - 1) :
    ((rangeList a b st).map Int.toNat).Nodup ∧ ∀ x ∈ rangeList a b st, 0 ≤ x ∧ x.toNat < n := by
  have hnn : ∀ x ∈ rangeList a b st, 0 ≤ x ∧ x < n := by
    intro x hx
    rcases Int.lt_or_gt_of_ne hst with h | h
    · have := Slice.mem_rangeList_neg h hx; have := hneg h; omega
    · have := Slice.mem_rangeList_pos h hx; have := hpos h; omega
  refine ⟨?_, fun x hx => by have := hnn x hx; omega⟩
  unfold List.Nodup
  rw [List.pairwise_map]
  rcases Int.lt_or_gt_of_ne hst with h | h
  · exact List.Pairwise.imp_of_mem (fun {x y} hx hy hxy => by
      have := (hnn x hx).1; have := (hnn y hy).1; omega) (Slice.rangeList_desc h)
  · exact List.Pairwise.imp_of_mem (fun {x y} hx hy hxy => by
      have := (hnn x hx).1; have := (hnn y hy).1; omega) (Slice.rangeList_asc h)

theorem pySetSlice_extended {α} (xs : List α) (sl : Slice) (vals : List α) (a b st : Int)
    (hidx : sliceIndices sl xs.length = some (a, b, st)) (hst : st ≠ 1) :
    if vals.length = (rangeList a b st).length then
      ∃ ys, pySetSlice xs sl vals = .ok ys ∧ ys.length = xs.length
        ∧ (∀ k (hk : k < (rangeList a b st).length), ys[((rangeList a b st)[k]).toNat]? = vals[k]?)
        ∧ (∀ j : Nat, (j : Int) ∉ rangeList a b st → ys[j]? = xs[j]?)
    else pySetSlice xs sl vals = .error .valueError := by
  obtain ⟨hst0, hpos, hneg⟩ := sliceIndices_bounds hidx
  obtain ⟨hnd, hb⟩ := rangeList_positions xs.length a b st hst0
    (fun hs => by have := hpos hs; omega) (fun hs => by have := hneg hs; omega)
  unfold pySetSlice
  rw [hidx]
  simp only [pySetIdx, if_neg hst]
  split
  · rename_i hl
    rw [if_pos hl.symm]
    refine ⟨_, rfl, setExt_length _ _ _, setExt_get xs _ vals hl.symm hnd (fun x hx => (hb x hx).2), ?_⟩
    intro j hj
    apply setExt_untouched_ne
    intro hm
    simp only [List.mem_map] at hm
    obtain ⟨x, hx, hxj⟩ := hm
    have := (hb x hx).1
    have : x = (j : Int) := by omega
    exact hj (this ▸ hx)
  · rename_i hl
    rw [if_neg (fun h => hl h.symm)]


/-! ### the suite: tables are independent -/

theorem commitAll_refines (s : Suite) (h : AllAligned s) :
    ∃ s', commitAll s = (s', none) ∧ AllAligned s' ∧ s'.map (·.width) = s.map (·.width)
      ∧ s'.map absS = (s.map absS).map (fun x => ⟨x.cur, x.cur⟩) := by
  induction s with
  | nil => exact ⟨[], rfl, h, rfl, rfl⟩
  | cons t ts ih =>
    have ht := h t (by simp)
    obtain ⟨t', hc⟩ := commit_total t ht
    obtain ⟨ts', hcs, hA, hw, hm⟩ := ih (fun u hu => h u (by simp [hu]))
    obtain ⟨ht', _⟩ := commit_ok t t' ht hc
    have hal : Aligned t' := by generalize t'.gz = g at ht'; subst ht'; exact aligned_sync _
    have hwid : t'.width = t.width := by generalize t'.gz = g at ht'; subst ht'; rfl
    have habs : absS t' = ⟨abs t, abs t⟩ := by
      generalize t'.gz = g at ht'; subst ht'
      unfold absS
      rw [abs_sync]
      rfl
    refine ⟨t' :: ts', by simp [commitAll, hc, hcs], ?_, by simp [hwid, hw], ?_⟩
    · intro u hu
      simp only [List.mem_cons] at hu
      rcases hu with rfl | hu
      · exact hal
      · exact hA u hu
    · simp only [List.map_cons, habs, hm]
      rfl

theorem reloadAll_refines (s : Suite) :
    AllAligned (reloadAll s) ∧ (reloadAll s).map (·.width) = s.map (·.width)
      ∧ (reloadAll s).map absS = (s.map absS).map (fun x => ⟨x.stored, x.stored⟩) := by
  refine ⟨?_, ?_, ?_⟩
  · intro u hu
    simp only [reloadAll, List.mem_map] at hu
    obtain ⟨t, _, rfl⟩ := hu
    exact aligned_sync t
  · simp [reloadAll, sync]
  · simp only [reloadAll, List.map_map]
    apply List.map_congr_left
    intro t _
    show absS (sync t) = _
    unfold absS
    rw [abs_sync]
    rfl

theorem stepAt_refines (s : Suite) (k : Nat) (op : Op) (h : AllAligned s) :
    AllAligned (stepAt s k op).1 ∧ (stepAt s k op).1.map (·.width) = s.map (·.width)
    ∧ specStepS (s.map (·.width)) (s.map absS) (.at k op) = ((stepAt s k op).1.map absS, (stepAt s k op).2) := by
  unfold stepAt specStepS
  simp only [List.getElem?_map]
  cases hk : s[k]? with
  | none => exact ⟨h, rfl, by simp⟩
  | some t =>
    have ht := h t (List.mem_of_getElem? hk)
    obtain ⟨hA, hw, hs⟩ := step_ok t op ht
    simp only [Option.map_some]
    refine ⟨?_, ?_, ?_⟩
    · intro u hu
      rcases List.mem_or_eq_of_mem_set hu with hu | rfl
      · exact h u hu
      · exact hA
    · rw [List.map_set, hw]
      have hkl : k < s.length := by
        rcases Nat.lt_or_ge k s.length with h1 | h1
        · exact h1
        · rw [List.getElem?_eq_none_iff.mpr h1] at hk; cases hk
      apply List.ext_getElem?
      intro j
      rw [List.getElem?_set]
      by_cases hj : k = j
      · subst hj
        have hget : s[k] = t := by rw [List.getElem?_eq_getElem hkl] at hk; exact Option.some.inj hk
        simp [hkl, hget]
      · simp [hj]
    · rw [hs]
      simp [List.map_set]


end L
end Verif.C10
