/-
C10 — lemmas about the lazy iterator, the processor calls and the fresh view (Iter.lean).
-/
import Verif.C10.Iter
import Verif.C10.Lemmas
import Verif.C10.MapperLemmas

namespace Verif.C10
namespace L

theorem absL_cons (o : Option Row) (rest : List (Option Row)) (fh : List Row) :
    absL (o :: rest) fh = (o.or fh.head?).toList ++ absL rest fh.tail := by
  unfold absL
  simp only [resolve, List.filterMap_cons]
  cases o.or fh.head? <;> simp

theorem drainScan_beyond (bound : Nat) (rows : List (Option Row)) :
    ∀ (pos : Nat) (fh : List Row), bound ≤ pos → drainScan bound pos rows fh = [] := by
  induction rows with
  | nil => intros; rfl
  | cons o rest ih =>
    intro pos fh h
    simp only [drainScan]
    rw [if_neg (by omega), ih (pos + 1) fh.tail (by omega)]
    rfl

theorem scan_beyond (bound : Nat) (rows : List (Option Row)) :
    ∀ (pos : Nat) (fh : List Row), bound ≤ pos → scan bound pos rows fh = none := by
  induction rows with
  | nil => intros; rfl
  | cons o rest ih =>
    intro pos fh h
    simp only [scan]
    rw [if_neg (by omega)]
    exact ih (pos + 1) fh.tail (by omega)

/-- the generator, run to its end over `rows` followed by anything that lies beyond the `indices` fixed at
its start, yields what the eager reading (`resolve` / `abs`) of `rows` yields -/
theorem drainScan_append (bound : Nat) (extra : List (Option Row)) (rows : List (Option Row)) :
    ∀ (pos : Nat) (fh : List Row), pos + rows.length = bound →
      drainScan bound pos (rows ++ extra) fh = absL rows fh := by
  induction rows with
  | nil =>
    intro pos fh h
    simp only [List.nil_append]
    rw [drainScan_beyond bound extra pos fh (by simp at h; omega)]
    rfl
  | cons o rest ih =>
    intro pos fh h
    simp only [List.length_cons] at h
    simp only [List.cons_append, drainScan]
    rw [if_pos (by omega), ih (pos + 1) fh.tail (by omega), absL_cons]

theorem scan_none (bound : Nat) (extra : List (Option Row)) (rows : List (Option Row)) :
    ∀ (pos : Nat) (fh : List Row), pos + rows.length = bound →
      scan bound pos (rows ++ extra) fh = none → absL rows fh = [] := by
  induction rows with
  | nil => intros; rfl
  | cons o rest ih =>
    intro pos fh h hs
    simp only [List.length_cons] at h
    simp only [List.cons_append, scan] at hs
    rw [if_pos (by omega)] at hs
    rw [absL_cons]
    cases ho : o.or fh.head? with
    | some r => rw [ho] at hs; cases hs
    | none =>
      rw [ho] at hs
      simp only at hs
      rw [ih (pos + 1) fh.tail (by omega) hs]
      rfl

theorem scan_some (bound : Nat) (extra : List (Option Row)) (rows : List (Option Row)) :
    ∀ (pos : Nat) (fh : List Row) (r : Row) (it : It), pos + rows.length = bound →
      scan bound pos (rows ++ extra) fh = some (r, it) →
      it.bound = bound ∧ pos < it.pos ∧ it.pos ≤ bound
        ∧ absL rows fh = r :: absL (rows.drop (it.pos - pos)) it.fh := by
  induction rows with
  | nil =>
    intro pos fh r it h hs
    simp only [List.nil_append] at hs
    rw [scan_beyond bound extra pos fh (by simp at h; omega)] at hs
    cases hs
  | cons o rest ih =>
    intro pos fh r it h hs
    simp only [List.length_cons] at h
    simp only [List.cons_append, scan] at hs
    rw [if_pos (by omega)] at hs
    rw [absL_cons]
    cases ho : o.or fh.head? with
    | some r' =>
      rw [ho] at hs
      simp only [Option.some.injEq, Prod.mk.injEq] at hs
      obtain ⟨rfl, rfl⟩ := hs
      refine ⟨rfl, by simp, by simp; omega, ?_⟩
      simp
    | none =>
      rw [ho] at hs
      simp only at hs
      obtain ⟨h1, h2, h3, h4⟩ := ih (pos + 1) fh.tail r it (by omega) hs
      refine ⟨h1, by omega, h3, ?_⟩
      rw [h4]
      have : it.pos - pos = (it.pos - (pos + 1)) + 1 := by omega
      rw [this, List.drop_succ_cons]
      rfl

/-- `list(it)` is `next(it)` until it is exhausted: one unfolding of the drain is one `scan` -/
theorem drainScan_unfold (bound : Nat) (rows : List (Option Row)) :
    ∀ (pos : Nat) (fh : List Row),
      drainScan bound pos rows fh =
        match scan bound pos rows fh with
        | none => []
        | some (r, it) => r :: drainScan bound it.pos (rows.drop (it.pos - pos)) it.fh := by
  induction rows with
  | nil => intros; rfl
  | cons o rest ih =>
    intro pos fh
    simp only [drainScan, scan]
    by_cases hb : pos < bound
    · rw [if_pos hb, if_pos hb]
      cases ho : o.or fh.head? with
      | some r => simp
      | none =>
        simp only [Option.toList_none, List.nil_append]
        rw [ih (pos + 1) fh.tail]
        cases hs : scan bound (pos + 1) rest fh.tail with
        | none => rfl
        | some p =>
          obtain ⟨r, it⟩ := p
          simp only
          have hlt : pos + 1 ≤ it.pos := by
            -- the scan only moves forward
            have : ∀ (rows : List (Option Row)) (pos : Nat) (fh : List Row) (r : Row) (it : It),
                scan bound pos rows fh = some (r, it) → pos < it.pos := by
              intro rows
              induction rows with
              | nil => intro pos fh r it h; cases h
              | cons o rest ih2 =>
                intro pos fh r it h
                simp only [scan] at h
                split at h
                · split at h
                  · simp only [Option.some.injEq, Prod.mk.injEq] at h
                    obtain ⟨_, rfl⟩ := h
                    simp
                  · have := ih2 _ _ _ _ h; omega
                · have := ih2 _ _ _ _ h; omega
            have := this rest (pos + 1) fh.tail r it hs
            omega
          have : it.pos - pos = (it.pos - (pos + 1)) + 1 := by omega
          rw [this, List.drop_succ_cons]
    · rw [if_neg hb, if_neg hb]
      simp only [List.nil_append]
      rw [drainScan_beyond bound rest (pos + 1) fh.tail (by omega),
        scan_beyond bound rest (pos + 1) fh.tail (by omega)]

/-- `extend` (and `append`) only ever add to the end of `_rows`, also when a bad row stops them -/
theorem extendL_prefix {α} (w : Nat) (mk : Row → α) (rs : List Row) :
    ∀ acc : List α, ∃ xs, (extendL w mk acc rs).1 = acc ++ xs := by
  induction rs with
  | nil => intro acc; exact ⟨[], by simp [extendL]⟩
  | cons r rs ih =>
    intro acc
    simp only [extendL]
    split
    · obtain ⟨xs, h⟩ := ih (acc ++ [mk r])
      exact ⟨mk r :: xs, by rw [h]; simp⟩
    · exact ⟨[], by simp⟩

/-- HELD ITERATION: whatever is appended to `_rows` after the first `next()`, the iteration yields the
rows the table showed when it started -/
theorem heldIter_append (t : T) (extra : List (Option Row)) :
    heldIter t { t with rows := t.rows ++ extra } = ((abs t).take 1, (abs t).drop 1) := by
  unfold heldIter itNext iterStart
  simp only [List.drop_zero]
  cases hs : scan t.rows.length 0 t.rows t.file with
  | none =>
    have := scan_none t.rows.length [] t.rows 0 t.file (by simp) (by simpa using hs)
    simp only [abs, this]
    rfl
  | some p =>
    obtain ⟨r, it⟩ := p
    obtain ⟨hb, h1, h2, h3⟩ := scan_some t.rows.length [] t.rows 0 t.file r it (by simp) (by simpa using hs)
    simp only [Nat.sub_zero] at h3
    simp only [itDrain, abs, h3, hb]
    have hd : (t.rows ++ extra).drop it.pos = t.rows.drop it.pos ++ extra := by
      rw [List.drop_append_of_le_length h2]
    rw [hd, drainScan_append t.rows.length extra (t.rows.drop it.pos) it.pos it.fh
      (by simp only [List.length_drop]; omega)]
    rfl

/-- the lazy generator run to its end without interference is the eager enumeration -/
theorem itDrain_start (t : T) : itDrain t.rows (iterStart t) = abs t := by
  unfold itDrain iterStart
  simp only [List.drop_zero]
  have := drainScan_append t.rows.length [] t.rows 0 t.file (by simp)
  simpa [abs] using this

theorem processInput_content (sch : Schema) (s : Suite) (sel : Option (String × String))
    (inFields : List FieldS) (items : List Row) (h : processInput sch s sel = .ok (inFields, items)) :
    ∃ k, items = content s k := by
  unfold processInput at h
  split at h
  · cases h
  · split at h
    · rename_i k ts _ _
      split at h
      · cases h
      · split at h
        · cases h
        · rename_i t ht
          injection h with h
          injection h with _ h2
          exact ⟨k, by simp [content, ht, h2]⟩
    · cases h

theorem processCalls_spec (sch : Schema) (s : Suite) (sel : Option (String × String)) (src : Option Suite)
    (cs : List (Nat × Dict)) (h : processCalls sch s sel src = .ok cs) :
    ∃ inFields items k,
      processInput sch (match src with | none => clearAt s (affectedIdx sch) | some q => q) sel = .ok (inFields, items)
      ∧ items = content (match src with | none => clearAt s (affectedIdx sch) | some q => q) k
      ∧ cs.length = items.length
      ∧ ∀ (i : Nat) (r : Row), items[i]? = some r → ∃ c, cs[i]? = some (c, keysOf inFields r) := by
  unfold processCalls at h
  split at h
  · rename_i tb inCol inFields items hsel hin
    injection h with h
    subst h
    obtain ⟨k, hk⟩ := processInput_content sch _ sel inFields items hin
    refine ⟨inFields, items, k, hin, hk, by simp, ?_⟩
    intro i r hi
    simp [List.getElem?_map, hi]
  · cases h
  · cases h

theorem processM_bad_selector (sch : Schema) (s : Suite) (b : Int) (g : Bool) (script : List Resp)
    (tb col : String)
    (hbad : tableIndex sch tb = none
      ∨ ∃ ts, sch.find? (fun t => t.name == tb) = some ts ∧ ts.fields.any (fun f => f.name == col) = false) :
    ∀ src : Option Suite, processM sch s b g script (some (tb, col)) src = (s, some .itsdbError)
    ∧ processCalls sch s (some (tb, col)) src = .error .itsdbError := by
  have hin : ∀ s' : Suite, processInput sch s' (some (tb, col)) = .error .itsdbError := by
    intro s'
    unfold processInput selectorOf
    simp only
    rcases hbad with h | ⟨ts, h1, h2⟩
    · rw [h]
    · rw [h1]
      cases tableIndex sch tb with
      | none => rfl
      | some k => simp [h2]
  intro src
  refine ⟨by unfold processM inputOf; rw [hin], ?_⟩
  unfold processCalls
  rw [hin]
  simp [selectorOf]

/-- a table whose `_rows` holds a placeholder beyond the end of its file (a state the code before 382c450
reached through a length-changing slice assignment) -/
def misalignedWitness : T := { rows := [none, none], pers := 2, vol := 2, file := [[1]], gz := false, width := 1 }

theorem commitAll_files (b b' : Suite) (hb : AllAligned b) (hc : commitAll b = (b', none)) :
    b'.map (·.file) = b.map abs := by
  obtain ⟨s', hc', _, _, hm⟩ := commitAll_refines b hb
  rw [hc] at hc'
  injection hc' with hc' _
  subst hc'
  have := congrArg (List.map (·.stored)) hm
  simpa [List.map_map, Function.comp_def, absS] using this

theorem adoptFiles_files (disk a : Suite) (hl : a.length = disk.length) :
    (adoptFiles disk a).map (·.file) = disk.map (·.file) := by
  unfold adoptFiles
  induction disk generalizing a with
  | nil => simp
  | cons d ds ih =>
    cases a with
    | nil => simp at hl
    | cons t ts =>
      simp only [List.zipWith_cons_cons, List.map_cons]
      rw [ih ts (by simpa using hl)]

theorem reloadAll_abs (s : Suite) : (reloadAll s).map abs = s.map (·.file) := by
  simp only [reloadAll, List.map_map]
  apply List.map_congr_left
  intro t _
  exact abs_sync t

theorem reloadAll_clean (s : Suite) : AllAligned (reloadAll s) ∧ inTransactionS (reloadAll s) = false := by
  refine ⟨(reloadAll_refines s).1, ?_⟩
  simp only [inTransactionS, reloadAll, List.any_map, List.any_eq_false]
  intro t _
  simp [sync_not_inTransaction t]

theorem aligned_no_dangling (t : T) (h : Aligned t) :
    (∀ i, getItem t i ≠ .error .itsdbError) ∧ (∀ x ∈ resolve t.rows t.file, x ≠ none) := by
  refine ⟨?_, resolve_ne_none t.rows t.file (Aligned.nd h)⟩
  intro i
  rw [getItem_eq t i h]
  unfold pyGetItem
  split <;> simp

theorem keysOf_append (inFields : List FieldS) (r : Row) (f : FieldS) (c : Nat) (hlen : r.length = inFields.length) :
    keysOf (inFields ++ [f]) (r ++ [c]) = keysOf inFields r ++ (if f.isKey then [(f.name, c)] else []) := by
  unfold keysOf
  rw [List.zip_append (by omega)]
  simp only [List.filterMap_append, List.zip_cons_cons, List.zip_nil_right, List.filterMap_cons, List.filterMap_nil]
  split <;> simp_all

theorem augment_iid (m : List (Nat × Nat)) (inFields : List FieldS) (r : Row) (hlen : r.length = inFields.length)
    (h1 : hasKey inFields "i-id" = false) (h2 : hasKey inFields "parse-id" = true) :
    ∃ f' r', augmentInput m inFields [r] = (f', [r'])
      ∧ iidCellOf (keysOf f' r')
          = (mapLookup m (r.getD (inFields.findIdx (fun f => f.isKey && f.name == "parse-id")) cNone)).getD (encInt (-1)) := by
  unfold augmentInput
  rw [h1, h2]
  simp only [Bool.not_true, Bool.or_self, Bool.false_eq_true, if_false, List.map_cons, List.map_nil]
  refine ⟨_, _, rfl, ?_⟩
  rw [keysOf_append inFields r _ _ hlen]
  unfold iidCellOf dget
  simp

theorem commitNl_eq (t : T) (nl : Bool) (h : Aligned t) : commitNl t nl = commit t := by
  cases nl with
  | true => unfold commitNl commit; simp
  | false =>
    obtain ⟨t', hc⟩ := commit_total t h
    obtain ⟨ht', hg⟩ := commit_ok t t' h hc
    rw [hc]
    unfold commitNl
    unfold commit at hc
    by_cases htx : inTransaction t = true
    · rw [if_pos htx] at hc ⊢
      simp only [Bool.false_eq_true, and_false, if_false]
      by_cases hv : t.vol ≥ (t.pers : Int) ∧ t.gz = false
      · rw [ht', hg hv.2, hv.2]
        simp
      · rw [if_neg hv] at hc
        exact hc
    · rw [if_neg htx] at hc ⊢
      exact hc

theorem commitAllNl_eq (s : Suite) (h : AllAligned s) : ∀ nls, commitAllNl s nls = commitAll s := by
  induction s with
  | nil => intro nls; rfl
  | cons t ts ih =>
    intro nls
    simp only [commitAllNl, commitAll]
    rw [commitNl_eq t _ (h t (by simp)), ih (fun u hu => h u (by simp [hu]))]

/-- three stored rows loaded by suite A; suite B commits a table with one row -/
def staleWitness : Suite :=
  adoptFiles [sync { rows := [], pers := 0, vol := 0, file := [[1]], gz := false, width := 1 }]
    [sync { rows := [], pers := 0, vol := 0, file := [[1], [2], [3]], gz := false, width := 1 }]

end L
end Verif.C10
