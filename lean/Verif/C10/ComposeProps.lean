/-
C10 — property theorems of the COMPOSED model (Compose.lean): the table bookkeeping on REAL relation
files (C09: `tsdb.write`, plain / compressed, one physical form) with REAL records (C08: escape / join /
split / cast / format).  This replaces the assumptions "a relation file is a list of rows, gzip is a flag,
the record codec is the identity" of Props.lean by theorems of the neighbouring models.
Only statements live here; proofs are in ComposeLemmas.lean.
-/
import Verif.C10.ComposeLemmas
import Verif.C10.Props

namespace Verif.C10.Compose
open Verif.C10
open Verif.C08 (Val DType)

/-! ## the bridge: on well-formed records the table on real files IS the abstract table -/

/-- commit: the decision `TestSuite.commit` takes (append when only rows were added and the relation is
plain, else rewrite keeping the compressed form), executed through C09's `tsdb.write` on C08-joined
records and read back through `split` / `Row.__init__`, gives exactly the abstract commit; it never
raises; the table stays consistent with its files. -/
theorem commit_bridge (cd : Codec) (now : Nat) (ct : CT) (h : Consistent cd ct) (ha : Aligned ct.t) :
    ∃ ct', commitC cd now ct = .ok ct' ∧ commit ct.t = .ok ct'.t ∧ Consistent cd ct'
      ∧ ct'.fields = ct.fields :=
  commitC_bridge cd now ct h ha

/-- a table opened on a relation that `tsdb.write` produced from well-formed rows (plain or gzip) is
consistent with its files — the starting point of every history. -/
theorem fresh_consistent (cd : Codec) (now : Nat) (ct0 : CT) (gz : Bool) (rows : List Row)
    (hne : ct0.fields ≠ []) (hwf : ∀ r ∈ rows, RowWF cd ct0.fields r) :
    ∃ rel, writeRows cd now ct0 false gz rows = .ok rel
      ∧ syncC cd { ct0 with rel := rel } = .ok { ct0 with rel := rel, t := sync { ct0.t with file := rows, gz := rel.useGz } }
      ∧ Consistent cd { ct0 with rel := rel, t := sync { ct0.t with file := rows, gz := rel.useGz } } := by
  obtain ⟨vals, lines, rel, hv, hst, _, hw, hread, hone, _⟩ :=
    writeRows_ok cd now ct0 false gz rows hne hwf (fun hh => by cases hh)
  have hr : rel.read = some lines := by rw [hread]; rfl
  obtain ⟨hs, hc⟩ := consistent_after cd ct0 rel rows vals lines hne hone hwf hv hst hr
  exact ⟨rel, hw, hs, hc⟩

/-- `_sync_with_file` / reload / a fresh TestSuite: reading the files back gives the abstract `sync`. -/
theorem reload_bridge (cd : Codec) (ct : CT) (h : Consistent cd ct) :
    syncC cd ct = .ok { ct with t := sync ct.t } ∧ Consistent cd { ct with t := sync ct.t } :=
  ⟨syncC_eq cd ct h, consistent_sync cd ct h⟩

/-- one step and all histories: bookkeeping and exceptions on real files equal the abstract ones (so
`step_refines` / `run_refines` of Props.lean — the plain Python list — hold for the table on real files),
provided the rows the operations leave in memory are well-formed records. -/
theorem step_bridge (cd : Codec) (now : Nat) (ct : CT) (op : Op) (h : Consistent cd ct) (ha : Aligned ct.t)
    (hmem : ∀ r, some r ∈ (step ct.t op).1.rows → RowWF cd ct.fields r) :
    (stepC cd now ct op).1.t = (step ct.t op).1 ∧ (stepC cd now ct op).2 = (step ct.t op).2
    ∧ Consistent cd (stepC cd now ct op).1 ∧ (stepC cd now ct op).1.fields = ct.fields :=
  stepC_bridge cd now ct op h ha hmem

theorem history_bridge (cd : Codec) (now : Nat) (ct : CT) (ops : List Op) (h : Consistent cd ct)
    (ha : Aligned ct.t) (hm : MemWFAlong cd ct.fields ct.t ops) :
    (runC cd now ct ops).1.t = (run ct.t ops).1 ∧ (runC cd now ct ops).2 = (run ct.t ops).2
    ∧ Consistent cd (runC cd now ct ops).1 :=
  runC_bridge cd now ct ops h ha hm

/-- … hence: every history on real files shows what the same history gives on a plain Python list. -/
theorem history_on_files_is_a_list (cd : Codec) (now : Nat) (ct : CT) (ops : List Op) (h : Consistent cd ct)
    (ha : Aligned ct.t) (hm : MemWFAlong cd ct.fields ct.t ops) :
    specRun ct.t.width (absS ct.t) ops = (absS (runC cd now ct ops).1.t, (runC cd now ct ops).2) := by
  obtain ⟨h1, h2, _⟩ := runC_bridge cd now ct ops h ha hm
  rw [h1, h2]
  exact run_refines ct.t ops ha

/-! ## "Commit makes the stored relation equal to that list … whether the file is plain or compressed" -/

/-- after commit the relation FILE holds exactly the list: its lines are the `join` of the list's rows
(C09 `write_read`), a table reading it back gets the list, and exactly one physical form exists (C09
`write_one_form`), the one the bookkeeping believes in. -/
theorem commit_stores_the_list (cd : Codec) (now : Nat) (ct ct' : CT) (h : Consistent cd ct) (ha : Aligned ct.t)
    (hc : commitC cd now ct = .ok ct') :
    fileRows cd ct'.fields ct'.rel = .ok (abs ct.t)
    ∧ (∃ vals lines, (abs ct.t).mapM (typedRow cd ct'.fields) = .ok vals
        ∧ C09.stage ct'.fields vals = .ok lines ∧ ct'.rel.read = some lines)
    ∧ C09.OneForm ct'.rel ∧ ct'.t.gz = ct'.rel.useGz ∧ abs ct'.t = abs ct.t := by
  obtain ⟨ct2, hc2, habs, hcons, _⟩ := commitC_bridge cd now ct h ha
  rw [hc] at hc2
  injection hc2 with hc2
  subst hc2
  obtain ⟨hfile, habs', _, _⟩ := commit_spec ct.t ct'.t ha habs
  have := fileRows_consistent cd ct' hcons
  rw [hfile] at this
  refine ⟨this, ?_, hcons.one_form, hcons.gz_eq, habs'⟩
  obtain ⟨vals, lines, hv, hst, hr⟩ := hcons.file_ok
  rw [hfile] at hv
  exact ⟨vals, lines, hv, hst, hr⟩

/-- the physical form after commit: a plain relation stays plain; a compressed relation with pending
changes stays compressed unless it becomes empty (then it is the plain empty file); without pending
changes nothing is written. -/
theorem commit_form_on_disk (cd : Codec) (now : Nat) (ct ct' : CT) (h : Consistent cd ct) (ha : Aligned ct.t)
    (hc : commitC cd now ct = .ok ct') :
    (ct.rel.useGz = false → ct'.rel.gz.isSome = false)
    ∧ (ct.rel.useGz = true → ct'.rel.gz.isSome = if inTransaction ct.t then !(abs ct.t).isEmpty else true) := by
  obtain ⟨ct2, hc2, habs, hcons, _⟩ := commitC_bridge cd now ct h ha
  rw [hc] at hc2
  injection hc2 with hc2
  subst hc2
  obtain ⟨h1, h2⟩ := commit_keeps_form ct.t ct'.t ha habs
  rw [h.gz_eq, hcons.gz_eq, useGz_of_oneForm ct'.rel hcons.one_form] at h1 h2
  exact ⟨h1, h2⟩

/-! ## "committing again changes nothing" — at the FILE level -/

/-- a second commit leaves the files untouched — same lines, same physical form, same mtimes — and the
table as it was. -/
theorem commit_again_same_files (cd : Codec) (now now' : Nat) (ct ct' : CT) (h : Consistent cd ct)
    (ha : Aligned ct.t) (hc : commitC cd now ct = .ok ct') : commitC cd now' ct' = .ok ct' := by
  obtain ⟨ct2, hc2, habs, hcons, _⟩ := commitC_bridge cd now ct h ha
  rw [hc] at hc2
  injection hc2 with hc2
  subst hc2
  obtain ⟨_, _, htx, _⟩ := commit_spec ct.t ct'.t ha habs
  obtain ⟨hsync, _⟩ := L.commit_ok ct.t ct'.t ha habs
  unfold commitC
  rw [if_neg (by rw [htx]; simp), syncC_eq cd ct' hcons]
  congr 2
  generalize ct'.t.gz = g at hsync
  rw [hsync]
  simp [sync]

/-! ## type-faithfulness of what a reopened table shows (C08 `cast ∘ format`) -/

/-- integers, None, non-empty strings and calendar-valid date-times in columns of their type are
well-formed cells: a Row holding them shows the typed value, and after commit + reopen the stored cell
is the same cell (hence shows the same typed value). -/
theorem typed_cells_wellformed (cd : Codec) (f : C09.Field) :
    (∀ i : Int, f.dt = .integer → shown f.dt (cellText cd (encInt i)) = .ok (.int i) ∧ CellWF cd f (encInt i))
    ∧ (f.dt ≠ .integer → f.default = [] → shown f.dt (cellText cd 0) = .ok .none ∧ CellWF cd f 0)
    ∧ (∀ k s, f.dt = .string → cd.tbl[k]? = some s → s ≠ [] → cd.tbl.idxOf s = k →
         shown f.dt (cellText cd (4 * k + 3)) = .ok (.str s) ∧ CellWF cd f (4 * k + 3))
    ∧ (∀ k t, f.dt = .date → t.Valid = true → cd.tbl[k]? = some (C08.formatDate t) →
         cd.tbl.idxOf (C08.formatDate t) = k →
         shown f.dt (cellText cd (4 * k + 3)) = .ok (.date t) ∧ CellWF cd f (4 * k + 3)) :=
  ⟨fun i h => cellWF_int cd f i h, fun h1 h2 => cellWF_none cd f h1 h2,
   fun k s h1 h2 h3 h4 => cellWF_str cd f k s h1 h2 h3 h4,
   fun k t h1 h2 h3 h4 => cellWF_date cd f k t h1 h2 h3 h4⟩

/-- a well-formed row written by `tsdb.write` and read back by a table is the same row. -/
theorem row_roundtrip (cd : Codec) (fields : List C09.Field) (r : Row) (h : RowWF cd fields r) :
    ∃ vals, typedRow cd fields r = .ok vals ∧ vals.length = fields.length
      ∧ decodeRow cd fields (rawRec fields vals) = .ok r :=
  typedRow_wf cd fields r h

end Verif.C10.Compose
