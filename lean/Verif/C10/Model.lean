/-
C10 — executable model of `delphin.itsdb.Table` / `TestSuite` (as repaired by the `fix:` commits
382c450 and 92e9760) and of the plain Python list it has to behave like.

Abstractions (DESIGN §3): a relation file is the list of its rows (`file`), gzip is the identity on
content and only a flag (`gz`); a row is a list of opaque cells (the harness interns every distinct
typed cell value as a natural number; the record codec is C08's business); column names are resolved
to column positions by the harness (an unknown name is a position ≥ width).  Core Lean only.
-/
import Verif.Common.Py

namespace Verif.C10
open Verif.Py

abbrev Row := List Nat

inductive Err
  | indexError | itsdbError | valueError | notImplemented | keyError | assertionError | unmodelled
deriving DecidableEq, Repr

/-- `itsdb.Table`: `_rows` (`none` = "the file line at this position"), `_persistent_count`,
`_volatile_index`, the active relation file and whether it is the `.gz` one; `width = len(fields)`. -/
structure T where
  rows  : List (Option Row)
  pers  : Nat
  vol   : Int
  file  : List Row
  gz    : Bool
  width : Nat
deriving DecidableEq, Repr

/-! ### reading: `_enum_rows` -/

/-- What `_enum_rows` finds at each position: it walks `_rows` and reads one file line per position
("always read next line until EOF to keep in sync"); an in-memory row wins, a placeholder is the line
read at that step, a placeholder after EOF yields nothing (`none`, silently skipped by the code). -/
def resolve : List (Option Row) → List Row → List (Option Row)
  | [], _ => []
  | o :: rs, f => (o.or f.head?) :: resolve rs f.tail

/-- `[(i, row) for i, row in table._enum_rows(fh)]` -/
def enumRows (t : T) : List (Nat × Row) :=
  (resolve t.rows t.file).zipIdx.filterMap (fun p => p.1.map (fun r => (p.2, r)))

/-- the list of rows the table shows: `list(table)` -/
def absL (rows : List (Option Row)) (file : List Row) : List Row :=
  (resolve rows file).filterMap id

def abs (t : T) : List Row := absL t.rows t.file

/-- `len(table)` is `len(self._rows)` -/
def len (t : T) : Nat := t.rows.length

/-- `Table._in_transaction` -/
def inTransaction (t : T) : Bool :=
  decide (t.rows.length > t.pers) || decide (t.vol < (t.pers : Int))

/-- `Table._sync_with_file` -/
def sync (t : T) : T :=
  { t with rows := List.replicate t.file.length none, pers := t.file.length, vol := t.file.length }

/-- `Table._getitem`: Python list indexing on `_rows`, then the file line at that position. -/
def getItem (t : T) (i : Int) : Except Err Row :=
  let n : Int := t.rows.length
  let j := if i < 0 then i + n else i
  if j < 0 ∨ j ≥ n then .error .indexError
  else match t.rows[j.toNat]? with
    | some (some r) => .ok r
    | _ => match t.file[j.toNat]? with
      | some l => .ok l
      | none => .error .itsdbError

/-- `Table._iterslice`: the enumerated rows whose position is in `range(*slice.indices(len))`, in
ascending position order, reversed when the step is negative. -/
def iterSlice (t : T) (sl : Slice) : Except Err (List Row) :=
  match sliceIndices sl t.rows.length with
  | none => .error .valueError
  | some (a, b, st) =>
    let idx := rangeList a b st
    let rs := ((enumRows t).filter (fun p => idx.contains (p.1 : Int))).map (·.2)
    .ok (if st < 0 then rs.reverse else rs)

/-- `Table.select(*names)` with the names already resolved to positions (≥ width = unknown name). -/
def project (cols : List Nat) (r : Row) : Except Err Row :=
  cols.mapM (fun c => match r[c]? with | some x => .ok x | none => .error .indexError)

def selectL (w : Nat) (xs : List Row) (cols : List Nat) : Except Err (List Row) :=
  if cols.any (fun c => decide (c ≥ w)) then .error .keyError
  else xs.mapM (project cols)

def select (t : T) (cols : List Nat) : Except Err (List Row) := selectL t.width (abs t) cols

/-! ### Python list slice assignment (used on `_rows` by the code and on the plain list by the spec) -/

/-- extended-slice assignment: position `idx[k]` gets `vals[k]` -/
def setExt {α} : List α → List Int → List α → List α
  | xs, i :: is, v :: vs => setExt (xs.set i.toNat v) is vs
  | xs, _, _ => xs

/-- `xs[a:b:st] = vals` with the indices already adjusted to `len(xs)`. -/
def pySetIdx {α} (xs : List α) (a b st : Int) (vals : List α) : Except Err (List α) :=
  if st = 1 then .ok (setSliceSimple xs a b vals)
  else
    let idx := rangeList a b st
    if idx.length = vals.length then .ok (setExt xs idx vals) else .error .valueError

/-- `xs[sl] = vals` -/
def pySetSlice {α} (xs : List α) (sl : Slice) (vals : List α) : Except Err (List α) :=
  match sliceIndices sl xs.length with
  | none => .error .valueError
  | some (a, b, st) => pySetIdx xs a b st vals

/-- `xs[sl]` -/
def pyGetSlice {α} (xs : List α) (sl : Slice) : Except Err (List α) :=
  match getSlice xs sl with
  | none => .error .valueError
  | some r => .ok r

/-- `xs[i]` -/
def pyGetItem {α} (xs : List α) (i : Int) : Except Err α :=
  match getIndex xs i with
  | none => .error .indexError
  | some r => .ok r

/-! ### writing -/

def checkRows (w : Nat) (vals : List Row) : Bool := vals.all (fun r => decide (r.length = w))

/-- `Table._load_rows(start)`: every position ≥ start gets what `_enum_rows` finds there. -/
def loadRows (t : T) (a : Nat) : List (Option Row) :=
  t.rows.take a ++ (resolve t.rows t.file).drop a

/-- `Table.__setitem__` with a slice (repaired code): rows are made first (`ITSDBError`), the slice is
resolved against the current length, a step-1 assignment that changes the length first loads the
stored rows from `start` on, then the list assignment, then `_volatile_index = min(…, start, stop)`.
(`self._rows[index] = values` re-resolves the slice against a list of the same length.) -/
def setSlice (t : T) (sl : Slice) (vals : List Row) : Except Err T :=
  if !checkRows t.width vals then .error .itsdbError else
  match sliceIndices sl t.rows.length with
  | none => .error .valueError
  | some (a, b, st) =>
    let rows1 := if st = 1 ∧ (vals.length : Int) ≠ max 0 (b - a) then loadRows t a.toNat else t.rows
    match pySetIdx rows1 a b st (vals.map some) with
    | .error e => .error e
    | .ok rows2 => .ok { t with rows := rows2, vol := min t.vol (min a b) }

/-- `Table.__setitem__` with an integer (as repaired by d65eea1): a negative index gets `len` added
and is an `IndexError` if still negative; `self._rows[index]` rejects the indices ≥ len; then the
one-row slice assignment `slice(index, index + 1)`. -/
def setItem (t : T) (i : Int) (r : Row) : Except Err T :=
  let n : Int := t.rows.length
  let j := if i < 0 then n + i else i
  if j < 0 ∨ j ≥ n then .error .indexError
  else setSlice t ⟨some j, some (j + 1), none⟩ [r]

/-- `for row in rows: self._rows.append(Row(fields, row))` — rows before a bad one stay appended. -/
def extendL {α} (w : Nat) (mk : Row → α) : List α → List Row → List α × Option Err
  | acc, [] => (acc, none)
  | acc, r :: rs => if r.length = w then extendL w mk (acc ++ [mk r]) rs else (acc, some .itsdbError)

/-- `values[field_index[key]] = value` for each item of the column map -/
def applyCols (w : Nat) : Row → List (Nat × Nat) → Except Err Row
  | r, [] => .ok r
  | r, (c, v) :: cs => if c ≥ w then .error .keyError else applyCols w (r.set c v) cs

/-- `Table.update(index, data)` -/
def update (t : T) (i : Int) (cols : List (Nat × Nat)) : Except Err T := do
  let r ← getItem t i
  let r' ← applyCols t.width r cols
  setItem t i r'

/-- one table's part of `TestSuite.commit` (as repaired by 7d1c791): only additions pending AND the
relation not compressed → append `table[persistent_count:]`; otherwise the whole table is rewritten
with `gzip=` "the relation is compressed" (tsdb.write never compresses empty output). -/
def commit (t : T) : Except Err T :=
  if inTransaction t then
    if t.vol ≥ (t.pers : Int) ∧ t.gz = false then
      -- append = True, data = table[persistent_count:]
      match iterSlice t ⟨some (t.pers : Int), none, none⟩ with
      | .error e => .error e
      | .ok data => .ok (sync { t with file := t.file ++ data })
    else
      -- append = False, data = table; a compressed relation stays compressed unless it becomes empty
      .ok (sync { t with file := abs t, gz := t.gz && !(abs t).isEmpty })
  else .ok (sync t)

inductive Op
  | append (r : Row)
  | extend (rs : List Row)
  | setItem (i : Int) (r : Row)
  | setSlice (sl : Slice) (vals : List Row)
  | update (i : Int) (cols : List (Nat × Nat))
  | clear
  | commit
  | reload
  | reopen
deriving Repr

def ofExcept (t : T) : Except Err T → T × Option Err
  | .ok t' => (t', none)
  | .error e => (t, some e)

/-- one operation on one table: new state and the exception raised, if any -/
def step (t : T) : Op → T × Option Err
  | .append r => let (rows, e) := extendL t.width some t.rows [r]; ({ t with rows := rows }, e)
  | .extend rs => let (rows, e) := extendL t.width some t.rows rs; ({ t with rows := rows }, e)
  | .setItem i r => ofExcept t (setItem t i r)
  | .setSlice sl vals => ofExcept t (setSlice t sl vals)
  | .update i cols => ofExcept t (update t i cols)
  | .clear => ({ t with rows := [], vol := 0 }, none)
  | .commit => ofExcept t (commit t)
  | .reload => (sync t, none)
  | .reopen => (sync t, none)     -- a fresh TestSuite builds its tables by `_sync_with_file`

def run (t : T) : List Op → T × List (Option Err)
  | [] => (t, [])
  | op :: ops =>
    let (t1, e) := step t op
    let (t2, es) := run t1 ops
    (t2, e :: es)

/-! ### the specification: a plain list of rows plus the stored relation -/

structure S where
  cur    : List Row
  stored : List Row
deriving DecidableEq, Repr

def absS (t : T) : S := ⟨abs t, t.file⟩

def specSetItem (w : Nat) (xs : List Row) (i : Int) (r : Row) : Except Err (List Row) :=
  let n : Int := xs.length
  let j := if i < 0 then n + i else i
  if j < 0 ∨ j ≥ n then .error .indexError
  else if r.length ≠ w then .error .itsdbError
  else .ok (xs.set j.toNat r)

def specSetSlice (w : Nat) (xs : List Row) (sl : Slice) (vals : List Row) : Except Err (List Row) :=
  if !checkRows w vals then .error .itsdbError else pySetSlice xs sl vals

def specUpdate (w : Nat) (xs : List Row) (i : Int) (cols : List (Nat × Nat)) : Except Err (List Row) := do
  let r ← pyGetItem xs i
  let r' ← applyCols w r cols
  specSetItem w xs i r'

def ofExceptS (s : S) : Except Err (List Row) → S × Option Err
  | .ok xs => ({ s with cur := xs }, none)
  | .error e => (s, some e)

/-- the same operation on the plain list; commit stores the list, reload/reopen return to it -/
def specStep (w : Nat) (s : S) : Op → S × Option Err
  | .append r => let (xs, e) := extendL w id s.cur [r]; ({ s with cur := xs }, e)
  | .extend rs => let (xs, e) := extendL w id s.cur rs; ({ s with cur := xs }, e)
  | .setItem i r => ofExceptS s (specSetItem w s.cur i r)
  | .setSlice sl vals => ofExceptS s (specSetSlice w s.cur sl vals)
  | .update i cols => ofExceptS s (specUpdate w s.cur i cols)
  | .clear => ({ s with cur := [] }, none)
  | .commit => (⟨s.cur, s.cur⟩, none)
  | .reload => (⟨s.stored, s.stored⟩, none)
  | .reopen => (⟨s.stored, s.stored⟩, none)

def specRun (w : Nat) (s : S) : List Op → S × List (Option Err)
  | [] => (s, [])
  | op :: ops =>
    let (s1, e) := specStep w s op
    let (s2, es) := specRun w s1 ops
    (s2, e :: es)

/-! ### the test suite: tables in schema order -/

abbrev Suite := List T

/-- `TestSuite.commit`: tables in schema order; an exception leaves the earlier ones committed. -/
def commitAll : Suite → Suite × Option Err
  | [] => ([], none)
  | t :: ts =>
    match commit t with
    | .error e => (t :: ts, some e)
    | .ok t' => let (ts', e) := commitAll ts; (t' :: ts', e)

/-- one table's part of `TestSuite.commit` as repaired by b478bc1 (F61): `nl` = "the relation file is empty or its
last byte is a newline" (`_ends_with_newline`); a plain file that does not end in a newline is REWRITTEN, not
appended to (appending would glue the first new record to the unterminated last line).  `tsdb.write` terminates
every record, so after any write the file ends in a newline.  On aligned tables the flag does not change the
outcome (`commit_newline_irrelevant`): `commit` above is `commitNl · true`. -/
def commitNl (t : T) (nl : Bool) : Except Err T :=
  if inTransaction t then
    if t.vol ≥ (t.pers : Int) ∧ t.gz = false ∧ nl = true then
      match iterSlice t ⟨some (t.pers : Int), none, none⟩ with
      | .error e => .error e
      | .ok data => .ok (sync { t with file := t.file ++ data })
    else
      .ok (sync { t with file := abs t, gz := t.gz && !(abs t).isEmpty })
  else .ok (sync t)

/-- `TestSuite.commit` with the newline state of every relation file -/
def commitAllNl : Suite → List Bool → Suite × Option Err
  | [], _ => ([], none)
  | t :: ts, nls =>
    match commitNl t (nls.headD true) with
    | .error e => (t :: ts, some e)
    | .ok t' => let (ts', e) := commitAllNl ts nls.tail; (t' :: ts', e)

/-- which files end in a newline after `commit`: the ones that did, and every one that was written -/
def nlAfterCommit (s : Suite) (nls : List Bool) : List Bool :=
  s.zipIdx.map (fun p => (nls.getD p.2 true) || inTransaction p.1)

def reloadAll (s : Suite) : Suite := s.map sync

def inTransactionS (s : Suite) : Bool := s.any inTransaction

/-- apply a table operation to table `k` (`ts[name].op(…)`) -/
def stepAt (s : Suite) (k : Nat) (op : Op) : Suite × Option Err :=
  match s[k]? with
  | none => (s, some .itsdbError)        -- table not defined in schema
  | some t => let (t', e) := step t op; (s.set k t', e)

/-- `sum(len(table) - table._persistent_count)` over all tables -/
def numChanges (s : Suite) : Int := (s.map (fun t => (t.rows.length : Int) - (t.pers : Int))).sum

/-- `_add_row`: append, then flush through `commit` when more than `buffer_size` rows are pending -/
def addRow (s : Suite) (b : Int) (k : Nat) (r : Row) : Suite × Option Err :=
  match stepAt s k (.append r) with
  | (s1, some e) => (s1, some e)
  | (s1, none) => if numChanges s1 > b then commitAll s1 else (s1, none)

def addRows (s : Suite) (b : Int) : List (Nat × Row) → Suite × Option Err
  | [] => (s, none)
  | (k, r) :: ps =>
    match addRow s b k r with
    | (s1, some e) => (s1, some e)
    | (s1, none) => addRows s1 b ps

def clearAt (s : Suite) (ks : List Nat) : Suite :=
  s.zipIdx.map (fun p => if ks.contains p.2 then { p.1 with rows := [], vol := 0 } else p.1)

/-- `tsdb.write_database(ts, ts.path, gzip=g)`: every relation file is rewritten with what the table
shows; non-empty files are compressed iff `g`. -/
def writeDatabase (g : Bool) (s : Suite) : Suite :=
  s.map (fun t => { t with file := abs t, gz := g && !(abs t).isEmpty })

/-- `TestSuite.process` after the responses have been mapped to rows (`produced`, in order):
clear the affected tables, add the rows with periodic flushes, write the database, reload. -/
def process (s : Suite) (b : Int) (g : Bool) (affected : List Nat) (produced : List (Nat × Row)) :
    Suite × Option Err :=
  match addRows (clearAt s affected) b produced with
  | (s1, some e) => (s1, some e)
  | (s1, none) => (reloadAll (writeDatabase g s1), none)

/-! ### histories over the whole suite ("one or more tables") and their plain-list specification -/

/-- a suite operation: an operation on table `k`, or `ts.commit()` / `ts.reload()` (re-opening likewise) -/
inductive SOp
  | at (k : Nat) (op : Op)
  | commit
  | reload
deriving Repr

def stepS (s : Suite) : SOp → Suite × Option Err
  | .at k op => stepAt s k op
  | .commit => commitAll s
  | .reload => (reloadAll s, none)

def runS (s : Suite) : List SOp → Suite × List (Option Err)
  | [] => (s, [])
  | o :: os =>
    let (s1, e) := stepS s o
    let (s2, es) := runS s1 os
    (s2, e :: es)

/-- the same on one plain list (and its stored copy) per table, the tables being independent: an
operation on table `k` touches list `k` only; commit stores EVERY list, reload restores EVERY list -/
def specStepS (ws : List Nat) (ss : List S) : SOp → List S × Option Err
  | .at k op =>
    match ss[k]?, ws[k]? with
    | some x, some w => let (x', e) := specStep w x op; (ss.set k x', e)
    | _, _ => (ss, some .itsdbError)
  | .commit => (ss.map (fun x => ⟨x.cur, x.cur⟩), none)
  | .reload => (ss.map (fun x => ⟨x.stored, x.stored⟩), none)

def specRunS (ws : List Nat) (ss : List S) : List SOp → List S × List (Option Err)
  | [] => (ss, [])
  | o :: os =>
    let (s1, e) := specStepS ws ss o
    let (s2, es) := specRunS ws s1 os
    (s2, e :: es)

end Verif.C10
