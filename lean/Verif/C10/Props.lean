import Verif.C10.Model
namespace Verif.C10
theorem sync_not_inTransaction (t : T) : inTransaction (sync t) = false := by
  simp [inTransaction, sync]
end Verif.C10
