/-
C10 — property theorems: "A test-suite table behaves as a list through any edit/commit/reload history".
Model of the REPAIRED code (fix commits 382c450, 92e9760, d65eea1, 1c0252f, 2839766, 7d1c791).
Only statements live here; the proofs are in Lemmas.lean.
-/
import Verif.C10.Lemmas
import Verif.C10.MapperLemmas
import Verif.Generated.TablesC10

namespace Verif.C10
open Verif.Py Verif.Tables

/-! ## the bookkeeping invariant holds for every table the code can build -/

/-- a table as `Table.__init__` / `_sync_with_file` builds it (also: a fresh `TestSuite` on the same
directory) satisfies the invariant. -/
theorem aligned_fresh (t : T) : Aligned (sync t) := L.aligned_sync t

/-! ## "Under every history of appends, extends, single-row and slice assignments (including ones that
grow or shrink the table), updates, clears, commits, reloads and re-openings, a table's length,
indexing, iteration and column selection always equal those of the plain list of rows the history
describes, whether the rows currently live on disk, in memory, or both, and whether the file is plain
or compressed." -/

/-- REFINEMENT, one step, every operation, every argument (any slice, any step, any index, rows of the
wrong width, unknown columns), plain or compressed file: the operation on the table is the same
operation on the plain list — same resulting list, same stored relation, same exception (or none) —
and the invariant is kept. -/
theorem step_refines (t : T) (op : Op) (h : Aligned t) :
    Aligned (step t op).1 ∧ (step t op).1.width = t.width
    ∧ specStep t.width (absS t) op = (absS (step t op).1, (step t op).2) :=
  L.step_ok t op h

/-- the invariant survives every history. -/
theorem run_aligned (t : T) (ops : List Op) (h : Aligned t) : Aligned (run t ops).1 := by
  induction ops generalizing t with
  | nil => exact h
  | cons op ops ih => simp only [run]; exact ih _ (L.step_ok t op h).1

/-- REFINEMENT, all histories, plain or compressed: every history of operations gives exactly the list,
the stored relation and the sequence of exceptions that the same history gives on a plain Python list
(`specRun`), from any reachable starting state. -/
theorem run_refines (t : T) (ops : List Op) (h : Aligned t) :
    specRun t.width (absS t) ops = (absS (run t ops).1, (run t ops).2) := by
  induction ops generalizing t with
  | nil => rfl
  | cons op ops ih =>
    obtain ⟨hA, hw, hs⟩ := L.step_ok t op h
    simp only [run, specRun]
    rw [hs]
    simp only
    have := ih (step t op).1 hA
    rw [hw] at this
    rw [this]

/-- "one or more tables": the same refinement for the whole suite.  The tables are independent: an
operation on table `k` is that operation on list `k` and leaves every other list alone; `ts.commit()`
stores EVERY table's list, `ts.reload()` (and re-opening) restores EVERY table's list; the exception (or
none) is the plain lists' one. -/
theorem suite_step_refines (s : Suite) (o : SOp) (h : L.AllAligned s) :
    L.AllAligned (stepS s o).1 ∧ (stepS s o).1.map (·.width) = s.map (·.width)
    ∧ specStepS (s.map (·.width)) (s.map absS) o = ((stepS s o).1.map absS, (stepS s o).2) := by
  cases o with
  | «at» k op => exact L.stepAt_refines s k op h
  | commit =>
    obtain ⟨s', hc, hA, hw, hm⟩ := L.commitAll_refines s h
    simp only [stepS, specStepS, hc]
    exact ⟨hA, hw, by rw [hm]⟩
  | reload =>
    obtain ⟨hA, hw, hm⟩ := L.reloadAll_refines s
    simp only [stepS, specStepS]
    exact ⟨hA, hw, by rw [hm]⟩

/-- … lifted to every history over the suite (operations on any tables interleaved with suite commits and
reloads): one plain list and its stored copy per table describe the whole run. -/
theorem suite_run_refines (s : Suite) (os : List SOp) (h : L.AllAligned s) :
    specRunS (s.map (·.width)) (s.map absS) os = ((runS s os).1.map absS, (runS s os).2) := by
  induction os generalizing s with
  | nil => rfl
  | cons o os ih =>
    obtain ⟨hA, hw, hs⟩ := suite_step_refines s o h
    simp only [runS, specRunS]
    rw [hs]
    simp only
    have := ih (stepS s o).1 hA
    rw [hw] at this
    rw [this]

/-- `len(table)` is the length of the list. -/
theorem len_spec (t : T) (h : Aligned t) : len t = (abs t).length := (L.abs_length h).symm

/-- `table[i]` for every integer `i` (negative, out of range) is `list[i]`, `IndexError` included. -/
theorem getItem_spec (t : T) (i : Int) (h : Aligned t) : getItem t i = pyGetItem (abs t) i :=
  L.getItem_eq t i h

/-- iteration enumerates the list with its positions (no position is skipped). -/
theorem iter_spec (t : T) (h : Aligned t) :
    enumRows t = ((abs t).zipIdx).map (fun p => (p.2, p.1)) := L.enumRows_eq t h

/-- column selection is the projection of the list (by definition of the model: `select` reads through
`_enum_rows`). -/
theorem select_spec (t : T) (cols : List Nat) : select t cols = selectL t.width (abs t) cols := rfl

/-- `table[start:stop:step]` for EVERY slice — any start, stop, step (positive, negative, `None`,
out of range; step 0 is the `ValueError`) — is `list[start:stop:step]`: the implementation's "walk the
positions in ascending order, keep the members of `range(*slice.indices(len))`, reverse for a negative
step" enumerates that range (`Verif.C10.Slice.filter_positions_eq`). -/
theorem slice_spec (t : T) (sl : Slice) (h : Aligned t) : iterSlice t sl = pyGetSlice (abs t) sl :=
  L.iterSlice_eq t sl h

/-- special case used by `commit`: `table[p:]` is `list[p:]`. -/
theorem slice_from_spec (t : T) (p : Nat) (h : Aligned t) (hp : p ≤ len t) :
    iterSlice t ⟨some (p : Int), none, none⟩ = .ok ((abs t).drop p) := L.iterSlice_from t p h hp

/-- the list-level slice assignment that `step_refines` refers to IS Python's extended-slice
assignment: for a step other than 1 (negative steps included) and indices `(a, b, st)` adjusted to the
length, `xs[sl] = vals` raises `ValueError` unless `len(vals) = len(range(a, b, st))`; otherwise the
length is unchanged, position `range(a, b, st)[k]` holds `vals[k]` for every `k`, and every position
outside the range is untouched.  (For step 1 / `None` the result is `xs[:a] + vals + xs[max(a,b):]`
by definition, `Verif.Py.setSliceSimple`.) -/
theorem setSlice_extended_spec (xs : List Row) (sl : Slice) (vals : List Row) (a b st : Int)
    (hidx : sliceIndices sl xs.length = some (a, b, st)) (hst : st ≠ 1) :
    if vals.length = (rangeList a b st).length then
      ∃ ys, pySetSlice xs sl vals = .ok ys ∧ ys.length = xs.length
        ∧ (∀ k (hk : k < (rangeList a b st).length), ys[((rangeList a b st)[k]).toNat]? = vals[k]?)
        ∧ (∀ j : Nat, (j : Int) ∉ rangeList a b st → ys[j]? = xs[j]?)
    else pySetSlice xs sl vals = .error .valueError :=
  L.pySetSlice_extended xs sl vals a b st hidx hst

/-! ## "Commit makes the stored relation equal to that list and committing again changes nothing,
reload returns to the last committed state, in_transaction is false after either" -/

/-- a successful commit stores exactly the list, shows the same list, and ends the transaction. -/
theorem commit_spec (t t' : T) (h : Aligned t) (hc : commit t = .ok t') :
    t'.file = abs t ∧ abs t' = abs t ∧ inTransaction t' = false ∧ Aligned t' := by
  obtain ⟨ht', _⟩ := L.commit_ok t t' h hc
  rw [ht']
  exact ⟨rfl, L.abs_sync _, L.sync_not_inTransaction _, L.aligned_sync _⟩

/-- committing again changes nothing. -/
theorem commit_idempotent (t t' : T) (h : Aligned t) (hc : commit t = .ok t') : commit t' = .ok t' := by
  obtain ⟨ht', _⟩ := L.commit_ok t t' h hc
  generalize t'.gz = g at ht'
  subst ht'
  exact L.commit_sync _

/-- commit never raises (as repaired by 7d1c791: a compressed relation is rewritten, not appended to). -/
theorem commit_total (t : T) (h : Aligned t) : ∃ t', commit t = .ok t' := L.commit_total t h

/-- "whether the file is plain or compressed": a plain relation stays plain; a compressed relation with
pending changes stays compressed unless it becomes empty; without pending changes nothing is written. -/
theorem commit_keeps_form (t t' : T) (h : Aligned t) (hc : commit t = .ok t') :
    (t.gz = false → t'.gz = false)
    ∧ (t.gz = true → t'.gz = if inTransaction t then !(abs t).isEmpty else true) :=
  L.commit_gz t t' h hc

/-- reload (and re-opening) shows the last committed relation and is not in a transaction. -/
theorem reload_spec (t : T) : abs (sync t) = t.file ∧ inTransaction (sync t) = false :=
  ⟨L.abs_sync t, L.sync_not_inTransaction t⟩

/-! ## "batch processing with any buffer size leaves every produced row exactly once on disk and in
memory so that a later commit adds nothing" -/

/-- EXACTLY ONCE: for every buffer size `b` (any integer), gzip or not, any set of affected tables and
any sequence of produced rows, if `process` completes then every table `j` shows AND stores exactly
its previous rows (none, if the table is one of the affected ones that processing clears) followed by
the rows produced for it, in order, each once — no matter how many flushes happened in between. -/
theorem process_exactly_once (s s' : Suite) (b : Int) (g : Bool) (aff : List Nat) (prod : List (Nat × Row))
    (h : L.AllAligned s) (hp : process s b g aff prod = (s', none)) (j : Nat) :
    L.content s' j = (if aff.contains j then [] else L.content s j) ++ L.rowsFor j prod
    ∧ L.stored s' j = (if aff.contains j then [] else L.content s j) ++ L.rowsFor j prod :=
  L.process_content s s' b g aff prod h hp j

/-- after a completed `process` (any buffer size, gzip or not) every table is synchronized with the
file that was just written: the file holds what the table shows, nothing is pending … -/
theorem process_synchronized (s s' : Suite) (b : Int) (g : Bool) (aff : List Nat) (prod : List (Nat × Row))
    (hp : process s b g aff prod = (s', none)) :
    ∀ t ∈ s', abs t = t.file ∧ inTransaction t = false ∧ Aligned t := by
  unfold process at hp
  split at hp
  · cases hp
  · injection hp with hp _
    subst hp
    intro t ht
    simp only [reloadAll, List.mem_map] at ht
    obtain ⟨u, _, rfl⟩ := ht
    exact ⟨L.abs_sync u, L.sync_not_inTransaction u, L.aligned_sync u⟩

/-- … so that a later commit adds nothing (the repaired F05). -/
theorem process_then_commit_adds_nothing (s s' : Suite) (b : Int) (g : Bool) (aff : List Nat)
    (prod : List (Nat × Row)) (hp : process s b g aff prod = (s', none)) :
    commitAll s' = (s', none) := by
  unfold process at hp
  split at hp
  · cases hp
  · injection hp with hp _
    subst hp
    generalize writeDatabase g _ = s1
    induction s1 with
    | nil => rfl
    | cons u us ih =>
      simp only [reloadAll, List.map_cons, commitAll] at ih ⊢
      rw [L.commit_sync u]
      simp only
      rw [ih]

/-! ## the same clause with the FieldMapper modelled: `TestSuite.process` with a scripted processor

`processM sch s b g script sel` (Mapper.lean): the selector is checked, the affected relations are cleared, the
input rows are read up front, item `k` is answered by
`script[k % len(script)]` (results, chart edges, run, scalar entries), `FieldMapper.map/cleanup` turn the
responses into rows of parse / result / edge / run (live key lists), every row goes through `_add_row`
(flush through `commit` whenever more than `b` rows are pending), then `write_database` and `reload`. -/

/-- EXACTLY ONCE, for ALL schemas, item lists, response scripts, buffer sizes `b` (0, 1, …, beyond the
number of rows, negative) and gzip settings: if `process` completes, the mapper produced one group of
rows per item plus the final run group, and every table shows AND stores exactly its previous rows
(none for the relations processing invalidates) followed by the rows produced for it, in order, each
once — whatever flushes happened in between. -/
theorem processM_exactly_once (sch : Schema) (s s' : Suite) (b : Int) (g : Bool) (script : List Resp)
    (sel : Option (String × String)) (src : Option Suite) (h : L.AllAligned s) (hp : processM sch s b g script sel src = (s', none)) :
    ∃ inFields items gs, inputOf sch s src sel = .ok (inFields, items)
      ∧ producedGroups sch inFields script items = (gs, none)
      ∧ gs.length = items.length + 1
      ∧ ∀ j, L.content s' j = (if (affectedIdx sch).contains j then [] else L.content s j) ++ L.rowsFor j gs.flatten
           ∧ L.stored s' j = (if (affectedIdx sch).contains j then [] else L.content s j) ++ L.rowsFor j gs.flatten := by
  obtain ⟨inFields, items, gs, hi, hg, hproc⟩ := L.processM_ok sch s s' b g script sel src hp
  exact ⟨inFields, items, gs, hi, hg, (L.producedGroups_spec sch inFields script items gs hg).1,
    fun j => L.process_content s s' b g _ _ h hproc j⟩

/-- after `process`: memory = disk and `in_transaction` is false for every table, and a commit
afterwards changes nothing (and so does a second one: `commit_idempotent`). -/
theorem processM_synchronized (sch : Schema) (s s' : Suite) (b : Int) (g : Bool) (script : List Resp)
    (sel : Option (String × String)) (src : Option Suite) (hp : processM sch s b g script sel src = (s', none)) :
    (∀ t ∈ s', abs t = t.file ∧ inTransaction t = false ∧ Aligned t) ∧ inTransactionS s' = false
    ∧ commitAll s' = (s', none) := by
  obtain ⟨_, _, gs, _, _, hproc⟩ := L.processM_ok sch s s' b g script sel src hp
  have h1 := process_synchronized s s' b g _ _ hproc
  refine ⟨h1, ?_, process_then_commit_adds_nothing s s' b g _ _ hproc⟩
  simp only [inTransactionS, List.any_eq_false]
  intro t ht
  simp [(h1 t ht).2.1]

/-- a relation outside the mapper's affected set (item, or any user relation) keeps exactly the rows it
showed before `process` — uncommitted appends included, each once — and they are on disk afterwards
(so the following commit neither loses nor repeats them). -/
theorem processM_unaffected_kept (sch : Schema) (s s' : Suite) (b : Int) (g : Bool) (script : List Resp)
    (sel : Option (String × String)) (src : Option Suite) (h : L.AllAligned s) (hp : processM sch s b g script sel src = (s', none))
    (j : Nat) (t : TableS) (hj : sch[j]? = some t) (hn : c10AffectedTables.contains t.name = false) :
    L.content s' j = L.content s j ∧ L.stored s' j = L.content s j := by
  obtain ⟨inFields, items, gs, _, hg, hproc⟩ := L.processM_ok sch s s' b g script sel src hp
  have hc := L.process_content s s' b g _ _ h hproc j
  have hna : (affectedIdx sch).contains j = false := by
    rw [Bool.eq_false_iff]
    intro hc'
    rw [List.contains_iff_mem, L.mem_affectedIdx] at hc'
    obtain ⟨t', ht', hc''⟩ := hc'
    rw [hj] at ht'
    injection ht' with ht'
    subst ht'
    rw [hn] at hc''
    cases hc''
  have hr := L.rowsFor_unaffected sch gs.flatten j t hj hn
    (L.producedGroups_spec sch inFields script items gs hg).2
  rw [hna, hr] at hc
  simpa using hc

/-- one response becomes one parse row, then one result row per result, then one edge row per chart edge. -/
theorem mapper_response_shape (st st' : MState) (keys : Dict) (r : Resp) (tx : List (String × Dict))
    (h : mapResponse st keys r = .ok (st', tx)) :
    tx.length = 1 + (r.results.getD []).length + r.chart.length
    ∧ tx.map (·.1) = ["parse"] ++ List.replicate (r.results.getD []).length "result"
                      ++ List.replicate r.chart.length "edge" :=
  L.mapResponse_shape st st' keys r tx h

/-- the parse id of a response is `max(previous + 1, i-id)` … -/
theorem mapper_parse_id (st st' : MState) (keys : Dict) (r : Resp) (tx : List (String × Dict))
    (h : mapResponse st keys r = .ok (st', tx)) :
    ∃ iid, decInt (iidCellOf keys) = some iid ∧ st'.parseId = max (st.parseId + 1) iid :=
  L.mapResponse_parseId st st' keys r tx h

/-- … so the parse ids of a run are strictly increasing (every parse row has its own id, whatever the
item ids are: repeated, descending, negative), each at least its item's id, and integer cells with
different values have different codes. -/
theorem parse_ids_distinct (p : Int) (is : List Int) :
    (parseIds p is).Pairwise (· < ·) ∧ (parseIds p is).length = is.length
    ∧ (∀ k (h1 : k < (parseIds p is).length) (h2 : k < is.length), is[k] ≤ (parseIds p is)[k])
    ∧ (∀ i j : Int, encInt i = encInt j → i = j) :=
  ⟨L.parseIds_increasing p is, (L.parseIds_ge p is).1, (L.parseIds_ge p is).2, L.encInt_injective⟩

/-- BRIDGE between the two: in a run of the modelled mapper over `items`, the rows of item `k` are the
`make_record` images of a transaction whose first entry is the parse patch, and the `parse-id` entries of
those patches are exactly `parseIds (-1) (item ids)` (coded integers); `make_record` copies the entry
into the `parse-id` column unchanged.  So `parse_ids_distinct` speaks about the produced parse rows. -/
theorem produced_parse_ids (sch : Schema) (inFields : List FieldS) (script : List Resp) (st' : MState)
    (items : List Row) (gs : List (List (Nat × Row)))
    (h : produceItems sch inFields script {} 0 items = (gs, st', none)) :
    ∃ txs : List (List (String × Dict)), gs = txs.map (fun tx => (toRows sch tx).1)
      ∧ txs.map parsePidCell = (parseIds (-1) (items.map (itemId inFields))).map (fun p => some (encInt p))
      ∧ (∀ (fields : List FieldS) (d : Dict) (j : Nat) (f : FieldS) (p : Int), fields[j]? = some f →
           dget d f.name = some (encInt p) → (makeRecord fields d)[j]? = some (encInt p)) := by
  obtain ⟨txs, hm, hgs⟩ := L.produceItems_mapItems sch inFields script {} st' 0 items gs h
  refine ⟨txs, hgs, L.mapItems_parse_ids inFields script {} st' 0 items txs hm, ?_⟩
  intro fields d j f p hf hd
  exact L.makeRecord_cell fields d j f (encInt p) hf hd (by unfold cNone encInt; split <;> omega)

/-- what the driver reports for the `callback` of item `k` (`processPhases`, compared with the real
tables at every item) is the state of the same run after the rows of the first `k` items. -/
theorem process_phase_is_prefix_run (s : Suite) (b : Int) (gs : List (List (Nat × Row))) (k : Nat) (sk : Suite)
    (hk : (traceGroups s b gs)[k]? = some sk) : addRows s b (gs.take k).flatten = (sk, none) :=
  L.traceGroups_getElem? s b gs k sk hk

/-! ## pins: the constants, operators and defaults of the anchored code that the model hand-codes -/

/-- Read on every run from the live `delphin.itsdb` (AST of each function: literals in source order,
comparison/boolean/arithmetic operators as `op:…`, calls of min/max/len/enumerate/reversed/sorted/… as
`call:…`; docstrings, annotations and everything inside raise/warn/logger/assert left out) into
`Verif/Generated/TablesC10.lean`, and compared here with the values the model was written against.

* `c10TableInitConsts` (`''`, `None`, `0`, `0`), `c10SyncWithFileConsts` (`i = -1 … i + 1`): `sync`
  (`rows := replicate file.length none`, `pers = vol = file.length`); a missing file is created empty.
* `c10InTransactionConsts` (`len(rows) > pers or vol < pers`): `inTransaction`.
* `c10IterSliceConsts` (`step is not None and step < 0` → `reversed`), `c10EnumRowsConsts`
  (`range(*slice.indices(len))`, `file_exhausted`, `i not in indices`, `row is None` / `line is not None`),
  `c10TableIterConsts`, `c10SelectConsts`, `c10LoadRowsConsts` (`slice(start, None)`): `resolve`, `enumRows`,
  `iterSlice`, `abs`, `select`, `loadRows`.
* `c10GetItemConsts` (`index < 0: index = len + index`, `i == index`): `getItem`.
* `c10SetItemConsts` (`index < 0`, `len + index`, `index < 0` again → IndexError, `index + 1`,
  `step == 1 and len(values) != max(0, stop - start)`, `min(vol, start, stop)`): `setItem`, `setSlice`.
* `c10ClearConsts` (`vol = 0`), `c10AppendConsts`, `c10ExtendConsts`, `c10UpdateConsts`: `step` (clear, append,
  extend via `extendL`), `update`/`applyCols`.
* `c10RowInitConsts` (`len(data) != len(fields)` → ITSDBError), `c10RowEqConsts`, `c10RowGetitemConsts`,
  `c10RowIterConsts`: `checkRows`/`extendL` width test; rows as opaque cell lists compared cell-wise.
* `c10SuiteInTransactionConsts` (`any`), `c10SuiteGetitemConsts`, `c10ReloadConsts`, `c10SuiteInitConsts`
  (`autocast=False`): `inTransactionS`, `stepAt` (unknown table), `reloadAll`, reopen = `reloadAll`.
* `c10CommitConsts` (`suffix == '.gz'`, `vol >= pers and not gzip and _ends_with_newline(path)`, `append = True/False`),
  `c10EndsWithNewlineConsts` (empty file or last byte `\n`): `commit`, `commitNl`.
* `c10ProcessConsts`, `c10AddRowConsts` (`num_changes = 0`, `+= len(table) - pers`, `> buffer_size`),
  `c10Defaults` (`buffer_size=1000`, `gzip=False`, `select(cast=True)`): `process`, `addRow`, `numChanges`.
* `c10MapperInitConsts` (`_parse_id = -1`, `_last_run_id = -1`), `c10MapParseConsts` (`keys`, `i-id`, `-1`,
  `max(_parse_id + 1, i_id)`, `run-id` default `-1`, `readings = len(results)` when absent), `c10MapResultConsts`,
  `c10MapEdgeConsts` (`parse-id`, `e-daughters`/`e-alternates` → None), `c10MapperMapConsts` (`parse`, `result`,
  `chart`/`edge`, `run`, `run-id` default `-1`), `c10MapperCleanupConsts` (`!= -1`, `sorted`, `run-id`):
  Mapper.lean `MState`, `mapParse`, `mapResult`, `mapEdge`, `mapResponse`, `stepRuns`, `cleanup`.
  `c10ParseKeys`, `c10ResultKeys`, `c10RunKeys`, `c10AffectedTables`, `c10TaskSelectors` are USED by the model
  (`pick`, `affectedIdx`, `processInput`); the harness's independent re-statement (`Spec.produced`, `AFFECTED`,
  `PARSE_KEYS`, `RESULT_KEYS`, `RUN_KEYS`) hand-codes their intersection with the harness schema.
* `c10ErrorBases`: ITSDBError is a TSDBError (the harness maps exceptions by class).

A change to any of them must be followed in the model / harness: this theorem stops checking, which the
check reports as a broken proof obligation and then searches for a failing input. -/
theorem c10_pins :
    c10TableInitConsts = ["", "None", "0", "0"] ∧
    c10InTransactionConsts = ["call:len", "op:Or", "op:Gt", "op:Lt"] ∧
    c10SyncWithFileConsts = ["op:USub", "1", "op:Add", "1", "None", "op:Add", "1", "op:Add", "1"] ∧
    c10TableIterConsts = [] ∧
    c10IterSliceConsts = ["op:And", "op:IsNot", "None", "op:Lt", "0", "call:list", "call:reversed"] ∧
    c10GetItemConsts = ["op:Is", "None", "op:Lt", "0", "op:Add", "call:len", "call:enumerate", "op:Eq", "op:Is", "None"] ∧
    c10TableGetitemConsts = [] ∧
    c10SetItemConsts = ["call:list", "op:Lt", "0", "op:Add", "call:len", "op:Lt", "0", "op:Add", "1", "call:enumerate", "call:len", "op:And", "op:Eq", "1", "op:NotEq", "call:len", "call:max", "0", "op:Sub", "call:min"] ∧
    c10LoadRowsConsts = ["call:list", "None"] ∧
    c10TableLenConsts = ["call:len"] ∧
    c10ClearConsts = ["0"] ∧
    c10AppendConsts = [] ∧
    c10ExtendConsts = ["op:Not"] ∧
    c10UpdateConsts = ["op:Not", "call:list"] ∧
    c10SelectConsts = [] ∧
    c10EnumRowsConsts = ["op:Is", "None", "None", "call:range", "call:len", "False", "call:enumerate", "op:Not", "None", "True", "op:NotIn", "op:Is", "None", "op:IsNot", "None"] ∧
    c10RowInitConsts = ["op:NotEq", "call:len", "call:len", "op:Is", "None"] ∧
    c10RowGetitemConsts = [] ∧
    c10RowIterConsts = [] ∧
    c10RowEqConsts = ["op:Not", "__iter__", "op:Eq"] ∧
    c10SuiteInitConsts = ["op:Is", "None", "exist_ok=True", "op:Not", "op:Is", "None", "autocast=False"] ∧
    c10SuiteInTransactionConsts = ["call:any", "op:In"] ∧
    c10SuiteGetitemConsts = ["op:NotIn", "op:NotIn"] ∧
    c10SelectFromConsts = ["op:Not"] ∧
    c10ReloadConsts = ["op:In"] ∧
    c10CommitConsts = ["op:NotIn", "op:Eq", ".gz", "op:And", "op:GtE", "op:Not", "call:_ends_with_newline", "True", "False"] ∧
    c10EndsWithNewlineConsts = ["rb", "0", "2", "op:Eq", "0", "True", "op:USub", "1", "2", "op:Eq", "1", "b'\\n'"] ∧
    c10ProcessConsts = ["op:Is", "None", "op:Or", "op:NotIn", "call:all", "op:NotEq", "op:Is", "None", "op:Is", "None", "call:list"] ∧
    c10AddRowConsts = ["0", "op:Add", "op:Sub", "call:len", "op:Gt"] ∧
    c10MapperInitConsts = ["ninputs ntokens readings first total tcpu tgc treal words l-stasks p-ctasks p-ftasks p-etasks p-stasks aedges pedges raedges rpedges tedges eedges ledges sedges redges unifications copies conses symbols others gcs i-load a-load date error comment", "result-id time r-ctasks r-ftasks r-etasks r-stasks size r-aedges r-pedges derivation surface tree mrs", "run-comment platform protocol tsdb application environment grammar avms sorts templates lexicon lrules rules user host os start end items status", "op:USub", "1", "op:USub", "1", "run parse result rule output edge tree decision preference update fold score", "parse", "parse-id", "i-id", "cast=True"] ∧
    c10MapperMapConsts = ["parse-id", "parse", "result", "chart", "edge", "op:In", "run", "run", "run-id", "op:USub", "1", "op:And", "op:NotIn", "op:In", "op:NotIn", "end", "end", "run"] ∧
    c10MapParseConsts = ["keys", "op:In", "i-id", "i-id", "i-id", "op:And", "op:In", "parse-id", "op:In", "parse-id", "i-id", "parse-id", "i-id", "op:USub", "1", "i-id", "call:max", "op:Add", "1", "parse-id", "run-id", "run", "run-id", "op:USub", "1", "op:In", "tokens", "p-input", "tokens", "initial", "p-tokens", "tokens", "internal", "op:NotIn", "ninputs", "initial", "op:IsNot", "None", "ninputs", "call:len", "op:NotIn", "ntokens", "internal", "op:IsNot", "None", "ntokens", "call:len", "op:And", "op:NotIn", "readings", "op:In", "results", "readings", "call:len", "results", "op:In"] ∧
    c10MapResultConsts = ["parse-id", "op:In", "flags", "flags", "flags", "op:In"] ∧
    c10MapEdgeConsts = ["parse-id", "e-daughters", "e-daughters", "e-daughters", "None", "e-alternates", "e-alternates", "e-alternates", "None"] ∧
    c10MapperCleanupConsts = ["op:NotEq", "op:USub", "1", "op:NotIn", "end", "end", "call:sorted", "run-id", "run-id", "op:USub", "1", "op:In", "run", "op:USub", "1", "op:USub", "1"] ∧
    c10Defaults = [("Table.__init__", "('utf-8',)", "None"), ("Table._in_transaction", "None", "None"), ("Table._sync_with_file", "None", "None"), ("Table.__iter__", "None", "None"), ("Table._iterslice", "None", "None"), ("Table._getitem", "None", "None"), ("Table.__getitem__", "None", "None"), ("Table.__setitem__", "None", "None"), ("Table._load_rows", "None", "None"), ("Table.__len__", "None", "None"), ("Table.clear", "None", "None"), ("Table.append", "None", "None"), ("Table.extend", "None", "None"), ("Table.update", "None", "None"), ("Table.select", "None", "{'cast': True}"), ("Table._enum_rows", "(None,)", "None"), ("Row.__init__", "(None,)", "None"), ("Row.__getitem__", "None", "None"), ("Row.__iter__", "None", "None"), ("Row.__eq__", "None", "None"), ("TestSuite.__init__", "(None, None, 'utf-8')", "None"), ("TestSuite.in_transaction", "None", "None"), ("TestSuite.__getitem__", "None", "None"), ("TestSuite.select_from", "(None, True)", "None"), ("TestSuite.reload", "None", "None"), ("TestSuite.commit", "None", "None"), ("TestSuite.process", "(None, None, None, False, 1000, None)", "None"), ("_add_row", "None", "None"), ("_ends_with_newline", "None", "None"), ("FieldMapper.__init__", "(None,)", "None"), ("FieldMapper.map", "None", "None"), ("FieldMapper._map_parse", "None", "None"), ("FieldMapper._map_result", "None", "None"), ("FieldMapper._map_edge", "None", "None"), ("FieldMapper.cleanup", "None", "None")] ∧
    c10ParseKeys = ["ninputs", "ntokens", "readings", "first", "total", "tcpu", "tgc", "treal", "words", "l-stasks", "p-ctasks", "p-ftasks", "p-etasks", "p-stasks", "aedges", "pedges", "raedges", "rpedges", "tedges", "eedges", "ledges", "sedges", "redges", "unifications", "copies", "conses", "symbols", "others", "gcs", "i-load", "a-load", "date", "error", "comment"] ∧
    c10ResultKeys = ["result-id", "time", "r-ctasks", "r-ftasks", "r-etasks", "r-stasks", "size", "r-aedges", "r-pedges", "derivation", "surface", "tree", "mrs"] ∧
    c10RunKeys = ["run-comment", "platform", "protocol", "tsdb", "application", "environment", "grammar", "avms", "sorts", "templates", "lexicon", "lrules", "rules", "user", "host", "os", "start", "end", "items", "status"] ∧
    c10AffectedTables = ["run", "parse", "result", "rule", "output", "edge", "tree", "decision", "preference", "update", "fold", "score"] ∧
    c10TaskSelectors = [("parse", "item", "i-input"), ("transfer", "result", "mrs"), ("generate", "result", "mrs")] ∧
    c10ErrorBases = ["ITSDBError", "TSDBError", "PyDelphinException"] := by
  refine ⟨?_, ?_, ?_, ?_, ?_, ?_, ?_, ?_, ?_, ?_, ?_, ?_, ?_, ?_, ?_, ?_, ?_, ?_, ?_, ?_, ?_, ?_, ?_, ?_, ?_, ?_, ?_, ?_, ?_, ?_, ?_, ?_, ?_, ?_, ?_, ?_, ?_, ?_, ?_, ?_, ?_, ?_⟩ <;> rfl

end Verif.C10
