/-
C10 — property theorems, round 6: the lazy iterator (iteration held across appends), what a fresh
TestSuite shows along every history, the processor calls of `process` and its `selector=` error path.
Only statements live here; the proofs are in IterLemmas.lean.
-/
import Verif.C10.IterLemmas
import Verif.C10.Props

namespace Verif.C10
open Verif.Py

/-! ## "iteration … always equal[s] that of the plain list of rows the history describes" — for the
GENERATOR the code really runs (`Table.__iter__` is lazy: one `next()` at a time over the live `_rows`) -/

/-- the generator run to its end without interference yields exactly what the eager enumeration
(`abs`, about which `run_refines` speaks) yields — for EVERY table state, aligned or not. -/
theorem iter_lazy_is_list (t : T) : itDrain t.rows (iterStart t) = abs t := L.itDrain_start t

/-- `list(it)` is `next(it)` repeated until exhaustion: the drain the model uses for "consume the rest"
unfolds into one `scan` (= one `next()`) followed by the drain from the position that `next()` reached. -/
theorem iter_drain_is_repeated_next (bound : Nat) (rows : List (Option Row)) (pos : Nat) (fh : List Row) :
    drainScan bound pos rows fh =
      match scan bound pos rows fh with
      | none => []
      | some (r, it) => r :: drainScan bound it.pos (rows.drop (it.pos - pos)) it.fh :=
  L.drainScan_unfold bound rows pos fh

/-- ITERATION HELD ACROSS GROWTH, every table state (rows on disk, in memory or both; aligned or not;
plain or compressed), ANYTHING appended to `_rows` after the first `next()`: the iterator yields exactly
the list the table showed when the iteration started — the first row first, then the rest, no row of the
appended material, none lost, none twice. -/
theorem held_iter_appended (t : T) (extra : List (Option Row)) :
    heldIter t { t with rows := t.rows ++ extra } = ((abs t).take 1, (abs t).drop 1) :=
  L.heldIter_append t extra

/-- … in particular across `append(row)` and `extend(rows)` with any arguments, also when a row of the
wrong width stops the `extend` half-way (the rows before it stay appended). -/
theorem held_iter_across_append_extend (t : T) (r : Row) (rs : List Row) :
    heldIter t (step t (.append r)).1 = ((abs t).take 1, (abs t).drop 1)
    ∧ heldIter t (step t (.extend rs)).1 = ((abs t).take 1, (abs t).drop 1) := by
  constructor
  · obtain ⟨xs, h⟩ := L.extendL_prefix t.width some [r] t.rows
    have := L.heldIter_append t xs
    simp only [step]
    rw [← h] at this
    exact this
  · obtain ⟨xs, h⟩ := L.extendL_prefix t.width some rs t.rows
    have := L.heldIter_append t xs
    simp only [step]
    rw [← h] at this
    exact this

/-- the "rows at the start" reading is specific to growth at the end: the generator looks at the LIVE
`_rows`, so a held iterator sees a later assignment to a position it has not reached yet, and stops after
`clear()` (concrete witnesses; what the list would do for a mutation under iteration). -/
theorem held_iter_sees_live_rows :
    let t : T := sync { rows := [], pers := 0, vol := 0, file := [[1], [2], [3]], gz := false, width := 1 }
    heldIter t (step t (.setItem 2 [9])).1 = ([[1]], [[2], [9]])
    ∧ heldIter t (step t .clear).1 = ([[1]], [])
    ∧ heldIter t (step t (.setSlice ⟨some 0, some 1, none⟩ [])).1 = ([[1]], [[3]]) := by
  decide

example : heldIter (sync { rows := [], pers := 0, vol := 0, file := [[1], [2]], gz := true, width := 1 })
    (step (sync { rows := [], pers := 0, vol := 0, file := [[1], [2]], gz := true, width := 1 }) (.append [7])).1
    = ([[1]], [[2]]) := by decide

/-- the hypothesis `Aligned` of the refinement theorems (`step_refines`, `len_spec`, `getItem_spec`, …) cannot
be dropped: on a table with a placeholder beyond the end of its file (not reachable: `run_aligned`) the
length and the indexing differ from those of the list the table shows (`table[1]` is an ITSDBError, `list[1]`
an IndexError). -/
theorem aligned_is_necessary :
    ¬ Aligned L.misalignedWitness
    ∧ len L.misalignedWitness ≠ (abs L.misalignedWitness).length
    ∧ getItem L.misalignedWitness 1 = .error .itsdbError
    ∧ pyGetItem (abs L.misalignedWitness) 1 = .error .indexError := by
  refine ⟨fun h => ?_, by decide, by rfl, by rfl⟩
  exact absurd h.pers_eq (by decide)

/-! ## "a fresh itsdb.TestSuite on the same directory" (observe_at) -/

/-- at EVERY point of EVERY history a TestSuite freshly opened on the directory shows, for the table, the
stored copy of the plain-list specification: the last committed list (the initial relation if nothing
was committed yet), never a pending row. -/
theorem fresh_view_along_history (t : T) (ops : List Op) (h : Aligned t) :
    freshView (run t ops).1 = (specRun t.width (absS t) ops).1.stored := by
  rw [run_refines t ops h]
  exact (reload_spec _).1

/-- the same for every table of a suite, along every suite history (operations on any table interleaved
with suite-wide commits and reloads). -/
theorem fresh_view_along_suite_history (s : Suite) (os : List SOp) (h : L.AllAligned s) :
    (runS s os).1.map freshView = (specRunS (s.map (·.width)) (s.map absS) os).1.map (·.stored) := by
  rw [suite_run_refines s os h]
  simp only [List.map_map]
  apply List.map_congr_left
  intro t _
  exact (reload_spec t).1

/-! ## "batch processing …": the processor is called once per row of the list the input table shows -/

/-- for every schema, suite and `selector=` (explicit or the task default): `process` calls the processor
exactly once per row of the list the input relation SHOWS once the affected relations have been cleared
(pending rows included; nothing, if the input relation is itself an affected one), in list order, with that row's cell in the input column as datum and that row's key columns as `keys`. -/
theorem process_calls_once_in_order (sch : Schema) (s : Suite) (sel : Option (String × String))
    (cs : List (Nat × Dict)) (h : processCalls sch s sel = .ok cs) :
    ∃ inFields items k, processInput sch (clearAt s (affectedIdx sch)) sel = .ok (inFields, items)
      ∧ items = L.content (clearAt s (affectedIdx sch)) k
      ∧ cs.length = items.length
      ∧ ∀ (i : Nat) (r : Row), items[i]? = some r → ∃ c, cs[i]? = some (c, keysOf inFields r) :=
  L.processCalls_spec sch s sel cs h

/-- ERROR PATH of the option plumbing: a `selector` naming a relation that is not in the schema, or a
column that is not a field of the relation, makes `process` raise ITSDBError BEFORE anything is cleared or
written — the suite (every table, pending rows, files) is exactly as it was. -/
theorem process_bad_selector_changes_nothing (sch : Schema) (s : Suite) (b : Int) (g : Bool) (script : List Resp)
    (tb col : String)
    (hbad : tableIndex sch tb = none
      ∨ ∃ ts, sch.find? (fun t => t.name == tb) = some ts ∧ ts.fields.any (fun f => f.name == col) = false) :
    processM sch s b g script (some (tb, col)) = (s, some .itsdbError)
    ∧ processCalls sch s (some (tb, col)) = .error .itsdbError :=
  L.processM_bad_selector sch s b g script tb col hbad

end Verif.C10
