/-
C10 — property theorems, round 6: the lazy iterator (iteration held across appends), what a fresh
TestSuite shows along every history, the processor calls of `process` and its `selector=` error path.
Only statements live here; the proofs are in IterLemmas.lean.
-/
import Verif.C10.IterLemmas
import Verif.C10.Props

namespace Verif.C10
open Verif.Py

/-! ## "iteration … always equal[s] that of the plain list of rows the history describes" — for the
GENERATOR the code really runs (`Table.__iter__` is lazy: one `next()` at a time over the live `_rows`) -/

/-- the generator run to its end without interference yields exactly what the eager enumeration
(`abs`, about which `run_refines` speaks) yields — for EVERY table state, aligned or not. -/
theorem iter_lazy_is_list (t : T) : itDrain t.rows (iterStart t) = abs t := L.itDrain_start t

/-- `list(it)` is `next(it)` repeated until exhaustion: the drain the model uses for "consume the rest"
unfolds into one `scan` (= one `next()`) followed by the drain from the position that `next()` reached. -/
theorem iter_drain_is_repeated_next (bound : Nat) (rows : List (Option Row)) (pos : Nat) (fh : List Row) :
    drainScan bound pos rows fh =
      match scan bound pos rows fh with
      | none => []
      | some (r, it) => r :: drainScan bound it.pos (rows.drop (it.pos - pos)) it.fh :=
  L.drainScan_unfold bound rows pos fh

/-- ITERATION HELD ACROSS GROWTH, every table state (rows on disk, in memory or both; aligned or not;
plain or compressed), ANYTHING appended to `_rows` after the first `next()`: the iterator yields exactly
the list the table showed when the iteration started — the first row first, then the rest, no row of the
appended material, none lost, none twice. -/
theorem held_iter_appended (t : T) (extra : List (Option Row)) :
    heldIter t { t with rows := t.rows ++ extra } = ((abs t).take 1, (abs t).drop 1) :=
  L.heldIter_append t extra

/-- … in particular across `append(row)` and `extend(rows)` with any arguments, also when a row of the
wrong width stops the `extend` half-way (the rows before it stay appended). -/
theorem held_iter_across_append_extend (t : T) (r : Row) (rs : List Row) :
    heldIter t (step t (.append r)).1 = ((abs t).take 1, (abs t).drop 1)
    ∧ heldIter t (step t (.extend rs)).1 = ((abs t).take 1, (abs t).drop 1) := by
  constructor
  · obtain ⟨xs, h⟩ := L.extendL_prefix t.width some [r] t.rows
    have := L.heldIter_append t xs
    simp only [step]
    rw [← h] at this
    exact this
  · obtain ⟨xs, h⟩ := L.extendL_prefix t.width some rs t.rows
    have := L.heldIter_append t xs
    simp only [step]
    rw [← h] at this
    exact this

/-- the "rows at the start" reading is specific to growth at the end: the generator looks at the LIVE
`_rows`, so a held iterator sees a later assignment to a position it has not reached yet, and stops after
`clear()` (concrete witnesses; what the list would do for a mutation under iteration). -/
theorem held_iter_sees_live_rows :
    let t : T := sync { rows := [], pers := 0, vol := 0, file := [[1], [2], [3]], gz := false, width := 1 }
    heldIter t (step t (.setItem 2 [9])).1 = ([[1]], [[2], [9]])
    ∧ heldIter t (step t .clear).1 = ([[1]], [])
    ∧ heldIter t (step t (.setSlice ⟨some 0, some 1, none⟩ [])).1 = ([[1]], [[3]]) := by
  decide

example : heldIter (sync { rows := [], pers := 0, vol := 0, file := [[1], [2]], gz := true, width := 1 })
    (step (sync { rows := [], pers := 0, vol := 0, file := [[1], [2]], gz := true, width := 1 }) (.append [7])).1
    = ([[1]], [[2]]) := by decide

/-- the hypothesis `Aligned` of the refinement theorems (`step_refines`, `len_spec`, `getItem_spec`, …) cannot
be dropped: on a table with a placeholder beyond the end of its file (not reachable: `run_aligned`) the
length and the indexing differ from those of the list the table shows (`table[1]` is an ITSDBError, `list[1]`
an IndexError). -/
theorem aligned_is_necessary :
    ¬ Aligned L.misalignedWitness
    ∧ len L.misalignedWitness ≠ (abs L.misalignedWitness).length
    ∧ getItem L.misalignedWitness 1 = .error .itsdbError
    ∧ pyGetItem (abs L.misalignedWitness) 1 = .error .indexError := by
  refine ⟨fun h => ?_, by decide, by rfl, by rfl⟩
  exact absurd h.pers_eq (by decide)

/-! ## "a fresh itsdb.TestSuite on the same directory" (observe_at) -/

/-- at EVERY point of EVERY history a TestSuite freshly opened on the directory shows, for the table, the
stored copy of the plain-list specification: the last committed list (the initial relation if nothing
was committed yet), never a pending row. -/
theorem fresh_view_along_history (t : T) (ops : List Op) (h : Aligned t) :
    freshView (run t ops).1 = (specRun t.width (absS t) ops).1.stored := by
  rw [run_refines t ops h]
  exact (reload_spec _).1

/-- the same for every table of a suite, along every suite history (operations on any table interleaved
with suite-wide commits and reloads). -/
theorem fresh_view_along_suite_history (s : Suite) (os : List SOp) (h : L.AllAligned s) :
    (runS s os).1.map freshView = (specRunS (s.map (·.width)) (s.map absS) os).1.map (·.stored) := by
  rw [suite_run_refines s os h]
  simp only [List.map_map]
  apply List.map_congr_left
  intro t _
  exact (reload_spec t).1

/-! ## F61 (repaired by b478bc1): a relation file whose last line lacks the final newline -/

/-- "Commit makes the stored relation equal to that list" WITHOUT any newline hypothesis: on aligned tables the
repaired commit gives the same table, the same stored relation and the same physical form whether or not the file
ended in a newline (it then rewrites instead of appending) — so `commit_spec`, `commit_idempotent`, `commit_total`,
`commit_keeps_form`, `commit_stores_the_list`, `commit_form_on_disk` hold for every such file; likewise for the
whole suite. -/
theorem commit_newline_irrelevant (t : T) (nl : Bool) (h : Aligned t) : commitNl t nl = commit t :=
  L.commitNl_eq t nl h

theorem commitAll_newline_irrelevant (s : Suite) (nls : List Bool) (h : L.AllAligned s) :
    commitAllNl s nls = commitAll s := L.commitAllNl_eq s h nls

/-- the decision itself: pending appends on a plain file that does NOT end in a newline take the rewrite branch
(what the code before b478bc1 did not: it appended, gluing two records), and the stored relation is the list. -/
theorem commit_without_final_newline_rewrites (t : T) (h : Aligned t) (htx : inTransaction t = true) :
    commitNl t false = .ok (sync { t with file := abs t, gz := t.gz && !(abs t).isEmpty }) := by
  unfold commitNl
  rw [if_pos htx]
  simp

/-! ## two TestSuite objects on one directory (round 7) -/

/-- RELOAD AFTER A FOREIGN COMMIT: suite B (all tables aligned, any pending edits) commits; suite A — in ANY state:
tables loaded or not, with or without pending changes of its own, even misaligned — then reloads.  A shows, for
every table, exactly the list B showed when it committed; A is aligned again and not in a transaction. -/
theorem reload_after_foreign_commit (a b b' : Suite) (hb : L.AllAligned b) (hc : commitAll b = (b', none))
    (hl : a.length = b.length) :
    (reloadAll (adoptFiles b' a)).map abs = b.map abs
    ∧ L.AllAligned (reloadAll (adoptFiles b' a)) ∧ inTransactionS (reloadAll (adoptFiles b' a)) = false := by
  have hlen : b'.length = b.length := by
    have := congrArg List.length (L.commitAll_abs b b' hb hc).2
    simpa using this
  refine ⟨?_, (L.reloadAll_clean _).1, (L.reloadAll_clean _).2⟩
  rw [L.reloadAll_abs, L.adoptFiles_files b' a (by omega), L.commitAll_files b b' hb hc]

/-- … and a TestSuite freshly opened on the directory after B's commit shows the same lists. -/
theorem fresh_suite_after_foreign_commit (b b' : Suite) (hb : L.AllAligned b) (hc : commitAll b = (b', none)) :
    (freshSuite b').map abs = b.map abs ∧ L.AllAligned (freshSuite b') ∧ inTransactionS (freshSuite b') = false := by
  refine ⟨?_, (L.reloadAll_clean _).1, (L.reloadAll_clean _).2⟩
  unfold freshSuite
  rw [L.reloadAll_abs, L.commitAll_files b b' hb hc]

/-! ## the "placeholder beyond the end of the file" branches (`_getitem`: 'could not retrieve row',
`_enum_rows`: `else: continue`) are dead in every single-suite history -/

/-- from every reachable state (`aligned_fresh`, `run_aligned`: every operation preserves `Aligned`), along
EVERY history: no index makes `table[i]` raise ITSDBError and the enumeration skips no position. -/
theorem placeholder_branch_dead (t : T) (ops : List Op) (h : Aligned t) :
    (∀ i, getItem (run t ops).1 i ≠ .error .itsdbError)
    ∧ (∀ x ∈ resolve (run t ops).1.rows (run t ops).1.file, x ≠ none) :=
  L.aligned_no_dangling _ (run_aligned t ops h)

/-- … and the only way into them is the one the property excludes: ANOTHER suite shrinks the relation and this
suite does not reload.  (A loaded 3 stored rows, B committed 1 row: A still has length 3, shows 1 row,
`A[2]` is the ITSDBError; after `reload` A is the list again by `reload_after_foreign_commit`.) -/
theorem stale_suite_reaches_dead_branch :
    (L.staleWitness.map len = [3]) ∧ (L.staleWitness.map (fun t => (abs t).length) = [1])
    ∧ (L.staleWitness.map (fun t => getItem t 2) = [.error .itsdbError])
    ∧ ((reloadAll L.staleWitness).map abs = [[[1]]]) := by
  refine ⟨by decide, by decide, by rfl, by decide⟩

/-! ## "batch processing …": the processor is called once per row of the list the input table shows -/

/-- for every schema, suite and `selector=` (explicit or the task default): `process` calls the processor
exactly once per row of the list the input relation SHOWS once the affected relations have been cleared
(pending rows included; nothing, if the input relation is itself an affected one), in list order, with that row's cell in the input column as datum and that row's key columns as `keys`. -/
theorem process_calls_once_in_order (sch : Schema) (s : Suite) (sel : Option (String × String)) (src : Option Suite)
    (cs : List (Nat × Dict)) (h : processCalls sch s sel src = .ok cs) :
    ∃ inFields items k,
      processInput sch (match src with | none => clearAt s (affectedIdx sch) | some q => q) sel = .ok (inFields, items)
      ∧ items = L.content (match src with | none => clearAt s (affectedIdx sch) | some q => q) k
      ∧ cs.length = items.length
      ∧ ∀ (i : Nat) (r : Row), items[i]? = some r → ∃ c, cs[i]? = some (c, keysOf inFields r) :=
  L.processCalls_spec sch s sel src cs h

/-- `process(source=…)` / `FieldMapper._i_id_map` (round 7): an input relation that has `i-id` among its keys is
taken as it is; for one keyed by `parse-id` but not `i-id` (result rows of another profile: the transfer and
generate tasks) the `i-id` the mapper uses for an input row is the i-id the source's parse relation lists for
that row's parse-id — the LAST such row, as in a dict — and -1 if it lists none. -/
theorem source_i_id_resolution (m : List (Nat × Nat)) (inFields : List FieldS) :
    (hasKey inFields "i-id" = true → ∀ items, augmentInput m inFields items = (inFields, items))
    ∧ (hasKey inFields "i-id" = false → hasKey inFields "parse-id" = true →
        ∀ r : Row, r.length = inFields.length → ∃ f' r', augmentInput m inFields [r] = (f', [r'])
          ∧ iidCellOf (keysOf f' r')
              = (mapLookup m (r.getD (inFields.findIdx (fun f => f.isKey && f.name == "parse-id")) cNone)).getD
                  (encInt (-1))) := by
  refine ⟨fun h items => by simp [augmentInput, h], fun h1 h2 r hl => L.augment_iid m inFields r hl h1 h2⟩

example : mapLookup [(5, 9), (7, 1), (5, 13)] 5 = some 13 ∧ mapLookup [(5, 9)] 6 = none := by decide

/-- ERROR PATH of the option plumbing: a `selector` naming a relation that is not in the schema, or a
column that is not a field of the relation, makes `process` raise ITSDBError BEFORE anything is cleared or
written — the suite (every table, pending rows, files) is exactly as it was. -/
theorem process_bad_selector_changes_nothing (sch : Schema) (s : Suite) (b : Int) (g : Bool) (script : List Resp)
    (tb col : String)
    (hbad : tableIndex sch tb = none
      ∨ ∃ ts, sch.find? (fun t => t.name == tb) = some ts ∧ ts.fields.any (fun f => f.name == col) = false) :
    ∀ src : Option Suite, processM sch s b g script (some (tb, col)) src = (s, some .itsdbError)
    ∧ processCalls sch s (some (tb, col)) src = .error .itsdbError :=
  L.processM_bad_selector sch s b g script tb col hbad

end Verif.C10
