/-
C10 — the arithmetic of Python slices that `Table._iterslice` relies on (self-contained: core Lean and
`Verif.Common.Py` only).

`_iterslice` walks the positions 0..len-1 in ascending order, keeps those that are members of
`range(start, stop, step)` and reverses the result for a negative step.  Main lemma
(`filter_positions_eq`): that is exactly enumerating `range(start, stop, step)`.
-/
import Verif.Common.Py

namespace Verif.C10.Slice
open Verif.Py

/-! ### membership bounds and monotonicity of `rangeList` -/

theorem mem_rangeList_pos {a b st x : Int} (hst : 0 < st) (hx : x ∈ rangeList a b st) :
    a ≤ x ∧ x < b := by
  unfold rangeList at hx
  rw [if_pos hst] at hx
  split at hx
  · rename_i hlt
    simp only [List.mem_map, List.mem_range] at hx
    obtain ⟨k, hk, rfl⟩ := hx
    have hq : 0 ≤ (b - a - 1) / st := Int.ediv_nonneg (by omega) (by omega)
    have hk' : (k : Int) ≤ (b - a - 1) / st := by omega
    have h1 : st * (k : Int) ≤ st * ((b - a - 1) / st) := Int.mul_le_mul_of_nonneg_left hk' (by omega)
    have h2 : st * ((b - a - 1) / st) ≤ b - a - 1 := Int.mul_ediv_self_le (by omega)
    have h0 : 0 ≤ st * (k : Int) := Int.mul_nonneg (by omega) (by omega)
    omega
  · simp at hx

theorem mem_rangeList_neg {a b st x : Int} (hst : st < 0) (hx : x ∈ rangeList a b st) :
    b < x ∧ x ≤ a := by
  unfold rangeList at hx
  rw [if_neg (by omega), if_pos hst] at hx
  split at hx
  · rename_i hlt
    simp only [List.mem_map, List.mem_range] at hx
    obtain ⟨k, hk, rfl⟩ := hx
    have hq : 0 ≤ (a - b - 1) / (-st) := Int.ediv_nonneg (by omega) (by omega)
    have hk' : (k : Int) ≤ (a - b - 1) / (-st) := by omega
    have h1 : (-st) * (k : Int) ≤ (-st) * ((a - b - 1) / (-st)) :=
      Int.mul_le_mul_of_nonneg_left hk' (by omega)
    have h2 : (-st) * ((a - b - 1) / (-st)) ≤ a - b - 1 := Int.mul_ediv_self_le (by omega)
    have h3 : (-st) * (k : Int) = -(st * (k : Int)) := by rw [Int.neg_mul]
    have h0 : 0 ≤ (-st) * (k : Int) := Int.mul_nonneg (by omega) (by omega)
    omega
  · simp at hx

theorem pairwise_map_range (f : Nat → Int) (R : Int → Int → Prop) (n : Nat)
    (h : ∀ i j : Nat, i < j → R (f i) (f j)) : ((List.range n).map f).Pairwise R := by
  rw [List.pairwise_map]
  exact List.Pairwise.imp (fun {i j} hij => h i j hij) List.pairwise_lt_range

/-- for a positive step the range is strictly ascending -/
theorem rangeList_asc {a b st : Int} (hst : 0 < st) : (rangeList a b st).Pairwise (· < ·) := by
  unfold rangeList
  rw [if_pos hst]
  split
  · apply pairwise_map_range
    intro i j hij
    have : st * (i : Int) < st * (j : Int) := Int.mul_lt_mul_of_pos_left (by omega) hst
    omega
  · exact List.Pairwise.nil

/-- for a negative step the range is strictly descending -/
theorem rangeList_desc {a b st : Int} (hst : st < 0) : (rangeList a b st).Pairwise (· > ·) := by
  unfold rangeList
  rw [if_neg (by omega), if_pos hst]
  split
  · apply pairwise_map_range
    intro i j hij
    have : (-st) * (i : Int) < (-st) * (j : Int) := Int.mul_lt_mul_of_pos_left (by omega) (by omega)
    rw [Int.neg_mul, Int.neg_mul] at this
    show a + st * (i : Int) > a + st * (j : Int)
    omega
  · exact List.Pairwise.nil

/-! ### filtering the ascending positions by membership in an ascending list enumerates the list -/

theorem filterMap_congr' {α β} (f g : α → Option β) (l : List α) (h : ∀ x ∈ l, f x = g x) :
    l.filterMap f = l.filterMap g := by
  induction l with
  | nil => rfl
  | cons x xs ih =>
    simp only [List.filterMap_cons, h x (by simp)]
    rw [ih (fun y hy => h y (by simp [hy]))]

theorem filter_zipIdx_sorted {α} (A : List α) (k : Nat) (L : List Nat)
    (hs : L.Pairwise (· < ·)) (hb : ∀ x ∈ L, k ≤ x ∧ x < k + A.length) :
    ((A.zipIdx k).filter (fun p => L.contains p.2)).map (·.1) = L.filterMap (fun i => A[i - k]?) := by
  induction A generalizing k L with
  | nil =>
    cases L with
    | nil => rfl
    | cons l ls => have := hb l (by simp); simp at this; omega
  | cons a as ih =>
    simp only [List.zipIdx_cons]
    cases L with
    | nil => simp
    | cons l ls =>
      have hl := hb l (by simp)
      rw [List.pairwise_cons] at hs
      obtain ⟨hlt, hss⟩ := hs
      by_cases hlk : l = k
      · subst hlk
        -- position l is kept; the later positions only see `ls`
        have hrest : (as.zipIdx (l + 1)).filter (fun p => (l :: ls).contains p.2)
            = (as.zipIdx (l + 1)).filter (fun p => ls.contains p.2) := by
          apply List.filter_congr
          intro p hp
          have := List.le_snd_of_mem_zipIdx hp
          have hne : p.2 ≠ l := by omega
          simp [hne]
        rw [List.filter_cons, if_pos (by simp), List.map_cons, hrest,
          ih (l + 1) ls hss (fun x hx => by
            have := hb x (by simp [hx]); have := hlt x hx; simp at *; omega)]
        simp only [List.filterMap_cons, Nat.sub_self, List.getElem?_cons_zero]
        congr 1
        apply filterMap_congr'
        intro x hx
        have := hlt x hx
        have h2 : x - l = (x - (l + 1)) + 1 := by omega
        rw [h2, List.getElem?_cons_succ]
      · -- position k is not in L
        have hk : ¬ (l :: ls).contains k = true := by
          simp only [List.contains_iff_mem, List.mem_cons, not_or]
          refine ⟨fun h => hlk h.symm, fun hm => ?_⟩
          have := hlt k hm; omega
        rw [List.filter_cons, if_neg hk,
          ih (k + 1) (l :: ls) (List.pairwise_cons.mpr ⟨hlt, hss⟩) (fun x hx => by
            have h1 := hb x hx
            simp only [List.mem_cons] at hx
            rcases hx with rfl | hx
            · simp at *; omega
            · have := hlt x hx; simp at *; omega)]
        apply filterMap_congr'
        intro x hx
        have h1 : k + 1 ≤ x := by
          simp only [List.mem_cons] at hx
          rcases hx with rfl | hx
          · omega
          · have := hlt x hx; omega
        have h2 : x - k = (x - (k + 1)) + 1 := by omega
        rw [h2, List.getElem?_cons_succ]

/-- positions/elements as `_enum_rows` yields them: `(i, A[i])` -/
def enum {α} (A : List α) : List (Nat × α) := A.zipIdx.map (fun p => (p.2, p.1))

theorem contains_toNat (idx : List Int) (h0 : ∀ x ∈ idx, 0 ≤ x) (i : Nat) :
    idx.contains (i : Int) = (idx.map Int.toNat).contains i := by
  rw [Bool.eq_iff_iff]
  simp only [List.contains_iff_mem, List.mem_map]
  constructor
  · intro h; exact ⟨(i : Int), h, by simp⟩
  · rintro ⟨x, hx, hxi⟩
    have := h0 x hx
    have : x = (i : Int) := by omega
    rw [← this]; exact hx

/-- MAIN LEMMA.  `A` a list of length `n`, `(a, b, st)` slice indices adjusted to `n` (so `0 ≤ a`, `b ≤ n`
for a positive step and `-1 ≤ b`, `a ≤ n-1` for a negative one).  Keeping, in ascending position order,
the elements whose position is a member of `range(a, b, st)` — reversed when `st < 0` — is
`[A[i] for i in range(a, b, st)]`. -/
theorem filter_positions_eq {α} (A : List α) (a b st : Int) (hst : st ≠ 0)
    (hpos : 0 < st → 0 ≤ a ∧ b ≤ A.length) (hneg : st < 0 → -1 ≤ b ∧ a ≤ (A.length : Int) - 1) :
    (let rs := ((enum A).filter (fun p => (rangeList a b st).contains (p.1 : Int))).map (·.2)
     if st < 0 then rs.reverse else rs)
      = (rangeList a b st).filterMap (fun i => A[i.toNat]?) := by
  have hnn : ∀ x ∈ rangeList a b st, 0 ≤ x ∧ x < A.length := by
    intro x hx
    rcases Int.lt_or_gt_of_ne hst with h | h
    · have := mem_rangeList_neg h hx; have := hneg h; omega
    · have := mem_rangeList_pos h hx; have := hpos h; omega
  -- in terms of natural-number positions
  have hrs : ((enum A).filter (fun p => (rangeList a b st).contains (p.1 : Int))).map (·.2)
      = ((A.zipIdx 0).filter (fun p => ((rangeList a b st).map Int.toNat).contains p.2)).map (·.1) := by
    unfold enum
    rw [List.filter_map, List.map_map]
    congr 1
    apply List.filter_congr
    intro p _
    exact contains_toNat _ (fun x hx => (hnn x hx).1) p.2
  have hrhs : (rangeList a b st).filterMap (fun i => A[i.toNat]?)
      = ((rangeList a b st).map Int.toNat).filterMap (fun i => A[i - 0]?) := by
    rw [List.filterMap_map]; rfl
  simp only
  rw [hrs, hrhs]
  rcases Int.lt_or_gt_of_ne hst with h | h
  · -- negative step: the reversed index list is ascending
    rw [if_pos h]
    have hc : (fun (p : α × Nat) => ((rangeList a b st).map Int.toNat).contains p.2)
        = (fun p => ((rangeList a b st).map Int.toNat).reverse.contains p.2) := by
      funext p; rw [Bool.eq_iff_iff]; simp
    rw [hc, filter_zipIdx_sorted A 0 _ ?_ ?_, List.filterMap_reverse, List.reverse_reverse]
    · rw [List.pairwise_reverse, List.pairwise_map]
      exact List.Pairwise.imp_of_mem (fun {x y} hx hy hxy => by
        have := (hnn x hx).1; have := (hnn y hy).1; show y.toNat < x.toNat; omega) (rangeList_desc h)
    · intro x hx
      simp only [List.mem_reverse, List.mem_map] at hx
      obtain ⟨y, hy, rfl⟩ := hx
      have := hnn y hy; omega
  · rw [if_neg (by omega)]
    apply filter_zipIdx_sorted
    · rw [List.pairwise_map]
      exact List.Pairwise.imp_of_mem (fun {x y} hx hy hxy => by
        have := (hnn x hx).1; have := (hnn y hy).1; show x.toNat < y.toNat; omega) (rangeList_asc h)
    · intro x hx
      simp only [List.mem_map] at hx
      obtain ⟨y, hy, rfl⟩ := hx
      have := hnn y hy; omega

end Verif.C10.Slice
