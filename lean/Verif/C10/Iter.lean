/-
C10 — round 6 additions to the executable model (core Lean only):

* `Table.__iter__` / `_enum_rows` as the GENERATOR it is (lazy: one `next()` at a time over the live
  `_rows` list, its own file handle, `indices` computed once when the generator starts), so that an
  iteration held across a table operation is inside the model;
* the calls `TestSuite.process` makes to the processor (`cpu.process_item(datum, keys=keys_dict)`), with the
  `selector=` option;
* what a fresh `TestSuite` on the same directory shows.
-/
import Verif.C10.Mapper

namespace Verif.C10

/-! ### lazy iteration -/

/-- state of a running `_enum_rows` generator: the position its `enumerate(self._rows)` loop has reached,
the lines its own file handle (`__iter__` opens one per iteration, 1c0252f) has not read yet, and
`len(self._rows)` when the generator started (`indices = range(*slice(None).indices(len(self._rows)))`
is computed once, positions outside it are skipped). -/
structure It where
  pos   : Nat
  fh    : List Row
  bound : Nat
deriving Repr, DecidableEq

/-- the first `next()` opens the file and fixes `indices` -/
def iterStart (t : T) : It := ⟨0, t.file, t.rows.length⟩

/-- the loop of `_enum_rows` from position `pos` over what is left of the CURRENT `_rows` until the next
`yield`: one file line is read per position ("always read next line until EOF to keep in sync"), a position
outside `indices` is skipped, an in-memory row wins over the line, a placeholder after EOF is skipped. -/
def scan (bound : Nat) : Nat → List (Option Row) → List Row → Option (Row × It)
  | _, [], _ => none
  | pos, o :: rest, fh =>
    if pos < bound then
      match o.or fh.head? with
      | some r => some (r, ⟨pos + 1, fh.tail, bound⟩)
      | none => scan bound (pos + 1) rest fh.tail
    else scan bound (pos + 1) rest fh.tail

/-- `next(it)` while the table's `_rows` is `rows` (`enumerate` looks at the live list) -/
def itNext (rows : List (Option Row)) (it : It) : Option (Row × It) :=
  scan it.bound it.pos (rows.drop it.pos) it.fh

/-- everything the loop still yields from position `pos` on (`list(it)` with `_rows` not changing any more) -/
def drainScan (bound : Nat) : Nat → List (Option Row) → List Row → List Row
  | _, [], _ => []
  | pos, o :: rest, fh =>
    (if pos < bound then (o.or fh.head?).toList else []) ++ drainScan bound (pos + 1) rest fh.tail

def itDrain (rows : List (Option Row)) (it : It) : List Row :=
  drainScan it.bound it.pos (rows.drop it.pos) it.fh

/-- `hit = iter(t); first = list(islice(hit, 1)); <a table operation: t becomes t'>; rest = list(hit)`.
A generator that has raised StopIteration stays finished. -/
def heldIter (t t' : T) : List Row × List Row :=
  match itNext t.rows (iterStart t) with
  | none => ([], [])
  | some (r, it) => ([r], itDrain t'.rows it)

/-! ### what a fresh `TestSuite` on the same directory shows -/

/-- `list(itsdb.TestSuite(dir)[name])`: a new Table is built by `_sync_with_file` -/
def freshView (t : T) : List Row := abs (sync t)

/-! ### the processor calls of `TestSuite.process` -/

/-- `cpu.process_item(datum, keys=keys_dict)` for every input row (read after the affected relations were
cleared), in order: `datum = row[index[input_column]]`,
`keys_dict` = the key columns of the input relation by name. -/
def processCalls (sch : Schema) (s : Suite) (sel : Option (String × String) := none) (src : Option Suite := none) :
    Except Err (List (Nat × Dict)) :=
  match selectorOf sel, processInput sch (match src with | none => clearAt s (affectedIdx sch) | some q => q) sel with
  | .ok (_, inCol), .ok (inFields, items) =>
    let c := inFields.findIdx (fun f => f.name == inCol)
    .ok (items.map (fun r => (r.getD c cNone, keysOf inFields r)))
  | .error e, _ => .error e
  | _, .error e => .error e

/-! ### two TestSuite objects on one directory -/

/-- the relation files are shared: after ANOTHER suite wrote them (`disk` = that suite after its commit),
this suite's tables keep their own bookkeeping (`_rows`, counters) but read the new files -/
def adoptFiles (disk : Suite) (a : Suite) : Suite :=
  List.zipWith (fun d t => { t with file := d.file, gz := d.gz }) disk a

/-- `itsdb.TestSuite(dir)` on a directory whose relation files are those of `disk` -/
def freshSuite (disk : Suite) : Suite := reloadAll disk

end Verif.C10
