/- C10 line-protocol driver: `lake env lean --run Verif/C10/Driver.lean` -/
import Verif.Common.Proto
import Verif.C10.Model
import Verif.C10.Mapper
import Verif.C10.Iter
import Verif.C10.Compose
open Lean Verif.Proto Verif.C10 Verif.Py Verif.C10.Compose

namespace Verif.C10.Driver

def errTag : Err → String
  | .indexError => "IndexError"
  | .itsdbError => "ITSDBError"
  | .valueError => "ValueError"
  | .notImplemented => "NotImplementedError"
  | .keyError => "KeyError"
  | .assertionError => "AssertionError"
  | .unmodelled => "unmodelled"

def jRow (r : Row) : Json := jList jNat r
def jRows (rs : List Row) : Json := jList jRow rs

def jExc {α} (f : α → Json) : Except Err α → Json
  | .ok v => jOk (f v)
  | .error e => jErr (errTag e)

def jOptErr : Option Err → Json
  | none => Json.null
  | some e => Json.str (errTag e)

def ofRow (j : Json) : Except String Row := do
  (← j.getArr?).toList.mapM (·.getNat?)

def ofRows (j : Json) : Except String (List Row) := do
  (← j.getArr?).toList.mapM ofRow

def ofSlice (j : Json) : Except String Slice := do
  match (← j.getArr?).toList with
  | [a, b, c] => pure ⟨← optInt a, ← optInt b, ← optInt c⟩
  | _ => throw "bad slice"

def ofTable (j : Json) : Except String T := do
  let w ← getNat j "width"
  let file ← ofRows (← j.getObjVal? "file")
  let gz ← getBool j "gz"
  pure (sync { rows := [], pers := 0, vol := 0, file := file, gz := gz, width := w })

def ofCols (j : Json) : Except String (List (Nat × Nat)) := do
  (← j.getArr?).toList.mapM (fun p => do
    match (← p.getArr?).toList with
    | [c, v] => pure (← c.getNat?, ← v.getNat?)
    | _ => throw "bad col")

def ofProduced (j : Json) : Except String (List (Nat × Row)) := do
  (← j.getArr?).toList.mapM (fun p => do
    match (← p.getArr?).toList with
    | [k, r] => pure (← k.getNat?, ← ofRow r)
    | _ => throw "bad produced")

def ofDict (j : Json) : Except String Dict := do
  (← j.getArr?).toList.mapM (fun p => do
    match (← p.getArr?).toList with
    | [k, v] => pure (← k.getStr?, ← v.getNat?)
    | _ => throw "bad dict entry")

def ofResp (j : Json) : Except String Resp := do
  let top ← ofDict (← j.getObjVal? "top")
  let results ← match j.getObjVal? "results" with
    | .ok (Json.null) => pure none
    | .ok v => do pure (some (← (← v.getArr?).toList.mapM ofDict))
    | .error _ => pure none
  let run ← match j.getObjVal? "run" with
    | .ok (Json.null) => pure none
    | .ok v => do pure (some (← ofDict v))
    | .error _ => pure none
  let chart ← (← getArr j "chart").mapM ofDict
  pure { top, results, run, chart }

def ofSchema (j : Json) : Except String Schema := do
  (← j.getArr?).toList.mapM (fun t => do
    let name ← getStr t "name"
    let fields ← (← getArr t "fields").mapM (fun f => do
      pure ({ name := ← getStr f "name", isInt := ← getBool f "int", isKey := ← getBool f "key" } : FieldS))
    pure ({ name, fields } : TableS))

/-- `selector=`: absent / null = the task default -/
def ofSel (j : Json) : Except String (Option (String × String)) :=
  match j.getObjVal? "sel" with
  | .ok (Json.null) => pure none
  | .ok v => do
    match (← v.getArr?).toList with
    | [a, b] => pure (some (← a.getStr?, ← b.getStr?))
    | _ => throw "bad selector"
  | .error _ => pure none

/-- `source=`: absent / null = this suite; else the tables of the source profile (same schema) -/
def ofSrc (j : Json) : Except String (Option Suite) :=
  match j.getObjVal? "src" with
  | .ok (Json.null) => pure none
  | .ok v => do pure (some (← (← v.getArr?).toList.mapM ofTable))
  | .error _ => pure none

/-- one step of a history on the suite -/
def doStep1 (sch : Schema) (s : Suite) (j : Json) : Except String (Suite × Option Err) := do
  let k ← getStr j "k"
  match k with
  | "commit" => pure (commitAll s)
  | "reload" => pure (reloadAll s, none)
  | "reopen" => pure (reloadAll s, none)
  | "noop" => pure (s, none)          -- something happened to ANOTHER TestSuite object
  | "alias" =>
    -- rows read from a table (`src[i]` / `src[a:b:c]`) and stored into a table: rows are values
    let ti ← getNat j "t"
    let si ← getNat j "src"
    let opk ← getStr j "op"
    match s[si]? with
    | none => throw "bad source table"
    | some src =>
      if opk == "append" || opk == "setitem" then
        match getItem src (← getInt j "si") with
        | .error e => pure (s, some e)
        | .ok r =>
          if opk == "append" then pure (stepAt s ti (Op.append r))
          else pure (stepAt s ti (Op.setItem (← getInt j "i") r))
      else
        match iterSlice src (← ofSlice (← j.getObjVal? "ssl")) with
        | .error e => pure (s, some e)
        | .ok rs =>
          if opk == "extend" then pure (stepAt s ti (Op.extend rs))
          else pure (stepAt s ti (Op.setSlice (← ofSlice (← j.getObjVal? "sl")) rs))
  | "process" =>
    let b ← getInt j "b"
    let g ← getBool j "gz"
    let script ← (← getArr j "script").mapM ofResp
    pure (processM sch s b g script (← ofSel j) (← ofSrc j))
  | _ =>
    let ti ← getNat j "t"
    let op : Op ← match k with
      | "append" => do pure (Op.append (← ofRow (← j.getObjVal? "row")))
      | "extend" => do pure (Op.extend (← ofRows (← j.getObjVal? "rows")))
      | "setitem" => do pure (Op.setItem (← getInt j "i") (← ofRow (← j.getObjVal? "row")))
      | "setslice" => do pure (Op.setSlice (← ofSlice (← j.getObjVal? "sl")) (← ofRows (← j.getObjVal? "rows")))
      | "update" => do pure (Op.update (← getInt j "i") (← ofCols (← j.getObjVal? "cols")))
      | "clear" => pure Op.clear
      | _ => throw s!"bad step {k}"
    pure (stepAt s ti op)

/-! ### the composed model (real files: C09 + C08) on the same steps -/

def ofDT (s : String) : Except String C08.DType :=
  match s with
  | ":integer" => pure .integer
  | ":string" => pure .string
  | ":date" => pure .date
  | _ => throw s!"bad datatype {s}"

def ofFields09 (t : Json) : Except String (List C09.Field) := do
  (← getArr t "fields").mapM (fun f => do
    pure ({ name := (← getStr f "name").toList, dt := ← ofDT (← getStr f "dt") } : C09.Field))

/-- the relation as `tsdb.write` leaves it for the initial rows, and a table synchronized with it -/
def initCT (cd : Codec) (fields : List C09.Field) (t : T) : Except String CT := do
  let ct0 : CT := { t := t, rel := { tx := some ⟨[], 0⟩ }, fields := fields }
  match writeRows cd 1 ct0 false t.gz t.file with
  | .error _ => throw "initial rows cannot be written"
  | .ok rel =>
    match syncC cd { ct0 with rel := rel } with
    | .error _ => throw "initial rows cannot be read back"
    | .ok ct => pure ct

def doStepC1 (cd : Codec) (sch : Schema) (now : Nat) (cs : CSuite) (j : Json) :
    Except String ((CSuite × Nat) × Option Err) := do
  let k ← getStr j "k"
  match k with
  | "commit" => let (cs', e) := commitAllC cd now cs; pure ((cs', now + cs.length), e)
  | "reload" => let (cs', e) := reloadAllC cd cs; pure ((cs', now), e)
  | "reopen" => let (cs', e) := reloadAllC cd cs; pure ((cs', now), e)
  | "noop" => pure ((cs, now), none)
  | "alias" =>
    let ti ← getNat j "t"
    let si ← getNat j "src"
    let opk ← getStr j "op"
    match cs[si]? with
    | none => throw "bad source table"
    | some src =>
      if opk == "append" || opk == "setitem" then
        match getItem src.t (← getInt j "si") with
        | .error e => pure ((cs, now), some e)
        | .ok r =>
          if opk == "append" then
            let (cs', e) := stepAtC cs ti (Op.append r)
            pure ((cs', now), e)
          else
            let i ← getInt j "i"
            let (cs', e) := stepAtC cs ti (Op.setItem i r)
            pure ((cs', now), e)
      else
        match iterSlice src.t (← ofSlice (← j.getObjVal? "ssl")) with
        | .error e => pure ((cs, now), some e)
        | .ok rs =>
          if opk == "extend" then
            let (cs', e) := stepAtC cs ti (Op.extend rs)
            pure ((cs', now), e)
          else
            let sl ← ofSlice (← j.getObjVal? "sl")
            let (cs', e) := stepAtC cs ti (Op.setSlice sl rs)
            pure ((cs', now), e)
  | "process" =>
    let b ← getInt j "b"
    let g ← getBool j "gz"
    let script ← (← getArr j "script").mapM ofResp
    pure (processC cd sch now cs b g script (← ofSel j) (← ofSrc j))
  | _ =>
    let ti ← getNat j "t"
    let op : Op ← match k with
      | "append" => do pure (Op.append (← ofRow (← j.getObjVal? "row")))
      | "extend" => do pure (Op.extend (← ofRows (← j.getObjVal? "rows")))
      | "setitem" => do pure (Op.setItem (← getInt j "i") (← ofRow (← j.getObjVal? "row")))
      | "setslice" => do pure (Op.setSlice (← ofSlice (← j.getObjVal? "sl")) (← ofRows (← j.getObjVal? "rows")))
      | "update" => do pure (Op.update (← getInt j "i") (← ofCols (← j.getObjVal? "cols")))
      | "clear" => pure Op.clear
      | _ => throw s!"bad step {k}"
    let (cs', e) := stepAtC cs ti op
    pure ((cs', now), e)

def doStepC (cd : Codec) (sch : Schema) (now : Nat) (cs : CSuite) (j : Json) :
    Except String ((CSuite × Nat) × Option Err) := do
  match getStr j "k" with
  | .ok "fcommit" =>
    let subs ← getArr j "ops"
    let (cs0, e0) := reloadAllC cd cs
    match e0 with
    | some e => pure ((cs0, now), some e)
    | none =>
      let cs1 ← subs.foldlM (fun acc sub => do
        let ((acc', _), _) ← doStepC1 cd sch now acc sub
        pure acc') cs0
      let (cs2, e) := commitAllC cd now cs1
      pure ((cs2, now + cs1.length), e)
  | _ => doStepC1 cd sch now cs j

/-- what is on disk for a relation: the raw lines of the active file and which physical forms exist;
`same` = the composed table's bookkeeping equals the abstract model's table -/
def obsRel (ct : CT) (t : Option T) : Json :=
  Json.mkObj [("lines", jList cps ((ct.rel.read).getD [])),
              ("tx", Json.bool ct.rel.tx.isSome), ("gzf", Json.bool ct.rel.gz.isSome),
              ("same", Json.bool (decide (some ct.t = t)))]

/-- one step; `fcommit`: a fresh TestSuite (it sees the committed relations) edits one table and commits,
then this suite reloads / is re-opened (an operation that raises over there is skipped) -/
def doStep (sch : Schema) (s : Suite) (nls : List Bool) (j : Json) :
    Except String ((Suite × Option Err) × List Bool) := do
  match getStr j "k" with
  | .ok "commit" => pure (commitAllNl s nls, nlAfterCommit s nls)
  | .ok "process" =>
    -- (the flushes and the final write_database terminate every line they write)
    let r ← doStep1 sch s j
    pure (r, if r.2.isNone then nls.map (fun _ => true) else nls)
  | .ok "fcommit" =>
    let subs ← getArr j "ops"
    -- suite B is opened on the directory, edits, commits; suite A (this one, whatever its state) then sees
    -- B's files (`adoptFiles`) and reloads / is re-opened (theorem `reload_after_foreign_commit`)
    let b1 ← subs.foldlM (fun acc sub => do
      let (acc', _) ← doStep1 sch acc sub
      pure acc') (freshSuite s)
    let (b', e) := commitAllNl b1 nls
    match e with
    | some err => pure ((adoptFiles b' s, some err), nlAfterCommit b1 nls)
    | none => pure ((reloadAll (adoptFiles b' s), none), nlAfterCommit b1 nls)
  | _ => do pure (← doStep1 sch s j, nls)

def intRange (lo hi : Int) : List Int :=
  (List.range (hi - lo + 1).toNat).map (fun (k : Nat) => lo + (k : Int))

def obsTable (t : T) : Json :=
  let n : Int := len t
  Json.mkObj [
    ("n", jNat (len t)),
    ("it", jRows (abs t)),
    ("gi", jList (fun i => jExc jRow (getItem t i)) (intRange (-n - 1) n)),
    ("tx", Json.bool (inTransaction t)),
    ("f", jRows t.file),
    ("fr", jRows (freshView t)),
    ("gz", Json.bool t.gz)]

def doQuery (s : Suite) (j : Json) : Except String Json := do
  let ti ← getNat j "t"
  let q ← getStr j "q"
  match s[ti]? with
  | none => throw "bad table"
  | some t =>
    match q with
    | "slice" => do pure (jExc jRows (iterSlice t (← ofSlice (← j.getObjVal? "sl"))))
    | "select" => do
      let cols ← (← getArr j "cols").mapM (·.getNat?)
      pure (jExc jRows (select t cols))
    | "idx" => do pure (jExc jRow (getItem t (← getInt j "i")))
    | _ => throw "bad query"

def obs (s : Suite) (e : Option Err) (ot : List Nat) (qs : List Json) : Except String Json := do
  let q ← qs.mapM (doQuery s)
  pure (Json.mkObj [("e", jOptErr e), ("intx", Json.bool (inTransactionS s)),
                    ("T", jList obsTable (ot.filterMap (fun k => s[k]?))), ("Q", Json.arr q.toArray)])

def getNats (j : Json) (k : String) : List Nat :=
  match getArr j k with
  | .ok l => l.filterMap (fun x => match x.getNat? with | .ok n => some n | .error _ => none)
  | .error _ => []

/-- what the harness's `callback` records at every item: shown rows, stored rows, pending flag of
every table -/
def obsPhase (s : Suite) : Json :=
  jList (fun t => Json.mkObj [("it", jRows (abs t)), ("f", jRows t.file), ("tx", Json.bool (inTransaction t))]) s

def phasesOf (sch : Schema) (s : Suite) (j : Json) : Except String Json := do
  match getStr j "k" with
  | .ok "process" =>
    let b ← getInt j "b"
    let script ← (← getArr j "script").mapM ofResp
    pure (jList obsPhase (processPhases sch s b script (← ofSel j) (← ofSrc j)))
  | _ => pure Json.null

/-- an iterator obtained (and advanced once) before a table operation and consumed after it -/
def heldOf (s s' : Suite) (j : Json) : Json :=
  match getBool j "hold", getNat j "t" with
  | .ok true, .ok k =>
    match s[k]?, s'[k]? with
    | some t, some t' => let (a, b) := heldIter t t'; Json.arr #[jRows a, jRows b]
    | _, _ => Json.null
  | _, _ => Json.null

/-- the processor calls of a completed `process`: datum cell and key columns per item -/
def callsOf (sch : Schema) (s : Suite) (e : Option Err) (j : Json) : Except String Json := do
  match getStr j "k", e with
  | .ok "process", none =>
    match processCalls sch s (← ofSel j) (← ofSrc j) with
    | .ok cs => pure (jList (fun c => Json.arr #[jNat c.1, jList (fun p => Json.arr #[Json.str p.1, jNat p.2]) c.2]) cs)
    | .error _ => pure Json.null
  | _, _ => pure Json.null

def obsC (cs : CSuite) (s : Suite) (e : Option Err) (ot : List Nat) : Json :=
  Json.mkObj [("e", jOptErr e), ("T", jList (fun k => match cs[k]? with
    | some ct => obsRel ct s[k]?
    | none => Json.null) ot)]

def runSteps (cd : Codec) (sch : Schema) : Suite → List Bool → CSuite → Nat → List Json → Except String (List Json)
  | _, _, _, _, [] => pure []
  | s, nls, cs, now, j :: js => do
    let ((s', e), nls') ← doStep sch s nls j
    let ((cs', now'), ec) ← doStepC cd sch now cs j
    let qs := match getArr j "qs" with | .ok l => l | .error _ => []
    let o ← obs s' e (getNats j "ot") qs
    let ph ← phasesOf sch s j
    let o := (o.setObjVal! "P" ph).setObjVal! "R" (obsC cs' s' ec (getNats j "ot"))
    let o := (o.setObjVal! "held" (heldOf s s' j)).setObjVal! "calls" (← callsOf sch s e j)
    let rest ← runSteps cd sch s' nls' cs' now' js
    pure (o :: rest)

def handle (j : Json) : Except String Json := do
  let tables ← (← getArr j "tables").mapM ofTable
  let schj ← getArr j "schema"
  let sch ← ofSchema (Json.arr schj.toArray)
  let cd : Codec := { tbl := ← (← getArr j "codec").mapM ofCps }
  let fs ← schj.mapM ofFields09
  let cs ← (tables.zip fs).mapM (fun p => initCT cd p.2 p.1)
  let steps ← getArr j "steps"
  let init ← obs tables none (List.range tables.length) []
  let init := (init.setObjVal! "P" Json.null).setObjVal! "R" (obsC cs tables none (List.range tables.length))
  let init := (init.setObjVal! "held" Json.null).setObjVal! "calls" Json.null
  let nls := (← getArr j "tables").map (fun t => match getBool t "nl" with | .ok b => b | .error _ => true)
  let rest ← runSteps cd sch tables nls cs 10 steps
  pure (Json.arr (init :: rest).toArray)

end Verif.C10.Driver

def main : IO Unit := Verif.Proto.serve Verif.C10.Driver.handle
