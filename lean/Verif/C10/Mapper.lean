/-
C10 — model of `FieldMapper.map/cleanup`, `tsdb.make_record` and of `TestSuite.process` driven by a
scripted processor, on top of the table model (Model.lean).

Cells stay natural numbers, but with a fixed coding shared with the harness so that the mapper can
compute with the integer cells it must compute with (`parse-id = max(parse-id + 1, i-id)`,
`readings = len(results)`, defaults `-1`): `0` = None, `4n+1` = the integer `n ≥ 0`, `4n+2` = the integer
`-n < 0`, `4k+3` = any other value (string, date) interned by the harness as `k`.

The key lists (`_parse_keys`, `_result_keys`, `_run_keys`, `affected_tables`) and the default task
selector are the LIVE ones (`Verif.Generated.TablesC10`).

Not modelled (the model answers `unmodelled`, the generators stay away): responses with `tokens`, a run
without `end` (`datetime.now()`); S-expression cells (result `flags`, edge daughters/alternates) are abstract:
the harness hands the model the cell of the formatted text; the `_i_id_map` branch of `_map_parse` (input rows keyed by `parse-id` but not by
`i-id`, i.e. the transfer/generate tasks).
-/
import Verif.C10.Model
import Verif.Generated.TablesC10

namespace Verif.C10
open Verif.Tables

/-! ### cell coding -/

def cNone : Nat := 0

def encInt (i : Int) : Nat := if i ≥ 0 then 4 * i.toNat + 1 else 4 * (-i).toNat + 2

def decInt (n : Nat) : Option Int :=
  if n % 4 = 1 then some ((n / 4 : Nat) : Int)
  else if n % 4 = 2 then some (-((n / 4 : Nat) : Int))
  else none

/-! ### schema and dictionaries -/

structure FieldS where
  name  : String
  isInt : Bool
  isKey : Bool
deriving Repr

structure TableS where
  name   : String
  fields : List FieldS
deriving Repr

/-- relations in schema order (= order of the `Suite`) -/
abbrev Schema := List TableS

/-- a Python dict with string keys: association list, the LAST assignment of a key wins -/
abbrev Dict := List (String × Nat)

def dget (d : Dict) (k : String) : Option Nat := (d.reverse.find? (fun p => p.1 == k)).map (·.2)

/-- `{k: d[k] for k in keys if k in d}` as assignments in the order of `keys` -/
def pick (keys : List String) (d : Dict) : Dict := keys.filterMap (fun k => (dget d k).map (fun v => (k, v)))

/-- `Row(fields, make_record(colmap, fields))`: column order of the relation, a missing column is None,
and None in an `:integer` column shows the default `-1` (`tsdb.format`). -/
def makeRecord (fields : List FieldS) (d : Dict) : Row :=
  fields.map (fun f =>
    let c := (dget d f.name).getD cNone
    if f.isInt && c == cNone then encInt (-1) else c)

def tableIndex (sch : Schema) (name : String) : Option Nat := sch.findIdx? (fun t => t.name == name)

/-! ### responses and the mapper -/

/-- what the scripted processor returns for one item (besides `keys`, which `process` supplies) -/
structure Resp where
  top     : Dict                      -- scalar entries of the response (readings, total, error, …)
  results : Option (List Dict)        -- `response['results']`, if present
  run     : Option Dict               -- `response['run']`, if present
  chart   : List Dict                 -- `response.get('chart', [])`
  extra   : Bool := false             -- the response has `tokens` / a result has `flags`: not modelled
deriving Repr

/-- `FieldMapper` state: `_parse_id`, `_runs` (insertion-ordered dict), `_last_run_id` -/
structure MState where
  parseId : Int := -1
  runs    : List (Int × Dict) := []
  lastRun : Int := -1
deriving Repr

def intCell (c : Nat) : Except Err Int :=
  match decInt c with
  | some i => .ok i
  | none => .error .assertionError

def upsert (runs : List (Int × Dict)) (k : Int) (v : Dict) : List (Int × Dict) :=
  if runs.any (fun p => p.1 == k) then runs.map (fun p => if p.1 == k then (k, v) else p) else runs ++ [(k, v)]

/-- the `i-id` of a response: `keys['i-id']`, else -1 (the `_i_id_map` branch: see `augmentInput`) -/
def iidCellOf (keys : Dict) : Nat := (dget keys "i-id").getD (encInt (-1))

/-- `FieldMapper._map_parse`: the patch for the parse relation and the new `_parse_id` -/
def mapParse (st : MState) (keys : Dict) (r : Resp) : Except Err (Dict × Int) :=
  match intCell (iidCellOf keys) with                     -- `assert isinstance(i_id, int)`
  | .error e => .error e
  | .ok iid =>
    let pid := max (st.parseId + 1) iid
    let runIdCell := match r.run with
      | none => encInt (-1)
      | some run => (dget run "run-id").getD (encInt (-1))
    -- `if 'readings' not in response and 'results' in response: response['readings'] = len(results)`
    let top := match dget r.top "readings", r.results with
      | none, some rs => r.top ++ [("readings", encInt rs.length)]
      | _, _ => r.top
    .ok ([("i-id", iidCellOf keys), ("parse-id", encInt pid), ("run-id", runIdCell)] ++ pick c10ParseKeys top, pid)

/-- `FieldMapper._map_result`; `flags`, if present, is stored as its S-expression text (the harness hands the
model the cell of `util.SExpr.format(flags)`: the formatting function itself is outside the model) -/
def mapResult (pid : Int) (res : Dict) : Dict :=
  [("parse-id", encInt pid)] ++ pick ["flags"] res ++ pick c10ResultKeys res

/-- `FieldMapper._map_edge`: `e-daughters` / `e-alternates` become their S-expression text when truthy, else
None (the harness hands the model the cell of `util.SExpr.format(…)` for a truthy value and None for a falsy
or missing one: the formatting function itself is outside the model) -/
def mapEdge (pid : Int) (e : Dict) : Except Err Dict :=
  let keep (k : String) := (dget e k).getD cNone
  .ok (e ++ [("parse-id", encInt pid), ("e-daughters", keep "e-daughters"), ("e-alternates", keep "e-alternates")])

def mapEdges (pid : Int) : List Dict → Except Err (List Dict)
  | [] => .ok []
  | e :: es =>
    match mapEdge pid e with
    | .error err => .error err
    | .ok d =>
      match mapEdges pid es with
      | .error err => .error err
      | .ok ds => .ok (d :: ds)

/-- the run bookkeeping of `FieldMapper.map`: `self._runs[run_id] = response['run']; self._last_run_id = run_id` -/
def stepRuns (st : MState) : Option Dict → Except Err MState
  | none => .ok st
  | some run =>
    if (dget run "end").isNone then .error .unmodelled      -- would be stamped with datetime.now()
    else match dget run "run-id" with
      | none => .ok { st with runs := upsert st.runs (-1) run, lastRun := -1 }
      | some c =>
        match intCell c with
        | .error e => .error e
        | .ok rid => .ok { st with runs := upsert st.runs rid run, lastRun := rid }

/-- `FieldMapper.map`: the transaction (relation name, column map) of one response, and the new state -/
def mapResponse (st : MState) (keys : Dict) (r : Resp) : Except Err (MState × List (String × Dict)) :=
  if r.extra then .error .unmodelled else
  match mapParse st keys r with
  | .error e => .error e
  | .ok (patch, pid) =>
    match mapEdges pid r.chart with
    | .error e => .error e
    | .ok edges =>
      match stepRuns { st with parseId := pid } r.run with
      | .error e => .error e
      | .ok st2 =>
        .ok (st2, [("parse", patch)] ++ (r.results.getD []).map (fun res => ("result", mapResult pid res))
                   ++ edges.map (fun d => ("edge", d)))

def insertByKey (p : Int × Dict) : List (Int × Dict) → List (Int × Dict)
  | [] => [p]
  | q :: qs => if p.1 ≤ q.1 then p :: q :: qs else q :: insertByKey p qs

/-- `FieldMapper.cleanup`: one run row per run id, ascending, only if the last run id is not -1 -/
def cleanup (st : MState) : List (String × Dict) :=
  if st.lastRun ≠ -1 then
    (st.runs.foldr insertByKey []).map (fun p =>
      ("run", [("run-id", (dget p.2 "run-id").getD (encInt (-1)))] ++ pick c10RunKeys p.2))
  else []

/-- `_add_row`'s row: `tsdb.make_record(data, ts.schema[name])` for each entry of a transaction;
an unknown relation is a `KeyError`. -/
def toRows (sch : Schema) : List (String × Dict) → List (Nat × Row) × Option Err
  | [] => ([], none)
  | (name, d) :: rest =>
    match tableIndex sch name, sch.find? (fun t => t.name == name) with
    | some k, some ts =>
      let (rs, e) := toRows sch rest
      ((k, makeRecord ts.fields d) :: rs, e)
    | _, _ => ([], some .keyError)

/-- `keys_dict` of an input row: its key columns by name -/
def keysOf (fields : List FieldS) (row : Row) : Dict :=
  (fields.zip row).filterMap (fun p => if p.1.isKey then some (p.1.name, p.2) else none)

/-- the rows produced item by item (one group per processed input row, in order), the final mapper
state, and the exception that stopped the loop, if any.  `pos` = number of items already processed
(the scripted processor answers item `pos` with `script[pos % len(script)]`). -/
def produceItems (sch : Schema) (inFields : List FieldS) (script : List Resp) :
    MState → Nat → List Row → List (List (Nat × Row)) × MState × Option Err
  | st, _, [] => ([], st, none)
  | st, pos, item :: items =>
    match script[pos % script.length]? with
    | none => ([], st, some .unmodelled)
    | some r =>
      -- `process` itself reads `len(response['results'])` (for its log line) before mapping
      if r.results.isNone then ([], st, some .keyError) else
      match mapResponse st (keysOf inFields item) r with
      | .error e => ([], st, some e)
      | .ok (st1, tx) =>
        match toRows sch tx with
        | (rows, some e) => ([rows], st1, some e)
        | (rows, none) =>
          let (gs, st2, e) := produceItems sch inFields script st1 (pos + 1) items
          (rows :: gs, st2, e)

/-- the mapper alone over the items (no schema, no rows): one transaction per processed item -/
def mapItems (inFields : List FieldS) (script : List Resp) :
    MState → Nat → List Row → List (List (String × Dict)) × MState × Option Err
  | st, _, [] => ([], st, none)
  | st, pos, item :: items =>
    match script[pos % script.length]? with
    | none => ([], st, some .unmodelled)
    | some r =>
      if r.results.isNone then ([], st, some .keyError) else
      match mapResponse st (keysOf inFields item) r with
      | .error e => ([], st, some e)
      | .ok (st1, tx) =>
        let (txs, st2, e) := mapItems inFields script st1 (pos + 1) items
        (tx :: txs, st2, e)

/-- the `i-id` of an input row as the mapper reads it (0 if its cell is not an integer: then mapping fails) -/
def itemId (inFields : List FieldS) (item : Row) : Int :=
  (decInt (iidCellOf (keysOf inFields item))).getD 0

/-- the `parse-id` cell of the parse entry a transaction starts with -/
def parsePidCell (tx : List (String × Dict)) : Option Nat :=
  match tx with
  | (n, p) :: _ => if n == "parse" then dget p "parse-id" else none
  | [] => none

/-- indices of the relations that processing invalidates (`affected_tables ∩ schema`) -/
def affectedIdx (sch : Schema) : List Nat :=
  (sch.zipIdx.filter (fun p => c10AffectedTables.contains p.1.name)).map (·.2)

/-- all row groups of a run: one per item, then the cleanup group (run rows) -/
def producedGroups (sch : Schema) (inFields : List FieldS) (script : List Resp) (items : List Row) :
    List (List (Nat × Row)) × Option Err :=
  match produceItems sch inFields script {} 0 items with
  | (gs, _, some e) => (gs, some e)
  | (gs, st, none) =>
    match toRows sch (cleanup st) with
    | (rows, e) => (gs ++ [rows], e)

/-- `process(selector=…)`: the given (table, column) pair, else the default task selector of the `parse` task -/
def selectorOf (sel : Option (String × String)) : Except Err (String × String) :=
  match sel with
  | some p => .ok p
  | none =>
    match c10TaskSelectors.find? (fun p => p.1 == "parse") with
    | none => .error .keyError
    | some (_, inTable, inCol) => .ok (inTable, inCol)

/-- the input relation (explicit `selector`, else the default task selector): its fields and the rows it
shows; `ITSDBError` if the relation or the input column is not in the schema — raised BEFORE anything is
cleared -/
def processInput (sch : Schema) (s : Suite) (sel : Option (String × String) := none) :
    Except Err (List FieldS × List Row) :=
  match selectorOf sel with
  | .error e => .error e
  | .ok (inTable, inCol) =>
    match tableIndex sch inTable, sch.find? (fun t => t.name == inTable) with
    | some k, some ts =>
      if !ts.fields.any (fun f => f.name == inCol) then .error .itsdbError else
      match s[k]? with
      | none => .error .itsdbError
      | some t => .ok (ts.fields, abs t)
    | _, _ => .error .itsdbError

/-- `FieldMapper(source=source)._i_id_map`: `dict(source.select_from('parse', ('parse-id', 'i-id'), cast=True))`
(pairs in row order; as a dict the LAST pair of a parse-id wins) -/
def iidMap (sch : Schema) (src : Suite) : List (Nat × Nat) :=
  match tableIndex sch "parse", sch.find? (fun t => t.name == "parse") with
  | some k, some ts =>
    match src[k]? with
    | none => []
    | some t =>
      let cp := ts.fields.findIdx (fun f => f.name == "parse-id")
      let ci := ts.fields.findIdx (fun f => f.name == "i-id")
      (abs t).map (fun r => (r.getD cp cNone, r.getD ci cNone))
  | _, _ => []

def mapLookup (m : List (Nat × Nat)) (k : Nat) : Option Nat := (m.reverse.find? (fun p => p.1 == k)).map (·.2)

def hasKey (inFields : List FieldS) (n : String) : Bool := inFields.any (fun f => f.isKey && f.name == n)

/-- the rule of `_map_parse` "`i-id` from the keys, else `_i_id_map[keys['parse-id']]`, else -1", expressed on the
input rows: an input relation keyed by `parse-id` but not by `i-id` (the transfer / generate tasks) gets a
synthetic last key column `i-id` holding the mapped id (or -1), which is what `iidCellOf ∘ keysOf` then reads -/
def augmentInput (m : List (Nat × Nat)) (inFields : List FieldS) (items : List Row) : List FieldS × List Row :=
  if hasKey inFields "i-id" || !hasKey inFields "parse-id" then (inFields, items)
  else
    let cp := inFields.findIdx (fun f => f.isKey && f.name == "parse-id")
    (inFields ++ [⟨"i-id", true, true⟩],
     items.map (fun r => r ++ [(mapLookup m (r.getD cp cNone)).getD (encInt (-1))]))

/-- the inputs of a run: `source=None` — this suite's input relation, read after the affected relations were
cleared; `source=q` — the input relation of ANOTHER suite (same schema), untouched by the clearing.  The
`_i_id_map` comes from the source's parse relation as it is when `process` starts. -/
def inputOf (sch : Schema) (s : Suite) (src : Option Suite) (sel : Option (String × String)) :
    Except Err (List FieldS × List Row) :=
  match processInput sch (match src with | none => clearAt s (affectedIdx sch) | some q => q) sel with
  | .error e => .error e
  | .ok (inFields, items) => .ok (augmentInput (iidMap sch (src.getD s)) inFields items)

/-- `TestSuite.process(cpu, selector=sel)` for a scripted `parse` processor: input relation and column from
the selector (default: the task selector; a bad one raises before anything is touched), affected relations
cleared, THEN the items read up front (`list(source[input_table])`: an input relation that is itself one of
the affected ones is already empty), every produced row added through `_add_row` (flush when more than `b` rows are pending),
database written, tables reloaded. -/
def processM (sch : Schema) (s : Suite) (b : Int) (g : Bool) (script : List Resp)
    (sel : Option (String × String) := none) (src : Option Suite := none) : Suite × Option Err :=
  match inputOf sch s src sel with
  | .error e => (s, some e)
  | .ok (inFields, items) =>
    match producedGroups sch inFields script items with
    | (gs, none) => process s b g (affectedIdx sch) gs.flatten
    | (gs, some e) =>
      match addRows (clearAt s (affectedIdx sch)) b gs.flatten with
      | (s1, some e1) => (s1, some e1)
      | (s1, none) => (s1, some e)

/-- the suites a `callback` sees: before the rows of item 0, 1, … are added (after the clearing and
whatever flushes happened so far) -/
def traceGroups (s : Suite) (b : Int) : List (List (Nat × Row)) → List Suite
  | [] => []
  | g :: gs =>
    s :: (match addRows s b g with
          | (s1, none) => traceGroups s1 b gs
          | (_, some _) => [])

/-- what the `callback` of `process` sees at item 0, 1, …: one suite per processed item -/
def processPhases (sch : Schema) (s : Suite) (b : Int) (script : List Resp)
    (sel : Option (String × String) := none) (src : Option Suite := none) : List Suite :=
  match inputOf sch s src sel with
  | .error _ => []
  | .ok (inFields, items) =>
    let gs := (producedGroups sch inFields script items).1
    (traceGroups (clearAt s (affectedIdx sch)) b gs).take items.length

/-- the parse ids a run assigns: `_parse_id = max(_parse_id + 1, i_id)` starting from `p` -/
def parseIds : Int → List Int → List Int
  | _, [] => []
  | p, i :: is => max (p + 1) i :: parseIds (max (p + 1) i) is

end Verif.C10
