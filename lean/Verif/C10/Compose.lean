/-
C10 — the COMPOSED model: the table bookkeeping of Model.lean on top of REAL relation files.

* the files are C09's (`Verif.C09.Model`): a relation is a plain and/or compressed line file with
  mtimes, `tsdb.write` is `C09.write` (overwrite/append × plain/gzip, one physical form), reading is
  `C09.readRaw` (text split at `\n` only, `split` of C08);
* records are C08's: a row stores the raw cell texts (`Row.data`), shows `C08.cast` of each, and is
  written as `join(row, fields)` = `C09.stage` of the cast values (`escape`, field defaults);
* `commit` takes exactly the decision of `TestSuite.commit` (append when only rows were added AND the
  relation is plain, else rewrite keeping the compressed form), `_sync_with_file` / reload / reopen and
  every access to a stored row read the file back through `readRaw` + `Row.__init__`.

The in-memory bookkeeping is the abstract table `T` itself (cells are codes); `Codec` says which raw cell
text a code stands for (the coding of Mapper.lean: 0 = None, 4n+1 / 4n+2 integers, 4k+3 = `tbl[k]`).
ComposeLemmas/ComposeProps prove that for well-formed records the composed table IS the abstract one
(bridge), so every theorem of Props.lean speaks about real file contents.  Core Lean only.
-/
import Verif.C09.Model
import Verif.C10.Model
import Verif.C10.Mapper

namespace Verif.C10.Compose
open Verif.C10
open Verif.C08 (Val DType)

/-- which raw cell text a non-integer, non-None cell code stands for -/
structure Codec where
  tbl : List (List Char)

/-- `Row.data[i]` of a cell code -/
def cellText (cd : Codec) (c : Nat) : List Char :=
  if c = 0 then []
  else match decInt c with
    | some i => C08.formatInt i
    | none => (cd.tbl[(c - 3) / 4]?).getD []

/-- the code of a raw cell text in a column of datatype `dt` (inverse of `cellText` on well-formed cells) -/
def codeCell (cd : Codec) (dt : DType) (raw : List Char) : Nat :=
  if raw.isEmpty then 0
  else
    let other := 4 * (cd.tbl.idxOf raw) + 3
    if dt = .integer then
      match C08.castInt raw with
      | .ok i => encInt i
      | .error _ => other
    else other

/-- what a Row shows for a raw cell: `tsdb.cast` (a cast error is the `ValueError` of `int()`) -/
def shown (dt : DType) (raw : List Char) : Except Err Val :=
  match C08.cast dt raw with
  | .val v => .ok v
  | .err _ => .error .valueError

/-- the values `join(row, fields)` iterates over -/
def typedRow (cd : Codec) (fields : List C09.Field) (r : Row) : Except Err (List Val) :=
  (fields.zip r).mapM (fun fc => shown fc.1.dt (cellText cd fc.2))

/-- `Row.__init__` on a cell of `split(line)`: `format(datatype, None)` for an empty cell, else the text -/
def rawOfRead (f : C09.Field) (o : Option (List Char)) : List Char :=
  match o with
  | none => C08.format f.dt .none
  | some s => s

/-- `Row(fields, split(line))`: `ITSDBError` for a wrong number of columns -/
def decodeRow (cd : Codec) (fields : List C09.Field) (rec : C09.RawRec) : Except Err Row :=
  if rec.length ≠ fields.length then .error .itsdbError
  else .ok ((fields.zip rec).map (fun fo => codeCell cd fo.1.dt (rawOfRead fo.1 fo.2)))

/-- the rows of the relation file as a table reads them -/
def fileRows (cd : Codec) (fields : List C09.Field) (rel : C09.Rel) : Except Err (List Row) :=
  match C09.readRaw rel with
  | .error _ => .error .itsdbError          -- TSDBError (missing file, invalid escape)
  | .ok recs => recs.mapM (decodeRow cd fields)

/-- a table on real files -/
structure CT where
  t      : T                   -- `_rows`, `_persistent_count`, `_volatile_index`; `t.file` = the rows read back
  rel    : C09.Rel
  fields : List C09.Field
deriving Repr

/-- `_sync_with_file` (and whatever is read from the file afterwards) -/
def syncC (cd : Codec) (ct : CT) : Except Err CT :=
  match fileRows cd ct.fields ct.rel with
  | .error e => .error e
  | .ok rows => .ok { ct with t := sync { ct.t with file := rows, gz := ct.rel.useGz } }

def errOf09 : C09.Err → Err
  | .notImplemented => .notImplemented
  | .valueError => .valueError
  | .keyError => .keyError
  | _ => .itsdbError

/-- `tsdb.write(path, name, data, fields, append=…, gzip=…)` with `data` rows of the table -/
def writeRows (cd : Codec) (now : Nat) (ct : CT) (append gzip : Bool) (data : List Row) : Except Err C09.Rel :=
  match data.mapM (typedRow cd ct.fields) with
  | .error e => .error e
  | .ok vals =>
    match C09.write now ct.rel { append := append, gzip := gzip, staged := C09.stage ct.fields vals } with
    | .error e => .error (errOf09 e)
    | .ok rel' => .ok rel'

/-- one table's part of `TestSuite.commit` on real files -/
def commitC (cd : Codec) (now : Nat) (ct : CT) : Except Err CT :=
  if inTransaction ct.t then
    let gzip := ct.rel.useGz                                  -- `get_path(...).suffix == '.gz'`
    if ct.t.vol ≥ (ct.t.pers : Int) ∧ gzip = false then
      match iterSlice ct.t ⟨some (ct.t.pers : Int), none, none⟩ with
      | .error e => .error e
      | .ok data =>
        match writeRows cd now ct true false data with
        | .error e => .error e
        | .ok rel' => syncC cd { ct with rel := rel' }
    else
      match writeRows cd now ct false gzip (abs ct.t) with
      | .error e => .error e
      | .ok rel' => syncC cd { ct with rel := rel' }
  else syncC cd ct

/-- one operation of a single-table history on real files: the in-memory operations are the abstract ones,
commit / reload / reopen go through the files -/
def stepC (cd : Codec) (now : Nat) (ct : CT) (op : Op) : CT × Option Err :=
  match op with
  | .commit => match commitC cd now ct with
    | .ok ct' => (ct', none)
    | .error e => (ct, some e)
  | .reload => match syncC cd ct with
    | .ok ct' => (ct', none)
    | .error e => (ct, some e)
  | .reopen => match syncC cd ct with
    | .ok ct' => (ct', none)
    | .error e => (ct, some e)
  | op => ({ ct with t := (step ct.t op).1 }, (step ct.t op).2)

def runC (cd : Codec) : Nat → CT → List Op → CT × List (Option Err)
  | _, ct, [] => (ct, [])
  | now, ct, op :: ops =>
    let (ct1, e) := stepC cd now ct op
    let (ct2, es) := runC cd (now + 1) ct1 ops
    (ct2, e :: es)

/-! ### the suite on real files (for the driver; same control flow as Model.lean / Mapper.lean) -/

abbrev CSuite := List CT

def absSuite (s : CSuite) : Suite := s.map (·.t)

/-- `TestSuite.commit`: every table, one clock tick per table -/
def commitAllC (cd : Codec) : Nat → CSuite → CSuite × Option Err
  | _, [] => ([], none)
  | now, ct :: cs =>
    match commitC cd now ct with
    | .error e => (ct :: cs, some e)
    | .ok ct' => let (cs', e) := commitAllC cd (now + 1) cs; (ct' :: cs', e)

def reloadAllC (cd : Codec) : CSuite → CSuite × Option Err
  | [] => ([], none)
  | ct :: cs =>
    match syncC cd ct with
    | .error e => (ct :: cs, some e)
    | .ok ct' => let (cs', e) := reloadAllC cd cs; (ct' :: cs', e)

/-- an in-memory operation on table `k` -/
def stepAtC (s : CSuite) (k : Nat) (op : Op) : CSuite × Option Err :=
  match s[k]? with
  | none => (s, some .itsdbError)
  | some ct =>
    match op with
    | .commit | .reload | .reopen => (s, some .unmodelled)      -- suite-level operations, not routed here
    | _ => let (t', e) := step ct.t op; (s.set k { ct with t := t' }, e)

def addRowC (cd : Codec) (now : Nat) (s : CSuite) (b : Int) (k : Nat) (r : Row) : (CSuite × Nat) × Option Err :=
  match stepAtC s k (.append r) with
  | (s1, some e) => ((s1, now), some e)
  | (s1, none) =>
    if numChanges (absSuite s1) > b then
      let (s2, e) := commitAllC cd now s1
      ((s2, now + s1.length), e)
    else ((s1, now), none)

def addRowsC (cd : Codec) : Nat → CSuite → Int → List (Nat × Row) → (CSuite × Nat) × Option Err
  | now, s, _, [] => ((s, now), none)
  | now, s, b, (k, r) :: ps =>
    match addRowC cd now s b k r with
    | (sn, some e) => (sn, some e)
    | ((s1, now1), none) => addRowsC cd now1 s1 b ps

def clearAtC (s : CSuite) (ks : List Nat) : CSuite :=
  s.zipIdx.map (fun p => if ks.contains p.2 then { p.1 with t := { p.1.t with rows := [], vol := 0 } } else p.1)

/-- `tsdb.write_database(ts, ts.path, gzip=g)`: every relation rewritten from what its table shows -/
def writeDatabaseC (cd : Codec) (g : Bool) : Nat → CSuite → CSuite × Option Err
  | _, [] => ([], none)
  | now, ct :: cs =>
    match writeRows cd now ct false g (abs ct.t) with
    | .error e => (ct :: cs, some e)
    | .ok rel' =>
      let (cs', e) := writeDatabaseC cd g (now + 1) cs
      ({ ct with rel := rel' } :: cs', e)

/-- `TestSuite.process` with a scripted processor on real files -/
def processC (cd : Codec) (sch : Schema) (now : Nat) (s : CSuite) (b : Int) (g : Bool) (script : List Resp)
    (sel : Option (String × String) := none) (src : Option Suite := none) : (CSuite × Nat) × Option Err :=
  match inputOf sch (absSuite s) src sel with
  | .error e => ((s, now), some e)
  | .ok (inFields, items) =>
    let (gs, perr) := producedGroups sch inFields script items
    match addRowsC cd now (clearAtC s (affectedIdx sch)) b gs.flatten with
    | (sn, some e) => (sn, some e)
    | ((s1, now1), none) =>
      match perr with
      | some e => ((s1, now1), some e)
      | none =>
        match writeDatabaseC cd g now1 s1 with
        | (s2, some e) => ((s2, now1 + s1.length), some e)
        | (s2, none) =>
          let (s3, e) := reloadAllC cd s2
          ((s3, now1 + s1.length), e)

end Verif.C10.Compose
