/- C07 helper lemmas (round 5): DMRS scopes = EQ-link classes; descendants / representatives on DMRS. -/
import Verif.Common.Sem
import Verif.Common.SemLemmas
import Verif.C07.Lemmas
import Verif.C07.WfLemmas
namespace Verif.Sem

/-- the EQ links of a DMRS as directed edges between node ids -/
def DMRS.eqEdges (d : DMRS) : List (Int × Int) :=
  (d.links.filter (fun l => l.post = EQ_POST)).map (fun l => (l.start, l.stop))

/-! ## generic helpers -/

section C07dGeneric

theorem c07d_mapM_ok_forall {α β ε : Type} (f : α → Except ε β) :
    ∀ (l : List α) (r : List β), l.mapM f = .ok r → ∀ a ∈ l, ∃ b ∈ r, f a = .ok b := by
  intro l
  induction l with
  | nil => intro r _ a ha; exact absurd ha List.not_mem_nil
  | cons x l ih =>
    intro r h a ha
    rw [List.mapM_cons] at h
    cases hf : f x with
    | error e' => rw [hf] at h; simp [bind, Except.bind] at h
    | ok b0 =>
      rw [hf] at h
      cases hl : l.mapM f with
      | error e' => rw [hl] at h; simp [bind, Except.bind] at h
      | ok r0 =>
        rw [hl] at h
        have : r = b0 :: r0 := by simpa [bind, Except.bind, pure, Except.pure] using h.symm
        subst this
        rcases List.mem_cons.1 ha with hax | ha'
        · rw [hax]; exact ⟨b0, List.mem_cons_self, hf⟩
        · obtain ⟨b, hb, hfb⟩ := ih _ hl a ha'
          exact ⟨b, List.mem_cons_of_mem _ hb, hfb⟩

/-- a step-wise simulation between two edge lists transfers reachability -/
theorem c07d_reach_map {α β : Type} [DecidableEq α] [DecidableEq β]
    (E : List (α × α)) (E' : List (β × β)) (R : α → β → Prop)
    (hstep : ∀ x y, (x, y) ∈ E → ∀ x', R x x' → ∃ y', R y y' ∧ (x', y') ∈ E') :
    ∀ x y, Reach (adjOf E) x y → ∀ x', R x x' → ∃ y', R y y' ∧ Reach (adjOf E') x' y' := by
  intro x y h
  induction h with
  | refl => intro x' hx; exact ⟨x', hx, Reach.refl _⟩
  | tail _ hc ih =>
    intro x' hx
    obtain ⟨b', hb, hr⟩ := ih x' hx
    obtain ⟨c', hc', he⟩ := hstep _ _ ((mem_adjOf _ _ _).1 hc) b' hb
    exact ⟨c', hc', Reach.tail hr ((mem_adjOf _ _ _).2 he)⟩

end C07dGeneric

/-! ## PART 1 — scopes are the EQ-link classes -/

section C07dPart1

/-- `c07_scopes_char` for a given labelling -/
theorem c07d_scopes_char_lbl (d : DMRS) (hnd : d.ids.Nodup) (lbl : Node → Var)
    (hl2 : ∀ n ∈ d.nodes, ∀ n' ∈ d.nodes, lbl n = lbl n' → n = n')
    (hP : d.prescopes = d.nodes.map (fun n => (lbl n, [n])))
    (leqs : List (Var × Var)) (sc : List (Var × List Node))
    (hc : conjoin d.prescopes leqs = .ok sc) :
    (∀ s ∈ sc, ∀ n, n ∈ s.2 ↔ n ∈ d.nodes ∧ Reach (adjOf (symm leqs)) s.1 (lbl n)) ∧
    (∀ n ∈ d.nodes, ∃ s ∈ sc, Reach (adjOf (symm leqs)) s.1 (lbl n)) := by
  have hkeys : dkeys d.prescopes = d.nodes.map lbl := by
    rw [hP]; simp [dkeys, Function.comp_def]
  have hk : (dkeys d.prescopes).Nodup := by
    rw [hkeys]
    exact c07_nodup_map_of_inj _ _ (c07_nodup_of_nodup_map (fun n : Node => n.id) _ hnd) hl2
  have hlook : ∀ n ∈ d.nodes, dlookup (lbl n) d.prescopes = some [n] := by
    intro n hn
    rw [hP]
    exact c07_dlookup_map_inj lbl (fun n => [n]) d.nodes hl2 n hn
  obtain ⟨c1, c2, _⟩ := conjoin_components d.prescopes leqs sc hk hc
  refine ⟨?_, ?_⟩
  · intro s hs n
    obtain ⟨c, _, _, hx, h2⟩ := c1 s hs
    constructor
    · intro hn
      rw [h2] at hn
      obtain ⟨l, hlc, hnl⟩ := List.mem_flatMap.1 hn
      obtain ⟨hlk, hr⟩ := (hx l).1 hlc
      rw [hkeys] at hlk
      obtain ⟨m, hm, rfl⟩ := List.mem_map.1 hlk
      rw [hlook m hm] at hnl
      have : n = m := by simpa using hnl
      subst this
      exact ⟨hm, hr⟩
    · rintro ⟨hn, hr⟩
      rw [h2]
      refine List.mem_flatMap.2 ⟨lbl n, (hx _).2 ⟨?_, hr⟩, ?_⟩
      · rw [hkeys]; exact List.mem_map.2 ⟨n, hn, rfl⟩
      · rw [hlook n hn]; simp
  · intro n hn
    exact c2 (lbl n) (by rw [hkeys]; exact List.mem_map.2 ⟨n, hn, rfl⟩)

/-- the label equalities are the image of the EQ edges under id ↦ label -/
theorem c07d_leqs_edges (d : DMRS) (lbl : Node → Var)
    (hl1 : ∀ n ∈ d.nodes, dlookup n.id d.idToLbl = some (lbl n))
    (leqs : List (Var × Var)) (hl : d.leqs = .ok leqs) :
    (∀ p ∈ leqs, ∃ a ∈ d.nodes, ∃ b ∈ d.nodes, p = (lbl a, lbl b) ∧ (a.id, b.id) ∈ d.eqEdges) ∧
    (∀ e ∈ d.eqEdges, ∃ a ∈ d.nodes, ∃ b ∈ d.nodes, e = (a.id, b.id) ∧ (lbl a, lbl b) ∈ leqs) := by
  unfold DMRS.leqs at hl
  have hnode : ∀ (i : Int) (v : Var), dlookup i d.idToLbl = some v →
      ∃ a ∈ d.nodes, a.id = i ∧ v = lbl a := by
    intro i v hv
    obtain ⟨a, ha, hai⟩ := List.mem_map.1 (c07_lookup_in_prescopes d i v hv).1
    refine ⟨a, ha, hai, ?_⟩
    have := hl1 a ha
    rw [hai, hv] at this
    injection this
  constructor
  · intro p hp
    obtain ⟨l, hlm, hfl⟩ := c07_mapM_ok _ _ _ hl p hp
    cases h1 : dlookup l.start d.idToLbl with
    | none => rw [h1] at hfl; cases hfl
    | some x =>
      cases h2 : dlookup l.stop d.idToLbl with
      | none => rw [h1, h2] at hfl; cases hfl
      | some y =>
        rw [h1, h2] at hfl
        have hpe : p = (x, y) := by injection hfl with e1; exact e1.symm
        obtain ⟨a, ha, hai, hxa⟩ := hnode _ _ h1
        obtain ⟨b, hb, hbi, hyb⟩ := hnode _ _ h2
        refine ⟨a, ha, b, hb, by rw [hpe, hxa, hyb], ?_⟩
        unfold DMRS.eqEdges
        exact List.mem_map.2 ⟨l, hlm, by rw [hai, hbi]⟩
  · intro e he
    unfold DMRS.eqEdges at he
    obtain ⟨l, hlm, hle⟩ := List.mem_map.1 he
    obtain ⟨p, hp, hfl⟩ := c07d_mapM_ok_forall _ _ _ hl l hlm
    cases h1 : dlookup l.start d.idToLbl with
    | none => rw [h1] at hfl; cases hfl
    | some x =>
      cases h2 : dlookup l.stop d.idToLbl with
      | none => rw [h1, h2] at hfl; cases hfl
      | some y =>
        rw [h1, h2] at hfl
        have hpe : p = (x, y) := by injection hfl with e1; exact e1.symm
        obtain ⟨a, ha, hai, hxa⟩ := hnode _ _ h1
        obtain ⟨b, hb, hbi, hyb⟩ := hnode _ _ h2
        refine ⟨a, ha, b, hb, by rw [← hle, hai, hbi], ?_⟩
        rw [← hxa, ← hyb, ← hpe]; exact hp

/-- label reachability and id reachability coincide on nodes -/
theorem c07d_reach_iff (d : DMRS) (hnd : d.ids.Nodup) (lbl : Node → Var)
    (hl1 : ∀ n ∈ d.nodes, dlookup n.id d.idToLbl = some (lbl n))
    (hl2 : ∀ n ∈ d.nodes, ∀ n' ∈ d.nodes, lbl n = lbl n' → n = n')
    (leqs : List (Var × Var)) (hl : d.leqs = .ok leqs)
    (n n' : Node) (hn : n ∈ d.nodes) (hn' : n' ∈ d.nodes) :
    Reach (adjOf (symm leqs)) (lbl n) (lbl n') ↔ Reach (adjOf (symm d.eqEdges)) n.id n'.id := by
  obtain ⟨hA, hB⟩ := c07d_leqs_edges d lbl hl1 leqs hl
  have hidinj := c07_inj_of_nodup_map (fun n : Node => n.id) d.nodes hnd
  constructor
  · intro hr
    obtain ⟨y', ⟨m, hm, hlm, hy'⟩, hr'⟩ := c07d_reach_map (symm leqs) (symm d.eqEdges)
      (fun x x' => ∃ n ∈ d.nodes, x = lbl n ∧ x' = n.id) (by
        intro x y hxy x' ⟨m, hm, hxm, hx'm⟩
        rcases (mem_symm _ _ _).1 hxy with h | h
        · obtain ⟨a, ha, b, hb, hpe, hedge⟩ := hA _ h
          simp only [Prod.mk.injEq] at hpe
          have : m = a := hl2 m hm a ha (hxm.symm.trans hpe.1)
          subst this
          exact ⟨b.id, ⟨b, hb, hpe.2, rfl⟩, by
            rw [hx'm]; exact (mem_symm _ _ _).2 (Or.inl hedge)⟩
        · obtain ⟨a, ha, b, hb, hpe, hedge⟩ := hA _ h
          simp only [Prod.mk.injEq] at hpe
          have : m = b := hl2 m hm b hb (hxm.symm.trans hpe.2)
          subst this
          exact ⟨a.id, ⟨a, ha, hpe.1, rfl⟩, by
            rw [hx'm]; exact (mem_symm _ _ _).2 (Or.inr hedge)⟩)
      _ _ hr n.id ⟨n, hn, rfl, rfl⟩
    have : n' = m := hl2 n' hn' m hm hlm
    subst this
    rw [hy'] at hr'
    exact hr'
  · intro hr
    obtain ⟨y', ⟨m, hm, hlm, hy'⟩, hr'⟩ := c07d_reach_map (symm d.eqEdges) (symm leqs)
      (fun x x' => ∃ n ∈ d.nodes, x = n.id ∧ x' = lbl n) (by
        intro x y hxy x' ⟨m, hm, hxm, hx'm⟩
        rcases (mem_symm _ _ _).1 hxy with h | h
        · obtain ⟨a, ha, b, hb, hpe, hedge⟩ := hB _ h
          simp only [Prod.mk.injEq] at hpe
          have : m = a := hidinj m hm a ha (hxm.symm.trans hpe.1)
          subst this
          exact ⟨lbl b, ⟨b, hb, hpe.2, rfl⟩, by
            rw [hx'm]; exact (mem_symm _ _ _).2 (Or.inl hedge)⟩
        · obtain ⟨a, ha, b, hb, hpe, hedge⟩ := hB _ h
          simp only [Prod.mk.injEq] at hpe
          have : m = b := hidinj m hm b hb (hxm.symm.trans hpe.2)
          subst this
          exact ⟨lbl a, ⟨a, ha, hpe.1, rfl⟩, by
            rw [hx'm]; exact (mem_symm _ _ _).2 (Or.inr hedge)⟩)
      _ _ hr (lbl n) ⟨n, hn, rfl, rfl⟩
    have : n' = m := hidinj n' hn' m hm hlm
    subst this
    rw [hy'] at hr'
    exact hr'

/-- PART 1. "two nodes share a scope iff they are connected by EQ links" (any EQ link set:
cycles, parallel links, self loops) -/
theorem dmrs_same_scope_iff (d : DMRS) (hnd : d.ids.Nodup) (top : Option Var)
    (sc : List (Var × List Node)) (h : d.scopes = .ok (top, sc))
    (n n' : Node) (hn : n ∈ d.nodes) (hn' : n' ∈ d.nodes) :
    (∃ s ∈ sc, n ∈ s.2 ∧ n' ∈ s.2) ↔ Reach (adjOf (symm d.eqEdges)) n.id n'.id := by
  obtain ⟨leqs, hl, hc, _⟩ := c07_scopes_ok d top sc h
  obtain ⟨lbl, hl1, hl2, hP⟩ := idToLbl_spec d hnd
  obtain ⟨hm, hcov⟩ := c07d_scopes_char_lbl d hnd lbl hl2 hP leqs sc hc
  rw [← c07d_reach_iff d hnd lbl hl1 hl2 leqs hl n n' hn hn']
  constructor
  · rintro ⟨s, hs, h1, h2⟩
    exact Reach.trans (Reach.symm_of_symm _ ((hm s hs n).1 h1).2) ((hm s hs n').1 h2).2
  · intro hr
    obtain ⟨s, hs, hsr⟩ := hcov n hn
    exact ⟨s, hs, (hm s hs n).2 ⟨hn, hsr⟩, (hm s hs n').2 ⟨hn', Reach.trans hsr hr⟩⟩

/-- the top scope is the EQ-class of the node whose id is `top` -/
theorem dmrs_top_scope_class (d : DMRS) (hnd : d.ids.Nodup) (t : Int) (htop : d.top = some t)
    (top : Option Var) (sc : List (Var × List Node)) (h : d.scopes = .ok (top, sc)) :
    ∃ l ns, top = some l ∧ (l, ns) ∈ sc ∧
      ∀ n ∈ d.nodes, (n ∈ ns ↔ Reach (adjOf (symm d.eqEdges)) t n.id) := by
  obtain ⟨l, ns, n0, ht, hmem, hn0, hn0d, hn0t, huniq⟩ := dmrs_top_scope d hnd t htop top sc h
  refine ⟨l, ns, ht, hmem, ?_⟩
  intro n hn
  rw [← hn0t]
  constructor
  · intro hnn
    exact (dmrs_same_scope_iff d hnd top sc h n0 n hn0d hn).1 ⟨(l, ns), hmem, hn0, hnn⟩
  · intro hr
    obtain ⟨s, hs, h1, h2⟩ := (dmrs_same_scope_iff d hnd top sc h n0 n hn0d hn).2 hr
    have := huniq s hs ⟨n0, h1, hn0t⟩
    rw [this] at h2
    exact h2

end C07dPart1

/-! ## PART 3 — representatives: keys and membership -/

section C07dPart3

/-- PART 3. representatives on a DMRS -/
theorem dmrs_representativesWith_subset (d : DMRS) (sc reps : List (Var × List Node))
    (h : d.representativesWith sc = .ok reps) :
    dkeys reps = dkeys sc ∧
    ∀ l rs, (l, rs) ∈ reps → ∃ ns, (l, ns) ∈ sc ∧ ∀ r ∈ rs, r ∈ ns := by
  unfold DMRS.representativesWith at h
  cases ha : d.arguments (some "xeipu") with
  | error e => rw [ha] at h; cases h
  | ok nsargs =>
    simp only [ha] at h
    cases hd : d.descendantsWith sc with
    | error e => rw [hd] at h; cases h
    | ok descs =>
      simp only [hd, Except.ok.injEq] at h
      subst h
      unfold representativesOf
      constructor
      · simp [dkeys, List.map_map, Function.comp_def]
      · intro l rs hmem
        simp only [List.mem_map] at hmem
        obtain ⟨⟨l', ns⟩, hs, heq⟩ := hmem
        simp only [Prod.mk.injEq] at heq
        obtain ⟨rfl, rfl⟩ := heq
        refine ⟨ns, hs, ?_⟩
        intro r hr
        rw [mem_sortBy] at hr
        exact candidates_subset _ _ _ _ _ hr

end C07dPart3

/-! ## PART 2 — descendants terminate -/

section C07dFold
variable {α β ε : Type}

theorem c07d_foldlM_cons_ok (f : β → α → Except ε β) (a : α) (l : List α) (b b' : β)
    (h : f b a = .ok b') : (a :: l).foldlM f b = l.foldlM f b' := by
  rw [List.foldlM_cons, h]; rfl

theorem c07d_foldlM_cons_error (f : β → α → Except ε β) (a : α) (l : List α) (b : β) (e : ε)
    (h : f b a = .error e) : (a :: l).foldlM f b = .error e := by
  rw [List.foldlM_cons, h]; rfl

theorem c07d_foldlM_inv (f : β → α → Except ε β) (P : β → Prop)
    (hstep : ∀ b a b', P b → f b a = .ok b' → P b') :
    ∀ (l : List α) (b r : β), P b → l.foldlM f b = .ok r → P r := by
  intro l
  induction l with
  | nil =>
    intro b r hb h
    have : b = r := by
      have h' : (Except.ok b : Except ε β) = .ok r := h
      injection h'
    rw [← this]; exact hb
  | cons a l ih =>
    intro b r hb h
    cases hf : f b a with
    | error e => rw [c07d_foldlM_cons_error f a l b e hf] at h; cases h
    | ok b' =>
      rw [c07d_foldlM_cons_ok f a l b b' hf] at h
      exact ih b' r (hstep b a b' hb hf) h

theorem c07d_foldlM_error (f : β → α → Except ε β) (Q : ε → Prop)
    (hE : ∀ b a e, f b a = .error e → Q e) :
    ∀ (l : List α) (b : β) (e : ε), l.foldlM f b = .error e → Q e := by
  intro l
  induction l with
  | nil =>
    intro b e h
    have h' : (Except.ok b : Except ε β) = .error e := h
    cases h'
  | cons a l ih =>
    intro b e h
    cases hf : f b a with
    | error e' =>
      rw [c07d_foldlM_cons_error f a l b e' hf] at h
      have : e' = e := by injection h
      rw [← this]; exact hE b a e' hf
    | ok b' =>
      rw [c07d_foldlM_cons_ok f a l b b' hf] at h
      exact ih b' e h

theorem c07d_foldlM_total (f : β → α → Except ε β) (P : β → Prop) (Q : α → Prop)
    (hstep : ∀ b a, P b → Q a → ∃ b', f b a = .ok b' ∧ P b') :
    ∀ (l : List α) (b : β), P b → (∀ a ∈ l, Q a) → ∃ r, l.foldlM f b = .ok r ∧ P r := by
  intro l
  induction l with
  | nil => intro b hb _; exact ⟨b, rfl, hb⟩
  | cons a l ih =>
    intro b hb hq
    obtain ⟨b', hf, hb'⟩ := hstep b a hb (hq a List.mem_cons_self)
    rw [c07d_foldlM_cons_ok f a l b b' hf]
    exact ih b' hb' (fun x hx => hq x (List.mem_cons_of_mem _ hx))

end C07dFold

section C07dPart2

theorem c07d_mem_dextend {κ β : Type} [DecidableEq κ] (k : κ) (xs : List β) :
    ∀ (d : List (κ × List β)) (e : κ × List β), e ∈ dextend k xs d →
      e ∈ d ∨ ∃ ys, (k, ys) ∈ d ∧ e = (k, ys ++ xs) := by
  intro d
  induction d with
  | nil => intro e h; exact absurd h (by simp [dextend])
  | cons p d ih =>
    obtain ⟨k', ys⟩ := p
    intro e h
    by_cases hk : k' = k
    · simp only [dextend, if_pos hk] at h
      rcases List.mem_cons.1 h with h | h
      · exact Or.inr ⟨ys, by rw [hk]; exact List.mem_cons_self, by rw [h, hk]⟩
      · exact Or.inl (List.mem_cons_of_mem _ h)
    · simp only [dextend, if_neg hk] at h
      rcases List.mem_cons.1 h with h | h
      · exact Or.inl (by rw [h]; exact List.mem_cons_self)
      · rcases ih e h with h' | ⟨zs, hz, he⟩
        · exact Or.inl (List.mem_cons_of_mem _ h')
        · exact Or.inr ⟨zs, List.mem_cons_of_mem _ hz, he⟩

theorem c07d_emptyArgMap_foldl {β : Type} :
    ∀ (ns : List Node) (acc : List (Int × List β)),
      (ns.map (fun n : Node => n.id)).Nodup → (∀ n ∈ ns, n.id ∉ dkeys acc) →
      (∀ e ∈ acc, e.2 = []) →
      dkeys (ns.foldl (fun acc n => dset n.id [] acc) acc) = dkeys acc ++ ns.map (fun n => n.id) ∧
      ∀ e ∈ ns.foldl (fun acc n => dset n.id [] acc) acc, e.2 = [] := by
  intro ns
  induction ns with
  | nil => intro acc _ _ hacc; exact ⟨by simp, hacc⟩
  | cons m ns ih =>
    intro acc hnd hdis hacc
    rw [List.map_cons, List.nodup_cons] at hnd
    rw [List.foldl_cons, c07_dset_notMem _ _ _ (hdis m List.mem_cons_self)]
    obtain ⟨h1, h2⟩ := ih (acc ++ [(m.id, [])]) hnd.2 (by
        intro n hn hmem
        have : n.id ∈ dkeys acc ∨ n.id = m.id := by simpa [dkeys] using hmem
        rcases this with h | h
        · exact hdis n (List.mem_cons_of_mem _ hn) h
        · exact hnd.1 (List.mem_map.2 ⟨n, hn, h⟩)) (by
        intro e he
        rcases List.mem_append.1 he with he | he
        · exact hacc e he
        · rw [List.mem_singleton.1 he])
    refine ⟨?_, h2⟩
    rw [h1]; simp [dkeys]

theorem c07d_emptyArgMap {β : Type} (d : DMRS) (hnd : d.ids.Nodup) :
    dkeys (d.emptyArgMap : List (Int × List β)) = d.ids ∧
    ∀ e ∈ (d.emptyArgMap : List (Int × List β)), e.2 = [] := by
  obtain ⟨h1, h2⟩ := c07d_emptyArgMap_foldl (β := β) d.nodes [] hnd
    (by intro n _ h; simp [dkeys] at h) (by intro e he; exact absurd he List.not_mem_nil)
  refine ⟨?_, h2⟩
  unfold DMRS.emptyArgMap
  rw [h1]; simp [dkeys, DMRS.ids]

theorem c07d_scargsStep_cases (lblOf : List (Int × Var))
    (acc : List (Int × List (Role × String × Option Var))) (l : Link) :
    DMRS.scargsStep lblOf acc l = .ok acc ∨
    (∃ r, (l.post = HEQ_POST ∨ l.post = H_POST) ∧ (dlookup l.start acc).isSome = true ∧
      DMRS.scargsStep lblOf acc l =
        .ok (dextend l.start [(l.role, r, dlookup l.stop lblOf)] acc)) ∨
    ((l.post = HEQ_POST ∨ l.post = H_POST) ∧ (dlookup l.start acc).isSome = false ∧
      DMRS.scargsStep lblOf acc l = .error .keyError) := by
  unfold DMRS.scargsStep
  by_cases h1 : l.post = HEQ_POST
  · by_cases h3 : (dlookup l.start acc).isSome = true
    · exact Or.inr (Or.inl ⟨LHEQ, Or.inl h1, h3, by simp only [if_pos h1, if_pos h3]⟩)
    · exact Or.inr (Or.inr ⟨Or.inl h1, by simpa using h3, by simp only [if_pos h1, if_neg h3]⟩)
  · by_cases h2 : l.post = H_POST
    · by_cases h3 : (dlookup l.start acc).isSome = true
      · exact Or.inr (Or.inl ⟨QEQ, Or.inr h2, h3, by simp only [if_neg h1, if_pos h2, if_pos h3]⟩)
      · exact Or.inr (Or.inr ⟨Or.inr h2, by simpa using h3,
          by simp only [if_neg h1, if_pos h2, if_neg h3]⟩)
    · exact Or.inl (by simp only [if_neg h1, if_neg h2])

theorem c07d_scopalArguments_error (d : DMRS) (sc : List (Var × List Node)) (e : DErr)
    (h : d.scopalArguments sc = .error e) : e = .keyError := by
  unfold DMRS.scopalArguments at h
  refine c07d_foldlM_error _ (fun e => e = DErr.keyError) ?_ _ _ _ h
  intro b a e' he
  rcases c07d_scargsStep_cases (scopeLabelOf sc) b a with h1 | ⟨r, _, _, h1⟩ | ⟨_, _, h1⟩
  · rw [h1] at he; cases he
  · rw [h1] at he; cases he
  · rw [h1] at he; injection he with he; exact he.symm

theorem c07d_scopalArguments_keys (d : DMRS) (hnd : d.ids.Nodup) (sc : List (Var × List Node))
    (scargs : List (Int × List (Role × String × Option Var)))
    (h : d.scopalArguments sc = .ok scargs) : dkeys scargs = d.ids := by
  unfold DMRS.scopalArguments at h
  refine c07d_foldlM_inv _ (fun acc => dkeys acc = d.ids) ?_ _ _ _ (c07d_emptyArgMap d hnd).1 h
  intro b a b' hb he
  rcases c07d_scargsStep_cases (scopeLabelOf sc) b a with h1 | ⟨r, _, _, h1⟩ | ⟨_, _, h1⟩
  · rw [h1] at he; injection he with he; rw [← he]; exact hb
  · rw [h1] at he; injection he with he; rw [← he, dkeys_dextend]; exact hb
  · rw [h1] at he; cases he

theorem c07d_descendantsOf_ok (d : DMRS) (sc : List (Var × List Node))
    (hsc : ∀ s ∈ sc, ∀ n ∈ s.2, n.id ∈ d.ids)
    (scargs : List (Int × List (Role × String × Option Var))) (hk : dkeys scargs = d.ids) :
    ∃ r, descendantsOf (fun n : Node => n.id) d.ids
        (scargs.map (fun e => (e.1, e.2.filterMap (fun a => a.2.2)))) sc = .ok r ∧
      ∀ i ∈ d.ids, i ∈ dkeys r := by
  apply descendantsOf_total
  · rw [← hk]; simp [dkeys, Function.comp_def]
  · intro l ps hl p hp
    exact hsc (l, ps) (dlookup_mem hl) p hp

/-- PART 2. descendants on a DMRS terminate: the fuel of the model never runs out -/
theorem dmrs_descendantsWith_no_fuel (d : DMRS) (hnd : d.ids.Nodup) (sc : List (Var × List Node))
    (hsc : ∀ s ∈ sc, ∀ n ∈ s.2, n.id ∈ d.ids) : d.descendantsWith sc ≠ .error .fuel := by
  intro hf
  unfold DMRS.descendantsWith at hf
  cases hs : d.scopalArguments sc with
  | error e =>
    have h1 := c07d_scopalArguments_error d sc e hs
    rw [hs] at hf
    have h2 : e = .fuel := by injection hf
    rw [h1] at h2; cases h2
  | ok scargs =>
    simp only [hs] at hf
    obtain ⟨r, hr, _⟩ := c07d_descendantsOf_ok d sc hsc scargs
      (c07d_scopalArguments_keys d hnd sc scargs hs)
    split at hf
    · cases hf
    · rw [hr] at hf; cases hf

theorem dmrs_descendantsWith_total (d : DMRS) (hnd : d.ids.Nodup) (sc : List (Var × List Node))
    (hsc : ∀ s ∈ sc, ∀ n ∈ s.2, n.id ∈ d.ids)
    (hlinks : ∀ l ∈ d.links, (l.post = H_POST ∨ l.post = HEQ_POST) →
        l.start ∈ d.ids ∧ l.stop ∈ dkeys (scopeLabelOf sc)) :
    ∃ r, d.descendantsWith sc = .ok r ∧ ∀ i ∈ d.ids, i ∈ dkeys r := by
  obtain ⟨hk0, he0⟩ := c07d_emptyArgMap (β := Role × String × Option Var) d hnd
  obtain ⟨scargs, hs, hk, hsome⟩ := c07d_foldlM_total (DMRS.scargsStep (scopeLabelOf sc))
    (fun acc => dkeys acc = d.ids ∧ ∀ e ∈ acc, ∀ a ∈ e.2, a.2.2.isSome = true)
    (fun l => (l.post = H_POST ∨ l.post = HEQ_POST) →
        l.start ∈ d.ids ∧ l.stop ∈ dkeys (scopeLabelOf sc))
    (by
      intro b l ⟨hb1, hb2⟩ hq
      rcases c07d_scargsStep_cases (scopeLabelOf sc) b l with h1 | ⟨r, hp, _, h1⟩ | ⟨hp, hn, _⟩
      · exact ⟨b, h1, hb1, hb2⟩
      · refine ⟨_, h1, by rw [dkeys_dextend]; exact hb1, ?_⟩
        have hstop : (dlookup l.stop (scopeLabelOf sc)).isSome = true :=
          (dlookup_isSome_iff _ _).2 (hq hp.symm).2
        intro e he a ha
        rcases c07d_mem_dextend _ _ _ _ he with he' | ⟨ys, hys, hee⟩
        · exact hb2 e he' a ha
        · rw [hee] at ha
          rcases List.mem_append.1 ha with ha' | ha'
          · exact hb2 _ hys a ha'
          · rw [List.mem_singleton.1 ha']; exact hstop
      · have : (dlookup l.start b).isSome = true :=
          (dlookup_isSome_iff _ _).2 (by rw [hb1]; exact (hq hp.symm).1)
        rw [this] at hn; cases hn)
    d.links d.emptyArgMap
    ⟨hk0, by intro e he a ha; rw [he0 e he] at ha; exact absurd ha List.not_mem_nil⟩ hlinks
  obtain ⟨r, hr, hall⟩ := c07d_descendantsOf_ok d sc hsc scargs hk
  refine ⟨r, ?_, hall⟩
  have hs' : d.scopalArguments sc = .ok scargs := hs
  have hany : ¬ (scargs.any (fun e => e.2.any (fun a => a.2.2.isNone)) = true) := by
    intro h
    obtain ⟨e, he, h'⟩ := List.any_eq_true.1 h
    obtain ⟨a, ha, h''⟩ := List.any_eq_true.1 h'
    have := hsome e he a ha
    cases hv : a.2.2 with
    | none => rw [hv] at this; cases this
    | some v => rw [hv] at h''; cases h''
  unfold DMRS.descendantsWith
  simp only [hs', if_neg hany, hr]

end C07dPart2

/-! ## PART 3 (continued) -/

section C07dPart3b

theorem c07d_linkPasses_error (d : DMRS) (types : Option String) (l : Link) (e : DErr)
    (h : d.linkPasses types l = .error e) : e = .keyError := by
  unfold DMRS.linkPasses at h
  split at h
  · cases h
  · split at h
    · cases h
    · split at h
      · cases h
      · split at h
        · injection h with h; exact h.symm
        · split at h <;> cases h

theorem c07d_argsStep_error (d : DMRS) (types : Option String)
    (acc : List (Int × List (Role × Int))) (l : Link) (e : DErr)
    (h : d.argsStep types acc l = .error e) : e = .keyError := by
  unfold DMRS.argsStep at h
  split at h
  · cases h
  · split at h
    · rename_i e' he
      injection h with h
      rw [← h]
      exact c07d_linkPasses_error _ _ _ _ he
    · cases h
    · split at h
      · cases h
      · injection h with h; exact h.symm

theorem dmrs_representativesWith_no_fuel (d : DMRS) (hnd : d.ids.Nodup) (sc : List (Var × List Node))
    (hsc : ∀ s ∈ sc, ∀ n ∈ s.2, n.id ∈ d.ids) : d.representativesWith sc ≠ .error .fuel := by
  intro hf
  unfold DMRS.representativesWith at hf
  cases ha : d.arguments (some "xeipu") with
  | error e =>
    rw [ha] at hf
    have h2 : e = .fuel := by injection hf
    unfold DMRS.arguments at ha
    have h1 := c07d_foldlM_error _ (fun e => e = DErr.keyError)
      (fun b a e' he => c07d_argsStep_error d _ b a e' he) _ _ _ ha
    rw [h1] at h2; cases h2
  | ok nsargs =>
    simp only [ha] at hf
    cases hd : d.descendantsWith sc with
    | error e =>
      rw [hd] at hf
      have h2 : e = .fuel := by injection hf
      rw [h2] at hd
      exact dmrs_descendantsWith_no_fuel d hnd sc hsc hd
    | ok descs => rw [hd] at hf; cases hf

theorem c07d_scopes_ids (d : DMRS) (hnd : d.ids.Nodup) (top : Option Var)
    (sc : List (Var × List Node)) (h : d.scopes = .ok (top, sc)) :
    ∀ s ∈ sc, ∀ n ∈ s.2, n.id ∈ d.ids := by
  intro s hs n hn
  exact List.mem_map.2 ⟨n, (dmrs_scopes_partition d hnd top sc h).2.1 s hs n hn, rfl⟩

theorem dmrs_descendants_no_fuel (d : DMRS) (hnd : d.ids.Nodup) : d.descendants ≠ .error .fuel := by
  intro hf
  unfold DMRS.descendants at hf
  cases hs : d.scopes with
  | error e => rw [hs] at hf; cases hf
  | ok r =>
    obtain ⟨top, sc⟩ := r
    simp only [hs] at hf
    exact dmrs_descendantsWith_no_fuel d hnd sc (c07d_scopes_ids d hnd top sc hs) hf

theorem dmrs_representatives_no_fuel (d : DMRS) (hnd : d.ids.Nodup) :
    d.representatives ≠ .error .fuel := by
  intro hf
  unfold DMRS.representatives at hf
  cases hs : d.scopes with
  | error e => rw [hs] at hf; cases hf
  | ok r =>
    obtain ⟨top, sc⟩ := r
    simp only [hs] at hf
    exact dmrs_representativesWith_no_fuel d hnd sc (c07d_scopes_ids d hnd top sc hs) hf

theorem dmrs_representatives_subset (d : DMRS) (hnd : d.ids.Nodup) (top : Option Var)
    (sc reps : List (Var × List Node)) (hs : d.scopes = .ok (top, sc)) (h : d.representatives = .ok reps) :
    dkeys reps = dkeys sc ∧ ∀ l rs, (l, rs) ∈ reps → ∃ ns, (l, ns) ∈ sc ∧ ∀ r ∈ rs, r ∈ ns ∧ r ∈ d.nodes := by
  unfold DMRS.representatives at h
  simp only [hs] at h
  obtain ⟨h1, h2⟩ := dmrs_representativesWith_subset d sc reps h
  refine ⟨h1, ?_⟩
  intro l rs hmem
  obtain ⟨ns, hns, hsub⟩ := h2 l rs hmem
  refine ⟨ns, hns, fun r hr => ⟨hsub r hr, ?_⟩⟩
  exact (dmrs_scopes_partition d hnd top sc hs).2.1 (l, ns) hns r (hsub r hr)

end C07dPart3b

end Verif.Sem
