/-
C07 (round 6) — the option plumbing of the anchored functions that `Verif.Common.Sem` leaves out:

  MRS.arguments(types=…, expressed=…)          → `argumentsMRS`
  MRS.scopal_arguments(scopes=None | a map)      → `scopalArgumentsWith`
  scope.descendants(m, scopes=<any scope map>)   → `descendantsWith`
  scope.representatives(m, priority=<function>)  → `representativesBy`
  DMRS.arguments(types=…, expressed=…)          → `argumentsDMRS`
  DMRS.scopal_arguments(scopes=None)             → `scopalArgumentsRaw`

Core Lean only.  `types` is a Python *string* (`'h'`, `'xeipu'`, `''`): `in` is the substring test.
-/
import Verif.Common.Sem
import Verif.C07.Model

namespace Verif.C07
open Verif.Sem

/-! ### MRS.arguments -/

/-- `ivs = {ep.iv for ep in self.rels}` (a missing ARG0 contributes `None`, which no value equals). -/
def ivSet (m : MRS) : List Var := m.rels.filterMap EP.iv

/-- the `expressed` filter: `expressed is not None and (value in ivs) != expressed` drops the value. -/
def expressedOK (ivs : List Var) (expressed : Option Bool) (v : Var) : Bool :=
  match expressed with
  | none => true
  | some b => (decide (v ∈ ivs)) == b

/-- one predication's entry of `m.arguments(types, expressed)`. -/
def argsOf (m : MRS) (types : Option String) (expressed : Option Bool) (e : EP) : List (Role × Var) :=
  (e.outArgs types).filter (fun a => expressedOK (ivSet m) expressed a.2)

/-- `m.arguments(types=types, expressed=expressed)` in `rels` order. -/
def argumentsMRS (m : MRS) (types : Option String) (expressed : Option Bool) :
    List (Var × List (Role × Var)) :=
  m.preds.map (fun p => (p.1, argsOf m types expressed p.2))

/-! ### MRS.scopal_arguments / scope.descendants with an explicit scope map -/

/-- `m.scopal_arguments(scopes=S)`: only `value in S` is asked of `S`, so its keys suffice
(`scopes=None` takes `{ep.label for ep in rels}`, i.e. `m.labels`). -/
def scopalArgumentsWith (m : MRS) (labels : List Var) : List (Var × List (Role × String × Var)) :=
  m.preds.map (fun p => (p.1, m.scopalArgsOf labels p.2))

def scargsWith (m : MRS) (labels : List Var) : List (Var × List Var) :=
  m.preds.map (fun p => (p.1, (m.scopalArgsOf labels p.2).map (fun a => a.2.2)))

/-- `scope.descendants(m, scopes=sc)` for ANY scope map (e.g. a conjoined one, or one of another
structure: a member whose id is no predication of `m` gives the code's `KeyError`). -/
def descendantsWith (m : MRS) (sc : List (Var × List Pred)) : Except Err (List (Var × List Pred)) :=
  descendantsOf (fun p : Pred => p.1) m.ids (scargsWith m (dkeys sc)) sc

/-! ### scope.representatives with a priority function -/

/-- `scope.representatives(m, priority=key)`; `key` returns the sort key of a predication
(pairs ordered lexicographically, the sort is stable). -/
def representativesFrom (m : MRS) (dres : Except Err (List (Var × List Pred)))
    (key : Pred → Nat × Nat) : Except Err (List (Var × List Pred)) :=
  match dres with
  | .error e => .error e
  | .ok descs =>
    let descIds := fun j => ((dlookup j descs).getD []).map (fun p : Pred => p.1)
    .ok (representativesOf (fun p : Pred => p.1) m.nsArgs descIds key m.scopeMap)

def representativesBy (m : MRS) (key : Pred → Nat × Nat) : Except Err (List (Var × List Pred)) :=
  representativesFrom m m.descendants key

/-- the priority functions the harness passes (besides `None`): `revpos` = `lambda p: -position`;
`rankrev` = `lambda p: (default rank, -position)`.  All are tie-free on distinct ids (`sortBy` is an
insertion sort that is only specified up to the order of equal keys; a constant priority — Python's
sort is stable — is judged by the direct oracle only). -/
def priorityMenu (m : MRS) : String → Pred → Nat × Nat
  | "revpos" => fun p => (0, m.ids.length - m.ids.idxOf p.1)
  | "rankrev" => fun p => (m.repRank p, m.ids.length - m.ids.idxOf p.1)
  | _ => m.repKey

/-! ### DMRS.arguments / DMRS.scopal_arguments -/

/-- one link of `d.arguments(types, expressed)`: the `types` test (which may raise) comes BEFORE the
`expressed` test; `expressed=False` drops every link ("DMRS cannot encode unexpressed arguments"). -/
def argsStepX (d : DMRS) (types : Option String) (expressed : Option Bool)
    (acc : List (Int × List (Role × Int))) (l : Link) : Except DErr (List (Int × List (Role × Int))) :=
  if l.role = BARE_EQ_ROLE then .ok acc
  else match d.linkPasses types l with
    | .error e => .error e
    | .ok false => .ok acc
    | .ok true =>
      if expressed = some false then .ok acc
      else if (dlookup l.start acc).isSome then .ok (dextend l.start [(l.role, l.stop)] acc)
      else .error .keyError

def argumentsDMRS (d : DMRS) (types : Option String) (expressed : Option Bool) :
    Except DErr (List (Int × List (Role × Int))) :=
  d.links.foldlM (argsStepX d types expressed) d.emptyArgMap

/-- one link of `d.scopal_arguments()` (no scope map): the target is the raw node id. -/
def scargsStepRaw (acc : List (Int × List (Role × String × Int))) (l : Link) :
    Except DErr (List (Int × List (Role × String × Int))) :=
  let rel : Option String :=
    if l.post = HEQ_POST then some LHEQ else if l.post = H_POST then some QEQ else none
  match rel with
  | none => .ok acc
  | some r =>
    if (dlookup l.start acc).isSome then .ok (dextend l.start [(l.role, r, l.stop)] acc)
    else .error .keyError

def scopalArgumentsRaw (d : DMRS) : Except DErr (List (Int × List (Role × String × Int))) :=
  d.links.foldlM scargsStepRaw d.emptyArgMap

end Verif.C07
