/- C07 helper lemmas (round 6) for `Verif.C07.Api`: option plumbing of arguments / scopal arguments /
descendants / representatives. -/
import Verif.Common.Sem
import Verif.Common.SemLemmas
import Verif.C07.Model
import Verif.C07.Api
import Verif.C07.WfLemmas
import Verif.C07.DescLemmas

namespace Verif.C07
open Verif.Sem

/-! ### MRS.arguments -/

theorem c07a_mem_outArgs (e : EP) (types : Option String) (a : Role × Var) :
    a ∈ e.outArgs types ↔ a ∈ e.args ∧ a.1 ≠ INTRINSIC_ROLE ∧ a.1 ≠ CONSTANT_ROLE ∧
      (∀ t, types = some t → a.2.sortIn t = true) := by
  unfold EP.outArgs
  rw [List.mem_filter]
  cases types with
  | none => simp
  | some t => simp [and_assoc]

theorem c07a_expressedOK (ivs : List Var) (expressed : Option Bool) (v : Var) :
    expressedOK ivs expressed v = true ↔ ∀ b, expressed = some b → (v ∈ ivs ↔ b = true) := by
  unfold expressedOK
  cases expressed with
  | none => simp
  | some b => cases b <;> simp

theorem c07a_mem_argsOf (m : MRS) (types : Option String) (expressed : Option Bool) (e : EP)
    (a : Role × Var) :
    a ∈ argsOf m types expressed e ↔ a ∈ e.args ∧ a.1 ≠ INTRINSIC_ROLE ∧ a.1 ≠ CONSTANT_ROLE ∧
      (∀ t, types = some t → a.2.sortIn t = true) ∧
      (∀ b, expressed = some b → (a.2 ∈ ivSet m ↔ b = true)) := by
  unfold argsOf
  rw [List.mem_filter, c07a_mem_outArgs, c07a_expressedOK]
  simp only [and_assoc]

theorem c07a_argsOf_none (m : MRS) (types : Option String) (e : EP) :
    argsOf m types none e = e.outArgs types := by
  unfold argsOf expressedOK
  simp

/-! ### scopal arguments depend on the scope map through membership only -/

theorem c07a_scopalArgsOf_congr (m : MRS) (l1 l2 : List Var) (h : ∀ x, x ∈ l1 ↔ x ∈ l2) (e : EP) :
    m.scopalArgsOf l1 e = m.scopalArgsOf l2 e := by
  unfold MRS.scopalArgsOf
  congr 1
  funext a
  by_cases h1 : a.2 ∈ l1
  · rw [if_pos h1, if_pos ((h _).1 h1)]
  · rw [if_neg h1, if_neg (fun h2 => h1 ((h _).2 h2))]

theorem c07a_mem_labels_iff (m : MRS) (x : Var) : x ∈ m.labels ↔ x ∈ dkeys m.scopeMap := by
  rw [mem_scopeMap_keys]
  unfold MRS.labels
  rw [List.mem_map]
  constructor
  · rintro ⟨e, he, rfl⟩
    rw [← preds_map_snd m] at he
    obtain ⟨p, hp, rfl⟩ := List.mem_map.1 he
    exact ⟨p, hp, rfl⟩
  · rintro ⟨p, hp, rfl⟩
    refine ⟨p.2, ?_, rfl⟩
    rw [← preds_map_snd m]
    exact List.mem_map.2 ⟨p, hp, rfl⟩

/-! ### sorting by a priority only reorders -/

section SortSec
variable {π : Type}

theorem c07a_insertBy_perm (key : π → Nat × Nat) (x : π) (l : List π) :
    (insertBy key x l).Perm (x :: l) := by
  induction l with
  | nil => exact List.Perm.refl _
  | cons y ys ih =>
    unfold insertBy
    split
    · exact List.Perm.refl _
    · exact ((List.Perm.cons y ih).trans (List.Perm.swap x y ys))

theorem c07a_sortBy_perm (key : π → Nat × Nat) (l : List π) : (sortBy key l).Perm l := by
  induction l with
  | nil => exact List.Perm.refl _
  | cons x xs ih =>
    unfold sortBy
    exact (c07a_insertBy_perm key x _).trans (List.Perm.cons x ih)

/-- strict lexicographic order on the keys -/
def keyLt (a b : Nat × Nat) : Prop := a.1 < b.1 ∨ (a.1 = b.1 ∧ a.2 < b.2)

theorem c07a_insertBy_sorted (key : π → Nat × Nat) (x : π) (l : List π)
    (h : l.Pairwise (fun a b => ¬ keyLt (key b) (key a))) :
    (insertBy key x l).Pairwise (fun a b => ¬ keyLt (key b) (key a)) := by
  induction l with
  | nil => simp [insertBy]
  | cons y ys ih =>
    unfold insertBy
    rw [List.pairwise_cons] at h
    split
    · rename_i hlt
      rw [List.pairwise_cons]
      refine ⟨?_, List.pairwise_cons.2 h⟩
      intro b hb
      rcases List.mem_cons.1 hb with rfl | hb
      · unfold keyLt; omega
      · have := h.1 b hb
        unfold keyLt at this ⊢
        omega
    · rename_i hnlt
      rw [List.pairwise_cons]
      refine ⟨?_, ih h.2⟩
      intro b hb
      have hb' := (c07a_insertBy_perm key x ys).mem_iff.1 hb
      rcases List.mem_cons.1 hb' with rfl | hb'
      · exact hnlt
      · exact h.1 b hb'

theorem c07a_sortBy_sorted (key : π → Nat × Nat) (l : List π) :
    (sortBy key l).Pairwise (fun a b => ¬ keyLt (key b) (key a)) := by
  induction l with
  | nil => simp [sortBy]
  | cons x xs ih =>
    unfold sortBy
    exact c07a_insertBy_sorted key x _ ih

end SortSec

/-! ### DMRS.arguments with `expressed` -/

theorem c07a_argsStepX_none (d : DMRS) (types : Option String) :
    argsStepX d types none = d.argsStep types := by
  funext acc l
  unfold argsStepX DMRS.argsStep
  by_cases hr : l.role = BARE_EQ_ROLE
  · rw [if_pos hr, if_pos hr]
  · rw [if_neg hr, if_neg hr]
    cases d.linkPasses types l with
    | error e => rfl
    | ok b => cases b <;> simp

theorem c07a_argsStepX_true (d : DMRS) (types : Option String) :
    argsStepX d types (some true) = d.argsStep types := by
  funext acc l
  unfold argsStepX DMRS.argsStep
  by_cases hr : l.role = BARE_EQ_ROLE
  · rw [if_pos hr, if_pos hr]
  · rw [if_neg hr, if_neg hr]
    cases d.linkPasses types l with
    | error e => rfl
    | ok b => cases b <;> simp

theorem c07a_foldlM_false (d : DMRS) (types : Option String) :
    ∀ (ls : List Link) (acc r : List (Int × List (Role × Int))),
      ls.foldlM (argsStepX d types (some false)) acc = .ok r → r = acc := by
  intro ls
  induction ls with
  | nil =>
    intro acc r h
    simp only [List.foldlM_nil, pure, Except.pure, Except.ok.injEq] at h
    exact h.symm
  | cons l ls ih =>
    intro acc r h
    rw [List.foldlM_cons] at h
    have hstep : argsStepX d types (some false) acc l = .ok acc ∨
        ∃ e, argsStepX d types (some false) acc l = .error e := by
      unfold argsStepX
      by_cases hr : l.role = BARE_EQ_ROLE
      · rw [if_pos hr]; exact Or.inl rfl
      · rw [if_neg hr]
        cases d.linkPasses types l with
        | error e => exact Or.inr ⟨e, rfl⟩
        | ok b => cases b <;> simp
    rcases hstep with hs | ⟨e, hs⟩
    · rw [hs] at h
      exact ih acc r h
    · rw [hs] at h
      simp [bind, Except.bind] at h

end Verif.C07
