/-
C07 — the SOURCE-TRANSLATION tie (TRANSLATOR.md, round 3): `delphin.util._bfs` as its callers use it, i.e. with
SET-valued adjacency.  `Verif/Generated/TransC07.lean` is regenerated on every run from the current source text; the
order in which CPython iterates a set is unknown, so the translated function iterates `ord <site> s` for an extra
parameter `ord`, and the theorem holds for EVERY `ord` that returns a permutation of its argument.
`bfs_translated`: with fuel ≥ 2 + (|edges| + 1) · |nodeUniverse edges start| (one more than the fuel the model's
`Sem.bfs` gives itself) the translated `_bfs` returns a duplicate-free list with exactly the elements of the model's
`bfs edges start`, for every adjacency dict `g` whose sets hold the out-neighbours of `edges`.
-/
import Verif.Generated.TransC07
import Verif.Common.SemLemmas
import Verif.Common.PyRtLemmas

namespace Verif.C07.Translated
open Verif.PyRt Verif.Sem

section Generic
variable {α : Type} [DecidableEq α]

/-- the state of the translated `while agenda:` loop after `fuel` rounds: (`seen` in insertion order, agenda, the loop
ended by its test).  Same recursion as the model's `bfsLoop`, whose `seen` is kept most-recent-first. -/
def runSt (adj : α → List α) : Nat → List α → List α → List α × List α × Bool
  | 0, ag, seen => (seen.reverse, ag, false)
  | _ + 1, [], seen => (seen.reverse, [], true)
  | f + 1, x :: ag, seen =>
    if x ∈ seen then runSt adj f ag seen
    else runSt adj f (ag ++ (adj x).filter (fun y => y ∉ x :: seen)) (x :: seen)

theorem runSt_seen (adj : α → List α) : ∀ (f : Nat) (ag seen : List α),
    (runSt adj f ag seen).2.2 = true → (runSt adj f ag seen).1 = (bfsLoop adj f ag seen).reverse := by
  intro f
  induction f with
  | zero => intro ag seen h; simp [runSt] at h
  | succ f ih =>
    intro ag seen h
    cases ag with
    | nil => simp [runSt, bfsLoop]
    | cons x ag =>
      by_cases hx : x ∈ seen
      · simp only [runSt, bfsLoop, hx, if_true] at h ⊢
        exact ih _ _ h
      · simp only [runSt, bfsLoop, hx, if_false] at h ⊢
        exact ih _ _ h

theorem runSt_nodup (adj : α → List α) : ∀ (f : Nat) (ag seen : List α), seen.Nodup → (runSt adj f ag seen).1.Nodup := by
  intro f
  induction f with
  | zero => intro ag seen h; exact (List.reverse_perm seen).nodup_iff.2 h
  | succ f ih =>
    intro ag seen h
    cases ag with
    | nil => exact (List.reverse_perm seen).nodup_iff.2 h
    | cons x ag =>
      by_cases hx : x ∈ seen
      · simp only [runSt, hx, if_true]; exact ih _ _ h
      · simp only [runSt, hx, if_false]; exact ih _ _ (List.nodup_cons.2 ⟨hx, h⟩)

/-- termination: the measure of `SemLemmas.bfsLoop_complete`, plus one round to see the empty agenda. -/
theorem runSt_done (adj : α → List α) (U : List α) (K : Nat)
    (hK : ∀ u, (adj u).length ≤ K) (hU : ∀ u v, v ∈ adj u → v ∈ U) :
    ∀ (f : Nat) (ag seen : List α),
      ag.length + (K + 1) * (U.filter (fun u => u ∉ seen)).length + 1 ≤ f →
      (∀ a ∈ ag, a ∈ U) → (runSt adj f ag seen).2.2 = true := by
  intro f
  induction f with
  | zero => intro ag seen h; omega
  | succ f ih =>
    intro ag seen h hag
    cases ag with
    | nil => simp [runSt]
    | cons x ag =>
      by_cases hx : x ∈ seen
      · simp only [runSt, hx, if_true]
        apply ih
        · simp only [List.length_cons] at h; omega
        · exact fun a ha => hag a (List.mem_cons_of_mem _ ha)
      · simp only [runSt, hx, if_false]
        apply ih
        · have hlt := filter_notMem_cons_lt U seen x (hag x List.mem_cons_self) hx
          have hfl : ((adj x).filter (fun y => y ∉ x :: seen)).length ≤ K :=
            Nat.le_trans (List.length_filter_le _ _) (hK x)
          simp only [List.length_cons, List.length_append] at h ⊢
          have hm : (K + 1) * (List.filter (fun u => decide (u ∉ x :: seen)) U).length + (K + 1)
              ≤ (K + 1) * (List.filter (fun u => decide (u ∉ seen)) U).length := by
            have := Nat.mul_le_mul_left (K + 1) hlt
            rw [Nat.mul_succ] at this
            exact this
          omega
        · intro a ha
          rcases List.mem_append.1 ha with h1 | h1
          · exact hag a (List.mem_cons_of_mem _ h1)
          · exact hU x a (List.mem_filter.1 h1).1

omit [DecidableEq α] in
theorem Reach.congr {adj adj' : α → List α} (h : ∀ x y, y ∈ adj x ↔ y ∈ adj' x) {a b : α} :
    Reach adj a b → Reach adj' a b := by
  intro hr
  induction hr with
  | refl => exact Reach.refl _
  | tail _ hc ih => exact Reach.tail ih ((h _ _).1 hc)

/-- the body of the translated `while agenda:` loop. -/
def bfsBody (adj : α → List α) (_ : Unit) (st : List α × List α × Bool) :
    Except PyErr (ForInStep (List α × List α × Bool)) :=
  match st.2.1 with
  | [] => pure (.done (st.1, [], true))
  | x :: ag =>
    if x ∈ st.1 then pure (.yield (st.1, ag, st.2.2))
    else pure (.yield (st.1 ++ [x], ag ++ (adj x).filter (fun y => y ∉ st.1 ++ [x]), st.2.2))

theorem bfs_loop (adj : α → List α) : ∀ (f : Nat) (ag seen : List α),
    forIn (List.replicate f ()) (seen.reverse, ag, false) (bfsBody adj) = .ok (runSt adj f ag seen) := by
  intro f
  induction f with
  | zero => intro ag seen; rfl
  | succ f ih =>
    intro ag seen
    rw [forIn_replicate_succ]
    cases ag with
    | nil => rfl
    | cons x ag =>
      by_cases hx : x ∈ seen
      · have hx' : x ∈ seen.reverse := List.mem_reverse.2 hx
        simp only [bfsBody, hx', if_true, runSt, hx]
        exact ih ag seen
      · have hx' : ¬ x ∈ seen.reverse := fun h => hx (List.mem_reverse.1 h)
        simp only [bfsBody, hx', if_false, runSt, hx]
        have hf : (fun y => decide (y ∉ seen.reverse ++ [x])) = (fun y => decide (y ∉ x :: seen)) := by
          funext y; simp [or_comm]
        have := ih (ag ++ (adj x).filter (fun y => y ∉ x :: seen)) (x :: seen)
        simp only [List.reverse_cons] at this
        rw [hf]
        exact this

end Generic

/-! ### the translated loop -/

abbrev Nd := List Char
abbrev Ord := Nat → {α : Type} → List α → List α

/-- the adjacency the translated `_bfs` sees: the set `g.get(x, [])` in the order CPython happens to iterate it. -/
def adjT (ord : Ord) (g : Dict Nd (List Nd)) (x : Nd) : List Nd := ord 1 (pyDictGetD g x [])

theorem bfs_unfold (fuel : Nat) (ord : Ord) (g : Dict Nd (List Nd)) (start : Nd) (hg : g ≠ []) :
    Verif.Trans.C07.bfs fuel ord g start
      = (if (runSt (adjT ord g) fuel [start] []).2.2 then .ok (runSt (adjT ord g) fuel [start] []).1
         else .error .fuel) := by
  have hb : (fun (x : Unit) (__s : List Nd × List Nd × Bool) =>
      (if (!!List.isEmpty __s.2.1) = true then pure (ForInStep.done (__s.1, __s.2.1, true))
       else do
         let t2_ ← pyPopLeft __s.2.1
         if (!List.contains __s.1 t2_.1) = true then
           pure (ForInStep.yield (pySetAdd __s.1 t2_.1, t2_.2 ++ List.map (fun y => y)
             (List.filter (fun y => !List.contains (pySetAdd __s.1 t2_.1) y) (ord 1 (pyDictGetD g t2_.1 []))), __s.2.2))
         else pure (ForInStep.yield (__s.1, t2_.2, __s.2.2)) : Except PyErr _)) = bfsBody (adjT ord g) := by
    funext u st
    rcases st with ⟨seen, ag, w⟩
    cases ag with
    | nil => rfl
    | cons x ag =>
      by_cases hx : x ∈ seen
      · simp [bfsBody, pyPopLeft, hx, bind, Except.bind, pure, Except.pure]
      · simp [bfsBody, pyPopLeft, hx, pySetAdd, adjT, bind, Except.bind, pure, Except.pure]
  have hne : (!!List.isEmpty g) = false := by cases g with | nil => exact absurd rfl hg | cons _ _ => rfl
  unfold Verif.Trans.C07.bfs
  simp only [hne, Bool.false_eq_true, if_false]
  show (forIn (List.replicate fuel ()) (([] : List Nd).reverse, [start], false) _ >>= _) = _
  rw [hb, bfs_loop]
  cases h : (runSt (adjT ord g) fuel [start] []).2.2 <;> simp [h, bind, Except.bind, pure, Except.pure, throw, throwThe, MonadExceptOf.throw]

/-- `util._bfs(g, start)` (source; set-valued adjacency iterated in ANY order) has, given enough fuel, exactly the
elements of the model's `bfs edges start`, each once. -/
theorem bfs_translated (ord : Ord) (hord : ∀ (k : Nat) (l : List Nd), (ord k l).Perm l)
    (g : Dict Nd (List Nd)) (edges : List (Nd × Nd)) (start : Nd) (hne : g ≠ [])
    (hg : ∀ x y, y ∈ pyDictGetD g x [] ↔ y ∈ adjOf edges x)
    (hnd : ∀ x, (pyDictGetD g x []).Nodup)
    (fuel : Nat) (hfuel : 2 + (edges.length + 1) * (nodeUniverse edges start).length ≤ fuel) :
    ∃ r, Verif.Trans.C07.bfs fuel ord g start = .ok r ∧ r.Nodup ∧ ∀ x, x ∈ r ↔ x ∈ Sem.bfs edges start := by
  have hadj : ∀ x y, y ∈ adjT ord g x ↔ y ∈ adjOf edges x := by
    intro x y; unfold adjT; rw [(hord 1 _).mem_iff]; exact hg x y
  have hK : ∀ u, (adjT ord g u).length ≤ edges.length := by
    intro u
    unfold adjT
    rw [(hord 1 _).length_eq]
    exact Nat.le_trans (nodup_length_le_of_subset _ _ (hnd u) (fun y hy => (hg u y).1 hy)) (length_adjOf_le edges u)
  have hU : ∀ u v, v ∈ adjT ord g u → v ∈ nodeUniverse edges start :=
    fun u v h => mem_nodeUniverse_of_adjOf edges start u v ((hadj u v).1 h)
  have hμ : ([start] : List Nd).length + (edges.length + 1) *
      ((nodeUniverse edges start).filter (fun u => u ∉ ([] : List Nd))).length + 1 ≤ fuel := by
    have := Nat.mul_le_mul_left (edges.length + 1)
      (List.length_filter_le (fun u => decide (u ∉ ([] : List Nd))) (nodeUniverse edges start))
    simp only [List.length_cons, List.length_nil]
    omega
  have hstart : ∀ a ∈ [start], a ∈ nodeUniverse edges start := by
    intro a ha; rw [List.mem_singleton.1 ha]; exact List.mem_cons_self
  have hdone := runSt_done (adjT ord g) (nodeUniverse edges start) edges.length hK hU fuel [start] [] hμ hstart
  refine ⟨(runSt (adjT ord g) fuel [start] []).1, ?_, runSt_nodup _ _ _ _ List.nodup_nil, ?_⟩
  · rw [bfs_unfold fuel ord g start hne, hdone]; rfl
  · intro x
    rw [runSt_seen _ _ _ _ hdone, List.mem_reverse, bfs_correct]
    constructor
    · intro h
      rcases bfsLoop_sound (adjT ord g) _ [start] [] x h with h | ⟨a, ha, hr⟩
      · exact absurd h List.not_mem_nil
      · rw [List.mem_singleton.1 ha] at hr; exact Reach.congr hadj hr
    · intro h
      obtain ⟨_, h2, h3⟩ := bfsLoop_complete (adjT ord g) (nodeUniverse edges start) edges.length hK hU
        fuel [start] [] (fun u hu => absurd hu List.not_mem_nil) (Nat.le_of_succ_le hμ) hstart
      exact Reach.mem_of_closed h3 (h2 start List.mem_cons_self) (Reach.congr (fun a b => (hadj a b).symm) h)

/-- the branch of `_connected_components` without edges (the full theorem `connected_components_translated` is in
TranslatedComponents.lean). -/
theorem connected_components_translated_partial (fuel : Nat) (ord : Ord) (nodes : List Nd) :
    Verif.Trans.C07.connected_components fuel ord nodes []
      = .ok (nodes.map (fun n => [n])) ∧
    (connectedComponents nodes ([] : List (Nd × Nd)) : Except Sem.Err _) = .ok (nodes.map (fun n => [n])) := by
  constructor
  · unfold Verif.Trans.C07.connected_components
    simp [pySetOfList, pySetUpdate, pySetAdd]
    rfl
  · rfl

end Verif.C07.Translated
