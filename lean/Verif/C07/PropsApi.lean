/-
C07 (round 6) — property theorems about the OPTION PLUMBING of the anchored functions
(`Verif.C07.Api`) and about the CONTENT of the descendant lists.

The clauses of the property go through `MRS.arguments(types=…)`, `MRS.scopal_arguments(scopes=…)`,
`scope.descendants(x, scopes=…)` and `scope.representatives(x, priority=…)`; the theorems of
`Props.lean` speak about the default call paths.  Here: every option value, every scope map, every
priority function.
-/
import Verif.C07.Model
import Verif.C07.Api
import Verif.C07.ApiLemmas
import Verif.C07.DescLemmas
import Verif.Common.SemLemmas
import Verif.C07.WfLemmas
import Verif.Generated.TablesC07

namespace Verif.C07
open Verif.Sem

/-! ## A. `MRS.arguments(types, expressed)` equals its definition -/

/-- `m.arguments(...)` has exactly the predication ids as keys, in `rels` order, for every option. -/
theorem argumentsMRS_keys (m : MRS) (types : Option String) (expressed : Option Bool) :
    dkeys (argumentsMRS m types expressed) = m.ids := by
  unfold argumentsMRS dkeys
  rw [List.map_map]
  exact preds_map_fst m

/-- "arguments …": the entry of a predication lists exactly its role/value pairs other than ARG0 and
CARG whose sort occurs in `types` (when given) and whose being some predication's intrinsic variable
agrees with `expressed` (when given) — in argument order (`argsOf` is a filter of `e.args`). -/
theorem argumentsMRS_spec (m : MRS) (types : Option String) (expressed : Option Bool) :
    argumentsMRS m types expressed = m.preds.map (fun p => (p.1, argsOf m types expressed p.2)) ∧
    ∀ (e : EP) (a : Role × Var),
      a ∈ argsOf m types expressed e ↔ a ∈ e.args ∧ a.1 ≠ INTRINSIC_ROLE ∧ a.1 ≠ CONSTANT_ROLE ∧
        (∀ t, types = some t → a.2.sortIn t = true) ∧
        (∀ b, expressed = some b → (a.2 ∈ ivSet m ↔ b = true)) :=
  ⟨rfl, fun e a => c07a_mem_argsOf m types expressed e a⟩

/-- without `expressed` the option layer is the `EP.outArgs` the well-formedness tests and the scope
functions of `Verif.Common.Sem` are built on (`graphEdges`: `types=None`; `handleArgs`: `'h'`;
`nsArgs`: `'xeipu'`). -/
theorem argumentsMRS_default (m : MRS) (types : Option String) :
    argumentsMRS m types none = m.preds.map (fun p => (p.1, p.2.outArgs types)) := by
  unfold argumentsMRS
  congr 1
  funext p
  rw [c07a_argsOf_none]

/-- `expressed=True` and `expressed=False` split the unrestricted answer: every argument is in exactly
one of the two. -/
theorem argumentsMRS_expressed_split (m : MRS) (types : Option String) (e : EP) (a : Role × Var) :
    (a ∈ argsOf m types none e ↔
      (a ∈ argsOf m types (some true) e ∨ a ∈ argsOf m types (some false) e)) ∧
    ¬ (a ∈ argsOf m types (some true) e ∧ a ∈ argsOf m types (some false) e) := by
  simp only [c07a_mem_argsOf]
  by_cases hiv : a.2 ∈ ivSet m
  · simp [hiv]
  · simp [hiv]

/-- non-vacuity: an EP with a handle argument, an expressed and an unexpressed variable argument. -/
example :
    let a : EP := { predicate := "_try_v_1", label := ⟨"h", 1⟩,
                    args := [("ARG0", ⟨"e", 2⟩), ("ARG1", ⟨"x", 3⟩), ("ARG2", ⟨"h", 4⟩), ("ARG3", ⟨"i", 9⟩)] }
    let b : EP := { predicate := "_dog_n_1", label := ⟨"h", 5⟩, args := [("ARG0", ⟨"x", 3⟩)] }
    let m : MRS := { top := none, index := none, rels := [a, b], hcons := [] }
    argumentsMRS m none none =
        [(⟨"e", 2⟩, [("ARG1", ⟨"x", 3⟩), ("ARG2", ⟨"h", 4⟩), ("ARG3", ⟨"i", 9⟩)]), (⟨"x", 3⟩, [])] ∧
    argumentsMRS m (some "h") none = [(⟨"e", 2⟩, [("ARG2", ⟨"h", 4⟩)]), (⟨"x", 3⟩, [])] ∧
    argumentsMRS m (some "xeipu") (some true) = [(⟨"e", 2⟩, [("ARG1", ⟨"x", 3⟩)]), (⟨"x", 3⟩, [])] ∧
    argumentsMRS m (some "xeipu") (some false) = [(⟨"e", 2⟩, [("ARG3", ⟨"i", 9⟩)]), (⟨"x", 3⟩, [])] ∧
    argumentsMRS m (some "") none = [(⟨"e", 2⟩, []), (⟨"x", 3⟩, [])] := by
  refine ⟨by decide, by decide, by decide, by decide, by decide⟩

/-! ## B. `scopal_arguments(scopes=…)`: only membership in the scope map matters -/

/-- `m.scopal_arguments(scopes=S)` depends on `S` only through the SET of its keys: key order (Python
`dict`/`set` order of a conjoined map) and the predication lists are irrelevant. -/
theorem scopalArgumentsWith_congr (m : MRS) (l1 l2 : List Var) (h : ∀ x, x ∈ l1 ↔ x ∈ l2) :
    scopalArgumentsWith m l1 = scopalArgumentsWith m l2 := by
  unfold scopalArgumentsWith
  congr 1
  funext p
  rw [c07a_scopalArgsOf_congr m l1 l2 h]

/-- the default call path `m.scopal_arguments()` (`scopes=None`: the set of labels) gives what
`m.scopal_arguments(scopes=m.scopes()[1])` gives. -/
theorem scopalArgumentsWith_default (m : MRS) :
    scopalArgumentsWith m m.labels = scopalArguments m := by
  unfold scopalArguments
  exact scopalArgumentsWith_congr m _ _ (c07a_mem_labels_iff m)

/-! ## C. `scope.descendants(m, scopes=…)` on every scope map: termination and content -/

/-- the default call path is the explicit one on the MRS's own scope map. -/
theorem descendantsWith_own (m : MRS) : descendantsWith m m.scopeMap = m.descendants := rfl

/-- "scope descendants … always terminate" — for EVERY scope map handed in (a conjoined one, a
re-ordered one, one with scopes dropped or duplicated), as long as its members are predications of
`m`: the fuelled recursion returns normally with an entry for every predication. -/
theorem descendantsWith_total (m : MRS) (sc : List (Var × List Pred))
    (hsc : ∀ s ∈ sc, ∀ p ∈ s.2, p.1 ∈ m.ids) :
    ∃ r, descendantsWith m sc = .ok r ∧ ∀ i ∈ m.ids, i ∈ dkeys r := by
  unfold descendantsWith
  apply descendantsOf_total
  · unfold scargsWith dkeys
    rw [List.map_map]
    exact preds_map_fst m
  · intro l ps hl p hp
    exact hsc _ (dlookup_mem hl) p hp

def fmA : EP := { predicate := "neg", label := ⟨"h", 1⟩, args := [("ARG0", ⟨"e", 2⟩), ("ARG1", ⟨"h", 3⟩)] }
def fmZ : EP := { predicate := "_z", label := ⟨"h", 3⟩, args := [("ARG0", ⟨"e", 9⟩)] }
def fmM : MRS := { top := none, index := none, rels := [fmA], hcons := [] }

/-- the hypothesis of `descendantsWith_total` is necessary: a scope map with a member that is no
predication of `m` makes `_descendants` fail on `scargs[id]` (KeyError). -/
theorem descendantsWith_foreign_member :
    descendantsWith fmM [(⟨"h", 3⟩, [(⟨"e", 9⟩, fmZ)])] = .error .keyError := by
  rfl

/-- Content of the descendant lists, on EVERY MRS and EVERY scope map (cyclic handle constraints and
self-scoping arguments included): each listed predication is a scopal descendant of its key — it is
reached from the key by one or more steps "a scopal argument of the predication (a label of the
scope map, or a hole resolved by the last handle constraint on it) selects a scope of which the
next predication is a member" (`ScSucc`, `ScDesc`).  (The converse holds on acyclic structures only:
the memo of a predication that is still being visited is incomplete; compared on every case.) -/
theorem descendantsWith_sound (m : MRS) (sc : List (Var × List Pred)) (r : List (Var × List Pred))
    (h : descendantsWith m sc = .ok r) :
    ∀ e ∈ r, ∀ p ∈ e.2,
      ScDesc (fun p : Pred => p.1) (scargsWith m (dkeys sc)) sc e.1 p :=
  descendantsOf_sound _ _ _ _ r h

theorem descendants_sound (m : MRS) (r : List (Var × List Pred)) (h : m.descendants = .ok r) :
    ∀ e ∈ r, ∀ p ∈ e.2, ScDesc (fun p : Pred => p.1) m.scargs m.scopeMap e.1 p :=
  descendantsOf_sound _ _ _ _ r h

/-- … and every DIRECT scopal successor is listed, cycles or not: the list of a predication contains
each member of each scope selected by one of its scopal arguments.  With `descendantsWith_sound`:
direct successors ⊆ listed ⊆ scopal descendants, on every MRS and every scope map. -/
theorem descendantsWith_direct (m : MRS) (sc : List (Var × List Pred)) (r : List (Var × List Pred))
    (h : descendantsWith m sc = .ok r) :
    ∀ i ∈ dkeys r, ∃ ps, dlookup i r = some ps ∧
      ∀ q, ScSucc (scargsWith m (dkeys sc)) sc i q → q ∈ ps := by
  intro i hi
  exact descendantsOf_direct _ _ _ _ r h i ((dlookup_isSome_iff i r).2 hi)

theorem descendants_direct (m : MRS) (r : List (Var × List Pred)) (h : m.descendants = .ok r) :
    ∀ i ∈ m.ids, ∃ ps, dlookup i r = some ps ∧ ∀ q, ScSucc m.scargs m.scopeMap i q → q ∈ ps := by
  intro i hi
  obtain ⟨r', hr', hk⟩ := MRS.descendants_total m
  rw [h] at hr'
  simp only [Except.ok.injEq] at hr'
  subst hr'
  exact descendantsOf_direct _ _ _ _ r h i ((dlookup_isSome_iff i r).2 (hk i hi))

/-- one scopal step, spelled out on the MRS: `q` is a member of the scope `l` and `l` is selected by
an argument of the predication with id `i`. -/
theorem scSucc_iff (m : MRS) (labels : List Var) (sc : List (Var × List Pred)) (i : Var) (q : Pred)
    (hnd : m.ids.Nodup) :
    ScSucc (scargsWith m labels) sc i q ↔
      ∃ p ∈ m.preds, p.1 = i ∧ ∃ a ∈ m.scopalArgsOf labels p.2, q ∈ (dlookup a.2.2 sc).getD [] := by
  unfold ScSucc
  have hkeys : dkeys (scargsWith m labels) = m.ids := by
    unfold scargsWith dkeys
    rw [List.map_map]
    exact preds_map_fst m
  constructor
  · rintro ⟨ls, hl, l, hlm, hq⟩
    have hmem := dlookup_mem hl
    unfold scargsWith at hmem
    obtain ⟨p, hp, heq⟩ := List.mem_map.1 hmem
    simp only [Prod.mk.injEq] at heq
    obtain ⟨hi, hls⟩ := heq
    subst hls
    obtain ⟨a, ha, rfl⟩ := List.mem_map.1 hlm
    exact ⟨p, hp, hi, a, ha, hq⟩
  · rintro ⟨p, hp, rfl, a, ha, hq⟩
    refine ⟨(m.scopalArgsOf labels p.2).map (fun a => a.2.2), ?_, a.2.2, List.mem_map.2 ⟨a, ha, rfl⟩, hq⟩
    apply dlookup_of_mem_nodup (by rw [hkeys]; exact hnd)
    unfold scargsWith
    exact List.mem_map.2 ⟨p, hp, rfl⟩

/-- the descendant lists of a DMRS, for every scope map: sound as well. -/
theorem dmrsDescendantsSound (d : DMRS) (sc : List (Var × List Node)) (r : List (Int × List Node))
    (scargs : List (Int × List (Role × String × Option Var)))
    (hs : d.scopalArguments sc = .ok scargs) (h : d.descendantsWith sc = .ok r) :
    ∀ e ∈ r, ∀ n ∈ e.2,
      ScDesc (fun n : Node => n.id) (scargs.map (fun e => (e.1, e.2.filterMap (fun a => a.2.2)))) sc e.1 n := by
  unfold DMRS.descendantsWith at h
  rw [hs] at h
  simp only [] at h
  split at h
  · simp at h
  · split at h
    · rename_i r' hr
      simp only [Except.ok.injEq] at h
      subst h
      exact descendantsOf_sound _ _ _ _ _ hr
    · simp at h
    · simp at h

/-- non-vacuity of `descendantsWith_sound` / `_total`: "Kim didn't think that Sandy left"-shape with
the scopes of `neg`'s argument and `_think`'s argument conjoined: descendants over the conjoined map. -/
example :
    let neg : EP := { predicate := "neg", label := ⟨"h", 1⟩, args := [("ARG0", ⟨"e", 2⟩), ("ARG1", ⟨"h", 3⟩)] }
    let think : EP := { predicate := "_think_v_1", label := ⟨"h", 4⟩, args := [("ARG0", ⟨"e", 5⟩), ("ARG2", ⟨"h", 6⟩)] }
    let leave : EP := { predicate := "_leave_v_1", label := ⟨"h", 7⟩, args := [("ARG0", ⟨"e", 8⟩)] }
    let m : MRS := { top := some ⟨"h", 0⟩, index := none, rels := [neg, think, leave],
                     hcons := [⟨⟨"h", 0⟩, "qeq", ⟨"h", 1⟩⟩, ⟨⟨"h", 3⟩, "qeq", ⟨"h", 4⟩⟩, ⟨⟨"h", 6⟩, "qeq", ⟨"h", 7⟩⟩] }
    let conj : List (Var × List Pred) :=
      [(⟨"h", 1⟩, [(⟨"e", 2⟩, neg)]), (⟨"h", 7⟩, [(⟨"e", 8⟩, leave), (⟨"e", 5⟩, think)])]
    m.descendants = .ok [(⟨"e", 2⟩, [(⟨"e", 5⟩, think), (⟨"e", 8⟩, leave)]),
                         (⟨"e", 5⟩, [(⟨"e", 8⟩, leave)]), (⟨"e", 8⟩, [])] ∧
    -- over the conjoined map h4 is no key any more: neg's argument (qeq h4) selects nothing;
    -- _think's argument (qeq h7) selects the merged scope, which contains _think itself: its
    -- unfinished list is appended to itself (the doubling on self-scoping structures)
    descendantsWith m conj =
      .ok [(⟨"e", 2⟩, []),
           (⟨"e", 5⟩, [(⟨"e", 8⟩, leave), (⟨"e", 5⟩, think), (⟨"e", 8⟩, leave), (⟨"e", 5⟩, think)]),
           (⟨"e", 8⟩, [])] := by
  refine ⟨by rfl, by rfl⟩

/-! ## D. `scope.representatives(m, priority=…)`: the priority only reorders -/

/-- the default priority is `repKey`. -/
theorem representativesBy_default (m : MRS) : representativesBy m m.repKey = m.representatives := by
  unfold representativesBy representativesFrom MRS.representatives
  cases m.descendants <;> rfl

/-- "… and representatives always terminate, with each representative a member of its scope" — for
EVERY priority function. -/
theorem representativesBy_total_subset (m : MRS) (key : Pred → Nat × Nat) :
    ∃ reps, representativesBy m key = .ok reps ∧ dkeys reps = dkeys m.scopes.2 ∧
      ∀ l rs, (l, rs) ∈ reps → ∃ sc, (l, sc) ∈ m.scopes.2 ∧ ∀ r ∈ rs, r ∈ sc := by
  obtain ⟨descs, hd, _⟩ := MRS.descendants_total m
  have hsc : m.scopes.2 = m.scopeMap := rfl
  rw [hsc]
  unfold representativesBy representativesFrom
  rw [hd]
  refine ⟨_, rfl, ?_, ?_⟩
  · simp [representativesOf, dkeys, List.map_map, Function.comp_def]
  · intro l rs hmem
    unfold representativesOf at hmem
    simp only [List.mem_map] at hmem
    obtain ⟨⟨l', sc⟩, hs, heq⟩ := hmem
    simp only [Prod.mk.injEq] at heq
    obtain ⟨rfl, rfl⟩ := heq
    refine ⟨sc, hs, ?_⟩
    intro r hr
    rw [mem_sortBy] at hr
    exact candidates_subset _ _ _ _ _ hr

/-- the priority function decides the ORDER only: under any two priorities the representatives of
every scope are permutations of each other (so "every scope has at least one" and membership do not
depend on it), and each list is sorted by its priority (no element precedes one with a strictly
smaller key). -/
theorem representativesBy_perm_sorted (m : MRS) (k1 k2 : Pred → Nat × Nat)
    (r1 r2 : List (Var × List Pred))
    (h1 : representativesBy m k1 = .ok r1) (h2 : representativesBy m k2 = .ok r2) :
    r1.length = r2.length ∧ (∀ ab ∈ r1.zip r2, ab.1.1 = ab.2.1 ∧ ab.1.2.Perm ab.2.2) ∧
    ∀ s ∈ r1, s.2.Pairwise (fun a b => ¬ keyLt (k1 b) (k1 a)) := by
  unfold representativesBy representativesFrom at h1 h2
  cases hd : m.descendants with
  | error e => rw [hd] at h1; simp at h1
  | ok descs =>
    rw [hd] at h1 h2
    simp only [Except.ok.injEq] at h1 h2
    subst h1 h2
    unfold representativesOf
    refine ⟨by simp, ?_, ?_⟩
    · generalize m.scopeMap = sm
      induction sm with
      | nil => intro ab hab; simp at hab
      | cons s sm ih =>
        intro ab hab
        simp only [List.map_cons, List.zip_cons_cons, List.mem_cons] at hab
        rcases hab with rfl | hab
        · exact ⟨rfl, (c07a_sortBy_perm k1 _).trans (c07a_sortBy_perm k2 _).symm⟩
        · exact ih ab hab
    · intro s hs
      obtain ⟨s', _, rfl⟩ := List.mem_map.1 hs
      exact c07a_sortBy_sorted k1 _

/-- non-vacuity: one scope with two unblocked members; default priority puts the tensed eventuality
first; `revpos` puts the later predication first; `rankrev` ranks first, later first among equals. -/
example :
    let a : EP := { predicate := "_a_a_1", label := ⟨"h", 1⟩, args := [("ARG0", ⟨"e", 2⟩)] }
    let b : EP := { predicate := "_b_v_1", label := ⟨"h", 1⟩, args := [("ARG0", ⟨"e", 3⟩)] }
    let m : MRS := { top := some ⟨"h", 0⟩, index := none, rels := [a, b],
                     hcons := [⟨⟨"h", 0⟩, "qeq", ⟨"h", 1⟩⟩],
                     variables := [(⟨"e", 3⟩, [("TENSE", "past")])] }
    representativesBy m (priorityMenu m "default") = .ok [(⟨"h", 1⟩, [(⟨"e", 3⟩, b), (⟨"e", 2⟩, a)])] ∧
    representativesBy m (priorityMenu m "revpos") = .ok [(⟨"h", 1⟩, [(⟨"e", 3⟩, b), (⟨"e", 2⟩, a)])] ∧
    representativesBy m (priorityMenu m "rankrev") = .ok [(⟨"h", 1⟩, [(⟨"e", 3⟩, b), (⟨"e", 2⟩, a)])] := by
  refine ⟨by rfl, by rfl, by rfl⟩

/-! ## E. DMRS.arguments(types, expressed), DMRS.scopal_arguments() -/

/-- `expressed=None` and `expressed=True` are the plain `d.arguments(types)`; with `expressed=False`
no argument is listed (the call can still raise: the `types` test comes first). -/
theorem argumentsDMRS_expressed (d : DMRS) (types : Option String) :
    argumentsDMRS d types none = d.arguments types ∧
    argumentsDMRS d types (some true) = d.arguments types ∧
    ∀ r, argumentsDMRS d types (some false) = .ok r → r = d.emptyArgMap := by
  refine ⟨?_, ?_, ?_⟩
  · unfold argumentsDMRS DMRS.arguments
    rw [c07a_argsStepX_none]
  · unfold argumentsDMRS DMRS.arguments
    rw [c07a_argsStepX_true]
  · intro r h
    exact c07a_foldlM_false d types _ _ r h

/-- … and it does raise: `expressed=False` with a `types` filter on a link to a missing node. -/
theorem argumentsDMRS_false_raises :
    let d : DMRS := { top := none, index := none, nodes := [{ id := 1, predicate := "p" }],
                      links := [⟨1, 9, "ARG1", "NEQ"⟩] }
    argumentsDMRS d (some "x") (some false) = .error .keyError ∧
    argumentsDMRS d none (some false) = .ok [(1, [])] := by
  refine ⟨by rfl, by rfl⟩


/-! ## F. Pins of the shared support code (round 6)

The anchored functions go through `variable.type`/`variable.id` (sort and number of a variable),
`SemanticStructure.__init__/__getitem__/__contains__` (`m[id]`, the `_pidx` index keyed by id, last
predication wins), `Predication.__init__`, `ScopingSemanticStructure.__init__`, `MRS.__init__`
(`_uniquify_ids` BEFORE the index is built, `_fill_variables`), `EP.__eq__`, `Node.__init__`,
`Link.__init__`; and the public names `delphin.mrs.is_connected` … are the anchored functions themselves.
Read from the live code objects on every run (`harness/c07.py: tables()`), as in `c07_pins`. -/
open Verif.Tables in
theorem c07_pins_support :
    c07VariableTypeConsts = ["0"] ∧
    c07VariableTypeNames = ["split"] ∧
    c07VariableTypeDefaults = [] ∧
    c07VariableIdConsts = ["1"] ∧
    c07VariableIdNames = ["int", "split"] ∧
    c07VariableIdDefaults = [] ∧
    c07SemStructInitConsts = ["None"] ∧
    c07SemStructInitNames = ["super", "__init__", "top", "predications", "id", "_pidx", "identifier"] ∧
    c07SemStructInitDefaults = [] ∧
    c07SemStructGetitemConsts = ["None"] ∧
    c07SemStructGetitemNames = ["KeyError", "_pidx"] ∧
    c07SemStructGetitemDefaults = [] ∧
    c07SemStructContainsConsts = ["None"] ∧
    c07SemStructContainsNames = ["_pidx"] ∧
    c07SemStructContainsDefaults = [] ∧
    c07PredicationInitConsts = ["None"] ∧
    c07PredicationInitNames = ["super", "__init__", "id", "predicate", "type", "base"] ∧
    c07PredicationInitDefaults = [] ∧
    c07ScopingInitConsts = ["None"] ∧
    c07ScopingInitNames = ["super", "__init__", "index"] ∧
    c07ScopingInitDefaults = [] ∧
    c07MrsInitConsts = ["None"] ∧
    c07MrsInitNames = ["_uniquify_ids", "super", "__init__", "list", "hcons", "icons", "_fill_variables", "variables"] ∧
    c07MrsInitDefaults = ["None", "None", "None", "None", "None", "None", "None", "None", "None"] ∧
    c07FillVariablesConsts = ["None"] ∧
    c07FillVariablesNames = ["label", "args", "items", "CONSTANT_ROLE", "lo", "hi", "left", "right"] ∧
    c07FillVariablesDefaults = [] ∧
    c07EpEqConsts = ["None"] ∧
    c07EpEqNames = ["predicate", "label", "args"] ∧
    c07EpEqDefaults = [] ∧
    c07NodeInitConsts = ["None"] ∧
    c07NodeInitNames = ["int", "super", "__init__", "properties", "carg"] ∧
    c07NodeInitDefaults = ["None", "None", "None", "None", "None", "None"] ∧
    c07LinkInitConsts = ["None"] ∧
    c07LinkInitNames = ["int", "start", "end", "role", "post"] ∧
    c07LinkInitDefaults = [] ∧
    c07Exports = [("is_connected", true), ("has_intrinsic_variable_property", true), ("has_complete_intrinsic_variables", true), ("has_unique_intrinsic_variables", true), ("plausibly_scopes", true), ("is_well_formed", true), ("MRS", true), ("EP", true), ("HCons", true), ("DMRS", true), ("Node", true), ("Link", true), ("variable.sort", true), ("scope._connected_components", true), ("MRS.rels", true), ("DMRS.nodes", true), ("MRS-bases", true), ("DMRS-bases", true), ("no-override", true)] := by
  repeat' apply And.intro
  all_goals first | rfl | decide

end Verif.C07
