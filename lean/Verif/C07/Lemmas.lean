/- C07 helper lemmas: conjoin = connected components; DMRS.scopes. -/
import Verif.Common.Sem
import Verif.Common.SemLemmas
namespace Verif.Sem

/-! ## PART 1 — `conjoin` -/

section Part1
variable {α : Type} [DecidableEq α]

theorem bfsLoop_nodup (adj : α → List α) :
    ∀ (fuel : Nat) (ag seen : List α), seen.Nodup → (bfsLoop adj fuel ag seen).Nodup := by
  intro fuel
  induction fuel with
  | zero => intro ag seen h; simpa [bfsLoop] using h
  | succ fuel ih =>
    intro ag seen h
    cases ag with
    | nil => simpa [bfsLoop] using h
    | cons x ag =>
      by_cases hx : x ∈ seen
      · have e : bfsLoop adj (fuel + 1) (x :: ag) seen = bfsLoop adj fuel ag seen := by
          simp [bfsLoop, hx]
        rw [e]; exact ih ag seen h
      · have e : bfsLoop adj (fuel + 1) (x :: ag) seen =
            bfsLoop adj fuel (ag ++ (adj x).filter (fun y => y ∉ x :: seen)) (x :: seen) := by
          simp [bfsLoop, hx]
        rw [e]; exact ih _ _ (List.nodup_cons.2 ⟨hx, h⟩)

theorem bfs_nodup (edges : List (α × α)) (s : α) : (bfs edges s).Nodup := by
  unfold bfs
  exact bfsLoop_nodup _ _ _ _ List.nodup_nil

theorem c07_componentsLoop_bfs (E : List (α × α)) :
    ∀ (ns seen : List α), ∀ c ∈ componentsLoop E ns seen, ∃ n, c = bfs E n := by
  intro ns
  induction ns with
  | nil => intro seen c hc; exact absurd hc (by simp [componentsLoop])
  | cons n ns ih =>
    intro seen c hc
    by_cases hn : n ∈ seen
    · have e : componentsLoop E (n :: ns) seen = componentsLoop E ns seen := by
        simp [componentsLoop, hn]
      rw [e] at hc; exact ih seen c hc
    · have e : componentsLoop E (n :: ns) seen =
          bfs E n :: componentsLoop E ns (bfs E n ++ seen) := by
        simp [componentsLoop, hn]
      rw [e] at hc
      rcases List.mem_cons.1 hc with rfl | hc
      · exact ⟨n, rfl⟩
      · exact ih _ c hc

theorem c07_connectedComponents_nodup (nodes : List α) (edges : List (α × α))
    (comps : List (List α)) (h : connectedComponents nodes edges = .ok comps) :
    ∀ c ∈ comps, c.Nodup := by
  unfold connectedComponents at h
  by_cases hE : edges.isEmpty = true
  · rw [if_pos hE] at h
    have hc : comps = nodes.map (fun n => [n]) := by injection h with h; exact h.symm
    subst hc
    intro c hc
    obtain ⟨n, _, rfl⟩ := List.mem_map.1 hc
    simp
  · rw [if_neg hE] at h
    by_cases hA : (edges.all (fun e => decide (e.1 ∈ nodes) && decide (e.2 ∈ nodes))) = true
    · rw [if_pos hA] at h
      have hc : comps = componentsLoop (symm edges) nodes [] := by
        injection h with h; exact h.symm
      subst hc
      intro c hc
      obtain ⟨n, rfl⟩ := c07_componentsLoop_bfs _ _ _ c hc
      exact bfs_nodup _ _
    · rw [if_neg hA] at h
      exact absurd h (by simp)

end Part1

section Part1b
variable {lam π : Type} [DecidableEq lam]

theorem c07_conjoin_ok (scopes : List (lam × List π)) (leqs : List (lam × lam))
    (res : List (lam × List π)) (h : conjoin scopes leqs = .ok res) :
    ∃ comps, connectedComponents (dkeys scopes) leqs = .ok comps ∧
      res = comps.filterMap (fun c =>
        match c with
        | [] => none
        | l :: _ => some (l, c.flatMap (fun l' => (dlookup l' scopes).getD []))) := by
  unfold conjoin at h
  cases hcc : connectedComponents (dkeys scopes) leqs with
  | error e => rw [hcc] at h; cases h
  | ok comps =>
    rw [hcc] at h
    refine ⟨comps, rfl, ?_⟩
    injection h with h
    exact h.symm

theorem conjoin_components
    (scopes : List (lam × List π)) (leqs : List (lam × lam)) (res : List (lam × List π))
    (hk : (dkeys scopes).Nodup) (h : conjoin scopes leqs = .ok res) :
    (∀ kp ∈ res, ∃ c : List lam, c.Nodup ∧ kp.1 ∈ c ∧
        (∀ x, x ∈ c ↔ (x ∈ dkeys scopes ∧ Reach (adjOf (symm leqs)) kp.1 x)) ∧
        kp.2 = c.flatMap (fun l => (dlookup l scopes).getD [])) ∧
    (∀ l ∈ dkeys scopes, ∃ kp ∈ res, Reach (adjOf (symm leqs)) kp.1 l) ∧
    res.Pairwise (fun a b => ¬ Reach (adjOf (symm leqs)) a.1 b.1) := by
  obtain ⟨comps, hcc, rfl⟩ := c07_conjoin_ok scopes leqs res h
  obtain ⟨h1, h2, h3, h4⟩ := connectedComponents_spec _ _ _ hcc
  have h4 := h4 hk
  have hnd := c07_connectedComponents_nodup _ _ _ hcc
  refine ⟨?_, ?_, ?_⟩
  · intro kp hkp
    obtain ⟨c, hc, hf⟩ := List.mem_filterMap.1 hkp
    cases c with
    | nil => simp at hf
    | cons l t =>
      simp only [Option.some.injEq] at hf
      subst hf
      refine ⟨l :: t, hnd _ hc, List.mem_cons_self, ?_, rfl⟩
      obtain ⟨n, _, _, hx⟩ := h2 _ hc
      have hnl : Reach (adjOf (symm leqs)) n l := (hx l).1 List.mem_cons_self
      intro x
      constructor
      · intro hxc
        exact ⟨h3 _ hc x hxc, Reach.trans (Reach.symm_of_symm _ hnl) ((hx x).1 hxc)⟩
      · rintro ⟨_, hr⟩
        exact (hx x).2 (Reach.trans hnl hr)
  · intro l hl
    obtain ⟨c, hc, hlc⟩ := h1 l hl
    cases c with
    | nil => exact absurd hlc List.not_mem_nil
    | cons l0 t =>
      refine ⟨(l0, (l0 :: t).flatMap (fun l' => (dlookup l' scopes).getD [])),
        List.mem_filterMap.2 ⟨l0 :: t, hc, rfl⟩, ?_⟩
      obtain ⟨n, _, _, hx⟩ := h2 _ hc
      exact Reach.trans (Reach.symm_of_symm _ ((hx l0).1 List.mem_cons_self)) ((hx l).1 hlc)
  · rw [List.pairwise_filterMap]
    refine List.Pairwise.imp_of_mem ?_ h4
    intro c d hc hd hcd a ha b hb hr
    cases c with
    | nil => simp at ha
    | cons lc tc =>
      cases d with
      | nil => simp at hb
      | cons ld td =>
        simp only [Option.some.injEq] at ha hb
        subst ha; subst hb
        obtain ⟨n, _, _, hx⟩ := h2 _ hc
        have : ld ∈ lc :: tc :=
          (hx ld).2 (Reach.trans ((hx lc).1 List.mem_cons_self) hr)
        exact hcd ld this List.mem_cons_self

theorem conjoin_error
    (scopes : List (lam × List π)) (leqs : List (lam × lam)) (e : Err)
    (h : conjoin scopes leqs = .error e) :
    e = .keyError ∧ ∃ p ∈ leqs, p.1 ∉ dkeys scopes ∨ p.2 ∉ dkeys scopes := by
  unfold conjoin at h
  cases hcc : connectedComponents (dkeys scopes) leqs with
  | error e' =>
    rw [hcc] at h
    have : e' = e := by injection h
    subst this
    exact connectedComponents_error _ _ _ hcc
  | ok comps => rw [hcc] at h; cases h

end Part1b

/-! ## PART 2 — `DMRS.scopes` -/

section C07Generic

theorem c07_inj_of_nodup_map {α β : Type} (f : α → β) :
    ∀ (l : List α), (l.map f).Nodup → ∀ x ∈ l, ∀ y ∈ l, f x = f y → x = y := by
  intro l
  induction l with
  | nil => intro _ x hx; exact absurd hx List.not_mem_nil
  | cons a l ih =>
    intro hnd x hx y hy hxy
    rw [List.map_cons, List.nodup_cons] at hnd
    rcases List.mem_cons.1 hx with hxa | hx'
    · rcases List.mem_cons.1 hy with hya | hy'
      · rw [hxa, hya]
      · rw [hxa] at hxy
        exact absurd (List.mem_map.2 ⟨y, hy', hxy.symm⟩) hnd.1
    · rcases List.mem_cons.1 hy with hya | hy'
      · rw [hya] at hxy
        exact absurd (List.mem_map.2 ⟨x, hx', hxy⟩) hnd.1
      · exact ih hnd.2 x hx' y hy' hxy

theorem c07_nodup_of_nodup_map {α β : Type} (f : α → β) :
    ∀ (l : List α), (l.map f).Nodup → l.Nodup := by
  intro l
  induction l with
  | nil => intro _; exact List.nodup_nil
  | cons a l ih =>
    intro hnd
    rw [List.map_cons, List.nodup_cons] at hnd
    exact List.nodup_cons.2 ⟨fun h => hnd.1 (List.mem_map.2 ⟨a, h, rfl⟩), ih hnd.2⟩

theorem c07_nodup_map_of_inj {α β : Type} (f : α → β) :
    ∀ (l : List α), l.Nodup → (∀ x ∈ l, ∀ y ∈ l, f x = f y → x = y) → (l.map f).Nodup := by
  intro l
  induction l with
  | nil => intro _ _; exact List.nodup_nil
  | cons a l ih =>
    intro hnd hinj
    rw [List.nodup_cons] at hnd
    rw [List.map_cons, List.nodup_cons]
    refine ⟨?_, ih hnd.2 (fun x hx y hy => hinj x (List.mem_cons_of_mem _ hx) y
      (List.mem_cons_of_mem _ hy))⟩
    intro h
    obtain ⟨b, hb, hfb⟩ := List.mem_map.1 h
    have := hinj b (List.mem_cons_of_mem _ hb) a List.mem_cons_self hfb
    subst this
    exact hnd.1 hb

/-- in a `Pairwise` list two members are equal or related one way or the other -/
theorem c07_pairwise_mem {α : Type} {R : α → α → Prop} :
    ∀ (l : List α), l.Pairwise R → ∀ a ∈ l, ∀ b ∈ l, a = b ∨ R a b ∨ R b a := by
  intro l
  induction l with
  | nil => intro _ a ha; exact absurd ha List.not_mem_nil
  | cons x l ih =>
    intro hp a ha b hb
    rw [List.pairwise_cons] at hp
    rcases List.mem_cons.1 ha with hax | ha'
    · rcases List.mem_cons.1 hb with hbx | hb'
      · exact Or.inl (hax.trans hbx.symm)
      · rw [hax]; exact Or.inr (Or.inl (hp.1 b hb'))
    · rcases List.mem_cons.1 hb with hbx | hb'
      · rw [hbx]; exact Or.inr (Or.inr (hp.1 a ha'))
      · exact ih hp.2 a ha' b hb'

theorem c07_mapM_error {α β ε : Type} (f : α → Except ε β) :
    ∀ (l : List α) (e : ε), l.mapM f = .error e → ∃ a ∈ l, f a = .error e := by
  intro l
  induction l with
  | nil => intro e h; simp [pure, Except.pure] at h
  | cons a l ih =>
    intro e h
    rw [List.mapM_cons] at h
    cases hf : f a with
    | error e' =>
      rw [hf] at h
      have : e' = e := by simpa [bind, Except.bind] using h
      subst this
      exact ⟨a, List.mem_cons_self, hf⟩
    | ok b =>
      rw [hf] at h
      cases hl : l.mapM f with
      | error e' =>
        rw [hl] at h
        have : e' = e := by simpa [bind, Except.bind] using h
        subst this
        obtain ⟨x, hx, hfx⟩ := ih _ hl
        exact ⟨x, List.mem_cons_of_mem _ hx, hfx⟩
      | ok r => rw [hl] at h; simp [bind, Except.bind, pure, Except.pure] at h

theorem c07_mapM_ok {α β ε : Type} (f : α → Except ε β) :
    ∀ (l : List α) (r : List β), l.mapM f = .ok r → ∀ b ∈ r, ∃ a ∈ l, f a = .ok b := by
  intro l
  induction l with
  | nil =>
    intro r h b hb
    have : r = [] := by simpa [pure, Except.pure] using h.symm
    subst this
    exact absurd hb List.not_mem_nil
  | cons a l ih =>
    intro r h b hb
    rw [List.mapM_cons] at h
    cases hf : f a with
    | error e' => rw [hf] at h; simp [bind, Except.bind] at h
    | ok b0 =>
      rw [hf] at h
      cases hl : l.mapM f with
      | error e' => rw [hl] at h; simp [bind, Except.bind] at h
      | ok r0 =>
        rw [hl] at h
        have : r = b0 :: r0 := by simpa [bind, Except.bind, pure, Except.pure] using h.symm
        subst this
        rcases List.mem_cons.1 hb with rfl | hb
        · exact ⟨a, List.mem_cons_self, hf⟩
        · obtain ⟨x, hx, hfx⟩ := ih _ hl b hb
          exact ⟨x, List.mem_cons_of_mem _ hx, hfx⟩

end C07Generic

section C07Dict
variable {κ ν : Type} [DecidableEq κ]

theorem c07_dlookup_none (k : κ) (d : List (κ × ν)) : dlookup k d = none ↔ k ∉ dkeys d := by
  induction d with
  | nil => simp [dlookup, dkeys]
  | cons p d ih =>
    obtain ⟨k', v⟩ := p
    by_cases hk : k' = k
    · simp [dlookup, dkeys, hk]
    · have hk' : ¬ k = k' := fun h => hk h.symm
      simp only [dlookup, if_neg hk, ih]
      simp [dkeys, hk']

theorem c07_dlookup_mem {k : κ} {v : ν} {d : List (κ × ν)} :
    dlookup k d = some v → (k, v) ∈ d := by
  induction d with
  | nil => intro h; simp [dlookup] at h
  | cons p d ih =>
    obtain ⟨k', v'⟩ := p
    intro h
    by_cases hk : k' = k
    · simp only [dlookup, if_pos hk, Option.some.injEq] at h
      subst hk; subst h; exact List.mem_cons_self
    · simp only [dlookup, if_neg hk] at h
      exact List.mem_cons_of_mem _ (ih h)

theorem c07_dset_notMem (k : κ) (v : ν) (d : List (κ × ν)) (h : k ∉ dkeys d) :
    dset k v d = d ++ [(k, v)] := by
  induction d with
  | nil => rfl
  | cons p d ih =>
    obtain ⟨k', v'⟩ := p
    have hk : ¬ k' = k := by
      intro e; apply h; simp [dkeys, e]
    have hd : k ∉ dkeys d := by
      intro e; apply h; simp only [dkeys, List.map_cons, List.mem_cons]; exact Or.inr e
    simp only [dset, if_neg hk, ih hd, List.cons_append]

theorem c07_mem_dkeys_dset (k : κ) (v : ν) (d : List (κ × ν)) (x : κ) :
    x ∈ dkeys (dset k v d) ↔ x = k ∨ x ∈ dkeys d := by
  induction d with
  | nil => simp [dset, dkeys]
  | cons p d ih =>
    obtain ⟨k', v'⟩ := p
    by_cases hk : k' = k
    · subst hk
      simp only [dset, if_true, dkeys, List.map_cons, List.mem_cons]
      constructor
      · intro h; exact Or.inr h
      · rintro (h | h)
        · exact Or.inl h
        · exact h
    · simp only [dset, if_neg hk]
      simp only [dkeys, List.map_cons, List.mem_cons] at ih ⊢
      rw [ih]
      constructor
      · rintro (h | h | h)
        · exact Or.inr (Or.inl h)
        · exact Or.inl h
        · exact Or.inr (Or.inr h)
      · rintro (h | h | h)
        · exact Or.inr (Or.inl h)
        · exact Or.inl h
        · exact Or.inr (Or.inr h)

theorem c07_dlookup_map_inj {β : Type} (f : β → κ) (g : β → ν) :
    ∀ (l : List β), (∀ x ∈ l, ∀ y ∈ l, f x = f y → x = y) → ∀ x ∈ l,
      dlookup (f x) (l.map (fun b => (f b, g b))) = some (g x) := by
  intro l
  induction l with
  | nil => intro _ x hx; exact absurd hx List.not_mem_nil
  | cons a l ih =>
    intro hinj x hx
    by_cases hk : f a = f x
    · have : a = x := hinj a List.mem_cons_self x hx hk
      subst this
      simp [dlookup]
    · simp only [List.map_cons, dlookup, if_neg hk]
      rcases List.mem_cons.1 hx with rfl | hx
      · exact absurd rfl hk
      · exact ih (fun x hx y hy => hinj x (List.mem_cons_of_mem _ hx) y
          (List.mem_cons_of_mem _ hy)) x hx

end C07Dict

section C07Dmrs

/-- keys of `idToLbl` (no distinctness needed) -/
theorem c07_idToLbl_keys : ∀ (ns : List Node) (k : Nat) (acc : List (Int × Var)) (i : Int),
    i ∈ dkeys (idToLbl k ns acc) ↔ i ∈ dkeys acc ∨ i ∈ ns.map (·.id) := by
  intro ns
  induction ns with
  | nil => intro k acc i; simp [idToLbl]
  | cons m ns ih =>
    intro k acc i
    have e : idToLbl k (m :: ns) acc = idToLbl (k + 1) ns (dset m.id ⟨"h", k⟩ acc) := rfl
    rw [e, ih, c07_mem_dkeys_dset, List.map_cons, List.mem_cons]
    constructor
    · rintro ((h | h) | h)
      · exact Or.inr (Or.inl h)
      · exact Or.inl h
      · exact Or.inr (Or.inr h)
    · rintro (h | h | h)
      · exact Or.inl (Or.inr h)
      · exact Or.inl (Or.inl h)
      · exact Or.inr h

theorem c07_idToLbl_eq : ∀ (ns : List Node) (k : Nat) (acc : List (Int × Var)),
    (ns.map (·.id)).Nodup → (∀ n ∈ ns, n.id ∉ dkeys acc) →
    idToLbl k ns acc = acc ++ (ns.zipIdx k).map (fun p => (p.1.id, (⟨"h", p.2⟩ : Var))) := by
  intro ns
  induction ns with
  | nil => intro k acc _ _; simp [idToLbl]
  | cons m ns ih =>
    intro k acc hnd hacc
    have e : idToLbl k (m :: ns) acc = idToLbl (k + 1) ns (dset m.id ⟨"h", k⟩ acc) := rfl
    rw [List.map_cons, List.nodup_cons] at hnd
    rw [e, c07_dset_notMem _ _ _ (hacc m List.mem_cons_self), ih (k + 1) _ hnd.2]
    · simp [List.append_assoc]
    · intro n hn hmem
      have : n.id ∈ dkeys acc ∨ n.id = m.id := by
        simpa [dkeys] using hmem
      rcases this with h | h
      · exact hacc n (List.mem_cons_of_mem _ hn) h
      · exact hnd.1 (List.mem_map.2 ⟨n, hn, h⟩)

/-- distinct positions carry distinct labels -/
theorem c07_zipIdx_vals_inj (ns : List Node) (k : Nat) (a b : Int) (v : Var)
    (ha : (a, v) ∈ (ns.zipIdx k).map (fun p => (p.1.id, (⟨"h", p.2⟩ : Var))))
    (hb : (b, v) ∈ (ns.zipIdx k).map (fun p => (p.1.id, (⟨"h", p.2⟩ : Var)))) : a = b := by
  obtain ⟨⟨x, i⟩, hx, hxe⟩ := List.mem_map.1 ha
  obtain ⟨⟨y, j⟩, hy, hye⟩ := List.mem_map.1 hb
  simp only [Prod.mk.injEq] at hxe hye
  obtain ⟨hxa, hxv⟩ := hxe
  obtain ⟨hyb, hyv⟩ := hye
  have hij : j = i := by
    have := hyv.trans hxv.symm
    injection this
  subst hij
  have h1 := (List.mem_zipIdx hx).2.2
  have h2 := (List.mem_zipIdx hy).2.2
  rw [← hxa, ← hyb, h1, h2]

/-- the step function of `DMRS.prescopes` -/
def c07_F (L : List (Int × Var)) (acc : List (Var × List Node)) (n : Node) :
    List (Var × List Node) :=
  match dlookup n.id L with
  | some l => dset l [n] acc
  | none => acc

theorem c07_prescopes_eq (d : DMRS) : d.prescopes = d.nodes.foldl (c07_F d.idToLbl) [] := rfl

theorem c07_prescopes_foldl (L : List (Int × Var)) (lbl : Node → Var) :
    ∀ (ns : List Node) (acc : List (Var × List Node)),
      (∀ n ∈ ns, dlookup n.id L = some (lbl n)) → (ns.map lbl).Nodup →
      (∀ n ∈ ns, lbl n ∉ dkeys acc) →
      ns.foldl (c07_F L) acc = acc ++ ns.map (fun n => (lbl n, [n])) := by
  intro ns
  induction ns with
  | nil => intro acc _ _ _; simp
  | cons m ns ih =>
    intro acc hl hnd hacc
    rw [List.map_cons, List.nodup_cons] at hnd
    have hstep : c07_F L acc m = acc ++ [(lbl m, [m])] := by
      unfold c07_F
      rw [hl m List.mem_cons_self]
      exact c07_dset_notMem _ _ _ (hacc m List.mem_cons_self)
    rw [List.foldl_cons, hstep, ih _ (fun n hn => hl n (List.mem_cons_of_mem _ hn)) hnd.2]
    · simp [List.append_assoc]
    · intro n hn hmem
      have : lbl n ∈ dkeys acc ∨ lbl n = lbl m := by
        simpa [dkeys] using hmem
      rcases this with h | h
      · exact hacc n (List.mem_cons_of_mem _ hn) h
      · exact hnd.1 (List.mem_map.2 ⟨n, hn, h⟩)

/-- keys of the prescopes (no distinctness needed): every label that is looked up is a key -/
theorem c07_prescopes_keys (L : List (Int × Var)) :
    ∀ (ns : List Node) (acc : List (Var × List Node)),
      (∀ k ∈ dkeys acc, k ∈ dkeys (ns.foldl (c07_F L) acc)) ∧
      (∀ n ∈ ns, ∀ l, dlookup n.id L = some l → l ∈ dkeys (ns.foldl (c07_F L) acc)) := by
  intro ns
  induction ns with
  | nil => intro acc; exact ⟨fun k hk => hk, fun n hn => absurd hn List.not_mem_nil⟩
  | cons m ns ih =>
    intro acc
    obtain ⟨ih1, ih2⟩ := ih (c07_F L acc m)
    rw [List.foldl_cons]
    have hmono : ∀ k ∈ dkeys acc, k ∈ dkeys (c07_F L acc m) := by
      intro k hk
      unfold c07_F
      cases dlookup m.id L with
      | none => exact hk
      | some l => exact (c07_mem_dkeys_dset _ _ _ _).2 (Or.inr hk)
    refine ⟨fun k hk => ih1 k (hmono k hk), ?_⟩
    intro n hn l hl
    rcases List.mem_cons.1 hn with hnm | hn'
    · apply ih1
      rw [hnm] at hl
      unfold c07_F
      rw [hl]
      exact (c07_mem_dkeys_dset _ _ _ _).2 (Or.inl rfl)
    · exact ih2 n hn' l hl

theorem c07_lookup_in_prescopes (d : DMRS) (i : Int) (a : Var)
    (h : dlookup i d.idToLbl = some a) : i ∈ d.ids ∧ a ∈ dkeys d.prescopes := by
  have hi : i ∈ dkeys d.idToLbl := by
    apply Classical.byContradiction
    intro hn
    rw [(c07_dlookup_none i d.idToLbl).2 hn] at h
    cases h
  have hid : i ∈ d.ids := by
    unfold DMRS.idToLbl at hi
    rcases (c07_idToLbl_keys _ _ _ _).1 hi with h | h
    · simp [dkeys] at h
    · exact h
  refine ⟨hid, ?_⟩
  obtain ⟨n, hn, hni⟩ := List.mem_map.1 hid
  rw [c07_prescopes_eq]
  exact (c07_prescopes_keys d.idToLbl d.nodes []).2 n hn a (by rw [hni]; exact h)

theorem c07_lookup_none (d : DMRS) (i : Int) (h : dlookup i d.idToLbl = none) : i ∉ d.ids := by
  intro hid
  have := (c07_dlookup_none i d.idToLbl).1 h
  apply this
  unfold DMRS.idToLbl
  exact (c07_idToLbl_keys _ _ _ _).2 (Or.inr hid)

/-- with pairwise distinct node ids the k-th node gets its own label and its own singleton prescope -/
theorem idToLbl_spec (d : DMRS) (hnd : d.ids.Nodup) :
    ∃ lbl : Node → Var, (∀ n ∈ d.nodes, dlookup n.id d.idToLbl = some (lbl n)) ∧
      (∀ n ∈ d.nodes, ∀ n' ∈ d.nodes, lbl n = lbl n' → n = n') ∧
      d.prescopes = d.nodes.map (fun n => (lbl n, [n])) := by
  have hL : d.idToLbl = (d.nodes.zipIdx 1).map (fun p => (p.1.id, (⟨"h", p.2⟩ : Var))) := by
    unfold DMRS.idToLbl
    rw [c07_idToLbl_eq d.nodes 1 [] hnd (by intro n _ h; simp [dkeys] at h)]
    simp
  refine ⟨fun n => (dlookup n.id d.idToLbl).getD ⟨"h", 0⟩, ?_⟩
  have h1 : ∀ n ∈ d.nodes,
      dlookup n.id d.idToLbl = some ((dlookup n.id d.idToLbl).getD ⟨"h", 0⟩) := by
    intro n hn
    cases hlk : dlookup n.id d.idToLbl with
    | none => exact absurd (List.mem_map.2 ⟨n, hn, rfl⟩) (c07_lookup_none d n.id hlk)
    | some v => rfl
  have h2 : ∀ n ∈ d.nodes, ∀ n' ∈ d.nodes,
      (dlookup n.id d.idToLbl).getD ⟨"h", 0⟩ = (dlookup n'.id d.idToLbl).getD ⟨"h", 0⟩ →
      n = n' := by
    intro n hn n' hn' he
    have a1 := c07_dlookup_mem (h1 n hn)
    have a2 := c07_dlookup_mem (h1 n' hn')
    rw [← he] at a2
    rw [hL] at a1 a2
    have hid := c07_zipIdx_vals_inj _ _ _ _ _ a1 a2
    exact c07_inj_of_nodup_map (fun n : Node => n.id) d.nodes hnd n hn n' hn' hid
  refine ⟨h1, h2, ?_⟩
  rw [c07_prescopes_eq, c07_prescopes_foldl d.idToLbl _ d.nodes [] h1
    (c07_nodup_map_of_inj _ _ (c07_nodup_of_nodup_map (fun n : Node => n.id) _ hnd) h2)
    (by intro n _ h; simp [dkeys] at h)]
  simp

end C07Dmrs

section C07Scopes

/-- the shape of a successful `DMRS.scopes` -/
theorem c07_scopes_ok (d : DMRS) (top : Option Var) (sc : List (Var × List Node))
    (h : d.scopes = .ok (top, sc)) :
    ∃ leqs, d.leqs = .ok leqs ∧ conjoin d.prescopes leqs = .ok sc ∧
      ((d.top = none ∧ top = none) ∨
       ∃ t, d.top = some t ∧ t ∈ d.ids ∧
         top = (sc.find? (fun s => s.2.any (fun n => n.id = t))).map (·.1)) := by
  unfold DMRS.scopes at h
  cases hl : d.leqs with
  | error e => rw [hl] at h; cases h
  | ok leqs =>
    simp only [hl] at h
    cases hc : conjoin d.prescopes leqs with
    | error e => rw [hc] at h; cases h
    | ok scopes =>
      simp only [hc] at h
      cases ht : d.top with
      | none =>
        simp only [ht, Except.ok.injEq, Prod.mk.injEq] at h
        obtain ⟨h1, h2⟩ := h
        subst h2
        exact ⟨leqs, rfl, hc, Or.inl ⟨rfl, h1.symm⟩⟩
      | some t =>
        simp only [ht] at h
        by_cases hin : t ∈ d.ids
        · simp only [if_pos hin, Except.ok.injEq, Prod.mk.injEq] at h
          obtain ⟨h1, h2⟩ := h
          subst h2
          exact ⟨leqs, rfl, hc, Or.inr ⟨t, rfl, hin, h1.symm⟩⟩
        · simp only [if_neg hin] at h
          cases h

/-- characterisation of the conjoined DMRS scopes through the labelling `lbl` -/
theorem c07_scopes_char (d : DMRS) (hnd : d.ids.Nodup) (leqs : List (Var × Var))
    (sc : List (Var × List Node)) (hc : conjoin d.prescopes leqs = .ok sc) :
    ∃ lbl : Node → Var,
      (∀ s ∈ sc, ∀ n, n ∈ s.2 ↔ n ∈ d.nodes ∧ Reach (adjOf (symm leqs)) s.1 (lbl n)) ∧
      (∀ n ∈ d.nodes, ∃ s ∈ sc, Reach (adjOf (symm leqs)) s.1 (lbl n)) ∧
      sc.Pairwise (fun a b => ¬ Reach (adjOf (symm leqs)) a.1 b.1) := by
  obtain ⟨lbl, _, hl2, hP⟩ := idToLbl_spec d hnd
  have hkeys : dkeys d.prescopes = d.nodes.map lbl := by
    rw [hP]; simp [dkeys, Function.comp_def]
  have hk : (dkeys d.prescopes).Nodup := by
    rw [hkeys]
    exact c07_nodup_map_of_inj _ _ (c07_nodup_of_nodup_map (fun n : Node => n.id) _ hnd) hl2
  have hlook : ∀ n ∈ d.nodes, dlookup (lbl n) d.prescopes = some [n] := by
    intro n hn
    rw [hP]
    exact c07_dlookup_map_inj lbl (fun n => [n]) d.nodes hl2 n hn
  obtain ⟨c1, c2, c3⟩ := conjoin_components d.prescopes leqs sc hk hc
  refine ⟨lbl, ?_, ?_, c3⟩
  · intro s hs n
    obtain ⟨c, _, _, hx, h2⟩ := c1 s hs
    constructor
    · intro hn
      rw [h2] at hn
      obtain ⟨l, hlc, hnl⟩ := List.mem_flatMap.1 hn
      obtain ⟨hlk, hr⟩ := (hx l).1 hlc
      rw [hkeys] at hlk
      obtain ⟨m, hm, rfl⟩ := List.mem_map.1 hlk
      rw [hlook m hm] at hnl
      have : n = m := by simpa using hnl
      subst this
      exact ⟨hm, hr⟩
    · rintro ⟨hn, hr⟩
      rw [h2]
      refine List.mem_flatMap.2 ⟨lbl n, (hx _).2 ⟨?_, hr⟩, ?_⟩
      · rw [hkeys]; exact List.mem_map.2 ⟨n, hn, rfl⟩
      · rw [hlook n hn]; simp
  · intro n hn
    exact c2 (lbl n) (by rw [hkeys]; exact List.mem_map.2 ⟨n, hn, rfl⟩)

theorem c07_partition_of_conjoin (d : DMRS) (hnd : d.ids.Nodup) (leqs : List (Var × Var))
    (sc : List (Var × List Node)) (hc : conjoin d.prescopes leqs = .ok sc) :
    (∀ n ∈ d.nodes, ∃ s ∈ sc, n ∈ s.2) ∧ (∀ s ∈ sc, ∀ n ∈ s.2, n ∈ d.nodes) ∧
    sc.Pairwise (fun a b => ∀ n ∈ a.2, ∀ n' ∈ b.2, n.id ≠ n'.id) := by
  obtain ⟨lbl, hm, hcov, hpw⟩ := c07_scopes_char d hnd leqs sc hc
  refine ⟨?_, ?_, ?_⟩
  · intro n hn
    obtain ⟨s, hs, hr⟩ := hcov n hn
    exact ⟨s, hs, (hm s hs n).2 ⟨hn, hr⟩⟩
  · intro s hs n hn
    exact ((hm s hs n).1 hn).1
  · refine List.Pairwise.imp_of_mem ?_ hpw
    intro a b ha hb hab n hn n' hn' hid
    obtain ⟨hn1, hr1⟩ := (hm a ha n).1 hn
    obtain ⟨hn2, hr2⟩ := (hm b hb n').1 hn'
    have : n = n' := c07_inj_of_nodup_map (fun n : Node => n.id) d.nodes hnd n hn1 n' hn2 hid
    subst this
    exact hab (Reach.trans hr1 (Reach.symm_of_symm _ hr2))

theorem dmrs_scopes_partition (d : DMRS) (hnd : d.ids.Nodup) (top : Option Var)
    (sc : List (Var × List Node)) (h : d.scopes = .ok (top, sc)) :
    (∀ n ∈ d.nodes, ∃ s ∈ sc, n ∈ s.2) ∧ (∀ s ∈ sc, ∀ n ∈ s.2, n ∈ d.nodes) ∧
    sc.Pairwise (fun a b => ∀ n ∈ a.2, ∀ n' ∈ b.2, n.id ≠ n'.id) := by
  obtain ⟨leqs, _, hc, _⟩ := c07_scopes_ok d top sc h
  exact c07_partition_of_conjoin d hnd leqs sc hc

/-- [core] dmrsTopScope -/
theorem dmrs_top_scope (d : DMRS) (hnd : d.ids.Nodup) (t : Int) (htop : d.top = some t)
    (top : Option Var) (sc : List (Var × List Node)) (h : d.scopes = .ok (top, sc)) :
    ∃ l ns n, top = some l ∧ (l, ns) ∈ sc ∧ n ∈ ns ∧ n ∈ d.nodes ∧ n.id = t ∧
      (∀ s ∈ sc, (∃ n' ∈ s.2, n'.id = t) → s = (l, ns)) := by
  obtain ⟨hcov, hsub, hpw⟩ := dmrs_scopes_partition d hnd top sc h
  obtain ⟨leqs, _, _, hcase⟩ := c07_scopes_ok d top sc h
  rcases hcase with ⟨hnone, _⟩ | ⟨t', ht', hin, htopeq⟩
  · rw [htop] at hnone; cases hnone
  · rw [htop] at ht'
    have : t' = t := by injection ht' with e; exact e.symm
    subst this
    obtain ⟨m, hm, hmid⟩ := List.mem_map.1 hin
    obtain ⟨s0, hs0, hms0⟩ := hcov m hm
    cases hf : sc.find? (fun s => s.2.any (fun n => n.id = t')) with
    | none =>
      rw [List.find?_eq_none] at hf
      refine absurd ?_ (hf s0 hs0)
      exact List.any_eq_true.2 ⟨m, hms0, by simpa using hmid⟩
    | some s1 =>
      obtain ⟨l, ns⟩ := s1
      have hmem : (l, ns) ∈ sc := List.mem_of_find?_eq_some hf
      have hp := List.find?_some hf
      obtain ⟨n, hn, hnid⟩ := List.any_eq_true.1 hp
      have hnid : n.id = t' := by simpa using hnid
      refine ⟨l, ns, n, ?_, hmem, hn, hsub _ hmem n hn, hnid, ?_⟩
      · rw [htopeq, hf]; rfl
      · rintro s hs ⟨n', hn', hn'id⟩
        rcases c07_pairwise_mem sc hpw s hs (l, ns) hmem with he | hr | hr
        · exact he
        · exact absurd (hn'id.trans hnid.symm) (hr n' hn' n hn)
        · exact absurd (hnid.trans hn'id.symm) (hr n hn n' hn')

theorem dmrs_no_top (d : DMRS) (htop : d.top = none) (top : Option Var)
    (sc : List (Var × List Node)) (h : d.scopes = .ok (top, sc)) : top = none := by
  obtain ⟨_, _, _, hcase⟩ := c07_scopes_ok d top sc h
  rcases hcase with ⟨_, h2⟩ | ⟨t, ht, _, _⟩
  · exact h2
  · rw [htop] at ht; cases ht

theorem dmrs_scopes_error (d : DMRS) (e : Err) (h : d.scopes = .error e) :
    e = .keyError ∧ ((∃ l ∈ d.links, l.post = EQ_POST ∧ (l.start ∉ d.ids ∨ l.stop ∉ d.ids)) ∨
                     (∃ t, d.top = some t ∧ t ∉ d.ids)) := by
  unfold DMRS.scopes at h
  cases hl : d.leqs with
  | error e' =>
    rw [hl] at h
    have : e' = e := by injection h
    subst this
    unfold DMRS.leqs at hl
    obtain ⟨l, hlm, hfl⟩ := c07_mapM_error _ _ _ hl
    obtain ⟨hlinks, hpost⟩ := List.mem_filter.1 hlm
    have hpost : l.post = EQ_POST := by simpa using hpost
    cases h1 : dlookup l.start d.idToLbl with
    | none =>
      rw [h1] at hfl
      have : e' = .keyError := by injection hfl with e1; exact e1.symm
      exact ⟨this, Or.inl ⟨l, hlinks, hpost, Or.inl (c07_lookup_none d _ h1)⟩⟩
    | some a =>
      cases h2 : dlookup l.stop d.idToLbl with
      | none =>
        rw [h1, h2] at hfl
        have : e' = .keyError := by injection hfl with e1; exact e1.symm
        exact ⟨this, Or.inl ⟨l, hlinks, hpost, Or.inr (c07_lookup_none d _ h2)⟩⟩
      | some b => rw [h1, h2] at hfl; cases hfl
  | ok leqs =>
    simp only [hl] at h
    cases hc : conjoin d.prescopes leqs with
    | error e' =>
      exfalso
      obtain ⟨_, p, hp, hbad⟩ := conjoin_error _ _ _ hc
      unfold DMRS.leqs at hl
      obtain ⟨l, _, hfl⟩ := c07_mapM_ok _ _ _ hl p hp
      cases h1 : dlookup l.start d.idToLbl with
      | none => rw [h1] at hfl; cases hfl
      | some a =>
        cases h2 : dlookup l.stop d.idToLbl with
        | none => rw [h1, h2] at hfl; cases hfl
        | some b =>
          rw [h1, h2] at hfl
          have hpe : p = (a, b) := by injection hfl with e1; exact e1.symm
          subst hpe
          rcases hbad with hb | hb
          · exact hb (c07_lookup_in_prescopes d _ _ h1).2
          · exact hb (c07_lookup_in_prescopes d _ _ h2).2
    | ok scopes =>
      simp only [hc] at h
      cases ht : d.top with
      | none => rw [ht] at h; cases h
      | some t =>
        simp only [ht] at h
        by_cases hin : t ∈ d.ids
        · simp only [if_pos hin] at h; cases h
        · simp only [if_neg hin] at h
          have : e = .keyError := by injection h with e1; exact e1.symm
          exact ⟨this, Or.inr ⟨t, rfl, hin⟩⟩

end C07Scopes

end Verif.Sem
