/- C07 line-protocol driver: `lake env lean --run Verif/C07/Driver.lean` -/
import Verif.Common.Proto
import Verif.Common.SemJson
import Verif.C07.Model
open Lean Verif.Proto Verif.Sem Verif.Sem.J Verif.C07

namespace Verif.C07.Driver

def jPredIds (ps : List Pred) : Json := jList (fun p : Pred => jVar p.1) ps

def jScopeMap (sc : List (Var × List Pred)) : Json :=
  jList (fun s : Var × List Pred => Json.arr #[jVar s.1, jPredIds s.2]) sc

def jExcept {α} (f : α → Json) : Except Err α → Json
  | .ok a => jOk (f a)
  | .error e => jErr (errTag e)

def ofLeq (j : Json) : Except String (Var × Var) := do
  match (← j.getArr?).toList with
  | [a, b] => pure (← ofVar a, ← ofVar b)
  | _ => throw "bad leq"

def handleMRS (j : Json) : Except String Json := do
  let m ← ofMRS (← j.getObjVal? "m")
  let leqs ← (← arrOrEmpty j "leqs").mapM ofLeq
  if !m.idsDistinct then
    return Json.mkObj [("unmodelled", Json.str "dup_ids"), ("ids", jList jVar m.ids)]
  let w := wf m
  let (top, sc) := m.scopes
  -- start independence: every start for up to 12 predications, else first / middle / last
  -- (`isConnectedFrom s` unfolded, with the edge list computed once)
  let edges := symm m.graphEdges
  let startsToTry := if m.ids.length ≤ 12 then m.ids
    else (m.ids.take 1) ++ ((m.ids.drop (m.ids.length / 2)).take 1) ++ (m.ids.reverse.take 1)
  pure (Json.mkObj [
    ("ids", jList jVar m.ids),
    ("connected", Json.bool w.connected),
    ("connected_any_start", Json.bool (startsToTry.all (fun s =>
        let seen := bfs edges s
        (m.ids.all (fun i => decide (i ∈ seen))) == w.connected))),
    ("complete", Json.bool w.complete),
    ("unique", Json.bool w.unique),
    ("ivprop", Json.bool w.ivProperty),
    ("plausible", Json.bool w.plausible),
    ("wf", Json.bool w.wellFormed),
    ("top", jOpt jVar top),
    ("scopes", jScopeMap sc),
    ("scargs", jList (fun e : Var × List (Role × String × Var) =>
        Json.arr #[jVar e.1, jList (fun a : Role × String × Var =>
          Json.arr #[Json.str a.1, Json.str a.2.1, jVar a.2.2]) e.2]) (scopalArguments m)),
    ("conjoin", jExcept jScopeMap (conjoinMRS m leqs)),
    ("descendants", jExcept (fun d : List (Var × List Pred) =>
        jList (fun s : Var × List Pred => Json.arr #[jVar s.1, jPredIds s.2]) d) m.descendants),
    ("reps", jExcept jScopeMap m.representatives)])

def handleDMRS (j : Json) : Except String Json := do
  let d ← ofDMRS (← j.getObjVal? "d")
  pure (jExcept (fun r : Option Var × List (Var × List Node) =>
    Json.mkObj [("top", jOpt jVar r.1),
                ("scopes", jList (fun s : Var × List Node =>
                   Json.arr #[jVar s.1, jList (fun n : Node => jInt n.id) s.2]) r.2)]) d.scopes)

def handle (j : Json) : Except String Json := do
  let op ← getStr j "op"
  match op with
  | "mrs" => handleMRS j
  | "dmrs" => handleDMRS j
  | _ => throw s!"bad op {op}"

end Verif.C07.Driver

def main : IO Unit := Verif.Proto.serve Verif.C07.Driver.handle
