/- C07 line-protocol driver: `lake env lean --run Verif/C07/Driver.lean` -/
import Verif.Common.Proto
import Verif.Common.SemJson
import Verif.C07.Model
import Verif.C07.Api
open Lean Verif.Proto Verif.Sem Verif.Sem.J Verif.C07

namespace Verif.C07.Driver

def jPredIds (ps : List Pred) : Json := jList (fun p : Pred => jVar p.1) ps

def jScopeMap (sc : List (Var × List Pred)) : Json :=
  jList (fun s : Var × List Pred => Json.arr #[jVar s.1, jPredIds s.2]) sc

def jExcept {α} (f : α → Json) : Except Err α → Json
  | .ok a => jOk (f a)
  | .error e => jErr (errTag e)

def ofLeq (j : Json) : Except String (Var × Var) := do
  match (← j.getArr?).toList with
  | [a, b] => pure (← ofVar a, ← ofVar b)
  | _ => throw "bad leq"

/-- `[types|null, expressed|null]` -/
def ofArgOpt (j : Json) : Except String (Option String × Option Bool) := do
  match (← j.getArr?).toList with
  | [t, e] => pure (← optOf (·.getStr?) t, ← optOf (·.getBool?) e)
  | _ => throw "bad argument option"

/-- a scope map observed on the real code (labels with predication ids, in the real order) -/
def ofObsPredScopes (m : MRS) (j : Json) : Except String (List (Var × List Pred)) := do
  (← j.getArr?).toList.mapM (fun e => do
    match (← e.getArr?).toList with
    | [l, ids] =>
      let ps ← (← ids.getArr?).toList.mapM (fun i => do
        let v ← ofVar i
        match m.preds.find? (fun p => p.1 = v) with
        | some p => pure p
        | none => throw "observed scope names a predication that does not exist")
      pure (← ofVar l, ps)
    | _ => throw "bad observed scope")

def handleMRS (j : Json) : Except String Json := do
  let m ← ofMRS (← j.getObjVal? "m")
  let leqs ← (← arrOrEmpty j "leqs").mapM ofLeq
  if !m.idsDistinct then
    return Json.mkObj [("unmodelled", Json.str "dup_ids"), ("ids", jList jVar m.ids)]
  let w := wf m
  let (top, sc) := m.scopes
  -- start independence: every start for up to 12 predications, else first / middle / last
  -- (`isConnectedFrom s` unfolded, with the edge list computed once)
  let edges := symm m.graphEdges
  let startsToTry := if m.ids.length ≤ 12 then m.ids
    else (m.ids.take 1) ++ ((m.ids.drop (m.ids.length / 2)).take 1) ++ (m.ids.reverse.take 1)
  -- round 6: option plumbing
  let jArgMap (a : List (Var × List (Role × Var))) : Json :=
    jList (fun e : Var × List (Role × Var) =>
      Json.arr #[jVar e.1, jList (fun a : Role × Var => Json.arr #[Json.str a.1, jVar a.2]) e.2]) a
  let jScargs (a : List (Var × List (Role × String × Var))) : Json :=
    jList (fun e : Var × List (Role × String × Var) =>
        Json.arr #[jVar e.1, jList (fun a : Role × String × Var =>
          Json.arr #[Json.str a.1, Json.str a.2.1, jVar a.2.2]) e.2]) a
  -- `m.descendants` computed once: `representativesBy m k = representativesFrom m m.descendants k` (by
  -- definition) and `m.representatives = representativesBy m m.repKey` (`representativesBy_default`)
  let dres := m.descendants
  let menu ← (← arrOrEmpty j "args_menu").mapM ofArgOpt
  let prios ← (← arrOrEmpty j "prio").mapM (fun x => x.getStr?)
  let conjPart ← match j.getObjVal? "obs_conj" with
    | .ok (Json.arr a) => do
      let obs ← ofObsPredScopes m (Json.arr a)
      pure [("scargs_conj", jScargs (scopalArgumentsWith m (dkeys obs))),
            ("desc_conj", jExcept jScopeMap (descendantsWith m obs))]
    | _ => pure []
  let extra : List (String × Json) := [
    ("args_menu", jList (fun o : Option String × Option Bool => jArgMap (argumentsMRS m o.1 o.2)) menu),
    ("scargs_default", jScargs (scopalArgumentsWith m m.labels)),
    ("reps_prio", jList (fun k : String => jExcept jScopeMap (representativesFrom m dres (priorityMenu m k))) prios)]
    ++ conjPart
  pure (Json.mkObj ([
    ("ids", jList jVar m.ids),
    ("connected", Json.bool w.connected),
    ("connected_any_start", Json.bool (startsToTry.all (fun s =>
        let seen := bfs edges s
        (m.ids.all (fun i => decide (i ∈ seen))) == w.connected))),
    ("complete", Json.bool w.complete),
    ("unique", Json.bool w.unique),
    ("ivprop", Json.bool w.ivProperty),
    ("plausible", Json.bool w.plausible),
    ("wf", Json.bool w.wellFormed),
    ("top", jOpt jVar top),
    ("scopes", jScopeMap sc),
    ("scargs", jList (fun e : Var × List (Role × String × Var) =>
        Json.arr #[jVar e.1, jList (fun a : Role × String × Var =>
          Json.arr #[Json.str a.1, Json.str a.2.1, jVar a.2.2]) e.2]) (scopalArguments m)),
    ("conjoin", jExcept jScopeMap (conjoinMRS m leqs)),
    ("descendants", jExcept (fun d : List (Var × List Pred) =>
        jList (fun s : Var × List Pred => Json.arr #[jVar s.1, jPredIds s.2]) d) dres),
    ("reps", jExcept jScopeMap (representativesFrom m dres m.repKey))] ++ extra))

def dErrTag : DErr → String
  | .keyError => "KeyError"
  | .assertionError => "AssertionError"
  | .fuel => "fuel"

def jDExcept {α} (f : α → Json) : Except DErr α → Json
  | .ok a => jOk (f a)
  | .error e => jErr (dErrTag e)

def jNodeScopes (sc : List (Var × List Node)) : Json :=
  jList (fun s : Var × List Node => Json.arr #[jVar s.1, jList (fun n : Node => jInt n.id) s.2]) sc

/-- the scope map observed on the real `d.scopes()` (labels with node ids, in the real order) -/
def ofObsScopes (d : DMRS) (j : Json) : Except String (List (Var × List Node)) := do
  (← j.getArr?).toList.mapM (fun e => do
    match (← e.getArr?).toList with
    | [l, ids] =>
      let ns ← (← ids.getArr?).toList.mapM (fun i => do
        match d.node? (← i.getInt?) with
        | some n => pure n
        | none => throw "observed scope names a node that does not exist")
      pure (← ofVar l, ns)
    | _ => throw "bad observed scope")

def handleDMRS (j : Json) : Except String Json := do
  let d ← ofDMRS (← j.getObjVal? "d")
  let scopes := jExcept (fun r : Option Var × List (Var × List Node) =>
    Json.mkObj [("top", jOpt jVar r.1), ("scopes", jNodeScopes r.2)]) d.scopes
  if d.ids.eraseDups.length != d.ids.length then
    return Json.mkObj [("unmodelled", Json.str "dup_ids")]
  let jArgs (a : Except DErr (List (Int × List (Role × Int)))) : Json :=
    jDExcept (fun m => jList (fun e : Int × List (Role × Int) =>
      Json.arr #[jInt e.1, jList (fun a : Role × Int => Json.arr #[Json.str a.1, jInt a.2]) e.2]) m) a
  let menu ← (← arrOrEmpty j "args_menu").mapM ofArgOpt
  let base := [("args_menu", jList (fun o : Option String × Option Bool => jArgs (argumentsDMRS d o.1 o.2)) menu),
               ("scargs_raw", jDExcept (fun m => jList (fun e : Int × List (Role × String × Int) =>
                  Json.arr #[jInt e.1, jList (fun a : Role × String × Int =>
                    Json.arr #[Json.str a.1, Json.str a.2.1, jInt a.2.2]) e.2]) m) (scopalArgumentsRaw d)),
               ("scopes", scopes), ("args_all", jArgs (d.arguments none)),
               ("args_ns", jArgs (d.arguments (some "xeipu"))),
               ("is_quantifier", jList (fun n : Node => Json.bool (d.isQuantifier n.id)) d.nodes)]
  match j.getObjVal? "obs" with
  | .ok (Json.arr a) =>
    let sc ← ofObsScopes d (Json.arr a)
    pure (Json.mkObj (base ++ [
      ("scargs", jDExcept (fun m => jList (fun e : Int × List (Role × String × Option Var) =>
          Json.arr #[jInt e.1, jList (fun a : Role × String × Option Var =>
            Json.arr #[Json.str a.1, Json.str a.2.1, jOpt jVar a.2.2]) e.2]) m) (d.scopalArguments sc)),
      ("descendants", jDExcept (fun m => jList (fun e : Int × List Node =>
          Json.arr #[jInt e.1, jList (fun n : Node => jInt n.id) e.2]) m) (d.descendantsWith sc)),
      ("reps", jDExcept jNodeScopes (d.representativesWith sc))]))
  | _ => pure (Json.mkObj base)

/-- `_normalize_top_and_links` as run by the DMRS constructor -/
def handleNorm (j : Json) : Except String Json := do
  let top ← fieldOpt (·.getInt?) j "top"
  let links ← (← arrOrEmpty j "links").mapM ofLink
  let r := normalizeTopAndLinks top links
  pure (Json.mkObj [("top", jOpt jInt r.1), ("links", jList jLink r.2)])

def handle (j : Json) : Except String Json := do
  let op ← getStr j "op"
  match op with
  | "mrs" => handleMRS j
  | "dmrs" => handleDMRS j
  | "dmrs_norm" => handleNorm j
  | _ => throw s!"bad op {op}"

end Verif.C07.Driver

def main : IO Unit := Verif.Proto.serve Verif.C07.Driver.handle
