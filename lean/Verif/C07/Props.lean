/-
C07 — "Well-formedness tests and scope structure agree with their definitions".

Property theorems over the model in `Verif.Common.Sem` (tied to the code by the
correspondence run of harness/c07.py).  All statements hold for EVERY input of
the model: disconnected MRSs, shared intrinsic variables, dangling or cyclic
handle constraints, self-scoping arguments, DMRSs with arbitrary EQ links.
-/
import Verif.C07.Model
import Verif.Generated.TablesC07
import Verif.Common.SemLemmas
import Verif.C07.WfLemmas
import Verif.C07.Lemmas
import Verif.C07.DmrsLemmas
import Verif.C07.ConnLemmas
import Verif.C07.PlausLemmas

namespace Verif.C07
open Verif.Sem

/-! ## 1. Connectedness equals graph connectivity -/

/-- One edge of the graph the property speaks about: a predication (by its id) is
linked to its label ("label sharing"), to its intrinsic variable ("shared intrinsic
variables"), and to every argument value — after one resolution through the handle
constraints — that is itself a label, an intrinsic variable or a predication id
("arguments resolved through handle constraints"). -/
inductive Linked (m : MRS) : Var → Var → Prop
  | label {p : Pred} : p ∈ m.preds → Linked m p.1 p.2.label
  | iv {p : Pred} {v : Var} : p ∈ m.preds → p.2.iv = some v → Linked m p.1 v
  | arg {p : Pred} {a : Role × Var} : p ∈ m.preds → a ∈ p.2.outArgs none →
      (m.hcmap a.2).getD a.2 ∈ m.graphNodes → Linked m p.1 ((m.hcmap a.2).getD a.2)

/-- graph connectivity: reflexive, symmetric, transitive closure of `Linked`. -/
inductive Connected (m : MRS) : Var → Var → Prop
  | refl (a : Var) : Connected m a a
  | step {a b c : Var} : Connected m a b → (Linked m b c ∨ Linked m c b) → Connected m a c

theorem linked_iff (m : MRS) (a b : Var) : Linked m a b ↔ (a, b) ∈ m.graphEdges := by
  rw [mem_graphEdges]
  constructor
  · intro h
    cases h with
    | label hp => exact ⟨_, hp, rfl, Or.inl rfl⟩
    | iv hp hv => exact ⟨_, hp, rfl, Or.inr (Or.inl hv)⟩
    | arg hp ha hm => exact ⟨_, hp, rfl, Or.inr (Or.inr ⟨_, ha, rfl, hm⟩)⟩
  · rintro ⟨p, hp, rfl, h | h | ⟨a, ha, rfl, hm⟩⟩
    · exact h ▸ Linked.label hp
    · exact Linked.iv hp h
    · exact Linked.arg hp ha hm

theorem connected_iff_reach (m : MRS) (a b : Var) :
    Connected m a b ↔ Reach (adjOf (symm m.graphEdges)) a b := by
  constructor
  · intro h
    induction h with
    | refl => exact Reach.refl _
    | step _ hl ih =>
      refine Reach.tail ih ?_
      rw [mem_adjOf, mem_symm, ← linked_iff, ← linked_iff]
      exact hl
  · intro h
    induction h with
    | refl => exact Connected.refl _
    | tail _ hc ih =>
      refine Connected.step ih ?_
      rw [mem_adjOf, mem_symm, ← linked_iff, ← linked_iff] at hc
      exact hc

theorem isConnectedFrom_iff (m : MRS) (s : Var) :
    m.isConnectedFrom s = true ↔ ∀ j ∈ m.ids, Connected m s j := by
  unfold MRS.isConnectedFrom
  simp only [List.all_eq_true, decide_eq_true_eq, bfs_correct, connected_iff_reach]

theorem Connected.symm {m : MRS} {a b : Var} (h : Connected m a b) : Connected m b a := by
  rw [connected_iff_reach] at *
  exact Reach.symm_of_symm _ h

theorem Connected.trans {m : MRS} {a b c : Var} (h1 : Connected m a b) (h2 : Connected m b c) :
    Connected m a c := by
  rw [connected_iff_reach] at *
  exact Reach.trans h1 h2

/-- "On every MRS, well-formed or not, connectedness equals graph connectivity of the
predications under label sharing, shared intrinsic variables and arguments resolved
through handle constraints." -/
theorem isConnected_iff (m : MRS) :
    m.isConnected = true ↔ ∀ i ∈ m.ids, ∀ j ∈ m.ids, Connected m i j := by
  unfold MRS.isConnected
  cases hids : m.ids with
  | nil => simp
  | cons i0 rest =>
    simp only
    rw [isConnectedFrom_iff, hids]
    constructor
    · intro h i hi j hj
      exact (h i hi).symm.trans (h j hj)
    · intro h j hj
      exact h i0 (by simp) j hj

/-- The answer does not depend on the predication the breadth-first search starts
from (the code starts from the first element of a Python `set`). -/
theorem isConnected_start_independent (m : MRS) (s : Var) (hs : s ∈ m.ids) :
    m.isConnectedFrom s = m.isConnected := by
  rw [Bool.eq_iff_iff, isConnectedFrom_iff, isConnected_iff]
  constructor
  · intro h i hi j hj
    exact (h i hi).symm.trans (h j hj)
  · intro h j hj
    exact h s hs j hj

/-- "connectedness equals graph connectivity of the predications under label sharing, shared
intrinsic variables and arguments resolved through handle constraints" — against a relation defined
on the PREDICATIONS themselves, independently of the model's `graphEdges`/`graphNodes`:
`PAdj m p q` iff `p` and `q` have one of their own variables in common (the same label, the same
intrinsic variable, …; `predOwns r v` := `v` is `r`'s id, label or intrinsic variable), or an argument
of `p` (not ARG0/CARG), replaced by the lo of the last handle constraint whose hi it is (else itself),
is `q`'s label, intrinsic variable or id.  `PConn m` is the reflexive, symmetric, transitive closure
over `m.preds`.  ICONS, the top, and handle constraints nobody selects play no role. -/
theorem isConnected_iff_predications (m : MRS) :
    m.isConnected = true ↔ ∀ p ∈ m.preds, ∀ q ∈ m.preds, PConn m p q :=
  isConnected_iff_pconn m

/-- the graph-level and the predication-level connectivity coincide on predication ids. -/
theorem connected_iff_predications (m : MRS) (p q : Pred) (hp : p ∈ m.preds) (hq : q ∈ m.preds) :
    Connected m p.1 q.1 ↔ PConn m p q := by
  rw [connected_iff_reach]
  exact reach_iff_pconn m p q hp hq

/-! ## 2. The intrinsic-variable tests equal their definitions -/

/-- "the intrinsic-variable tests equal their definitions": completeness. -/
theorem hasCompleteIVs_iff (m : MRS) :
    m.hasCompleteIVs = true ↔ ∀ e ∈ m.rels, e.isQuantifier = false → e.iv ≠ none := by
  unfold MRS.hasCompleteIVs
  simp only [List.all_eq_true, Bool.or_eq_true]
  constructor
  · intro h e he hq hn
    rcases h e he with h | h
    · rw [hq] at h; exact Bool.false_ne_true h
    · rw [hn] at h; simp at h
  · intro h e he
    cases hq : e.isQuantifier with
    | true => exact Or.inl rfl
    | false =>
      refine Or.inr ?_
      cases hiv : e.iv with
      | none => exact absurd hiv (h e he hq)
      | some v => rfl

/-- "the intrinsic-variable tests equal their definitions": uniqueness — no two
non-quantifier predications share an intrinsic variable. -/
theorem hasUniqueIVs_iff (m : MRS) : m.hasUniqueIVs = true ↔ m.nonQuantIVs.Nodup := by
  unfold MRS.hasUniqueIVs
  rw [beq_iff_eq, eraseDups_length_eq_iff]

theorem hasIVProperty_iff (m : MRS) :
    m.hasIVProperty = true ↔
      ((∀ e ∈ m.rels, e.isQuantifier = false → e.iv ≠ none) ∧ m.nonQuantIVs.Nodup) := by
  unfold MRS.hasIVProperty
  rw [Bool.and_eq_true, hasCompleteIVs_iff, hasUniqueIVs_iff]

/-- an EP has an ARG0 / is a quantifier, read off its argument list -/
theorem iv_ne_none_iff (e : EP) : e.iv ≠ none ↔ ∃ v, (INTRINSIC_ROLE, v) ∈ e.args := by
  unfold EP.iv
  rw [← Option.isSome_iff_ne_none, dlookup_isSome_iff]
  simp [dkeys]

theorem isQuantifier_iff (e : EP) : e.isQuantifier = true ↔ ∃ v, (RESTRICTION_ROLE, v) ∈ e.args := by
  unfold EP.isQuantifier
  simp only [List.any_eq_true, beq_iff_eq]
  constructor
  · rintro ⟨⟨r, v⟩, hm, rfl⟩
    exact ⟨v, hm⟩
  · rintro ⟨v, hm⟩
    exact ⟨(RESTRICTION_ROLE, v), hm, rfl⟩

/-- uniqueness stated over POSITIONS of `rels` (independent of the `len(set(..)) == len(..)`
implementation): no two different non-quantifier predications have the same ARG0. -/
theorem hasUniqueIVs_positions (m : MRS) :
    m.hasUniqueIVs = true ↔
      ∀ (i j : Nat) (hi : i < m.rels.length) (hj : j < m.rels.length), i < j →
        m.rels[i].isQuantifier = false → m.rels[j].isQuantifier = false →
        ∀ v, m.rels[i].iv = some v → m.rels[j].iv ≠ some v := by
  rw [hasUniqueIVs_iff]
  unfold MRS.nonQuantIVs List.Nodup
  rw [List.pairwise_filterMap, List.pairwise_iff_getElem]
  constructor
  · intro h i j hi hj hij hqi hqj v hvi hvj
    exact h i j hi hj hij v (by simp [hqi, hvi]) v (by simp [hqj, hvj]) rfl
  · intro h i j hi hj hij v hv w hw hvw
    subst hvw
    cases hqi : m.rels[i].isQuantifier <;> cases hqj : m.rels[j].isQuantifier <;>
      simp [hqi, hqj] at hv hw
    exact h i j hi hj hij hqi hqj v hv hw

/-- "the intrinsic-variable tests equal their definitions", against an independent definition:
every predication without an RSTR argument has an ARG0 argument, and the ARG0s of the predications
without RSTR at two different positions differ. -/
theorem hasIVProperty_spec (m : MRS) :
    m.hasIVProperty = true ↔
      ((∀ e ∈ m.rels, (¬ ∃ v, (RESTRICTION_ROLE, v) ∈ e.args) → ∃ v, (INTRINSIC_ROLE, v) ∈ e.args) ∧
       (∀ (i j : Nat) (hi : i < m.rels.length) (hj : j < m.rels.length), i < j →
          (¬ ∃ v, (RESTRICTION_ROLE, v) ∈ m.rels[i].args) →
          (¬ ∃ v, (RESTRICTION_ROLE, v) ∈ m.rels[j].args) →
          ∀ v, m.rels[i].iv = some v → m.rels[j].iv ≠ some v)) := by
  unfold MRS.hasIVProperty
  rw [Bool.and_eq_true, hasCompleteIVs_iff, hasUniqueIVs_positions]
  have hq : ∀ e : EP, e.isQuantifier = false ↔ ¬ ∃ v, (RESTRICTION_ROLE, v) ∈ e.args := by
    intro e
    rw [← isQuantifier_iff]
    cases e.isQuantifier <;> simp
  constructor
  · rintro ⟨h1, h2⟩
    refine ⟨fun e he hn => (iv_ne_none_iff e).mp (h1 e he ((hq e).mpr hn)), ?_⟩
    intro i j hi hj hij hni hnj
    exact h2 i j hi hj hij ((hq _).mpr hni) ((hq _).mpr hnj)
  · rintro ⟨h1, h2⟩
    refine ⟨fun e he hqe => (iv_ne_none_iff e).mpr (h1 e he ((hq e).mp hqe)), ?_⟩
    intro i j hi hj hij hqi hqj
    exact h2 i j hi hj hij ((hq _).mp hqi) ((hq _).mp hqj)

/-! ## 2b. plausibly_scopes equals its documented tests -/

/-- `plausibly_scopes` — a single pass with an order-dependent `seen` set in the code and in the
model — equals the conjunction of the tests its docstring lists, stated declaratively over the top,
the handle constraints (`hcmap v` = lo of the LAST constraint with hi `v`, `hcmap_spec`), the labels
and the handle-valued arguments in order (`handleArgs_spec`):
 * the top is the hi of a handle constraint ("Is the MRS's top qeq to a label");
 * no EP has a handle argument equal to its own label ("Do any EPs scope over themselves");
 * an argument that is the hi of a constraint was not selected before — it is not the top, not an
   earlier handle argument, not the lo of a constraint selected earlier ("Do multiple EPs use the
   handle constraint") — and that constraint's lo is a label ("Is the lo handle of a qeq not actually
   a label"); a label used directly as an argument was not selected before;
 * every handle constraint is selected by the top or some argument, and its lo is a label ("Are any
   qeqs not selected by an EP").
`PsSelected hcm t pre x` := `x = t ∨ ∃ lh ∈ pre, x ∈ psContrib hcm lh` (what the top and the arguments
`pre` select: each argument itself and, if it is the hi of a constraint, that constraint's lo). -/
theorem plausiblyScopes_spec (m : MRS) :
    m.plausiblyScopes = true ↔
      ∃ t, m.top = some t ∧ (∃ lo, m.hcmap t = some lo) ∧
        (∀ pre lh post, m.handleArgs = pre ++ lh :: post →
            PsStepOK m.labels m.hcmap (PsSelected m.hcmap t pre) lh) ∧
        (∀ hc ∈ m.hcons, PsSelected m.hcmap t m.handleArgs hc.hi ∧
            ∃ lo, m.hcmap hc.hi = some lo ∧ lo ∈ m.labels) :=
  plausiblyScopes_iff m

/-- `hcmap` is the Python dict `{hc.hi: hc.lo for hc in m.hcons}`: the last constraint on `v` wins. -/
theorem hcmap_spec (m : MRS) (v lo : Var) :
    m.hcmap v = some lo ↔ ∃ pre hc post, m.hcons = pre ++ hc :: post ∧ hc.hi = v ∧ hc.lo = lo ∧
      ∀ hc' ∈ post, hc'.hi ≠ v :=
  hcmap_eq_some_iff m v lo

/-- the handle-valued arguments: (label of the EP, value) for every argument other than ARG0/CARG
whose sort is `h`. -/
theorem handleArgs_spec (m : MRS) (lh : Var × Var) :
    lh ∈ m.handleArgs ↔ ∃ p ∈ m.preds, lh.1 = p.2.label ∧ ∃ a ∈ p.2.args,
      a.1 ≠ INTRINSIC_ROLE ∧ a.1 ≠ CONSTANT_ROLE ∧ a.2.sortIn "h" = true ∧ lh.2 = a.2 :=
  mem_handleArgs m lh

/-- the conditions of `plausiblyScopes_spec` are satisfiable and refutable: `h0 qeq h1`, one EP with a
qeq-ed scopal argument — plausible; the same with the argument equal to the EP's own label — not. -/
example :
    let a : EP := { predicate := "neg", label := ⟨"h", 1⟩, args := [("ARG0", ⟨"e", 2⟩), ("ARG1", ⟨"h", 3⟩)] }
    let b : EP := { predicate := "_rain_v_1", label := ⟨"h", 4⟩, args := [("ARG0", ⟨"e", 5⟩)] }
    let a' : EP := { a with args := [("ARG0", ⟨"e", 2⟩), ("ARG1", ⟨"h", 1⟩)] }
    let hc : List HCons := [⟨⟨"h", 0⟩, "qeq", ⟨"h", 1⟩⟩, ⟨⟨"h", 3⟩, "qeq", ⟨"h", 4⟩⟩]
    (MRS.plausiblyScopes { top := some ⟨"h", 0⟩, index := none, rels := [a, b], hcons := hc } = true) ∧
    (MRS.plausiblyScopes { top := some ⟨"h", 0⟩, index := none, rels := [a', b], hcons := hc } = false) :=
  ⟨by decide, by decide⟩

/-! ## 3. is_well_formed is exactly the conjunction -/

/-- "is_well_formed is exactly the conjunction of connectedness, the
intrinsic-variable property and plausible scoping." -/
theorem isWellFormed_iff (m : MRS) :
    m.isWellFormed = true ↔
      (m.isConnected = true ∧ m.hasIVProperty = true ∧ m.plausiblyScopes = true) := by
  simp [MRS.isWellFormed, Bool.and_eq_true, and_assoc]

/-- … with every conjunct replaced by its INDEPENDENT definition: predication-level connectivity
(`isConnected_iff_predications`), the positional intrinsic-variable property (`hasIVProperty_spec`) and
the declarative scoping tests (`plausiblyScopes_spec`). -/
theorem isWellFormed_spec (m : MRS) :
    m.isWellFormed = true ↔
      ((∀ p ∈ m.preds, ∀ q ∈ m.preds, PConn m p q) ∧
       ((∀ e ∈ m.rels, (¬ ∃ v, (RESTRICTION_ROLE, v) ∈ e.args) → ∃ v, (INTRINSIC_ROLE, v) ∈ e.args) ∧
        (∀ (i j : Nat) (hi : i < m.rels.length) (hj : j < m.rels.length), i < j →
           (¬ ∃ v, (RESTRICTION_ROLE, v) ∈ m.rels[i].args) →
           (¬ ∃ v, (RESTRICTION_ROLE, v) ∈ m.rels[j].args) →
           ∀ v, m.rels[i].iv = some v → m.rels[j].iv ≠ some v)) ∧
       (∃ t, m.top = some t ∧ (∃ lo, m.hcmap t = some lo) ∧
         (∀ pre lh post, m.handleArgs = pre ++ lh :: post →
             PsStepOK m.labels m.hcmap (PsSelected m.hcmap t pre) lh) ∧
         (∀ hc ∈ m.hcons, PsSelected m.hcmap t m.handleArgs hc.hi ∧
             ∃ lo, m.hcmap hc.hi = some lo ∧ lo ∈ m.labels))) := by
  rw [isWellFormed_iff, isConnected_iff_predications, hasIVProperty_spec, plausiblyScopes_spec]

/-! ## 4. The scope map partitions the predications by label -/

/-- "The scope map partitions the predications by label": a scope is exactly the
(non-empty) list of predications carrying its label, in `rels` order; labels occur
once as keys; every predication is in the scope of its label and in no other. -/
theorem scopes_partition (m : MRS) :
    (dkeys m.scopes.2).Nodup ∧
    (∀ l ps, (l, ps) ∈ m.scopes.2 ↔
        (ps = m.preds.filter (fun p => p.2.label = l) ∧ ps ≠ [])) ∧
    (∀ p ∈ m.preds, ∃ ps, (p.2.label, ps) ∈ m.scopes.2 ∧ p ∈ ps) ∧
    (∀ l ps, (l, ps) ∈ m.scopes.2 → ∀ p ∈ ps, p ∈ m.preds ∧ p.2.label = l) := by
  have hsc : m.scopes.2 = m.scopeMap := rfl
  rw [hsc]
  refine ⟨scopeMap_keys_nodup m, fun l ps => mem_scopeMap m l ps, ?_, ?_⟩
  · intro p hp
    refine ⟨m.preds.filter (fun q => q.2.label = p.2.label), ?_, ?_⟩
    · rw [mem_scopeMap]
      refine ⟨rfl, ?_⟩
      intro hnil
      have : p ∈ m.preds.filter (fun q => q.2.label = p.2.label) := by
        simp [List.mem_filter, hp]
      rw [hnil] at this
      simp at this
    · simp [List.mem_filter, hp]
  · intro l ps h p hp
    rw [mem_scopeMap] at h
    rw [h.1, List.mem_filter] at hp
    exact ⟨hp.1, by simpa using hp.2⟩

/-- The top label is the label the top handle resolves to (through the first handle
constraint on it, else itself) when that is a scope label, and absent otherwise. -/
theorem scopes_top (m : MRS) (l : Var) :
    m.scopes.1 = some l ↔ (m.topTarget = some l ∧ ∃ p ∈ m.preds, p.2.label = l) := by
  unfold MRS.scopes
  simp only
  cases ht : m.topTarget with
  | none => simp
  | some t =>
    simp only [Option.some.injEq]
    rw [← mem_scopeMap_keys]
    constructor
    · intro h
      split at h
      · rename_i hmem
        simp only [Option.some.injEq] at h
        exact ⟨h, h ▸ hmem⟩
      · simp at h
    · rintro ⟨rfl, hmem⟩
      rw [if_pos hmem]

/-! ## 5. Descendants and representatives terminate; representatives are members -/

/-- "scope descendants … always terminate": the fuelled recursion of the model never
runs out of fuel and never misses a key, on every MRS. -/
theorem descendants_total (m : MRS) : ∃ r, m.descendants = .ok r ∧ ∀ i ∈ m.ids, i ∈ dkeys r :=
  MRS.descendants_total m

/-- "… and representatives always terminate". -/
theorem representatives_total (m : MRS) : ∃ r, m.representatives = .ok r :=
  MRS.representatives_total m

/-- "with each representative a member of its scope": the representative map has
exactly the scope labels as keys, in order, and every representative of a label is a
predication of that label's scope. -/
theorem representatives_subset (m : MRS) (reps : List (Var × List Pred))
    (h : m.representatives = .ok reps) :
    dkeys reps = dkeys m.scopes.2 ∧
    ∀ l rs, (l, rs) ∈ reps → ∃ sc, (l, sc) ∈ m.scopes.2 ∧ ∀ r ∈ rs, r ∈ sc := by
  have hsc : m.scopes.2 = m.scopeMap := rfl
  rw [hsc]
  unfold MRS.representatives at h
  split at h
  · simp at h
  · rename_i descs _
    simp only [Except.ok.injEq] at h
    subst h
    unfold representativesOf
    constructor
    · simp [dkeys, List.map_map, Function.comp_def]
    · intro l rs hmem
      simp only [List.mem_map] at hmem
      obtain ⟨⟨l', sc⟩, hs, heq⟩ := hmem
      simp only [Prod.mk.injEq] at heq
      obtain ⟨rfl, rfl⟩ := heq
      refine ⟨sc, hs, ?_⟩
      intro r hr
      rw [mem_sortBy] at hr
      exact candidates_subset _ _ _ _ _ hr

/-! ## 6. Existence of a representative -/

/-
FULL STATEMENT (not proved — false of the code, finding F08):
  m.isWellFormed = true → m.representatives = .ok reps → (l, rs) ∈ reps → rs ≠ []
Missing hypothesis: the blocking relation inside the scope (a member takes another
member, or a scopal descendant of another member, as a non-scopal argument) is
acyclic.  Well-formedness does not exclude two predications of one scope that take
each other as arguments; `f08_counterexample` below is such an MRS.
-/

/-- "on well-formed structures every scope has at least one [representative]" —
proved for every scope whose blocking relation is acyclic (`rank` decreases along
`Blocks`); neither well-formedness nor anything else about the MRS is needed. -/
theorem representatives_nonempty_partial (m : MRS) (descs reps : List (Var × List Pred))
    (hd : m.descendants = .ok descs) (h : m.representatives = .ok reps)
    (l : Var) (rs : List Pred) (hmem : (l, rs) ∈ reps)
    (hacyc : ∃ rank : Nat → Nat, ∀ sc, (l, sc) ∈ m.scopes.2 → ∀ i j,
        Blocks (fun p : Pred => p.1) m.nsArgs
          (fun j => ((dlookup j descs).getD []).map (fun p : Pred => p.1)) sc i j →
        rank j < rank i) :
    rs ≠ [] := by
  have hsc : m.scopes.2 = m.scopeMap := rfl
  rw [hsc] at hacyc
  unfold MRS.representatives at h
  rw [hd] at h
  simp only [Except.ok.injEq] at h
  subst h
  unfold representativesOf at hmem
  simp only [List.mem_map] at hmem
  obtain ⟨⟨l', sc⟩, hs, heq⟩ := hmem
  simp only [Prod.mk.injEq] at heq
  obtain ⟨rfl, rfl⟩ := heq
  obtain ⟨rank, hr⟩ := hacyc
  apply sortBy_ne_nil
  have hne : sc ≠ [] := ((mem_scopeMap m l' sc).mp hs).2
  exact candidates_ne_nil _ _ _ sc hne rank (hr sc hs)

/-- the hypothesis `hacyc` of `representatives_nonempty_partial` is satisfiable on a scope with two
members: `_b` takes `_a` as its ARG1, both labelled `h1`; `rank := position` decreases along the only
`Blocks` edge (1 → 0), and `_a` is the representative. -/
def exA : EP := { predicate := "_a_v_1", label := ⟨"h", 1⟩, args := [("ARG0", ⟨"e", 2⟩)] }
def exB : EP := { predicate := "_b_a_1", label := ⟨"h", 1⟩, args := [("ARG0", ⟨"e", 3⟩), ("ARG1", ⟨"e", 2⟩)] }
def exAB : MRS := { top := some ⟨"h", 0⟩, index := some ⟨"e", 2⟩, rels := [exA, exB],
                    hcons := [⟨⟨"h", 0⟩, "qeq", ⟨"h", 1⟩⟩] }

example : ∃ descs reps,
    exAB.descendants = .ok descs ∧ exAB.representatives = .ok reps ∧
    exAB.scopes.2 = [(⟨"h", 1⟩, [(⟨"e", 2⟩, exA), (⟨"e", 3⟩, exB)])] ∧
    reps = [(⟨"h", 1⟩, [(⟨"e", 2⟩, exA)])] ∧
    (∃ rank : Nat → Nat, ∀ sc, ((⟨"h", 1⟩ : Var), sc) ∈ exAB.scopes.2 → ∀ i j,
        Blocks (fun p : Pred => p.1) exAB.nsArgs
          (fun j => ((dlookup j descs).getD []).map (fun p : Pred => p.1)) sc i j →
        rank j < rank i) := by
  refine ⟨[(⟨"e", 2⟩, []), (⟨"e", 3⟩, [])], _, by rfl, by rfl, by rfl, by rfl, fun i => i, ?_⟩
  intro sc hsc i j hb
  have hs : exAB.scopes.2 = [(⟨"h", 1⟩, [(⟨"e", 2⟩, exA), (⟨"e", 3⟩, exB)])] := by rfl
  rw [hs] at hsc
  simp only [List.mem_singleton, Prod.mk.injEq, true_and] at hsc
  subst hsc
  obtain ⟨p, q, hp, hq, hne, h⟩ := hb
  match i, j with
  | 0, 0 => exact absurd rfl hne
  | 1, 0 => exact Nat.zero_lt_one
  | 0, 1 =>
    exfalso
    simp only [List.getElem?_cons_zero, Option.some.injEq] at hp
    subst hp
    have hargs : exAB.nsArgs (⟨"e", 2⟩, exA) = [] := by rfl
    rw [hargs] at h
    simp at h
  | 1, 1 => exact absurd rfl hne
  | i + 2, _ => simp at hp
  | 0, j + 2 => simp at hq
  | 1, j + 2 => simp at hq


/-- the witness of finding F08: `h0 qeq h1`, two predications labelled `h1` taking
each other as `ARG1`. -/
def f08 : MRS :=
  { top := some ⟨"h", 0⟩, index := some ⟨"e", 2⟩,
    rels := [ { predicate := "_a_v_1", label := ⟨"h", 1⟩,
                args := [("ARG0", ⟨"e", 2⟩), ("ARG1", ⟨"e", 3⟩)] },
              { predicate := "_b_v_1", label := ⟨"h", 1⟩,
                args := [("ARG0", ⟨"e", 3⟩), ("ARG1", ⟨"e", 2⟩)] } ],
    hcons := [⟨⟨"h", 0⟩, "qeq", ⟨"h", 1⟩⟩] }

/-- F08: a well-formed MRS one of whose scopes has no representative. -/
theorem f08_counterexample :
    f08.isWellFormed = true ∧ f08.representatives = .ok [(⟨"h", 1⟩, [])] :=
  ⟨by decide, by rfl⟩

/-! ## 7. Conjoining scopes yields the connected components of the label equalities -/

/-- "conjoining scopes under label equalities yields exactly the connected components
of those equalities": every conjoined scope `(k, ps)` belongs to a duplicate-free class
`c` of scope labels — exactly the scope labels connected to `k` by the equalities (in
either direction, any number of steps) — with `k ∈ c` and `ps` the concatenation of the
scopes of the members of `c`; every scope label is in the class of some conjoined
scope; the keys of two different conjoined scopes are not connected.  (Which member is
the key and the order inside `c` are the choices Python leaves to `set` iteration.) -/
theorem conjoin_is_components (m : MRS) (leqs : List (Var × Var)) (res : List (Var × List Pred))
    (h : conjoinMRS m leqs = .ok res) :
    (∀ kp ∈ res, ∃ c : List Var, c.Nodup ∧ kp.1 ∈ c ∧
        (∀ x, x ∈ c ↔ (x ∈ dkeys m.scopes.2 ∧ Reach (adjOf (symm leqs)) kp.1 x)) ∧
        kp.2 = c.flatMap (fun l => (dlookup l m.scopes.2).getD [])) ∧
    (∀ l ∈ dkeys m.scopes.2, ∃ kp ∈ res, Reach (adjOf (symm leqs)) kp.1 l) ∧
    res.Pairwise (fun a b => ¬ Reach (adjOf (symm leqs)) a.1 b.1) :=
  conjoin_components m.scopeMap leqs res (scopeMap_keys_nodup m) h

/-- the same for any scope map with distinct keys (the form `DMRS.scopes` uses). -/
theorem conjoin_is_components_general {lam π : Type} [DecidableEq lam]
    (scopes : List (lam × List π)) (leqs : List (lam × lam)) (res : List (lam × List π))
    (hk : (dkeys scopes).Nodup) (h : conjoin scopes leqs = .ok res) :
    (∀ kp ∈ res, ∃ c : List lam, c.Nodup ∧ kp.1 ∈ c ∧
        (∀ x, x ∈ c ↔ (x ∈ dkeys scopes ∧ Reach (adjOf (symm leqs)) kp.1 x)) ∧
        kp.2 = c.flatMap (fun l => (dlookup l scopes).getD [])) ∧
    (∀ l ∈ dkeys scopes, ∃ kp ∈ res, Reach (adjOf (symm leqs)) kp.1 l) ∧
    res.Pairwise (fun a b => ¬ Reach (adjOf (symm leqs)) a.1 b.1) :=
  conjoin_components scopes leqs res hk h

/-- conjoin fails (KeyError) only when an equality names a label that is not a scope. -/
theorem conjoin_error_iff_foreign (m : MRS) (leqs : List (Var × Var)) (e : Err)
    (h : conjoinMRS m leqs = .error e) :
    e = .keyError ∧ ∃ p ∈ leqs, p.1 ∉ dkeys m.scopes.2 ∨ p.2 ∉ dkeys m.scopes.2 :=
  conjoin_error m.scopeMap leqs e h

/-- BFS correctness (`util._bfs`): the result is exactly the set of nodes reachable
from the start, so the fuel of the model's loop is sufficient. -/
theorem bfs_is_reachability {α : Type} [DecidableEq α] (edges : List (α × α)) (s x : α) :
    x ∈ bfs edges s ↔ Reach (adjOf edges) s x :=
  bfs_correct edges s x

/-! ## 8. DMRS: the top scope is the scope containing the top node itself -/

/-- "for DMRS the top scope is the scope containing the top node itself" — proved in
full for the repaired code (defect F07, comparison by `Node.__eq__`, was fixed by
commit f3d3204; the model compares node ids).  Several nodes may compare equal under
`Node.pyEq`; only the ids are pairwise distinct.  The top label is the key of a scope
that contains the node whose id is `top`, and no other scope contains a node with
that id. -/
theorem dmrsTopScope (d : DMRS) (hnd : d.ids.Nodup) (t : Int) (htop : d.top = some t)
    (top : Option Var) (sc : List (Var × List Node)) (h : d.scopes = .ok (top, sc)) :
    ∃ l ns n, top = some l ∧ (l, ns) ∈ sc ∧ n ∈ ns ∧ n ∈ d.nodes ∧ n.id = t ∧
      (∀ s ∈ sc, (∃ n' ∈ s.2, n'.id = t) → s = (l, ns)) :=
  dmrs_top_scope d hnd t htop top sc h

/-- the hypotheses of `dmrsTopScope` are satisfiable with nodes that compare equal:
the F07 witness (two equal nodes, top is the second) gets the second node's scope. -/
example :
    let n0 : Node := { id := 10000, predicate := "_dog_n_1", type := some "x" }
    let n1 : Node := { id := 10001, predicate := "_dog_n_1", type := some "x" }
    let d : DMRS := { top := some 10001, index := none, nodes := [n0, n1], links := [] }
    n0.pyEq n1 = true ∧ d.ids.Nodup ∧
      d.scopes = .ok (some ⟨"h", 2⟩, [(⟨"h", 1⟩, [n0]), (⟨"h", 2⟩, [n1])]) :=
  ⟨by decide, by decide, by rfl⟩

/-- the scopes of a DMRS partition its nodes. -/
theorem dmrsScopesPartition (d : DMRS) (hnd : d.ids.Nodup) (top : Option Var)
    (sc : List (Var × List Node)) (h : d.scopes = .ok (top, sc)) :
    (∀ n ∈ d.nodes, ∃ s ∈ sc, n ∈ s.2) ∧ (∀ s ∈ sc, ∀ n ∈ s.2, n ∈ d.nodes) ∧
    sc.Pairwise (fun a b => ∀ n ∈ a.2, ∀ n' ∈ b.2, n.id ≠ n'.id) :=
  dmrs_scopes_partition d hnd top sc h

/-- without a top node there is no top scope; `DMRS.scopes` fails (KeyError) only
when the top id or an end of an EQ link is not a node. -/
theorem dmrsNoTop (d : DMRS) (htop : d.top = none) (top : Option Var)
    (sc : List (Var × List Node)) (h : d.scopes = .ok (top, sc)) : top = none :=
  dmrs_no_top d htop top sc h

theorem dmrsScopesError (d : DMRS) (e : Err) (h : d.scopes = .error e) :
    e = .keyError ∧ ((∃ l ∈ d.links, l.post = EQ_POST ∧ (l.start ∉ d.ids ∨ l.stop ∉ d.ids)) ∨
                     (∃ t, d.top = some t ∧ t ∉ d.ids)) :=
  dmrs_scopes_error d e h

/-! ## 8b. DMRS: scopes are the EQ-link classes; descendants and representatives (round 5)

`DMRS.descendantsWith sc` / `DMRS.representativesWith sc` are `scope.descendants(d, sc)` /
`scope.representatives(d)` for a given scope map `sc` (the order of the nodes inside a conjoined
scope is Python `set` order, so the statements quantify over every scope map whose nodes are nodes
of `d`); `DMRS.descendants` / `DMRS.representatives` use the model's own `DMRS.scopes`. -/

/-- "conjoining scopes under label equalities yields exactly the connected components of those
equalities", on DMRS: two nodes share a scope iff they are connected by EQ links — for arbitrary EQ
link sets (cycles, parallel links, self loops) and however many nodes compare equal. -/
theorem dmrsSameScopeIff (d : DMRS) (hnd : d.ids.Nodup) (top : Option Var)
    (sc : List (Var × List Node)) (h : d.scopes = .ok (top, sc))
    (n n' : Node) (hn : n ∈ d.nodes) (hn' : n' ∈ d.nodes) :
    (∃ s ∈ sc, n ∈ s.2 ∧ n' ∈ s.2) ↔ Reach (adjOf (symm d.eqEdges)) n.id n'.id :=
  dmrs_same_scope_iff d hnd top sc h n n' hn hn'

/-- "for DMRS the top scope is the scope containing the top node itself": the top label is the key
of the scope whose members are exactly the nodes EQ-connected to the node whose ID is `top` —
node equality (`Node.pyEq`) plays no role. -/
theorem dmrsTopScopeClass (d : DMRS) (hnd : d.ids.Nodup) (t : Int) (htop : d.top = some t)
    (top : Option Var) (sc : List (Var × List Node)) (h : d.scopes = .ok (top, sc)) :
    ∃ l ns, top = some l ∧ (l, ns) ∈ sc ∧
      ∀ n ∈ d.nodes, (n ∈ ns ↔ Reach (adjOf (symm d.eqEdges)) t n.id) :=
  dmrs_top_scope_class d hnd t htop top sc h

/-- … even when another node compares equal to the top node and precedes it: a concrete DMRS with
an EQ link between two equal nodes and a third equal node as top. -/
example :
    let n0 : Node := { id := 10000, predicate := "_dog_n_1", type := some "x" }
    let n1 : Node := { id := 10001, predicate := "_dog_n_1", type := some "x" }
    let n2 : Node := { id := 10002, predicate := "_dog_n_1", type := some "x" }
    let d : DMRS := { top := some 10002, index := none, nodes := [n0, n1, n2],
                      links := [⟨10000, 10001, "ARG1", "EQ"⟩] }
    n0.pyEq n2 = true ∧ n1.pyEq n2 = true ∧
      (match d.scopes with | .ok r => r.1 | .error _ => none) = some ⟨"h", 3⟩ :=
  ⟨by decide, by decide, by rfl⟩

/-- "scope descendants … always terminate", on DMRS: the fuelled recursion never runs out — the
only other outcomes are the code's own KeyError (a scopal link starting at a missing node) and
AssertionError (a scopal link ending at a missing node) — including cyclic H/HEQ links. -/
theorem dmrsDescendantsTerminate (d : DMRS) (hnd : d.ids.Nodup) (sc : List (Var × List Node))
    (hsc : ∀ s ∈ sc, ∀ n ∈ s.2, n.id ∈ d.ids) :
    d.descendantsWith sc ≠ .error .fuel ∧ d.descendants ≠ .error .fuel :=
  ⟨dmrs_descendantsWith_no_fuel d hnd sc hsc, dmrs_descendants_no_fuel d hnd⟩

/-- when every scopal link joins nodes that are in some scope, every node gets a descendant list. -/
theorem dmrsDescendantsTotal (d : DMRS) (hnd : d.ids.Nodup) (sc : List (Var × List Node))
    (hsc : ∀ s ∈ sc, ∀ n ∈ s.2, n.id ∈ d.ids)
    (hlinks : ∀ l ∈ d.links, (l.post = H_POST ∨ l.post = HEQ_POST) →
        l.start ∈ d.ids ∧ l.stop ∈ dkeys (scopeLabelOf sc)) :
    ∃ r, d.descendantsWith sc = .ok r ∧ ∀ i ∈ d.ids, i ∈ dkeys r :=
  dmrs_descendantsWith_total d hnd sc hsc hlinks

/-- the hypotheses of `dmrsDescendantsTotal` (`hnd`, `hsc`, `hlinks`) are satisfiable: a three-node
DMRS with an RSTR/H link and an ARG1/NEQ link; the quantifier's descendants are its restriction. -/
example :
    let q : Node := { id := 10000, predicate := "_the_q" }
    let n : Node := { id := 10001, predicate := "_dog_n_1", type := some "x" }
    let v : Node := { id := 10002, predicate := "_bark_v_1", type := some "e" }
    let d : DMRS := { top := some 10002, index := some 10002, nodes := [q, n, v],
                      links := [⟨10000, 10001, "RSTR", "H"⟩, ⟨10002, 10001, "ARG1", "NEQ"⟩] }
    let sc : List (Var × List Node) := [(⟨"h", 1⟩, [q]), (⟨"h", 2⟩, [n]), (⟨"h", 3⟩, [v])]
    d.ids.Nodup ∧ (∀ s ∈ sc, ∀ n ∈ s.2, n.id ∈ d.ids) ∧
    (∀ l ∈ d.links, (l.post = H_POST ∨ l.post = HEQ_POST) →
        l.start ∈ d.ids ∧ l.stop ∈ dkeys (scopeLabelOf sc)) ∧
    d.scopes = .ok (some ⟨"h", 3⟩, sc) ∧
    d.descendantsWith sc = .ok [(10000, [n]), (10001, []), (10002, [])] ∧
    d.representativesWith sc = .ok sc := by
  refine ⟨by decide, by decide, by decide, by rfl, by rfl, by rfl⟩

/-- "… and representatives always terminate, with each representative a member of its scope", on
DMRS, for every scope map and for the model's own. -/
theorem dmrsRepresentativesTerminate (d : DMRS) (hnd : d.ids.Nodup) (sc : List (Var × List Node))
    (hsc : ∀ s ∈ sc, ∀ n ∈ s.2, n.id ∈ d.ids) :
    d.representativesWith sc ≠ .error .fuel ∧ d.representatives ≠ .error .fuel :=
  ⟨dmrs_representativesWith_no_fuel d hnd sc hsc, dmrs_representatives_no_fuel d hnd⟩

theorem dmrsRepresentativesSubset (d : DMRS) (sc reps : List (Var × List Node))
    (h : d.representativesWith sc = .ok reps) :
    dkeys reps = dkeys sc ∧
    ∀ l rs, (l, rs) ∈ reps → ∃ ns, (l, ns) ∈ sc ∧ ∀ r ∈ rs, r ∈ ns :=
  dmrs_representativesWith_subset d sc reps h

theorem dmrsRepresentativesSubsetOwn (d : DMRS) (hnd : d.ids.Nodup) (top : Option Var)
    (sc reps : List (Var × List Node)) (hs : d.scopes = .ok (top, sc))
    (h : d.representatives = .ok reps) :
    dkeys reps = dkeys sc ∧
    ∀ l rs, (l, rs) ∈ reps → ∃ ns, (l, ns) ∈ sc ∧ ∀ r ∈ rs, r ∈ ns ∧ r ∈ d.nodes :=
  dmrs_representatives_subset d hnd top sc reps hs h

/-! ## 9. The representation invariant of the model -/

/-- "All MRSs in which every predication has an intrinsic argument": on them (the sort
`_`, which `EP.__init__` uses for a missing ARG0, excluded) the ids assigned by
`_uniquify_ids` are pairwise distinct, so the dictionaries of the code keyed by EP id
and the positional lists of the model coincide (`idsDistinct` is the driver's guard). -/
theorem ids_distinct (m : MRS) (h : ∀ e ∈ m.rels, ∃ v, e.iv = some v ∧ v.sort ≠ "_") :
    m.ids.Nodup ∧ m.idsDistinct = true :=
  ⟨ids_nodup m h, idsDistinct_of_ivs m h⟩

/-! ## 10. Pins: the constants of the anchored code that the shared `Sem` model hand-codes

`Verif/Generated/TablesC07.lean` is rewritten on every run by `harness/c07.py: tables()` from the
live code objects of /repo: for every anchored function its constants (`co_consts`; comprehensions
and inner functions flattened between `<name>` … `</>`; docstrings and message texts dropped), the
global/attribute names it refers to (`co_names`) and its default argument values; the module-level
constants; the compiled variable pattern; and the EP id formats observed by behaviour.  The literal
copies below sit next to the model definitions that mirror them, so a change to any of them stops
this theorem from checking (reported as a broken proof obligation, followed by a failing-input search):

* `is_connected` (names: label/iv/hcons hi→lo/arguments/`_bfs`, `issubset`) — `MRS.graphNodes`,
  `MRS.graphEdges`, `MRS.hcmap`, `MRS.isConnected`;
* `has_intrinsic_variable_property` / `has_complete…` / `has_unique…` (conjunct names, `is_quantifier`,
  `iv`, `len(set(..))`) — `MRS.hasIVProperty`, `MRS.hasCompleteIVs`, `MRS.hasUniqueIVs`;
* `plausibly_scopes` (`types='h'`, `False`/`True`, `top`, hi/lo) — `psStep`, `MRS.handleArgs`,
  `MRS.plausiblyScopes`; `is_well_formed` (the three conjunct names) — `MRS.isWellFormed`;
* `EP.__init__` (`'_0'`, `'_'`, `_QUANTIFIER_TYPE`), `EP.is_quantifier`, `_uniquify_ids` (`'_{}'`, default
  `0`, step `1`) — `EP.iv`, `EP.baseId`, `EP.type`, `EP.isQuantifier`, `uniquify`, `maxVid`, `MRS.ids`
  (and `c07IdProbes` re-computed here BY THE MODEL: `x5`, `q5`, `_0`, `q0`; `x5,_5,_6`; `h1`);
* `MRS.arguments` (skips `INTRINSIC_ROLE`, `CONSTANT_ROLE`; defaults `None, None`) — `EP.outArgs`;
  `MRS.scopes` — `groupByLabel`, `MRS.topTarget`, `MRS.scopes`; `MRS.scopal_arguments` (`LHEQ`,
  `relation`, `lo`) — `MRS.scopalArgsOf`; `MRS.is_quantifier`, `MRS.properties` — `MRS.repRank`, `MRS.props`;
* `scope.conjoin` (`_connected_components`, `next(iter(..))`, `extend`) — `conjoin`; `descendants` /
  `_descendants` (`scopes.get(label, [])`, `append`, `extend`) — `descVisit`, `descendantsOf`;
  `representatives` (`types='xeipu'`, `len(scope) == 1`, `intersection`, `sort(key=…)`) — `candidates`,
  `blocked`, `representativesOf`, `MRS.nsArgs`; `_make_representative_priority` (ranks `0 1 2 3`, `'x'`,
  `'e'`, `'TENSE'`, `''`, index from `1`) and `_UNTENSED_VALUES` — `MRS.repRank`, `MRS.repKey`, `sortBy`;
* `DMRS.scopes` (`starting_vid=1`, `HANDLE`, `EQ_POST`, top by `node.id`), `_normalize_top_and_links`
  (`TOP_NODE_ID`), `Node.__eq__`, `VariableFactory` — `idToLbl`, `DMRS.leqs`, `DMRS.prescopes`, `DMRS.scopes`,
  `normalizeTopAndLinks`, `Node.pyEq`;
* `DMRS.arguments` (skips `BARE_EQ_ROLE`; `H_POST`/`HEQ_POST` links count as type `HANDLE`; otherwise the
  end node's `type`; defaults `None, None`), `DMRS.scopal_arguments` (`HEQ_POST`→`LHEQ`, `H_POST`→`QEQ`,
  `id_to_lbl.get(end, end)`), `DMRS.is_quantifier` (outgoing `RESTRICTION_ROLE` link), `DMRS.properties`,
  `DMRS.__init__` (`_normalize_top_and_links`) — `DMRS.linkPasses`, `DMRS.argsStep`, `DMRS.arguments`,
  `scopeLabelOf`, `DMRS.scargsStep`, `DMRS.scopalArguments`, `DMRS.descendantsWith`, `DMRS.isQuantifier`,
  `DMRS.repRank`, `DMRS.representativesWith`, `normalizeTopAndLinks`;
* `util._bfs` (default start `None`, `deque`/`popleft`/`extend`, `g.get(x, [])`), `_connected_components` —
  `bfsLoop`, `bfs`, `componentsLoop`, `connectedComponents`;
* `variable._variable_re` / `split` (groups 1, 2), sorts `u i p e x h` — `Var` (sort, vid), `Var.sortIn`
  and the converters of `harness/common/semgen.py`; role and relation names — `INTRINSIC_ROLE`,
  `RESTRICTION_ROLE`, `CONSTANT_ROLE`, `LHEQ`, `QEQ`, `EQ_POST`, `HEQ_POST`, `H_POST`. -/

def pinEP (args : List (Role × Var)) : EP := { predicate := "p", label := ⟨"h", 1⟩, args := args }
def pinMRS3 : MRS :=
  { top := none, index := none, hcons := [],
    rels := [pinEP [("ARG0", ⟨"x", 5⟩)], pinEP [("ARG0", ⟨"x", 5⟩)], pinEP [("ARG0", ⟨"x", 5⟩)]] }

open Verif.Tables in
theorem c07_pins :
    c07IsConnectedConsts = [] ∧
    c07IsConnectedNames = ["rels", "id", "set", "label", "iv", "update", "setdefault", "add", "hcons", "hi", "lo", "arguments", "items", "get", "issubset", "util", "_bfs"] ∧
    c07IsConnectedDefaults = [] ∧
    c07HasIvPropertyConsts = [] ∧
    c07HasIvPropertyNames = ["has_complete_intrinsic_variables", "has_unique_intrinsic_variables"] ∧
    c07HasIvPropertyDefaults = [] ∧
    c07HasCompleteIvsConsts = ["<<genexpr>>", "None", "</>"] ∧
    c07HasCompleteIvsNames = ["all", "rels", "is_quantifier", "iv"] ∧
    c07HasCompleteIvsDefaults = [] ∧
    c07HasUniqueIvsConsts = [] ∧
    c07HasUniqueIvsNames = ["rels", "is_quantifier", "iv", "len", "set"] ∧
    c07HasUniqueIvsDefaults = [] ∧
    c07PlausiblyScopesConsts = ["<<genexpr>>", "None", "</>", "False", "'h'", "('types',)", "True"] ∧
    c07PlausiblyScopesNames = ["set", "rels", "hcons", "hi", "lo", "top", "arguments", "items", "cast", "mrs", "EP", "label", "add", "label"] ∧
    c07PlausiblyScopesDefaults = [] ∧
    c07IsWellFormedConsts = [] ∧
    c07IsWellFormedNames = ["is_connected", "has_intrinsic_variable_property", "plausibly_scopes"] ∧
    c07IsWellFormedDefaults = [] ∧
    c07EpInitConsts = ["None", "'_0'", "'_'"] ∧
    c07EpInitNames = ["get", "INTRINSIC_ROLE", "variable", "split", "RESTRICTION_ROLE", "_QUANTIFIER_TYPE", "super", "__init__", "label", "args", "base"] ∧
    c07EpInitDefaults = ["None", "None", "None", "None"] ∧
    c07EpIsQuantifierConsts = [] ∧
    c07EpIsQuantifierNames = ["RESTRICTION_ROLE", "args"] ∧
    c07EpIsQuantifierDefaults = [] ∧
    c07UniquifyIdsConsts = ["None", "<<genexpr>>", "None", "</>", "0", "('default',)", "'_{}'", "1"] ∧
    c07UniquifyIdsNames = ["max", "set", "id", "format", "add", "iv", "variable", "id"] ∧
    c07UniquifyIdsDefaults = [] ∧
    c07MrsArgumentsConsts = ["None"] ∧
    c07MrsArgumentsNames = ["rels", "iv", "id", "args", "items", "INTRINSIC_ROLE", "CONSTANT_ROLE", "variable", "type", "append"] ∧
    c07MrsArgumentsDefaults = ["None", "None"] ∧
    c07MrsScopesConsts = ["<<genexpr>>", "None", "</>", "None"] ∧
    c07MrsScopesNames = ["rels", "setdefault", "label", "append", "next", "hcons", "top", "hi", "top", "lo"] ∧
    c07MrsScopesDefaults = [] ∧
    c07MrsScopalArgumentsConsts = ["None"] ∧
    c07MrsScopalArgumentsNames = ["rels", "label", "hcons", "hi", "id", "args", "items", "INTRINSIC_ROLE", "CONSTANT_ROLE", "append", "scope", "LHEQ", "relation", "lo"] ∧
    c07MrsScopalArgumentsDefaults = ["None"] ∧
    c07MrsIsQuantifierConsts = [] ∧
    c07MrsIsQuantifierNames = ["RESTRICTION_ROLE", "args"] ∧
    c07MrsIsQuantifierDefaults = [] ∧
    c07MrsPropertiesConsts = [] ∧
    c07MrsPropertiesNames = ["iv", "variables"] ∧
    c07MrsPropertiesDefaults = [] ∧
    c07ConjoinConsts = [] ∧
    c07ConjoinNames = ["_connected_components", "list", "next", "iter", "extend"] ∧
    c07ConjoinDefaults = [] ∧
    c07DescendantsConsts = ["('scopes',)"] ∧
    c07DescendantsNames = ["scopes", "scopal_arguments", "predications", "_descendants", "id"] ∧
    c07DescendantsDefaults = ["None"] ∧
    c07DescendantsRecConsts = ["None"] ∧
    c07DescendantsRecNames = ["isinstance", "str", "get", "append", "_descendants", "id", "extend"] ∧
    c07DescendantsRecDefaults = [] ∧
    c07RepresentativesConsts = ["'xeipu'", "('types',)", "<<genexpr>>", "None", "</>", "<<genexpr>>", "None", "</>", "1", "<<genexpr>>", "None", "</>", "('key',)"] ∧
    c07RepresentativesNames = ["scopes", "arguments", "items", "set", "descendants", "len", "extend", "id", "intersection", "any", "append", "_make_representative_priority", "sort", "id", "intersection"] ∧
    c07RepresentativesDefaults = ["None"] ∧
    c07RepPriorityConsts = ["1", "'p'", "<representative_priority>", "None", "'x'", "0", "'e'", "'TENSE'", "''", "2", "1", "3", "</>"] ∧
    c07RepPriorityNames = ["enumerate", "predications", "id", "Predication", "id", "type", "is_quantifier", "properties", "get", "lower", "_UNTENSED_VALUES"] ∧
    c07RepPriorityDefaults = [] ∧
    c07DmrsScopesConsts = ["1", "('starting_vid',)", "None", "<<genexpr>>", "<<genexpr>>", "None", "</>", "None", "</>"] ∧
    c07DmrsScopesNames = ["variable", "HANDLE", "VariableFactory", "nodes", "id", "new", "links", "post", "EQ_POST", "start", "end", "scope", "conjoin", "top", "next", "items", "any", "id"] ∧
    c07DmrsScopesDefaults = [] ∧
    c07DmrsNormalizeConsts = [] ∧
    c07DmrsNormalizeNames = ["start", "TOP_NODE_ID", "end", "append"] ∧
    c07DmrsNormalizeDefaults = [] ∧
    c07DmrsArgumentsConsts = [] ∧
    c07DmrsArgumentsNames = ["nodes", "id", "variable", "HANDLE", "links", "role", "BARE_EQ_ROLE", "post", "H_POST", "HEQ_POST", "end", "type", "start", "append"] ∧
    c07DmrsArgumentsDefaults = ["None", "None"] ∧
    c07DmrsScopalArgumentsConsts = [] ∧
    c07DmrsScopalArgumentsNames = ["items", "id", "nodes", "links", "post", "HEQ_POST", "scope", "LHEQ", "H_POST", "QEQ", "get", "end", "start", "append", "role"] ∧
    c07DmrsScopalArgumentsDefaults = ["None"] ∧
    c07DmrsIsQuantifierConsts = ["<<genexpr>>", "None", "</>"] ∧
    c07DmrsIsQuantifierNames = ["any", "links", "start", "role", "RESTRICTION_ROLE"] ∧
    c07DmrsIsQuantifierDefaults = [] ∧
    c07DmrsPropertiesConsts = ["None"] ∧
    c07DmrsPropertiesNames = ["properties"] ∧
    c07DmrsPropertiesDefaults = [] ∧
    c07DmrsInitConsts = ["None"] ∧
    c07DmrsInitNames = ["_normalize_top_and_links", "int", "super", "__init__", "list", "links"] ∧
    c07DmrsInitDefaults = ["None", "None", "None", "None", "None", "None", "None"] ∧
    c07NodeEqConsts = ["None"] ∧
    c07NodeEqNames = ["isinstance", "Node", "NotImplemented", "predicate", "type", "properties", "carg"] ∧
    c07NodeEqDefaults = [] ∧
    c07BfsConsts = ["None", "<<genexpr>>", "None", "</>"] ∧
    c07BfsNames = ["set", "next", "iter", "deque", "popleft", "add", "extend", "get"] ∧
    c07BfsDefaults = ["None"] ∧
    c07ConnectedComponentsConsts = ["None"] ∧
    c07ConnectedComponentsNames = ["set", "add", "_bfs", "update", "append"] ∧
    c07ConnectedComponentsDefaults = [] ∧
    c07VariableSplitConsts = ["1", "2"] ∧
    c07VariableSplitNames = ["_variable_re", "match", "ValueError", "group"] ∧
    c07VariableSplitDefaults = [] ∧
    c07VarFactoryInitConsts = ["None"] ∧
    c07VarFactoryInitNames = ["vid", "index", "store"] ∧
    c07VarFactoryInitDefaults = ["1"] ∧
    c07VarFactoryNewConsts = ["1"] ∧
    c07VarFactoryNewNames = ["UNSPECIFIC", "vid", "index", "store"] ∧
    c07VarFactoryNewDefaults = ["None"] ∧
    c07VariableSorts = ["u", "i", "p", "e", "x", "h"] ∧
    c07VariablePattern = "^([-\\w]*[^\\s\\d])(\\d+)$" ∧
    c07VariablePatternFlags = 32 ∧
    c07MrsRoles = [INTRINSIC_ROLE, RESTRICTION_ROLE, "BODY", CONSTANT_ROLE, "q"] ∧
    c07ScopeRelations = ["leq", LHEQ, "outscopes", QEQ] ∧
    c07UntensedValues = ["", "untensed"] ∧
    c07DmrsConstants = ["0", "10000", "RSTR", BARE_EQ_ROLE, EQ_POST, HEQ_POST, "NEQ", H_POST, "NIL", "cvarsort"] ∧
    c07IdProbes = (([pinEP [("ARG0", ⟨"x", 5⟩)], pinEP [("ARG0", ⟨"x", 5⟩), ("RSTR", ⟨"h", 2⟩)], pinEP [],
          pinEP [("RSTR", ⟨"h", 2⟩)]].map EP.baseId
        ++ (pinMRS3).ids
        ++ ((DMRS.idToLbl { top := none, index := none, nodes := [{ id := 10000, predicate := "p" }], links := [] }).map (·.2))
       ).map (fun v => (v.sort, v.vid))) := by
  repeat' apply And.intro
  all_goals first | rfl | decide

end Verif.C07
