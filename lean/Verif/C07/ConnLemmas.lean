/- C07: is_connected equals predication-level connectivity (independent definition). -/
import Verif.Common.Sem
import Verif.Common.SemLemmas
import Verif.C07.WfLemmas
namespace Verif.Sem

/-- the variables a predication stands for in the graph: its id, its label, its intrinsic variable -/
def predOwns (p : Pred) (v : Var) : Prop := v = p.1 ∨ v = p.2.label ∨ p.2.iv = some v

/-- `p ~ q`: the two predications share a label, an intrinsic variable (or any other of their
own variables), or an argument of `p`, resolved through the handle constraints (hi ↦ lo, else
itself), is `q`'s label, intrinsic variable or id. -/
def PAdj (m : MRS) (p q : Pred) : Prop :=
  (∃ v, predOwns p v ∧ predOwns q v) ∨
  (∃ a ∈ p.2.outArgs none, predOwns q ((m.hcmap a.2).getD a.2))

theorem PAdj.of_label {m : MRS} {p q : Pred} (h : p.2.label = q.2.label) : PAdj m p q :=
  Or.inl ⟨p.2.label, Or.inr (Or.inl rfl), Or.inr (Or.inl h)⟩

theorem PAdj.of_iv {m : MRS} {p q : Pred} {v : Var} (hp : p.2.iv = some v)
    (hq : q.2.iv = some v) : PAdj m p q :=
  Or.inl ⟨v, Or.inr (Or.inr hp), Or.inr (Or.inr hq)⟩

/-- reflexive, symmetric, transitive closure of `~` over the predications of `m` -/
inductive PConn (m : MRS) : Pred → Pred → Prop
  | refl (p : Pred) : PConn m p p
  | step {p q r : Pred} : PConn m p q → r ∈ m.preds → (PAdj m q r ∨ PAdj m r q) → PConn m p r

/-! ### helper facts -/

theorem mem_preds_fst {m : MRS} {r : Pred} (h : r ∈ m.preds) : r.1 ∈ m.ids := by
  rw [← preds_map_fst m]
  exact List.mem_map.2 ⟨r, h, rfl⟩

theorem mem_preds_snd {m : MRS} {r : Pred} (h : r ∈ m.preds) : r.2 ∈ m.rels := by
  rw [← preds_map_snd m]
  exact List.mem_map.2 ⟨r, h, rfl⟩

theorem exists_pred_of_id {m : MRS} {i : Var} (h : i ∈ m.ids) : ∃ r ∈ m.preds, r.1 = i := by
  rw [← preds_map_fst m] at h
  obtain ⟨r, hr, e⟩ := List.mem_map.1 h
  exact ⟨r, hr, e⟩

theorem exists_pred_of_rel {m : MRS} {e : EP} (h : e ∈ m.rels) : ∃ r ∈ m.preds, r.2 = e := by
  rw [← preds_map_snd m] at h
  obtain ⟨r, hr, e⟩ := List.mem_map.1 h
  exact ⟨r, hr, e⟩

theorem predOwns_mem_graphNodes {m : MRS} {r : Pred} {x : Var} (ho : predOwns r x)
    (hr : r ∈ m.preds) : x ∈ m.graphNodes := by
  unfold MRS.graphNodes
  rw [List.mem_append, List.mem_append]
  rcases ho with h | h | h
  · exact Or.inl (Or.inl (h ▸ mem_preds_fst hr))
  · refine Or.inl (Or.inr ?_)
    unfold MRS.labels
    exact List.mem_map.2 ⟨r.2, mem_preds_snd hr, h.symm⟩
  · exact Or.inr (List.mem_filterMap.2 ⟨r.2, mem_preds_snd hr, h⟩)

theorem exists_owner_of_mem_graphNodes {m : MRS} {x : Var} (h : x ∈ m.graphNodes) :
    ∃ r ∈ m.preds, predOwns r x := by
  unfold MRS.graphNodes at h
  rw [List.mem_append, List.mem_append] at h
  rcases h with (h | h) | h
  · obtain ⟨r, hr, e⟩ := exists_pred_of_id h
    exact ⟨r, hr, Or.inl e.symm⟩
  · unfold MRS.labels at h
    obtain ⟨e, he, hl⟩ := List.mem_map.1 h
    obtain ⟨r, hr, rfl⟩ := exists_pred_of_rel he
    exact ⟨r, hr, Or.inr (Or.inl hl.symm)⟩
  · obtain ⟨e, he, hiv⟩ := List.mem_filterMap.1 h
    obtain ⟨r, hr, rfl⟩ := exists_pred_of_rel he
    exact ⟨r, hr, Or.inr (Or.inr hiv)⟩

theorem reach_of_edge {m : MRS} {a b : Var} (h : (a, b) ∈ m.graphEdges) :
    Reach (adjOf (symm m.graphEdges)) a b :=
  Reach.tail (Reach.refl a) ((mem_adjOf _ _ _).2 ((mem_symm _ _ _).2 (Or.inl h)))

theorem predOwns_reach {m : MRS} {r : Pred} {x : Var} (ho : predOwns r x) (hr : r ∈ m.preds) :
    Reach (adjOf (symm m.graphEdges)) r.1 x := by
  rcases ho with h | h | h
  · rw [h]; exact Reach.refl _
  · exact reach_of_edge ((mem_graphEdges m r.1 x).2 ⟨r, hr, rfl, Or.inl h⟩)
  · exact reach_of_edge ((mem_graphEdges m r.1 x).2 ⟨r, hr, rfl, Or.inr (Or.inl h)⟩)

/-! ### graph reachability ⇒ predication connectivity -/

theorem PConn.step_shared {m : MRS} {p q r : Pred} {v : Var} (h : PConn m p q)
    (hr : r ∈ m.preds) (hq : predOwns q v) (ho : predOwns r v) : PConn m p r :=
  PConn.step h hr (Or.inl (Or.inl ⟨v, hq, ho⟩))

theorem pconn_of_reach (m : MRS) (a x : Var) (h : Reach (adjOf (symm m.graphEdges)) a x) :
    ∀ p ∈ m.preds, p.1 = a → ∀ r ∈ m.preds, predOwns r x → PConn m p r := by
  induction h with
  | refl =>
    intro p _ hpa r hr ho
    exact PConn.step_shared (PConn.refl p) hr (Or.inl hpa.symm) ho
  | @tail b c _ hc ih =>
    intro p hp hpa r hr ho
    rw [mem_adjOf, mem_symm, mem_graphEdges, mem_graphEdges] at hc
    rcases hc with ⟨p', hp', hb, hcase⟩ | ⟨p', hp', hcp, hcase⟩
    · -- edge b = p'.1 → c
      have hpp' : PConn m p p' := ih p hp hpa p' hp' (Or.inl hb)
      rcases hcase with h | h | ⟨arg, harg, hcv, _⟩
      · exact PConn.step_shared hpp' hr (Or.inr (Or.inl h)) ho
      · exact PConn.step_shared hpp' hr (Or.inr (Or.inr h)) ho
      · exact PConn.step hpp' hr (Or.inl (Or.inr ⟨arg, harg, hcv ▸ ho⟩))
    · -- edge c = p'.1 → b
      have hpp' : PConn m p p' := by
        rcases hcase with h | h | ⟨arg, harg, hbv, hbn⟩
        · exact ih p hp hpa p' hp' (Or.inr (Or.inl h))
        · exact ih p hp hpa p' hp' (Or.inr (Or.inr h))
        · obtain ⟨o, ho', hob⟩ := exists_owner_of_mem_graphNodes hbn
          have hpo : PConn m p o := ih p hp hpa o ho' hob
          exact PConn.step hpo hp' (Or.inr (Or.inr ⟨arg, harg, hbv ▸ hob⟩))
      exact PConn.step_shared hpp' hr (Or.inl hcp) ho

/-! ### predication connectivity ⇒ graph reachability -/

theorem reach_of_padj {m : MRS} {q r : Pred} (h : PAdj m q r) (hq : q ∈ m.preds)
    (hr : r ∈ m.preds) : Reach (adjOf (symm m.graphEdges)) q.1 r.1 := by
  rcases h with ⟨v, hqv, hrv⟩ | ⟨arg, harg, hrv⟩
  · exact Reach.trans (predOwns_reach hqv hq) (Reach.symm_of_symm _ (predOwns_reach hrv hr))
  · have hn := predOwns_mem_graphNodes hrv hr
    have he : (q.1, (m.hcmap arg.2).getD arg.2) ∈ m.graphEdges :=
      (mem_graphEdges m _ _).2 ⟨q, hq, rfl, Or.inr (Or.inr ⟨arg, harg, rfl, hn⟩)⟩
    exact Reach.trans (reach_of_edge he) (Reach.symm_of_symm _ (predOwns_reach hrv hr))

theorem reach_of_pconn {m : MRS} {p q : Pred} (h : PConn m p q) (hp : p ∈ m.preds) :
    q ∈ m.preds ∧ Reach (adjOf (symm m.graphEdges)) p.1 q.1 := by
  induction h with
  | refl => exact ⟨hp, Reach.refl _⟩
  | step _ hr hadj ih =>
    obtain ⟨hq, hreach⟩ := ih
    refine ⟨hr, Reach.trans hreach ?_⟩
    rcases hadj with h | h
    · exact reach_of_padj h hq hr
    · exact Reach.symm_of_symm _ (reach_of_padj h hr hq)

theorem reach_iff_pconn (m : MRS) (p q : Pred) (hp : p ∈ m.preds) (hq : q ∈ m.preds) :
    Reach (adjOf (symm m.graphEdges)) p.1 q.1 ↔ PConn m p q :=
  ⟨fun h => pconn_of_reach m p.1 q.1 h p hp rfl q hq (Or.inl rfl),
   fun h => (reach_of_pconn h hp).2⟩

/-- [core] is_connected = predication-level connectivity -/
theorem isConnected_iff_pconn (m : MRS) :
    m.isConnected = true ↔ ∀ p ∈ m.preds, ∀ q ∈ m.preds, PConn m p q := by
  have hfrom : ∀ s, m.isConnectedFrom s = true ↔
      ∀ j ∈ m.ids, Reach (adjOf (symm m.graphEdges)) s j := by
    intro s
    unfold MRS.isConnectedFrom
    simp only [List.all_eq_true, decide_eq_true_eq, bfs_correct]
  unfold MRS.isConnected
  cases hids : m.ids with
  | nil =>
    have hp : m.preds = [] := by unfold MRS.preds; rw [hids]; exact List.zip_nil_left
    rw [hp]
    simp
  | cons i0 rest =>
    simp only
    rw [hfrom, hids]
    constructor
    · intro h p hp q hq
      have h1 := h p.1 (hids ▸ mem_preds_fst hp)
      have h2 := h q.1 (hids ▸ mem_preds_fst hq)
      exact (reach_iff_pconn m p q hp hq).1 (Reach.trans (Reach.symm_of_symm _ h1) h2)
    · intro h j hj
      obtain ⟨p, hp, hp0⟩ := exists_pred_of_id (m := m) (i := i0) (hids ▸ List.mem_cons_self)
      obtain ⟨q, hq, hqj⟩ := exists_pred_of_id (m := m) (i := j) (hids ▸ hj)
      have := (reach_iff_pconn m p q hp hq).2 (h p hp q hq)
      rw [hp0, hqj] at this
      exact this

end Verif.Sem
