/- C07 helper lemmas: duplicate-free lists, the is_connected graph, representatives. -/
import Verif.Common.Sem
import Verif.Common.SemLemmas

namespace Verif.Sem

/-! ### `len(set(xs)) == len(xs)` -/

theorem eraseDups_length_le {α : Type} [DecidableEq α] (l : List α) :
    l.eraseDups.length ≤ l.length := by
  match l with
  | [] => simp
  | a :: as =>
    rw [List.eraseDups_cons]
    have h1 := eraseDups_length_le (as.filter (fun b => !b == a))
    have h2 := List.length_filter_le (fun b => !b == a) as
    simp only [List.length_cons]
    omega
termination_by l.length
decreasing_by
  simp only [List.length_cons]
  have := List.length_filter_le (fun b => !b == a) as
  omega

theorem eraseDups_length_eq_iff {α : Type} [DecidableEq α] (l : List α) :
    l.eraseDups.length = l.length ↔ l.Nodup := by
  match l with
  | [] => simp
  | a :: as =>
    rw [List.eraseDups_cons, List.nodup_cons]
    have h1 := eraseDups_length_le (as.filter (fun b => !b == a))
    have h2 := List.length_filter_le (fun b => !b == a) as
    have hf : (as.filter (fun b => !b == a)).length = as.length ↔ a ∉ as := by
      rw [List.length_filter_eq_length_iff]
      constructor
      · intro h ha
        have := h a ha
        simp at this
      · intro h b hb
        have : b ≠ a := fun e => h (e ▸ hb)
        simp [this]
    simp only [List.length_cons]
    constructor
    · intro h
      have hlen : (as.filter (fun b => !b == a)).length = as.length := by omega
      have hna := hf.mp hlen
      refine ⟨hna, ?_⟩
      have hfe : as.filter (fun b => !b == a) = as := by
        rw [List.filter_eq_self]
        intro b hb
        have : b ≠ a := fun e => hna (e ▸ hb)
        simp [this]
      have ih := eraseDups_length_eq_iff as
      rw [hfe] at h
      exact ih.mp (by omega)
    · intro ⟨hna, hnd⟩
      have hfe : as.filter (fun b => !b == a) = as := by
        rw [List.filter_eq_self]
        intro b hb
        have : b ≠ a := fun e => hna (e ▸ hb)
        simp [this]
      rw [hfe]
      have ih := eraseDups_length_eq_iff as
      have := ih.mpr hnd
      omega
termination_by l.length

/-! ### the graph of `is_connected` -/

theorem mem_graphEdges (m : MRS) (a b : Var) :
    (a, b) ∈ m.graphEdges ↔ ∃ p ∈ m.preds, a = p.1 ∧
      (b = p.2.label ∨ p.2.iv = some b ∨
        ∃ arg ∈ p.2.outArgs none, b = (m.hcmap arg.2).getD arg.2 ∧ b ∈ m.graphNodes) := by
  unfold MRS.graphEdges
  rw [List.mem_flatMap]
  constructor
  · rintro ⟨p, hp, h⟩
    refine ⟨p, hp, ?_⟩
    rw [List.mem_append, List.mem_append] at h
    rcases h with (h | h) | h
    · simp only [List.mem_singleton, Prod.mk.injEq] at h
      exact ⟨h.1, Or.inl h.2⟩
    · cases hiv : p.2.iv with
      | none => rw [hiv] at h; simp at h
      | some v =>
        rw [hiv] at h
        simp only [List.mem_singleton, Prod.mk.injEq] at h
        exact ⟨h.1, Or.inr (Or.inl (by rw [h.2]))⟩
    · simp only [List.mem_filterMap] at h
      obtain ⟨arg, harg, h⟩ := h
      by_cases hmem : (m.hcmap arg.2).getD arg.2 ∈ m.graphNodes
      · rw [if_pos hmem] at h
        simp only [Option.some.injEq, Prod.mk.injEq] at h
        exact ⟨h.1.symm, Or.inr (Or.inr ⟨arg, harg, h.2.symm, h.2 ▸ hmem⟩)⟩
      · rw [if_neg hmem] at h
        simp at h
  · rintro ⟨p, hp, ha, h⟩
    refine ⟨p, hp, ?_⟩
    rw [List.mem_append, List.mem_append]
    rcases h with h | h | ⟨arg, harg, hb, hmem⟩
    · refine Or.inl (Or.inl ?_)
      simp [ha, h]
    · refine Or.inl (Or.inr ?_)
      simp [h, ha]
    · refine Or.inr ?_
      simp only [List.mem_filterMap]
      refine ⟨arg, harg, ?_⟩
      rw [← hb, if_pos hmem, ha]

/-! ### representatives -/

section Reps
variable {ι : Type} {π : Type} [DecidableEq ι]

theorem mem_insertBy (key : π → Nat × Nat) (x y : π) (l : List π) :
    y ∈ insertBy key x l ↔ y = x ∨ y ∈ l := by
  induction l with
  | nil => simp [insertBy]
  | cons z zs ih =>
    unfold insertBy
    split
    · simp
    · simp only [List.mem_cons, ih]
      constructor
      · rintro (h | h | h)
        · exact Or.inr (Or.inl h)
        · exact Or.inl h
        · exact Or.inr (Or.inr h)
      · rintro (h | h | h)
        · exact Or.inr (Or.inl h)
        · exact Or.inl h
        · exact Or.inr (Or.inr h)

theorem mem_sortBy (key : π → Nat × Nat) (y : π) (l : List π) : y ∈ sortBy key l ↔ y ∈ l := by
  induction l with
  | nil => simp [sortBy]
  | cons x xs ih => simp [sortBy, mem_insertBy, ih]

theorem sortBy_ne_nil (key : π → Nat × Nat) (l : List π) (h : l ≠ []) : sortBy key l ≠ [] := by
  cases l with
  | nil => exact absurd rfl h
  | cons x xs =>
    intro hnil
    have : x ∈ sortBy key (x :: xs) := (mem_sortBy key x _).mpr (by simp)
    rw [hnil] at this
    simp at this

theorem candidates_subset (pid : π → ι) (args : π → List ι) (descIds : ι → List ι)
    (scope : List π) (p : π) (h : p ∈ candidates pid args descIds scope) : p ∈ scope := by
  unfold candidates at h
  split at h
  · exact h
  · simp only [List.mem_map, List.mem_filter] at h
    obtain ⟨⟨q, i⟩, ⟨hz, _⟩, rfl⟩ := h
    rw [List.mem_zipIdx_iff_getElem?] at hz
    exact List.mem_iff_getElem?.mpr ⟨i, hz⟩

/-- position `i` takes position `j ≠ i` of the same scope, or one of `j`'s scopal
descendants, as a non-scopal argument. -/
def Blocks (pid : π → ι) (args : π → List ι) (descIds : ι → List ι) (scope : List π)
    (i j : Nat) : Prop :=
  ∃ p q, scope[i]? = some p ∧ scope[j]? = some q ∧ j ≠ i ∧
    (pid q ∈ args p ∨ ∃ x ∈ args p, x ∈ descIds (pid q))

theorem blocked_iff (pid : π → ι) (args : π → List ι) (descIds : ι → List ι)
    (scope : List π) (i : Nat) (p : π) (hp : scope[i]? = some p) :
    blocked pid args descIds scope i p = true ↔ ∃ j, Blocks pid args descIds scope i j := by
  unfold blocked Blocks intersects
  simp only [Bool.or_eq_true, List.any_eq_true, List.mem_map, List.mem_eraseIdx_iff_getElem?,
    decide_eq_true_eq]
  constructor
  · rintro (⟨x, hx, q, ⟨j, hj, hq⟩, rfl⟩ | ⟨y, ⟨q, ⟨j, hj, hq⟩, rfl⟩, x, hx, hxd⟩)
    · exact ⟨j, p, q, hp, hq, hj, Or.inl hx⟩
    · exact ⟨j, p, q, hp, hq, hj, Or.inr ⟨x, hx, hxd⟩⟩
  · rintro ⟨j, p', q, hp', hq, hj, h⟩
    have : p' = p := by rw [hp] at hp'; exact (Option.some.inj hp').symm
    subst this
    rcases h with h | ⟨x, hx, hxd⟩
    · exact Or.inl ⟨pid q, h, q, ⟨j, hj, hq⟩, rfl⟩
    · exact Or.inr ⟨pid q, ⟨q, ⟨j, hj, hq⟩, rfl⟩, x, hx, hxd⟩

/-- a non-empty scope whose blocking relation admits a rank function (i.e. is
acyclic) has a candidate representative. -/
theorem candidates_ne_nil (pid : π → ι) (args : π → List ι) (descIds : ι → List ι)
    (scope : List π) (hne : scope ≠ []) (rank : Nat → Nat)
    (hacyc : ∀ i j, Blocks pid args descIds scope i j → rank j < rank i) :
    candidates pid args descIds scope ≠ [] := by
  unfold candidates
  split
  · exact hne
  · intro hnil
    rw [List.map_eq_nil_iff, List.filter_eq_nil_iff] at hnil
    have hall : ∀ i p, scope[i]? = some p → blocked pid args descIds scope i p = true := by
      intro i p hp
      have := hnil (p, i) (List.mem_zipIdx_iff_getElem?.mpr hp)
      simpa using this
    have hdesc : ∀ n i, i < scope.length → rank i = n → False := by
      intro n
      induction n using Nat.strongRecOn with
      | _ n ih =>
        intro i hi hr
        have hp : scope[i]? = some scope[i] := List.getElem?_eq_getElem hi
        obtain ⟨j, hb⟩ := (blocked_iff pid args descIds scope i _ hp).mp (hall i _ hp)
        have hlt := hacyc i j hb
        obtain ⟨_, q, _, hq, _⟩ := hb
        have hj : j < scope.length := by
          rcases List.getElem?_eq_some_iff.mp hq with ⟨h, _⟩
          exact h
        exact ih (rank j) (hr ▸ hlt) j hj rfl
    cases scope with
    | nil => exact hne rfl
    | cons x xs => exact hdesc (rank 0) 0 (by simp) rfl

end Reps

/-! ### EP ids are distinct -/

theorem uniquify_spec (is : List Var) :
    ∀ (n : Nat) (seen : List Var), (∀ i ∈ is, i.sort ≠ "_") →
      (∀ s ∈ seen, s.sort = "_" → s.vid < n) →
      (uniquify n seen is).Nodup ∧ (∀ x ∈ uniquify n seen is, x ∉ seen) := by
  induction is with
  | nil => intro n seen _ _; simp [uniquify]
  | cons i is ih =>
    intro n seen hs hseen
    have hi : i.sort ≠ "_" := hs i (by simp)
    have his : ∀ j ∈ is, j.sort ≠ "_" := fun j hj => hs j (by simp [hj])
    unfold uniquify
    split
    · -- repeated id: replaced by `_n`
      have hnew : (⟨"_", n⟩ : Var) ∉ seen := fun h => Nat.lt_irrefl n (hseen _ h rfl)
      have hseen' : ∀ s ∈ (⟨"_", n⟩ : Var) :: seen, s.sort = "_" → s.vid < n + 1 := by
        intro s hs' hsort
        rcases List.mem_cons.mp hs' with rfl | h
        · exact Nat.lt_succ_self n
        · exact Nat.lt_succ_of_lt (hseen s h hsort)
      obtain ⟨hnd, hdis⟩ := ih (n + 1) (⟨"_", n⟩ :: seen) his hseen'
      refine ⟨List.nodup_cons.mpr ⟨fun h => hdis _ h (by simp), hnd⟩, ?_⟩
      intro x hx
      rcases List.mem_cons.mp hx with rfl | h
      · exact hnew
      · exact fun hm => hdis x h (by simp [hm])
    · rename_i hnot
      have hseen' : ∀ s ∈ i :: seen, s.sort = "_" → s.vid < n := by
        intro s hs' hsort
        rcases List.mem_cons.mp hs' with rfl | h
        · exact absurd hsort hi
        · exact hseen s h hsort
      obtain ⟨hnd, hdis⟩ := ih n (i :: seen) his hseen'
      refine ⟨List.nodup_cons.mpr ⟨fun h => hdis _ h (by simp), hnd⟩, ?_⟩
      intro x hx
      rcases List.mem_cons.mp hx with rfl | h
      · exact hnot
      · exact fun hm => hdis x h (by simp [hm])

/-- EP ids are pairwise distinct whenever every predication has an intrinsic argument
whose sort is not `_` (the representation invariant the positional model relies on). -/
theorem ids_nodup (m : MRS) (h : ∀ e ∈ m.rels, ∃ v, e.iv = some v ∧ v.sort ≠ "_") :
    m.ids.Nodup := by
  unfold MRS.ids
  refine (uniquify_spec _ _ [] ?_ (by simp)).1
  intro i hi
  simp only [List.mem_map] at hi
  obtain ⟨e, he, rfl⟩ := hi
  obtain ⟨v, hv, hs⟩ := h e he
  unfold EP.baseId
  rw [hv]
  simp only [Option.getD_some]
  split
  · show ("q" : String) ≠ "_"
    decide
  · exact hs

theorem idsDistinct_of_ivs (m : MRS) (h : ∀ e ∈ m.rels, ∃ v, e.iv = some v ∧ v.sort ≠ "_") :
    m.idsDistinct = true := by
  unfold MRS.idsDistinct
  rw [beq_iff_eq, eraseDups_length_eq_iff]
  exact ids_nodup m h

end Verif.Sem
