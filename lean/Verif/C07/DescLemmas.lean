/- C07 helper lemmas (round 6): what `scope._descendants` puts into its lists.

`descVisit` (the model of `_descendants`) is sound on EVERY input — each listed predication is a
scopal descendant (one or more scopal steps away) — and lists every DIRECT scopal successor of
every visited id, cycles or not. -/
import Verif.Common.Sem
import Verif.Common.SemLemmas
namespace Verif.Sem

section DescSound
variable {ι lam π : Type} [DecidableEq ι] [DecidableEq lam]

/-- one scopal step: `p` is a member of a scope selected by a scopal argument of `i`. -/
def ScSucc (scargs : List (ι × List lam)) (scopes : List (lam × List π)) (i : ι) (p : π) : Prop :=
  ∃ labels, dlookup i scargs = some labels ∧ ∃ l ∈ labels, p ∈ (dlookup l scopes).getD []

/-- scopal descendant: one or more scopal steps. -/
inductive ScDesc (pid : π → ι) (scargs : List (ι × List lam)) (scopes : List (lam × List π)) :
    ι → π → Prop
  | direct {i : ι} {p : π} : ScSucc scargs scopes i p → ScDesc pid scargs scopes i p
  | step {i : ι} {q p : π} : ScSucc scargs scopes i q → ScDesc pid scargs scopes (pid q) p →
      ScDesc pid scargs scopes i p

/-- every entry of a memo table lists scopal descendants of its key only. -/
def DescSoundInv (pid : π → ι) (scargs : List (ι × List lam)) (scopes : List (lam × List π))
    (ds : List (ι × List π)) : Prop :=
  ∀ e ∈ ds, ∀ p ∈ e.2, ScDesc pid scargs scopes e.1 p

theorem mem_dset_elim {κ ν : Type} [DecidableEq κ] (k : κ) (v : ν) (d : List (κ × ν)) (e : κ × ν)
    (h : e ∈ dset k v d) : e ∈ d ∨ e = (k, v) := by
  induction d with
  | nil => simp only [dset, List.mem_singleton] at h; exact Or.inr h
  | cons x d ih =>
    obtain ⟨k', v'⟩ := x
    simp only [dset] at h
    split at h
    · rename_i hk
      rcases List.mem_cons.1 h with h | h
      · exact Or.inr (by rw [h, hk])
      · exact Or.inl (List.mem_cons_of_mem _ h)
    · rcases List.mem_cons.1 h with h | h
      · exact Or.inl (h ▸ List.mem_cons_self)
      · rcases ih h with h | h
        · exact Or.inl (List.mem_cons_of_mem _ h)
        · exact Or.inr h

theorem mem_dextend_elim {κ β : Type} [DecidableEq κ] (k : κ) (xs : List β) (d : List (κ × List β))
    (e : κ × List β) (h : e ∈ dextend k xs d) :
    e ∈ d ∨ ∃ ys, (k, ys) ∈ d ∧ e = (k, ys ++ xs) := by
  induction d with
  | nil => simp [dextend] at h
  | cons x d ih =>
    obtain ⟨k', ys⟩ := x
    simp only [dextend] at h
    split at h
    · rename_i hk
      rcases List.mem_cons.1 h with h | h
      · exact Or.inr ⟨ys, hk ▸ List.mem_cons_self, by rw [h, hk]⟩
      · exact Or.inl (List.mem_cons_of_mem _ h)
    · rcases List.mem_cons.1 h with h | h
      · exact Or.inl (h ▸ List.mem_cons_self)
      · rcases ih h with h | ⟨zs, hz, he⟩
        · exact Or.inl (List.mem_cons_of_mem _ h)
        · exact Or.inr ⟨zs, List.mem_cons_of_mem _ hz, he⟩

theorem DescSoundInv.dextend {pid : π → ι} {scargs : List (ι × List lam)}
    {scopes : List (lam × List π)} {ds : List (ι × List π)}
    (h : DescSoundInv pid scargs scopes ds) (k : ι) (xs : List π)
    (hx : ∀ p ∈ xs, ScDesc pid scargs scopes k p) :
    DescSoundInv pid scargs scopes (Verif.Sem.dextend k xs ds) := by
  intro e he p hp
  rcases mem_dextend_elim k xs ds e he with he | ⟨ys, hy, rfl⟩
  · exact h e he p hp
  · rcases List.mem_append.1 hp with hp | hp
    · exact h _ hy p hp
    · exact hx p hp

/-- soundness of one `_descendants` call: a sound memo table stays sound. -/
theorem descVisit_sound (pid : π → ι) (scargs : List (ι × List lam)) (scopes : List (lam × List π)) :
    ∀ (fuel : Nat) (descs descs' : List (ι × List π)) (id : ι),
      descVisit pid scargs scopes fuel descs id = .ok descs' →
      DescSoundInv pid scargs scopes descs → DescSoundInv pid scargs scopes descs' := by
  intro fuel
  induction fuel with
  | zero => intro descs descs' id h; simp [descVisit] at h
  | succ fuel ih =>
    intro descs descs' id h hinv
    rw [descVisit_succ] at h
    split at h
    · simp only [Except.ok.injEq] at h; exact h ▸ hinv
    · cases hlab : dlookup id scargs with
      | none => rw [hlab] at h; simp at h
      | some labels =>
        rw [hlab] at h
        simp only [] at h
        have htargets : ∀ p ∈ labels.flatMap (fun l => (dlookup l scopes).getD []),
            ScSucc scargs scopes id p := by
          intro p hp
          obtain ⟨l, hl, hpl⟩ := List.mem_flatMap.1 hp
          exact ⟨labels, hlab, l, hl, hpl⟩
        have hfold : ∀ (targets : List π), (∀ p ∈ targets, ScSucc scargs scopes id p) →
            ∀ ds ds' : List (ι × List π),
              targets.foldlM (fun ds p =>
                match descVisit pid scargs scopes fuel (Verif.Sem.dextend id [p] ds) (pid p) with
                | .error e => .error e
                | .ok ds2 =>
                  match dlookup (pid p) ds2 with
                  | none => .error .keyError
                  | some sub => .ok (Verif.Sem.dextend id sub ds2)) ds = Except.ok ds' →
              DescSoundInv pid scargs scopes ds → DescSoundInv pid scargs scopes ds' := by
          intro targets
          induction targets with
          | nil =>
            intro _ ds ds' h1 h2
            simp only [List.foldlM_nil, pure, Except.pure, Except.ok.injEq] at h1
            exact h1 ▸ h2
          | cons p targets iht =>
            intro htg ds ds' h1 h2
            have hsp : ScSucc scargs scopes id p := htg p List.mem_cons_self
            rw [List.foldlM_cons] at h1
            simp only [bind, Except.bind] at h1
            cases hv : descVisit pid scargs scopes fuel (Verif.Sem.dextend id [p] ds) (pid p) with
            | error e => rw [hv] at h1; simp at h1
            | ok ds2 =>
              rw [hv] at h1
              simp only [] at h1
              have hinv1 : DescSoundInv pid scargs scopes (Verif.Sem.dextend id [p] ds) :=
                h2.dextend id [p] (by
                  intro q hq
                  rw [List.mem_singleton.1 hq]
                  exact ScDesc.direct hsp)
              have hinv2 := ih _ _ _ hv hinv1
              cases hsub : dlookup (pid p) ds2 with
              | none => rw [hsub] at h1; simp at h1
              | some sub =>
                rw [hsub] at h1
                simp only [] at h1
                have hsubmem : (pid p, sub) ∈ ds2 := dlookup_mem hsub
                have hinv3 : DescSoundInv pid scargs scopes (Verif.Sem.dextend id sub ds2) :=
                  hinv2.dextend id sub (by
                    intro q hq
                    exact ScDesc.step hsp (hinv2 _ hsubmem q hq))
                exact iht (fun q hq => htg q (List.mem_cons_of_mem _ hq)) _ _ h1 hinv3
        refine hfold _ htargets _ _ h ?_
        intro e he p hp
        rcases mem_dset_elim id [] descs e he with he | rfl
        · exact hinv e he p hp
        · exact absurd hp List.not_mem_nil

/-- soundness of `scope.descendants`: every listed predication is a scopal descendant of its key. -/
theorem descendantsOf_sound (pid : π → ι) (ids : List ι) (scargs : List (ι × List lam))
    (scopes : List (lam × List π)) (r : List (ι × List π))
    (h : descendantsOf pid ids scargs scopes = .ok r) :
    ∀ e ∈ r, ∀ p ∈ e.2, ScDesc pid scargs scopes e.1 p := by
  unfold descendantsOf at h
  have hfold : ∀ (is : List ι) (ds ds' : List (ι × List π)),
      is.foldlM (fun ds i => descVisit pid scargs scopes (ids.length + 1) ds i) ds = Except.ok ds' →
      DescSoundInv pid scargs scopes ds → DescSoundInv pid scargs scopes ds' := by
    intro is
    induction is with
    | nil =>
      intro ds ds' h1 h2
      simp only [List.foldlM_nil, pure, Except.pure, Except.ok.injEq] at h1
      exact h1 ▸ h2
    | cons i is iht =>
      intro ds ds' h1 h2
      rw [List.foldlM_cons] at h1
      simp only [bind, Except.bind] at h1
      cases hv : descVisit pid scargs scopes (ids.length + 1) ds i with
      | error e => rw [hv] at h1; simp at h1
      | ok ds1 =>
        rw [hv] at h1
        exact iht _ _ h1 (descVisit_sound pid scargs scopes _ _ _ _ hv h2)
  exact hfold ids [] r h (fun e he => absurd he List.not_mem_nil)

end DescSound

/-! ### every direct scopal successor is listed (cycles or not) -/

section DescDirect
variable {ι lam π : Type} [DecidableEq ι] [DecidableEq lam]

/-- memo tables only grow: every key keeps an entry, and entries only get longer. -/
def DescMono (ds ds' : List (ι × List π)) : Prop :=
  ∀ k ps, dlookup k ds = some ps → ∃ ps', dlookup k ds' = some ps' ∧ ∀ p ∈ ps, p ∈ ps'

/-- the entry of `k` lists every direct scopal successor of `k`. -/
def DirectOK (scargs : List (ι × List lam)) (scopes : List (lam × List π))
    (ds : List (ι × List π)) (k : ι) : Prop :=
  ∃ ps, dlookup k ds = some ps ∧ ∀ p, ScSucc scargs scopes k p → p ∈ ps

theorem DescMono.refl (ds : List (ι × List π)) : DescMono ds ds :=
  fun _ ps h => ⟨ps, h, fun _ hp => hp⟩

theorem DescMono.trans {a b c : List (ι × List π)} (h1 : DescMono a b) (h2 : DescMono b c) :
    DescMono a c := by
  intro k ps h
  obtain ⟨ps', h', hs'⟩ := h1 k ps h
  obtain ⟨ps'', h'', hs''⟩ := h2 k ps' h'
  exact ⟨ps'', h'', fun p hp => hs'' p (hs' p hp)⟩

theorem DirectOK.mono {scargs : List (ι × List lam)} {scopes : List (lam × List π)}
    {ds ds' : List (ι × List π)} {k : ι} (h : DirectOK scargs scopes ds k) (hm : DescMono ds ds') :
    DirectOK scargs scopes ds' k := by
  obtain ⟨ps, hl, hall⟩ := h
  obtain ⟨ps', hl', hs⟩ := hm k ps hl
  exact ⟨ps', hl', fun p hp => hs p (hall p hp)⟩

theorem dlookup_dextend (k id : ι) (xs : List π) (d : List (ι × List π)) :
    dlookup k (dextend id xs d) = if k = id then (dlookup id d).map (· ++ xs) else dlookup k d := by
  induction d with
  | nil => simp [dextend, dlookup]
  | cons x d ih =>
    obtain ⟨k', ys⟩ := x
    simp only [dextend]
    by_cases h1 : k' = id
    · rw [if_pos h1]
      simp only [dlookup]
      by_cases h2 : k = id
      · rw [if_pos h2, if_pos (h1.trans h2.symm), if_pos h1]; rfl
      · rw [if_neg h2, if_neg (fun h => h2 (h.symm.trans h1)), if_neg (fun h => h2 (h.symm.trans h1))]
    · rw [if_neg h1]
      simp only [dlookup]
      by_cases h2 : k = id
      · rw [if_pos h2, if_neg (fun h => h1 (h.trans h2)), if_neg h1]
        rw [ih, if_pos h2]
      · rw [if_neg h2]
        by_cases h3 : k' = k
        · rw [if_pos h3, if_pos h3]
        · rw [if_neg h3, if_neg h3, ih, if_neg h2]

theorem dlookup_dset (k id : ι) (v : List π) (d : List (ι × List π)) :
    dlookup k (dset id v d) = if k = id then some v else dlookup k d := by
  induction d with
  | nil =>
    simp only [dset, dlookup]
    by_cases h : k = id
    · rw [if_pos h, if_pos h.symm]
    · rw [if_neg h, if_neg (fun h' => h h'.symm)]
  | cons x d ih =>
    obtain ⟨k', ys⟩ := x
    simp only [dset]
    by_cases h1 : k' = id
    · rw [if_pos h1]
      simp only [dlookup]
      by_cases h2 : k = id
      · rw [if_pos h2, if_pos (h1.trans h2.symm)]
      · rw [if_neg h2, if_neg (fun h => h2 (h.symm.trans h1)), if_neg (fun h => h2 (h.symm.trans h1))]
    · rw [if_neg h1]
      simp only [dlookup]
      by_cases h3 : k' = k
      · rw [if_pos h3, if_pos h3, if_neg (fun h => h1 (h3.trans h))]
      · rw [if_neg h3, if_neg h3, ih]

theorem descMono_dextend (id : ι) (xs : List π) (d : List (ι × List π)) :
    DescMono d (dextend id xs d) := by
  intro k ps h
  rw [dlookup_dextend]
  by_cases hk : k = id
  · subst hk
    rw [if_pos rfl, h]
    exact ⟨ps ++ xs, rfl, fun p hp => List.mem_append_left _ hp⟩
  · rw [if_neg hk]
    exact ⟨ps, h, fun p hp => hp⟩

/-- one `_descendants` call: the table only grows, and every key that is new afterwards lists all
its direct scopal successors. -/
theorem descVisit_direct (pid : π → ι) (scargs : List (ι × List lam)) (scopes : List (lam × List π)) :
    ∀ (fuel : Nat) (descs descs' : List (ι × List π)) (id : ι),
      descVisit pid scargs scopes fuel descs id = .ok descs' →
      DescMono descs descs' ∧
      ∀ k, (dlookup k descs').isSome → (dlookup k descs).isSome = false →
        DirectOK scargs scopes descs' k := by
  intro fuel
  induction fuel with
  | zero => intro descs descs' id h; simp [descVisit] at h
  | succ fuel ih =>
    intro descs descs' id h
    rw [descVisit_succ] at h
    split at h
    · simp only [Except.ok.injEq] at h
      subst h
      refine ⟨DescMono.refl _, ?_⟩
      intro k h1 h2
      rw [h2] at h1
      exact absurd h1 (by simp)
    · rename_i hnot
      cases hlab : dlookup id scargs with
      | none => rw [hlab] at h; simp at h
      | some labels =>
        rw [hlab] at h
        simp only [] at h
        have hfold : ∀ (targets : List π) (ds ds' : List (ι × List π)),
              targets.foldlM (fun ds p =>
                match descVisit pid scargs scopes fuel (dextend id [p] ds) (pid p) with
                | .error e => .error e
                | .ok ds2 =>
                  match dlookup (pid p) ds2 with
                  | none => .error .keyError
                  | some sub => .ok (dextend id sub ds2)) ds = Except.ok ds' →
              (dlookup id ds).isSome →
              DescMono ds ds' ∧
              (∀ p ∈ targets, ∃ ps, dlookup id ds' = some ps ∧ p ∈ ps) ∧
              (∀ k, (dlookup k ds').isSome → (dlookup k ds).isSome = false →
                DirectOK scargs scopes ds' k) := by
          intro targets
          induction targets with
          | nil =>
            intro ds ds' h1 _
            simp only [List.foldlM_nil, pure, Except.pure, Except.ok.injEq] at h1
            subst h1
            refine ⟨DescMono.refl _, fun p hp => absurd hp List.not_mem_nil, ?_⟩
            intro k h1 h2
            rw [h2] at h1
            exact absurd h1 (by simp)
          | cons p targets iht =>
            intro ds ds' h1 hid
            rw [List.foldlM_cons] at h1
            simp only [bind, Except.bind] at h1
            cases hv : descVisit pid scargs scopes fuel (dextend id [p] ds) (pid p) with
            | error e => rw [hv] at h1; simp at h1
            | ok ds2 =>
              rw [hv] at h1
              simp only [] at h1
              cases hsub : dlookup (pid p) ds2 with
              | none => rw [hsub] at h1; simp at h1
              | some sub =>
                rw [hsub] at h1
                simp only [] at h1
                obtain ⟨m12, new2⟩ := ih _ _ _ hv
                have m01 : DescMono ds (dextend id [p] ds) := descMono_dextend id [p] ds
                have m23 : DescMono ds2 (dextend id sub ds2) := descMono_dextend id sub ds2
                -- p is listed under id in ds1, hence later
                obtain ⟨ps0, hps0⟩ := Option.isSome_iff_exists.1 hid
                have hp1 : dlookup id (dextend id [p] ds) = some (ps0 ++ [p]) := by
                  rw [dlookup_dextend, if_pos rfl, hps0]; rfl
                have hid3 : (dlookup id (dextend id sub ds2)).isSome := by
                  obtain ⟨q, hq, _⟩ := (m12.trans m23) id _ hp1
                  rw [hq]; rfl
                obtain ⟨m3', tg', new'⟩ := iht _ _ h1 hid3
                have m03 : DescMono ds (dextend id sub ds2) := (m01.trans m12).trans m23
                refine ⟨m03.trans m3', ?_, ?_⟩
                · intro q hq
                  rcases List.mem_cons.1 hq with rfl | hq
                  · obtain ⟨ps', hl', hs'⟩ := ((m12.trans m23).trans m3') id _ hp1
                    exact ⟨ps', hl', hs' q (List.mem_append_right _ (List.mem_singleton.2 rfl))⟩
                  · exact tg' q hq
                · intro k hk' hk
                  by_cases hk3 : (dlookup k (dextend id sub ds2)).isSome
                  · -- k appeared during the recursive call
                    have hkne : k ≠ id := by
                      intro he
                      rw [he] at hk
                      rw [hk] at hid
                      exact absurd hid (by simp)
                    have hk2 : (dlookup k ds2).isSome := by
                      rw [dlookup_dextend, if_neg hkne] at hk3
                      exact hk3
                    have hk1 : (dlookup k (dextend id [p] ds)).isSome = false := by
                      rw [dlookup_dextend, if_neg hkne]
                      exact hk
                    exact ((new2 k hk2 hk1).mono m23).mono m3'
                  · exact new' k hk' (by simpa using hk3)
        have hid0 : (dlookup id (dset id ([] : List π) descs)).isSome := by
          rw [dlookup_dset, if_pos rfl]; rfl
        obtain ⟨m0', tg, new⟩ := hfold _ _ _ h hid0
        have m00 : DescMono descs (dset id [] descs) := by
          intro k ps hk
          rw [dlookup_dset]
          by_cases hkid : k = id
          · subst hkid
            rw [hk] at hnot
            exact absurd rfl hnot
          · rw [if_neg hkid]
            exact ⟨ps, hk, fun p hp => hp⟩
        refine ⟨m00.trans m0', ?_⟩
        intro k hk' hk
        by_cases hkid : k = id
        · subst hkid
          obtain ⟨ps, hps⟩ := Option.isSome_iff_exists.1 hk'
          refine ⟨ps, hps, ?_⟩
          rintro p ⟨labels', hl', l, hl, hp⟩
          rw [hlab] at hl'
          simp only [Option.some.injEq] at hl'
          subst hl'
          obtain ⟨ps', hps', hpm⟩ := tg p (List.mem_flatMap.2 ⟨l, hl, hp⟩)
          rw [hps] at hps'
          simp only [Option.some.injEq] at hps'
          exact hps' ▸ hpm
        · refine new k hk' ?_
          rw [dlookup_dset, if_neg hkid]
          exact hk

/-- `scope.descendants`: the list of every predication contains all its direct scopal successors —
on every input, cyclic or not. -/
theorem descendantsOf_direct (pid : π → ι) (ids : List ι) (scargs : List (ι × List lam))
    (scopes : List (lam × List π)) (r : List (ι × List π))
    (h : descendantsOf pid ids scargs scopes = .ok r) :
    ∀ k, (dlookup k r).isSome → DirectOK scargs scopes r k := by
  unfold descendantsOf at h
  have hfold : ∀ (is : List ι) (ds ds' : List (ι × List π)),
      is.foldlM (fun ds i => descVisit pid scargs scopes (ids.length + 1) ds i) ds = Except.ok ds' →
      (∀ k, (dlookup k ds).isSome → DirectOK scargs scopes ds k) →
      (∀ k, (dlookup k ds').isSome → DirectOK scargs scopes ds' k) := by
    intro is
    induction is with
    | nil =>
      intro ds ds' h1 h2
      simp only [List.foldlM_nil, pure, Except.pure, Except.ok.injEq] at h1
      exact h1 ▸ h2
    | cons i is iht =>
      intro ds ds' h1 h2
      rw [List.foldlM_cons] at h1
      simp only [bind, Except.bind] at h1
      cases hv : descVisit pid scargs scopes (ids.length + 1) ds i with
      | error e => rw [hv] at h1; simp at h1
      | ok ds1 =>
        rw [hv] at h1
        obtain ⟨mono, new⟩ := descVisit_direct pid scargs scopes _ _ _ _ hv
        refine iht _ _ h1 ?_
        intro k hk
        by_cases hk0 : (dlookup k ds).isSome
        · exact (h2 k hk0).mono mono
        · exact new k hk (by simpa using hk0)
  exact hfold ids [] r h (fun k hk => absurd hk (by simp [dlookup]))

end DescDirect

end Verif.Sem
