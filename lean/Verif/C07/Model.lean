/-
C07 — model of the well-formedness tests and the scope structure.

The semantic core (structures, BFS, components, scopes, conjoin, descendants,
representatives, well-formedness tests, DMRS.scopes) lives in `Verif.Common.Sem`
because C04–C06 reuse it; this file adds what only C07 observes.
-/
import Verif.Common.Sem

namespace Verif.C07
open Verif.Sem

/-- `scope.conjoin(m.scopes()[1], leqs)` -/
def conjoinMRS (m : MRS) (leqs : List (Var × Var)) : Except Err (List (Var × List Pred)) :=
  conjoin m.scopeMap leqs

/-- `m.scopal_arguments(scopes=m.scopes()[1])` as (id, [(role, relation, label)]) -/
def scopalArguments (m : MRS) : List (Var × List (Role × String × Var)) :=
  m.preds.map (fun p => (p.1, m.scopalArgsOf (dkeys m.scopeMap) p.2))

/-- the three conjuncts and their conjunction, as the harness observes them -/
structure WF where
  connected : Bool
  complete : Bool
  unique : Bool
  ivProperty : Bool
  plausible : Bool
  wellFormed : Bool
deriving DecidableEq, Repr

def wf (m : MRS) : WF :=
  { connected := m.isConnected, complete := m.hasCompleteIVs, unique := m.hasUniqueIVs,
    ivProperty := m.hasIVProperty, plausible := m.plausiblyScopes, wellFormed := m.isWellFormed }

end Verif.C07
