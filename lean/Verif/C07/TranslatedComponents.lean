/-
C07 — SOURCE-TRANSLATION tie, round 4 (TRANSLATOR.md): `delphin.util._connected_components(nodes, edges)` in full.
For EVERY order `ord` in which sets may be iterated (a permutation of its argument) and fuel above the bound of
`bfs_translated` for `symm edges`, the translated function raises `KeyError` exactly when the model's
`connectedComponents` does, and otherwise returns, position by position, duplicate-free components with exactly the
elements of the model's components (`List.Forall₂`); with `SemLemmas.connectedComponents_spec` that is the partition
of `nodes` into the classes of `Reach (adjOf (symm edges))`.
Steps: the dict built by `g = {n: set() for n in nodes}`, `g[n1].add(n2)`, `g[n2].add(n1)` holds the out-neighbours
of `symm edges` (`GInv`, `edge_loop`); the `for n in nodes` loop over `bfs_translated` (`node_loop`).
-/
import Verif.C07.Translated

namespace Verif.C07.Translated
open Verif.PyRt Verif.Sem

abbrev G := Dict Nd (List Nd)

/-- the adjacency dict after the edges `done`: one duplicate-free set per node, nothing else. -/
def GInv (nodes : List Nd) (done : List (Nd × Nd)) (g : G) : Prop :=
  ∀ x, (x ∈ nodes → ∃ l, g.lookup x = some l ∧ l.Nodup ∧ ∀ y, y ∈ l ↔ ((x, y) ∈ done ∨ (y, x) ∈ done)) ∧
       (x ∉ nodes → g.lookup x = none)

def edgeBody (e : Nd × Nd) (g : G) : Except PyErr (ForInStep G) := do
  let g1 ← pyDictModify g e.1 (fun c => pySetAdd c e.2)
  let g2 ← pyDictModify g1 e.2 (fun c => pySetAdd c e.1)
  pure (.yield g2)

theorem init_lookup (x : Nd) : ∀ (ns : List Nd) (d : G),
    ((ns.map (fun n => (n, ([] : List Nd)))).foldl (fun d p => pyDictSet d p.1 p.2) d).lookup x
      = if x ∈ ns then some [] else d.lookup x := by
  intro ns
  induction ns with
  | nil => intro d; simp
  | cons n ns ih =>
    intro d
    simp only [List.map_cons, List.foldl_cons, ih, pyDictSet_lookup, List.mem_cons]
    by_cases h1 : x ∈ ns
    · simp [h1]
    · by_cases h2 : x = n
      · simp [h2]
      · simp [h1, h2]

theorem ginv_init (nodes : List Nd) : GInv nodes [] (pyDictOfList (nodes.map (fun n => (n, ([] : List Nd))))) := by
  intro x
  unfold pyDictOfList
  rw [init_lookup]
  constructor
  · intro hx; exact ⟨[], by simp [hx], List.nodup_nil, by simp⟩
  · intro hx; simp [hx, List.lookup]

theorem edge_ok (nodes : List Nd) (done : List (Nd × Nd)) (g : G) (e : Nd × Nd) (hg : GInv nodes done g)
    (h1 : e.1 ∈ nodes) (h2 : e.2 ∈ nodes) :
    ∃ g', edgeBody e g = .ok (.yield g') ∧ GInv nodes (done ++ [e]) g' := by
  rcases e with ⟨n1, n2⟩
  obtain ⟨l1, hl1, hn1, hm1⟩ := (hg n1).1 h1
  obtain ⟨g1, hg1, hlk1⟩ := (pyDictModify_spec g n1 (fun c => pySetAdd c n2)).2 l1 hl1
  have h2g1 : ∃ l2, g1.lookup n2 = some l2 ∧ l2.Nodup ∧ ∀ y, y ∈ l2 ↔ ((n2, y) ∈ done ∨ (y, n2) ∈ done ∨ (n2 = n1 ∧ y = n2)) := by
    rw [hlk1 n2]
    by_cases h12 : n2 = n1
    · subst h12
      refine ⟨pySetAdd l1 n2, by simp, pySetAdd_nodup _ _ hn1, fun y => ?_⟩
      rw [pySetAdd_mem, hm1 y]; simp [or_assoc]
    · obtain ⟨l2, hl2, hn2, hm2⟩ := (hg n2).1 h2
      have hb : (n2 == n1) = false := by simpa using h12
      refine ⟨l2, by simp [hb, hl2], hn2, fun y => ?_⟩
      rw [hm2 y]; simp [h12]
  obtain ⟨l2, hl2, hn2, hm2⟩ := h2g1
  obtain ⟨g2, hg2, hlk2⟩ := (pyDictModify_spec g1 n2 (fun c => pySetAdd c n1)).2 l2 hl2
  refine ⟨g2, by simp [edgeBody, hg1, hg2, bind, Except.bind, pure, Except.pure], fun x => ⟨fun hx => ?_, fun hx => ?_⟩⟩
  · rw [hlk2 x]
    by_cases hx2 : x = n2
    · subst hx2
      refine ⟨pySetAdd l2 n1, by simp, pySetAdd_nodup _ _ hn2, fun y => ?_⟩
      rw [pySetAdd_mem, hm2 y]
      simp only [List.mem_append, List.mem_singleton, Prod.mk.injEq]
      constructor
      · rintro ((h | h | ⟨h, h'⟩) | h)
        · exact Or.inl (Or.inl h)
        · exact Or.inr (Or.inl h)
        · exact Or.inl (Or.inr ⟨h, h'⟩)
        · exact Or.inr (Or.inr ⟨h, trivial⟩)
      · rintro ((h | ⟨h, h'⟩) | (h | ⟨h, _⟩))
        · exact Or.inl (Or.inl h)
        · exact Or.inl (Or.inr (Or.inr ⟨h, h'⟩))
        · exact Or.inl (Or.inr (Or.inl h))
        · exact Or.inr h
    · have hb : (x == n2) = false := by simpa using hx2
      simp only [hb, Bool.false_eq_true, if_false, hlk1 x]
      by_cases hx1 : x = n1
      · subst hx1
        refine ⟨pySetAdd l1 n2, by simp, pySetAdd_nodup _ _ hn1, fun y => ?_⟩
        rw [pySetAdd_mem, hm1 y]
        simp only [List.mem_append, List.mem_singleton, Prod.mk.injEq]
        constructor
        · rintro ((h | h) | h)
          · exact Or.inl (Or.inl h)
          · exact Or.inr (Or.inl h)
          · exact Or.inl (Or.inr ⟨trivial, h⟩)
        · rintro ((h | ⟨_, h⟩) | (h | ⟨_, h⟩))
          · exact Or.inl (Or.inl h)
          · exact Or.inr h
          · exact Or.inl (Or.inr h)
          · exact absurd h hx2
      · have hb1 : (x == n1) = false := by simpa using hx1
        obtain ⟨l, hl, hn, hm⟩ := (hg x).1 hx
        refine ⟨l, by simp [hb1, hl], hn, fun y => ?_⟩
        rw [hm y]
        simp only [List.mem_append, List.mem_singleton, Prod.mk.injEq]
        constructor
        · rintro (h | h)
          · exact Or.inl (Or.inl h)
          · exact Or.inr (Or.inl h)
        · rintro ((h | ⟨h, _⟩) | (h | ⟨_, h⟩))
          · exact Or.inl h
          · exact absurd h hx1
          · exact Or.inr h
          · exact absurd h hx2
  · have hx2 : x ≠ n2 := fun h => hx (h ▸ h2)
    have hx1 : x ≠ n1 := fun h => hx (h ▸ h1)
    have hb2 : (x == n2) = false := by simpa using hx2
    have hb1 : (x == n1) = false := by simpa using hx1
    rw [hlk2 x, hlk1 x]
    simp [hb1, hb2, (hg x).2 hx]

theorem edge_err (nodes : List Nd) (done : List (Nd × Nd)) (g : G) (e : Nd × Nd) (hg : GInv nodes done g)
    (h : ¬ (e.1 ∈ nodes ∧ e.2 ∈ nodes)) : edgeBody e g = .error .KeyError := by
  rcases e with ⟨n1, n2⟩
  by_cases h1 : n1 ∈ nodes
  · have h2 : n2 ∉ nodes := fun h2 => h ⟨h1, h2⟩
    obtain ⟨l1, hl1, _, _⟩ := (hg n1).1 h1
    obtain ⟨g1, hg1, hlk1⟩ := (pyDictModify_spec g n1 (fun c => pySetAdd c n2)).2 l1 hl1
    have hne : (n2 == n1) = false := by
      have : n2 ≠ n1 := fun e => h2 (e ▸ h1)
      simpa using this
    have : g1.lookup n2 = none := by rw [hlk1 n2]; simp [hne, (hg n2).2 h2]
    have he := (pyDictModify_spec g1 n2 (fun c => pySetAdd c n1)).1 this
    simp [edgeBody, hg1, he, bind, Except.bind]
  · have he := (pyDictModify_spec g n1 (fun c => pySetAdd c n2)).1 ((hg n1).2 h1)
    simp [edgeBody, he, bind, Except.bind]

theorem edge_loop (nodes : List Nd) : ∀ (rest done : List (Nd × Nd)) (g : G), GInv nodes done g →
    (rest.all (fun e => decide (e.1 ∈ nodes) && decide (e.2 ∈ nodes)) = true →
      ∃ g', forIn rest g edgeBody = .ok g' ∧ GInv nodes (done ++ rest) g') ∧
    (rest.all (fun e => decide (e.1 ∈ nodes) && decide (e.2 ∈ nodes)) = false →
      forIn rest g edgeBody = .error .KeyError) := by
  intro rest
  induction rest with
  | nil => intro done g hg; exact ⟨fun _ => ⟨g, rfl, by simpa using hg⟩, fun h => by simp at h⟩
  | cons e rest ih =>
    intro done g hg
    by_cases he : e.1 ∈ nodes ∧ e.2 ∈ nodes
    · obtain ⟨g', hb, hg'⟩ := edge_ok nodes done g e hg he.1 he.2
      have hstep : forIn (e :: rest) g edgeBody = forIn rest g' edgeBody := by
        rw [List.forIn_cons, hb]; rfl
      rw [hstep]
      have := ih (done ++ [e]) g' hg'
      simp only [List.all_cons, he.1, he.2, decide_true, Bool.and_self, Bool.true_and, List.append_assoc,
        List.singleton_append] at this ⊢
      exact this
    · have hb := edge_err nodes done g e hg he
      have hall : (decide (e.1 ∈ nodes) && decide (e.2 ∈ nodes)) = false := by
        cases h1 : decide (e.1 ∈ nodes) <;> cases h2 : decide (e.2 ∈ nodes) <;> simp_all
      refine ⟨fun h => ?_, fun _ => ?_⟩
      · simp [List.all_cons, hall] at h
      · rw [List.forIn_cons, hb]; rfl

/-! ### the `for n in nodes` loop -/

def CompRel (c c' : List Nd) : Prop := c.Nodup ∧ ∀ x, x ∈ c ↔ x ∈ c'

/-- position by position the same sets. -/
inductive CompsRel : List (List Nd) → List (List Nd) → Prop
  | nil : CompsRel [] []
  | cons {c c' : List Nd} {r r' : List (List Nd)} : CompRel c c' → CompsRel r r' → CompsRel (c :: r) (c' :: r')

def nodeBody (fuel : Nat) (ord : Ord) (g : G) (n : Nd) (st : List (List Nd) × List Nd) :
    Except PyErr (ForInStep (List (List Nd) × List Nd)) :=
  if n ∈ st.2 then pure (.yield st)
  else do
    let c ← Verif.Trans.C07.bfs fuel ord g n
    pure (.yield (st.1 ++ [c], pySetUpdate st.2 c))

theorem node_loop (fuel : Nat) (ord : Ord) (g : G) (E : List (Nd × Nd))
    (hbfs : ∀ n, ∃ r, Verif.Trans.C07.bfs fuel ord g n = .ok r ∧ r.Nodup ∧ ∀ x, x ∈ r ↔ x ∈ Sem.bfs E n) :
    ∀ (ns : List Nd) (compsT : List (List Nd)) (seenT seenM : List Nd), (∀ x, x ∈ seenT ↔ x ∈ seenM) →
      ∃ r s, forIn ns (compsT, seenT) (nodeBody fuel ord g) = .ok (compsT ++ r, s) ∧
        CompsRel r (componentsLoop E ns seenM) := by
  intro ns
  induction ns with
  | nil => intro compsT seenT seenM _; exact ⟨[], seenT, by simp; rfl, CompsRel.nil⟩
  | cons n ns ih =>
    intro compsT seenT seenM hs
    by_cases hn : n ∈ seenM
    · have hn' : n ∈ seenT := (hs n).2 hn
      obtain ⟨r, s, hr, hf⟩ := ih compsT seenT seenM hs
      refine ⟨r, s, ?_, by simpa [componentsLoop, hn] using hf⟩
      rw [List.forIn_cons]
      simp only [nodeBody, hn', if_true]
      exact hr
    · have hn' : n ∉ seenT := fun h => hn ((hs n).1 h)
      obtain ⟨c, hc, hcn, hcm⟩ := hbfs n
      have hs' : ∀ x, x ∈ pySetUpdate seenT c ↔ x ∈ Sem.bfs E n ++ seenM := by
        intro x; rw [pySetUpdate_mem, List.mem_append, hs x, hcm x, or_comm]
      obtain ⟨r, s, hr, hf⟩ := ih (compsT ++ [c]) (pySetUpdate seenT c) (Sem.bfs E n ++ seenM) hs'
      refine ⟨c :: r, s, ?_, ?_⟩
      · rw [List.forIn_cons]
        simp only [nodeBody, hn', if_false, hc]
        exact Eq.trans rfl (hr.trans (by simp))
      · simp only [componentsLoop, hn, if_false]
        exact CompsRel.cons ⟨hcn, hcm⟩ hf

theorem length_nodeUniverse (E : List (Nd × Nd)) (s : Nd) : (nodeUniverse E s).length = 1 + 2 * E.length := by
  unfold nodeUniverse
  induction E with
  | nil => rfl
  | cons e E ih =>
    simp only [List.length_cons, List.flatMap_cons, List.length_append, List.length_nil] at ih ⊢
    omega

/-- `util._connected_components(nodes, edges)` (source; sets iterated in ANY order) against the model's
`connectedComponents`: the same `KeyError`, else component-wise the same sets. -/
theorem connected_components_translated (ord : Ord) (hord : ∀ (k : Nat) (l : List Nd), (ord k l).Perm l)
    (nodes : List Nd) (edges : List (Nd × Nd)) (fuel : Nat)
    (hfuel : 2 + ((symm edges).length + 1) * (1 + 2 * (symm edges).length) ≤ fuel) :
    match (connectedComponents nodes edges : Except Sem.Err (List (List Nd))) with
    | .error _ => Verif.Trans.C07.connected_components fuel ord nodes edges = .error .KeyError
    | .ok comps => ∃ r, Verif.Trans.C07.connected_components fuel ord nodes edges = .ok r ∧
        CompsRel r comps := by
  cases edges with
  | nil =>
    refine ⟨nodes.map (fun n => [n]), (connected_components_translated_partial fuel ord nodes).1, ?_⟩
    induction nodes with
    | nil => exact CompsRel.nil
    | cons n ns ih => exact CompsRel.cons ⟨by simp, fun x => Iff.rfl⟩ ih
  | cons e0 es =>
    have hb : (fun (x : Nd × Nd) (__s : G) =>
        (match x with
          | (n1, n2) => do
            let g ← pyDictModify __s n1 fun c_ => pySetAdd c_ n2
            let g ← pyDictModify g n2 fun c_ => pySetAdd c_ n1
            pure (ForInStep.yield g) : Except PyErr (ForInStep G))) = edgeBody := by
      funext x s; rcases x with ⟨a, b⟩; rfl
    have hnb : ∀ (g : G), (fun (n : Nd) (__s : List (List Nd) × List Nd) =>
        (if (!List.contains __s.2 n) = true then do
            let t1_ ← Verif.Trans.C07.bfs fuel ord g n
            pure (ForInStep.yield (__s.1 ++ [t1_], pySetUpdate __s.2 t1_))
          else pure (ForInStep.yield (__s.1, __s.2)) : Except PyErr _)) = nodeBody fuel ord g := by
      intro g; funext n st
      by_cases hn : n ∈ st.2 <;> simp [nodeBody, hn]
    unfold connectedComponents Verif.Trans.C07.connected_components
    simp only [List.isEmpty_cons, Bool.not_false, Bool.not_true, Bool.false_eq_true, if_false]
    have hl := edge_loop nodes (e0 :: es) [] _ (ginv_init nodes)
    by_cases hP : ∀ e ∈ e0 :: es, e.1 ∈ nodes ∧ e.2 ∈ nodes
    case neg =>
      have hall : (e0 :: es).all (fun e => decide (e.1 ∈ nodes) && decide (e.2 ∈ nodes)) = false := by
        cases h : (e0 :: es).all (fun e => decide (e.1 ∈ nodes) && decide (e.2 ∈ nodes)) with
        | false => rfl
        | true => exact absurd (by simpa [List.all_eq_true] using h) hP
      rw [if_neg (by simpa [List.all_eq_true] using hP)]
      show (forIn (e0 :: es) (pyDictOfList (List.map (fun n => (n, ([] : List Nd))) nodes)) edgeBody >>= _) = _
      rw [hl.2 hall]; rfl
    case pos =>
      have hall : (e0 :: es).all (fun e => decide (e.1 ∈ nodes) && decide (e.2 ∈ nodes)) = true := by
        simpa [List.all_eq_true] using hP
      rw [if_pos (by simpa [List.all_eq_true] using hP)]
      obtain ⟨g, hg, hginv⟩ := hl.1 hall
      simp only [List.nil_append] at hginv
      have hadj : ∀ x y, y ∈ pyDictGetD g x [] ↔ y ∈ adjOf (symm (e0 :: es)) x := by
        intro x y
        rw [mem_adjOf, mem_symm, pyDictGetD_lookup]
        by_cases hx : x ∈ nodes
        · obtain ⟨l, hl, _, hm⟩ := (hginv x).1 hx
          rw [hl]; exact hm y
        · rw [(hginv x).2 hx]
          simp only [Option.getD_none, List.not_mem_nil, false_iff, not_or]
          have hin : ∀ a b, (a, b) ∈ e0 :: es → a ∈ nodes ∧ b ∈ nodes := by
            intro a b hab
            have := List.all_eq_true.1 hall (a, b) hab
            simpa using this
          exact ⟨fun h => hx (hin _ _ h).1, fun h => hx (hin _ _ h).2⟩
      have hnd : ∀ x, (pyDictGetD g x []).Nodup := by
        intro x
        rw [pyDictGetD_lookup]
        by_cases hx : x ∈ nodes
        · obtain ⟨l, hl, hn, _⟩ := (hginv x).1 hx
          rw [hl]; exact hn
        · rw [(hginv x).2 hx]; exact List.nodup_nil
      have hne : g ≠ [] := by
        have h0 := List.all_eq_true.1 hall e0 List.mem_cons_self
        have h0' : e0.1 ∈ nodes := by simp at h0; exact h0.1
        obtain ⟨l, hl, _, _⟩ := (hginv e0.1).1 h0'
        intro hg0; rw [hg0] at hl; simp [List.lookup] at hl
      have hbfs : ∀ n, ∃ r, Verif.Trans.C07.bfs fuel ord g n = .ok r ∧ r.Nodup ∧
          ∀ x, x ∈ r ↔ x ∈ Sem.bfs (symm (e0 :: es)) n := by
        intro n
        exact bfs_translated ord hord g (symm (e0 :: es)) n hne hadj hnd fuel (by rw [length_nodeUniverse]; exact hfuel)
      obtain ⟨r, s, hr, hf⟩ := node_loop fuel ord g (symm (e0 :: es)) hbfs nodes [] [] [] (fun x => Iff.rfl)
      refine ⟨r, ?_, hf⟩
      show (forIn (e0 :: es) (pyDictOfList (List.map (fun n => (n, ([] : List Nd))) nodes)) edgeBody >>= _) = _
      rw [hg]
      show (forIn (m := Except PyErr) nodes (([] : List (List Nd)), ([] : List Nd))
          (fun (n : Nd) (__s : List (List Nd) × List Nd) =>
            (if (!List.contains __s.2 n) = true then do
                let t1_ ← Verif.Trans.C07.bfs fuel ord g n
                pure (ForInStep.yield (__s.1 ++ [t1_], pySetUpdate __s.2 t1_))
              else pure (ForInStep.yield (__s.1, __s.2)) : Except PyErr _)) >>= fun s => pure s.1) = _
      rw [hnb g, hr]
      rfl

end Verif.C07.Translated
