/- C07: plausibly_scopes equals the conjunction of its documented tests. -/
import Verif.Common.Sem
import Verif.Common.SemLemmas
namespace Verif.Sem

/-- what one handle-valued argument `lh = (label of its EP, handle)` selects: the handle itself and,
when it is the hi of a handle constraint, that constraint's lo -/
def psContrib (hcm : Var → Option Var) (lh : Var × Var) : List Var :=
  match hcm lh.2 with
  | some lo => [lh.2, lo]
  | none => [lh.2]

/-- `x` has been selected by the top or by one of the arguments `pre` -/
def PsSelected (hcm : Var → Option Var) (t : Var) (pre : List (Var × Var)) (x : Var) : Prop :=
  x = t ∨ ∃ lh ∈ pre, x ∈ psContrib hcm lh

/-- the local tests on one handle-valued argument, given what was selected before it:
it is not the label of its own EP; if it is the hi of a handle constraint, it was not selected before
and the constraint's lo is a label; if it is a label used directly, it was not selected before -/
def PsStepOK (labels : List Var) (hcm : Var → Option Var) (sel : Var → Prop) (lh : Var × Var) : Prop :=
  lh.2 ≠ lh.1 ∧
  (∀ lo, hcm lh.2 = some lo → ¬ sel lh.2 ∧ lo ∈ labels) ∧
  (hcm lh.2 = none → lh.2 ∈ labels → ¬ sel lh.2)

theorem PsStepOK_congr (labels : List Var) (hcm : Var → Option Var) (sel sel' : Var → Prop)
    (lh : Var × Var) (h : ∀ x, sel x ↔ sel' x) :
    PsStepOK labels hcm sel lh ↔ PsStepOK labels hcm sel' lh := by
  unfold PsStepOK
  rw [h lh.2]

theorem psStep_eq_some_iff (labels : List Var) (hcm : Var → Option Var) (seen seen' : List Var)
    (lh : Var × Var) :
    psStep labels hcm seen lh = some seen' ↔
      (PsStepOK labels hcm (fun x => x ∈ seen) lh ∧ seen' = psContrib hcm lh ++ seen) := by
  obtain ⟨l, h⟩ := lh
  simp only [psStep, PsStepOK, psContrib]
  by_cases h1 : h = l
  · simp [h1]
  · cases hh : hcm h with
    | none =>
      by_cases h2 : h ∈ labels <;> by_cases h3 : h ∈ seen <;> simp [h1, h2, h3, eq_comm]
    | some lo =>
      by_cases h2 : lo ∈ labels <;> by_cases h3 : h ∈ seen <;> simp [h1, h2, h3, eq_comm]

/-- generalised fold, from an arbitrary start list: a successful fold passed every local test and
its result contains exactly the start list and the contributions -/
theorem ps_foldGen_of_some (labels : List Var) (hcm : Var → Option Var) :
    ∀ (L : List (Var × Var)) (s0 seen : List Var),
      L.foldlM (psStep labels hcm) s0 = some seen →
      (∀ pre lh post, L = pre ++ lh :: post →
        PsStepOK labels hcm (fun x => x ∈ s0 ∨ ∃ l ∈ pre, x ∈ psContrib hcm l) lh) ∧
      (∀ x, x ∈ seen ↔ x ∈ s0 ∨ ∃ l ∈ L, x ∈ psContrib hcm l) := by
  intro L
  induction L with
  | nil =>
    intro s0 seen h
    have hs : seen = s0 := by
      simp only [List.foldlM_nil, pure] at h
      exact (Option.some.inj h).symm
    subst hs
    refine ⟨?_, ?_⟩
    · intro pre lh post e
      exact absurd e (by simp)
    · intro x; simp
  | cons a L ih =>
    intro s0 seen h
    rw [List.foldlM_cons] at h
    obtain ⟨s1, hs1, hrest⟩ := Option.bind_eq_some_iff.1 h
    obtain ⟨hok, hs1e⟩ := (psStep_eq_some_iff labels hcm s0 s1 a).1 hs1
    obtain ⟨ih1, ih2⟩ := ih s1 seen hrest
    refine ⟨?_, ?_⟩
    · intro pre lh post e
      cases pre with
      | nil =>
        simp only [List.nil_append, List.cons.injEq] at e
        obtain ⟨rfl, _⟩ := e
        refine (PsStepOK_congr labels hcm _ _ _ ?_).1 hok
        intro x; simp
      | cons b pre' =>
        simp only [List.cons_append, List.cons.injEq] at e
        obtain ⟨rfl, e⟩ := e
        refine (PsStepOK_congr labels hcm _ _ _ ?_).1 (ih1 pre' lh post e)
        intro x
        rw [hs1e, List.mem_append]
        simp only [List.mem_cons, exists_eq_or_imp]
        constructor
        · rintro ((h | h) | h)
          · exact Or.inr (Or.inl h)
          · exact Or.inl h
          · exact Or.inr (Or.inr h)
        · rintro (h | h | h)
          · exact Or.inl (Or.inr h)
          · exact Or.inl (Or.inl h)
          · exact Or.inr h
    · intro x
      rw [ih2 x, hs1e, List.mem_append]
      simp only [List.mem_cons, exists_eq_or_imp]
      constructor
      · rintro ((h | h) | h)
        · exact Or.inr (Or.inl h)
        · exact Or.inl h
        · exact Or.inr (Or.inr h)
      · rintro (h | h | h)
        · exact Or.inl (Or.inr h)
        · exact Or.inl (Or.inl h)
        · exact Or.inr h

/-- generalised fold: if every local test passes, the fold succeeds -/
theorem ps_foldGen_some_of (labels : List Var) (hcm : Var → Option Var) :
    ∀ (L : List (Var × Var)) (s0 : List Var),
      (∀ pre lh post, L = pre ++ lh :: post →
        PsStepOK labels hcm (fun x => x ∈ s0 ∨ ∃ l ∈ pre, x ∈ psContrib hcm l) lh) →
      ∃ seen, L.foldlM (psStep labels hcm) s0 = some seen := by
  intro L
  induction L with
  | nil => intro s0 _; exact ⟨s0, rfl⟩
  | cons a L ih =>
    intro s0 htests
    have hok : PsStepOK labels hcm (fun x => x ∈ s0) a := by
      refine (PsStepOK_congr labels hcm _ _ _ ?_).1 (htests [] a L rfl)
      intro x; simp
    have hs1 := (psStep_eq_some_iff labels hcm s0 (psContrib hcm a ++ s0) a).2 ⟨hok, rfl⟩
    obtain ⟨seen, hseen⟩ := ih (psContrib hcm a ++ s0) (by
      intro pre lh post e
      refine (PsStepOK_congr labels hcm _ _ _ ?_).1 (htests (a :: pre) lh post (by rw [e]; rfl))
      intro x
      rw [List.mem_append]
      simp only [List.mem_cons, exists_eq_or_imp]
      constructor
      · rintro (h | h | h)
        · exact Or.inl (Or.inr h)
        · exact Or.inl (Or.inl h)
        · exact Or.inr h
      · rintro ((h | h) | h)
        · exact Or.inr (Or.inl h)
        · exact Or.inl h
        · exact Or.inr (Or.inr h))
    refine ⟨seen, ?_⟩
    rw [List.foldlM_cons, hs1]
    exact hseen

theorem psSelected_iff (hcm : Var → Option Var) (t : Var) (pre : List (Var × Var)) (x : Var) :
    (x ∈ [t] ∨ ∃ l ∈ pre, x ∈ psContrib hcm l) ↔ PsSelected hcm t pre x := by
  unfold PsSelected
  rw [List.mem_singleton]

/-- the fold: succeeds iff every argument passes its local tests relative to what the top and the
EARLIER arguments selected; the final `seen` is exactly what was selected -/
theorem ps_fold_iff (labels : List Var) (hcm : Var → Option Var) (L : List (Var × Var)) (t : Var) :
    (∃ seen, L.foldlM (psStep labels hcm) [t] = some seen) ↔
      ∀ pre lh post, L = pre ++ lh :: post → PsStepOK labels hcm (PsSelected hcm t pre) lh := by
  constructor
  · rintro ⟨seen, h⟩ pre lh post e
    exact (PsStepOK_congr labels hcm _ _ _ (psSelected_iff hcm t pre)).1
      ((ps_foldGen_of_some labels hcm L [t] seen h).1 pre lh post e)
  · intro h
    apply ps_foldGen_some_of
    intro pre lh post e
    exact (PsStepOK_congr labels hcm _ _ _ (psSelected_iff hcm t pre)).2 (h pre lh post e)

theorem ps_fold_mem (labels : List Var) (hcm : Var → Option Var) (L : List (Var × Var)) (t : Var)
    (seen : List Var) (h : L.foldlM (psStep labels hcm) [t] = some seen) (x : Var) :
    x ∈ seen ↔ PsSelected hcm t L x := by
  rw [(ps_foldGen_of_some labels hcm L [t] seen h).2 x]
  exact psSelected_iff hcm t L x

/-- [core] plausibly_scopes = its documented tests:
 (1) the top is the hi of a handle constraint;
 (2) no EP has a handle argument equal to its own label;
 (3) no handle constraint is selected twice (its hi is not the top, not an earlier argument, not the lo of an
     earlier selected constraint) and no label is selected directly after it was already selected;
 (4) the lo of every selected handle constraint is a label;
 (5) every handle constraint is selected (its hi is the top or a handle argument or an earlier-selected lo) and its lo is a label. -/
theorem plausiblyScopes_iff (m : MRS) :
    m.plausiblyScopes = true ↔
      ∃ t, m.top = some t ∧ (∃ lo, m.hcmap t = some lo) ∧
        (∀ pre lh post, m.handleArgs = pre ++ lh :: post →
            PsStepOK m.labels m.hcmap (PsSelected m.hcmap t pre) lh) ∧
        (∀ hc ∈ m.hcons, PsSelected m.hcmap t m.handleArgs hc.hi ∧
            ∃ lo, m.hcmap hc.hi = some lo ∧ lo ∈ m.labels) := by
  unfold MRS.plausiblyScopes
  cases htop : m.top with
  | none => simp
  | some top =>
    simp only [Option.some.injEq, exists_eq_left']
    cases hlo : m.hcmap top with
    | none => simp
    | some lo0 =>
      simp only [Option.isNone_some, Bool.false_eq_true, if_false, Option.some.injEq, exists_eq',
        true_and]
      cases hfold : m.handleArgs.foldlM (psStep m.labels m.hcmap) [top] with
      | none =>
        simp only [Bool.false_eq_true, false_iff]
        rintro ⟨htests, _⟩
        obtain ⟨seen, hs⟩ := (ps_fold_iff m.labels m.hcmap m.handleArgs top).2 htests
        rw [hfold] at hs
        exact absurd hs (by simp)
      | some seen =>
        simp only [List.all_eq_true, Bool.and_eq_true, decide_eq_true_eq]
        have htests := (ps_fold_iff m.labels m.hcmap m.handleArgs top).1 ⟨seen, hfold⟩
        have hmem := ps_fold_mem m.labels m.hcmap m.handleArgs top seen hfold
        constructor
        · intro h
          refine ⟨htests, fun hc hhc => ?_⟩
          obtain ⟨h1, h2⟩ := h hc hhc
          refine ⟨(hmem _).1 h1, ?_⟩
          cases hh : m.hcmap hc.hi with
          | none => rw [hh] at h2; exact absurd h2 (by simp)
          | some lo => rw [hh] at h2; exact ⟨lo, rfl, by simpa using h2⟩
        · rintro ⟨_, h⟩ hc hhc
          obtain ⟨h1, lo, h2, h3⟩ := h hc hhc
          refine ⟨(hmem _).2 h1, ?_⟩
          rw [h2]; simpa using h3

/-- `hcmap` is "the LAST handle constraint on `v`" (Python dict comprehension) -/
theorem hcmap_eq_some_iff (m : MRS) (v lo : Var) :
    m.hcmap v = some lo ↔ ∃ pre hc post, m.hcons = pre ++ hc :: post ∧ hc.hi = v ∧ hc.lo = lo ∧
      ∀ hc' ∈ post, hc'.hi ≠ v := by
  unfold MRS.hcmap MRS.hcLast
  rw [Option.map_eq_some_iff]
  constructor
  · rintro ⟨hc, hfind, hlo⟩
    obtain ⟨hp, as, bs, hrev, hall⟩ := List.find?_eq_some_iff_append.1 hfind
    refine ⟨bs.reverse, hc, as.reverse, ?_, by simpa using hp, hlo, ?_⟩
    · have := List.reverse_eq_append_iff.1 hrev
      simpa using this
    · intro hc' hm
      have := hall hc' (List.mem_reverse.1 hm)
      simpa using this
  · rintro ⟨pre, hc, post, he, hhi, hlo, hall⟩
    refine ⟨hc, ?_, hlo⟩
    rw [List.find?_eq_some_iff_append]
    refine ⟨by simpa using hhi, post.reverse, pre.reverse, ?_, ?_⟩
    · rw [he]; simp
    · intro a ha
      have := hall a (List.mem_reverse.1 ha)
      simpa using this

/-- the handle-valued arguments: every non-ARG0/CARG argument whose sort is `h`, with its EP's label -/
theorem mem_handleArgs (m : MRS) (lh : Var × Var) :
    lh ∈ m.handleArgs ↔ ∃ p ∈ m.preds, lh.1 = p.2.label ∧ ∃ a ∈ p.2.args,
      a.1 ≠ INTRINSIC_ROLE ∧ a.1 ≠ CONSTANT_ROLE ∧ a.2.sortIn "h" = true ∧ lh.2 = a.2 := by
  obtain ⟨l, h⟩ := lh
  unfold MRS.handleArgs EP.outArgs
  simp only [List.mem_flatMap, List.mem_map, List.mem_filter, Bool.and_eq_true, bne_iff_ne, ne_eq,
    Prod.mk.injEq]
  constructor
  · rintro ⟨p, hp, a, ⟨ha, ⟨h1, h2⟩, h3⟩, rfl, rfl⟩
    exact ⟨p, hp, rfl, a, ha, h1, h2, h3, rfl⟩
  · rintro ⟨p, hp, rfl, a, ha, h1, h2, h3, rfl⟩
    exact ⟨p, hp, a, ⟨ha, ⟨h1, h2⟩, h3⟩, rfl, rfl⟩

end Verif.Sem
