/-
C16 — model of the `fields` allowlist of `to_dict(fields=…)` (`_to_dict` → `_to_dict_recursive`).
`form` and `daughters` are always shown; every other key is written only if its name is in `fields`.
Core Lean only.
-/
import Verif.C16.Model

namespace Verif.C16

/-- membership of the eight optional key names in `set(fields)` -/
structure Fields where
  tokens : Bool
  id : Bool
  entity : Bool
  score : Bool
  start : Bool
  stop : Bool
  head : Bool
  type : Bool
deriving Repr, DecidableEq

/-- `_all_fields` -/
def allFields : Fields := ⟨true, true, true, true, true, true, true, true⟩
def noFields : Fields := ⟨false, false, false, false, false, false, false, false⟩

/-- one name of `fields`; `none` = not in `_all_fields` (→ `ValueError('Invalid field(s)')`) -/
def addField (f : Fields) (name : String) : Option Fields :=
  if name = "form" then some f
  else if name = "daughters" then some f
  else if name = "tokens" then some { f with tokens := true }
  else if name = "id" then some { f with id := true }
  else if name = "entity" then some { f with entity := true }
  else if name = "score" then some { f with score := true }
  else if name = "start" then some { f with start := true }
  else if name = "end" then some { f with stop := true }
  else if name = "head" then some { f with head := true }
  else if name = "type" then some { f with type := true }
  else none

/-- `set(fields)` checked against `_all_fields` (order and repetitions are irrelevant) -/
def fieldsOf : List String → Option Fields
  | [] => some noFields
  | n :: ns =>
    match fieldsOf ns with
    | none => none
    | some f => addField f n

def keep {α} (b : Bool) (x : Option α) : Option α := if b then x else none

/-- the header keys of a non-root node under the allowlist -/
def nodeD (f : Fields) (id : Int) (e sc : Str) (st en : Int) (h : Bool) (ty : Option Str)
    (form : Option Str) (tokens : Option (List Tok)) (dtrs : Option (List D)) : D :=
  .mk (keep f.entity (some e)) (keep f.id (some id)) (keep f.score (some sc)) (keep f.start (some st))
    (keep f.stop (some en)) (keep f.type (truthy ty)) (f.head && h) form tokens dtrs

def tokensD (f : Fields) (toks : List Tok) : Option (List Tok) :=
  if toks.isEmpty then none else keep f.tokens (some toks)

mutual
/-- `_to_dict_recursive(obj, set(fields), {})` -/
def toDictF (f : Fields) : Node → D
  | .term form toks => .mk none none none none none none false (some form) (tokensD f toks) none
  | .node id e sc st en h ty ds =>
    (match ds with
     | [] => nodeD f id e sc st en h ty none none none
     | [.term form toks] => nodeD f id e sc st en h ty (some form) (tokensD f toks) none
     | _ => nodeD f id e sc st en h ty none none (some (toDictFL f ds)))
  | .root e ds =>
    (match ds with
     | [] => .mk (keep f.entity (some e)) none none none none none false none none none
     | [.term form toks] =>
       .mk (keep f.entity (some e)) none none none none none false (some form) (tokensD f toks) none
     | _ => .mk (keep f.entity (some e)) none none none none none false none none (some (toDictFL f ds)))
def toDictFL (f : Fields) : List Node → List D
  | [] => []
  | d :: ds => toDictF f d :: toDictFL f ds
end

mutual
/-- delete from a dictionary (at every level) the optional keys that are not in the allowlist -/
def restrictD (f : Fields) : D → D
  | .mk entity id score start stop type head form tokens daughters =>
    .mk (keep f.entity entity) (keep f.id id) (keep f.score score) (keep f.start start)
      (keep f.stop stop) (keep f.type type) (f.head && head) form (keep f.tokens tokens)
      (match daughters with
       | none => none
       | some ds => some (restrictDL f ds))
def restrictDL (f : Fields) : List D → List D
  | [] => []
  | d :: ds => restrictD f d :: restrictDL f ds
end

end Verif.C16
