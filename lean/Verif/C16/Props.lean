/-
C16 — property theorems (derivation trees: UDF / UDX / dictionary round trips, navigation).
-/
import Verif.C16.Scan
import Verif.C16.Parent
import Verif.Generated.TablesC16

namespace Verif.C16

/-- "converting a derivation to its dictionary form and back gives an equal derivation" — at full
strength since repair 17b863b (F26): the top node keeps its head mark and type.  `DictOK` is the
shape the dictionary form can express (a terminal is the sole daughter of its parent, no node
without daughters, no empty type string); `topCheck` is the constructor check of `Derivation`. -/
theorem dict_roundtrip (t : Node) (h : DictOK t = true) (hn : t.isTerm = false)
    (htop : topCheck t = .ok t) : fromDict (toDict t) = .ok t := by
  simp [fromDict, fromDictAux_toDict t h hn, htop]

/-- "… with an equal dictionary": `to_dict(from_dict(to_dict(t))) = to_dict(t)`. -/
theorem dict_roundtrip_dict (t : Node) (h : DictOK t = true) (hn : t.isTerm = false)
    (htop : topCheck t = .ok t) : (fromDict (toDict t)).map toDict = .ok (toDict t) := by
  rw [dict_roundtrip t h hn htop]; rfl

/-- the F26 witness `(1 ^a@typ -1 0 1 ("x"))` satisfies the hypotheses (head mark and type on the top) -/
example : fromDict (toDict (.node 1 ['a'] ['-', '1'] 0 1 true (some ['t', 'y', 'p']) [.term ['x'] []]))
    = .ok (.node 1 ['a'] ['-', '1'] 0 1 true (some ['t', 'y', 'p']) [.term ['x'] []]) :=
  dict_roundtrip _ (by simp [DictOK, typeOK]) rfl (by simp [topCheck, Node.dtrs, Node.isRoot])

/-- "terminals, preterminals and internal nodes partition its nodes" (1/2), ON SHAPE TREES: if every
node has either exactly one terminal daughter or only non-terminal daughters (`Shape`, the shape of
well-formed derivations: "terminals should always be single daughters"), the three lists together
are a rearrangement of the list of all nodes (with multiplicity).  Without `Shape` this is false of
the model and of the code alike (`nodes_partition_needs_shape`): `preterminals()` appends `self` once
per terminal daughter, and `internals()` returns nothing for a node that has any terminal daughter,
dropping the internal nodes below a mixed node; on such trees only `nodes_classes` holds. -/
theorem nodes_partition (t : Node) (h : Shape t = true) :
    (terminals t ++ preterminals t ++ internals t).Perm (allNodes t) :=
  partition_perm t h


/-- "Parsing the UDF or UDX text … the parsed tree equals the original in node identifiers, entities,
scores as printed, spans, head marks, lexical types, terminal forms and token structures" — the
stack-machine half: run on the match list `evs` of the serialization (any indentation, any level,
UDF or UDX) the explicit stack of `_from_string` — including the entity decoding (`^`, `@`),
`int()` of the printed integers, `_unquote` and `_udf_tokens` on the raw token text — rebuilds
exactly the tree (`view`: everything for UDX; without head marks and types for plain UDF).
`WF` is the domain of the format: entities/types/scores are `{token}`s, entities carry no `@` and no
leading `^`/`"`, forms and tfs strings are bodies of `{string}` (quotes escaped), nodes have daughters. -/
theorem stack_roundtrip (udx : Bool) (ind : Option Nat) (lvl : Nat) (t : Node) (hwf : WF t = true)
    (hn : t.isTerm = false) : run (evs udx ind lvl t) [] = .ok (view udx t) :=
  run_evs_top udx ind lvl t hwf hn

/-- the lexical half: the character-level emulation of `_udf_re.finditer` (terminal alternative
first, then node header, `)`, root symbol; unmatched white space and `(` skipped) run on the
serialization of a tree — any indentation, any level, UDF or UDX — yields exactly the match list
`evs`: one node/root match per non-terminal (consuming the `(` of its first daughter), one terminal
match per terminal carrying the raw token text, one `)` match per non-terminal. -/
theorem scan_serialized (udx : Bool) (ind : Option Nat) (lvl : Nat) (t : Node) (hwf : WF t = true) :
    scan (inner udx ind lvl t) = evs udx ind lvl t :=
  scan_tree udx ind lvl t hwf

/-- "Parsing the UDF or UDX text of any derivation … at any indentation … the parsed tree equals the
original in node identifiers, entities, scores as printed, spans, head marks, lexical types, terminal
forms and token structures": `from_string(to_udx(t, indent)) = t` and
`from_string(to_udf(t, indent)) = t without head marks and types`, for every tree of the format's
domain (`WF`) that `Derivation` accepts as a top node (`topCheck`), every indentation. -/
theorem udf_roundtrip (udx : Bool) (ind : Option Nat) (t : Node) (hwf : WF t = true)
    (hn : t.isTerm = false) (htop : topCheck t = .ok t) :
    fromString (toUdf udx ind t) = .ok (view udx t) := by
  obtain ⟨a, ha⟩ := inner_snoc udx ind 1 t
  have hend : endsWithParen ('(' :: inner udx ind 1 t) = true := by
    rw [ha]; exact endsWithParen_snoc ('(' :: a)
  simp only [toUdf, fromString, hend, if_true, scan_serialized udx ind 1 t hwf,
    stack_roundtrip udx ind 1 t hwf hn, topCheck_view udx t htop]

/-- the whole sentence: parse the text written at indentation `i`, write it again at any
indentation `j`: the text of the original at `j`. -/
theorem udf_text_roundtrip (udx : Bool) (i j : Option Nat) (t : Node) (hwf : WF t = true)
    (hn : t.isTerm = false) (htop : topCheck t = .ok t) :
    (fromString (toUdf udx i t)).map (toUdf udx j) = .ok (toUdf udx j t) := by
  rw [udf_roundtrip udx i t hwf hn htop]
  show Except.ok (toUdf udx j (view udx t)) = _
  cases udx with
  | true => rfl
  | false => simp only [view, toUdf, Bool.false_eq_true, if_false, inner_eraseHT]

/-- the hypotheses are satisfiable: `(root (1 ^a@typ -1 0 2 (2 b 0 0 1 ("x" 1 "t \"q\"")) (3 c 0 1 2 ("y"))))` -/
example : WF (.root ['r'] [.node 1 ['a'] ['-', '1'] 0 2 true (some ['t'])
    [.node 2 ['b'] ['0'] 0 1 false none [.term ['x'] [⟨1, ['t', ' ', '\\', '"', 'q', '\\', '"']⟩]],
     .node 3 ['c'] ['0'] 1 2 false none [.term ['y'] []]]]) = true := by decide

/-- … and the same tree passes the constructor check, so every hypothesis of `udf_roundtrip` holds of it -/
example : topCheck (.root ['r'] [.node 1 ['a'] ['-', '1'] 0 2 true (some ['t'])
    [.node 2 ['b'] ['0'] 0 1 false none [.term ['x'] [⟨1, ['t', ' ', '\\', '"', 'q', '\\', '"']⟩]],
     .node 3 ['c'] ['0'] 1 2 false none [.term ['y'] []]]])
  = .ok (.root ['r'] [.node 1 ['a'] ['-', '1'] 0 2 true (some ['t'])
    [.node 2 ['b'] ['0'] 0 1 false none [.term ['x'] [⟨1, ['t', ' ', '\\', '"', 'q', '\\', '"']⟩]],
     .node 3 ['c'] ['0'] 1 2 false none [.term ['y'] []]]]) := by
  simp [topCheck, Node.dtrs, Node.isRoot, Node.isTerm]

/-- `_udf_tokens` (a `findall` over the raw token text) recovers exactly the tokens of a terminal,
for tfs strings with escaped quotes and backslashes, whatever white space separates them. -/
theorem tokens_roundtrip (d : Str) (ts : List Tok) (hd : d.all isWs = true)
    (hv : ts.all (fun t => ValidBody t.tfs) = true) : findToks (toksText d ts) = ts :=
  findToks_toksText d ts hd hv

/-- the string scanner stops at the right quote: `{string}` on `"body"rest` yields `body` and `rest`
for every body whose quotes are escaped. -/
theorem string_scan (b r : Str) (h : ValidBody b = true) :
    takeString ('"' :: b ++ '"' :: r) = some (b, r) :=
  takeString_valid b r h

/-- "only the top node may be a root" (constructor check of the parsers' top-level rebuild): a
derivation returned by `from_string` has no root among the daughters of its top node. -/
theorem fromString_top_daughters_not_root (s : Str) (t : Node) (h : fromString s = .ok t) :
    t.dtrs.any Node.isRoot = false := by
  have key : ∀ n, topCheck n = .ok t → t.dtrs.any Node.isRoot = false := by
    intro n hn
    unfold topCheck at hn
    split at hn
    · cases hn
    · rename_i hany
      have hnt : n = t := by
        split at hn
        · split at hn
          · cases hn
          · exact Except.ok.inj hn
        · cases hn
        · exact Except.ok.inj hn
      subst hnt
      simpa using hany
  unfold fromString at h
  split at h
  · split at h
    · split at h
      · cases h
      · exact key _ h
    · cases h
  · cases h


/-- `Shape` is needed: a preterminal with two terminal daughters is listed twice by `preterminals`
(the real code does the same; compared on the multi-terminal trees of every run), and the internal
node below a mixed node is lost by `internals`. -/
theorem nodes_partition_needs_shape :
    (preterminals (.node 1 ['a'] ['0'] 0 2 false none [.term ['x'] [], .term ['y'] []])).length = 2
    ∧ (allNodes (.node 1 ['a'] ['0'] 0 2 false none [.term ['x'] [], .term ['y'] []])).length = 3
    ∧ (internals (.node 1 ['a'] ['0'] 0 2 false none
        [.term ['x'] [], .node 2 ['b'] ['0'] 0 1 false none [.node 3 ['c'] ['0'] 0 1 false none [.term ['y'] []]]])).length = 0 := by
  decide

/-- "terminals, preterminals and internal nodes partition its nodes" (2/2): the three lists hold
nodes of three mutually exclusive kinds — terminals; non-terminals with a terminal daughter;
non-terminals without one — so no node is in two of them (any tree, no shape hypothesis). -/
theorem nodes_classes (t : Node) :
    (∀ n ∈ terminals t, n.isTerm = true) ∧
    (∀ n ∈ preterminals t, n.isTerm = false ∧ n.dtrs.any Node.isTerm = true) ∧
    (∀ n ∈ internals t, n.isTerm = false ∧ n.dtrs.any Node.isTerm = false) :=
  ⟨terminals_class t, preterminals_class t, internals_class t⟩

/-- "only the top node may be a root", for `from_dict` (1/2): whatever the dictionary, a derivation
returned by `from_dict` has no root among the daughters of its top node (constructor check). -/
theorem fromDict_top_daughters_not_root (d : D) (t : Node) (h : fromDict d = .ok t) :
    t.dtrs.any Node.isRoot = false := by
  unfold fromDict at h
  split at h
  · cases h
  · exact (topCheck_ok_eq _ _ h).2

/-- "only the top node may be a root", for `from_dict` (2/2): if every entry below the top of the
dictionary carries an `id` (as every dictionary written by `to_dict` for a tree without inner roots
does), no node below the top of the derivation built by `from_dict` is a root, at any depth. -/
theorem fromDict_no_root_below_top (d : D) (t : Node) (hid : DtrsHaveIds d = true)
    (h : fromDict d = .ok t) : NoRootL t.dtrs = true := by
  unfold fromDict at h
  split at h
  · cases h
  · rename_i n hn
    have := (topCheck_ok_eq _ _ h).1
    subst this
    exact fromDictAux_dtrs_noRoot d hid n hn

/-- the `id` hypothesis is needed: `_from_dict` appends daughters after construction, so an entry
without `id` two levels below the top becomes a root that no check sees. -/
theorem fromDict_inner_root_witness :
    (match fromDict (.mk (some ['a']) (some 1) none none none none false none none (some [
        .mk (some ['b']) (some 2) none none none none false none none (some [
          .mk (some ['r']) none none none none none false none none (some [
            .mk (some ['c']) (some 3) none none none none false (some ['x']) none none])])])) with
     | .ok t => NoRootL t.dtrs
     | .error _ => true) = false := by decide

/-- "each node's parent is the node that lists it as a daughter", for `from_string`: the stack
machine is run with an annotation layer (`runP`) that numbers every pushed frame and records, for
every node and terminal at creation, the number of the frame then on top of the stack (the
`parent=stack[-1]` argument; root symbols are created without a parent).  For EVERY match list —
well-formed text or not — (1) the annotation layer does not change the result of `run`; (2) in the
tree returned every terminal and every non-root node names as its parent exactly the node whose
daughters list it was appended to (`Cons`); (3) the frame numbers of the tree are pairwise distinct,
so "the node numbered u" is one node.  The layer is tied to the code: the driver emits
`(number, recorded parent)` per node and the run compares it with the real `.parent` objects of
`from_string`'s result on every tree and text case. -/
theorem parent_spec (evs : List Ev) :
    (runP evs 0 []).map Prod.snd = run evs [] ∧
    ∀ t, runP evs 0 [] = .ok t → Cons t.1 = true ∧ (uids t.1).Nodup :=
  ⟨runP_snd evs 0 [], fun t h =>
    ⟨runP_consistent evs 0 [] t trivial h,
     runP_uids_nodup evs 0 [] t ⟨by simp [stackUids], by simp [stackUids], by simp⟩ h⟩⟩

/-- "each node's parent is the node that lists it as a daughter", for `from_dict`: in the annotation
layer of `_from_dict(d, parent)` (`fromDictP`: the node is created with `parent=parent`, its daughters
and its merged terminal with `parent=n`) every node and terminal below the top names as its parent
the node that lists it.  Tied to the code like `parent_spec` (key `par_fd` of the comparison).
Distinctness of the numbers is not proved for this layer (they are consecutive by construction). -/
theorem parent_spec_dict (d : D) (c : Nat) (a : ANode) (c' : Nat)
    (h : fromDictP d c none = some (a, c')) : Cons a = true :=
  (fromDictP_cons d c none a c' h).1

/-! ## Pins: the constants of `delphin/derivation.py` that the hand-written model mirrors

`Generated/TablesC16.lean` is rewritten on every run from the live module (`harness/c16.py: tables()`):
the compiled pattern `_udf_re` (pattern text, flags, group names in index order), `_all_fields`, the
namedtuple field lists, the constants of the anchored functions (from their code objects, nested code
objects included; docstrings and exception message texts dropped; non-strings tagged `#repr`), the
`re`/`str` operations named by the parsers, and the default arguments.  A change to any of them must
be followed in the model: this theorem stops checking, which the check reports as a broken proof
obligation and then searches for a failing input.

Which model definition hand-codes which constant:
* `c16UdfRePattern` — the four alternatives in this order are `matchAt` = `alt3` (terminal:
  `takeString`, `lkbPart` for `\s+\d+\s+\d+`, `tokIter`/`tokGroup` for `(?:\s+{token}\s+{string})*`,
  `closeParen`), `alt1`/`alt1Tail` (node header; entity `{string}|{token}` with its fall-back),
  `alt2` (`\s*\)`), `alt4` (`\s*{token}\s*\(?`).  `{token}` = `[^\s()]+` is `isAtomCh`/`takeAtom`,
  `{string}` = `"[^"\\]*(?:\\.[^"\\]*)*"` is `strBody`/`takeString`, `\s` is `isWs`, `\d+` is `takeDigits`.
  `c16UdfReFlags = 32` (re.UNICODE only): no DOTALL (the newline rule of `strBody`), no IGNORECASE, no
  VERBOSE.  `c16UdfReGroups`: the raw group texts carried by `Ev`.
* `c16UnquoteConsts`/`c16UnquoteNames` (`^"(.*)"$`, `\1`, `DOTALL`) — `unquoteBody`.
* `c16UdfTokensConsts`/`Names` (`\s*(\d+)\s+({string})` through `findall`) — `tokAt`/`findToks`.
* `c16FromStringConsts`/`Names` — `fromString`/`endsWithParen` (`(`, `)`, `s[1:]`), the dispatch order
  done/form/id/root and the stack discipline of `run`, `decodeEntity` (`partition('@')`, `^`, `''`),
  `mkNode` (`int`, `float`); `c16FromStringTopConsts`/`c16FromDictTopConsts` — `topCheck` receives head and type.
* `c16FromDictConsts` — `fromDictAux`/`dictNode` (key names, `daughters` before `form`).
* `c16ToUdfConsts` — `delim` (`' '`, newline), `decorate` (`^`, `@`), `header`/`inner` (the format
  `({} {} {:g} {} {}{})`: scores are carried as their `{:g}` text), `tokText`/`termInner` (`"`, ` "`, `({})`);
  `c16ToUdfMethodConsts`/`c16ToUdxMethodConsts`/`c16StrConsts` — `toUdf` starts at level 1, `udx=True`.
* `c16ToDictRecConsts`, `c16AllFields` — `toDict` (key names; merge of a single terminal daughter).
* `c16NodeNewConsts` (`-1.0`, `-1`) — `dictNode` defaults; with `c16DerivationInitConsts` — `topCheck`.
* `c16IsRootConsts`, `c16TerminalIsRootConsts` — `Node.isRoot`; `c16IsHeadConsts`, `c16NodeEqConsts`/`Names`
  (`lower`) — implementation-side only (oracle compares strings exactly).
* `c16TerminalsConsts`, `c16PreterminalsConsts`, `c16InternalsConsts` — `terminals`/`preterminals`/`internals`.
* `c16NodeFields`, `c16TerminalFields`, `c16TokenFields` — the constructors of `Node`/`Tok` and the harness's `build`.
* `c16Defaults` — default arguments (`indent=1`, `udx=False`, `fields=_all_fields`, `parent=None`, …) the
  harness and oracle rely on. -/

open Verif.Tables in
/-- the pinned constants have the values the model was written against -/
theorem c16_pins :
    c16UdfRePattern = "\\s*(?P<form>\"[^\"\\\\]*(?:\\\\.[^\"\\\\]*)*\")(\\s+(?P<lkb_start>\\d+)\\s+(?P<lkb_end>\\d+)|(?P<tokens>(?:\\s+[^\\s()]+\\s+\"[^\"\\\\]*(?:\\\\.[^\"\\\\]*)*\")*))?\\s*\\)|\\s*(?P<id>[^\\s()]+)\\s+(?P<entity>\"[^\"\\\\]*(?:\\\\.[^\"\\\\]*)*\"|[^\\s()]+)\\s+(?P<score>[^\\s()]+)\\s+(?P<start>[^\\s()]+)\\s+(?P<end>[^\\s()]+)\\s*\\(|\\s*(?P<done>\\))|\\s*(?P<root>[^\\s()]+)\\s*\\(?"
    ∧ c16UdfReFlags = 32
    ∧ c16UdfReGroups = ["form", "lkb_start", "lkb_end", "tokens", "id", "entity", "score", "start", "end", "done", "root"]
    ∧ c16AllFields = ["form", "tokens", "id", "entity", "score", "start", "end", "daughters", "head", "type"]
    ∧ c16NodeFields = ["id", "entity", "score", "start", "end", "daughters"]
    ∧ c16TerminalFields = ["form", "tokens"]
    ∧ c16TokenFields = ["id", "tfs"]
    ∧ c16FromStringConsts = ["#None", "(", ")", "#('text',)", "#1", "done", "#0", "#-1", "form", "tokens", "", "#('tokens', 'parent')", "id", "entity", "@", "^", "#True", "score", "start", "end", "#('score', 'start', 'end', 'head', 'type', 'parent')", "root"]
    ∧ c16UnquoteConsts = ["#None", "^\"(.*)\"$", "\\1", "#('flags',)"]
    ∧ c16UdfTokensConsts = ["#None", "\\s*({id})\\s+({tfs})", "\\d+", "\"[^\"\\\\]*(?:\\\\.[^\"\\\\]*)*\"", "#('id', 'tfs')"]
    ∧ c16FromDictConsts = ["#None", "daughters", "id", "entity", "score", "start", "end", "head", "type", "#('score', 'start', 'end', 'head', 'type', 'parent')", "#('parent',)", "#None", "form", "tokens", "tfs", "#('form', 'tokens', 'parent')"]
    ∧ c16ToUdfConsts = ["#None", " ", "\n", "^", "@", "#1", "", "(", ")", "({} {} {:g} {} {}{})", "\"", " \"", "({})"]
    ∧ c16ToDictRecConsts = ["#None", "entity", "id", "score", "start", "end", "type", "head", "#1", "#0", "daughters", "label", "form", "tokens", "tfs"]
    ∧ c16NodeNewConsts = ["#None", "#-1.0", "#-1", "#None"]
    ∧ c16DerivationInitConsts = ["#None", "#1", "#0"]
    ∧ c16IsHeadConsts = ["daughters", "#None", "#1", "#True", "#None", "#False"]
    ∧ c16IsRootConsts = ["#None"]
    ∧ c16TerminalIsRootConsts = ["#False"]
    ∧ c16TerminalsConsts = []
    ∧ c16PreterminalsConsts = []
    ∧ c16InternalsConsts = ["#None"]
    ∧ c16FromStringTopConsts = ["#('head', 'type')"]
    ∧ c16FromDictTopConsts = ["#('head', 'type')"]
    ∧ c16ToUdfMethodConsts = ["#1"]
    ∧ c16ToUdxMethodConsts = ["#1", "#True", "#('udx',)"]
    ∧ c16StrConsts = ["#None", "#('indent',)"]
    ∧ c16NodeEqConsts = ["#False", "#None", "#True"]
    ∧ c16UnquoteNames = ["re", "sub", "DOTALL"]
    ∧ c16UdfTokensNames = ["re", "findall", "format", "append", "UDFToken", "_unquote"]
    ∧ c16FromStringNames = ["startswith", "endswith", "DerivationSyntaxError", "_udf_re", "finditer", "group", "pop", "len", "daughters", "append", "groupdict", "UDFTerminal", "_unquote", "_udf_tokens", "get", "partition", "UDFNode", "int", "float"]
    ∧ c16NodeEqNames = ["isinstance", "UDFNode", "NotImplemented", "entity", "lower", "type", "is_head", "start", "end", "len", "daughters", "any", "zip"]
    ∧ c16Defaults = ["to_udf (1,) None", "to_udx (1,) None", "to_dict (('form', 'tokens', 'id', 'entity', 'score', 'start', 'end', 'daughters', 'head', 'type'), None) None", "_to_udf (False,) None", "_from_dict (None,) None", "from_string None None", "from_dict None None", "UDFNode.__new__ (None, None, None, None, None, None, None) None", "Derivation.__init__ (None, None, None, None, None, None, None) None", "UDFTerminal.__new__ (None, None) None", "UDFToken.__new__ None None"] := by
  refine ⟨?_, ?_, ?_, ?_, ?_, ?_, ?_, ?_, ?_, ?_, ?_, ?_, ?_, ?_, ?_, ?_, ?_, ?_, ?_, ?_, ?_, ?_, ?_, ?_, ?_, ?_, ?_, ?_, ?_, ?_, ?_, ?_⟩ <;> rfl

end Verif.C16
