/-
C16 — parent pointers.  The pure tree model has no pointers, so the stack machine of `_from_string`
is run a second time in lock step with an annotation layer: every frame gets a unique number when it
is pushed (`uid`), and every node/terminal records, at creation, the number of the frame that is on
top of the stack at that moment — this is the `parent=stack[-1] if stack else None` argument of the
real code (root symbols are created without a parent).  `runP_snd` shows the second component is
exactly `run`; `runP_consistent` is the invariant.
-/
import Verif.C16.Model

namespace Verif.C16

inductive ANode where
  | term (par : Option Nat)
  | node (uid : Nat) (par : Option Nat) (isRoot : Bool) (dtrs : List ANode)
deriving Repr

def ANode.uid : ANode → Nat
  | .term _ => 0
  | .node u _ _ _ => u

def ANode.isNode : ANode → Bool
  | .term _ => false
  | .node .. => true

def aAdd : ANode → ANode → ANode
  | .node u p r ds, d => .node u p r (ds ++ [d])
  | .term p, _ => .term p

def topUid : List (ANode × Node) → Option Nat
  | [] => none
  | (a, _) :: _ => some a.uid

/-- `run` with the annotation layer (same control flow, clause by clause) -/
def runP : List Ev → Nat → List (ANode × Node) → Except Err (ANode × Node)
  | [], _, _ => .error .syntaxError
  | .done :: evs, c, stack =>
    (match stack with
     | [] => .error .indexError
     | [n] => .ok n
     | n :: p :: rest => runP evs c ((aAdd p.1 n.1, addDtr p.2 n.2) :: rest))
  | .term form toks :: evs, c, stack =>
    (match stack with
     | [] => .error .indexError
     | p :: rest =>
       runP evs c ((aAdd p.1 (.term (some p.1.uid)),
                    addDtr p.2 (.term (unquoteBody form) (findToks toks))) :: rest))
  | .node id e sc st en :: evs, c, stack =>
    (match mkNode id e sc st en with
     | .error err => .error err
     | .ok n => runP evs (c + 1) ((.node c (topUid stack) false [], n) :: stack))
  | .root tok :: evs, c, stack => runP evs (c + 1) ((.node c none true [], .root tok []) :: stack)

/-- the annotation layer does not change what `run` computes -/
theorem runP_snd (evs : List Ev) : ∀ (c : Nat) (stack : List (ANode × Node)),
    (runP evs c stack).map Prod.snd = run evs (stack.map Prod.snd) := by
  induction evs with
  | nil => intro c stack; rfl
  | cons ev evs ih =>
    intro c stack
    cases ev with
    | done =>
      cases stack with
      | nil => rfl
      | cons n rest =>
        cases rest with
        | nil => rfl
        | cons p rest' => simp only [runP, run, List.map_cons]; exact ih c _
    | term form toks =>
      cases stack with
      | nil => rfl
      | cons p rest => simp only [runP, run, List.map_cons]; exact ih c _
    | node id e sc st en =>
      simp only [runP, run]
      cases mkNode id e sc st en with
      | error err => rfl
      | ok n => exact ih (c + 1) _
    | root tok => simp only [runP, run]; exact ih (c + 1) _

/-- `d` was created while the frame numbered `u` was on top of the stack (roots have no parent) -/
def parOK (u : Nat) : ANode → Bool
  | .term par => par == some u
  | .node _ par isRoot _ => isRoot || par == some u

mutual
/-- every non-root node and every terminal below `a` names, as its parent, the node that lists it -/
def Cons : ANode → Bool
  | .term _ => true
  | .node u _ _ ds => ConsL u ds
def ConsL (u : Nat) : List ANode → Bool
  | [] => true
  | d :: ds => parOK u d && Cons d && ConsL u ds
end

theorem consL_snoc (u : Nat) (ds : List ANode) (d : ANode) (h : ConsL u ds = true)
    (hp : parOK u d = true) (hc : Cons d = true) : ConsL u (ds ++ [d]) = true := by
  induction ds with
  | nil => simp [ConsL, hp, hc]
  | cons x xs ih =>
    simp only [ConsL, Bool.and_eq_true] at h
    simp [ConsL, h.1.1, h.1.2, ih h.2]

theorem cons_aAdd (p d : ANode) (hn : p.isNode = true) (h : Cons p = true)
    (hp : parOK p.uid d = true) (hc : Cons d = true) : Cons (aAdd p d) = true := by
  cases p with
  | term _ => simp [ANode.isNode] at hn
  | node u par r ds =>
    simp only [Cons] at h
    simp only [aAdd, Cons]
    exact consL_snoc u ds d h hp hc

theorem aAdd_uid (p d : ANode) : (aAdd p d).uid = p.uid := by cases p <;> rfl
theorem aAdd_isNode (p d : ANode) : (aAdd p d).isNode = p.isNode := by cases p <;> rfl
theorem aAdd_parOK (u : Nat) (p d : ANode) : parOK u (aAdd p d) = parOK u p := by cases p <;> rfl

/-- every frame is a consistent node created while the frame below it was on top -/
def StackInv : List (ANode × Node) → Prop
  | [] => True
  | [a] => a.1.isNode = true ∧ Cons a.1 = true
  | a :: p :: rest =>
    a.1.isNode = true ∧ Cons a.1 = true ∧ parOK p.1.uid a.1 = true ∧ StackInv (p :: rest)

theorem stackInv_head (a : ANode × Node) (rest : List (ANode × Node)) (h : StackInv (a :: rest)) :
    a.1.isNode = true ∧ Cons a.1 = true := by
  cases rest with
  | nil => exact h
  | cons p r => exact ⟨h.1, h.2.1⟩

/-- replacing the top frame by one with the same number, kind and parent keeps the invariant -/
theorem stackInv_replace (a b : ANode × Node) (rest : List (ANode × Node))
    (h : StackInv (a :: rest)) (hn : b.1.isNode = true) (hc : Cons b.1 = true)
    (hpar : ∀ u, parOK u b.1 = parOK u a.1) : StackInv (b :: rest) := by
  cases rest with
  | nil => exact ⟨hn, hc⟩
  | cons p r => exact ⟨hn, hc, by rw [hpar]; exact h.2.2.1, h.2.2.2⟩

theorem runP_consistent (evs : List Ev) : ∀ (c : Nat) (stack : List (ANode × Node)) (t : ANode × Node),
    StackInv stack → runP evs c stack = .ok t → Cons t.1 = true := by
  induction evs with
  | nil => intro c stack t _ h; cases h
  | cons ev evs ih =>
    intro c stack t hinv h
    cases ev with
    | done =>
      cases stack with
      | nil => cases h
      | cons n rest =>
        cases rest with
        | nil =>
          simp only [runP] at h
          cases h
          exact hinv.2
        | cons p rest' =>
          simp only [runP] at h
          obtain ⟨hn, hc, hpar, hrest⟩ := hinv
          obtain ⟨hpn, hpc⟩ := stackInv_head p rest' hrest
          refine ih c _ t ?_ h
          exact stackInv_replace p (aAdd p.1 n.1, addDtr p.2 n.2) rest' hrest
            (by rw [aAdd_isNode]; exact hpn) (cons_aAdd p.1 n.1 hpn hpc hpar hc)
            (fun u => aAdd_parOK u p.1 n.1)
    | term form toks =>
      cases stack with
      | nil => cases h
      | cons p rest =>
        simp only [runP] at h
        obtain ⟨hpn, hpc⟩ := stackInv_head p rest hinv
        refine ih c _ t ?_ h
        exact stackInv_replace p _ rest hinv (by rw [aAdd_isNode]; exact hpn)
          (cons_aAdd p.1 (.term (some p.1.uid)) hpn hpc (by simp [parOK]) rfl)
          (fun u => aAdd_parOK u p.1 _)
    | node id e sc st en =>
      simp only [runP] at h
      cases hm : mkNode id e sc st en with
      | error err => simp [hm] at h
      | ok n =>
        simp only [hm] at h
        refine ih (c + 1) _ t ?_ h
        cases stack with
        | nil => exact ⟨rfl, rfl⟩
        | cons p rest => exact ⟨rfl, rfl, by simp [parOK, topUid], hinv⟩
    | root tok =>
      simp only [runP] at h
      refine ih (c + 1) _ t ?_ h
      cases stack with
      | nil => exact ⟨rfl, rfl⟩
      | cons p rest => exact ⟨rfl, rfl, by simp [parOK], hinv⟩

/-! ### frame numbers are pairwise distinct -/

mutual
/-- the numbers of all non-terminal nodes of an annotated tree, pre-order -/
def uids : ANode → List Nat
  | .term _ => []
  | .node u _ _ ds => u :: uidsL ds
def uidsL : List ANode → List Nat
  | [] => []
  | d :: ds => uids d ++ uidsL ds
end

theorem uidsL_append (xs ys : List ANode) : uidsL (xs ++ ys) = uidsL xs ++ uidsL ys := by
  induction xs with
  | nil => simp [uidsL]
  | cons x xs ih => simp [uidsL, ih]

theorem uids_aAdd (p d : ANode) (hn : p.isNode = true) : uids (aAdd p d) = uids p ++ uids d := by
  cases p with
  | term _ => simp [ANode.isNode] at hn
  | node u par r ds => simp [aAdd, uids, uidsL_append, uidsL]

def stackUids (st : List (ANode × Node)) : List Nat := st.flatMap (fun a => uids a.1)

/-- all numbers on the stack are distinct and below the counter; every frame is a node -/
def UidInv (c : Nat) (st : List (ANode × Node)) : Prop :=
  (stackUids st).Nodup ∧ (∀ u ∈ stackUids st, u < c) ∧ ∀ a ∈ st, a.1.isNode = true

theorem runP_uids_nodup (evs : List Ev) : ∀ (c : Nat) (stack : List (ANode × Node)) (t : ANode × Node),
    UidInv c stack → runP evs c stack = .ok t → (uids t.1).Nodup := by
  induction evs with
  | nil => intro c stack t _ h; cases h
  | cons ev evs ih =>
    intro c stack t hinv h
    obtain ⟨hnd, hlt, hnode⟩ := hinv
    cases ev with
    | done =>
      cases stack with
      | nil => cases h
      | cons n rest =>
        cases rest with
        | nil =>
          simp only [runP] at h
          cases h
          simpa [stackUids] using hnd
        | cons p rest' =>
          simp only [runP] at h
          have hpn : p.1.isNode = true := hnode p (by simp)
          have hperm : (stackUids ((aAdd p.1 n.1, addDtr p.2 n.2) :: rest')).Perm
              (stackUids (n :: p :: rest')) := by
            simp only [stackUids, List.flatMap_cons, uids_aAdd p.1 n.1 hpn]
            rw [← List.append_assoc]
            exact List.Perm.append_right _ List.perm_append_comm
          refine ih c _ t ⟨hperm.nodup_iff.mpr hnd, ?_, ?_⟩ h
          · intro u hu; exact hlt u (hperm.mem_iff.mp hu)
          · intro a ha
            simp only [List.mem_cons] at ha
            rcases ha with ha | ha
            · subst ha; simp only [aAdd_isNode]; exact hpn
            · exact hnode a (by simp [ha])
    | term form toks =>
      cases stack with
      | nil => cases h
      | cons p rest =>
        simp only [runP] at h
        have hpn : p.1.isNode = true := hnode p (by simp)
        have heq : stackUids ((aAdd p.1 (.term (some p.1.uid)),
            addDtr p.2 (.term (unquoteBody form) (findToks toks))) :: rest) = stackUids (p :: rest) := by
          simp [stackUids, uids_aAdd p.1 _ hpn, uids]
        refine ih c _ t ⟨by rw [heq]; exact hnd, by rw [heq]; exact hlt, ?_⟩ h
        intro a ha
        simp only [List.mem_cons] at ha
        rcases ha with ha | ha
        · subst ha; simp only [aAdd_isNode]; exact hpn
        · exact hnode a (by simp [ha])
    | node id e sc st en =>
      simp only [runP] at h
      cases hm : mkNode id e sc st en with
      | error err => simp [hm] at h
      | ok n =>
        simp only [hm] at h
        refine ih (c + 1) _ t ⟨?_, ?_, ?_⟩ h
        · simp only [stackUids, List.flatMap_cons, uids, uidsL, List.singleton_append, List.nodup_cons]
          exact ⟨fun hc => Nat.lt_irrefl c (hlt c hc), hnd⟩
        · intro u hu
          simp only [stackUids, List.flatMap_cons, uids, uidsL, List.singleton_append, List.mem_cons] at hu
          rcases hu with hu | hu
          · omega
          · exact Nat.lt_succ_of_lt (hlt u hu)
        · intro a ha
          simp only [List.mem_cons] at ha
          rcases ha with ha | ha
          · subst ha; rfl
          · exact hnode a ha
    | root tok =>
      simp only [runP] at h
      refine ih (c + 1) _ t ⟨?_, ?_, ?_⟩ h
      · simp only [stackUids, List.flatMap_cons, uids, uidsL, List.singleton_append, List.nodup_cons]
        exact ⟨fun hc => Nat.lt_irrefl c (hlt c hc), hnd⟩
      · intro u hu
        simp only [stackUids, List.flatMap_cons, uids, uidsL, List.singleton_append, List.mem_cons] at hu
        rcases hu with hu | hu
        · omega
        · exact Nat.lt_succ_of_lt (hlt u hu)
      · intro a ha
        simp only [List.mem_cons] at ha
        rcases ha with ha | ha
        · subst ha; rfl
        · exact hnode a ha

/-! ### the annotation layer of `_from_dict(d, parent)` -/

mutual
/-- `_from_dict` with numbered nodes: the node is created with `parent=parent`, its daughters (or its
merged terminal) with `parent=n`; `none` where `fromDictAux` raises -/
def fromDictP : D → Nat → Option Nat → Option (ANode × Nat)
  | .mk entity id _ _ _ _ _ form _ daughters, c, par =>
    match entity with
    | none => none
    | some _ =>
      match daughters with
      | some ds =>
        (match fromDictPL ds (c + 1) c with
         | none => none
         | some (as, c') => some (.node c par id.isNone as, c'))
      | none =>
        match form with
        | some _ => some (.node c par id.isNone [.term (some c)], c + 1)
        | none => none
def fromDictPL : List D → Nat → Nat → Option (List ANode × Nat)
  | [], c, _ => some ([], c)
  | d :: ds, c, u =>
    match fromDictP d c (some u) with
    | none => none
    | some (a, c') =>
      match fromDictPL ds c' u with
      | none => none
      | some (as, c'') => some (a :: as, c'')
end

mutual
theorem fromDictP_cons : (d : D) → (c : Nat) → (par : Option Nat) → (a : ANode) → (c' : Nat) →
    fromDictP d c par = some (a, c') → Cons a = true ∧ (∀ u, par = some u → parOK u a = true)
  | .mk entity id score start stop type head form tokens (some ds), c, par, a, c', h => by
    cases entity with
    | none => simp [fromDictP] at h
    | some e =>
      simp only [fromDictP] at h
      cases hl : fromDictPL ds (c + 1) c with
      | none => simp [hl] at h
      | some r =>
        obtain ⟨as, c2⟩ := r
        simp only [hl, Option.some.injEq, Prod.mk.injEq] at h
        obtain ⟨ha, _⟩ := h
        subst ha
        refine ⟨?_, ?_⟩
        · simp only [Cons]; exact fromDictPL_cons ds (c + 1) c as c2 hl
        · intro u hu; subst hu; simp [parOK]
  | .mk entity id score start stop type head form tokens none, c, par, a, c', h => by
    cases entity with
    | none => simp [fromDictP] at h
    | some e =>
      cases form with
      | none => simp [fromDictP] at h
      | some f =>
        simp only [fromDictP, Option.some.injEq, Prod.mk.injEq] at h
        obtain ⟨ha, _⟩ := h
        subst ha
        refine ⟨by simp [Cons, ConsL, parOK], ?_⟩
        intro u hu; subst hu; simp [parOK]
theorem fromDictPL_cons : (ds : List D) → (c u : Nat) → (as : List ANode) → (c' : Nat) →
    fromDictPL ds c u = some (as, c') → ConsL u as = true
  | [], c, u, as, c', h => by
    simp only [fromDictPL, Option.some.injEq, Prod.mk.injEq] at h
    obtain ⟨ha, _⟩ := h
    subst ha; rfl
  | d :: ds', c, u, as, c', h => by
    simp only [fromDictPL] at h
    cases h1 : fromDictP d c (some u) with
    | none => simp [h1] at h
    | some r1 =>
      obtain ⟨a, c1⟩ := r1
      cases h2 : fromDictPL ds' c1 u with
      | none => simp [h1, h2] at h
      | some r2 =>
        obtain ⟨as', c2⟩ := r2
        simp only [h1, h2, Option.some.injEq, Prod.mk.injEq] at h
        obtain ⟨ha, _⟩ := h
        subst ha
        obtain ⟨k1, k2⟩ := fromDictP_cons d c (some u) a c1 h1
        simp [ConsL, k1, k2 u rfl, fromDictPL_cons ds' c1 u as' c2 h2]
end

/-! pre-order listing `(number or none for a terminal, recorded parent)` — what the driver emits -/
mutual
def flat : ANode → List (Option Nat × Option Nat)
  | .term p => [(none, p)]
  | .node u p _ ds => (some u, p) :: flatL ds
def flatL : List ANode → List (Option Nat × Option Nat)
  | [] => []
  | d :: ds => flat d ++ flatL ds
end

end Verif.C16
