/-
C16 — parent pointers.  The pure tree model has no pointers, so the stack machine of `_from_string`
is run a second time in lock step with an annotation layer: every frame gets a unique number when it
is pushed (`uid`), and every node/terminal records, at creation, the number of the frame that is on
top of the stack at that moment — this is the `parent=stack[-1] if stack else None` argument of the
real code (root symbols are created without a parent).  `runP_snd` shows the second component is
exactly `run`; `runP_consistent` is the invariant.
-/
import Verif.C16.Model

namespace Verif.C16

inductive ANode where
  | term (par : Option Nat)
  | node (uid : Nat) (par : Option Nat) (isRoot : Bool) (dtrs : List ANode)
deriving Repr

def ANode.uid : ANode → Nat
  | .term _ => 0
  | .node u _ _ _ => u

def ANode.isNode : ANode → Bool
  | .term _ => false
  | .node .. => true

def aAdd : ANode → ANode → ANode
  | .node u p r ds, d => .node u p r (ds ++ [d])
  | .term p, _ => .term p

def topUid : List (ANode × Node) → Option Nat
  | [] => none
  | (a, _) :: _ => some a.uid

/-- `run` with the annotation layer (same control flow, clause by clause) -/
def runP : List Ev → Nat → List (ANode × Node) → Except Err (ANode × Node)
  | [], _, _ => .error .syntaxError
  | .done :: evs, c, stack =>
    (match stack with
     | [] => .error .indexError
     | [n] => .ok n
     | n :: p :: rest => runP evs c ((aAdd p.1 n.1, addDtr p.2 n.2) :: rest))
  | .term form toks :: evs, c, stack =>
    (match stack with
     | [] => .error .indexError
     | p :: rest =>
       runP evs c ((aAdd p.1 (.term (some p.1.uid)),
                    addDtr p.2 (.term (unquoteBody form) (findToks toks))) :: rest))
  | .node id e sc st en :: evs, c, stack =>
    (match mkNode id e sc st en with
     | .error err => .error err
     | .ok n => runP evs (c + 1) ((.node c (topUid stack) false [], n) :: stack))
  | .root tok :: evs, c, stack => runP evs (c + 1) ((.node c none true [], .root tok []) :: stack)

/-- the annotation layer does not change what `run` computes -/
theorem runP_snd (evs : List Ev) : ∀ (c : Nat) (stack : List (ANode × Node)),
    (runP evs c stack).map Prod.snd = run evs (stack.map Prod.snd) := by
  induction evs with
  | nil => intro c stack; rfl
  | cons ev evs ih =>
    intro c stack
    cases ev with
    | done =>
      cases stack with
      | nil => rfl
      | cons n rest =>
        cases rest with
        | nil => rfl
        | cons p rest' => simp only [runP, run, List.map_cons]; exact ih c _
    | term form toks =>
      cases stack with
      | nil => rfl
      | cons p rest => simp only [runP, run, List.map_cons]; exact ih c _
    | node id e sc st en =>
      simp only [runP, run]
      cases mkNode id e sc st en with
      | error err => rfl
      | ok n => exact ih (c + 1) _
    | root tok => simp only [runP, run]; exact ih (c + 1) _

/-- `d` was created while the frame numbered `u` was on top of the stack (roots have no parent) -/
def parOK (u : Nat) : ANode → Bool
  | .term par => par == some u
  | .node _ par isRoot _ => isRoot || par == some u

mutual
/-- every non-root node and every terminal below `a` names, as its parent, the node that lists it -/
def Cons : ANode → Bool
  | .term _ => true
  | .node u _ _ ds => ConsL u ds
def ConsL (u : Nat) : List ANode → Bool
  | [] => true
  | d :: ds => parOK u d && Cons d && ConsL u ds
end

theorem consL_snoc (u : Nat) (ds : List ANode) (d : ANode) (h : ConsL u ds = true)
    (hp : parOK u d = true) (hc : Cons d = true) : ConsL u (ds ++ [d]) = true := by
  induction ds with
  | nil => simp [ConsL, hp, hc]
  | cons x xs ih =>
    simp only [ConsL, Bool.and_eq_true] at h
    simp [ConsL, h.1.1, h.1.2, ih h.2]

theorem cons_aAdd (p d : ANode) (hn : p.isNode = true) (h : Cons p = true)
    (hp : parOK p.uid d = true) (hc : Cons d = true) : Cons (aAdd p d) = true := by
  cases p with
  | term _ => simp [ANode.isNode] at hn
  | node u par r ds =>
    simp only [Cons] at h
    simp only [aAdd, Cons]
    exact consL_snoc u ds d h hp hc

theorem aAdd_uid (p d : ANode) : (aAdd p d).uid = p.uid := by cases p <;> rfl
theorem aAdd_isNode (p d : ANode) : (aAdd p d).isNode = p.isNode := by cases p <;> rfl
theorem aAdd_parOK (u : Nat) (p d : ANode) : parOK u (aAdd p d) = parOK u p := by cases p <;> rfl

/-- every frame is a consistent node created while the frame below it was on top -/
def StackInv : List (ANode × Node) → Prop
  | [] => True
  | [a] => a.1.isNode = true ∧ Cons a.1 = true
  | a :: p :: rest =>
    a.1.isNode = true ∧ Cons a.1 = true ∧ parOK p.1.uid a.1 = true ∧ StackInv (p :: rest)

theorem stackInv_head (a : ANode × Node) (rest : List (ANode × Node)) (h : StackInv (a :: rest)) :
    a.1.isNode = true ∧ Cons a.1 = true := by
  cases rest with
  | nil => exact h
  | cons p r => exact ⟨h.1, h.2.1⟩

/-- replacing the top frame by one with the same number, kind and parent keeps the invariant -/
theorem stackInv_replace (a b : ANode × Node) (rest : List (ANode × Node))
    (h : StackInv (a :: rest)) (hn : b.1.isNode = true) (hc : Cons b.1 = true)
    (hpar : ∀ u, parOK u b.1 = parOK u a.1) : StackInv (b :: rest) := by
  cases rest with
  | nil => exact ⟨hn, hc⟩
  | cons p r => exact ⟨hn, hc, by rw [hpar]; exact h.2.2.1, h.2.2.2⟩

theorem runP_consistent (evs : List Ev) : ∀ (c : Nat) (stack : List (ANode × Node)) (t : ANode × Node),
    StackInv stack → runP evs c stack = .ok t → Cons t.1 = true := by
  induction evs with
  | nil => intro c stack t _ h; cases h
  | cons ev evs ih =>
    intro c stack t hinv h
    cases ev with
    | done =>
      cases stack with
      | nil => cases h
      | cons n rest =>
        cases rest with
        | nil =>
          simp only [runP] at h
          cases h
          exact hinv.2
        | cons p rest' =>
          simp only [runP] at h
          obtain ⟨hn, hc, hpar, hrest⟩ := hinv
          obtain ⟨hpn, hpc⟩ := stackInv_head p rest' hrest
          refine ih c _ t ?_ h
          exact stackInv_replace p (aAdd p.1 n.1, addDtr p.2 n.2) rest' hrest
            (by rw [aAdd_isNode]; exact hpn) (cons_aAdd p.1 n.1 hpn hpc hpar hc)
            (fun u => aAdd_parOK u p.1 n.1)
    | term form toks =>
      cases stack with
      | nil => cases h
      | cons p rest =>
        simp only [runP] at h
        obtain ⟨hpn, hpc⟩ := stackInv_head p rest hinv
        refine ih c _ t ?_ h
        exact stackInv_replace p _ rest hinv (by rw [aAdd_isNode]; exact hpn)
          (cons_aAdd p.1 (.term (some p.1.uid)) hpn hpc (by simp [parOK]) rfl)
          (fun u => aAdd_parOK u p.1 _)
    | node id e sc st en =>
      simp only [runP] at h
      cases hm : mkNode id e sc st en with
      | error err => simp [hm] at h
      | ok n =>
        simp only [hm] at h
        refine ih (c + 1) _ t ?_ h
        cases stack with
        | nil => exact ⟨rfl, rfl⟩
        | cons p rest => exact ⟨rfl, rfl, by simp [parOK, topUid], hinv⟩
    | root tok =>
      simp only [runP] at h
      refine ih (c + 1) _ t ?_ h
      cases stack with
      | nil => exact ⟨rfl, rfl⟩
      | cons p rest => exact ⟨rfl, rfl, by simp [parOK], hinv⟩

end Verif.C16
