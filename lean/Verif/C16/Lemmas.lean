/- C16 helper lemmas. -/
import Verif.C16.Model

namespace Verif.C16

/-! ### shapes -/

def typeOK : Option Str → Bool
  | some [] => false
  | _ => true

mutual
/-- the shape the dictionary form supports: a terminal is the only daughter of its parent, every
non-terminal has a daughter, and a type is never the empty string -/
def DictOK : Node → Bool
  | .term _ _ => true
  | .node _ _ _ _ _ _ ty ds =>
    typeOK ty && (match ds with
      | [] => false
      | [.term _ _] => true
      | _ => DictOKL ds)
  | .root _ ds =>
    (match ds with
      | [] => false
      | [.term _ _] => true
      | _ => DictOKL ds)
def DictOKL : List Node → Bool
  | [] => true
  | d :: ds => !d.isTerm && DictOK d && DictOKL ds
end

mutual
/-- daughters are either exactly one terminal or a non-empty list of non-terminals -/
def Shape : Node → Bool
  | .term _ _ => true
  | .node _ _ _ _ _ _ _ ds =>
    (match ds with
      | [] => false
      | [.term _ _] => true
      | _ => ShapeL ds)
  | .root _ ds =>
    (match ds with
      | [] => false
      | [.term _ _] => true
      | _ => ShapeL ds)
def ShapeL : List Node → Bool
  | [] => true
  | d :: ds => !d.isTerm && Shape d && ShapeL ds
end

theorem truthy_of_typeOK (ty : Option Str) (h : typeOK ty = true) : truthy ty = ty := by
  cases ty with
  | none => rfl
  | some s => cases s with
    | nil => simp [typeOK] at h
    | cons c cs => rfl

theorem toks_getD (toks : List Tok) : (if toks.isEmpty then none else some toks).getD [] = toks := by
  cases toks <;> simp

/-! ### dictionary round trip (mutual induction over the tree) -/

mutual
theorem fromDictAux_toDict (t : Node) (h : DictOK t = true) (hn : t.isTerm = false) :
    fromDictAux (toDict t) = .ok t := by
  cases t with
  | term f ts => simp [Node.isTerm] at hn
  | node i e sc st en hd ty ds =>
    simp only [DictOK, Bool.and_eq_true] at h
    obtain ⟨hty, hds⟩ := h
    have htr := truthy_of_typeOK ty hty
    cases ds with
    | nil => simp at hds
    | cons d ds' =>
      cases ds' with
      | nil =>
        cases d with
        | term f ts => cases ts <;> simp [toDict, fromDictAux, dictNode, htr]
        | node i2 e2 sc2 st2 en2 hd2 ty2 ds2 =>
          have := fromDictList_toDictList [.node i2 e2 sc2 st2 en2 hd2 ty2 ds2] (by simpa using hds)
          simp [toDict, fromDictAux, dictNode, htr, this]
        | root e2 ds2 =>
          have := fromDictList_toDictList [.root e2 ds2] (by simpa using hds)
          simp [toDict, fromDictAux, dictNode, htr, this]
      | cons d2 ds'' =>
        have := fromDictList_toDictList (d :: d2 :: ds'') (by simpa using hds)
        simp [toDict, fromDictAux, dictNode, htr, this]
  | root e ds =>
    simp only [DictOK] at h
    cases ds with
    | nil => simp at h
    | cons d ds' =>
      cases ds' with
      | nil =>
        cases d with
        | term f ts => cases ts <;> simp [toDict, fromDictAux, dictNode]
        | node i2 e2 sc2 st2 en2 hd2 ty2 ds2 =>
          have := fromDictList_toDictList [.node i2 e2 sc2 st2 en2 hd2 ty2 ds2] (by simpa using h)
          simp [toDict, fromDictAux, dictNode, this]
        | root e2 ds2 =>
          have := fromDictList_toDictList [.root e2 ds2] (by simpa using h)
          simp [toDict, fromDictAux, dictNode, this]
      | cons d2 ds'' =>
        have := fromDictList_toDictList (d :: d2 :: ds'') (by simpa using h)
        simp [toDict, fromDictAux, dictNode, this]
theorem fromDictList_toDictList (ds : List Node) (h : DictOKL ds = true) :
    fromDictList (toDictList ds) = .ok ds := by
  cases ds with
  | nil => simp [toDictList, fromDictList]
  | cons d ds' =>
    simp only [DictOKL, Bool.and_eq_true, Bool.not_eq_true'] at h
    obtain ⟨⟨h1, h2⟩, h3⟩ := h
    simp [toDictList, fromDictList, fromDictAux_toDict d h2 h1, fromDictList_toDictList ds' h3]
end

/-! ### navigation helpers -/

theorem perm_shuffle {α} (a1 a2 b1 b2 c1 c2 : List α) :
    ((a1 ++ a2) ++ (b1 ++ b2) ++ (c1 ++ c2)).Perm ((a1 ++ b1 ++ c1) ++ (a2 ++ b2 ++ c2)) := by
  simp only [List.append_assoc]
  refine List.Perm.append_left a1 ?_
  -- a2 ++ (b1 ++ (b2 ++ (c1 ++ c2))) ~ b1 ++ (c1 ++ (a2 ++ (b2 ++ c2)))
  have h1 : (a2 ++ (b1 ++ (b2 ++ (c1 ++ c2)))).Perm (b1 ++ (a2 ++ (b2 ++ (c1 ++ c2)))) := by
    rw [← List.append_assoc, ← List.append_assoc b1 a2]
    exact List.Perm.append_right _ List.perm_append_comm
  refine h1.trans (List.Perm.append_left b1 ?_)
  have h2 : (a2 ++ (b2 ++ (c1 ++ c2))).Perm (c1 ++ (a2 ++ (b2 ++ c2))) := by
    have : (a2 ++ (b2 ++ (c1 ++ c2))) = (a2 ++ b2) ++ c1 ++ c2 := by simp
    rw [this]
    have : (c1 ++ (a2 ++ (b2 ++ c2))) = c1 ++ (a2 ++ b2) ++ c2 := by simp
    rw [this]
    exact List.Perm.append_right _ List.perm_append_comm
  exact h2

theorem preterminalsL_nonterm (self : Node) (ds : List Node) (h : ds.all (fun d => !d.isTerm) = true) :
    preterminalsL self ds = ds.flatMap preterminals := by
  induction ds with
  | nil => simp [preterminalsL]
  | cons d ds ih =>
    simp only [List.all_cons, Bool.and_eq_true, Bool.not_eq_true'] at h
    simp [preterminalsL, h.1, ih h.2]

theorem shapeL_all (ds : List Node) (h : ShapeL ds = true) : ds.all (fun d => !d.isTerm) = true := by
  induction ds with
  | nil => rfl
  | cons d ds ih =>
    simp only [ShapeL, Bool.and_eq_true, Bool.not_eq_true'] at h
    simp [h.1.1, ih h.2]

theorem any_isTerm_false (ds : List Node) (h : ds.all (fun d => !d.isTerm) = true) :
    ds.any Node.isTerm = false := by
  induction ds with
  | nil => rfl
  | cons d ds ih =>
    simp only [List.all_cons, Bool.and_eq_true, Bool.not_eq_true'] at h
    simp [h.1, ih h.2]

mutual
theorem partition_perm (t : Node) (h : Shape t = true) :
    (terminals t ++ preterminals t ++ internals t).Perm (allNodes t) := by
  cases t with
  | term f ts => simp [terminals, preterminals, internals, allNodes]
  | node i e sc st en hd ty ds =>
    simp only [Shape] at h
    cases ds with
    | nil => simp at h
    | cons d ds' =>
      cases ds' with
      | nil =>
        cases d with
        | term f ts =>
          simp [terminals, terminalsL, preterminals, preterminalsL, internals, allNodes, allNodesL, Node.isTerm]
          exact List.Perm.swap _ _ _
        | node i2 e2 sc2 st2 en2 hd2 ty2 ds2 =>
          have hs : ShapeL [.node i2 e2 sc2 st2 en2 hd2 ty2 ds2] = true := by simpa using h
          exact node_perm _ _ (by simp [Node.dtrs]) (by simp [terminals]) (by simp [preterminals])
            (by simp [internals, any_isTerm_false _ (shapeL_all _ hs)]) (by simp [allNodes]) hs
        | root e2 ds2 =>
          have hs : ShapeL [.root e2 ds2] = true := by simpa using h
          exact node_perm _ _ (by simp [Node.dtrs]) (by simp [terminals]) (by simp [preterminals])
            (by simp [internals, any_isTerm_false _ (shapeL_all _ hs)]) (by simp [allNodes]) hs
      | cons d2 ds'' =>
        have hs : ShapeL (d :: d2 :: ds'') = true := by simpa using h
        exact node_perm _ _ (by simp [Node.dtrs]) (by simp [terminals]) (by simp [preterminals])
          (by simp [internals, any_isTerm_false _ (shapeL_all _ hs)]) (by simp [allNodes]) hs
  | root e ds =>
    simp only [Shape] at h
    cases ds with
    | nil => simp at h
    | cons d ds' =>
      cases ds' with
      | nil =>
        cases d with
        | term f ts =>
          simp [terminals, terminalsL, preterminals, preterminalsL, internals, allNodes, allNodesL, Node.isTerm]
          exact List.Perm.swap _ _ _
        | node i2 e2 sc2 st2 en2 hd2 ty2 ds2 =>
          have hs : ShapeL [.node i2 e2 sc2 st2 en2 hd2 ty2 ds2] = true := by simpa using h
          exact node_perm _ _ (by simp [Node.dtrs]) (by simp [terminals]) (by simp [preterminals])
            (by simp [internals, any_isTerm_false _ (shapeL_all _ hs)]) (by simp [allNodes]) hs
        | root e2 ds2 =>
          have hs : ShapeL [.root e2 ds2] = true := by simpa using h
          exact node_perm _ _ (by simp [Node.dtrs]) (by simp [terminals]) (by simp [preterminals])
            (by simp [internals, any_isTerm_false _ (shapeL_all _ hs)]) (by simp [allNodes]) hs
      | cons d2 ds'' =>
        have hs : ShapeL (d :: d2 :: ds'') = true := by simpa using h
        exact node_perm _ _ (by simp [Node.dtrs]) (by simp [terminals]) (by simp [preterminals])
          (by simp [internals, any_isTerm_false _ (shapeL_all _ hs)]) (by simp [allNodes]) hs
theorem node_perm (self : Node) (ds : List Node) (_hd : self.dtrs = ds)
    (ht : terminals self = terminalsL ds) (hp : preterminals self = preterminalsL self ds)
    (hi : internals self = self :: internalsL ds) (ha : allNodes self = self :: allNodesL ds)
    (hs : ShapeL ds = true) :
    (terminals self ++ preterminals self ++ internals self).Perm (allNodes self) := by
  rw [ht, hp, hi, ha, preterminalsL_nonterm self ds (shapeL_all ds hs)]
  have := partitionL_perm ds hs
  refine List.Perm.trans ?_ (List.Perm.cons self this)
  exact List.perm_middle
theorem partitionL_perm (ds : List Node) (h : ShapeL ds = true) :
    (terminalsL ds ++ ds.flatMap preterminals ++ internalsL ds).Perm (allNodesL ds) := by
  cases ds with
  | nil => simp [terminalsL, internalsL, allNodesL]
  | cons d ds' =>
    simp only [ShapeL, Bool.and_eq_true, Bool.not_eq_true'] at h
    obtain ⟨⟨_, h2⟩, h3⟩ := h
    simp only [terminalsL, internalsL, allNodesL, List.flatMap_cons]
    exact (perm_shuffle _ _ _ _ _ _).trans (List.Perm.append (partition_perm d h2) (partitionL_perm ds' h3))
end

mutual
theorem terminals_class (t : Node) : ∀ n ∈ terminals t, n.isTerm = true := by
  cases t with
  | term f ts => intro n hn; simp [terminals] at hn; subst hn; rfl
  | node i e sc st en hd ty ds => intro n hn; simp only [terminals] at hn; exact terminalsL_class ds n hn
  | root e ds => intro n hn; simp only [terminals] at hn; exact terminalsL_class ds n hn
theorem terminalsL_class (ds : List Node) : ∀ n ∈ terminalsL ds, n.isTerm = true := by
  cases ds with
  | nil => intro n hn; simp [terminalsL] at hn
  | cons d ds' =>
    intro n hn
    simp only [terminalsL, List.mem_append] at hn
    rcases hn with h | h
    · exact terminals_class d n h
    · exact terminalsL_class ds' n h
end

mutual
theorem internals_class (t : Node) :
    ∀ n ∈ internals t, n.isTerm = false ∧ n.dtrs.any Node.isTerm = false := by
  cases t with
  | term f ts => intro n hn; simp [internals] at hn
  | node i e sc st en hd ty ds =>
    intro n hn
    simp only [internals] at hn
    split at hn
    · simp at hn
    · rename_i hany
      simp only [List.mem_cons] at hn
      rcases hn with h | h
      · subst h; exact ⟨rfl, by simpa [Node.dtrs] using hany⟩
      · exact internalsL_class ds n h
  | root e ds =>
    intro n hn
    simp only [internals] at hn
    split at hn
    · simp at hn
    · rename_i hany
      simp only [List.mem_cons] at hn
      rcases hn with h | h
      · subst h; exact ⟨rfl, by simpa [Node.dtrs] using hany⟩
      · exact internalsL_class ds n h
theorem internalsL_class (ds : List Node) :
    ∀ n ∈ internalsL ds, n.isTerm = false ∧ n.dtrs.any Node.isTerm = false := by
  cases ds with
  | nil => intro n hn; simp [internalsL] at hn
  | cons d ds' =>
    intro n hn
    simp only [internalsL, List.mem_append] at hn
    rcases hn with h | h
    · exact internals_class d n h
    · exact internalsL_class ds' n h
end

theorem preterminalsL_class (self : Node) (hs : self.isTerm = false) (ds0 ds : List Node)
    (hsub : ∀ d ∈ ds, d ∈ ds0) (hself : self.dtrs = ds0)
    (ih : ∀ d ∈ ds, ∀ n ∈ preterminals d, n.isTerm = false ∧ n.dtrs.any Node.isTerm = true) :
    ∀ n ∈ preterminalsL self ds, n.isTerm = false ∧ n.dtrs.any Node.isTerm = true := by
  induction ds with
  | nil => intro n hn; simp [preterminalsL] at hn
  | cons d ds' ihl =>
    intro n hn
    simp only [preterminalsL, List.mem_append] at hn
    rcases hn with h | h
    · split at h
      · rename_i hterm
        simp only [List.mem_singleton] at h
        subst h
        refine ⟨hs, ?_⟩
        rw [hself, List.any_eq_true]
        exact ⟨d, hsub d (by simp), hterm⟩
      · exact ih d (by simp) n h
    · exact ihl (fun x hx => hsub x (by simp [hx])) (fun x hx => ih x (by simp [hx])) n h

mutual
theorem preterminals_class (t : Node) :
    ∀ n ∈ preterminals t, n.isTerm = false ∧ n.dtrs.any Node.isTerm = true := by
  cases t with
  | term f ts => intro n hn; simp [preterminals] at hn
  | node i e sc st en hd ty ds =>
    intro n hn
    simp only [preterminals] at hn
    exact preterminalsL_class _ rfl ds ds (fun _ h => h) rfl (preterminals_all ds) n hn
  | root e ds =>
    intro n hn
    simp only [preterminals] at hn
    exact preterminalsL_class _ rfl ds ds (fun _ h => h) rfl (preterminals_all ds) n hn
theorem preterminals_all (ds : List Node) :
    ∀ d ∈ ds, ∀ n ∈ preterminals d, n.isTerm = false ∧ n.dtrs.any Node.isTerm = true := by
  cases ds with
  | nil => intro d hd; simp at hd
  | cons d0 ds' =>
    intro d hd
    simp only [List.mem_cons] at hd
    rcases hd with h | h
    · subst h; exact preterminals_class d
    · exact preterminals_all ds' d h
end

/-! ### roots below the top of a tree built by `from_dict` -/

mutual
/-- no root anywhere in the subtree (the node itself included) -/
def NoRoot : Node → Bool
  | .term _ _ => true
  | .node _ _ _ _ _ _ _ ds => NoRootL ds
  | .root _ _ => false
def NoRootL : List Node → Bool
  | [] => true
  | d :: ds => NoRoot d && NoRootL ds
end

mutual
/-- the entry and every entry below it carries an `id` -/
def HasIds : D → Bool
  | .mk _ id _ _ _ _ _ _ _ dtrs =>
    id.isSome && (match dtrs with
      | none => true
      | some ds => HasIdsL ds)
def HasIdsL : List D → Bool
  | [] => true
  | d :: ds => HasIds d && HasIdsL ds
end

def DtrsHaveIds : D → Bool
  | .mk _ _ _ _ _ _ _ _ _ dtrs =>
    match dtrs with
    | none => true
    | some ds => HasIdsL ds

theorem dictNode_some_id (entity : Option Str) (i : Int) (score : Option Str) (start stop : Option Int)
    (type : Option Str) (head : Bool) (dtrs : List Node) (t : Node)
    (h : dictNode entity (some i) score start stop type head dtrs = .ok t) :
    NoRoot t = NoRootL dtrs := by
  cases entity with
  | none => simp [dictNode] at h
  | some e =>
    simp only [dictNode] at h
    cases h
    simp [NoRoot]

theorem dictNode_dtrs (entity : Option Str) (id : Option Int) (score : Option Str) (start stop : Option Int)
    (type : Option Str) (head : Bool) (dtrs : List Node) (t : Node)
    (h : dictNode entity id score start stop type head dtrs = .ok t) : t.dtrs = dtrs := by
  cases entity with
  | none => simp [dictNode] at h
  | some e =>
    cases id with
    | some i => simp only [dictNode] at h; cases h; rfl
    | none =>
      simp only [dictNode] at h
      split at h
      · cases h
      · cases h; rfl

mutual
theorem fromDictAux_noRoot : (d : D) → HasIds d = true → (t : Node) → fromDictAux d = .ok t →
    NoRoot t = true
  | .mk entity id score start stop type head form tokens (some ds), h, t, ht => by
    simp only [HasIds, Bool.and_eq_true, Option.isSome_iff_exists] at h
    obtain ⟨⟨i, hi⟩, hds⟩ := h
    subst hi
    simp only [fromDictAux] at ht
    cases entity with
    | none => simp at ht
    | some e =>
      simp only at ht
      cases hl : fromDictList ds with
      | error err => simp [hl] at ht
      | ok dtrs =>
        simp only [hl] at ht
        rw [dictNode_some_id _ _ _ _ _ _ _ _ _ ht]
        exact fromDictList_noRoot ds hds dtrs hl
  | .mk entity id score start stop type head form tokens none, h, t, ht => by
    simp only [HasIds, Bool.and_eq_true, Option.isSome_iff_exists] at h
    obtain ⟨⟨i, hi⟩, _⟩ := h
    subst hi
    simp only [fromDictAux] at ht
    cases form with
    | none => simp at ht
    | some f =>
      simp only at ht
      rw [dictNode_some_id _ _ _ _ _ _ _ _ _ ht]
      simp [NoRootL, NoRoot]
theorem fromDictList_noRoot : (ds : List D) → HasIdsL ds = true → (ts : List Node) →
    fromDictList ds = .ok ts → NoRootL ts = true
  | [], _, ts, ht => by simp only [fromDictList] at ht; cases ht; rfl
  | d :: ds', h, ts, ht => by
    simp only [HasIdsL, Bool.and_eq_true] at h
    simp only [fromDictList] at ht
    cases h1 : fromDictAux d with
    | error err => simp [h1] at ht
    | ok n =>
      cases h2 : fromDictList ds' with
      | error err => simp [h1, h2] at ht
      | ok ns =>
        simp only [h1, h2] at ht
        cases ht
        simp [NoRootL, fromDictAux_noRoot d h.1 n h1, fromDictList_noRoot ds' h.2 ns h2]
end

theorem fromDictAux_dtrs_noRoot (d : D) (h : DtrsHaveIds d = true) (t : Node)
    (ht : fromDictAux d = .ok t) : NoRootL t.dtrs = true := by
  cases d with
  | mk entity id score start stop type head form tokens daughters =>
    cases daughters with
    | some ds =>
      simp only [fromDictAux] at ht
      cases entity with
      | none => simp at ht
      | some e =>
        simp only at ht
        cases hl : fromDictList ds with
        | error err => simp [hl] at ht
        | ok dtrs =>
          simp only [hl] at ht
          rw [dictNode_dtrs _ _ _ _ _ _ _ _ _ ht]
          exact fromDictList_noRoot ds (by simpa [DtrsHaveIds] using h) dtrs hl
    | none =>
      simp only [fromDictAux] at ht
      cases form with
      | none => simp at ht
      | some f =>
        simp only at ht
        rw [dictNode_dtrs _ _ _ _ _ _ _ _ _ ht]
        simp [NoRootL, NoRoot]

theorem topCheck_ok_eq (n t : Node) (h : topCheck n = .ok t) : n = t ∧ t.dtrs.any Node.isRoot = false := by
  unfold topCheck at h
  split at h
  · cases h
  · rename_i hany
    have hnt : n = t := by
      split at h
      · split at h
        · cases h
        · exact Except.ok.inj h
      · cases h
      · exact Except.ok.inj h
    subst hnt
    exact ⟨rfl, by simpa using hany⟩

end Verif.C16
