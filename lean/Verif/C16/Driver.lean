/- C16 line-protocol driver: `lake env lean --run Verif/C16/Driver.lean` -/
import Verif.Common.Proto
import Verif.C16.Model
import Verif.C16.Parent
import Verif.C16.Eq
import Verif.C16.Fields
open Lean Verif.Proto Verif.C16

namespace Verif.C16.Driver

def errTag : Err → String
  | .syntaxError => "SyntaxError"
  | .indexError => "IndexError"
  | .valueError => "ValueError"
  | .keyError => "KeyError"
  | .unmodelled => "unmodelled"

def jTok (t : Tok) : Json := Json.arr #[jNat t.id, cps t.tfs]

partial def jNode : Node → Json
  | .term f ts => Json.mkObj [("k", Json.str "t"), ("f", cps f), ("toks", jList jTok ts)]
  | .node i e sc st en h ty ds =>
    Json.mkObj [("k", Json.str "n"), ("id", jInt i), ("e", cps e), ("sc", cps sc), ("st", jInt st),
                ("en", jInt en), ("h", Json.bool h), ("ty", optCps ty), ("d", jList jNode ds)]
  | .root e ds => Json.mkObj [("k", Json.str "r"), ("e", cps e), ("d", jList jNode ds)]

def ofTok (j : Json) : Except String Tok := do
  let a ← j.getArr?
  match a.toList with
  | [i, t] => pure ⟨← i.getNat?, ← ofCps t⟩
  | _ => throw "bad token"

partial def ofNode (j : Json) : Except String Node := do
  let k ← getStr j "k"
  match k with
  | "t" => pure (.term (← getCps j "f") (← (← getArr j "toks").mapM ofTok))
  | "n" =>
    let ds ← (← getArr j "d").mapM ofNode
    pure (.node (← getInt j "id") (← getCps j "e") (← getCps j "sc") (← getInt j "st") (← getInt j "en")
            (← getBool j "h") (← getOptCps j "ty") ds)
  | "r" => pure (.root (← getCps j "e") (← (← getArr j "d").mapM ofNode))
  | _ => throw s!"bad node kind {k}"

def jRes (r : Except Err Node) : Json :=
  match r with
  | .ok n => jOk (jNode n)
  | .error e => jErr (errTag e)

def jOptToks : Option (List Tok) → Json
  | none => Json.null
  | some ts => jList jTok ts

partial def jD : D → Json
  | .mk entity id score start stop type head form tokens daughters =>
    Json.mkObj [("entity", optCps entity), ("id", jOptInt id), ("score", optCps score),
                ("start", jOptInt start), ("end", jOptInt stop), ("type", optCps type),
                ("head", Json.bool head), ("form", optCps form), ("tokens", jOptToks tokens),
                ("daughters", match daughters with
                              | none => Json.null
                              | some ds => jList jD ds)]

def optField (j : Json) (k : String) : Option Json :=
  match j.getObjVal? k with
  | .ok Json.null => none
  | .ok v => some v
  | .error _ => none

partial def ofD (j : Json) : Except String D := do
  let oc (k : String) : Except String (Option Str) :=
    match optField j k with
    | none => pure none
    | some v => do pure (some (← ofCps v))
  let oi (k : String) : Except String (Option Int) :=
    match optField j k with
    | none => pure none
    | some v => do pure (some (← v.getInt?))
  let toks ← match optField j "tokens" with
    | none => pure none
    | some v => do pure (some (← (← v.getArr?).toList.mapM ofTok))
  let dtrs ← match optField j "daughters" with
    | none => pure none
    | some v => do pure (some (← (← v.getArr?).toList.mapM ofD))
  pure (.mk (← oc "entity") (← oi "id") (← oc "score") (← oi "start") (← oi "end") (← oc "type")
          (← getBool j "head") (← oc "form") toks dtrs)

def jEv : Ev → Json
  | .node id e sc st en => Json.mkObj [("k", Json.str "node"), ("id", cps id), ("e", cps e), ("sc", cps sc),
                                        ("st", cps st), ("en", cps en)]
  | .done => Json.mkObj [("k", Json.str "done")]
  | .term f t => Json.mkObj [("k", Json.str "term"), ("f", cps f), ("toks", cps t)]
  | .root t => Json.mkObj [("k", Json.str "root"), ("tok", cps t)]

def ofIndent (j : Json) : Except String (Option Nat) :=
  match j.getObjVal? "indent" with
  | .ok Json.null => pure none
  | .ok v => do pure (some (← v.getNat?))
  | .error _ => pure none

def jOptNat : Option Nat → Json
  | none => Json.null
  | some n => jNat n

def jPar (xs : List (Option Nat × Option Nat)) : Json :=
  jList (fun (p : Option Nat × Option Nat) => Json.arr #[jOptNat p.1, jOptNat p.2]) xs

/-- (number, recorded parent) of every node of the tree `from_string` returns, from the annotated
stack machine; null when `from_string` raises -/
def parentsOfText (s : Str) : Json :=
  match fromString s with
  | .ok _ =>
    (match runP (scan (s.drop 1)) 0 [] with
     | .ok t => jPar (flat t.1)
     | .error _ => Json.null)
  | .error _ => Json.null

def parentsOfDict (d : D) : Json :=
  match fromDict d with
  | .ok _ =>
    (match fromDictP d 0 none with
     | some (a, _) => jPar (flat a)
     | none => Json.null)
  | .error _ => Json.null

def eqErrTag : EqErr → String
  | .attributeError => "AttributeError"
  | .unmodelled => "unmodelled"

def jEq (r : Except EqErr Bool) : Json :=
  match r with
  | .ok b => jOk (Json.bool b)
  | .error e => jErr (eqErrTag e)

/-- `is_head()` answers: true / false / null (indeterminate) or the name of the exception -/
def jHead (r : Except EqErr (Option Bool)) : Json :=
  match r with
  | .ok (some b) => Json.bool b
  | .ok none => Json.null
  | .error e => Json.str (eqErrTag e)

def fieldNames (j : Json) : Except String (Option (List String)) :=
  match j.getObjVal? "fields" with
  | .ok Json.null => pure none
  | .ok v => do
    let a ← v.getArr?
    pure (some (← a.toList.mapM (fun x => x.getStr?)))
  | .error _ => pure none

/-- `to_dict(fields=names)` and `from_dict` of it -/
def fieldKeys (t : Node) (names : Option (List String)) : List (String × Json) :=
  match names with
  | none => []
  | some ns =>
    match fieldsOf ns with
    | none => [("dict_f", jErr "ValueError"), ("fd_f", jErr "ValueError")]
    | some f => [("dict_f", jOk (jD (toDictF f t))), ("fd_f", jRes (fromDict (toDictF f t)))]

def handle (j : Json) : Except String Json := do
  let op ← getStr j "op"
  match op with
  | "tree" =>
    let t ← ofNode (← j.getObjVal? "tree")
    let ind ← ofIndent j
    let udf := toUdf false ind t
    let udx := toUdf true ind t
    let d := toDict t
    pure (Json.mkObj ([
      ("udf", cps udf), ("udx", cps udx),
      ("p_udf", jRes (fromString udf)), ("p_udx", jRes (fromString udx)),
      ("dict", jD d), ("fd", jRes (fromDict d)),
      ("par_udf", parentsOfText udf), ("par_udx", parentsOfText udx), ("par_fd", parentsOfDict d),
      ("terminals", jList jNode (terminals t)),
      ("preterminals", jList jNode (preterminals t)),
      ("internals", jList jNode (internals t)),
      ("heads", jList jHead (heads none t)),
      ("eq_self", jEq (derivEq t t)), ("eq_erased", jEq (derivEq t (eraseHT t)))]
      ++ fieldKeys t (← fieldNames j)))
  | "text" =>
    let s ← getCps j "s"
    pure (Json.mkObj [("scan", jList jEv (scan (s.drop 1))), ("parse", jRes (fromString s)),
                      ("parents", parentsOfText s)])
  | "dict" =>
    let d ← ofD (← j.getObjVal? "d")
    pure (Json.mkObj [("fd", jRes (fromDict d)), ("par_fd", parentsOfDict d)])
  | "eq" =>
    let a ← ofNode (← j.getObjVal? "a")
    let b ← ofNode (← j.getObjVal? "b")
    pure (Json.mkObj [("eq", jEq (derivEq a b)), ("eq_rev", jEq (derivEq b a)),
                      ("heads_a", jList jHead (heads none a)), ("heads_b", jList jHead (heads none b))])
  | _ => throw s!"bad op {op}"

end Verif.C16.Driver

def main : IO Unit := Verif.Proto.serve Verif.C16.Driver.handle
