/- C16 — the node numbers of the annotated `_from_dict` (`fromDictP`) are pairwise distinct. -/
import Verif.C16.Parent

namespace Verif.C16

mutual
theorem fromDictP_uids : (d : D) → (c : Nat) → (par : Option Nat) → (a : ANode) → (c' : Nat) →
    fromDictP d c par = some (a, c') →
    (uids a).Nodup ∧ c < c' ∧ ∀ u ∈ uids a, c ≤ u ∧ u < c'
  | .mk entity id score start stop type head form tokens (some ds), c, par, a, c', h => by
    cases entity with
    | none => simp [fromDictP] at h
    | some e =>
      simp only [fromDictP] at h
      cases hl : fromDictPL ds (c + 1) c with
      | none => simp [hl] at h
      | some r =>
        obtain ⟨as, c2⟩ := r
        simp only [hl, Option.some.injEq, Prod.mk.injEq] at h
        obtain ⟨ha, hc⟩ := h
        subst ha hc
        obtain ⟨hnd, hle, hb⟩ := fromDictPL_uids ds (c + 1) c as c2 hl
        refine ⟨?_, by omega, ?_⟩
        · simp only [uids, List.nodup_cons]
          exact ⟨fun hm => by have := (hb c hm).1; omega, hnd⟩
        · intro u hu
          simp only [uids, List.mem_cons] at hu
          rcases hu with hu | hu
          · subst hu; omega
          · have := hb u hu; omega
  | .mk entity id score start stop type head form tokens none, c, par, a, c', h => by
    cases entity with
    | none => simp [fromDictP] at h
    | some e =>
      cases form with
      | none => simp [fromDictP] at h
      | some f =>
        simp only [fromDictP, Option.some.injEq, Prod.mk.injEq] at h
        obtain ⟨ha, hc⟩ := h
        subst ha hc
        simp [uids, uidsL]
theorem fromDictPL_uids : (ds : List D) → (c u : Nat) → (as : List ANode) → (c' : Nat) →
    fromDictPL ds c u = some (as, c') →
    (uidsL as).Nodup ∧ c ≤ c' ∧ ∀ v ∈ uidsL as, c ≤ v ∧ v < c'
  | [], c, u, as, c', h => by
    simp only [fromDictPL, Option.some.injEq, Prod.mk.injEq] at h
    obtain ⟨ha, hc⟩ := h
    subst ha hc
    simp [uidsL]
  | d :: ds', c, u, as, c', h => by
    simp only [fromDictPL] at h
    cases h1 : fromDictP d c (some u) with
    | none => simp [h1] at h
    | some r1 =>
      obtain ⟨a, c1⟩ := r1
      cases h2 : fromDictPL ds' c1 u with
      | none => simp [h1, h2] at h
      | some r2 =>
        obtain ⟨as', c2⟩ := r2
        simp only [h1, h2, Option.some.injEq, Prod.mk.injEq] at h
        obtain ⟨ha, hc⟩ := h
        subst ha hc
        obtain ⟨n1, l1, b1⟩ := fromDictP_uids d c (some u) a c1 h1
        obtain ⟨n2, l2, b2⟩ := fromDictPL_uids ds' c1 u as' c2 h2
        refine ⟨?_, by omega, ?_⟩
        · simp only [uidsL]
          refine List.nodup_append.mpr ⟨n1, n2, ?_⟩
          intro x hx y hy hxy
          have := b1 x hx
          have := b2 y hy
          omega
        · intro v hv
          simp only [uidsL, List.mem_append] at hv
          rcases hv with hv | hv
          · have := b1 v hv; omega
          · have := b2 v hv; omega
end

end Verif.C16
