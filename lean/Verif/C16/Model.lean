/-
C16 — model of `delphin.derivation`: UDF/UDX serializer (`_to_udf`), the parser
(`_udf_re.finditer` + explicit stack in `_from_string`, `_unquote`, `_udf_tokens`),
the dictionary projection (`_to_dict_recursive` / `_from_dict`) and the navigation
helpers.  Core Lean only.  Strings are `List Char`.

Scores are carried as their printed text (`'{:g}'.format(score)` is applied on the
implementation side only).
-/
namespace Verif.C16

abbrev Str := List Char

inductive Err where
  | syntaxError    -- DerivationSyntaxError
  | indexError     -- IndexError (pop from empty stack, stack[-1] on empty stack, entity[0] on '')
  | valueError     -- ValueError (int()/float() of a header field, root checks of Derivation/UDFNode)
  | keyError       -- KeyError (d['entity'] in _from_dict)
  | unmodelled     -- outside the modelled fragment (never compared)
deriving Repr, DecidableEq

structure Tok where
  id : Nat
  tfs : Str
deriving Repr, DecidableEq

/-- A derivation node.  `root` is a `UDFNode` whose id is `None`. -/
inductive Node where
  | term (form : Str) (toks : List Tok)
  | node (id : Int) (entity : Str) (score : Str) (start stop : Int)
         (head : Bool) (type : Option Str) (dtrs : List Node)
  | root (entity : Str) (dtrs : List Node)
deriving Repr

def Node.isRoot : Node → Bool
  | .root .. => true
  | _ => false

def Node.isTerm : Node → Bool
  | .term .. => true
  | _ => false

def Node.dtrs : Node → List Node
  | .term .. => []
  | .node _ _ _ _ _ _ _ ds => ds
  | .root _ ds => ds

/-! ### integers (`str(int)` / `int(str)`) -/

def natDigits (n : Nat) : Str := Nat.toDigits 10 n

def intText (i : Int) : Str :=
  match i with
  | .ofNat n => natDigits n
  | .negSucc n => '-' :: natDigits (n + 1)

def digitsToNat (cs : Str) : Nat :=
  cs.foldl (fun acc c => 10 * acc + (c.toNat - '0'.toNat)) 0

def isAsciiDigit (c : Char) : Bool := c.isDigit

/-- `int(tok)` on `[+-]?[0-9]+`; tokens with `_` or non-ASCII characters are `unmodelled`
(Python accepts `1_0` and non-ASCII digits), everything else is `ValueError`. -/
def pyInt (s : Str) : Except Err Int :=
  let (neg, body) := match s with
    | '-' :: r => (true, r)
    | '+' :: r => (false, r)
    | r => (false, r)
  if body.isEmpty then .error .valueError
  else if body.all isAsciiDigit then
    let n := digitsToNat body
    .ok (if neg then - (n : Int) else (n : Int))
  else if body.any (fun c => c = '_' || c.toNat > 127) then .error .unmodelled
  else .error .valueError

def lowerAscii (c : Char) : Char := if 'A' ≤ c ∧ c ≤ 'Z' then Char.ofNat (c.toNat + 32) else c

/-- does `float(tok)` succeed?  (`none` = unmodelled: `_` or non-ASCII) -/
def pyFloatOk (s : Str) : Option Bool :=
  if s.any (fun c => c = '_' || c.toNat > 127) then none else
  let body := match s with
    | '-' :: r => r
    | '+' :: r => r
    | r => r
  let low := body.map lowerAscii
  if low = "inf".toList || low = "infinity".toList || low = "nan".toList then some true else
  let ip := body.takeWhile isAsciiDigit
  let r1 := body.dropWhile isAsciiDigit
  let (fp, r2, dot) := match r1 with
    | '.' :: r => (r.takeWhile isAsciiDigit, r.dropWhile isAsciiDigit, true)
    | r => ([], r, false)
  let _ := dot
  if ip.isEmpty && fp.isEmpty then some false else
  match r2 with
  | [] => some true
  | e :: r3 =>
    if e = 'e' || e = 'E' then
      let r4 := match r3 with
        | '-' :: r => r
        | '+' :: r => r
        | r => r
      some (!r4.isEmpty && r4.all isAsciiDigit)
    else some false

/-! ### serializer (`_to_udf`) -/

/-- `' ' if indent is None else '\n' + ' ' * indent * level` -/
def delim (indent : Option Nat) (level : Nat) : Str :=
  match indent with
  | none => [' ']
  | some n => '\n' :: List.replicate (n * level) ' '

/-- UDX decoration of the entity: `^` for a head mark, `@type` for a non-empty type. -/
def decorate (udx : Bool) (entity : Str) (head : Bool) (type : Option Str) : Str :=
  if udx then
    let e := if head then '^' :: entity else entity
    match type with
    | some (c :: cs) => e ++ '@' :: c :: cs
    | _ => e
  else entity

def tokText (t : Tok) : Str := natDigits t.id ++ ' ' :: '"' :: t.tfs ++ ['"']

/-- text of a terminal after its opening parenthesis -/
def termInner (d : Str) (form : Str) (toks : List Tok) : Str :=
  '"' :: form ++ '"' :: (toks.flatMap (fun t => d ++ tokText t)) ++ [')']

def header (udx : Bool) (id : Int) (entity score : Str) (start stop : Int) (head : Bool)
    (type : Option Str) : Str :=
  intText id ++ ' ' :: decorate udx entity head type ++ ' ' :: score ++ ' ' :: intText start
    ++ ' ' :: intText stop

mutual
/-- `_to_udf(obj, indent, level, udx)` without its opening parenthesis -/
def inner (udx : Bool) (indent : Option Nat) (level : Nat) : Node → Str
  | .term form toks => termInner (delim indent level) form toks
  | .node id e sc st en h ty ds =>
    header udx id e sc st en h ty ++ innerDtrs udx indent level ds ++ [')']
  | .root e ds => e ++ innerDtrs udx indent level ds ++ [')']
/-- `delim.join([''] + [_to_udf(d, indent, level+1, udx) for d in daughters])` -/
def innerDtrs (udx : Bool) (indent : Option Nat) (level : Nat) : List Node → Str
  | [] => []
  | d :: ds => delim indent level ++ '(' :: inner udx indent (level + 1) d
      ++ innerDtrs udx indent level ds
end

/-- `to_udf(indent)` / `to_udx(indent)` -/
def toUdf (udx : Bool) (indent : Option Nat) (t : Node) : Str := '(' :: inner udx indent 1 t

/-! ### scanner: `_udf_re.finditer` -/

/-- Python `\s` on `str` patterns. -/
def isWs (c : Char) : Bool :=
  let n := c.toNat
  (9 ≤ n && n ≤ 13) || (28 ≤ n && n ≤ 32) || n = 0x85 || n = 0xA0 || n = 0x1680
  || (0x2000 ≤ n && n ≤ 0x200A) || n = 0x2028 || n = 0x2029 || n = 0x202F || n = 0x205F || n = 0x3000

/-- a character of `{token}` = `[^\s()]` -/
def isAtomCh (c : Char) : Bool := !isWs c && c != '(' && c != ')'

def skipWs (s : Str) : Str := s.dropWhile isWs

/-- `\s+` -/
def ws1 : Str → Option Str
  | c :: r => if isWs c then some (skipWs r) else none
  | [] => none

/-- `{token}` = `[^\s()]+` (greedy; what follows is never an atom character) -/
def takeAtom (s : Str) : Option (Str × Str) :=
  match s.takeWhile isAtomCh with
  | [] => none
  | a => some (a, s.dropWhile isAtomCh)

/-- `\d+` -/
def takeDigits (s : Str) : Option (Str × Str) :=
  match s.takeWhile isAsciiDigit with
  | [] => none
  | a => some (a, s.dropWhile isAsciiDigit)

/-- body of `{string}` after the opening quote: `[^"\\]*(?:\\.[^"\\]*)*"`; `.` does not
match a newline.  Returns (body, rest after the closing quote). -/
def strBody : Str → Option (Str × Str)
  | [] => none
  | c :: r =>
    if c = '"' then some ([], r)
    else if c = '\\' then
      match r with
      | [] => none
      | d :: r' =>
        if d = '\n' then none
        else match strBody r' with
          | some (b, r'') => some ('\\' :: d :: b, r'')
          | none => none
    else match strBody r with
      | some (b, r') => some (c :: b, r')
      | none => none

/-- `{string}`: returns (body without the quotes, rest) -/
def takeString : Str → Option (Str × Str)
  | '"' :: r => strBody r
  | _ => none

def quoted (b : Str) : Str := '"' :: b ++ ['"']

/-- A match of `_udf_re` with the raw group texts. -/
inductive Ev where
  | node (id entity score start stop : Str)
  | done
  | term (form : Str) (tokens : Str)   -- form = body of the quoted string; tokens = raw `tokens` group ('' if None)
  | root (tok : Str)
deriving Repr, DecidableEq

/-- rest of the regular-node alternative after the entity:
`\s+score\s+start\s+end\s*\(` -/
def alt1Tail (s : Str) : Option (Str × Str × Str × Str) :=
  match ws1 s with
  | none => none
  | some s =>
  match takeAtom s with
  | none => none
  | some (sc, s) =>
  match ws1 s with
  | none => none
  | some s =>
  match takeAtom s with
  | none => none
  | some (st, s) =>
  match ws1 s with
  | none => none
  | some s =>
  match takeAtom s with
  | none => none
  | some (en, s) =>
  match skipWs s with
  | '(' :: r => some (sc, st, en, r)
  | _ => none

/-- regular node: `\s*id\s+(string|token)\s+score\s+start\s+end\s*\(`; the entity tries the
quoted-string alternative first and falls back to `{token}` when the rest fails. -/
def alt1 (s : Str) : Option (Ev × Str) :=
  match takeAtom (skipWs s) with
  | none => none
  | some (id, s) =>
  match ws1 s with
  | none => none
  | some s =>
    let viaStr : Option (Ev × Str) :=
      match takeString s with
      | some (b, s') =>
        (match alt1Tail s' with
         | some (sc, st, en, r) => some (Ev.node id (quoted b) sc st en, r)
         | none => none)
      | none => none
    match viaStr with
    | some r => some r
    | none =>
      match takeAtom s with
      | none => none
      | some (e, s') =>
        match alt1Tail s' with
        | some (sc, st, en, r) => some (Ev.node id e sc st en, r)
        | none => none

/-- branch end: `\s*\)` -/
def alt2 (s : Str) : Option (Ev × Str) :=
  match skipWs s with
  | ')' :: r => some (Ev.done, r)
  | _ => none

def closeParen (s : Str) : Option Str :=
  match skipWs s with
  | ')' :: r => some r
  | _ => none

/-- `\s+\d+\s+\d+` -/
def lkbPart (s : Str) : Option Str :=
  match ws1 s with
  | none => none
  | some s =>
  match takeDigits s with
  | none => none
  | some (_, s) =>
  match ws1 s with
  | none => none
  | some s =>
  match takeDigits s with
  | none => none
  | some (_, s) => some s

/-- one iteration of `(?:\s+{token}\s+{string})`: returns the rest -/
def tokIter (s : Str) : Option Str :=
  match ws1 s with
  | none => none
  | some s =>
  match takeAtom s with
  | none => none
  | some (_, s) =>
  match ws1 s with
  | none => none
  | some s =>
  match takeString s with
  | none => none
  | some (_, s) => some s

/-- `(?:\s+{token}\s+{string})*` greedy: the rest after the last iteration -/
def tokGroup : Nat → Str → Str
  | 0, s => s
  | f + 1, s =>
    match tokIter s with
    | some s' => if s'.length < s.length then tokGroup f s' else s
    | none => s

/-- terminal: `\s*{string}(lkb|tokens)?\s*\)` -/
def alt3 (s : Str) : Option (Ev × Str) :=
  match takeString (skipWs s) with
  | none => none
  | some (b, s1) =>
    let viaLkb : Option (Ev × Str) :=
      match lkbPart s1 with
      | some s2 => (match closeParen s2 with
                    | some r => some (Ev.term b [], r)
                    | none => none)
      | none => none
    match viaLkb with
    | some r => some r
    | none =>
      let s2 := tokGroup s1.length s1
      match closeParen s2 with
      | some r => some (Ev.term b (s1.take (s1.length - s2.length)), r)
      | none => none

/-- root symbol: `\s*{token}\s*\(?` -/
def alt4 (s : Str) : Option (Ev × Str) :=
  match takeAtom (skipWs s) with
  | none => none
  | some (a, s) =>
    match skipWs s with
    | '(' :: r => some (Ev.root a, r)
    | r => some (Ev.root a, r)

/-- the alternation, in the order of the pattern (since repair 1bc520a the terminal
alternative is tried first) -/
def matchAt (s : Str) : Option (Ev × Str) :=
  match alt3 s with
  | some r => some r
  | none =>
  match alt1 s with
  | some r => some r
  | none =>
  match alt2 s with
  | some r => some r
  | none => alt4 s

/-- `finditer`: leftmost match, continue after it; unmatched characters are skipped. -/
def scan (s : Str) : List Ev :=
  match s with
  | [] => []
  | c :: r =>
    match matchAt (c :: r) with
    | some (ev, rest) =>
      if rest.length < (c :: r).length then ev :: scan rest else [ev]
    | none => scan r
termination_by s.length

/-! ### `_unquote`, `_udf_tokens` -/

/-- `re.sub(r'^"(.*)"$', r'\1', '"' + body + '"', flags=re.DOTALL)`: the body (since repair
07039db `.` also matches a newline, so every body loses its quotes). -/
def unquoteBody (b : Str) : Str := b

/-- one attempt of `\s*(\d+)\s+({string})` -/
def tokAt (s : Str) : Option (Tok × Str) :=
  match takeDigits (skipWs s) with
  | none => none
  | some (ds, s) =>
  match ws1 s with
  | none => none
  | some s =>
  match takeString s with
  | none => none
  | some (b, s) => some (⟨digitsToNat ds, unquoteBody b⟩, s)

/-- `re.findall` over the raw tokens group -/
def findToks (s : Str) : List Tok :=
  match s with
  | [] => []
  | c :: r =>
    match tokAt (c :: r) with
    | some (t, rest) => if rest.length < (c :: r).length then t :: findToks rest else [t]
    | none => findToks r
termination_by s.length

/-! ### the stack machine of `_from_string` -/

def addDtr : Node → Node → Node
  | .node i e sc st en h ty ds, d => .node i e sc st en h ty (ds ++ [d])
  | .root e ds, d => .root e (ds ++ [d])
  | .term f ts, _ => .term f ts

/-- `entity, _, type = s.partition('@')`, `^` prefix, `'' ↦ None` -/
def decodeEntity (raw : Str) : Except Err (Str × Bool × Option Str) :=
  let ent := raw.takeWhile (· != '@')
  let ty := (raw.dropWhile (· != '@')).drop 1
  match ent with
  | [] => .error .indexError
  | c :: cs =>
    let (ent, head) := if c = '^' then (cs, true) else (c :: cs, false)
    .ok (ent, head, if ty.isEmpty then none else some ty)

def mkNode (id entity score start stop : Str) : Except Err Node :=
  match decodeEntity entity with
  | .error e => .error e
  | .ok (ent, head, ty) =>
  match pyInt id with
  | .error e => .error e
  | .ok i =>
  match pyFloatOk score with
  | none => .error .unmodelled
  | some false => .error .valueError
  | some true =>
  match pyInt start with
  | .error e => .error e
  | .ok st =>
  match pyInt stop with
  | .error e => .error e
  | .ok en => .ok (.node i ent score st en head ty [])

def run : List Ev → List Node → Except Err Node
  | [], _ => .error .syntaxError
  | .done :: evs, stack =>
    (match stack with
     | [] => .error .indexError
     | [n] => .ok n
     | n :: p :: rest => run evs (addDtr p n :: rest))
  | .term form toks :: evs, stack =>
    (match stack with
     | [] => .error .indexError
     | p :: rest => run evs (addDtr p (.term (unquoteBody form) (findToks toks)) :: rest))
  | .node id e sc st en :: evs, stack =>
    (match mkNode id e sc st en with
     | .error err => .error err
     | .ok n => run evs (n :: stack))
  | .root tok :: evs, stack => run evs (.root tok [] :: stack)

/-- the checks of `Derivation(*udfnode, …)` → `UDFNode.__new__` + `Derivation.__init__` -/
def topCheck (n : Node) : Except Err Node :=
  if n.dtrs.any Node.isRoot then .error .valueError
  else match n with
    | .root _ [d] => if d.isTerm then .error .valueError else .ok n
    | .root _ _ => .error .valueError
    | _ => .ok n

def endsWithParen : Str → Bool
  | [] => false
  | [c] => c = ')'
  | _ :: r => endsWithParen r

/-- `derivation.from_string` -/
def fromString (s : Str) : Except Err Node :=
  match s with
  | '(' :: r =>
    if endsWithParen s then
      match run (scan r) [] with
      | .error e => .error e
      | .ok n => topCheck n
    else .error .syntaxError
  | _ => .error .syntaxError

/-! ### dictionary form -/

/-- the dict written by `_to_dict_recursive` (absent key = `none`; `head` is only ever `True`) -/
inductive D where
  | mk (entity : Option Str) (id : Option Int) (score : Option Str) (start stop : Option Int)
       (type : Option Str) (head : Bool) (form : Option Str) (tokens : Option (List Tok))
       (daughters : Option (List D))
deriving Repr

def truthy (t : Option Str) : Option Str :=
  match t with
  | some (c :: cs) => some (c :: cs)
  | _ => none

mutual
def toDict : Node → D
  | .term form toks => .mk none none none none none none false (some form)
      (if toks.isEmpty then none else some toks) none
  | .node id e sc st en h ty ds =>
    (match ds with
     | [] => .mk (some e) (some id) (some sc) (some st) (some en) (truthy ty) h none none none
     | [.term form toks] =>
       .mk (some e) (some id) (some sc) (some st) (some en) (truthy ty) h (some form)
         (if toks.isEmpty then none else some toks) none
     | _ => .mk (some e) (some id) (some sc) (some st) (some en) (truthy ty) h none none
         (some (toDictList ds)))
  | .root e ds =>
    (match ds with
     | [] => .mk (some e) none none none none none false none none none
     | [.term form toks] => .mk (some e) none none none none none false (some form)
         (if toks.isEmpty then none else some toks) none
     | _ => .mk (some e) none none none none none false none none (some (toDictList ds)))
def toDictList : List Node → List D
  | [] => []
  | d :: ds => toDict d :: toDictList ds
end

/-- `UDFNode(d.get('id'), d['entity'], score=…, start=…, end=…, head=…, type=…)` -/
def dictNode (entity : Option Str) (id : Option Int) (score : Option Str) (start stop : Option Int)
    (type : Option Str) (head : Bool) (dtrs : List Node) : Except Err Node :=
  match entity with
  | none => .error .keyError
  | some e =>
    match id with
    | some i => .ok (.node i e (score.getD ['-', '1']) (start.getD (-1)) (stop.getD (-1)) head type dtrs)
    | none =>
      if score.isSome || start.isSome || stop.isSome || type.isSome || head then .error .unmodelled
      else .ok (.root e dtrs)

mutual
def fromDictAux : D → Except Err Node
  | .mk entity id score start stop type head form tokens daughters =>
    match daughters with
    | some ds =>
      (match entity with
       | none => .error .keyError
       | some _ =>
         match fromDictList ds with
         | .error e => .error e
         | .ok dtrs => dictNode entity id score start stop type head dtrs)
    | none =>
      match form with
      | some f => dictNode entity id score start stop type head [.term f (tokens.getD [])]
      | none => .error .valueError
def fromDictList : List D → Except Err (List Node)
  | [] => .ok []
  | d :: ds =>
    match fromDictAux d with
    | .error e => .error e
    | .ok n =>
      match fromDictList ds with
      | .error e => .error e
      | .ok ns => .ok (n :: ns)
end

/-- `derivation.from_dict` (after repair 17b863b the top keeps head and type) -/
def fromDict (d : D) : Except Err Node :=
  match fromDictAux d with
  | .error e => .error e
  | .ok n => topCheck n

/-! ### navigation helpers -/

mutual
def terminals : Node → List Node
  | .term f ts => [.term f ts]      -- (not a method of terminals; used for daughters only)
  | .node _ _ _ _ _ _ _ ds => terminalsL ds
  | .root _ ds => terminalsL ds
def terminalsL : List Node → List Node
  | [] => []
  | d :: ds => terminals d ++ terminalsL ds
end

mutual
/-- `preterminals`: `self` once per terminal daughter, else the daughters' preterminals -/
def preterminals : Node → List Node
  | .term _ _ => []
  | .node i e sc st en h ty ds => preterminalsL (.node i e sc st en h ty ds) ds
  | .root e ds => preterminalsL (.root e ds) ds
def preterminalsL (self : Node) : List Node → List Node
  | [] => []
  | d :: ds => (if d.isTerm then [self] else preterminals d) ++ preterminalsL self ds
end

mutual
def internals : Node → List Node
  | .term _ _ => []
  | .node i e sc st en h ty ds =>
    if ds.any Node.isTerm then [] else .node i e sc st en h ty ds :: internalsL ds
  | .root e ds => if ds.any Node.isTerm then [] else .root e ds :: internalsL ds
def internalsL : List Node → List Node
  | [] => []
  | d :: ds => internals d ++ internalsL ds
end

mutual
/-- every node of the tree, pre-order -/
def allNodes : Node → List Node
  | .term f ts => [.term f ts]
  | .node i e sc st en h ty ds => .node i e sc st en h ty ds :: allNodesL ds
  | .root e ds => .root e ds :: allNodesL ds
def allNodesL : List Node → List Node
  | [] => []
  | d :: ds => allNodes d ++ allNodesL ds
end

/-! plain UDF drops head marks and types -/
mutual
def eraseHT : Node → Node
  | .term f ts => .term f ts
  | .node i e sc st en _ _ ds => .node i e sc st en false none (eraseHTL ds)
  | .root e ds => .root e (eraseHTL ds)
def eraseHTL : List Node → List Node
  | [] => []
  | d :: ds => eraseHT d :: eraseHTL ds
end

end Verif.C16
