/- C16 helper lemmas for `Fields.lean` (allowlist of `to_dict`) and `Eq.lean` (`is_head`, `==`). -/
import Verif.C16.Eq
import Verif.C16.Fields
import Verif.C16.Lemmas

namespace Verif.C16

/-! ### `to_dict(fields=…)` is the restriction of `to_dict()` -/

theorem tokensD_keep (f : Fields) (toks : List Tok) :
    tokensD f toks = keep f.tokens (if toks.isEmpty then none else some toks) := by
  cases toks <;> simp [tokensD, keep]

mutual
theorem toDictF_restrict (f : Fields) (t : Node) : toDictF f t = restrictD f (toDict t) := by
  cases t with
  | term form toks => simp [toDictF, toDict, restrictD, tokensD_keep, keep]
  | node i e sc st en h ty ds =>
    cases ds with
    | nil => simp [toDictF, toDict, restrictD, nodeD, keep]
    | cons d ds' =>
      cases ds' with
      | nil =>
        cases d with
        | term fo ts => simp [toDictF, toDict, restrictD, nodeD, tokensD_keep, keep]
        | node i2 e2 sc2 st2 en2 hd2 ty2 ds2 =>
          have := toDictFL_restrict f [.node i2 e2 sc2 st2 en2 hd2 ty2 ds2]
          simp [toDictF, toDict, restrictD, nodeD, this, keep]
        | root e2 ds2 =>
          have := toDictFL_restrict f [.root e2 ds2]
          simp [toDictF, toDict, restrictD, nodeD, this, keep]
      | cons d2 ds'' =>
        have := toDictFL_restrict f (d :: d2 :: ds'')
        simp [toDictF, toDict, restrictD, nodeD, this, keep]
  | root e ds =>
    cases ds with
    | nil => simp [toDictF, toDict, restrictD, keep]
    | cons d ds' =>
      cases ds' with
      | nil =>
        cases d with
        | term fo ts => simp [toDictF, toDict, restrictD, tokensD_keep, keep]
        | node i2 e2 sc2 st2 en2 hd2 ty2 ds2 =>
          have := toDictFL_restrict f [.node i2 e2 sc2 st2 en2 hd2 ty2 ds2]
          simp [toDictF, toDict, restrictD, this, keep]
        | root e2 ds2 =>
          have := toDictFL_restrict f [.root e2 ds2]
          simp [toDictF, toDict, restrictD, this, keep]
      | cons d2 ds'' =>
        have := toDictFL_restrict f (d :: d2 :: ds'')
        simp [toDictF, toDict, restrictD, this, keep]
theorem toDictFL_restrict (f : Fields) (ds : List Node) :
    toDictFL f ds = restrictDL f (toDictList ds) := by
  cases ds with
  | nil => simp [toDictFL, toDictList, restrictDL]
  | cons d ds' =>
    simp [toDictFL, toDictList, restrictDL, toDictF_restrict f d, toDictFL_restrict f ds']
end

mutual
theorem restrictD_all : (d : D) → restrictD allFields d = d
  | .mk entity id score start stop type head form tokens none => by
    simp [restrictD, allFields, keep]
  | .mk entity id score start stop type head form tokens (some ds) => by
    simp only [restrictD, restrictDL_all ds]
    simp [allFields, keep]
theorem restrictDL_all : (ds : List D) → restrictDL allFields ds = ds
  | [] => by simp [restrictDL]
  | d :: ds => by simp only [restrictDL, restrictD_all d, restrictDL_all ds]
end

/-! ### `==` ignores ids and scores -/

mutual
/-- no node has both terminal and non-terminal daughters (`is_head()` reads `_head` of every sibling,
which a terminal does not have) -/
def Uniform : Node → Bool
  | .term _ _ => true
  | .node _ _ _ _ _ _ _ ds => (ds.all Node.isTerm || ds.all (fun d => !d.isTerm)) && UniformL ds
  | .root _ ds => (ds.all Node.isTerm || ds.all (fun d => !d.isTerm)) && UniformL ds
def UniformL : List Node → Bool
  | [] => true
  | d :: ds => Uniform d && UniformL ds
end

mutual
/-- forget what `==` ignores: node ids, scores, token ids -/
def strip : Node → Node
  | .term f ts => .term f (ts.map (fun t => ⟨0, t.tfs⟩))
  | .node _ e _ st en h ty ds => .node 0 e [] st en h ty (stripL ds)
  | .root e ds => .root e (stripL ds)
def stripL : List Node → List Node
  | [] => []
  | d :: ds => strip d :: stripL ds
end

theorem headMark_strip (n : Node) : headMark (strip n) = headMark n := by
  cases n <;> rfl

theorem isRoot_strip (n : Node) : (strip n).isRoot = n.isRoot := by
  cases n <;> rfl

theorem isTerm_strip (n : Node) : (strip n).isTerm = n.isTerm := by
  cases n <;> rfl

theorem stripL_length : (ds : List Node) → (stripL ds).length = ds.length
  | [] => rfl
  | d :: ds => by simp [stripL, stripL_length ds]

theorem anyHead_congr : (pa pb : List Node) → stripL pa = stripL pb → anyHead pa = anyHead pb
  | [], [], _ => rfl
  | [], _ :: _, h => by simp [stripL] at h
  | _ :: _, [], h => by simp [stripL] at h
  | a :: as, b :: bs, h => by
    simp only [stripL, List.cons.injEq] at h
    have hm : headMark a = headMark b := by rw [← headMark_strip a, h.1, headMark_strip b]
    simp only [anyHead, hm, anyHead_congr as bs h.2]

theorem anyHead_ok : (ds : List Node) → ds.all (fun d => !d.isTerm) = true → ∃ v, anyHead ds = .ok v
  | [], _ => ⟨false, rfl⟩
  | d :: ds, h => by
    simp only [List.all_cons, Bool.and_eq_true, Bool.not_eq_true'] at h
    obtain ⟨v, hv⟩ := anyHead_ok ds (by simpa using h.2)
    cases d with
    | term f ts => simp [Node.isTerm] at h
    | node i e sc st en hd ty ds2 => cases hd <;> simp [anyHead, headMark, hv]
    | root e ds2 => simp [anyHead, headMark, hv]

/-- the parents' daughters lists agree in everything `==` looks at and hold no terminal -/
def CtxRel : Option (List Node) → Option (List Node) → Prop
  | none, none => True
  | some pa, some pb => stripL pa = stripL pb ∧ pa.all (fun d => !d.isTerm) = true
  | _, _ => False

theorem isHead_eq (sa sb : Option (List Node)) (a b : Node) (hm : headMark a = headMark b)
    (hr : a.isRoot = b.isRoot) (hc : CtxRel sa sb) :
    ∃ v, isHead sa a = .ok v ∧ isHead sb b = .ok v := by
  unfold isHead
  rw [hm, hr]
  by_cases hcond : (headMark b = some true || b.isRoot) = true
  · simp [hcond]
  · simp only [hcond, Bool.false_eq_true, if_false]
    cases sa with
    | none =>
      cases sb with
      | none => exact ⟨_, rfl, rfl⟩
      | some pb => exact absurd hc (by simp [CtxRel])
    | some pa =>
      cases sb with
      | none => exact absurd hc (by simp [CtxRel])
      | some pb =>
        obtain ⟨hs, hall⟩ := hc
        have hlen : pa.length = pb.length := by rw [← stripL_length pa, hs, stripL_length pb]
        show ∃ v, (if pa.length = 1 then Except.ok (some true) else
              match anyHead pa with
              | Except.error e => Except.error e
              | Except.ok true => Except.ok (some false)
              | Except.ok false => Except.ok none) = Except.ok v ∧
            (if pb.length = 1 then Except.ok (some true) else
              match anyHead pb with
              | Except.error e => Except.error e
              | Except.ok true => Except.ok (some false)
              | Except.ok false => Except.ok none) = Except.ok v
        rw [← anyHead_congr pa pb hs, ← hlen]
        by_cases h1 : pa.length = 1
        · simp [h1]
        · obtain ⟨v, hv⟩ := anyHead_ok pa hall
          cases v <;> simp [h1, hv]

theorem lowerEq_refl (e : Str) : lowerEq e e = .ok true := by simp [lowerEq]

theorem tokEq_strip (ta tb : List Tok)
    (h : ta.map (fun t => (⟨0, t.tfs⟩ : Tok)) = tb.map (fun t => (⟨0, t.tfs⟩ : Tok))) :
    tokEq ta tb = true := by
  have : ta.map (·.tfs) = tb.map (·.tfs) := by
    have := congrArg (List.map (·.tfs)) h
    simpa [List.map_map, Function.comp_def] using this
  simp [tokEq, this]

theorem all_term_tail (d : Node) (ds : List Node) (pa : List Node)
    (h : (d :: ds).all Node.isTerm = true ∨ pa.all (fun d => !d.isTerm) = true) :
    ds.all Node.isTerm = true ∨ pa.all (fun d => !d.isTerm) = true := by
  rcases h with h | h
  · left; simp only [List.all_cons, Bool.and_eq_true] at h; exact h.2
  · right; exact h

mutual
theorem nodeEq_strip (a b : Node) (sa sb : Option (List Node)) (hs : strip a = strip b)
    (hu : Uniform a = true) (hc : a.isTerm = false → CtxRel sa sb) :
    nodeEq sa sb b a = .ok true := by
  cases a with
  | term fa ta =>
    cases b with
    | term fb tb =>
      simp only [strip, Node.term.injEq] at hs
      simp [nodeEq, hs.1, tokEq_strip ta tb hs.2]
    | node i e sc st en h ty ds => simp [strip] at hs
    | root e ds => simp [strip] at hs
  | node i e sc st en h ty ds =>
    cases b with
    | term fb tb => simp [strip] at hs
    | root e2 ds2 => simp [strip] at hs
    | node i2 e2 sc2 st2 en2 h2 ty2 ds2 =>
      simp only [strip, Node.node.injEq, true_and] at hs
      obtain ⟨he, hst, hen, hh, hty, hds⟩ := hs
      subst he hst hen hh hty
      simp only [Uniform, Bool.and_eq_true, Bool.or_eq_true] at hu
      obtain ⟨v, h1, h2⟩ := isHead_eq sa sb (.node i e sc st en h ty ds) (.node i2 e sc2 st en h ty ds2)
        rfl rfl (hc rfl)
      have hlen : ds.length = ds2.length := by rw [← stripL_length ds, hds, stripL_length ds2]
      have hrest := nodeEqL_strip ds ds2 ds ds2 hds hu.2 hds hu.1
      simp only [nodeEq, hdrEq, Node.isTerm, Bool.false_eq_true, if_false, Node.entity, lowerEq_refl,
        Node.ty, ne_eq, not_true_eq_false, h1, h2, Node.span, Node.dtrs, hlen, hrest]
  | root e ds =>
    cases b with
    | term fb tb => simp [strip] at hs
    | node i2 e2 sc2 st2 en2 h2 ty2 ds2 => simp [strip] at hs
    | root e2 ds2 =>
      simp only [strip, Node.root.injEq] at hs
      obtain ⟨he, hds⟩ := hs
      subst he
      simp only [Uniform, Bool.and_eq_true, Bool.or_eq_true] at hu
      obtain ⟨v, h1, h2⟩ := isHead_eq sa sb (.root e ds) (.root e ds2) rfl rfl (hc rfl)
      have hlen : ds.length = ds2.length := by rw [← stripL_length ds, hds, stripL_length ds2]
      have hrest := nodeEqL_strip ds ds2 ds ds2 hds hu.2 hds hu.1
      simp only [nodeEq, hdrEq, Node.isTerm, Bool.false_eq_true, if_false, Node.entity, lowerEq_refl,
        Node.ty, ne_eq, not_true_eq_false, h1, h2, Node.span, Node.dtrs, hlen, hrest]
theorem nodeEqL_strip (pa pb as bs : List Node) (hs : stripL as = stripL bs)
    (hu : UniformL as = true) (hp : stripL pa = stripL pb)
    (hc : as.all Node.isTerm = true ∨ pa.all (fun d => !d.isTerm) = true) :
    nodeEqL pa pb bs as = .ok true := by
  cases as with
  | nil => cases bs <;> simp [nodeEqL]
  | cons a as' =>
    cases bs with
    | nil => simp [stripL] at hs
    | cons b bs' =>
      simp only [stripL, List.cons.injEq] at hs
      simp only [UniformL, Bool.and_eq_true] at hu
      have h1 := nodeEq_strip a b (some pa) (some pb) hs.1 hu.1 (by
        intro hnt
        rcases hc with hc | hc
        · simp only [List.all_cons, Bool.and_eq_true] at hc
          rw [hnt] at hc; exact absurd hc.1 (by simp)
        · exact ⟨hp, hc⟩)
      have h2 := nodeEqL_strip pa pb as' bs' hs.2 hu.2 hp (all_term_tail a as' pa hc)
      simp [nodeEqL, h1, h2]
end

/-! ### shapes that are uniform -/

theorem dictOKL_nonterm : (ds : List Node) → DictOKL ds = true → ds.all (fun d => !d.isTerm) = true
  | [], _ => rfl
  | d :: ds, h => by
    simp only [DictOKL, Bool.and_eq_true] at h
    simp [h.1.1, dictOKL_nonterm ds h.2]

mutual
theorem uniform_of_dictOK (t : Node) (h : DictOK t = true) : Uniform t = true := by
  cases t with
  | term f ts => rfl
  | node i e sc st en hd ty ds =>
    simp only [DictOK, Bool.and_eq_true] at h
    obtain ⟨_, hds⟩ := h
    cases ds with
    | nil => simp at hds
    | cons d ds' =>
      cases ds' with
      | nil =>
        cases d with
        | term f ts => simp [Uniform, UniformL, Node.isTerm]
        | node i2 e2 sc2 st2 en2 hd2 ty2 ds2 =>
          have h2 : DictOKL [.node i2 e2 sc2 st2 en2 hd2 ty2 ds2] = true := by simpa using hds
          simp [Uniform, dictOKL_nonterm _ h2, uniformL_of_dictOKL _ h2]
        | root e2 ds2 =>
          have h2 : DictOKL [.root e2 ds2] = true := by simpa using hds
          simp [Uniform, dictOKL_nonterm _ h2, uniformL_of_dictOKL _ h2]
      | cons d2 ds'' =>
        have h2 : DictOKL (d :: d2 :: ds'') = true := by simpa using hds
        simp [Uniform, dictOKL_nonterm _ h2, uniformL_of_dictOKL _ h2]
  | root e ds =>
    simp only [DictOK] at h
    cases ds with
    | nil => simp at h
    | cons d ds' =>
      cases ds' with
      | nil =>
        cases d with
        | term f ts => simp [Uniform, UniformL, Node.isTerm]
        | node i2 e2 sc2 st2 en2 hd2 ty2 ds2 =>
          have h2 : DictOKL [.node i2 e2 sc2 st2 en2 hd2 ty2 ds2] = true := by simpa using h
          simp [Uniform, dictOKL_nonterm _ h2, uniformL_of_dictOKL _ h2]
        | root e2 ds2 =>
          have h2 : DictOKL [.root e2 ds2] = true := by simpa using h
          simp [Uniform, dictOKL_nonterm _ h2, uniformL_of_dictOKL _ h2]
      | cons d2 ds'' =>
        have h2 : DictOKL (d :: d2 :: ds'') = true := by simpa using h
        simp [Uniform, dictOKL_nonterm _ h2, uniformL_of_dictOKL _ h2]
theorem uniformL_of_dictOKL (ds : List Node) (h : DictOKL ds = true) : UniformL ds = true := by
  cases ds with
  | nil => rfl
  | cons d ds' =>
    simp only [DictOKL, Bool.and_eq_true] at h
    simp [UniformL, uniform_of_dictOK d h.1.2, uniformL_of_dictOKL ds' h.2]
end

theorem isTerm_eraseHT (n : Node) : (eraseHT n).isTerm = n.isTerm := by cases n <;> rfl

theorem all_isTerm_eraseHTL : (ds : List Node) → (eraseHTL ds).all Node.isTerm = ds.all Node.isTerm
  | [] => rfl
  | d :: ds => by simp [eraseHTL, isTerm_eraseHT, all_isTerm_eraseHTL ds]

theorem all_nonterm_eraseHTL : (ds : List Node) →
    (eraseHTL ds).all (fun d => !d.isTerm) = ds.all (fun d => !d.isTerm)
  | [] => rfl
  | d :: ds => by simp [eraseHTL, isTerm_eraseHT, all_nonterm_eraseHTL ds]

mutual
theorem uniform_eraseHT (t : Node) : Uniform (eraseHT t) = Uniform t := by
  cases t with
  | term f ts => rfl
  | node i e sc st en hd ty ds =>
    simp only [eraseHT, Uniform, all_isTerm_eraseHTL, all_nonterm_eraseHTL, uniformL_eraseHTL ds]
  | root e ds =>
    simp only [eraseHT, Uniform, all_isTerm_eraseHTL, all_nonterm_eraseHTL, uniformL_eraseHTL ds]
theorem uniformL_eraseHTL (ds : List Node) : UniformL (eraseHTL ds) = UniformL ds := by
  cases ds with
  | nil => rfl
  | cons d ds' => simp only [eraseHTL, UniformL, uniform_eraseHT d, uniformL_eraseHTL ds']
end

/-! ### what `==` does compare -/

mutual
/-- what `==` compares besides `is_head()`: lower-cased entities, types, spans, forms, token tfs, shape -/
def skel : Node → Node
  | .term f ts => .term f (ts.map (fun t => ⟨0, t.tfs⟩))
  | .node _ e _ st en _ ty ds => .node 0 (e.map lowerAscii) [] st en false ty (skelL ds)
  | .root e ds => .root (e.map lowerAscii) (skelL ds)
def skelL : List Node → List Node
  | [] => []
  | d :: ds => skel d :: skelL ds
end

theorem lowerEq_true (x y : Str) (h : lowerEq x y = .ok true) : x.map lowerAscii = y.map lowerAscii := by
  unfold lowerEq at h
  split at h
  · rename_i hxy; rw [hxy]
  · split at h
    · cases h
    · simpa using h

theorem hdrEq_true (sa sb : Option (List Node)) (a b : Node) (rest : Except EqErr Bool)
    (h : hdrEq sa a sb b rest = .ok true) :
    b.isTerm = false ∧ lowerEq a.entity b.entity = .ok true ∧ a.ty = b.ty ∧ a.span = b.span
      ∧ a.dtrs.length = b.dtrs.length ∧ rest = .ok true := by
  unfold hdrEq at h
  split at h
  · cases h
  · rename_i hbt
    split at h
    · cases h
    · cases h
    · rename_i hle
      split at h
      · cases h
      · rename_i hty
        split at h
        · cases h
        · split at h
          · cases h
          · split at h
            · cases h
            · rename_i hne
              split at h
              · cases h
              · rename_i hsp
                split at h
                · cases h
                · rename_i hlen
                  exact ⟨by simpa using hbt, hle, by simpa using hty, by simpa using hsp,
                    by simpa using hlen, h⟩

theorem tokEq_skel (ta tb : List Tok) (h : tokEq ta tb = true) :
    ta.map (fun t => (⟨0, t.tfs⟩ : Tok)) = tb.map (fun t => (⟨0, t.tfs⟩ : Tok)) := by
  have h' : ta.map (·.tfs) = tb.map (·.tfs) := by simpa [tokEq] using h
  have := congrArg (List.map (fun s => (⟨0, s⟩ : Tok))) h'
  simpa [List.map_map, Function.comp_def] using this

mutual
theorem nodeEq_skel (a b : Node) (sa sb : Option (List Node)) (h : nodeEq sa sb b a = .ok true) :
    skel a = skel b := by
  cases a with
  | term fa ta =>
    cases b with
    | term fb tb =>
      simp only [nodeEq, Except.ok.injEq, Bool.and_eq_true, beq_iff_eq] at h
      simp [skel, h.1, tokEq_skel ta tb h.2]
    | node i e sc st en hd ty ds => simp [nodeEq] at h
    | root e ds => simp [nodeEq] at h
  | node i e sc st en hd ty ds =>
    simp only [nodeEq] at h
    obtain ⟨hbt, hle, hty, hsp, hlen, hrest⟩ := hdrEq_true _ _ _ _ _ h
    cases b with
    | term fb tb => simp [Node.isTerm] at hbt
    | root e2 ds2 => simp [Node.span] at hsp
    | node i2 e2 sc2 st2 en2 hd2 ty2 ds2 =>
      simp only [Node.span, Option.some.injEq, Prod.mk.injEq] at hsp
      simp only [Node.ty] at hty
      simp only [Node.dtrs] at hlen hrest
      have := nodeEqL_skel ds ds2 ds ds2 hlen hrest
      have hl : e.map lowerAscii = e2.map lowerAscii := lowerEq_true _ _ hle
      simp [skel, hl, hsp.1, hsp.2, hty, this]
  | root e ds =>
    simp only [nodeEq] at h
    obtain ⟨hbt, hle, hty, hsp, hlen, hrest⟩ := hdrEq_true _ _ _ _ _ h
    cases b with
    | term fb tb => simp [Node.isTerm] at hbt
    | node i2 e2 sc2 st2 en2 hd2 ty2 ds2 => simp [Node.span] at hsp
    | root e2 ds2 =>
      simp only [Node.dtrs] at hlen hrest
      have := nodeEqL_skel ds ds2 ds ds2 hlen hrest
      have hl : e.map lowerAscii = e2.map lowerAscii := lowerEq_true _ _ hle
      simp [skel, hl, this]
theorem nodeEqL_skel (pa pb as bs : List Node) (hlen : as.length = bs.length)
    (h : nodeEqL pa pb bs as = .ok true) : skelL as = skelL bs := by
  cases as with
  | nil => cases bs with
    | nil => rfl
    | cons b bs' => simp at hlen
  | cons a as' =>
    cases bs with
    | nil => simp at hlen
    | cons b bs' =>
      simp only [nodeEqL] at h
      split at h
      · cases h
      · cases h
      · rename_i h1
        simp only [List.length_cons, Nat.add_right_cancel_iff] at hlen
        simp [skelL, nodeEq_skel a b _ _ h1, nodeEqL_skel pa pb as' bs' hlen h]
end

end Verif.C16
